(* XS_loadhit.v -- what a Load of XMachineS (map.go) can return, under every
   schedule: while a thread stays inside one lookup of key k in table tab, if
   its next step returns the value v, then (k, v) was VISIBLE in that table --
   key pointer k, value pointer v, presence bit set, top hash of k -- in some
   state the run went through since the lookup loaded the bucket word.
   The reader returns the value of its FIRST value load, confirmed by the second
   one having the same pointer identity.  Value pointers are fresh allocations
   (XID: every identity in a cell is below the allocation counter; a store into
   a slot of a published table brings an identity that was never seen), so the
   same identity at both loads means the value cell did not change in between,
   and the key loaded in between was k: the slot held (k, v) at the key load,
   either completely written (visible then) or with its presence bit just
   cleared by a delete (QW_D1) -- visible just before that store. *)
From CacheV Require Import Base SpecMap XMachineS.
From CacheV.proofs Require Import X_maps XS_inv XS_lock XS_own XS_count XS_cells XS_vis XS_abs XS_resize XS_read.
From Coq Require Import NArith.
Local Open Scope nat_scope.

Section SLoadHit.
  Context {K V : Type}.
  Variable eqd : forall a b : K, {a = b} + {a <> b}.
  Variable hash : K -> N -> N.
  Variable idx : N -> nat -> nat.
  Variable tophash : N -> N.
  Variable nslots : nat.
  Variable seeds : nat -> N.
  Variable grow_needed : nat -> Z -> bool.
  Variable shrink_policy : nat -> Z -> bool.
  Variable nstripes : nat -> nat.
  Variable minlen : nat.
  Variable grow_only : bool.

  Hypothesis Hslots : nslots <= 3.
  Hypothesis Hnslots : 0 < nslots.
  Hypothesis Htop : forall k sd, (tophash (hash k sd) < 1048576)%N.
  Hypothesis Hidx : forall h len, 0 < len -> idx h len < len.
  Hypothesis Hminlen : 0 < minlen.

  Notation mslot := (@mslot K V).
  Notation mtable := (@mtable K V).
  Notation mstate := (@mstate K V).
  Notation spc := (@spc K V).
  Notation slabel := (@slabel K V).
  Notation empty_mslot := (@empty_mslot K V).
  Notation sstep_pc := (@sstep_pc K V eqd hash idx tophash nslots seeds grow_needed shrink_policy nstripes minlen grow_only).
  Notation sstep := (@sstep K V eqd hash idx tophash nslots seeds grow_needed shrink_policy nstripes minlen grow_only).
  Notation srun := (@srun K V eqd hash idx tophash nslots seeds grow_needed shrink_policy nstripes minlen grow_only).
  Notation stab_at := (@stab_at K V nslots nstripes).
  Notation shome := (@shome K V hash idx).
  Notation tabT := (@tabT K V nslots nstripes).
  Notation XB := (@XB K V hash idx tophash nslots nstripes).
  Notation XCS := (@XCS K V hash idx tophash nslots nstripes).
  Notation svis := (@svis K V hash idx tophash nslots).
  Notation sinvoke := (@sinvoke K V).

  (* ---------------- XID: value pointers are fresh allocations ---------------- *)

  Definition ids_lt (n : nat) (tb : mtable) : Prop :=
    forall b pos x id, ms_val (nth pos (schain_of tb b) empty_mslot) = Some (x, id) -> id < n.

  Definition XID (s : mstate) : Prop := Forall (ids_lt (h_alloc s)) (h_tabs s).

  Lemma ids_lt_mono n m (tb : mtable) : n <= m -> ids_lt n tb -> ids_lt m tb.
  Proof. intros H Hi b pos x id E. specialize (Hi b pos x id E). lia. Qed.

  Lemma ids_lt_chains n (tb tb' : mtable) : (forall b, schain_of tb' b = schain_of tb b) -> ids_lt n tb -> ids_lt n tb'.
  Proof. intros Hc Hi b pos x id E. rewrite Hc in E. apply (Hi b pos x id E). Qed.

  Lemma ids_lt_new n len seed : ids_lt n (new_mtable nslots nstripes len seed : mtable).
  Proof.
    intros b pos x id E. exfalso. unfold schain_of, new_mtable in E. cbn [m_chains] in E.
    destruct (Nat.lt_ge_cases b len) as [L|L].
    - rewrite (nth_indep _ [] (repeat empty_mslot nslots)) in E by (rewrite repeat_length; exact L). rewrite nth_repeat in E.
      destruct (Nat.lt_ge_cases pos nslots); [rewrite nth_repeat in E | rewrite nth_overflow in E by (rewrite repeat_length; assumption)]; discriminate E.
    - rewrite (nth_overflow (repeat _ len)) in E by (rewrite repeat_length; exact L). destruct pos; discriminate E.
  Qed.

  (* a slot of chain b0 is rewritten: the new value pointer, if any, has an identity below n *)
  Lemma ids_lt_set_chain n (tb : mtable) b0 g : ids_lt n tb ->
    (forall pos x id, ms_val (nth pos (g (schain_of tb b0)) empty_mslot) = Some (x, id) -> id < n) ->
    ids_lt n (sset_chain tb b0 g).
  Proof.
    intros Hi Hg b pos x id E. unfold schain_of, sset_chain in E. cbn [m_chains] in E. rewrite nth_supd_nth in E.
    destruct (Nat.eq_dec b b0) as [->|]; [|apply (Hi b pos x id E)].
    destruct (Nat.ltb b0 (length (m_chains tb))); [apply (Hg pos x id E) | destruct pos; discriminate E].
  Qed.

  Lemma ids_lt_supd_slot n (c : list mslot) pos0 g :
    (forall pos x id, ms_val (nth pos c empty_mslot) = Some (x, id) -> id < n) ->
    (forall sl x id, ms_val (g sl) = Some (x, id) -> ms_val sl = Some (x, id) \/ id < n) ->
    forall pos x id, ms_val (nth pos (supd_nth c pos0 g) empty_mslot) = Some (x, id) -> id < n.
  Proof.
    intros Hc Hg pos x id E. rewrite nth_supd_nth in E. destruct (Nat.eq_dec pos pos0) as [->|]; [|apply (Hc pos x id E)].
    destruct (Nat.ltb pos0 (length c)); [|discriminate E]. destruct (Hg _ x id E) as [A|A]; [apply (Hc pos0 x id A) | exact A].
  Qed.

  Lemma ids_lt_sappend n (tb : mtable) b th k vp : ids_lt n tb -> (forall x id, vp = Some (x, id) -> id < n) -> ids_lt n (sappend nslots tb b th k vp).
  Proof.
    intros Hi Hv. unfold sappend. destruct (first_nil_key _ _) as [pos|].
    - apply (ids_lt_chains n (sset_slot tb b pos (fun _ => {| ms_key := Some k; ms_val := vp |}))); [intros b'; reflexivity|].
      apply ids_lt_set_chain; [exact Hi|]. apply ids_lt_supd_slot; [intros p x id E; apply (Hi b p x id E)|].
      intros sl x id E. right. apply (Hv x id E).
    - apply (ids_lt_chains n (sset_chain tb b (fun c => c ++ {| ms_key := Some k; ms_val := vp |} :: repeat empty_mslot (nslots - 1)))); [intros b'; reflexivity|].
      apply ids_lt_set_chain; [exact Hi|]. intros pos x id E.
      destruct (Nat.lt_ge_cases pos (length (schain_of tb b))) as [L|L]; [rewrite app_nth1 in E by exact L; apply (Hi b pos x id E)|].
      rewrite app_nth2 in E by exact L. destruct (pos - length (schain_of tb b)) as [|j]; [cbn in E; apply (Hv x id E)|].
      cbn [nth] in E. exfalso. destruct (Nat.lt_ge_cases j (nslots - 1)); [rewrite nth_repeat in E | rewrite nth_overflow in E by (rewrite repeat_length; assumption)]; discriminate E.
  Qed.

  Lemma ids_lt_scopy n src (dst : mtable) : ids_lt n dst -> (forall sl x id, In sl src -> ms_val sl = Some (x, id) -> id < n) ->
    ids_lt n (fst (scopy_chain hash idx tophash nslots src dst)).
  Proof.
    unfold scopy_chain. generalize 0%Z. revert dst. induction src as [|sl r IH]; intros dst z Hi Hs; cbn [fold_left fst]; [exact Hi|].
    assert (Hr : forall sl0 x id, In sl0 r -> ms_val sl0 = Some (x, id) -> id < n) by (intros sl0 x id Hin; apply Hs; right; exact Hin).
    destruct (ms_key sl) as [k|]; [|apply IH; assumption]. cbn [fst snd]. apply IH; [|exact Hr].
    apply ids_lt_sappend; [exact Hi|]. intros x id E. apply (Hs sl x id (or_introl eq_refl) E).
  Qed.


  Lemma ids_lt_tabT n T i : Forall (ids_lt n) T -> ids_lt n (tabT T i).
  Proof.
    intros H. unfold XS_lock.tabT. destruct (Nat.lt_ge_cases i (length T)) as [L|L].
    - rewrite Forall_forall in H. apply H. apply nth_In. exact L.
    - rewrite nth_overflow by exact L. apply ids_lt_new.
  Qed.

  Lemma XID_supd n n' T tab (f : mtable -> mtable) : n <= n' -> Forall (ids_lt n) T ->
    (ids_lt n (tabT T tab) -> ids_lt n' (f (tabT T tab))) -> Forall (ids_lt n') (supd_nth T tab f).
  Proof.
    intros Hn HT Hf. apply (Forall_supd_nth_at _ _ _ _ (new_mtable nslots nstripes 1 0%N)).
    - apply Forall_forall. intros tb Hin. rewrite Forall_forall in HT. apply (ids_lt_mono n n' tb Hn). apply HT. exact Hin.
    - intros _. apply Hf. apply (ids_lt_tabT n T tab HT).
  Qed.

  Lemma some_fst_h {A B} (g : A * B) a b : Some g = Some (a, b) -> a = fst g.
  Proof. intros H. inversion H. reflexivity. Qed.

  Lemma halloc_goto (S0 : mstate) t q ls : h_alloc (fst (sgoto S0 t q ls)) = h_alloc S0.
  Proof. destruct (sgoto_shared S0 t q ls) as [[_ [_ [_ [_ [_ [_ A]]]]]] _]. exact A. Qed.
  Lemma halloc_visits (S0 : mstate) t rest vf after ls : h_alloc (fst (svisits S0 t rest vf after ls)) = h_alloc S0.
  Proof. destruct (svisits_shared S0 t rest vf after ls) as [[_ [_ [_ [_ [_ [_ A]]]]]] _]. exact A. Qed.

  Lemma after_lock_ids (S1 : mstate) t tab b lk : Forall (ids_lt (h_alloc S1)) (h_tabs S1) ->
    Forall (ids_lt (h_alloc S1)) (h_tabs (fst (after_lock hash idx tophash nslots nstripes S1 t tab b lk)))
    /\ h_alloc (fst (after_lock hash idx tophash nslots nstripes S1 t tab b lk)) = h_alloc S1.
  Proof.
    intros H. unfold after_lock. destruct lk; cbv zeta; try (split; [exact H | reflexivity]).
    match goal with |- context [scopy_chain ?a ?b ?c ?d ?e ?f] => destruct (scopy_chain a b c d e f) as [nt cp] eqn:Ec end.
    cbn [fst h_tabs h_alloc sset_tab]. split; [|reflexivity].
    apply (XID_supd (h_alloc S1)); [lia | exact H|]. intros _.
    apply (ids_lt_chains _ nt); [intros b0; reflexivity|].
    pose proof (ids_lt_scopy (h_alloc S1) (schain_of (stab_at S1 tab) b) (stab_at S1 new) (ids_lt_tabT _ _ new H)) as Hc. rewrite Ec in Hc. apply Hc.
    intros sl x id Hin E. destruct (In_nth _ _ empty_mslot Hin) as [pos [_ Ep]]. rewrite <- Ep in E.
    apply (ids_lt_tabT _ _ tab H b pos x id E).
  Qed.

  Lemma XID_step_pc s t p s' ls : XID s -> sstep_pc s t p = Some (s', ls) -> XID s' /\ h_alloc s <= h_alloc s'.
  Proof.
    intros HX Hs. unfold XID in *.
    destruct p; cbn [XMachineS.sstep_pc] in Hs; cbv zeta in Hs;
      repeat match type of Hs with context [match ?x with _ => _ end] => destruct x eqn:? end;
      try discriminate Hs; apply some_fst_h in Hs; subst s'; rewrite ?htabs_goto, ?htabs_visits, ?halloc_goto, ?halloc_visits;
      cbn [fst h_tabs h_alloc sset_pc sset_tab sset_flags spush_tab sbump]; try (split; [exact HX | lia]).
    all: try (split; [|lia]; apply Forall_app; split; [exact HX | constructor; [apply ids_lt_new | constructor]]).
    all: try (split; [|lia]; apply (XID_supd (h_alloc s)); [lia | exact HX|]; intros Hi;
              first [ apply (ids_lt_chains _ (tabT (h_tabs s) tab)); [intros b0; reflexivity | exact Hi]
                    | apply ids_lt_set_chain; [first [exact Hi | apply (ids_lt_mono (h_alloc s)); [lia | exact Hi]]|];
                      apply ids_lt_supd_slot; [intros p0 x0 id0 E0; pose proof (Hi _ p0 x0 id0 E0); lia|];
                      intros sl x0 id0 E0; cbn [ms_val] in E0; first [discriminate E0 | left; exact E0 | right; inversion E0; lia] ]).
    - (* lockBucket's CAS succeeded *)
      match goal with Ha : after_lock _ _ _ _ _ ?S1 ?T ?TAB ?B ?LK = (_, _) |- _ =>
        destruct (after_lock_ids S1 T TAB B LK) as [A1 A2]; [|rewrite Ha in A1, A2; cbn [fst h_alloc sset_tab] in A1, A2] end.
      + cbn [h_tabs h_alloc sset_tab]. apply (XID_supd (h_alloc s)); [lia | exact HX|]. intros Hi.
        apply (ids_lt_chains _ (tabT (h_tabs s) tab)); [intros b0; reflexivity | exact Hi].
      + rewrite A2. split; [exact A1 | lia].
    - (* a new bucket is linked *)
      split; [|lia]. apply (XID_supd (h_alloc s)); [lia | exact HX|]. intros Hi.
      apply (ids_lt_chains _ (sset_chain (tabT (h_tabs s) tab) (shome (stab_at s tab) (sc_k cx))
                                 (fun c => c ++ {| ms_key := Some (sc_k cx); ms_val := Some (nv, h_alloc s) |} :: repeat empty_mslot (nslots - 1))));
        [intros b0; reflexivity|].
      apply ids_lt_set_chain; [apply (ids_lt_mono (h_alloc s)); [lia | exact Hi]|]. intros pos x id E.
      destruct (Nat.lt_ge_cases pos (length (schain_of (tabT (h_tabs s) tab) (shome (stab_at s tab) (sc_k cx))))) as [L|L].
      + rewrite app_nth1 in E by exact L. pose proof (Hi _ pos x id E). lia.
      + rewrite app_nth2 in E by exact L. destruct (pos - _) as [|j]; [cbn in E; inversion E; lia|].
        cbn [nth] in E. exfalso. destruct (Nat.lt_ge_cases j (nslots - 1)); [rewrite nth_repeat in E | rewrite nth_overflow in E by (rewrite repeat_length; assumption)]; discriminate E.
  Qed.

  Lemma XID_sstep s t s' ls : XID s -> sstep s t = Some (s', ls) -> XID s' /\ h_alloc s <= h_alloc s'.
  Proof.
    intros HX E. unfold XMachineS.sstep in E.
    destruct (h_pc s t) eqn:Hp; try (eapply XID_step_pc; [exact HX | exact E]).
    destruct (h_todo s t) as [|o rest]; [discriminate|].
    change (match sstep_pc (sinvoke s t o rest) t (sstart_pc o) with
            | Some (s2, ls0) => Some (s2, SInv t o :: ls0)
            | None => Some (sinvoke s t o rest, [SInv t o])
            end = Some (s', ls)) in E.
    destruct (sstep_pc (sinvoke s t o rest) t (sstart_pc o)) as [[s2 ls0]|] eqn:E2.
    - inversion E; subst s2 ls. apply (XID_step_pc (sinvoke s t o rest) t _ s' ls0 HX E2).
    - inversion E; subst s'. split; [exact HX | cbn; lia].
  Qed.

  Theorem reachable_XID len0 todo sched : XID (fst (srun (sinit nslots seeds nstripes len0 todo) sched)).
  Proof.
    assert (H0 : XID (sinit nslots seeds nstripes len0 todo)) by (constructor; [apply ids_lt_new | constructor]).
    revert H0. generalize (sinit nslots seeds nstripes len0 todo). induction sched as [|t rest IH]; intros s H; cbn [XMachineS.srun]; [exact H|].
    destruct (sstep s t) as [[s' ls]|] eqn:E.
    - specialize (IH s' (proj1 (XID_sstep s t s' ls H E))). destruct (XMachineS.srun _ _ _ _ _ _ _ _ _ _ _ s' rest). exact IH.
    - apply IH. exact H.
  Qed.


  (* ---------------- how a value pointer of a published table changes in one step ---------------- *)

  (* unchanged, set to nil, or set to the allocation made by this step *)
  Definition vstep (n : nat) (o o' : option (V * nat)) : Prop := o' = o \/ o' = None \/ exists x, o' = Some (x, n).

  Definition vtr (n : nat) (tb tb' : mtable) : Prop :=
    forall b pos, vstep n (ms_val (nth pos (schain_of tb b) empty_mslot)) (ms_val (nth pos (schain_of tb' b) empty_mslot)).

  Lemma vtr_refl n (tb : mtable) : vtr n tb tb.
  Proof. intros b pos. left. reflexivity. Qed.

  Lemma vtr_chains n (tb tb2 tb' : mtable) : (forall b, schain_of tb' b = schain_of tb2 b) -> vtr n tb tb2 -> vtr n tb tb'.
  Proof. intros Hc H b pos. rewrite Hc. apply H. Qed.

  Lemma vtr_set_chain n (tb : mtable) b0 g :
    (forall pos, vstep n (ms_val (nth pos (schain_of tb b0) empty_mslot)) (ms_val (nth pos (g (schain_of tb b0)) empty_mslot))) ->
    vtr n tb (sset_chain tb b0 g).
  Proof.
    intros Hg b pos. unfold schain_of, sset_chain in *. cbn [m_chains]. rewrite nth_supd_nth.
    destruct (Nat.eq_dec b b0) as [->|]; [|left; reflexivity].
    destruct (Nat.ltb b0 (length (m_chains tb))) eqn:E; [apply Hg|].
    apply Nat.ltb_ge in E. rewrite (nth_overflow (m_chains tb)) by exact E. left. reflexivity.
  Qed.

  Lemma vstep_supd_slot n (c : list mslot) pos0 g : (forall sl, vstep n (ms_val sl) (ms_val (g sl))) ->
    forall pos, vstep n (ms_val (nth pos c empty_mslot)) (ms_val (nth pos (supd_nth c pos0 g) empty_mslot)).
  Proof.
    intros Hg pos. rewrite nth_supd_nth. destruct (Nat.eq_dec pos pos0) as [->|]; [|left; reflexivity].
    destruct (Nat.ltb pos0 (length c)); [apply Hg | right; left; reflexivity].
  Qed.

  Lemma tabT_app_lt (T : list mtable) x i : i < length T -> tabT (T ++ [x]) i = tabT T i.
  Proof. intros H. unfold XS_lock.tabT. rewrite app_nth1 by exact H. reflexivity. Qed.

  Lemma after_lock_tab (S1 : mstate) t tab0 b lk tab : lk_new lk <> Some tab ->
    tabT (h_tabs (fst (after_lock hash idx tophash nslots nstripes S1 t tab0 b lk))) tab = tabT (h_tabs S1) tab.
  Proof.
    intros H. unfold after_lock. destruct lk; cbv zeta; try reflexivity.
    match goal with |- context [scopy_chain ?a ?b ?c ?d ?e ?f] => destruct (scopy_chain a b c d e f) as [nt cp] end.
    cbn [fst h_tabs sset_tab]. rewrite tabT_supd. destruct (Nat.eq_dec tab new) as [->|]; [|reflexivity].
    exfalso. apply H. reflexivity.
  Qed.

  Lemma vtr_step_pc s t p s' ls : XT s -> h_pc s t = p -> sstep_pc s t p = Some (s', ls) ->
    forall tab, tab <= h_cur s -> vtr (h_alloc s) (tabT (h_tabs s) tab) (tabT (h_tabs s') tab).
  Proof.
    intros HT Hp Hs tab0 Hle.
    assert (Hlt : tab0 < length (h_tabs s)) by (pose proof (xt_cur s HT); lia).
    destruct (xt_pc s HT t) as [_ Hnew]. rewrite Hp in Hnew.
    destruct p; cbn [XMachineS.sstep_pc] in Hs; cbv zeta in Hs;
      repeat match type of Hs with context [match ?x with _ => _ end] => destruct x eqn:? end;
      try discriminate Hs; apply some_fst_h in Hs; subst s'; rewrite ?htabs_goto, ?htabs_visits;
      cbn [fst h_tabs h_alloc sset_pc sset_tab sset_flags spush_tab sbump]; try apply vtr_refl.
    all: try (rewrite tabT_app_lt by exact Hlt; apply vtr_refl).
    all: try (rewrite tabT_supd; destruct (Nat.eq_dec tab0 tab) as [->|]; [|apply vtr_refl];
              destruct (Nat.ltb tab (length (h_tabs s))); [|apply vtr_refl];
              first [ apply (vtr_chains _ _ (tabT (h_tabs s) tab)); [intros b0; reflexivity | apply vtr_refl]
                    | apply vtr_set_chain; apply vstep_supd_slot; intros sl; cbn [ms_val]; unfold vstep; eauto ]).
    - (* lockBucket's CAS succeeded: a copy goes to the unpublished table *)
      match goal with Ha : after_lock _ _ _ _ _ ?S1 ?T ?TAB ?B ?LK = (_, _) |- _ =>
        pose proof (after_lock_tab S1 T TAB B LK tab0) as A; rewrite Ha in A; cbn [fst h_tabs sset_tab] in A end.
      rewrite A.
      2:{ intros E. cbn [snewtab] in Hnew. destruct (Hnew _ E). lia. }
      rewrite tabT_supd. destruct (Nat.eq_dec tab0 tab) as [->|]; [|apply vtr_refl].
      destruct (Nat.ltb tab (length (h_tabs s))); [|apply vtr_refl].
      apply (vtr_chains _ _ (tabT (h_tabs s) tab)); [intros b0; reflexivity | apply vtr_refl].
    - (* a new bucket is linked *)
      rewrite tabT_supd. destruct (Nat.eq_dec tab0 tab) as [->|]; [|apply vtr_refl].
      destruct (Nat.ltb tab (length (h_tabs s))); [|apply vtr_refl].
      apply (vtr_chains _ _ (sset_chain (tabT (h_tabs s) tab) (shome (stab_at s tab) (sc_k cx))
                                 (fun c => c ++ {| ms_key := Some (sc_k cx); ms_val := Some (nv, h_alloc s) |} :: repeat empty_mslot (nslots - 1))));
        [intros b0; reflexivity|].
      apply vtr_set_chain. intros pos.
      destruct (Nat.lt_ge_cases pos (length (schain_of (tabT (h_tabs s) tab) (shome (stab_at s tab) (sc_k cx))))) as [L|L].
      + rewrite app_nth1 by exact L. left. reflexivity.
      + rewrite app_nth2 by exact L. destruct (pos - _) as [|j]; [right; right; exists nv; reflexivity|].
        cbn [nth]. right. left. destruct (Nat.lt_ge_cases j (nslots - 1)); [rewrite nth_repeat | rewrite nth_overflow by (rewrite repeat_length; assumption)]; reflexivity.
  Qed.


  (* ---------------- NQ: what a Range frame returns to is never inside a lookup ---------------- *)

  (* what runs once the visitor's call is over: the next bucket of the Range, or its end *)
  Definition rga (a : spc) : Prop := match a with QK_Load _ _ _ | QRet SRUnit => True | _ => False end.
  Fixpoint rgp (p : spc) : Prop :=
    match p with
    | QU_Load _ _ (Some _) a | QU_Store _ _ _ (Some _) a => rga a
    | QU_Load _ _ None a | QU_Store _ _ _ None a | QA_Add _ _ _ a => rgp a
    | _ => True
    end.

  Record NQ (s : mstate) : Prop := {
    nq_pc : forall u, rgp (h_pc s u);
    nq_fr : forall u fr, h_frame s u = Some fr -> rga (rf_after fr);
  }.

  Definition FRG (fr : nat -> option (@rframe K V)) : Prop := forall u f, fr u = Some f -> rga (rf_after f).

  Lemma rga_rgp (a : spc) : rga a -> rgp a.
  Proof. destruct a; cbn; auto; contradiction. Qed.

  Lemma start_cx_rgp (cx : @scx K V) : rgp (sstart_cx cx).
  Proof. unfold sstart_cx. destruct (sc_lie cx); exact I. Qed.

  Lemma svisits_nq (S0 : mstate) t rest vf after ls : FRG (h_frame S0) -> rga after ->
    rgp (h_pc (fst (svisits S0 t rest vf after ls)) t) /\ FRG (h_frame (fst (svisits S0 t rest vf after ls))).
  Proof.
    intros HF Ha. revert ls. induction rest as [|[k0 v0] r IH]; intros ls; cbn [svisits].
    - assert (HF' : FRG (fun t' => if Nat.eq_dec t' t then None else h_frame S0 t')).
      { intros u f. destruct (Nat.eq_dec u t); [discriminate | apply HF]. }
      destruct after; cbn [rga] in Ha; try contradiction; cbn [fst sset_pc sset_frame h_pc h_frame];
        (destruct (Nat.eq_dec t t) as [_|Hc0]; [|exfalso; apply Hc0; reflexivity]); (split; [exact I | exact HF']).
    - destruct (vf k0 v0) as [cx|]; [|apply IH]. cbn [fst sset_pc sset_frame h_pc h_frame].
      destruct (Nat.eq_dec t t) as [_|Hc0]; [|exfalso; apply Hc0; reflexivity]. split; [apply start_cx_rgp|].
      intros u f. destruct (Nat.eq_dec u t) as [->|]; [|apply HF]. intros E. inversion E; subst f. exact Ha.
  Qed.

  Lemma sgoto_nq (S0 : mstate) t q ls : FRG (h_frame S0) -> rgp q ->
    rgp (h_pc (fst (sgoto S0 t q ls)) t) /\ FRG (h_frame (fst (sgoto S0 t q ls))).
  Proof.
    intros HF Hq. destruct q; cbn [sgoto fst sset_pc h_pc h_frame];
      try (destruct (Nat.eq_dec t t) as [_|Hc0]; [|exfalso; apply Hc0; reflexivity]; split; [exact Hq | exact HF]).
    destruct (h_frame S0 t) as [fr|] eqn:E.
    - apply svisits_nq; [exact HF | apply (HF t fr E)].
    - cbn [fst sset_pc h_pc h_frame]. destruct (Nat.eq_dec t t) as [_|Hc0]; [|exfalso; apply Hc0; reflexivity]. split; [exact I | exact HF].
  Qed.

  Lemma swake_rgp (p : spc) : rgp p -> rgp (swake p).
  Proof. destruct p; cbn; auto. Qed.

  Lemma after_lock_rgp (S1 : mstate) t tab b lk : rgp (snd (after_lock hash idx tophash nslots nstripes S1 t tab b lk)).
  Proof.
    unfold after_lock. destruct lk; cbv zeta.
    - exact I.
    - match goal with |- context [scopy_chain ?a ?b ?c ?d ?e ?f] => destruct (scopy_chain a b c d e f) as [nt cp] end.
      cbn [snd rgp]. destruct (Nat.ltb _ _); exact I.
    - cbn [snd rgp]. destruct (Nat.ltb _ _); exact I.
  Qed.

  Lemma NQ_step_pc s t p s' ls : NQ s -> h_pc s t = p -> sstep_pc s t p = Some (s', ls) -> NQ s'.
  Proof.
    intros HX Hp Hs. pose proof (nq_pc s HX t) as Hc. rewrite Hp in Hc. pose proof (nq_fr s HX) as HF.
    assert (Hfin : forall (S0 : mstate) q ls0, h_frame S0 = h_frame s ->
               (forall u, h_pc S0 u = h_pc s u \/ h_pc S0 u = swake (h_pc s u)) -> rgp q -> NQ (fst (sgoto S0 t q ls0))).
    { intros S0 q ls0 Ef Ho Hq. destruct (sgoto_nq S0 t q ls0) as [A C]; [unfold FRG; rewrite Ef; exact HF | exact Hq|].
      destruct (sgoto_shared S0 t q ls0) as [_ [G _]]. constructor; [|exact C].
      intros u. destruct (Nat.eq_dec u t) as [->|Hne]; [exact A|]. rewrite (G u Hne).
      destruct (Ho u) as [E|E]; rewrite E; [apply (nq_pc s HX) | apply swake_rgp; apply (nq_pc s HX)]. }
    destruct p; cbn [XMachineS.sstep_pc] in Hs; cbv zeta in Hs;
      repeat match type of Hs with context [match ?x with _ => _ end] => destruct x eqn:? end;
      try discriminate Hs; apply some_fst_h in Hs; subst s'; cbn [rgp] in Hc.
    all: try match goal with |- context [srun_cont ?kt] => destruct kt; cbn [srun_cont] end.
    all: try (apply Hfin; [reflexivity | intros u; cbn [h_pc sset_tab sset_flags spush_tab sbump]; first [left; reflexivity | right; reflexivity]
                          | cbn [rgp rga]; first [exact I | exact Hc] ]).
    - (* the goroutine starts *)
      constructor; cbn [fst sset_pc h_pc h_frame]; [|exact HF].
      intros u. destruct (Nat.eq_dec u t); [exact I | apply (nq_pc s HX)].
    - match goal with Ha : after_lock _ _ _ _ _ ?S1 ?T ?TAB ?B ?LK = (_, _) |- _ =>
        pose proof (after_lock_rgp S1 T TAB B LK) as A1;
        destruct (after_lock_ok hash idx tophash nslots nstripes S1 T TAB B LK) as [A3 [A4 _]];
        rewrite Ha in A1, A3, A4; cbn [fst snd] in A1, A3, A4 end.
      apply Hfin; [exact A4 | intros u; left; rewrite A3; reflexivity | exact A1].
    - set (S0 := sset_tab s tab (fun tb => sset_word tb b 0 (fun _ => with_lock v None))).
      destruct (svisits_nq S0 t l o p [SStep t (SKStoreU64 (word_val (with_lock v None)))] HF Hc) as [A C].
      destruct (svisits_shared S0 t l o p [SStep t (SKStoreU64 (word_val (with_lock v None)))]) as [_ [G _]].
      constructor; [|exact C].
      intros u. destruct (Nat.eq_dec u t) as [->|Hne]; [exact A | rewrite (G u Hne); apply (nq_pc s HX)].
  Qed.

  Lemma sstart_rgp (o : @sop K V) : rgp (sstart_pc o).
  Proof. destruct o; cbn [sstart_pc]; try exact I. apply start_cx_rgp. Qed.

  Lemma NQ_invoke s t o rest : NQ s -> NQ (sinvoke s t o rest).
  Proof.
    intros HX. constructor; cbn [XS_count.sinvoke h_pc h_frame]; [|apply (nq_fr s HX)].
    intros u. destruct (Nat.eq_dec u t); [apply sstart_rgp | apply (nq_pc s HX)].
  Qed.

  Lemma NQ_sstep s t s' ls : NQ s -> sstep s t = Some (s', ls) -> NQ s'.
  Proof.
    intros HX E. unfold XMachineS.sstep in E.
    destruct (h_pc s t) eqn:Hp; try (eapply NQ_step_pc; [exact HX | exact Hp | exact E]).
    destruct (h_todo s t) as [|o rest]; [discriminate|].
    change (match sstep_pc (sinvoke s t o rest) t (sstart_pc o) with
            | Some (s2, ls0) => Some (s2, SInv t o :: ls0)
            | None => Some (sinvoke s t o rest, [SInv t o])
            end = Some (s', ls)) in E.
    destruct (sstep_pc (sinvoke s t o rest) t (sstart_pc o)) as [[s2 ls0]|] eqn:E2.
    - inversion E; subst s2 ls. eapply NQ_step_pc; [apply NQ_invoke; exact HX | | exact E2]. cbn [XS_count.sinvoke h_pc]. destruct (Nat.eq_dec t t); congruence.
    - inversion E; subst s'. apply NQ_invoke. exact HX.
  Qed.

  Theorem reachable_NQ len0 todo sched : NQ (fst (srun (sinit nslots seeds nstripes len0 todo) sched)).
  Proof.
    assert (H0 : NQ (sinit nslots seeds nstripes len0 todo)).
    { constructor; cbn [sinit h_pc h_frame]; [intros t; exact I | intros t fr E; discriminate E]. }
    revert H0. generalize (sinit nslots seeds nstripes len0 todo). induction sched as [|t rest IH]; intros s H; cbn [XMachineS.srun]; [exact H|].
    destruct (sstep s t) as [[s' ls]|] eqn:E.
    - specialize (IH s' (NQ_sstep s t s' ls H E)). destruct (XMachineS.srun _ _ _ _ _ _ _ _ _ _ _ s' rest). exact IH.
    - apply IH. exact H.
  Qed.


  (* ---------------- where a thread between the two stores of a delete comes from ---------------- *)

  Notation XL := (@XL K V hash idx nslots nstripes).
  Notation PCI := (@PCI K V hash idx nslots nstripes).
  Notation sholds := (@sholds K V hash idx nslots nstripes).
  Notation lock_of := (@lock_of K V nslots nstripes).
  Notation rframe := (@rframe K V).

  Definition d2of (p : spc) : option (@scx K V * nat * nat * V * nat) :=
    match p with QW_D2 cx tab pos old ne => Some (cx, tab, pos, old, ne) | _ => None end.

  Lemma nolock_d2 (a : spc) : nolock a = true -> d2of a = None.
  Proof. destruct a; cbn; intros; try discriminate; reflexivity. Qed.

  Lemma start_cx_d2 (cx : @scx K V) : d2of (sstart_cx cx) = None.
  Proof. unfold sstart_cx. destruct (sc_lie cx); reflexivity. Qed.

  Lemma d2_prov_pc s u p s' ls x : XL s -> h_pc s u = p -> sstep_pc s u p = Some (s', ls) -> d2of (h_pc s' u) = Some x ->
    exists cx tab pos old wd ne, p = QW_D1 cx tab pos old wd ne /\ x = (cx, tab, pos, old, ne).
  Proof.
    intros HS Hp Hs Hd. pose proof (xl_pc _ _ _ _ s HS u) as Hpc. rewrite Hp in Hpc.
    assert (HF : forall w fr, h_frame s w = Some fr -> d2of (rf_after fr) = None).
    { intros w fr E. apply nolock_d2. apply (xl_frame _ _ _ _ s HS w fr E). }
    destruct p; cbn [XMachineS.sstep_pc] in Hs; cbv zeta in Hs;
      repeat match type of Hs with context [match ?x with _ => _ end] => destruct x eqn:? end;
      try discriminate Hs; apply some_fst_h in Hs; subst s'; cbn [PCI] in Hpc.
    all: try match type of Hd with context [srun_cont ?kt] => destruct kt; cbn [srun_cont] in Hd end.
    all: try (eapply (sgoto_f d2of) in Hd; [| reflexivity | apply start_cx_d2 | intros u0 fr0 E0; apply (HF u0 fr0 E0)]; cbn [d2of] in Hd; try discriminate Hd).
    - cbn [fst sset_pc h_pc] in Hd. destruct (Nat.eq_dec u u) as [_|Hc]; [discriminate Hd | exfalso; apply Hc; reflexivity].
    - exfalso. match goal with Ha : after_lock _ _ _ _ _ ?S1 ?T ?TAB ?B ?LK = (_, _) |- _ =>
        assert (A1 : d2of (snd (after_lock hash idx tophash nslots nstripes S1 T TAB B LK)) = None);
        [unfold after_lock; destruct LK; cbv zeta; try reflexivity;
         match goal with |- context [scopy_chain ?a ?b ?c ?d ?e ?f] => destruct (scopy_chain a b c d e f) as [nt cp] end; reflexivity
        | destruct (after_lock_ok hash idx tophash nslots nstripes S1 T TAB B LK) as [_ [A4 _]]; rewrite Ha in A1, A4; cbn [fst snd h_frame sset_tab] in A1, A4] end.
      eapply (sgoto_f d2of) in Hd; [| reflexivity | apply start_cx_d2 | intros u0 fr0 E0; rewrite A4 in E0; apply (HF u0 fr0 E0)].
      rewrite A1 in Hd. discriminate Hd.
    - exfalso. destruct Hpc as [_ [_ [Hn _]]].
      match type of Hd with d2of (h_pc (fst (svisits ?S0 ?T ?R ?VF ?A ?L)) _) = _ =>
        destruct (svisits_P (fun q => d2of q = None) S0 T R VF A L) as [A1 _];
        [reflexivity | apply start_cx_d2 | intros u0 fr0 E0; apply (HF u0 fr0 E0) | apply nolock_d2; exact Hn | rewrite A1 in Hd; discriminate Hd] end.
    - exfalso. destruct Hpc as [_ [_ [Hn _]]]. rewrite (nolock_d2 _ Hn) in Hd. discriminate Hd.
    - inversion Hd; subst x. repeat eexists.
    - exfalso. destruct Hpc as [Hn _]. rewrite (nolock_d2 _ Hn) in Hd. discriminate Hd.
  Qed.


  (* ---------------- one step of the run: what the lookup of another thread can rely on ---------------- *)

  Definition d1of (p : spc) : option (@scx K V * nat * nat * V * nat) :=
    match p with QW_D1 cx tab pos old _ ne => Some (cx, tab, pos, old, ne) | _ => None end.

  Record step_facts (s : mstate) (u : nat) (s' : mstate) : Prop := {
    sf_alloc : h_alloc s <= h_alloc s';
    sf_oth : forall w, w <> u -> h_pc s' w = h_pc s w \/ h_pc s' w = swake (h_pc s w);
    sf_tab : forall tab, tab <= h_cur s ->
               m_len (tabT (h_tabs s') tab) = m_len (tabT (h_tabs s) tab) /\ m_seed (tabT (h_tabs s') tab) = m_seed (tabT (h_tabs s) tab)
               /\ vtr (h_alloc s) (tabT (h_tabs s) tab) (tabT (h_tabs s') tab);
    sf_d2 : forall w x, d2of (h_pc s' w) = Some x -> d2of (h_pc s w) = Some x \/ d1of (h_pc s w) = Some x;
  }.

  Lemma swake_d2 (p : spc) : d2of (swake p) = d2of p.
  Proof. destruct p; reflexivity. Qed.

  Lemma step_facts_pc s u p s' ls : XB s -> h_pc s u = p -> sstep_pc s u p = Some (s', ls) -> step_facts s u s'.
  Proof.
    intros [HI [HS [HT [HX HC]]]] Hp Hs.
    pose proof (sstep_pc_eff eqd hash idx tophash nslots seeds grow_needed shrink_policy nstripes minlen grow_only
                  Hslots Hidx Hminlen s u p s' ls HS Hp Hs) as HE.
    constructor.
    - revert Hs. clear. intros Hs.
      destruct p; cbn [XMachineS.sstep_pc] in Hs; cbv zeta in Hs;
        repeat match type of Hs with context [match ?x with _ => _ end] => destruct x eqn:? end;
        try discriminate Hs; apply some_fst_h in Hs; subst s'; rewrite ?halloc_goto, ?halloc_visits;
        cbn [fst h_alloc sset_pc sset_tab sset_flags spush_tab sbump]; try lia.
      match goal with Ha : after_lock _ _ _ _ _ ?S1 ?T ?TAB ?B ?LK = (_, _) |- _ =>
        assert (A2 : h_alloc (fst (after_lock hash idx tophash nslots nstripes S1 T TAB B LK)) = h_alloc S1);
        [unfold after_lock; destruct LK; cbv zeta; try reflexivity;
         match goal with |- context [scopy_chain ?a ?b ?c ?d ?e ?f] => destruct (scopy_chain a b c d e f) as [nt cp] end; reflexivity
        | rewrite Ha in A2; cbn [fst h_alloc sset_tab] in A2] end.
      rewrite A2. lia.
    - apply (se_oth _ _ _ _ _ _ _ HE).
    - intros tab Hle. assert (Htab : tab < length (h_tabs s)) by (pose proof (xt_cur s HT); lia).
      destruct (se_ext _ _ _ _ _ _ _ HE) as [_ X]. destruct (X tab Htab) as [X1 X2].
      split; [exact X1|]. split; [exact X2|]. apply (vtr_step_pc s u p s' ls HT Hp Hs tab Hle).
    - intros w x Hd. destruct (Nat.eq_dec w u) as [->|Hne].
      + right. destruct (d2_prov_pc s u p s' ls x HS Hp Hs Hd) as (cx & tab & pos & old & wd & ne & E1 & E2). rewrite Hp, E1, E2. reflexivity.
      + left. destruct (se_oth _ _ _ _ _ _ _ HE w Hne) as [E|E]; rewrite E in Hd; [exact Hd | rewrite swake_d2 in Hd; exact Hd].
  Qed.

  Lemma sstart_d12 (o : @sop K V) : d2of (sstart_pc o) = None /\ d1of (sstart_pc o) = None.
  Proof. destruct o; cbn [sstart_pc]; try (split; reflexivity). unfold sstart_cx. destruct (sc_lie _); split; reflexivity. Qed.

  Lemma step_facts_sstep s u s' ls : XB s -> sstep s u = Some (s', ls) -> step_facts s u s'.
  Proof.
    intros HB E. unfold XMachineS.sstep in E.
    destruct (h_pc s u) eqn:Hp; try (eapply step_facts_pc; [exact HB | exact Hp | exact E]).
    destruct (h_todo s u) as [|o rest]; [discriminate|].
    change (match sstep_pc (sinvoke s u o rest) u (sstart_pc o) with
            | Some (s2, ls0) => Some (s2, SInv u o :: ls0)
            | None => Some (sinvoke s u o rest, [SInv u o])
            end = Some (s', ls)) in E.
    assert (Hpu : h_pc (sinvoke s u o rest) u = sstart_pc o) by (cbn [XS_count.sinvoke h_pc]; destruct (Nat.eq_dec u u); congruence).
    assert (Hpw : forall w, w <> u -> h_pc (sinvoke s u o rest) w = h_pc s w) by (intros w Hne; cbn [XS_count.sinvoke h_pc]; destruct (Nat.eq_dec w u); [contradiction | reflexivity]).
    destruct (sstart_d12 o) as [D2 D1].
    destruct (sstep_pc (sinvoke s u o rest) u (sstart_pc o)) as [[s2 ls0]|] eqn:E2.
    - inversion E; subst s2 ls.
      pose proof (step_facts_pc (sinvoke s u o rest) u _ s' ls0 (invoke_XB hash idx tophash nslots nstripes s u o rest Hp HB) Hpu E2) as [F1 F2 F3 F4].
      constructor.
      + exact F1.
      + intros w Hne. rewrite <- (Hpw w Hne). apply F2. exact Hne.
      + exact F3.
      + intros w x Hd. destruct (Nat.eq_dec w u) as [->|Hne].
        * exfalso. destruct (F4 u x Hd) as [A|A]; rewrite Hpu in A; congruence.
        * rewrite <- (Hpw w Hne). apply F4. exact Hd.
    - inversion E; subst s'. constructor.
      + cbn. lia.
      + intros w Hne. left. apply Hpw. exact Hne.
      + intros tab _. split; [reflexivity|]. split; [reflexivity | apply vtr_refl].
      + intros w x Hd. destruct (Nat.eq_dec w u) as [->|Hne]; [rewrite Hpu in Hd; congruence | rewrite (Hpw w Hne) in Hd; left; exact Hd].
  Qed.


  (* P holds in every state of the run / in some state of the run *)
  Fixpoint salong (P : mstate -> Prop) (s : mstate) (sched : list nat) : Prop :=
    P s /\ match sched with
           | [] => True
           | u :: r => match sstep s u with Some (s', _) => salong P s' r | None => salong P s r end
           end.

  Fixpoint sever (P : mstate -> Prop) (s : mstate) (sched : list nat) : Prop :=
    P s \/ match sched with
           | [] => False
           | u :: r => match sstep s u with Some (s', _) => sever P s' r | None => sever P s r end
           end.

  (* inside a lookup, past the load of the table pointer *)
  Definition isql (p : spc) : Prop :=
    match p with
    | QL_Top _ _ _ _ _ | QL_Val _ _ _ _ _ _ | QL_Key _ _ _ _ _ _ _ | QL_Val2 _ _ _ _ _ _ _ _ | QL_Next _ _ _ _ _ => True
    | _ => False
    end.

  Lemma rga_nql (a : spc) : rga a -> ~ isql a.
  Proof. destruct a; cbn; auto. Qed.

  Lemma start_cx_nql (cx : @scx K V) : ~ isql (sstart_cx cx).
  Proof. unfold sstart_cx. destruct (sc_lie cx); cbn; auto. Qed.

  Lemma swake_ql (p : spc) : isql p -> swake p = p.
  Proof. destruct p; cbn; intros H; try contradiction; reflexivity. Qed.

  Section OneLookup.

    Variables (t : nat) (k : K) (lc : @slcont K V) (tab : nat) (v : V).

    (* thread t is inside the lookup of k in table tab *)
    Definition inlookup (s : mstate) : Prop :=
      match h_pc s t with
      | QL_Top k' lc' tab' h _ | QL_Val k' lc' tab' h _ _ | QL_Key k' lc' tab' h _ _ _ | QL_Val2 k' lc' tab' h _ _ _ _ | QL_Next k' lc' tab' h _ =>
          k' = k /\ lc' = lc /\ tab' = tab /\ h = hash k (m_seed (stab_at s tab))
      | _ => False
      end.

    Lemma inlookup_ql s : inlookup s -> isql (h_pc s t).
    Proof. unfold inlookup. destruct (h_pc s t); cbn [isql]; intros H; first [exact I | exact H]. Qed.

    Lemma inlookup_le s : XB s -> inlookup s -> tab <= h_cur s.
    Proof.
      intros [_ [_ [HT _]]] Hin. destruct (xt_pc s HT t) as [Hle _]. unfold inlookup in Hin.
      destruct (h_pc s t); try contradiction; cbn [tabs_le] in Hle; destruct Hin as [_ [_ [-> _]]]; exact Hle.
    Qed.

    (* the return of a call never lands inside a lookup *)
    Lemma ret_out (S0 : mstate) r ls0 : NQ S0 -> ~ isql (h_pc (fst (sgoto S0 t (QRet r) ls0)) t).
    Proof.
      intros HN. destruct (sgoto_P (fun p => ~ isql p) S0 t (QRet r) ls0) as [A _]; auto.
      - apply start_cx_nql.
      - intros u f E. apply rga_nql. apply (nq_fr S0 HN u f E).
    Qed.

    (* the home chain of k in table tab *)
    Definition rtb (s : mstate) : mtable := tabT (h_tabs s) tab.
    Definition rc (s : mstate) : list mslot := schain_of (rtb s) (shome (rtb s) k).
    Definition slotk (s : mstate) (p : nat) : option K := ms_key (nth p (rc s) empty_mslot).
    Definition slotv (s : mstate) (p : nat) : option (V * nat) := ms_val (nth p (rc s) empty_mslot).
    Definition slote (s : mstate) (p : nat) : bool * N := topent nslots (ctops (rtb s) (shome (rtb s) k)) p.

    (* slot p holds (k, v) behind a cleared presence bit *)
    Definition hidden (s : mstate) (p : nat) : Prop :=
      slotk s p = Some k /\ (exists id, slotv s p = Some (v, id)) /\ fst (slote s p) = false.

    Notation visnow := (fun s : mstate => svis (stab_at s tab) k v).

    (* what the reader's locals say about memory; W: the pair has been witnessed *)
    Definition JJp (W : Prop) (s : mstate) (p : spc) : Prop :=
      match p with
      | QL_Val _ _ _ _ bi todo => forall i, In i todo -> hidden s (bi * nslots + i) -> W
      | QL_Key _ _ _ _ bi todo vp =>
          (forall i, In i todo -> hidden s (bi * nslots + i) -> W)
          /\ match vp, todo with
             | Some (x, id0), i :: _ => id0 < h_alloc s /\ forall y, slotv s (bi * nslots + i) = Some (y, id0) -> y = x
             | _, _ => True
             end
      | QL_Val2 _ _ _ _ bi todo v0 id0 =>
          (forall i, In i todo -> hidden s (bi * nslots + i) -> W)
          /\ match todo with
             | i :: _ => id0 < h_alloc s /\ forall y, slotv s (bi * nslots + i) = Some (y, id0) -> y = v0 /\ (v0 = v -> W)
             | [] => True
             end
      | _ => True
      end.

    Definition JJ (W : Prop) (s : mstate) : Prop := JJp W s (h_pc s t).

    Lemma JJp_tabs W (s1 s2 : mstate) p : h_tabs s2 = h_tabs s1 -> h_alloc s2 = h_alloc s1 -> JJp W s1 p -> JJp W s2 p.
    Proof.
      intros Et Ea. unfold JJp, hidden, slotk, slotv, slote, rc, rtb. rewrite Et, Ea. exact (fun H => H).
    Qed.

    (* a slot of the chain that holds (k, v): completely written, or between the two stores of a delete *)
    Lemma slot_cases s p : XB s -> tab <= h_cur s -> slotk s p = Some k -> (exists id, slotv s p = Some (v, id)) ->
      (svis (rtb s) k v /\ fst (slote s p) = true)
      \/ (fst (slote s p) = false /\ exists w cx ne, h_pc s w = QW_D2 cx tab p v ne /\ sc_k cx = k).
    Proof.
      intros [HI [HS [HT [HX HC]]]] Hle Hk [id Hv].
      assert (Htab : tab < length (h_tabs s)) by (pose proof (xt_cur s HT); lia).
      pose proof (tb_ok_tabT nslots nstripes Hslots _ tab (xl_tabs _ _ _ _ s HS)) as Hok. fold (rtb s) in Hok.
      pose proof (shome_lt hash idx Hidx (rtb s) k Hok) as Hb.
      assert (Hp : p < length (rc s)).
      { destruct (Nat.lt_ge_cases p (length (rc s))) as [L|L]; [exact L|]. unfold slotk in Hk. rewrite nth_overflow in Hk by exact L. discriminate Hk. }
      destruct (xcs_ch _ _ _ _ _ s HC tab (shome (rtb s) k) Hle Hb) as [Hsh [Hu Hsl]].
      specialize (Hsl p Hp). fold (rtb s) in Hsl. fold (rc s) in Hsl. fold (slote s p) in Hsl.
      unfold slotk, slotv in Hk, Hv.
      destruct Hsl as [[A _]|[(k0 & v0 & id0 & A1 & A2 & A3 & A4)|(hp & Hh & Hw)]].
      - rewrite A in Hk. discriminate Hk.
      - left. rewrite A1 in Hk. rewrite A2 in Hv. inversion Hk; subst k0. inversion Hv; subst v0 id0.
        split; [|rewrite A3; reflexivity].
        exists p. split; [exact Hp|]. split; [exact A1|]. split; [exists id; exact A2 | exact A3].
      - unfold holder_pc in Hh. destruct (lock_of s tab (shome (rtb s) k)) as [w|] eqn:El; [|discriminate Hh].
        cbn [option_map] in Hh. inversion Hh; subst hp. clear Hh.
        pose proof (xl_lockB _ _ _ _ s HS w tab _ El) as Hho. pose proof (xcs_pc _ _ _ _ _ s HC w) as Hf.
        unfold XS_lock.sholds in Hho.
        destruct (h_pc s w) eqn:Hpw; cbn [witpos] in Hw; try discriminate Hw;
          (destruct (Nat.eq_dec tab0 tab) as [->|]; [|discriminate Hw]); inversion Hw; subst pos; clear Hw;
          cbn [sholdsT] in Hho; inversion Hho as [Hb0]; cbn [pcfact] in Hf; unfold slot_is, kchain, ktops in Hf; fold (rtb s) in Hf, Hb0; rewrite Hb0 in Hf; fold (rc s) in Hf.
        + destruct Hf as [_ [B [[id1 C] D]]]. right. rewrite B in Hk. inversion Hk as [Ek]. rewrite C in Hv. inversion Hv; subst old id1.
          split; [exact D|]. exists w, cx, ne. split; [exact Hpw | first [exact Ek | reflexivity]].
        + destruct Hf as [_ [_ [C _]]]. rewrite <- C in Hv. discriminate Hv.
        + destruct Hf as [[_ [B _]] _]. rewrite B in Hk. discriminate Hk.
        + destruct Hf as [[_ [B _]] _]. rewrite B in Hk. discriminate Hk.
    Qed.

    Lemma d2of_eq (p : spc) cx tab0 pos old ne : d2of p = Some (cx, tab0, pos, old, ne) -> p = QW_D2 cx tab0 pos old ne.
    Proof. destruct p; cbn; intros E; try discriminate E. inversion E. reflexivity. Qed.
    Lemma d1of_eq (p : spc) cx tab0 pos old ne : d1of p = Some (cx, tab0, pos, old, ne) -> exists wd, p = QW_D1 cx tab0 pos old wd ne.
    Proof. destruct p; cbn; intros E; try discriminate E. inversion E. eexists. reflexivity. Qed.

    (* the pair behind a cleared presence bit was there one step earlier: behind the cleared bit, or visible *)
    Lemma hidden_prov s u s' p : XB s -> XB s' -> step_facts s u s' -> tab <= h_cur s -> tab <= h_cur s' ->
      hidden s' p -> hidden s p \/ svis (rtb s) k v.
    Proof.
      intros HB HB' HF Hle Hle' [Hk [Hv He]].
      destruct (slot_cases s' p HB' Hle' Hk Hv) as [[_ A]|[_ (w & cx & ne & Hpw & Ek)]]; [rewrite A in He; discriminate He|].
      destruct HB as [_ [HS [_ [_ HC]]]]. pose proof (xcs_pc _ _ _ _ _ s HC w) as Hf.
      assert (Hd : d2of (h_pc s' w) = Some (cx, tab, p, v, ne)) by (rewrite Hpw; reflexivity).
      destruct (sf_d2 s u s' HF w _ Hd) as [E|E].
      - apply d2of_eq in E. rewrite E in Hf. cbn [pcfact] in Hf. unfold slot_is, kchain, ktops in Hf. rewrite Ek in Hf.
        fold (rtb s) in Hf. fold (rc s) in Hf. destruct Hf as [_ [B [C D]]].
        left. split; [exact B|]. split; [exact C | exact D].
      - apply d1of_eq in E. destruct E as [wd E]. rewrite E in Hf. cbn [pcfact] in Hf. unfold slot_is, kchain, ktops in Hf. rewrite Ek in Hf.
        fold (rtb s) in Hf. fold (rc s) in Hf. destruct Hf as [[A [B [C D]]] _].
        right. exists p. split; [exact A|]. split; [exact B|]. split; [exact C | symmetry; exact D].
    Qed.

    Lemma home_step s u s' : step_facts s u s' -> tab <= h_cur s -> shome (rtb s') k = shome (rtb s) k.
    Proof. intros HF Hle. destruct (sf_tab s u s' HF tab Hle) as [L [S0 _]]. unfold XMachineS.shome, rtb. rewrite L, S0. reflexivity. Qed.

    Lemma slotv_step s u s' p : step_facts s u s' -> tab <= h_cur s -> vstep (h_alloc s) (slotv s p) (slotv s' p).
    Proof.
      intros HF Hle. unfold slotv, rc. rewrite (home_step s u s' HF Hle). destruct (sf_tab s u s' HF tab Hle) as [_ [_ Vt]]. apply Vt.
    Qed.

    Lemma id_keeps s u s' p id0 (P : V -> Prop) : step_facts s u s' -> tab <= h_cur s -> id0 < h_alloc s ->
      (forall y, slotv s p = Some (y, id0) -> P y) -> forall y, slotv s' p = Some (y, id0) -> P y.
    Proof.
      intros HF Hle Hid H y Ey. destruct (slotv_step s u s' p HF Hle) as [E|[E|[x E]]]; rewrite E in Ey.
      - apply H. exact Ey.
      - discriminate Ey.
      - inversion Ey. lia.
    Qed.

    (* the other threads' steps *)
    Lemma JJ_other W s u s' ls : XB s -> XB s' -> sstep s u = Some (s', ls) -> u <> t -> inlookup s -> inlookup s' ->
      JJ W s -> JJ (W \/ visnow s) s'.
    Proof.
      intros HB HB' E Hne Hin Hin' HJ.
      pose proof (step_facts_sstep s u s' ls HB E) as HF.
      pose proof (inlookup_le s HB Hin) as Hle. pose proof (inlookup_le s' HB' Hin') as Hle'.
      assert (Ept : h_pc s' t = h_pc s t).
      { destruct (sf_oth s u s' HF t (not_eq_sym Hne)) as [E0|E0]; [exact E0|]. rewrite E0. apply swake_ql. apply inlookup_ql. exact Hin. }
      pose proof (sf_alloc s u s' HF) as Hal.
      assert (Hhid : forall p, hidden s' p -> (hidden s p -> W) -> W \/ visnow s).
      { intros p Hh HW. destruct (hidden_prov s u s' p HB HB' HF Hle Hle' Hh) as [A|A]; [left; apply HW; exact A | right; exact A]. }
      unfold JJ in *. rewrite Ept. destruct (h_pc s t); try exact I; cbn [JJp] in *.
      - intros i Hi Hh. apply (Hhid _ Hh). apply HJ. exact Hi.
      - destruct HJ as [HJ1 HJ2]. split; [intros i Hi Hh; apply (Hhid _ Hh); apply HJ1; exact Hi|].
        destruct vp as [[x id0]|]; [|exact I]. destruct todo as [|i r]; [exact I|]. destruct HJ2 as [A B].
        split; [lia|]. apply (id_keeps s u s' _ id0 (fun y => y = x) HF Hle A B).
      - destruct HJ as [HJ1 HJ2]. split; [intros i Hi Hh; apply (Hhid _ Hh); apply HJ1; exact Hi|].
        destruct todo as [|i r]; [exact I|]. destruct HJ2 as [A B].
        split; [lia|]. apply (id_keeps s u s' _ id (fun y => y = v0 /\ (v0 = v -> W \/ visnow s)) HF Hle A).
        intros y Ey. destruct (B y Ey) as [B1 B2]. split; [exact B1 | intros Ev; left; apply B2; exact Ev].
    Qed.

    (* the slots that pass the top-hash filter have their presence bit set *)
    Lemma todo_not_hidden s bi i : XB s -> tab <= h_cur s ->
      In i (filter (top_match (tophash (hash k (m_seed (rtb s)))) (sword_at nslots (rtb s) (shome (rtb s) k) bi)) (seq 0 nslots)) ->
      ~ hidden s (bi * nslots + i).
    Proof.
      intros [HI [HS [HT [HX HC]]]] Hle Hi [Hk [_ He]]. apply filter_In in Hi. destruct Hi as [Hs Hm]. apply in_seq in Hs.
      pose proof (tb_ok_tabT nslots nstripes Hslots _ tab (xl_tabs _ _ _ _ s HS)) as Hok. fold (rtb s) in Hok.
      pose proof (shome_lt hash idx Hidx (rtb s) k Hok) as Hb.
      assert (Hp : bi * nslots + i < length (rc s)).
      { destruct (Nat.lt_ge_cases (bi * nslots + i) (length (rc s))) as [L|L]; [exact L|]. unfold slotk in Hk. rewrite nth_overflow in Hk by exact L. discriminate Hk. }
      destruct (xcs_ch _ _ _ _ _ s HC tab (shome (rtb s) k) Hle Hb) as [Hsh _]. fold (rtb s) in Hsh.
      destruct (topent_bucket nslots Hslots Hnslots (rtb s) (shome (rtb s) k) bi i Hsh Hp ltac:(lia)) as [T1 _].
      unfold slote in He. rewrite T1 in He. rewrite (top_match_true _ _ _ Hm) in He. discriminate He.
    Qed.

    (* the reader's own steps *)
    Lemma JJ_self W s s' ls : XB s -> XID s -> NQ s -> sstep s t = Some (s', ls) -> inlookup s -> inlookup s' ->
      JJ W s -> JJ (W \/ visnow s) s'.
    Proof.
      intros HB HD HN E Hin Hin' HJ.
      pose proof (inlookup_le s HB Hin) as Hle.
      assert (Ex : sstep s t = sstep_pc s t (h_pc s t)).
      { unfold XMachineS.sstep. unfold inlookup in Hin. destruct (h_pc s t); try reflexivity; contradiction. }
      rewrite Ex in E.
      assert (Hr : sreader_pc (h_pc s t) = true) by (unfold inlookup in Hin; destruct (h_pc s t); try contradiction; reflexivity).
      destruct (sreader_step eqd hash idx tophash nslots seeds grow_needed shrink_policy nstripes minlen grow_only s t _ s' ls Hr E) as [(Et & _ & _ & _ & _ & _ & Ea) _].
      pose proof (inlookup_ql s' Hin') as Hq'.
      unfold JJ. apply (JJp_tabs _ s s' _ Et Ea).
      unfold JJ in HJ. unfold inlookup in Hin. clear Ex Hr Et Ea Hin'.
      destruct (h_pc s t) eqn:Hp; try contradiction; destruct Hin as [-> [Elc [-> Eh]]]; cbn [JJp] in HJ;
        cbn [XMachineS.sstep_pc] in E; cbv zeta in E;
        repeat match type of E with context [match ?x with _ => _ end] => destruct x eqn:? end;
        try discriminate E; apply some_fst_h in E; subst s';
        try (exfalso; exact (ret_out s _ _ HN Hq'));
        try (rewrite sgoto_pc_eq by (intros r0; discriminate); cbn [JJp]); try exact I.
      - (* the bucket word has been loaded *)
        intros i Hi Hh. exfalso. apply (todo_not_hidden s bi i HB Hle); [|exact Hh]. rewrite <- Heql in Hi. subst h. exact Hi.
      - (* the value pointer has been loaded *)
        split; [intros i Hi Hh; left; apply (HJ i Hi Hh)|].
        destruct (ms_val (sslot_at (stab_at s tab) (idx h (m_len (stab_at s tab))) (bi * nslots + n))) as [[x id0]|] eqn:Ev; [|exact I].
        split; [exact (ids_lt_tabT _ _ tab HD _ _ x id0 Ev)|].
        intros y Ey. assert (Es : slotv s (bi * nslots + n) = Some (x, id0)) by (subst h; exact Ev). rewrite Es in Ey. inversion Ey. reflexivity.
      - (* the key pointer has been loaded: it is k *)
        destruct HJ as [HJ1 [A B]]. split; [intros i Hi Hh; left; apply (HJ1 i Hi Hh)|]. split; [exact A|].
        intros y Ey. split; [apply B; exact Ey|]. intros Ev. rewrite (B y Ey) in Ey. rewrite Ev in Ey.
        assert (Hk : slotk s (bi * nslots + n) = Some k) by (subst h; rewrite e; exact Heqo).
        destruct (slot_cases s _ HB Hle Hk (ex_intro _ n0 Ey)) as [[Hv _]|[He _]]; [right; exact Hv|].
        left. apply (HJ1 n (or_introl eq_refl)). split; [exact Hk|]. split; [exists n0; exact Ey | exact He].
      - intros i Hi Hh. left. apply (proj1 HJ i (or_intror Hi) Hh).
      - intros i Hi Hh. left. apply (proj1 HJ i (or_intror Hi) Hh).
      - intros i Hi Hh. left. apply (proj1 HJ i (or_intror Hi) Hh).
      - (* the second load of the value pointer found another pointer: again *)
        intros i Hi Hh. left. apply (proj1 HJ i Hi Hh).
    Qed.

    Lemma JJ_step W s u s' ls : XB s -> XID s -> NQ s -> XB s' -> sstep s u = Some (s', ls) -> inlookup s -> inlookup s' ->
      JJ W s -> JJ (W \/ visnow s) s'.
    Proof.
      intros HB HD HN HB' E Hin Hin' HJ. destruct (Nat.eq_dec u t) as [->|Hne].
      - apply (JJ_self W s s' ls HB HD HN E Hin Hin' HJ).
      - apply (JJ_other W s u s' ls HB HB' E Hne Hin Hin' HJ).
    Qed.

    (* the label of a lookup that returns the value v: to the caller, or to the visitor of a Range *)
    Definition hit (l : slabel) : Prop := exists b, l = SRes t (SRVal (Some v) b) \/ l = SSubRes t (SRVal (Some v) b).

    Lemma svisits_hit (S0 : mstate) rest vf after ls1 l : rga after ->
      In l (snd (svisits S0 t rest vf after ls1)) -> hit l -> In l ls1.
    Proof.
      intros Ha. revert ls1. induction rest as [|[k0 v0] r IH]; intros ls1 Hl Hh; cbn [svisits] in Hl.
      - destruct after; cbn [rga] in Ha; try contradiction; cbn [snd] in Hl; [|exact Hl].
        destruct r; try contradiction. apply in_app_or in Hl. destruct Hl as [Hl|[Hl|[]]]; [exact Hl|].
        exfalso. destruct Hh as [b [Hh|Hh]]; rewrite Hh in Hl; discriminate Hl.
      - destruct (vf k0 v0) as [cx|].
        + cbn [snd] in Hl. apply in_app_or in Hl. destruct Hl as [Hl|[Hl|[Hl|[]]]]; [exact Hl| |];
            exfalso; destruct Hh as [b [Hh|Hh]]; rewrite Hh in Hl; discriminate Hl.
        + specialize (IH _ Hl Hh). apply in_app_or in IH. destruct IH as [IH|[IH|[]]]; [exact IH|].
          exfalso. destruct Hh as [b [Hh|Hh]]; rewrite Hh in IH; discriminate IH.
    Qed.

    Lemma sgoto_hit (S0 : mstate) q ls0 l : NQ S0 -> In l (snd (sgoto S0 t q ls0)) -> hit l ->
      In l ls0 \/ exists b, q = QRet (SRVal (Some v) b).
    Proof.
      intros HN Hl Hh. destruct q; cbn [sgoto snd] in Hl; try (left; exact Hl).
      destruct (h_frame S0 t) as [fr|] eqn:Ef.
      - pose proof (svisits_hit S0 _ _ _ _ l (nq_fr S0 HN t fr Ef) Hl Hh) as H. apply in_app_or in H. destruct H as [H|[H|[]]]; [left; exact H|].
        right. destruct Hh as [b [Hh|Hh]]; rewrite Hh in H; inversion H. exists b. reflexivity.
      - cbn [snd] in Hl. apply in_app_or in Hl. destruct Hl as [H|[H|[]]]; [left; exact H|].
        right. destruct Hh as [b [Hh|Hh]]; rewrite Hh in H; inversion H. exists b. reflexivity.
    Qed.

    (* the step that returns v: the second load of the value pointer finds the identity of the first *)
    Lemma hit_step W s s2 ls2 : NQ s -> inlookup s -> JJ W s -> sstep s t = Some (s2, ls2) -> (exists l, In l ls2 /\ hit l) -> W.
    Proof.
      intros HN Hin HJ E [l [Hl Hh]].
      assert (Ex : sstep s t = sstep_pc s t (h_pc s t)).
      { unfold XMachineS.sstep. unfold inlookup in Hin. destruct (h_pc s t); try reflexivity; contradiction. }
      rewrite Ex in E. clear Ex. unfold JJ in HJ. unfold inlookup in Hin.
      destruct (h_pc s t) eqn:Hp; try contradiction; destruct Hin as [-> [Elc [-> Eh]]]; cbn [JJp] in HJ;
        cbn [XMachineS.sstep_pc] in E; cbv zeta in E;
        repeat match type of E with context [match ?x with _ => _ end] => destruct x eqn:? end;
        try discriminate E; apply some_pair_rd in E; destruct E as [-> ->];
        (destruct (sgoto_hit s _ _ l HN Hl Hh) as [[H|[]]|[b H]];
         [exfalso; destruct Hh as [b [Hh|Hh]]; rewrite Hh in H; discriminate H|]); try discriminate H.
      all: inversion H as [[Ev Eb]]; destruct HJ as [_ [_ B]];
        destruct (ms_val (sslot_at (stab_at s tab) (idx h (m_len (stab_at s tab))) (bi * nslots + n))) as [[y id']|] eqn:Es; [|discriminate Heqb];
        apply Nat.eqb_eq in Heqb; subst id';
        (assert (Es' : slotv s (bi * nslots + n) = Some (y, id)) by (subst h; exact Es));
        destruct (B y Es') as [_ B2]; apply B2; exact Ev.
    Qed.

    Lemma load_hit_gen sched : forall W s, XB s -> XID s -> NQ s -> salong inlookup s sched -> JJ W s ->
      forall s2 ls2, sstep (fst (srun s sched)) t = Some (s2, ls2) -> (exists l, In l ls2 /\ hit l) ->
      W \/ sever visnow s sched.
    Proof.
      induction sched as [|u r IH]; intros W s HB HD HN Hal HJ s2 ls2 E Hh; cbn [XMachineS.srun salong sever] in *.
      - destruct Hal as [Hin _]. cbn [fst] in E. left. apply (hit_step W s s2 ls2 HN Hin HJ E Hh).
      - destruct Hal as [Hin Hal]. destruct (sstep s u) as [[s' ls]|] eqn:Eu.
        + pose proof (XB_sstep eqd hash idx tophash nslots seeds grow_needed shrink_policy nstripes minlen grow_only
                        Hslots Hnslots Htop Hidx Hminlen s u s' ls HB Eu) as HB'.
          pose proof (proj1 (XID_sstep s u s' ls HD Eu)) as HD'. pose proof (NQ_sstep s u s' ls HN Eu) as HN'.
          assert (Hin' : inlookup s') by (destruct r; cbn [salong] in Hal; apply Hal).
          pose proof (JJ_step W s u s' ls HB HD HN HB' Eu Hin Hin' HJ) as HJ'.
          destruct (XMachineS.srun _ _ _ _ _ _ _ _ _ _ _ s' r) as [s'' ls''] eqn:Er. cbn [fst] in E.
          specialize (IH (W \/ visnow s) s' HB' HD' HN' Hal HJ' s2 ls2). rewrite Er in IH. cbn [fst] in IH.
          destruct (IH E Hh) as [[H|H]|H]; [left; exact H | right; left; exact H | right; right; exact H].
        + destruct (IH W s HB HD HN Hal HJ s2 ls2 E Hh) as [H|H]; [left; exact H | right; right; exact H].
    Qed.

    (* C04, readers of map.go: while thread t stays inside one lookup of k in table tab -- from a state in which it
       is about to load a bucket word (QL_Top) or a next pointer (QL_Next) -- if its next step returns v, then
       (k, v) was visible in that table in some state of the run *)
    Theorem load_hit s sched s2 ls2 : XB s -> XID s -> NQ s -> salong inlookup s sched ->
      (match h_pc s t with QL_Val _ _ _ _ _ _ | QL_Key _ _ _ _ _ _ _ | QL_Val2 _ _ _ _ _ _ _ _ => False | _ => True end) ->
      sstep (fst (srun s sched)) t = Some (s2, ls2) -> (exists l, In l ls2 /\ hit l) ->
      sever visnow s sched.
    Proof.
      intros HB HD HN Hal Hne E Hh.
      destruct (load_hit_gen sched False s HB HD HN Hal) with (s2 := s2) (ls2 := ls2) as [[]|H]; try assumption.
      unfold JJ. destruct (h_pc s t); try exact I; contradiction.
    Qed.

  End OneLookup.

End SLoadHit.

(* ---------------- the statement, every reachable state ---------------- *)
Section Final.
  Context {K V : Type}.
  Variable eqd : forall a b : K, {a = b} + {a <> b}.
  Variable hash : K -> N -> N.
  Variable idx : N -> nat -> nat.
  Variable tophash : N -> N.
  Variable nslots : nat.
  Variable seeds : nat -> N.
  Variable grow_needed shrink_policy : nat -> Z -> bool.
  Variable nstripes : nat -> nat.
  Variable minlen : nat.
  Variable grow_only : bool.

  Notation srun := (@srun K V eqd hash idx tophash nslots seeds grow_needed shrink_policy nstripes minlen grow_only).
  Notation sstep := (@sstep K V eqd hash idx tophash nslots seeds grow_needed shrink_policy nstripes minlen grow_only).
  Notation salong := (@salong K V eqd hash idx tophash nslots seeds grow_needed shrink_policy nstripes minlen grow_only).
  Notation sever := (@sever K V eqd hash idx tophash nslots seeds grow_needed shrink_policy nstripes minlen grow_only).

  (* the hypotheses on the parameters: those of XS_cells.v *)
  Definition lhhyps : Prop :=
    (nslots <= 3 /\ 0 < nslots) /\ (forall k sd, (tophash (hash k sd) < 1048576)%N)
    /\ (forall h len, 0 < len -> idx h len < len) /\ 0 < minlen.

  Theorem s_load_hit_proof :
    lhhyps -> forall len0 todo sched0 sched t k lc tab v s2 ls2, 0 < len0 ->
    let s := fst (srun (sinit nslots seeds nstripes len0 todo) sched0) in
    salong (inlookup hash nslots nstripes t k lc tab) s sched ->
    (match h_pc s t with QL_Val _ _ _ _ _ _ | QL_Key _ _ _ _ _ _ _ | QL_Val2 _ _ _ _ _ _ _ _ => False | _ => True end) ->
    sstep (fst (srun s sched)) t = Some (s2, ls2) -> (exists l, In l ls2 /\ hit t v l) ->
    sever (fun s' => svis hash idx tophash nslots (stab_at nslots nstripes s' tab) k v) s sched.
  Proof.
    intros [[H1 H2] [H3 [H4 H5]]] len0 todo sched0 sched t k lc tab v s2 ls2 Hl s.
    apply (load_hit eqd hash idx tophash nslots seeds grow_needed shrink_policy nstripes minlen grow_only H1 H2 H3 H4 H5 t k lc tab v s sched s2 ls2).
    - apply (reachable_XB eqd hash idx tophash nslots seeds grow_needed shrink_policy nstripes minlen grow_only H1 H2 H3 H4 H5 len0 todo sched0 Hl).
    - apply (reachable_XID eqd hash idx tophash nslots seeds grow_needed shrink_policy nstripes minlen grow_only H1 H2 H5 len0 todo sched0).
    - apply (reachable_NQ eqd hash idx tophash nslots seeds grow_needed shrink_policy nstripes minlen grow_only len0 todo sched0).
  Qed.
End Final.
