(* CX_compose.v -- Stage B: the machine-independent composition theorem.

   Conc.v runs the cache methods over a map whose calls are ATOMIC.  Here the map calls
   take time: a COMBINED TRACE is what threads running the cache programs do when a map
   call is an invocation, followed later by a response that is fed to the continuation
   ([vstep]: per thread  invoke a cache method -> ... -> MapCall o k: map-level invocation
   of o -> map-level response r -> continue with k r -> ... -> return), interleaved
   arbitrarily, the map's answers being ANYTHING at this level.  Nothing is said about
   the map that produces the answers except the hypothesis of the theorem:

     [compose]  if the map-level projection of a combined trace is linearizable with
                respect to the map calls' sequential semantics ([cmspec]: one [map_step],
                exactly the atomic step of Conc.v), then Conc.v's atomic-map machine has a
                run with the same cache-level history;
     [compose_linearizable]  hence, if every run of Conc.v's machine is linearizable
                with respect to a specification, so is the cache-level projection of the
                combined trace;
     [cache_compose]  for the programs of CacheModel (prog_cache) and the TTL
                specification [tspec], by C02_lin.cache_linearizable.

   Proof: walk along the combined trace and along the instrumented map-level history at
   the same time; the atomic machine executes each map call at its linearization mark
   (thread u waiting for an answer with the mark behind it = the atomic machine's thread
   u already past the call, holding the answer the mark promised); all other steps are
   mirrored one for one.  Snapshot calls (CSnapshot: what Range hands to DeleteExpired)
   are, as in Conc.v, a single step whose answer is arbitrary. *)
From CacheV Require Import Base SpecMap Client CacheModel Ops SpecTTL Lin Conc.
From CacheV.proofs Require Import C01_sim C01_ops C02_good C02_methods C02_lin CX_trans.
Local Open Scope nat_scope.

Section Compose.
  Context {K V : Type}.
  Variable eqd : forall a b : K, {a = b} + {a <> b}.
  Variable progs : cop K V -> prog K V (cres K V).
  Variables NOW DFLT : Z.
  Variable CB : cbid.

  Notation item := (item V).
  Notation cop := (cop K V).
  Notation cres := (cres K V).
  Notation cmop := (cmop K V).
  Notation imres := (imres K V).
  Notation prog := (prog K V cres).
  Notation cconf := (@cconf K V).
  Notation label := (@label K V).
  Notation tstate := (@tstate K V).
  Notation cstep := (cstep eqd progs NOW DFLT CB).
  Notation crun := (crun eqd progs NOW DFLT CB).
  Notation env0 := (Conc.env0 NOW DFLT).
  Notation cmspec := (@cmspec K V eqd env0).
  Notation history := (@history K V).
  Notation mstat := (tstat cmop imres).

  (* ---------------- combined traces ---------------- *)

  (* a thread of the client: idle, running a method, or waiting for the answer of a map call *)
  Inductive vst :=
  | VIdle
  | VRun (o : cop) (p : prog)
  | VWait (o : cop) (mo : cmop) (k : imres -> prog).

  Record vconf := { v_thr : nat -> vst; v_todo : nat -> list cop }.

  (* what happens next: who moves, and -- for the answers of the map -- what the answer is *)
  Inductive act :=
  | AInv (t : nat)                              (* invoke the next cache method of the todo list *)
  | ARet (t : nat)                              (* return from the method *)
  | AMInv (t : nat)                             (* the pending MapCall is invoked on the map *)
  | AMRes (t : nat) (r : imres)                 (* the map answers r *)
  | ASnap (t : nat) (l : list (K * item))       (* a snapshot call, answered l *)
  | ATau (t : nat).                             (* read the clock / a setting, or emit an event *)

  (* the two levels of events of a combined trace *)
  Inductive out :=
  | OC (e : hev cop cres)
  | OM (e : hev cmop imres).

  Definition vset (c : vconf) (t : nat) (x : vst) : vconf :=
    {| v_thr := upd (v_thr c) t x; v_todo := v_todo c |}.

  Definition vstep (c : vconf) (a : act) : option (vconf * list out) :=
    match a with
    | AInv t =>
        match v_thr c t, v_todo c t with
        | VIdle, o :: rest =>
            Some ({| v_thr := upd (v_thr c) t (VRun o (progs o)); v_todo := upd (v_todo c) t rest |}, [OC (HInv t o)])
        | _, _ => None
        end
    | ARet t =>
        match v_thr c t with
        | VRun o (Ret r) => Some (vset c t VIdle, [OC (HRes t r)])
        | _ => None
        end
    | AMInv t =>
        match v_thr c t with
        | VRun o (MapCall mo k) =>
            match mo with
            | CSnapshot => None
            | _ => Some (vset c t (VWait o mo k), [OM (HInv t mo)])
            end
        | _ => None
        end
    | AMRes t r =>
        match v_thr c t with
        | VWait o mo k => Some (vset c t (VRun o (k r)), [OM (HRes t r)])
        | _ => None
        end
    | ASnap t l =>
        match v_thr c t with
        | VRun o (MapCall CSnapshot k) => Some (vset c t (VRun o (k (RSnap l))), [])
        | _ => None
        end
    | ATau t =>
        match v_thr c t with
        | VRun o (ReadNow k) => Some (vset c t (VRun o (k NOW)), [])
        | VRun o (ReadDflt k) => Some (vset c t (VRun o (k DFLT)), [])
        | VRun o (ReadCb k) => Some (vset c t (VRun o (k CB)), [])
        | VRun o (Emit _ k) => Some (vset c t (VRun o k), [])
        | _ => None
        end
    end.

  (* a disabled move is skipped, as in Conc.crun *)
  Fixpoint vrun (c : vconf) (acts : list act) : vconf * list out :=
    match acts with
    | [] => (c, [])
    | a :: rest =>
        match vstep c a with
        | Some (c', os) => let '(c'', os') := vrun c' rest in (c'', os ++ os')
        | None => vrun c rest
        end
    end.

  Definition vinit (todo : nat -> list cop) : vconf := {| v_thr := fun _ => VIdle; v_todo := todo |}.

  Fixpoint cproj (os : list out) : list (hev cop cres) :=
    match os with
    | [] => []
    | OC e :: r => e :: cproj r
    | OM _ :: r => cproj r
    end.

  Fixpoint mproj (os : list out) : list (hev cmop imres) :=
    match os with
    | [] => []
    | OC _ :: r => mproj r
    | OM e :: r => e :: mproj r
    end.

  (* ---------------- runs of the atomic machine ---------------- *)

  Definition creach (s : cconf) (ls : list label) (s' : cconf) : Prop := exists sched, crun s sched = (s', ls).

  Lemma crun_app a : forall s b,
    crun s (a ++ b) = let '(s1, l1) := crun s a in let '(s2, l2) := crun s1 b in (s2, l1 ++ l2).
  Proof.
    induction a as [|[t orc] r IH]; intros s b; cbn [Conc.crun app].
    - destruct (crun s b); reflexivity.
    - destruct (cstep s t orc) as [[s1 l1]|]; [|apply IH].
      rewrite IH. destruct (crun s1 r) as [s2 l2]. destruct (crun s2 b) as [s3 l3]. rewrite app_assoc. reflexivity.
  Qed.

  Lemma creach_refl s : creach s [] s.
  Proof. exists []. reflexivity. Qed.

  Lemma creach_trans s l1 s1 l2 s2 : creach s l1 s1 -> creach s1 l2 s2 -> creach s (l1 ++ l2) s2.
  Proof. intros [a Ha] [b Hb]. exists (a ++ b). rewrite crun_app, Ha, Hb. reflexivity. Qed.

  Lemma creach_step s t orc s1 l1 : cstep s t orc = Some (s1, l1) -> creach s l1 s1.
  Proof. intros E. exists [(t, orc)]. cbn [Conc.crun]. rewrite E. rewrite app_nil_r. reflexivity. Qed.

  Lemma history_app (a b : list label) : history (a ++ b) = history a ++ history b.
  Proof. induction a as [|[] a IH]; cbn; try rewrite IH; reflexivity. Qed.

  Lemma history_mapstep t (evs : list (event K V)) (g : list (K * V)) :
    history (map (LEv t) evs ++ map (fun kv => LGone t (fst kv) (snd kv)) g ++ [LTau t]) = [].
  Proof.
    rewrite !history_app. cbn.
    assert (A : history (map (LEv t) evs) = []) by (induction evs; cbn; auto).
    assert (B : history (map (fun kv => LGone t (fst kv) (snd kv)) g) = []) by (induction g; cbn; auto).
    rewrite A, B. reflexivity.
  Qed.

  Lemma cstep_mapcall (s : cconf) t orc o mo k m' r :
    c_thr s t = Running o (MapCall mo k) -> mo <> CSnapshot ->
    map_step eqd (c_map s) (to_mop env0 mo) = (m', r) ->
    cstep s t orc = Some ({| c_map := m'; c_thr := upd (c_thr s) t (Running o (k r)); c_todo := c_todo s |},
                          map (LEv t) (fn_events mo r)
                          ++ map (fun kv => LGone t (fst kv) (snd kv)) (gone eqd (c_map s) m') ++ [LTau t]).
  Proof.
    intros Ht Hn Hm. unfold Conc.cstep. rewrite Ht.
    destruct mo; try (exfalso; apply Hn; reflexivity); cbv beta iota; rewrite Hm; reflexivity.
  Qed.

  (* ---------------- the simulation relation ---------------- *)

  (* the atomic machine's thread, from the client thread and its map-level status *)
  Definition TR (v : vst) (st : mstat) (ts : tstate) : Prop :=
    match v, st with
    | VIdle, TIdle => ts = Idle
    | VRun o p, TIdle => ts = Running o p
    | VWait o mo k, TInvoked mo' => mo' = mo /\ ts = Running o (MapCall mo k)
    | VWait o mo k, TLinearized mo' r => mo' = mo /\ ts = Running o (k r)
    | _, _ => False
    end.

  Record REL (st : nat -> mstat) (c : vconf) (s : cconf) : Prop := {
    r_todo : forall t, c_todo s t = v_todo c t;
    r_thr : forall t, TR (v_thr c t) (st t) (c_thr s t);
  }.

  Lemma REL_set st c s t x y z : REL st c s -> TR x y z -> REL (upd st t y) (vset c t x) (set_thr s t z).
  Proof.
    intros [A B] H. constructor; cbn.
    - exact A.
    - intros t'. unfold upd. destruct (Nat.eq_dec t' t); [exact H | apply B].
  Qed.

  Lemma REL_st st c s t y : REL st c s -> TR (v_thr c t) y (c_thr s t) -> REL (upd st t y) c s.
  Proof.
    intros [A B] H. constructor.
    - exact A.
    - intros t'. unfold upd. destruct (Nat.eq_dec t' t) as [->|]; [exact H | apply B].
  Qed.

  (* the marks that precede the next event of the map-level history: the atomic machine
     executes those map calls now *)
  Lemma lin_prefix : forall (i : list (iev cmop imres)) st c s e h,
    wf_inst cmop imres st i -> legal cmop imres _ cmspec (c_map s) i -> erase cmop imres i = e :: h -> REL st c s ->
    exists st' s' ie i' ls,
      creach s ls s' /\ history ls = [] /\ REL st' c s'
      /\ wf_inst cmop imres st' (ie :: i') /\ legal cmop imres _ cmspec (c_map s') (ie :: i')
      /\ erase cmop imres [ie] = [e] /\ erase cmop imres i' = h.
  Proof.
    induction i as [|x i IH]; intros st c s e h Hw Hl He HR; [discriminate He|].
    destruct x as [t o|u o r|t r].
    - exists st, s, (IInv t o), i, []. cbn in He. inversion He; subst.
      split; [apply creach_refl|]. split; [reflexivity|]. split; [exact HR|]. split; [exact Hw|]. split; [exact Hl|]. split; reflexivity.
    - apply wf_lin_i in Hw. destruct Hw as [Hst Hw]. apply legal_lin_i in Hl. destruct Hl as [m1 [[Hns Hms] Hl]].
      pose proof (r_thr st c s HR u) as Hu. rewrite Hst in Hu.
      destruct (v_thr c u) as [|o' p|o' mo k] eqn:Ev; cbn [TR] in Hu; try contradiction.
      destruct Hu as [Eo Ets]. subst o.
      pose proof (cstep_mapcall s u [] o' mo k m1 r Ets Hns Hms) as Hstep.
      set (s1 := {| c_map := m1; c_thr := upd (c_thr s) u (Running o' (k r)); c_todo := c_todo s |}) in *.
      assert (HR1 : REL (upd st u (TLinearized mo r)) c s1).
      { constructor.
        - intros t. apply (r_todo st c s HR).
        - intros t. unfold s1; cbn [c_thr]. unfold upd. destruct (Nat.eq_dec t u) as [->|Hn].
          + rewrite Ev. cbn. auto.
          + apply (r_thr st c s HR). }
      cbn [erase] in He.
      destruct (IH (upd st u (TLinearized mo r)) c s1 e h Hw Hl He HR1) as [st' [s' [ie [i' [ls [A [B [C D]]]]]]]].
      match type of Hstep with _ = Some (_, ?l) => set (l1 := l) in * end.
      exists st', s', ie, i', (l1 ++ ls). split; [|split; [|split; [exact C | exact D]]].
      + eapply creach_trans; [eapply creach_step; exact Hstep | exact A].
      + rewrite history_app. unfold l1. rewrite history_mapstep, B. reflexivity.
    - exists st, s, (IRes t r), i, []. cbn in He. inversion He; subst.
      split; [apply creach_refl|]. split; [reflexivity|]. split; [exact HR|]. split; [exact Hw|]. split; [exact Hl|]. split; reflexivity.
  Qed.

  Lemma vrun_cons c a acts :
    vrun c (a :: acts) = match vstep c a with
                         | Some (c', os) => (fst (vrun c' acts), os ++ snd (vrun c' acts))
                         | None => vrun c acts
                         end.
  Proof. cbn [vrun]. destruct (vstep c a) as [[c' os]|]; [|reflexivity]. destruct (vrun c' acts); reflexivity. Qed.

  Lemma cproj_app a b : cproj (a ++ b) = cproj a ++ cproj b.
  Proof. induction a as [|[] a IH]; cbn; try rewrite IH; reflexivity. Qed.

  Lemma mproj_app a b : mproj (a ++ b) = mproj a ++ mproj b.
  Proof. induction a as [|[] a IH]; cbn; try rewrite IH; reflexivity. Qed.

  (* a step of the atomic machine that is not a map call: one for one *)
  Lemma silent_step st c s t o p p' l :
    REL st c s -> v_thr c t = VRun o p ->
    (forall s0 : cconf, c_thr s0 t = Running o p -> cstep s0 t l = Some (set_thr s0 t (Running o p'), [LTau t])
                        \/ exists e, cstep s0 t l = Some (set_thr s0 t (Running o p'), [LEv t e])) ->
    exists s1 ls, creach s ls s1 /\ history ls = [] /\ c_map s1 = c_map s /\ REL st (vset c t (VRun o p')) s1.
  Proof.
    intros HR Ev Hc.
    pose proof (r_thr st c s HR t) as Ht. rewrite Ev in Ht. cbn [TR] in Ht.
    destruct (st t) eqn:Est; try contradiction.
    exists (set_thr s t (Running o p')).
    assert (HR' : REL st (vset c t (VRun o p')) (set_thr s t (Running o p'))).
    { constructor; cbn.
      - apply (r_todo st c s HR).
      - intros t'. unfold upd. destruct (Nat.eq_dec t' t) as [->|]; [rewrite Est; reflexivity | apply (r_thr st c s HR)]. }
    destruct (Hc s Ht) as [E|[e E]].
    - exists [LTau t]. split; [eapply creach_step; exact E|]. split; [reflexivity|]. split; [reflexivity | exact HR'].
    - exists [LEv t e]. split; [eapply creach_step; exact E|]. split; [reflexivity|]. split; [reflexivity | exact HR'].
  Qed.

  (* one move of the combined trace, mirrored by the atomic machine *)
  Lemma step_sim c a c1 os (i : list (iev cmop imres)) st s h :
    vstep c a = Some (c1, os) ->
    wf_inst cmop imres st i -> legal cmop imres _ cmspec (c_map s) i ->
    erase cmop imres i = mproj os ++ h -> REL st c s ->
    exists st' i' s1 ls1,
      creach s ls1 s1 /\ history ls1 = cproj os /\ REL st' c1 s1
      /\ wf_inst cmop imres st' i' /\ legal cmop imres _ cmspec (c_map s1) i' /\ erase cmop imres i' = h.
  Proof.
    intros Ev Hw Hl He HR.
    destruct a as [t|t|t|t r|t l|t]; cbn [vstep] in Ev.
    - (* invoke a cache method *)
      destruct (v_thr c t) eqn:Et; try discriminate Ev.
      destruct (v_todo c t) as [|o rest] eqn:Etd; try discriminate Ev.
      inversion Ev; subst c1 os; clear Ev. cbn [mproj cproj app] in He |- *.
      pose proof (r_thr st c s HR t) as Ht. rewrite Et in Ht. cbn [TR] in Ht.
      destruct (st t) eqn:Est; try contradiction.
      set (s1 := {| c_map := c_map s; c_thr := upd (c_thr s) t (Running o (progs o)); c_todo := upd (c_todo s) t rest |}).
      assert (Hstep : cstep s t [] = Some (s1, [LInv t o])).
      { unfold Conc.cstep. rewrite Ht. rewrite (r_todo st c s HR t), Etd. reflexivity. }
      exists st, i, s1, [LInv t o]. split; [eapply creach_step; exact Hstep|]. split; [reflexivity|].
      split; [|split; [exact Hw | split; [exact Hl | exact He]]].
      constructor; cbn.
      + intros t'. unfold upd. destruct (Nat.eq_dec t' t); [reflexivity | apply (r_todo st c s HR)].
      + intros t'. unfold upd. destruct (Nat.eq_dec t' t) as [->|]; [rewrite Est; reflexivity | apply (r_thr st c s HR)].
    - (* return *)
      destruct (v_thr c t) as [|o p|] eqn:Et; try discriminate Ev.
      destruct p; try discriminate Ev.
      inversion Ev; subst c1 os; clear Ev. cbn [mproj cproj app] in He |- *.
      pose proof (r_thr st c s HR t) as Ht. rewrite Et in Ht. cbn [TR] in Ht.
      destruct (st t) eqn:Est; try contradiction.
      assert (Hstep : cstep s t [] = Some (set_thr s t Idle, [LRes t r])).
      { unfold Conc.cstep. rewrite Ht. reflexivity. }
      exists st, i, (set_thr s t Idle), [LRes t r]. split; [eapply creach_step; exact Hstep|]. split; [reflexivity|].
      split; [|split; [exact Hw | split; [exact Hl | exact He]]].
      constructor; cbn.
      + apply (r_todo st c s HR).
      + intros t'. unfold upd. destruct (Nat.eq_dec t' t) as [->|]; [rewrite Est; reflexivity | apply (r_thr st c s HR)].
    - (* map-level invocation *)
      destruct (v_thr c t) as [|o p|] eqn:Et; try discriminate Ev.
      destruct p as [|mo k| | | | | |]; try discriminate Ev.
      assert (Hns : mo <> CSnapshot) by (intros ->; discriminate Ev).
      assert (Ev' : c1 = vset c t (VWait o mo k) /\ os = [OM (HInv t mo)]).
      { destruct mo; try discriminate Ev; inversion Ev; auto. }
      destruct Ev' as [-> ->]. clear Ev. cbn [mproj cproj app] in He |- *.
      destruct (lin_prefix i st c s _ _ Hw Hl He HR) as [st' [s' [ie [i' [ls0 [A [B [C [D [E [F G]]]]]]]]]]].
      destruct ie as [t' o'|t' o' r'|t' r']; cbn in F; try discriminate F. inversion F; subst t' o'. clear F.
      apply wf_inv_i in D. destruct D as [Hst D]. apply legal_inv_i in E.
      pose proof (r_thr st' c s' C t) as Ht. rewrite Et, Hst in Ht. cbn [TR] in Ht.
      exists (upd st' t (TInvoked mo)), i', s', ls0. split; [exact A|]. split; [exact B|].
      split; [|split; [exact D | split; [exact E | exact G]]].
      constructor; cbn.
      + apply (r_todo st' c s' C).
      + intros t'. unfold upd. destruct (Nat.eq_dec t' t) as [->|]; [cbn; auto | apply (r_thr st' c s' C)].
    - (* map-level response *)
      destruct (v_thr c t) as [| |o mo k] eqn:Et; try discriminate Ev.
      inversion Ev; subst c1 os; clear Ev. cbn [mproj cproj app] in He |- *.
      destruct (lin_prefix i st c s _ _ Hw Hl He HR) as [st' [s' [ie [i' [ls0 [A [B [C [D [E [F G]]]]]]]]]]].
      destruct ie as [t' o'|t' o' r'|t' r']; cbn in F; try discriminate F. inversion F; subst t' r'. clear F.
      apply wf_res_i in D. destruct D as [o1 [Hst D]]. apply legal_res_i in E.
      pose proof (r_thr st' c s' C t) as Ht. rewrite Et, Hst in Ht. cbn [TR] in Ht. destruct Ht as [_ Ht].
      exists (upd st' t TIdle), i', s', ls0. split; [exact A|]. split; [exact B|].
      split; [|split; [exact D | split; [exact E | exact G]]].
      constructor; cbn.
      + apply (r_todo st' c s' C).
      + intros t'. unfold upd. destruct (Nat.eq_dec t' t) as [->|]; [cbn; exact Ht | apply (r_thr st' c s' C)].
    - (* snapshot: one step, any answer *)
      destruct (v_thr c t) as [|o p|] eqn:Et; try discriminate Ev.
      destruct p as [|mo k| | | | | |]; try discriminate Ev.
      destruct mo; try discriminate Ev.
      inversion Ev; subst c1 os; clear Ev. cbn [mproj cproj app] in He |- *.
      destruct (silent_step st c s t o _ (k (RSnap l)) l HR Et) as [s1 [ls1 [A [B [Em HR1]]]]].
      { intros s0 H0. left. unfold Conc.cstep. rewrite H0. reflexivity. }
      rewrite <- Em in Hl. exists st, i, s1, ls1. auto 10.
    - (* reads of the clock and of the settings, emitted events *)
      destruct (v_thr c t) as [|o p|] eqn:Et; try discriminate Ev.
      destruct p as [|mo k|k|k|d k|k|cb k|e k]; try discriminate Ev;
        inversion Ev; subst c1 os; clear Ev; cbn [mproj cproj app] in He |- *.
      + destruct (silent_step st c s t o _ (k NOW) [] HR Et) as [s1 [ls1 [A [B [Em HR1]]]]].
        { intros s0 H0. left. unfold Conc.cstep. rewrite H0. reflexivity. }
        rewrite <- Em in Hl. exists st, i, s1, ls1. auto 10.
      + destruct (silent_step st c s t o _ (k DFLT) [] HR Et) as [s1 [ls1 [A [B [Em HR1]]]]].
        { intros s0 H0. left. unfold Conc.cstep. rewrite H0. reflexivity. }
        rewrite <- Em in Hl. exists st, i, s1, ls1. auto 10.
      + destruct (silent_step st c s t o _ (k CB) [] HR Et) as [s1 [ls1 [A [B [Em HR1]]]]].
        { intros s0 H0. left. unfold Conc.cstep. rewrite H0. reflexivity. }
        rewrite <- Em in Hl. exists st, i, s1, ls1. auto 10.
      + destruct (silent_step st c s t o _ k [] HR Et) as [s1 [ls1 [A [B [Em HR1]]]]].
        { intros s0 H0. right. exists e. unfold Conc.cstep. rewrite H0. reflexivity. }
        rewrite <- Em in Hl. exists st, i, s1, ls1. auto 10.
  Qed.

  (* combined traces as a relation: configurations are compared pointwise (their fields
     are functions of the thread) *)
  Definition veq (c c' : vconf) : Prop :=
    (forall t, v_thr c t = v_thr c' t) /\ (forall t, v_todo c t = v_todo c' t).

  Lemma veq_refl c : veq c c.
  Proof. split; reflexivity. Qed.

  Inductive vtrace : vconf -> list out -> Prop :=
  | vt_nil c : vtrace c []
  | vt_step c a c1 os c1' outs :
      vstep c a = Some (c1, os) -> veq c1 c1' -> vtrace c1' outs -> vtrace c (os ++ outs).

  Lemma vrun_vtrace acts : forall c, vtrace c (snd (vrun c acts)).
  Proof.
    induction acts as [|a acts IH]; intros c; [constructor|].
    rewrite vrun_cons. destruct (vstep c a) as [[c1 os]|] eqn:Ev; [|apply IH].
    cbn [snd]. econstructor; [exact Ev | apply veq_refl | apply IH].
  Qed.

  Lemma veq_sym c c' : veq c c' -> veq c' c.
  Proof. intros [A B]. split; intros t; symmetry; auto. Qed.

  Lemma veq_trans c c' c'' : veq c c' -> veq c' c'' -> veq c c''.
  Proof. intros [A B] [A' B']. split; intros t; [rewrite A; apply A' | rewrite B; apply B']. Qed.

  Lemma veq_vset c c' t x : veq c c' -> veq (vset c t x) (vset c' t x).
  Proof.
    intros [A B]. split; cbn; [|exact B]. intros u. unfold upd. destruct (Nat.eq_dec u t); [reflexivity | apply A].
  Qed.

  Lemma vstep_veq c c' a c1 os : veq c c' -> vstep c a = Some (c1, os) ->
    exists c1', vstep c' a = Some (c1', os) /\ veq c1 c1'.
  Proof.
    intros Hq E. pose proof Hq as [A B].
    destruct a as [t|t|t|t r|t l|t]; cbn [vstep] in *; rewrite <- ?(A t), <- ?(B t).
    - destruct (v_thr c t); try discriminate E. destruct (v_todo c t) as [|o rest]; try discriminate E.
      inversion E; subst. eexists. split; [reflexivity|]. split; cbn; intros u; unfold upd; destruct (Nat.eq_dec u t); auto.
    - destruct (v_thr c t) as [|o p|]; try discriminate E. destruct p; try discriminate E.
      inversion E; subst. eexists. split; [reflexivity|]. apply veq_vset. exact Hq.
    - destruct (v_thr c t) as [|o p|]; try discriminate E. destruct p as [|mo k| | | | | |]; try discriminate E.
      destruct mo; try discriminate E; inversion E; subst; (eexists; split; [reflexivity|]; apply veq_vset; exact Hq).
    - destruct (v_thr c t); try discriminate E.
      inversion E; subst. eexists. split; [reflexivity|]. apply veq_vset. exact Hq.
    - destruct (v_thr c t) as [|o p|]; try discriminate E. destruct p as [|mo k| | | | | |]; try discriminate E.
      destruct mo; try discriminate E.
      inversion E; subst. eexists. split; [reflexivity|]. apply veq_vset. exact Hq.
    - destruct (v_thr c t) as [|o p|]; try discriminate E. destruct p; try discriminate E;
        inversion E; subst; (eexists; split; [reflexivity|]; apply veq_vset; exact Hq).
  Qed.

  Lemma vtrace_veq c c' outs : veq c c' -> vtrace c outs -> vtrace c' outs.
  Proof.
    intros Hq Hv. destruct Hv as [c | c a c1 os c1' outs Ev Hq1 Hv]; [constructor|].
    destruct (vstep_veq c c' a c1 os Hq Ev) as [c1'' [Ev' Hq']].
    eapply vt_step; [exact Ev' | | exact Hv]. eapply veq_trans; [apply veq_sym; exact Hq' | exact Hq1].
  Qed.

  Lemma REL_veq st c c' s : veq c c' -> REL st c s -> REL st c' s.
  Proof.
    intros [A B] [C D]. constructor.
    - intros t. rewrite <- B. apply C.
    - intros t. rewrite <- A. apply D.
  Qed.

  Theorem compose_main c outs : vtrace c outs ->
    forall (i : list (iev cmop imres)) st s,
    wf_inst cmop imres st i -> legal cmop imres _ cmspec (c_map s) i ->
    erase cmop imres i = mproj outs -> REL st c s ->
    exists ls s', creach s ls s' /\ history ls = cproj outs.
  Proof.
    induction 1 as [c | c a c1 os c1' outs Ev Hq Hv IH]; intros i st s Hw Hl He HR.
    - exists [], s. split; [apply creach_refl | reflexivity].
    - rewrite mproj_app in He.
      destruct (step_sim c a c1 os i st s _ Ev Hw Hl He HR) as [st' [i' [s1 [ls1 [A [B [C [D [E F]]]]]]]]].
      destruct (IH i' st' s1 D E F (REL_veq st' c1 c1' s1 Hq C)) as [ls [s' [A' B']]].
      exists (ls1 ++ ls), s'. split; [eapply creach_trans; eassumption|].
      rewrite history_app, cproj_app, B, B'. reflexivity.
  Qed.

  (* ---------------- the composition theorem ---------------- *)

  (* a combined trace whose map-level projection is linearizable (w.r.t. one map_step per
     call, from the map m0) has the cache-level history of a run of the atomic machine *)
  Theorem compose_trace (m0 : amap K item) (todo : nat -> list cop) (outs : list out) :
    vtrace (vinit todo) outs ->
    linearizable cmop imres _ cmspec m0 (mproj outs) ->
    exists sched, history (snd (crun (cinit m0 todo) sched)) = cproj outs.
  Proof.
    intros Hv [i [E [W L]]].
    destruct (compose_main _ _ Hv i (fun _ => TIdle) (cinit m0 todo) W L E) as [ls [s' [[sched A] B]]].
    - constructor; cbn; [reflexivity | intros t; reflexivity].
    - exists sched. rewrite A. exact B.
  Qed.

  Theorem compose (m0 : amap K item) (todo : nat -> list cop) (acts : list act) :
    linearizable cmop imres _ cmspec m0 (mproj (snd (vrun (vinit todo) acts))) ->
    exists sched, history (snd (crun (cinit m0 todo) sched)) = cproj (snd (vrun (vinit todo) acts)).
  Proof. apply (compose_trace m0 todo). apply vrun_vtrace. Qed.

  Theorem compose_trace_linearizable (St : Type) (spec : St -> cop -> cres -> St -> Prop) (S0 : St)
      (m0 : amap K item) (todo : nat -> list cop) (outs : list out) :
    (forall sched, linearizable cop cres St spec S0 (history (snd (crun (cinit m0 todo) sched)))) ->
    vtrace (vinit todo) outs ->
    linearizable cmop imres _ cmspec m0 (mproj outs) ->
    linearizable cop cres St spec S0 (cproj outs).
  Proof.
    intros Hall Hv Hm. destruct (compose_trace m0 todo outs Hv Hm) as [sched E]. rewrite <- E. apply Hall.
  Qed.

  Theorem compose_linearizable (St : Type) (spec : St -> cop -> cres -> St -> Prop) (S0 : St)
      (m0 : amap K item) (todo : nat -> list cop) (acts : list act) :
    (forall sched, linearizable cop cres St spec S0 (history (snd (crun (cinit m0 todo) sched)))) ->
    linearizable cmop imres _ cmspec m0 (mproj (snd (vrun (vinit todo) acts))) ->
    linearizable cop cres St spec S0 (cproj (snd (vrun (vinit todo) acts))).
  Proof. intros Hall. apply (compose_trace_linearizable St spec S0 m0 todo); [exact Hall | apply vrun_vtrace]. Qed.

End Compose.

Arguments VIdle {K V}.
Arguments AInv {K V}.
Arguments ARet {K V}.
Arguments AMInv {K V}.
Arguments ATau {K V}.

(* ---------------- the cache methods of CacheModel (xsync_map.go) ---------------- *)

Section CacheCompose.
  Context {K V : Type}.
  Variable eqd : forall a b : K, {a = b} + {a <> b}.
  Variable zero : V.
  Variables NOW DFLT : Z.
  Variable CB : cbid.

  (* every combined trace of the cache methods whose map-level projection is linearizable
     (one map_step per call) is linearizable, at the cache level, w.r.t. the TTL semantics *)
  Theorem cache_compose (P0 L0 : amap K (item V)) (todo : nat -> list (cop K V))
      (acts : list (@act K V)) :
    Rm eqd NOW DFLT CB P0 L0 -> (forall t, Forall conc_ok (todo t)) ->
    linearizable _ _ _ (@cmspec K V eqd (Conc.env0 NOW DFLT)) P0
      (mproj (snd (vrun (prog_cache eqd zero) NOW DFLT CB (vinit todo) acts))) ->
    linearizable _ _ _ (tspec eqd zero) (mk NOW DFLT CB L0)
      (cproj (snd (vrun (prog_cache eqd zero) NOW DFLT CB (vinit todo) acts))).
  Proof.
    intros HR Htodo Hm.
    eapply (compose_linearizable eqd (prog_cache eqd zero) NOW DFLT CB); [|exact Hm].
    intros sched. apply (cache_linearizable eqd zero NOW DFLT CB P0 L0 todo sched HR Htodo).
  Qed.

  Theorem cache_compose_trace (P0 L0 : amap K (item V)) (todo : nat -> list (cop K V)) (outs : list (@out K V)) :
    Rm eqd NOW DFLT CB P0 L0 -> (forall t, Forall conc_ok (todo t)) ->
    vtrace (prog_cache eqd zero) NOW DFLT CB (vinit todo) outs ->
    linearizable _ _ _ (@cmspec K V eqd (Conc.env0 NOW DFLT)) P0 (mproj outs) ->
    linearizable _ _ _ (tspec eqd zero) (mk NOW DFLT CB L0) (cproj outs).
  Proof.
    intros HR Htodo Hv Hm.
    eapply (compose_trace_linearizable eqd (prog_cache eqd zero) NOW DFLT CB); [|exact Hv|exact Hm].
    intros sched. apply (cache_linearizable eqd zero NOW DFLT CB P0 L0 todo sched HR Htodo).
  Qed.

End CacheCompose.

Print Assumptions compose.
Print Assumptions cache_compose.
