(* XS_fair.v -- fair scheduling of XMachineS (Map, map.go: the bucket lock is a CAS spin lock) (C13).
   A thread in front of a held bucket lock is ENABLED and spins (QK_Load -> QK_Spin -> QK_Load ...): its steps change nothing but
   its own program counter, so "every enabled step of a thread of ths decreases the measure" (the scheme of X_fair.v) is false here.
   Part 0: the HELPFUL-THREAD scheme, for an arbitrary transition system: steps are classified as stuttering or not; no step raises
           the measure, every non-stuttering step lowers it; in every unfinished state some thread of ths is helpful (enabled, its
           step does not stutter), and stays helpful while the others stutter.  Under fairness the helpful thread is scheduled, or
           somebody else lowers the measure first.  [fair] is that of X_fair.v.
   Part 1: XMachineS: spinning, the helpful thread of every reachable unfinished state ([s_helpful]), stability, and
           - [s_fair_progress]: under every fair schedule a non-spinning step of a thread of ths is eventually executed (no livelock
             of spinners, no deadlock), unconditionally;
           - [s_fair_cond]: fair termination, GIVEN a measure that every non-spinning step of a thread of ths lowers. *)
From CacheV Require Import Base SpecMap XMachineS.
From CacheV.proofs Require Import X_maps XS_inv XS_lock XS_own XS_count XS_cells XS_read XS_fn XS_range XS_term.
From CacheV.proofs Require Import X_fair.
From Coq Require Import NArith Lia.
Local Open Scope nat_scope.

(* ================================================================================================================ *)
(* Part 0: the helpful-thread scheme *)

Section HelpScheme.
  Variable X : Type.
  Variable step : X -> nat -> option X.
  Variable ths : list nat.
  Variable fin : X -> Prop.                       (* every thread of ths is finished *)
  Variable stut : X -> nat -> bool.               (* the step of this thread in this state is a stuttering one *)

  Definition hstay (s : X) (t : nat) : X := match step s t with Some s' => s' | None => s end.
  Fixpoint hrun (sigma : nat -> nat) (n : nat) (s : X) : X :=
    match n with 0 => s | S m => hstay (hrun sigma m s) (sigma m) end.

  Lemma hrun_add sigma a : forall b s, hrun sigma (a + b) s = hrun (fun i => sigma (a + i)) b (hrun sigma a s).
  Proof.
    induction b as [|b IH]; intros s; [rewrite Nat.add_0_r; reflexivity|].
    rewrite Nat.add_succ_r. cbn [hrun]. rewrite IH. reflexivity.
  Qed.

  (* u is helpful in s: enabled, and its step does not stutter *)
  Definition helpful (s : X) (u : nat) : Prop := (exists s', step s u = Some s') /\ stut s u = false.

  Variable Inv : X -> Prop.
  Hypothesis Inv_step : forall s t s', Inv s -> step s t = Some s' -> Inv s'.
  Hypothesis help_ex : forall s, Inv s -> ~ fin s -> exists u, In u ths /\ helpful s u.
  Hypothesis help_stable : forall s t s' u, Inv s -> helpful s u -> t <> u -> stut s t = true -> step s t = Some s' -> helpful s' u.

  Lemma Inv_hrun sigma n : forall s, Inv s -> Inv (hrun sigma n s).
  Proof.
    induction n as [|n IH]; intros s H; [exact H|]. cbn [hrun]. unfold hstay.
    destruct (step (hrun sigma n s) (sigma n)) as [s'|] eqn:E; [|apply IH; exact H].
    eapply Inv_step; [apply IH; exact H | exact E].
  Qed.

  (* until the helpful thread u is scheduled, a non-stuttering step is executed (at the latest u's own) *)
  Lemma wait_help u : forall d sigma s, Inv s -> helpful s u -> sigma d = u ->
    exists n s', n <= d /\ step (hrun sigma n s) (sigma n) = Some s' /\ stut (hrun sigma n s) (sigma n) = false
                 /\ forall m, m < n -> stut (hrun sigma m s) (sigma m) = true \/ step (hrun sigma m s) (sigma m) = None.
  Proof.
    induction d as [|d IH]; intros sigma s HI [[s1 E1] Hn] Hs.
    - exists 0, s1. cbn [hrun]. rewrite Hs. split; [lia|]. split; [exact E1|]. split; [exact Hn|]. intros m Hm. lia.
    - destruct (step s (sigma 0)) as [s'|] eqn:E.
      + destruct (stut s (sigma 0)) eqn:Est.
        * assert (Hne : sigma 0 <> u) by (intros Eq; rewrite Eq in Est; congruence).
          assert (E0 : hrun sigma 1 s = s') by (cbn [hrun]; unfold hstay; rewrite E; reflexivity).
          destruct (IH (fun i => sigma (1 + i)) s' (Inv_step s _ s' HI E) (help_stable s _ s' u HI (conj (ex_intro _ s1 E1) Hn) Hne Est E))
            as [n [s2 [Hle [A [B C]]]]]; [cbn; exact Hs|].
          exists (1 + n), s2. rewrite hrun_add, E0. split; [lia|]. split; [exact A|]. split; [exact B|].
          intros m Hm. destruct m as [|m]; [left; exact Est|].
          replace (S m) with (1 + m) by lia. rewrite hrun_add, E0. apply C. lia.
        * exists 0, s'. cbn [hrun]. split; [lia|]. split; [exact E|]. split; [exact Est|]. intros m Hm. lia.
      + assert (E0 : hrun sigma 1 s = s) by (cbn [hrun]; unfold hstay; rewrite E; reflexivity).
        destruct (IH (fun i => sigma (1 + i)) s HI (conj (ex_intro _ s1 E1) Hn)) as [n [s2 [Hle [A [B C]]]]]; [cbn; exact Hs|].
        exists (1 + n), s2. rewrite hrun_add, E0. split; [lia|]. split; [exact A|]. split; [exact B|].
        intros m Hm. destruct m as [|m]; [right; exact E|].
        replace (S m) with (1 + m) by lia. rewrite hrun_add, E0. apply C. lia.
  Qed.

  (* PROGRESS: under fairness, from an unfinished state, a non-stuttering step is executed after finitely many stuttering / void ones *)
  Theorem help_progress sigma s : fair ths sigma -> Inv s -> ~ fin s ->
    exists n s', step (hrun sigma n s) (sigma n) = Some s' /\ stut (hrun sigma n s) (sigma n) = false
                 /\ forall m, m < n -> stut (hrun sigma m s) (sigma m) = true \/ step (hrun sigma m s) (sigma m) = None.
  Proof.
    intros Hf HI Hnf. destruct (help_ex s HI Hnf) as [u [Hu Hh]]. destruct (Hf 0 u Hu) as [d [_ Hs]].
    destruct (wait_help u d sigma s HI Hh Hs) as [n [s' [_ H]]]. exists n, s'. exact H.
  Qed.

  (* TERMINATION, given a measure *)
  Variable M : X -> nat.
  Hypothesis M_le : forall s t s', Inv s -> step s t = Some s' -> M s' <= M s.
  Hypothesis M_dec : forall s t s', Inv s -> step s t = Some s' -> stut s t = false -> M s' < M s.
  Hypothesis fin_dec : forall s, Inv s -> fin s \/ ~ fin s.

  Lemma M_hrun sigma n : forall s, Inv s -> M (hrun sigma n s) <= M s.
  Proof.
    induction n as [|n IH]; intros s H; [cbn; lia|]. cbn [hrun]. unfold hstay.
    destruct (step (hrun sigma n s) (sigma n)) as [s'|] eqn:E; [|apply IH; exact H].
    pose proof (M_le _ _ _ (Inv_hrun sigma n s H) E). specialize (IH s H). lia.
  Qed.

  Lemma fair_shift_h sigma a : fair ths sigma -> fair ths (fun i => sigma (a + i)).
  Proof.
    intros H n t Ht. destruct (H (a + n) t Ht) as [m [Hm E]]. exists (m - a). split; [lia|]. replace (a + (m - a)) with m by lia. exact E.
  Qed.

  Theorem help_scheme : forall k sigma s, fair ths sigma -> Inv s -> M s <= k -> exists n, fin (hrun sigma n s).
  Proof.
    induction k as [k IH] using lt_wf_ind. intros sigma s Hf HI Hk.
    destruct (fin_dec s HI) as [Hd|Hd]; [exists 0; exact Hd|].
    destruct (help_progress sigma s Hf HI Hd) as [n [s' [E [Est _]]]].
    pose proof (Inv_hrun sigma n s HI) as HIn. pose proof (M_hrun sigma n s HI) as Hmn.
    pose proof (M_dec _ _ _ HIn E Est) as Hlt.
    assert (E1 : hrun sigma (S n) s = s') by (cbn [hrun]; unfold hstay; rewrite E; reflexivity).
    destruct (IH (M s') ltac:(lia) (fun i => sigma (S n + i)) s' (fair_shift_h sigma (S n) Hf) (Inv_step _ _ _ HIn E) (le_n _)) as [n' Hd'].
    exists (S n + n'). rewrite hrun_add, E1. exact Hd'.
  Qed.
End HelpScheme.

(* ================================================================================================================ *)
(* Part 1: XMachineS *)

Section SFair.
  Context {K V : Type}.
  Variable eqd : forall a b : K, {a = b} + {a <> b}.
  Variable hash : K -> N -> N.
  Variable idx : N -> nat -> nat.
  Variable tophash : N -> N.
  Variable nslots : nat.
  Variable seeds : nat -> N.
  Variable grow_needed : nat -> Z -> bool.
  Variable shrink_policy : nat -> Z -> bool.
  Variable nstripes : nat -> nat.
  Variable minlen : nat.
  Variable grow_only : bool.

  Notation mstate := (@mstate K V).
  Notation spc := (@spc K V).
  Notation slabel := (@slabel K V).
  Notation sstep_pc := (@sstep_pc K V eqd hash idx tophash nslots seeds grow_needed shrink_policy nstripes minlen grow_only).
  Notation sstep := (@sstep K V eqd hash idx tophash nslots seeds grow_needed shrink_policy nstripes minlen grow_only).
  Notation srun := (@srun K V eqd hash idx tophash nslots seeds grow_needed shrink_policy nstripes minlen grow_only).
  Notation senabled := (@senabled K V eqd hash idx tophash nslots seeds grow_needed shrink_policy nstripes minlen grow_only).
  Notation stab_at := (@stab_at K V nslots nstripes).
  Notation sinvoke := (@sinvoke K V).
  Notation TI := (@TI K V hash idx tophash nslots nstripes).
  Notation sholds := (@sholds K V hash idx nslots nstripes).
  Notation lock_of := (@lock_of K V nslots nstripes).

  Hypothesis Hnslots : 0 < nslots.
  Hypothesis Hidx : forall h len, 0 < len -> idx h len < len.
  Hypothesis Hslots : nslots <= 3.
  Hypothesis Htop : forall k sd, (tophash (hash k sd) < 1048576)%N.
  Hypothesis Hminlen : 0 < minlen.
  Hypothesis Hstripes : forall len, 0 < nstripes len.

  (* ---------------- infinite schedules ---------------- *)

  Definition sstepS (s : mstate) (t : nat) : option mstate := match sstep s t with Some (s', _) => Some s' | None => None end.
  Definition s_run_to (sigma : nat -> nat) (n : nat) (s : mstate) : mstate := hrun mstate sstepS sigma n s.

  Lemma srun_snoc s a t : fst (srun s (a ++ [t])) = hstay mstate sstepS (fst (srun s a)) t.
  Proof.
    rewrite (srun_app eqd hash idx tophash nslots seeds grow_needed shrink_policy nstripes minlen grow_only). cbn [fst].
    unfold hstay, sstepS. cbn [XMachineS.srun]. destruct (sstep (fst (srun s a)) t) as [[s' ls]|]; reflexivity.
  Qed.

  Lemma s_run_to_srun sigma n s : s_run_to sigma n s = fst (srun s (map sigma (seq 0 n))).
  Proof.
    unfold s_run_to. induction n as [|n IH]; [reflexivity|]. cbn [hrun]. rewrite seq_S, map_app. cbn [map Nat.add]. rewrite srun_snoc, <- IH. reflexivity.
  Qed.

  Variable ths : list nat.

  Definition s_all_done (s : mstate) : Prop := forall t, In t ths -> h_pc s t = QIdle /\ h_todo s t = [].
  (* threads outside ths have nothing to do *)
  Definition SOUT (s : mstate) : Prop := forall u, ~ In u ths -> (h_pc s u = QStart \/ h_pc s u = QIdle) /\ h_todo s u = [].

  (* ---------------- spinning ---------------- *)

  (* in front of a held bucket lock: LoadUint64 sees the bit, Gosched, LoadUint64, ... *)
  Definition spinning (s : mstate) (p : spc) : bool :=
    match p with
    | QK_Load tab b _ | QK_Spin tab b _ => match lock_of s tab b with Some _ => true | None => false end
    | _ => false
    end.

  (* stuttering steps: those of a spinner, and the start of a thread that has nothing to do *)
  Definition sstut (s : mstate) (t : nat) : bool := if in_dec Nat.eq_dec t ths then spinning s (h_pc s t) else true.

  Lemma spin_step s t : spinning s (h_pc s t) = true -> exists q ls, sstep s t = Some (sset_pc s t q, ls).
  Proof.
    intros H. destruct (h_pc s t) eqn:Hp; try discriminate H; cbn [spinning] in H.
    - destruct (lock_of s tab b) eqn:El; [|discriminate H].
      exists (QK_Spin tab b lk). eexists. unfold XMachineS.sstep. rewrite Hp. cbn [XMachineS.sstep_pc]. cbv zeta.
      unfold XS_lock.lock_of, lockT in El. change (tabT nslots nstripes (h_tabs s) tab) with (stab_at s tab) in El. rewrite El. reflexivity.
    - exists (QK_Load tab b lk). eexists. unfold XMachineS.sstep. rewrite Hp. reflexivity.
  Qed.

  Lemma out_step s t s' ls : SOUT s -> ~ In t ths -> sstep s t = Some (s', ls) -> s' = sset_pc s t QIdle.
  Proof.
    intros HO Ht E. destruct (HO t Ht) as [[Ep|Ep] Etd]; unfold XMachineS.sstep in E; rewrite Ep in E.
    - cbn [XMachineS.sstep_pc] in E. inversion E. reflexivity.
    - rewrite Etd in E. discriminate E.
  Qed.

  Lemma stut_step s t s' ls : SOUT s -> sstut s t = true -> sstep s t = Some (s', ls) -> exists q, s' = sset_pc s t q.
  Proof.
    intros HO Hst E. unfold sstut in Hst. destruct (in_dec Nat.eq_dec t ths) as [Hi|Hi].
    - destruct (spin_step s t Hst) as [q [ls' E']]. rewrite E' in E. inversion E. exists q. reflexivity.
    - exists QIdle. apply (out_step s t s' ls HO Hi E).
  Qed.

  (* what another thread can do does not depend on the program counter of t *)
  Lemma step_none_set_pc s t q u (p : spc) : sstep_pc (sset_pc s t q) u p = None <-> sstep_pc s u p = None.
  Proof.
    destruct p; cbn [XMachineS.sstep_pc]; cbv zeta;
      change (XMachineS.stab_at nslots nstripes (sset_pc s t q)) with (stab_at s);
      cbn [sset_pc h_tabs h_cur h_resizing h_rmu];
      repeat match goal with |- context [match ?x with _ => _ end] => destruct x end; split; intros H; try discriminate H; try reflexivity.
  Qed.

  Lemma some_en_s {A} (a b : option A) : (a = None <-> b = None) ->
    match a with Some _ => true | None => false end = match b with Some _ => true | None => false end.
  Proof. intros [H1 H2]. destruct a, b; try reflexivity; [specialize (H2 eq_refl) | specialize (H1 eq_refl)]; discriminate. Qed.

  Lemma enabled_set_pc s t q u : u <> t -> senabled (sset_pc s t q) u = senabled s u.
  Proof.
    intros Hne. unfold XMachineS.senabled, XMachineS.sstep. cbn [sset_pc h_pc h_todo]. destruct (Nat.eq_dec u t) as [->|_]; [contradiction|].
    destruct (h_pc s u) eqn:Ep; try (apply some_en_s; apply step_none_set_pc).
    destruct (h_todo s u); [reflexivity|].
    match goal with |- match (match ?x with _ => _ end) with _ => _ end = match (match ?y with _ => _ end) with _ => _ end =>
      destruct x as [[? ?]|]; destruct y as [[? ?]|]; reflexivity end.
  Qed.

  Definition s_helpful (s : mstate) (u : nat) : Prop := helpful mstate sstepS sstut s u.

  Lemma helpful_iff s u : s_helpful s u <-> senabled s u = true /\ sstut s u = false.
  Proof.
    unfold s_helpful, helpful, sstepS, XMachineS.senabled. destruct (sstep s u) as [[s' ls]|]; split.
    - intros [_ H]. auto.
    - intros [_ H]. split; [eexists; reflexivity | exact H].
    - intros [[s' E] _]. discriminate E.
    - intros [E _]. discriminate E.
  Qed.

  Lemma helpful_stable s t s' u : SOUT s -> s_helpful s u -> t <> u -> sstut s t = true -> sstepS s t = Some s' -> s_helpful s' u.
  Proof.
    intros HO Hh Hne Hst E. unfold sstepS in E. destruct (sstep s t) as [[s1 ls]|] eqn:E1; [|discriminate E]. inversion E; subst s1.
    destruct (stut_step s t s' ls HO Hst E1) as [q ->].
    apply helpful_iff in Hh. destruct Hh as [He Hs]. apply helpful_iff.
    split; [rewrite enabled_set_pc by (intros X; apply Hne; symmetry; exact X); exact He|].
    unfold sstut in *. cbn [sset_pc h_pc]. destruct (Nat.eq_dec u t) as [->|_]; [exfalso; apply Hne; reflexivity|].
    destruct (in_dec Nat.eq_dec u ths); [exact Hs | discriminate Hs].
  Qed.

  (* ---------------- the helpful thread of an unfinished state ---------------- *)

  Lemma in_ths_of_pc s u : SOUT s -> h_pc s u <> QStart -> h_pc s u <> QIdle -> In u ths.
  Proof. intros HO H1 H2. destruct (in_dec Nat.eq_dec u ths) as [H|H]; [exact H|]. destruct (HO u H) as [[E|E] _]; contradiction. Qed.

  Lemma sstep_pc_of s t : h_pc s t <> QIdle -> sstep s t = sstep_pc s t (h_pc s t).
  Proof. apply (sstep_of_pc eqd hash idx tophash nslots seeds grow_needed shrink_policy nstripes minlen grow_only). Qed.

  Lemma helpful_of_pc s u : In u ths -> h_pc s u <> QIdle -> sstep_pc s u (h_pc s u) <> None -> spinning s (h_pc s u) = false -> s_helpful s u.
  Proof.
    intros Hi Hni He Hsp. apply helpful_iff. split.
    - unfold XMachineS.senabled. rewrite (sstep_pc_of s u Hni). destruct (sstep_pc s u (h_pc s u)); [reflexivity | contradiction].
    - unfold sstut. destruct (in_dec Nat.eq_dec u ths); [exact Hsp | contradiction].
  Qed.

  (* the holder of a bucket lock is helpful: it is never blocked and it does not spin (it takes no second bucket lock) *)
  Lemma holder_helpful s u tab b : TI s -> SOUT s -> sholds s (h_pc s u) = Some (tab, b) -> In u ths /\ s_helpful s u.
  Proof.
    intros HT HO Hh.
    assert (Hi : In u ths) by (apply (in_ths_of_pc s u HO); intros E; rewrite E in Hh; discriminate Hh).
    split; [exact Hi|]. apply (helpful_of_pc s u Hi).
    - intros E; rewrite E in Hh; discriminate Hh.
    - apply (holder_enabled eqd hash idx tophash nslots seeds grow_needed shrink_policy nstripes minlen grow_only Hnslots Hidx Hslots Hminlen s u tab b HT Hh).
    - destruct (h_pc s u); try reflexivity; discriminate Hh.
  Qed.

  (* the holder of resizeMu is helpful: between Lock and Unlock / Wait nothing blocks and no bucket lock is taken *)
  Lemma mu_helpful s u : TI s -> SOUT s -> smu (h_pc s u) = true -> In u ths /\ s_helpful s u.
  Proof.
    intros HT HO Hm. pose proof HT as [_ [_ [_ [_ HK]]]].
    pose proof (smu_top nslots minlen Hnslots Hslots Hminlen _ (rk_pc s HK u) Hm) as Htop0.
    assert (Hi : In u ths) by (apply (in_ths_of_pc s u HO); intros E; rewrite E in Hm; discriminate Hm).
    split; [exact Hi|]. apply (helpful_of_pc s u Hi).
    - intros E; rewrite E in Hm; discriminate Hm.
    - destruct (h_pc s u); cbn [mubound] in Htop0; try lia; cbn [XMachineS.sstep_pc]; discriminate.
    - destruct (h_pc s u); cbn [mubound] in Htop0; try lia; reflexivity.
  Qed.

  (* a thread inside a call that is not in the wait set: it is helpful itself, or the holder of what it waits for is *)
  Lemma unblock s t : TI s -> SOUT s -> In t ths -> h_pc s t <> QIdle -> swaiting (h_pc s t) = false ->
    exists u, In u ths /\ s_helpful s u.
  Proof.
    intros HT HO Ht Hni Hnw. pose proof HT as [[HI [HL _]] [[HSV _] [_ [_ HK]]]].
    destruct (spinning s (h_pc s t)) eqn:Esp.
    - (* spinning: the holder of that lock *)
      assert (Hl : exists tab b w, lock_of s tab b = Some w).
      { destruct (h_pc s t); try discriminate Esp; cbn [spinning] in Esp; destruct (lock_of s tab b) as [w|] eqn:El; try discriminate Esp;
          exists tab, b, w; exact El. }
      destruct Hl as [tab [b [w Hl]]]. exists w. apply (holder_helpful s w tab b HT HO). apply (xl_lockB _ _ _ _ s HL w tab b Hl).
    - destruct (sstep_pc s t (h_pc s t)) as [[s' ls]|] eqn:E.
      + exists t. split; [exact Ht|]. apply (helpful_of_pc s t Ht Hni); [rewrite E; discriminate | exact Esp].
      + (* blocked: on resizeMu *)
        destruct (sholds s (h_pc s t)) as [[tab b]|] eqn:Eh.
        { exfalso. apply (holder_enabled eqd hash idx tophash nslots seeds grow_needed shrink_policy nstripes minlen grow_only Hnslots Hidx Hslots Hminlen s t tab b HT Eh). exact E. }
        assert (Hmu : exists w, h_rmu s = Some w).
        { pose proof (HSV t) as Hto.
          destruct (h_pc s t) eqn:Hp; try discriminate Eh; cbn [XMachineS.sstep_pc] in E; cbv zeta in E; cbn [todo_ok swaiting] in *;
            repeat match type of E with context [match ?x with _ => _ end] => destruct x eqn:? end; try discriminate E;
            try contradiction; try (exfalso; apply Hto; reflexivity); try discriminate Hnw;
            try (exfalso; apply (rk_nr s HK t _ Hp)); try (eexists; reflexivity). }
        destruct Hmu as [w Hw]. exists w. apply (mu_helpful s w HT HO). apply (si_muB s HI w Hw).
  Qed.

  Lemma s_all_done_dec s : s_all_done s \/ exists t, In t ths /\ ~ (h_pc s t = QIdle /\ h_todo s t = []).
  Proof.
    unfold s_all_done. induction ths as [|u r IH]; [left; intros t []|].
    assert (Hu : (h_pc s u = QIdle /\ h_todo s u = []) \/ ~ (h_pc s u = QIdle /\ h_todo s u = [])).
    { destruct (h_todo s u); [|right; intros [_ H]; discriminate H]. destruct (h_pc s u); try (right; intros [H _]; discriminate H). left. split; reflexivity. }
    destruct Hu as [Hu|Hu]; [|right; exists u; split; [left; reflexivity | exact Hu]].
    destruct IH as [H|[t [Ht Hn]]]; [left; intros t [<-|Ht]; [exact Hu | apply H; exact Ht] | right; exists t; split; [right; exact Ht | exact Hn]].
  Qed.

  (* HELPFUL THREAD: in every unfinished state some thread of ths is enabled and does not spin *)
  Theorem s_helpful_ex s : TI s -> SOUT s -> ~ s_all_done s -> exists u, In u ths /\ s_helpful s u.
  Proof.
    intros HT HO Hnd. pose proof HT as [[HI _] _].
    destruct (s_all_done_dec s) as [H|[t [Ht Hnf]]]; [contradiction|].
    destruct (h_pc s t) eqn:Hp.
    all: try (apply (unblock s t HT HO Ht); rewrite Hp; [discriminate | reflexivity]).
    - (* idle with a call to make: the invocation *)
      exists t. split; [exact Ht|]. apply helpful_iff. split.
      + unfold XMachineS.senabled, XMachineS.sstep. rewrite Hp. destruct (h_todo s t) eqn:Et; [exfalso; apply Hnf; split; reflexivity|].
        destruct (XMachineS.sstep_pc _ _ _ _ _ _ _ _ _ _ _ _ _ _); [destruct p|]; reflexivity.
      + unfold sstut. destruct (in_dec Nat.eq_dec t ths); [rewrite Hp; reflexivity | contradiction].
    - (* under an unlock / addSize: the continuation is never a waiting one *)
      apply (unblock s t HT HO Ht); rewrite Hp; [discriminate|]. pose proof (si_wf s HI t) as Hw. rewrite Hp in Hw. cbn [swf swaiting] in *. tauto.
    - apply (unblock s t HT HO Ht); rewrite Hp; [discriminate|]. pose proof (si_wf s HI t) as Hw. rewrite Hp in Hw. cbn [swf swaiting] in *. tauto.
    - apply (unblock s t HT HO Ht); rewrite Hp; [discriminate|]. pose proof (si_wf s HI t) as Hw. rewrite Hp in Hw. cbn [swf swaiting] in *. tauto.
    - (* in the wait set: the resizer (or whoever it waits for), or the broadcaster *)
      destruct (si_waiting s HI t ltac:(rewrite Hp; reflexivity)) as [Hr|[w Hw]].
      + destruct (si_rzC s HI Hr) as [r Hrz].
        assert (Hir : In r ths) by (apply (in_ths_of_pc s r HO); intros E; rewrite E in Hrz; discriminate Hrz).
        apply (unblock s r HT HO Hir); [intros E; rewrite E in Hrz; discriminate Hrz|].
        destruct (swaiting (h_pc s r)) eqn:Ew; [|reflexivity]. destruct (swaiting_not _ Ew) as [A _]. congruence.
      + exists w. apply (mu_helpful s w HT HO). apply sbcast_mu. exact Hw.
  Qed.

  (* ---------------- the invariant of the scheme ---------------- *)

  Lemma swake_start (p : spc) : (p = QStart \/ p = QIdle) -> (swake p = QStart \/ swake p = QIdle).
  Proof. intros [->| ->]; auto. Qed.

  Lemma SOUT_sstep s t s' ls : TI s -> SOUT s -> sstep s t = Some (s', ls) -> SOUT s'.
  Proof.
    intros HT HO E u Hu. destruct (HO u Hu) as [Hpu Htu].
    destruct (Nat.eq_dec u t) as [->|Hne].
    - rewrite (out_step s t s' ls HO Hu E). cbn [sset_pc h_pc h_todo]. destruct (Nat.eq_dec t t); [auto | congruence].
    - assert (Hstep : forall S0 p S1 l1, TI S0 -> h_pc S0 t = p -> sstep_pc S0 t p = Some (S1, l1) ->
                (h_pc S0 u = QStart \/ h_pc S0 u = QIdle) -> h_todo S0 u = [] -> (h_pc S1 u = QStart \/ h_pc S1 u = QIdle) /\ h_todo S1 u = []).
      { intros S0 p S1 l1 HT0 Hp Hs A B.
        destruct (step_oth eqd hash idx tophash nslots seeds grow_needed shrink_policy nstripes minlen grow_only S0 t p S1 l1 HT0 Hp Hs) as [Ho Htd].
        rewrite (proj1 (Ho u Hne)), Htd. split; [destruct (is_bcast_s p); [apply swake_start|]; exact A | exact B]. }
      destruct (h_pc s t) eqn:Ept.
      all: try (rewrite (sstep_pc_of s t) in E by (rewrite Ept; discriminate); rewrite Ept in E; apply (Hstep s _ s' ls HT Ept E Hpu Htu)).
      destruct (h_todo s t) as [|o rest] eqn:Et; [unfold XMachineS.sstep in E; rewrite Ept, Et in E; discriminate E|].
      assert (E' : match sstep_pc (sinvoke s t o rest) t (sstart_pc o) with
                   | Some (s2, l2) => Some (s2, SInv t o :: l2) | None => Some (sinvoke s t o rest, [SInv t o]) end = Some (s', ls)).
      { unfold XMachineS.sstep in E. rewrite Ept, Et in E. exact E. }
      assert (H1 : (h_pc (sinvoke s t o rest) u = QStart \/ h_pc (sinvoke s t o rest) u = QIdle) /\ h_todo (sinvoke s t o rest) u = []).
      { cbn [XS_count.sinvoke h_pc h_todo]. destruct (Nat.eq_dec u t); [contradiction | auto]. }
      destruct (sstep_pc (sinvoke s t o rest) t (sstart_pc o)) as [[s2 l2]|] eqn:E2; inversion E'; subst; [|exact H1].
      destruct H1 as [A B]. apply (Hstep (sinvoke s t o rest) (sstart_pc o) s' l2); try assumption.
      + apply (TI_invoke hash idx tophash nslots nstripes s t o rest HT Ept).
      + cbn [XS_count.sinvoke h_pc]. destruct (Nat.eq_dec t t); [reflexivity | congruence].
  Qed.

  Definition SInvF (s : mstate) : Prop := TI s /\ SOUT s.

  Lemma SInvF_step s t s' : SInvF s -> sstepS s t = Some s' -> SInvF s'.
  Proof.
    intros [HT HO] E. unfold sstepS in E. destruct (sstep s t) as [[s1 ls]|] eqn:E1; [|discriminate E]. inversion E; subst s1.
    split; [apply (TI_sstep eqd hash idx tophash nslots seeds grow_needed shrink_policy nstripes minlen grow_only Hnslots Hidx Hslots Htop Hminlen Hstripes s t s' ls HT E1)
           | apply (SOUT_sstep s t s' ls HT HO E1)].
  Qed.

  (* FAIR PROGRESS (no measure needed): from every unfinished state, under every fair schedule, after finitely many spinning steps
     (and void steps of blocked or finished threads, and starts of threads outside ths) a thread of ths executes a step that is
     not a spin on a held lock.  Spinners cannot starve the system: no livelock, no deadlock. *)
  Theorem s_fair_progress sigma s : fair ths sigma -> TI s -> SOUT s -> ~ s_all_done s ->
    exists n, let sn := s_run_to sigma n s in
      In (sigma n) ths /\ senabled sn (sigma n) = true /\ spinning sn (h_pc sn (sigma n)) = false
      /\ forall m, m < n -> let sm := s_run_to sigma m s in
           (In (sigma m) ths /\ spinning sm (h_pc sm (sigma m)) = true) \/ ~ In (sigma m) ths \/ senabled sm (sigma m) = false.
  Proof.
    intros Hf HT HO Hnd.
    destruct (help_progress mstate sstepS ths s_all_done sstut SInvF SInvF_step
                (fun s0 H0 => s_helpful_ex s0 (proj1 H0) (proj2 H0))
                (fun s0 t0 s1 u H0 => helpful_stable s0 t0 s1 u (proj2 H0)) sigma s Hf (conj HT HO) Hnd) as [n [s' [E [Est Hbefore]]]].
    exists n. cbv zeta. fold (s_run_to sigma n s) in E, Est.
    assert (Hh : s_helpful (s_run_to sigma n s) (sigma n)) by (split; [exists s'; exact E | exact Est]).
    apply helpful_iff in Hh. destruct Hh as [He Hs]. unfold sstut in Hs. destruct (in_dec Nat.eq_dec (sigma n) ths) as [Hi|Hi]; [|discriminate Hs].
    split; [exact Hi|]. split; [exact He|]. split; [exact Hs|].
    intros m Hm. destruct (Hbefore m Hm) as [H|H]; fold (s_run_to sigma m s) in H.
    - unfold sstut in H. destruct (in_dec Nat.eq_dec (sigma m) ths) as [Hi'|Hi']; [left; split; assumption | right; left; exact Hi'].
    - right; right. unfold sstepS in H. unfold XMachineS.senabled. destruct (sstep (s_run_to sigma m s) (sigma m)) as [[? ?]|]; [discriminate H | reflexivity].
  Qed.

  (* FAIR TERMINATION, GIVEN A MEASURE: an invariant Good (of reachable states) and M : mstate -> nat that no step raises and that every
     step of a thread of ths lowers unless it is a spin on a held bucket lock. *)
  Section Cond.
    Variable Good : mstate -> Prop.
    Variable M : mstate -> nat.
    Hypothesis Good_step : forall s t s' ls, TI s -> SOUT s -> Good s -> sstep s t = Some (s', ls) -> Good s'.
    Hypothesis M_le : forall s t s' ls, TI s -> SOUT s -> Good s -> sstep s t = Some (s', ls) -> M s' <= M s.
    Hypothesis M_dec : forall s t s' ls, TI s -> SOUT s -> Good s -> In t ths -> sstep s t = Some (s', ls) ->
      spinning s (h_pc s t) = false -> M s' < M s.

    Theorem s_fair_cond sigma s : fair ths sigma -> TI s -> SOUT s -> Good s -> exists n, s_all_done (s_run_to sigma n s).
    Proof.
      intros Hf HT HO HG.
      apply (help_scheme mstate sstepS ths s_all_done sstut (fun s0 => SInvF s0 /\ Good s0)) with (M := M) (k := M s).
      - intros s0 t s1 [H0 G0] E. split; [apply (SInvF_step s0 t s1 H0 E)|].
        unfold sstepS in E. destruct (sstep s0 t) as [[s2 ls]|] eqn:E1; [|discriminate E]. inversion E; subst s2.
        apply (Good_step s0 t s1 ls (proj1 H0) (proj2 H0) G0 E1).
      - intros s0 [H0 _] Hnd. apply (s_helpful_ex s0 (proj1 H0) (proj2 H0) Hnd).
      - intros s0 t0 s1 u [H0 _]. apply (helpful_stable s0 t0 s1 u (proj2 H0)).
      - intros s0 t s1 [H0 G0] E. unfold sstepS in E. destruct (sstep s0 t) as [[s2 ls]|] eqn:E1; [|discriminate E]. inversion E; subst s2.
        apply (M_le s0 t s1 ls (proj1 H0) (proj2 H0) G0 E1).
      - intros s0 t s1 [H0 G0] E Est. unfold sstepS in E. destruct (sstep s0 t) as [[s2 ls]|] eqn:E1; [|discriminate E]. inversion E; subst s2.
        unfold sstut in Est. destruct (in_dec Nat.eq_dec t ths) as [Hi|Hi]; [|discriminate Est].
        apply (M_dec s0 t s1 ls (proj1 H0) (proj2 H0) G0 Hi E1 Est).
      - intros s0 _. destruct (s_all_done_dec s0) as [H|[t [Ht Hn]]]; [left; exact H | right; intros H; apply Hn; apply H; exact Ht].
      - exact Hf.
      - split; [split; assumption | exact HG].
      - apply le_n.
    Qed.
  End Cond.

End SFair.

(* ================================================================================================================ *)
(* every reachable state *)

Section FinalSFair.
  Context {K V : Type}.
  Variable eqd : forall a b : K, {a = b} + {a <> b}.
  Variable hash : K -> N -> N.
  Variable idx : N -> nat -> nat.
  Variable tophash : N -> N.
  Variable nslots : nat.
  Variable seeds : nat -> N.
  Variable grow_needed shrink_policy : nat -> Z -> bool.
  Variable nstripes : nat -> nat.
  Variable minlen : nat.
  Variable grow_only : bool.

  Notation srun := (@srun K V eqd hash idx tophash nslots seeds grow_needed shrink_policy nstripes minlen grow_only).
  Notation sstep := (@sstep K V eqd hash idx tophash nslots seeds grow_needed shrink_policy nstripes minlen grow_only).
  Notation senabled := (@senabled K V eqd hash idx tophash nslots seeds grow_needed shrink_policy nstripes minlen grow_only).
  Notation s_run_to := (@s_run_to K V eqd hash idx tophash nslots seeds grow_needed shrink_policy nstripes minlen grow_only).
  Notation TI := (@TI K V hash idx tophash nslots nstripes).

  Lemma reachable_SOUT : sthyps hash idx tophash nslots nstripes minlen -> forall ths len0 todo sched, 0 < len0 ->
    (forall u, ~ In u ths -> todo u = []) ->
    TI (fst (srun (sinit nslots seeds nstripes len0 todo) sched)) /\ SOUT ths (fst (srun (sinit nslots seeds nstripes len0 todo) sched)).
  Proof.
    intros [[[H1 H2] [H3 [H4 H5]]] H6] ths len0 todo sched Hl Hout.
    assert (H0 : TI (sinit nslots seeds nstripes len0 todo) /\ SOUT ths (sinit nslots seeds nstripes len0 todo)).
    { split; [apply (TI_init eqd hash idx tophash nslots seeds grow_needed shrink_policy nstripes minlen grow_only); assumption|].
      intros u Hu. split; [left; reflexivity | apply Hout; exact Hu]. }
    revert H0. generalize (sinit nslots seeds nstripes len0 todo). induction sched as [|t r IH]; intros s [HT HO]; [split; assumption|].
    cbn [XMachineS.srun]. destruct (sstep s t) as [[s1 ls1]|] eqn:E; [|apply IH; split; assumption].
    assert (G : TI s1 /\ SOUT ths s1).
    { split; [apply (TI_sstep eqd hash idx tophash nslots seeds grow_needed shrink_policy nstripes minlen grow_only H2 H4 H1 H3 H5 H6 s t s1 ls1 HT E)|].
      apply (SOUT_sstep eqd hash idx tophash nslots seeds grow_needed shrink_policy nstripes minlen grow_only ths s t s1 ls1 HT HO E). }
    specialize (IH s1 G). destruct (srun s1 r) as [s2 ls2]. exact IH.
  Qed.

  (* from every reachable unfinished state, every fair schedule makes real progress after finitely many spins *)
  Theorem s_fair_progress_proof :
    sthyps hash idx tophash nslots nstripes minlen -> forall len0 todo sched ths, 0 < len0 -> (forall u, ~ In u ths -> todo u = []) ->
    let s := fst (srun (sinit nslots seeds nstripes len0 todo) sched) in
    forall sigma, fair ths sigma -> ~ s_all_done ths s ->
    exists n, let sn := s_run_to sigma n s in
      In (sigma n) ths /\ senabled sn (sigma n) = true /\ spinning nslots nstripes sn (h_pc sn (sigma n)) = false
      /\ forall m, m < n -> let sm := s_run_to sigma m s in
           (In (sigma m) ths /\ spinning nslots nstripes sm (h_pc sm (sigma m)) = true) \/ ~ In (sigma m) ths \/ senabled sm (sigma m) = false.
  Proof.
    intros Hx len0 todo sched ths Hl Hout s sigma Hf Hnd. pose proof Hx as [[[H1 H2] [H3 [H4 H5]]] H6].
    destruct (reachable_SOUT Hx ths len0 todo sched Hl Hout) as [HT HO]. fold s in HT, HO.
    apply (s_fair_progress eqd hash idx tophash nslots seeds grow_needed shrink_policy nstripes minlen grow_only H2 H4 H1 H3 H5 H6 ths sigma s Hf HT HO Hnd).
  Qed.

End FinalSFair.

(* ---------------- the executable instance (XExecS: the numbers of map.go) ---------------- *)
From CacheV Require Import TabExec Exec XExec XExecS.
From CacheV.gen Require Import Params.
From CacheV.proofs Require Import X_inst XS_inst XS_cinst XS_rdinst.

Notation s_run_to_m o seeds hint :=
  (s_run_to zeqd (hash_of o) idx_map tag_map (nslots_of false) (seeds_of seeds) grow_needed_s shrink_policy_s
            nstripes_x (minlen_of_hint false hint) false).
Notation s_enabled_m o seeds hint :=
  (senabled zeqd (hash_of o) idx_map tag_map (nslots_of false) (seeds_of seeds) grow_needed_s shrink_policy_s
            nstripes_x (minlen_of_hint false hint) false).

(* the extracted Map machine: from every reachable unfinished state every fair schedule executes, after finitely many spinning
   (or void) steps, a step of a thread of ths that is not a spin on a held bucket lock *)
Theorem s_machine_fair_progress (o : oracle) (seeds : list N) (hint : Z) (todo : nat -> list sop_z) (sched ths : list nat) :
  oracle64 o -> (forall u, ~ In u ths -> todo u = []) ->
  let s := fst (s_run o seeds hint (s_machine_init seeds hint todo) sched) in
  forall sigma, fair ths sigma -> ~ s_all_done ths s ->
  exists n, let sn := s_run_to_m o seeds hint sigma n s in
    In (sigma n) ths /\ s_enabled_m o seeds hint sn (sigma n) = true /\ spinning (nslots_of false) nstripes_x sn (h_pc sn (sigma n)) = false
    /\ forall m, (m < n)%nat -> let sm := s_run_to_m o seeds hint sigma m s in
         (In (sigma m) ths /\ spinning (nslots_of false) nstripes_x sm (h_pc sm (sigma m)) = true) \/ ~ In (sigma m) ths
         \/ s_enabled_m o seeds hint sm (sigma m) = false.
Proof.
  intros Ho Hout. unfold s_machine_init.
  apply (s_fair_progress_proof zeqd (hash_of o) idx_map tag_map (nslots_of false) (seeds_of seeds) grow_needed_s shrink_policy_s nstripes_x
           (minlen_of_hint false hint) false (s_instance_sthyps o hint Ho)); [apply minlen_of_hint_pos | exact Hout].
Qed.

(* ---------------- non-vacuity ---------------- *)
(* The reachable state [sex_state] of XS_term.v (one slot per bucket, two buckets): thread 1 holds the lock of bucket 1 (QW_Scan);
   thread 0, the resizer, SPINS on the lock word of bucket 1 (QK_Spin .. LKCopy): it is ENABLED and its steps change nothing but
   its program counter; thread 2 is in the wait set (not enabled).  The helpful thread is thread 1.  Under the round robin
   0,1,2,0,1,2,... (fair) thread 0 is still spinning after 18 steps (six of its own), has the lock after 21, and after 90 steps
   everybody is done (after 75 not yet).  s_fair_progress_proof applies to this system: under EVERY fair schedule a non-spinning
   step is executed after finitely many spins. *)
Definition sfx_rr (i : nat) : nat := Nat.modulo i 3.
Definition sfx_run_to := @s_run_to nat nat Nat.eq_dec ses_hash ses_idx (fun h => h) 1%nat (fun _ => 0%N) ses_grow (fun _ _ => false) (fun _ => 1%nat) 1%nat false.
Definition sfx_enabled := @senabled nat nat Nat.eq_dec ses_hash ses_idx (fun h => h) 1%nat (fun _ => 0%N) ses_grow (fun _ _ => false) (fun _ => 1%nat) 1%nat false.
Definition sfx_spin (s : @mstate nat nat) (t : nat) : bool := spinning 1%nat (fun _ => 1%nat) s (h_pc s t).

Lemma sfx_rr_fair : fair [0; 1; 2]%nat sfx_rr.
Proof.
  intros n t Ht. exists (t + n * 3)%nat. split; [lia|]. unfold sfx_rr. rewrite Nat.mod_add by lia.
  cbn [In] in Ht. repeat (destruct Ht as [<-|Ht]; [reflexivity|]). destruct Ht.
Qed.

Example s_fair_nonvacuous :
  (exists tab b lk, h_pc sex_state 0%nat = QK_Spin tab b lk) /\ sfx_spin sex_state 0%nat = true /\ sfx_enabled sex_state 0%nat = true
  /\ sfx_enabled sex_state 1%nat = true /\ sfx_spin sex_state 1%nat = false
  /\ sfx_enabled sex_state 2%nat = false
  /\ fair [0; 1; 2]%nat sfx_rr
  /\ sfx_spin (sfx_run_to sfx_rr 18 sex_state) 0%nat = true
  /\ sfx_spin (sfx_run_to sfx_rr 21 sex_state) 0%nat = false
  /\ ~ s_all_done [0; 1; 2]%nat (sfx_run_to sfx_rr 75 sex_state)
  /\ s_all_done [0; 1; 2]%nat (sfx_run_to sfx_rr 90 sex_state).
Proof.
  split; [do 3 eexists; vm_compute; reflexivity|]. repeat (split; [vm_compute; reflexivity|]).
  split; [exact sfx_rr_fair|]. repeat (split; [vm_compute; reflexivity|]).
  split; [intros H; destruct (H 0%nat ltac:(cbn [In]; auto)) as [H1 _]; vm_compute in H1; discriminate H1|].
  intros t Ht; cbn [In] in Ht; repeat (destruct Ht as [<-|Ht]; [split; vm_compute; reflexivity|]); destruct Ht.
Qed.

Print Assumptions s_fair_progress_proof.
Print Assumptions s_machine_fair_progress.

(* ================================================================================================================ *)
(* Part 2: FAIR TERMINATION, unconditionally, for READ-ONLY workloads: Load, Size and Range with a silent visitor.
   Ranges take the bucket spin locks one after the other, so two Ranges do contend and spin; nothing is written but lock bits. *)

Section ROFair.
  Context {K V : Type}.
  Variable eqd : forall a b : K, {a = b} + {a <> b}.
  Variable hash : K -> N -> N.
  Variable idx : N -> nat -> nat.
  Variable tophash : N -> N.
  Variable nslots : nat.
  Variable seeds : nat -> N.
  Variable grow_needed : nat -> Z -> bool.
  Variable shrink_policy : nat -> Z -> bool.
  Variable nstripes : nat -> nat.
  Variable minlen : nat.
  Variable grow_only : bool.

  Notation mstate := (@mstate K V).
  Notation mtable := (@mtable K V).
  Notation spc := (@spc K V).
  Notation sop := (@sop K V).
  Notation slabel := (@slabel K V).
  Notation sstep_pc := (@sstep_pc K V eqd hash idx tophash nslots seeds grow_needed shrink_policy nstripes minlen grow_only).
  Notation sstep := (@sstep K V eqd hash idx tophash nslots seeds grow_needed shrink_policy nstripes minlen grow_only).
  Notation stab_at := (@stab_at K V nslots nstripes).
  Notation sinvoke := (@sinvoke K V).
  Notation TI := (@TI K V hash idx tophash nslots nstripes).
  Notation sholds := (@sholds K V hash idx nslots nstripes).
  Notation lock_of := (@lock_of K V nslots nstripes).
  Notation spinning := (@spinning K V nslots nstripes).
  Notation sword_at := (@sword_at K V nslots).

  Hypothesis Hnslots : 0 < nslots.
  Hypothesis Hidx : forall h len, 0 < len -> idx h len < len.
  Hypothesis Hslots : nslots <= 3.
  Hypothesis Htop : forall k sd, (tophash (hash k sd) < 1048576)%N.
  Hypothesis Hminlen : 0 < minlen.
  Hypothesis Hstripes : forall len, 0 < nstripes len.

  Variable ths : list nat.
  Hypothesis Hnd : NoDup ths.

  (* ---------------- read-only program counters and operations ---------------- *)

  Definition ro_after (a : spc) : Prop :=
    match a with QK_Load _ _ (LKRange vf) => ncb_vf vf | QRet _ => True | _ => False end.

  Definition ro_pc (p : spc) : Prop :=
    match p with
    | QStart | QIdle => True
    | QL_Table _ SLPlain | QL_Top _ SLPlain _ _ _ | QL_Val _ SLPlain _ _ _ _ | QL_Key _ SLPlain _ _ _ _ _
    | QL_Val2 _ SLPlain _ _ _ _ _ _ | QL_Next _ SLPlain _ _ _ => True
    | QK_Load _ _ (LKRange vf) | QK_Spin _ _ (LKRange vf) | QK_CAS _ _ _ (LKRange vf) | QK_Yield _ _ (LKRange vf) => ncb_vf vf
    | QU_Load _ _ (Some (_, vf)) a | QU_Store _ _ _ (Some (_, vf)) a => ncb_vf vf /\ ro_after a
    | QG_Table vf => ncb_vf vf
    | QS_Table | QS_Sum _ _ _ => True
    | _ => False
    end.

  Definition ro_op (o : sop) : Prop :=
    match o with SLoad _ | SSize => True | SRange vf => ncb_vf vf | _ => False end.

  Definition RO (s : mstate) : Prop :=
    (forall t, ro_pc (h_pc s t)) /\ (forall t o, In o (h_todo s t) -> ro_op o) /\ (forall t, h_frame s t = None).

  (* ---------------- the measure ---------------- *)

  Definition W5 : nat := 5 * length ths.
  Definition PB : nat := W5 + 8.
  Definition WB : nat := 3 * nslots + 5.

  Definition LENs (s : mstate) (tab : nat) : nat := m_len (stab_at s tab).
  Definition G (s : mstate) (tab b : nat) : nat := (LENs s tab - b) * PB.
  Definition lockedb (s : mstate) (tab b : nat) : bool := match lock_of s tab b with Some _ => true | None => false end.
  Definition freshb (s : mstate) (tab b : nat) (v : bword) : bool := N.eqb (word_val (sword_at (stab_at s tab) b 0)) (word_val v).
  Definition nbcs (s : mstate) (tab : nat) (h : N) : nat :=
    snbuckets nslots (schain_of (stab_at s tab) (idx h (m_len (stab_at s tab)))).
  Definition curv (s : mstate) (tab : nat) (h : N) (bi : nat) (todo : list nat) : option (V * nat) :=
    match todo with
    | i :: _ => ms_val (sslot_at (stab_at s tab) (idx h (m_len (stab_at s tab))) (bi * nslots + i))
    | [] => None
    end.
  Definition stale3 (id : nat) (cur : option (V * nat)) : nat :=
    match cur with Some (_, id') => if Nat.eqb id id' then 0 else 3 | None => 3 end.

  (* the continuation of an unlock: the next lockBucket, at its dearest *)
  Definition amax (s : mstate) (a : spc) : nat := match a with QK_Load tab b _ => G s tab (S b) + W5 + 6 | _ => 0 end.

  Definition lam (s : mstate) (p : spc) : nat :=
    match p with
    | QStart => 1
    | QL_Table k _ => nbcs s (h_cur s) (hash k (m_seed (stab_at s (h_cur s)))) * WB + 3 * nslots + 4
    | QL_Top _ _ tab h bi => (nbcs s tab h - bi) * WB + 3 * nslots + 3
    | QL_Val _ _ tab h bi todo => (nbcs s tab h - bi) * WB + 3 * length todo + 2
    | QL_Key _ _ tab h bi todo vp =>
        (nbcs s tab h - bi) * WB + 3 * length todo + 1 + match vp with Some (_, id) => stale3 id (curv s tab h bi todo) | None => 0 end
    | QL_Val2 _ _ tab h bi todo _ id => (nbcs s tab h - bi) * WB + 3 * length todo + stale3 id (curv s tab h bi todo)
    | QL_Next _ _ tab h bi => (nbcs s tab h - bi) * WB + 1
    | QK_Load tab b _ => G s tab (S b) + W5 + 2 + (if lockedb s tab b then 4 else 2)
    | QK_Spin tab b _ => G s tab (S b) + W5 + 2 + (if lockedb s tab b then 4 else 3)
    | QK_Yield tab b _ => G s tab (S b) + W5 + 2 + 5
    | QK_CAS tab b v _ => G s tab (S b) + W5 + 2 + (if freshb s tab b v then 1 else 6)
    | QU_Load _ _ _ a => amax s a + 2
    | QU_Store _ _ _ _ a => amax s a + 1
    | QG_Table _ => G s (h_cur s) 0 + 1
    | QS_Table => snstr (stab_at s (h_cur s)) + 2
    | QS_Sum tab i _ => snstr (stab_at s tab) - i + 1
    | _ => 0
    end.

  Definition KKs (s : mstate) : nat :=
    maxnb nslots (stab_at s (h_cur s)) * WB + 3 * nslots + 4 + G s (h_cur s) 0 + 1 + snstr (stab_at s (h_cur s)) + 2.

  Definition Mt (s : mstate) (t : nat) : nat := (KKs s + 1) * length (h_todo s t) + lam s (h_pc s t).
  Definition MR (s : mstate) : nat := psum (Mt s) ths.

  Lemma lam_start_le s (o : sop) : ro_op o -> lam s (sstart_pc o) <= KKs s.
  Proof.
    destruct o; cbn [ro_op sstart_pc]; intros H; try contradiction; cbn [lam]; unfold KKs.
    - pose proof (nbk_le_maxnb nslots Hnslots (stab_at s (h_cur s)) (idx (hash k (m_seed (stab_at s (h_cur s)))) (m_len (stab_at s (h_cur s))))) as Hn.
      unfold nbcs. pose proof (Nat.mul_le_mono_r _ _ WB Hn). lia.
    - lia.
    - lia.
  Qed.

  (* ---------------- states that differ in lock words only ---------------- *)

  Definition SH (s s' : mstate) : Prop :=
    h_cur s' = h_cur s
    /\ forall j, m_chains (stab_at s' j) = m_chains (stab_at s j) /\ m_size (stab_at s' j) = m_size (stab_at s j)
                 /\ m_seed (stab_at s' j) = m_seed (stab_at s j).

  Lemma SH_refl_tabs s s' : h_cur s' = h_cur s -> h_tabs s' = h_tabs s -> SH s s'.
  Proof. intros A B. split; [exact A|]. intros j. unfold XMachineS.stab_at. rewrite B. auto. Qed.

  Lemma SH_word s s' tab b g : h_cur s' = h_cur s -> h_tabs s' = h_tabs (sset_tab s tab (fun tb => sset_word tb b 0 g)) -> SH s s'.
  Proof.
    intros A B. split; [exact A|]. intros j.
    assert (E : stab_at s' j = stab_at (sset_tab s tab (fun tb => sset_word tb b 0 g)) j) by (unfold XMachineS.stab_at; rewrite B; reflexivity).
    rewrite E, stab_set_word. destruct (Nat.eq_dec j tab) as [->|]; [|auto]. destruct (Nat.ltb _ _); auto.
  Qed.

  Lemma word_other s s' tab b g tab' b' : h_tabs s' = h_tabs (sset_tab s tab (fun tb => sset_word tb b 0 g)) ->
    (tab' <> tab \/ b' <> b) -> sword_at (stab_at s' tab') b' 0 = sword_at (stab_at s tab') b' 0.
  Proof.
    intros B Hne.
    assert (E : stab_at s' tab' = stab_at (sset_tab s tab (fun tb => sset_word tb b 0 g)) tab') by (unfold XMachineS.stab_at; rewrite B; reflexivity).
    rewrite E, stab_set_word. destruct (Nat.eq_dec tab' tab) as [->|]; [|reflexivity]. destruct (Nat.ltb _ _); [|reflexivity].
    destruct Hne as [Hne|Hne]; [congruence|].
    unfold XMachineS.sword_at, swords_of, sset_word, sset_words. cbn [m_words]. rewrite nth_supd_nth.
    destruct (Nat.eq_dec b' b); [contradiction | reflexivity].
  Qed.

  Lemma SH_facts s s' : SH s s' ->
    (forall tab, LENs s' tab = LENs s tab) /\ (forall tab h, nbcs s' tab h = nbcs s tab h)
    /\ (forall tab h bi todo, curv s' tab h bi todo = curv s tab h bi todo) /\ (forall tab, snstr (stab_at s' tab) = snstr (stab_at s tab))
    /\ (forall tab b, G s' tab b = G s tab b) /\ KKs s' = KKs s.
  Proof.
    intros [Hc H].
    assert (L : forall tab, LENs s' tab = LENs s tab) by (intros tab; unfold LENs, m_len; rewrite (proj1 (H tab)); reflexivity).
    assert (Gq : forall tab b, G s' tab b = G s tab b) by (intros; unfold G; rewrite L; reflexivity).
    assert (Nq : forall tab, snstr (stab_at s' tab) = snstr (stab_at s tab)) by (intros tab; unfold snstr; destruct (H tab) as [_ [B _]]; rewrite B; reflexivity).
    split; [exact L|]. split; [|split; [|split; [exact Nq|split; [exact Gq|]]]].
    - intros tab h. unfold nbcs, schain_of, m_len. rewrite (proj1 (H tab)). reflexivity.
    - intros tab h bi todo. unfold curv, XMachineS.sslot_at, schain_of, m_len. rewrite (proj1 (H tab)). reflexivity.
    - unfold KKs. rewrite Hc, Gq, Nq. unfold maxnb. rewrite (proj1 (H (h_cur s))). reflexivity.
  Qed.

  Lemma amax_SH s s' (a : spc) : SH s s' -> amax s' a = amax s a.
  Proof. intros HS. destruct (SH_facts s s' HS) as [_ [_ [_ [_ [Gq _]]]]]. destruct a; cbn [amax]; rewrite ?Gq; reflexivity. Qed.

  Definition on_bucket (q : spc) (tab b : nat) : Prop :=
    match q with QK_Load tab' b' _ | QK_Spin tab' b' _ | QK_Yield tab' b' _ | QK_CAS tab' b' _ _ => tab' = tab /\ b' = b | _ => False end.

  (* the words q looks at are unchanged *)
  Lemma lam_same s s' (q : spc) : SH s s' ->
    (forall tab b, on_bucket q tab b -> sword_at (stab_at s' tab) b 0 = sword_at (stab_at s tab) b 0) -> lam s' q = lam s q.
  Proof.
    intros HS Hw. pose proof HS as [Hc Hj]. destruct (SH_facts s s' HS) as [L [Nb [Cv [Ns [Gq _]]]]].
    destruct q; cbn [lam]; rewrite ?Hc, ?Nb, ?Cv, ?Ns, ?Gq, ?(amax_SH s s' _ HS), ?(proj2 (proj2 (Hj _))); try reflexivity.
    all: unfold lockedb, freshb, XS_lock.lock_of, lockT; change (tabT nslots nstripes (h_tabs s') tab) with (stab_at s' tab);
         change (tabT nslots nstripes (h_tabs s) tab) with (stab_at s tab); rewrite (Hw tab b (conj eq_refl eq_refl)); reflexivity.
  Qed.

  (* whatever happens to the lock words, a bound moves by at most 5 *)
  Lemma lam_spread s s' (q : spc) : SH s s' -> lam s' q <= lam s q + 5.
  Proof.
    intros HS. pose proof HS as [Hc Hj]. destruct (SH_facts s s' HS) as [L [Nb [Cv [Ns [Gq _]]]]].
    destruct q; cbn [lam]; rewrite ?Hc, ?Nb, ?Cv, ?Ns, ?Gq, ?(amax_SH s s' _ HS), ?(proj2 (proj2 (Hj _))); try lia.
    all: repeat match goal with |- context [if ?c then _ else _] => destruct c end; lia.
  Qed.

  (* a held lock, a stale CAS word: the bound is at its maximum *)
  Lemma lam_max s s' (q : spc) : SH s s' ->
    (forall tab b, on_bucket q tab b -> lockedb s tab b = true /\ forall v lk, q = QK_CAS tab b v lk -> freshb s tab b v = false) ->
    lam s' q <= lam s q.
  Proof.
    intros HS Hm. pose proof HS as [Hc Hj]. destruct (SH_facts s s' HS) as [L [Nb [Cv [Ns [Gq _]]]]].
    destruct q; cbn [lam]; rewrite ?Hc, ?Nb, ?Cv, ?Ns, ?Gq, ?(amax_SH s s' _ HS), ?(proj2 (proj2 (Hj _))); try lia.
    all: destruct (Hm tab b (conj eq_refl eq_refl)) as [A B]; rewrite ?A, ?(B _ _ eq_refl);
         repeat match goal with |- context [if ?c then _ else _] => destruct c end; lia.
  Qed.

  (* ---------------- one step of a read-only thread ---------------- *)

  Lemma some_pair_ro {A B} (g : A * B) a b : Some g = Some (a, b) -> a = fst g.
  Proof. intros H. inversion H. reflexivity. Qed.

  Lemma filter_len_ro {X} (f : X -> bool) l : length (filter f l) <= length l.
  Proof. induction l as [|x r IH]; cbn [filter length]; [lia|]. destruct (f x); cbn [length]; lia. Qed.

  Lemma ro_step s t p s' ls : TI s -> RO s -> h_pc s t = p -> sstep_pc s t p = Some (s', ls) ->
    ro_pc (h_pc s' t) /\ (forall u, u <> t -> h_pc s' u = h_pc s u) /\ h_todo s' = h_todo s /\ (forall u, h_frame s' u = None)
    /\ SH s s'
    /\ ( ((forall tab b, sword_at (stab_at s' tab) b 0 = sword_at (stab_at s tab) b 0)
          /\ lam s' (h_pc s' t) <= lam s p /\ (spinning s p = false -> lam s' (h_pc s' t) < lam s p))
         \/ (exists tab b v lk, p = QK_CAS tab b v lk /\ lam s' (h_pc s' t) + W5 < lam s p)
         \/ (exists tab b v rg a, p = QU_Store tab b v rg a /\ lam s' (h_pc s' t) < lam s p
               /\ forall tab' b', (tab' <> tab \/ b' <> b) -> sword_at (stab_at s' tab') b' 0 = sword_at (stab_at s tab') b' 0) ).
  Proof.
    intros HT [Hro [_ Hfr]] Hp Hs. pose proof HT as [[HI [HL _]] _].
    pose proof (Hro t) as Hr. rewrite Hp in Hr. pose proof (Hfr t) as Hf.
    pose proof (xl_pc _ _ _ _ s HL t) as Hpci. rewrite Hp in Hpci.
    assert (Hplain : forall q : spc, ro_pc (snorm q) -> (lam s (snorm q) <= lam s p) -> (spinning s p = false -> lam s (snorm q) < lam s p) ->
              s' = sset_pc s t (snorm q) -> 
              ro_pc (h_pc s' t) /\ (forall u, u <> t -> h_pc s' u = h_pc s u) /\ h_todo s' = h_todo s /\ (forall u, h_frame s' u = None) /\ SH s s'
              /\ ( ((forall tab b, sword_at (stab_at s' tab) b 0 = sword_at (stab_at s tab) b 0)
                    /\ lam s' (h_pc s' t) <= lam s p /\ (spinning s p = false -> lam s' (h_pc s' t) < lam s p))
                   \/ (exists tab b v lk, p = QK_CAS tab b v lk /\ lam s' (h_pc s' t) + W5 < lam s p)
                   \/ (exists tab b v rg a, p = QU_Store tab b v rg a /\ lam s' (h_pc s' t) < lam s p
                         /\ forall tab' b', (tab' <> tab \/ b' <> b) -> sword_at (stab_at s' tab') b' 0 = sword_at (stab_at s tab') b' 0) )).
    { intros q Hq Hle Hlt ->. cbn [sset_pc h_pc h_todo h_frame]. destruct (Nat.eq_dec t t) as [_|Hx]; [|exfalso; apply Hx; reflexivity].
      assert (HS : SH s (sset_pc s t (snorm q))) by (apply SH_refl_tabs; reflexivity).
      assert (El : lam (sset_pc s t (snorm q)) (snorm q) = lam s (snorm q)) by (apply lam_same; [exact HS | intros; reflexivity]).
      split; [exact Hq|]. split; [intros u Hne; destruct (Nat.eq_dec u t); [contradiction | reflexivity]|]. split; [reflexivity|].
      split; [exact Hfr|]. split; [exact HS|]. left. rewrite El. split; [intros; reflexivity|]. split; assumption. }
    destruct p; try contradiction; cbn [ro_pc] in Hr.
    all: try (destruct lc; try contradiction). all: try (destruct lk; try contradiction).
    all: try (destruct rg as [[snap vf]|]; try contradiction).
    all: cbn [XMachineS.sstep_pc] in Hs; cbv zeta in Hs;
         repeat match type of Hs with context [match ?x with _ => _ end] => destruct x eqn:? end; try discriminate Hs;
         apply some_pair_ro in Hs.
    all: try (rewrite (sgoto_nf _ t _ _ Hf) in Hs; cbn [fst] in Hs;
              match type of Hs with _ = sset_pc _ _ (snorm ?q) => apply (Hplain q) end; [ | | | exact Hs]; cbn [snorm ro_pc lam spinning length]; auto).
    all: repeat match goal with
                | H : Nat.ltb _ _ = true |- _ => apply Nat.ltb_lt in H
                | H : Nat.ltb _ _ = false |- _ => apply Nat.ltb_ge in H
                end.
    all: try (intros Hsp; destruct (lockedb s tab b) eqn:El; [unfold lockedb in El; rewrite Hsp in El; discriminate El | lia]).
    all: try (intros Hsp; exfalso; unfold XS_lock.lock_of, lockT in Hsp; change (tabT nslots nstripes (h_tabs s) tab) with (stab_at s tab) in Hsp;
              match goal with H : w_lock _ = Some _ |- _ => rewrite H in Hsp end; discriminate Hsp).
    all: try (intros _). all: try lia.
    all: try (unfold lockedb, XS_lock.lock_of, lockT; change (tabT nslots nstripes (h_tabs s) tab) with (stab_at s tab);
              match goal with H : w_lock _ = _ |- _ => rewrite H end; lia).
    all: try (unfold freshb; rewrite ?N.eqb_refl; match goal with H : N.eqb _ _ = false |- _ => rewrite H | _ => idtac end;
              repeat match goal with |- context [if ?c then _ else _] => destruct c end; lia).
    all: try (match goal with H : filter _ (seq 0 nslots) = _ :: ?l |- _ =>
                pose proof (filter_len_ro (top_match (tophash h) (sword_at (stab_at s tab) (idx h (m_len (stab_at s tab))) bi)) (seq 0 nslots)) as Hfl;
                rewrite H, seq_length in Hfl; cbn [length] in Hfl; lia end).
    (* Val -> Key: the value pointer just read is the current one *)
    all: try (unfold curv; destruct (ms_val _) as [[v0 id0]|]; cbn [stale3]; rewrite ?Nat.eqb_refl; lia).
    (* Val2: the pointer changed *)
    all: try (unfold curv, stale3; match goal with H : match ms_val ?x with _ => _ end = false |- _ => destruct (ms_val x) as [[v0 id0]|]; try rewrite H end; lia).
    (* next bucket *)
    all: try (unfold nbcs; match goal with H : S ?bi < ?n |- _ => replace (n - bi) with (S (n - S bi)) by lia end; unfold WB; lia).
    (* Range starts *)
    all: try (unfold G, LENs; match goal with H : 0 < ?n |- _ => replace (n - 0) with (S (n - 1)) by lia end; unfold PB;
              repeat match goal with |- context [if ?c then _ else _] => destruct c end; lia).
    all: try apply Nat.le_0_l.
    all: try (rewrite Nat.add_1_r; apply Nat.lt_0_succ).
    all: try (apply Nat.lt_le_trans with (3 * S (length l)); [cbn [Nat.mul Nat.add]; apply Nat.lt_0_succ|];
              eapply Nat.le_trans; [|apply Nat.le_add_r]; apply Nat.le_add_l).
    - (* start *) apply (Hplain QIdle); cbn [snorm ro_pc lam spinning]; auto; lia.
    - (* lockBucket succeeds *)
      cbn [after_lock] in Heqp. inversion Heqp; subst m s0. clear Heqp.
      set (S1 := sset_tab s tab (fun tb : mtable => sset_word tb b 0 (fun _ : bword => with_lock v (Some t)))) in *.
      rewrite (sgoto_nf S1 t _ _ Hf) in Hs. cbn [fst snorm] in Hs.
      assert (HS : SH s s') by (apply (SH_word s s' tab b (fun _ => with_lock v (Some t))); rewrite Hs; reflexivity).
      destruct (SH_facts s s' HS) as [L [_ [_ [_ [Gq _]]]]].
      assert (Epc : h_pc s' t = QU_Load tab b (Some (slive_pairs (schain_of (stab_at S1 tab) b), vf))
                                  (if S b <? m_len (stab_at S1 tab) then QK_Load tab (S b) (LKRange vf) else QRet SRUnit))
        by (rewrite Hs; cbn [sset_pc h_pc]; destruct (Nat.eq_dec t t); [reflexivity | congruence]).
      split; [rewrite Epc; cbn [ro_pc]; split; [exact Hr | destruct (Nat.ltb _ _); cbn [ro_after]; auto]|].
      split; [intros u Hne; rewrite Hs; cbn [sset_pc h_pc S1 sset_tab]; destruct (Nat.eq_dec u t); [contradiction | reflexivity]|].
      split; [rewrite Hs; reflexivity|]. split; [intros u; rewrite Hs; apply Hfr|]. split; [exact HS|].
      right; left. exists tab, b, v, (LKRange vf). split; [reflexivity|]. rewrite Epc. cbn [lam]. rewrite (amax_SH s s' _ HS).
      unfold freshb. rewrite Heqb0.
      assert (El : m_len (stab_at S1 tab) = LENs s tab) by (unfold S1; apply len_set_word).
      rewrite El. destruct (Nat.ltb (S b) (LENs s tab)) eqn:Eb; cbn [amax]; [|lia].
      apply Nat.ltb_lt in Eb. unfold G. replace (LENs s tab - S b) with (S (LENs s tab - S (S b))) by lia. unfold PB. lia.
    - (* unlockBucket, then the visits *)
      destruct Hr as [Hv Ha].
      set (S1 := sset_tab s tab (fun tb : mtable => sset_word tb b 0 (fun _ : bword => with_lock v None))) in *.
      rewrite (svisits_nf S1 t snap vf p Hv) in Hs.
      assert (HS : SH s s') by (apply (SH_word s s' tab b (fun _ => with_lock v None)); rewrite Hs; reflexivity).
      assert (Epc : h_pc s' t = snorm p) by (rewrite Hs; cbn [sset_pc h_pc]; destruct (Nat.eq_dec t t); [reflexivity | congruence]).
      split; [rewrite Epc; destruct p; try contradiction; cbn [snorm ro_pc ro_after] in *; try exact I; destruct lk; try contradiction; exact Ha|].
      split; [intros u Hne; rewrite Hs; cbn [sset_pc sset_frame h_pc S1 sset_tab]; destruct (Nat.eq_dec u t); [contradiction | reflexivity]|].
      split; [rewrite Hs; reflexivity|].
      split; [intros u; rewrite Hs; cbn [sset_pc sset_frame h_frame S1 sset_tab]; destruct (Nat.eq_dec u t); [reflexivity | apply Hfr]|].
      split; [exact HS|].
      right; right. exists tab, b, v, (Some (snap, vf)), p. split; [reflexivity|]. split.
      + rewrite Epc. cbn [lam]. pose proof (lam_spread s s' (snorm p) HS) as _.
        destruct p; try contradiction; cbn [snorm lam amax]; try lia.
        destruct (SH_facts s s' HS) as [_ [_ [_ [_ [Gq _]]]]]. rewrite Gq. destruct (lockedb s' tab0 b0); lia.
      + intros tab' b' Hne. apply (word_other s s' tab b (fun _ => with_lock v None) tab' b'); [rewrite Hs; reflexivity | exact Hne].
  Qed.


  (* ---------------- the sum ---------------- *)

  Lemma psum_le_upd (f g : nat -> nat) c l t : NoDup l -> In t l -> (forall u, u <> t -> g u <= f u + c) ->
    psum g l + f t <= psum f l + g t + c * length l.
  Proof.
    intros Hn Hi Ho. induction l as [|u r IH]; [destruct Hi|]. apply NoDup_cons_iff in Hn. destruct Hn as [Hu Hr]. cbn [psum length].
    destruct Hi as [->|Hi].
    - assert (H : psum g r <= psum f r + c * length r).
      { clear IH. induction r as [|w r' IH']; cbn [psum length]; [lia|].
        assert (Hw : w <> t) by (intros ->; apply Hu; left; reflexivity). pose proof (Ho w Hw).
        assert (psum g r' <= psum f r' + c * length r') by (apply IH'; [intros X; apply Hu; right; exact X | apply NoDup_cons_iff in Hr; tauto]). lia. }
      lia.
    - specialize (IH Hr Hi). assert (Hne : u <> t) by (intros ->; contradiction). pose proof (Ho u Hne). lia.
  Qed.

  Lemma lam_rel s s' tab b (q : spc) : SH s s' ->
    (forall tab' b', (tab' <> tab \/ b' <> b) -> sword_at (stab_at s' tab') b' 0 = sword_at (stab_at s tab') b' 0) ->
    lockedb s tab b = true -> (forall v lk, q = QK_CAS tab b v lk -> freshb s tab b v = false) -> lam s' q <= lam s q.
  Proof.
    intros HS Hw Hl Hf.
    assert (Hgen : forall tab0 b0, on_bucket q tab0 b0 -> (forall v lk, q = QK_CAS tab0 b0 v lk -> tab0 = tab -> b0 = b -> freshb s tab b v = false) -> lam s' q <= lam s q).
    { intros tab0 b0 Hon Hfr. destruct (Nat.eq_dec tab0 tab) as [->|Ht]; [destruct (Nat.eq_dec b0 b) as [->|Hb]|].
      - apply lam_max; [exact HS|]. intros tab1 b1 Hon1.
        assert (E : tab1 = tab /\ b1 = b) by (destruct q; cbn [on_bucket] in *; try contradiction; destruct Hon, Hon1; subst; auto).
        destruct E as [-> ->]. split; [exact Hl|]. intros v lk E. apply (Hfr v lk E eq_refl eq_refl).
      - rewrite (lam_same s s' q HS); [lia|]. intros tab1 b1 Hon1.
        assert (E : tab1 = tab /\ b1 = b0) by (destruct q; cbn [on_bucket] in *; try contradiction; destruct Hon, Hon1; subst; auto).
        destruct E as [-> ->]. apply Hw. right. exact Hb.
      - rewrite (lam_same s s' q HS); [lia|]. intros tab1 b1 Hon1.
        assert (E : tab1 = tab0 /\ b1 = b0) by (destruct q; cbn [on_bucket] in *; try contradiction; destruct Hon, Hon1; subst; auto).
        destruct E as [-> ->]. apply Hw. left. exact Ht. }
    destruct q; try solve [rewrite (lam_same s s' _ HS); [lia | intros ? ? Hon; cbn [on_bucket] in Hon; contradiction]].
    all: apply (Hgen tab0 b0 (conj eq_refl eq_refl)); intros v0 lk0 E A B; try discriminate E; subst; apply (Hf v0 lk0 E).
  Qed.

  Lemma MR_step s t p s' ls : TI s -> RO s -> In t ths -> h_pc s t = p -> sstep_pc s t p = Some (s', ls) ->
    MR s' <= MR s /\ (spinning s p = false -> MR s' < MR s).
  Proof.
    intros HT HR Ht Hp Hs. pose proof HT as [[HI [HL _]] _].
    destruct (ro_step s t p s' ls HT HR Hp Hs) as [_ [Hoth [Htd [_ [HS Hc]]]]].
    destruct (SH_facts s s' HS) as [_ [_ [_ [_ [_ HK]]]]].
    assert (Hown : forall x y, x <= y -> (KKs s' + 1) * length (h_todo s' t) + x <= (KKs s + 1) * length (h_todo s t) + y) by (intros; rewrite HK, Htd; lia).
    unfold MR.
    destruct Hc as [[Hw [Hle Hlt]]|[[tab [b [v [lk [E Hlt]]]]]|[tab [b [v [rg [a [E [Hlt Hw]]]]]]]]].
    - pose proof (psum_upd minlen Hminlen (Mt s) (Mt s') ths t Hnd Ht) as H.
      assert (Hx : forall u, u <> t -> Mt s' u = Mt s u).
      { intros u Hne. unfold Mt. rewrite HK, Htd, (Hoth u Hne). f_equal. apply lam_same; [exact HS | intros; apply Hw]. }
      specialize (H Hx). unfold Mt at 2 4 in H. rewrite HK, Htd, Hp in H. split; [lia|]. intros Hsp. specialize (Hlt Hsp). lia.
    - pose proof (psum_le_upd (Mt s) (Mt s') 5 ths t Hnd Ht) as H.
      assert (Hx : forall u, u <> t -> Mt s' u <= Mt s u + 5).
      { intros u Hne. unfold Mt. rewrite HK, Htd, (Hoth u Hne). pose proof (lam_spread s s' (h_pc s u) HS). lia. }
      specialize (H Hx). unfold Mt at 2 4 in H. rewrite HK, Htd, Hp in H. unfold W5 in Hlt. split; [lia|]. intros _. lia.
    - pose proof (psum_le_upd (Mt s) (Mt s') 0 ths t Hnd Ht) as H.
      assert (Hl : lockedb s tab b = true).
      { unfold lockedb. rewrite (xl_lockA _ _ _ _ s HL t tab b); [reflexivity|]. rewrite Hp, E. reflexivity. }
      assert (Hx : forall u, u <> t -> Mt s' u <= Mt s u + 0).
      { intros u Hne. unfold Mt. rewrite HK, Htd, (Hoth u Hne), Nat.add_0_r. apply Nat.add_le_mono_l.
        apply (lam_rel s s' tab b _ HS Hw Hl). intros v0 lk0 Eq. unfold freshb. destruct (N.eqb _ _) eqn:Ef; [|reflexivity]. exfalso.
        apply N.eqb_eq in Ef. pose proof (cas_free hash idx nslots nstripes Hslots s u tab b v0 lk0 HL Eq Ef) as Hfree.
        unfold lockedb in Hl. rewrite Hfree in Hl. discriminate Hl. }
      specialize (H Hx). unfold Mt at 2 4 in H. rewrite HK, Htd, Hp in H. split; [lia|]. intros _. lia.
  Qed.

  (* ---------------- every scheduling step; the theorem ---------------- *)

  Notation SOUT := (@SOUT K V ths).

  Lemma ro_start (o : sop) : ro_op o -> ro_pc (sstart_pc o).
  Proof. destruct o; cbn [ro_op sstart_pc]; intros H; try contradiction; cbn [ro_pc]; auto. Qed.

  Lemma RO_step_pc s t p s' ls : TI s -> RO s -> h_pc s t = p -> sstep_pc s t p = Some (s', ls) -> RO s'.
  Proof.
    intros HT HR Hp Hs. destruct (ro_step s t p s' ls HT HR Hp Hs) as [A [B [C [D _]]]]. destruct HR as [R1 [R2 R3]].
    split; [|split; [|exact D]].
    - intros u. destruct (Nat.eq_dec u t) as [->|Hne]; [exact A | rewrite (B u Hne); apply R1].
    - intros u o. rewrite C. apply R2.
  Qed.

  Lemma MR_out s t s' ls : TI s -> RO s -> ~ In t ths -> h_pc s t = QStart -> sstep_pc s t QStart = Some (s', ls) -> MR s' = MR s.
  Proof.
    intros HT HR Ht Hp Hs. destruct (ro_step s t _ s' ls HT HR Hp Hs) as [_ [Hoth [Htd [_ [HS Hc]]]]].
    destruct (SH_facts s s' HS) as [_ [_ [_ [_ [_ HK]]]]].
    destruct Hc as [[Hw _]|[[tab [b [v [lk [E _]]]]]|[tab [b [v [rg [a [E _]]]]]]]]; try discriminate E.
    unfold MR. apply psum_ext. intros u Hu. assert (Hne : u <> t) by (intros ->; contradiction).
    unfold Mt. rewrite HK, Htd, (Hoth u Hne). f_equal. apply lam_same; [exact HS | intros; apply Hw].
  Qed.

  Lemma RO_MR_sstep s t s' ls : TI s -> SOUT s -> RO s -> sstep s t = Some (s', ls) ->
    RO s' /\ MR s' <= MR s /\ (In t ths -> spinning s (h_pc s t) = false -> MR s' < MR s).
  Proof.
    intros HT HO HR E. destruct (in_dec Nat.eq_dec t ths) as [Hi0|Hi0].
    2: { destruct (HO t Hi0) as [[Eq|Eq] Etd0].
         - assert (Hni : h_pc s t <> QIdle) by (rewrite Eq; discriminate).
           rewrite (sstep_of_pc eqd hash idx tophash nslots seeds grow_needed shrink_policy nstripes minlen grow_only s t Hni) in E. rewrite Eq in E.
           split; [apply (RO_step_pc s t _ s' ls HT HR Eq E)|]. rewrite (MR_out s t s' ls HT HR Hi0 Eq E). split; [lia | intros X; contradiction].
         - unfold XMachineS.sstep in E. rewrite Eq, Etd0 in E. discriminate E. }
    destruct (h_pc s t) eqn:Ept.
    all: try (assert (Hni : h_pc s t <> QIdle) by (rewrite Ept; discriminate);
              rewrite (sstep_of_pc eqd hash idx tophash nslots seeds grow_needed shrink_policy nstripes minlen grow_only s t Hni) in E; rewrite Ept in E;
              split; [apply (RO_step_pc s t _ s' ls HT HR Ept E)|];
              destruct (MR_step s t _ s' ls HT HR Hi0 Ept E) as [A B]; split; [exact A | intros _; exact B]).
    (* the invocation *)
    destruct (h_todo s t) as [|o rest] eqn:Et; [unfold XMachineS.sstep in E; rewrite Ept, Et in E; discriminate E|].
    assert (Hi : In t ths) by (destruct (in_dec Nat.eq_dec t ths) as [H|H]; [exact H | destruct (HO t H) as [_ X]; rewrite Et in X; discriminate X]).
    assert (E' : match sstep_pc (sinvoke s t o rest) t (sstart_pc o) with
                 | Some (s2, l2) => Some (s2, SInv t o :: l2) | None => Some (sinvoke s t o rest, [SInv t o]) end = Some (s', ls))
      by (unfold XMachineS.sstep in E; rewrite Ept, Et in E; exact E).
    set (s1 := sinvoke s t o rest) in *. destruct HR as [R1 [R2 R3]].
    assert (Hop : ro_op o) by (apply (R2 t); rewrite Et; left; reflexivity).
    assert (Ep1 : h_pc s1 t = sstart_pc o) by (cbn [s1 XS_count.sinvoke h_pc]; destruct (Nat.eq_dec t t); [reflexivity | congruence]).
    assert (HR1 : RO s1).
    { split; [|split; [|exact R3]].
      - intros u. cbn [s1 XS_count.sinvoke h_pc]. destruct (Nat.eq_dec u t); [apply ro_start; exact Hop | apply R1].
      - intros u o'. cbn [s1 XS_count.sinvoke h_todo]. destruct (Nat.eq_dec u t) as [->|]; [intros X; apply (R2 t); rewrite Et; right; exact X | apply R2]. }
    assert (HT1 : TI s1) by (apply (TI_invoke hash idx tophash nslots nstripes s t o rest HT Ept)).
    assert (HS1 : SH s s1) by (apply SH_refl_tabs; reflexivity).
    destruct (SH_facts s s1 HS1) as [_ [_ [_ [_ [_ HK]]]]].
    assert (HM1 : MR s1 < MR s).
    { unfold MR. pose proof (psum_upd minlen Hminlen (Mt s) (Mt s1) ths t Hnd Hi) as H.
      assert (Hx : forall u, u <> t -> Mt s1 u = Mt s u).
      { intros u Hne. unfold Mt. rewrite HK. cbn [s1 XS_count.sinvoke h_pc h_todo]. destruct (Nat.eq_dec u t); [contradiction|]. reflexivity. }
      specialize (H Hx). unfold Mt at 2 4 in H. rewrite HK, Ep1, Ept, Et in H.
      assert (Etd : h_todo s1 t = rest) by (cbn [s1 XS_count.sinvoke h_todo]; destruct (Nat.eq_dec t t); [reflexivity | congruence]).
      rewrite Etd in H. cbn [lam length] in H.
      pose proof (lam_start_le s1 o Hop) as Hle. rewrite HK in Hle. lia. }
    destruct (sstep_pc s1 t (sstart_pc o)) as [[s2 l2]|] eqn:E2; inversion E'; subst.
    - split; [apply (RO_step_pc s1 t _ s' l2 HT1 HR1 Ep1 E2)|].
      destruct (MR_step s1 t _ s' l2 HT1 HR1 Hi Ep1 E2) as [A _]. split; [lia | intros _ _; lia].
    - split; [exact HR1|]. split; [lia | intros _ _; exact HM1].
  Qed.

  (* FAIR TERMINATION OF READ-ONLY WORKLOADS: from a state in which every thread runs or has yet to make only Load, Size and Range
     calls with silent visitors *)
  Theorem s_fair_ro sigma s : fair ths sigma -> TI s -> SOUT s -> RO s ->
    exists n, s_all_done ths (s_run_to eqd hash idx tophash nslots seeds grow_needed shrink_policy nstripes minlen grow_only sigma n s).
  Proof.
    intros Hf HT HO HR.
    apply (s_fair_cond eqd hash idx tophash nslots seeds grow_needed shrink_policy nstripes minlen grow_only Hnslots Hidx Hslots Htop Hminlen Hstripes ths RO MR);
      try assumption.
    - intros s0 t s1 ls H1 H2 H3 E. apply (RO_MR_sstep s0 t s1 ls H1 H2 H3 E).
    - intros s0 t s1 ls H1 H2 H3 E. apply (RO_MR_sstep s0 t s1 ls H1 H2 H3 E).
    - intros s0 t s1 ls H1 H2 H3 Hi E Hsp. apply (proj2 (proj2 (RO_MR_sstep s0 t s1 ls H1 H2 H3 E)) Hi Hsp).
  Qed.

End ROFair.

Section FinalRO.
  Context {K V : Type}.
  Variable eqd : forall a b : K, {a = b} + {a <> b}.
  Variable hash : K -> N -> N.
  Variable idx : N -> nat -> nat.
  Variable tophash : N -> N.
  Variable nslots : nat.
  Variable seeds : nat -> N.
  Variable grow_needed shrink_policy : nat -> Z -> bool.
  Variable nstripes : nat -> nat.
  Variable minlen : nat.
  Variable grow_only : bool.
  Notation srun := (@srun K V eqd hash idx tophash nslots seeds grow_needed shrink_policy nstripes minlen grow_only).
  Notation s_run_to := (@s_run_to K V eqd hash idx tophash nslots seeds grow_needed shrink_policy nstripes minlen grow_only).

  (* FAIR TERMINATION, READ-ONLY WORKLOADS: s reachable; in s every thread stands in, and has only, Load / Size / Range-with-silent-visitor
     calls (RO s: e.g. every state of a system whose todo lists contain only such calls).  Ranges do contend for the bucket spin locks. *)
  Theorem s_fair_termination_readonly :
    sthyps hash idx tophash nslots nstripes minlen -> forall len0 todo sched ths, 0 < len0 -> NoDup ths -> (forall u, ~ In u ths -> todo u = []) ->
    let s := fst (srun (sinit nslots seeds nstripes len0 todo) sched) in
    RO s -> forall sigma, fair ths sigma -> exists n, s_all_done ths (s_run_to sigma n s).
  Proof.
    intros Hx len0 todo sched ths Hl Hnd Hout s HR sigma Hf. pose proof Hx as [[[H1 H2] [H3 [H4 H5]]] H6].
    destruct (reachable_SOUT eqd hash idx tophash nslots seeds grow_needed shrink_policy nstripes minlen grow_only Hx ths len0 todo sched Hl Hout) as [HT HO].
    apply (s_fair_ro eqd hash idx tophash nslots seeds grow_needed shrink_policy nstripes minlen grow_only H2 H4 H1 H3 H5 H6 ths Hnd sigma s Hf HT HO HR).
  Qed.
End FinalRO.

Print Assumptions s_fair_termination_readonly.
