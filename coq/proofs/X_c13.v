(* X_c13.v -- termination-related facts of XMachine (MapOf) over every
   reachable state, on top of the protocol invariant XInv:
     - what one step does to the other threads, to the resizing flag, and which
       program counters it can reach (step_effect);
     - the wait invariant XW: a thread is in the wait set of resizeCond only
       while the flag is set or the broadcast that wakes it is still to come
       (no lost wake-up), and a thread about to wait has seen the flag set
       under resizeMu;
     - a thread that has returned holds no bucket lock, not resizeMu, and is not
       the resizer;
     - deadlock freedom: while some thread is unfinished, some thread can step. *)
From CacheV Require Import Base SpecMap XMachine.
From CacheV.proofs Require Import X_basic X_inv.
From Coq Require Import NArith.
Local Open Scope nat_scope.

Section C13.
  Context {K V : Type}.
  Variable eqd : forall a b : K, {a = b} + {a <> b}.
  Variable hash : K -> N -> N.
  Variable idx : N -> nat -> nat.
  Variable tag : N -> N.
  Variable nslots : nat.
  Variable seeds : nat -> N.
  Variable grow_needed : nat -> Z -> bool.
  Variable shrink_policy : nat -> Z -> bool.
  Variable probe : list (option N) -> N -> list nat.
  Variable nstripes : nat -> nat.
  Variable minlen : nat.
  Variable grow_only : bool.

  Hypothesis Hidx : forall h len, 0 < len -> idx h len < len.
  Hypothesis Hstripes : forall len, 0 < nstripes len.
  Hypothesis Hminlen : 0 < minlen.

  Notation xtable := (@xtable K V).
  Notation xstate := (@xstate K V).
  Notation pc := (@pc K V).
  Notation tab_at := (@tab_at K V nslots nstripes).
  Notation home := (@home K V hash idx).
  Notation step_pc := (@step_pc K V eqd hash idx tag nslots seeds grow_needed shrink_policy probe nstripes minlen grow_only).
  Notation xstep := (@xstep K V eqd hash idx tag nslots seeds grow_needed shrink_policy probe nstripes minlen grow_only).
  Notation xrun := (@xrun K V eqd hash idx tag nslots seeds grow_needed shrink_policy probe nstripes minlen grow_only).
  Notation enabled := (@enabled K V eqd hash idx tag nslots seeds grow_needed shrink_policy probe nstripes minlen grow_only).
  Notation XInv := (@X_inv.XInv K V hash idx nslots nstripes).
  Notation holds := (@holds K V hash idx nslots nstripes).
  Notation valid := (@valid K V hash idx nslots nstripes).

  (* ---------------- what a step does ---------------- *)

  Definition is_bcast (p : pc) : bool := match p with PR_FinBcast _ => true | _ => false end.

  (* the continuation stored in an unlock / counter step is never a waiting one *)
  Fixpoint inner_ok (p : pc) : Prop :=
    match p with
    | PW_Unlock _ _ a | PW_Add _ _ _ a =>
        match a with PT_Wait _ _ | PT_Waiting _ _ | PR_FinBcast _ => False | _ => True end /\ inner_ok a
    | _ => True
    end.

  Definition self_fact (s : xstate) (p P' : pc) : Prop :=
    (forall hn kt, P' = PT_Wait hn kt -> p = PT_Load hn kt /\ g_resizing s = true)
    /\ (forall hn kt, P' = PT_Waiting hn kt -> p = PT_Wait hn kt)
    /\ (forall kt, P' = PR_FinBcast kt -> p = PR_FinStore kt)
    /\ (forall r, P' <> PRet r)
    /\ inner_ok P'.

  Definition rz_after (s : xstate) (p : pc) : bool :=
    match p with PR_CAS _ _ => true | PR_FinStore _ => false | _ => g_resizing s end.

  Lemma some_fst' {A B} (g : A * B) a b : Some g = Some (a, b) -> a = fst g.
  Proof. intros H. inversion H. reflexivity. Qed.

  Lemma goto_state' (s : xstate) t p ls : fst (goto s t p ls) = set_pc s t (norm p).
  Proof. destruct p; reflexivity. Qed.

  Ltac step_cases Hs :=
    cbn [XMachine.step_pc] in Hs; cbv zeta in Hs;
    repeat match type of Hs with
           | context [match ?x with _ => _ end] => destruct x eqn:?
           end;
    try discriminate; apply some_fst' in Hs; subst; rewrite ?goto_state'; cbn [fst].

  Lemma norm_not_ret (q : pc) r : norm q <> PRet r.
  Proof. destruct q; discriminate. Qed.

  Lemma norm_inner_ok (q : pc) : inner_ok q -> inner_ok (norm q).
  Proof. destruct q; cbn; auto. Qed.

  Lemma self_fact_after (s : xstate) p a :
    match a with PT_Wait _ _ | PT_Waiting _ _ | PR_FinBcast _ => False | _ => True end -> inner_ok a ->
    self_fact s p (norm a).
  Proof.
    intros H1 H2. unfold self_fact.
    split; [|split; [|split; [|split]]].
    - intros hn kt E. destruct a; cbn in *; try discriminate; contradiction.
    - intros hn kt E. destruct a; cbn in *; try discriminate; contradiction.
    - intros kt E. destruct a; cbn in *; try discriminate; contradiction.
    - intros r. apply norm_not_ret.
    - apply norm_inner_ok. exact H2.
  Qed.

  Ltac self_solve :=
    unfold self_fact; cbn [norm inner_ok];
    split; [|split; [|split; [|split]]];
    [ intros ? ? E; try discriminate; inversion E; subst; auto
    | intros ? ? E; try discriminate; inversion E; subst; auto
    | intros ? E; try discriminate; inversion E; subst; auto
    | intros ?; discriminate
    | cbn; auto ].

  Lemma step_effect s t p s' ls : inner_ok p -> step_pc s t p = Some (s', ls) ->
    (forall t', t' <> t -> g_pc s' t' = if is_bcast p then wake (g_pc s t') else g_pc s t')
    /\ g_resizing s' = rz_after s p
    /\ self_fact s p (g_pc s' t).
  Proof.
    intros Hin Hs.
    destruct p; step_cases Hs;
      (split; [intros t' Hne; cbn [g_pc set_pc set_tab set_flags push_tab is_bcast]; destruct (Nat.eq_dec t' t); [contradiction|reflexivity] |
       split; [first [reflexivity | cbn; congruence] |
       cbn [g_pc set_pc set_tab set_flags push_tab]; destruct (Nat.eq_dec t t); [|congruence] ]]).
    all: try solve [self_solve].
    all: try solve [cbn in Hin; destruct Hin as [Ha Hb]; apply self_fact_after; assumption].
    all: try solve [match goal with |- context [run_cont ?kt] => destruct kt; self_solve end].
  Qed.

  (* ---------------- the wait invariant ---------------- *)

  Record XW (s : xstate) : Prop := {
    xw_ret : forall t r, g_pc s t <> PRet r;
    xw_inner : forall t, inner_ok (g_pc s t);
    xw_wait : forall t hn kt, g_pc s t = PT_Wait hn kt -> g_resizing s = true;
    xw_waiting : forall t hn kt, g_pc s t = PT_Waiting hn kt ->
                   g_resizing s = true \/ exists t' kt', g_pc s t' = PR_FinBcast kt';
  }.

  Lemma wake_not_waiting (p : pc) hn kt : wake p <> PT_Waiting hn kt.
  Proof. destruct p; discriminate. Qed.

  Lemma wake_other (p q : pc) : (forall hn kt, q <> PT_Relock hn kt) -> wake p = q -> p = q.
  Proof. intros Hq H. destruct p; cbn in H; try exact H. exfalso. eapply Hq. symmetry. exact H. Qed.

  Lemma XW_step_pc s t p s' ls : XInv s -> XW s -> g_pc s t = p -> step_pc s t p = Some (s', ls) -> XW s'.
  Proof.
    intros HI HW Hp Hs.
    assert (Hin : inner_ok p) by (rewrite <- Hp; apply (xw_inner s HW)).
    destruct (step_effect s t p s' ls Hin Hs) as [Hoth [Hrz [S1 [S2 [S3 [S4 S5]]]]]].
    assert (Hpc : forall t', t' <> t -> forall q, (forall hn kt, q <> PT_Relock hn kt) -> g_pc s' t' = q -> g_pc s t' = q).
    { intros t' Hne q Hq E. rewrite (Hoth t' Hne) in E. destruct (is_bcast p); [apply wake_other; assumption | exact E]. }
    constructor.
    - intros t' r. destruct (Nat.eq_dec t' t) as [->|Hne]; [apply S4|].
      intros E. apply (xw_ret s HW t' r). apply (Hpc t' Hne); [discriminate | exact E].
    - intros t'. destruct (Nat.eq_dec t' t) as [->|Hne]; [exact S5|].
      rewrite (Hoth t' Hne). pose proof (xw_inner s HW t') as H0.
      destruct (is_bcast p); [|exact H0]. destruct (g_pc s t'); cbn; auto.
    - intros t' hn kt E. destruct (Nat.eq_dec t' t) as [->|Hne].
      + destruct (S1 hn kt E) as [-> Hr]. rewrite Hrz. exact Hr.
      + assert (E0 : g_pc s t' = PT_Wait hn kt) by (apply (Hpc t' Hne); [discriminate | exact E]).
        rewrite Hrz. pose proof (xw_wait s HW t' hn kt E0) as Hr.
        destruct p; cbn [rz_after]; auto.
        (* PR_FinStore: t holds resizeMu, and so would t' *)
        exfalso. apply Hne.
        assert (A : g_rmu s = Some t) by (apply (xi_muA _ _ _ _ s HI); rewrite Hp; reflexivity).
        assert (B : g_rmu s = Some t') by (apply (xi_muA _ _ _ _ s HI); rewrite E0; reflexivity).
        congruence.
    - intros t' hn kt E. destruct (Nat.eq_dec t' t) as [->|Hne].
      + pose proof (S2 hn kt E) as Ep. rewrite Ep in Hp, Hrz.
        left. rewrite Hrz. cbn [rz_after]. apply (xw_wait s HW t hn kt Hp).
      + destruct (is_bcast p) eqn:Eb.
        * exfalso. rewrite (Hoth t' Hne) in E. rewrite ?Eb in E. eapply wake_not_waiting. exact E.
        * assert (E0 : g_pc s t' = PT_Waiting hn kt) by (rewrite (Hoth t' Hne) in E; rewrite ?Eb in E; exact E).
          destruct (xw_waiting s HW t' hn kt E0) as [Hr|[u [kt' Hu]]].
          -- destruct p; cbn [rz_after] in Hrz; try (left; rewrite Hrz; exact Hr); try (left; exact Hrz).
             (* PR_FinStore: t goes on to broadcast *)
             right. exists t. cbn [XMachine.step_pc] in Hs. apply some_fst' in Hs. subst s'.
             rewrite goto_state'. cbn. destruct (Nat.eq_dec t t); [|congruence]. eexists. reflexivity.
          -- right. exists u, kt'. destruct (Nat.eq_dec u t) as [->|Hu'].
             ++ exfalso. rewrite Hp in Hu. rewrite Hu in Eb. discriminate.
             ++ rewrite (Hoth u Hu'). rewrite ?Eb. exact Hu.
  Qed.

  Lemma start_inner o : inner_ok (start_pc o) /\ (forall r, start_pc o <> PRet r)
                        /\ (forall hn kt, start_pc o <> PT_Wait hn kt) /\ (forall hn kt, start_pc o <> PT_Waiting hn kt)
                        /\ (forall kt, start_pc o <> PR_FinBcast kt).
  Proof. destruct o; cbn; repeat split; intros; try discriminate; destruct lie; cbn; auto; discriminate. Qed.

  Lemma XW_xstep s t s' ls : XInv s -> XW s -> xstep s t = Some (s', ls) -> XW s'.
  Proof.
    intros HI HW Hs. unfold XMachine.xstep in Hs.
    destruct (g_pc s t) eqn:Hp; try (eapply XW_step_pc; [exact HI | exact HW | exact Hp | exact Hs]).
    destruct (g_todo s t) as [|o rest]; [discriminate|].
    set (S0 := {| g_tabs := g_tabs s; g_cur := g_cur s; g_resizing := g_resizing s; g_rmu := g_rmu s;
                  g_growths := g_growths s; g_shrinks := g_shrinks s; g_pc := g_pc s;
                  g_todo := fun t' => if Nat.eq_dec t' t then rest else g_todo s t' |}).
    destruct (start_inner o) as [Q1 [Q2 [Q3 [Q4 Q5]]]].
    assert (HW1 : XW (set_pc S0 t (start_pc o))).
    { constructor; cbn [set_pc g_pc g_resizing S0].
      - intros t' r. destruct (Nat.eq_dec t' t); [apply Q2 | apply (xw_ret s HW)].
      - intros t'. destruct (Nat.eq_dec t' t); [apply Q1 | apply (xw_inner s HW)].
      - intros t' hn kt. destruct (Nat.eq_dec t' t); [intros E; exfalso; eapply Q3; exact E | apply (xw_wait s HW)].
      - intros t' hn kt. destruct (Nat.eq_dec t' t); [intros E; exfalso; eapply Q4; exact E|].
        intros E. destruct (xw_waiting s HW t' hn kt E) as [Hr|[u [kt' Hu]]]; [left; exact Hr|].
        right. exists u, kt'. destruct (Nat.eq_dec u t) as [->|]; [rewrite Hp in Hu; discriminate | exact Hu]. }
    assert (HI1 : XInv (set_pc S0 t (start_pc o))).
    { destruct (start_pc_quiet hash idx nslots nstripes o) as [R1 [R2 [R3 R4]]].
      eapply (move_pure hash idx nslots nstripes minlen Hminlen); [exact HI | | apply R4 | rewrite Hp; apply R1 | rewrite Hp; exact R2 | rewrite Hp; exact R3].
      unfold same_protocol. split; [split; [cbn; lia | intros; apply shape_refl]|]. repeat split; auto. }
    change (match step_pc (set_pc S0 t (start_pc o)) t (start_pc o) with
            | Some (s2, ls0) => Some (s2, XMachine.XInv t o :: ls0)
            | None => Some (set_pc S0 t (start_pc o), [XMachine.XInv t o])
            end = Some (s', ls)) in Hs.
    destruct (step_pc (set_pc S0 t (start_pc o)) t (start_pc o)) as [[s2 ls0]|] eqn:E.
    - inversion Hs; subst. eapply XW_step_pc; [exact HI1 | exact HW1 | | exact E].
      cbn [set_pc g_pc]. destruct (Nat.eq_dec t t); congruence.
    - inversion Hs; subst. exact HW1.
  Qed.

  Lemma XW_init len0 todo : XW (xinit nslots seeds nstripes len0 todo).
  Proof. constructor; cbn; intros; try discriminate; auto. Qed.

  (* both invariants, every reachable state *)
  Definition XI2 (s : xstate) : Prop := XInv s /\ XW s.

  Theorem xrun_inv2 sched : forall s, XI2 s -> XI2 (fst (xrun s sched)).
  Proof.
    induction sched as [|t rest IH]; intros s [HI HW]; cbn [XMachine.xrun]; [split; assumption|].
    destruct (xstep s t) as [[s' ls]|] eqn:E.
    - assert (H2 : XI2 s').
      { split; [eapply (xstep_inv eqd hash idx tag nslots seeds grow_needed shrink_policy probe nstripes minlen grow_only Hidx Hstripes Hminlen); eassumption
               | eapply XW_xstep; eassumption]. }
      specialize (IH s' H2).
      destruct (XMachine.xrun _ _ _ _ _ _ _ _ _ _ _ _ s' rest) as [s'' ls']. exact IH.
    - apply IH. split; assumption.
  Qed.

  Theorem reachable_inv2 len0 todo sched : 0 < len0 ->
    XI2 (fst (xrun (xinit nslots seeds nstripes len0 todo) sched)).
  Proof.
    intros Hl. apply xrun_inv2. split; [apply (xinit_inv hash idx nslots seeds nstripes minlen Hstripes Hminlen); assumption | apply XW_init].
  Qed.

  (* ---------------- a returned thread holds nothing ---------------- *)

  Theorem idle_holds_nothing s t : XInv s -> g_pc s t = PIdle ->
    (forall tab b, tab < length (g_tabs s) -> lock_of (tab_at s tab) b <> Some t)
    /\ g_rmu s <> Some t
    /\ (g_resizing s = true -> exists t', t' <> t /\ resizer (g_pc s t') = true).
  Proof.
    intros HI Hp. repeat split.
    - intros tab b Htab Hl. pose proof (xi_lockB _ _ _ _ s HI tab b t Htab Hl) as H. rewrite Hp in H. discriminate.
    - intros Hm. pose proof (xi_muB _ _ _ _ s HI t Hm) as H. rewrite Hp in H. discriminate.
    - intros Hr. destruct (xi_rzC _ _ _ _ s HI Hr) as [t' Ht']. exists t'. split; [|exact Ht'].
      intros ->. rewrite Hp in Ht'. discriminate.
  Qed.

  (* mutual exclusion on every bucket lock and on resizeMu *)
  Theorem mutual_exclusion s t1 t2 tab b : XInv s ->
    holds s (g_pc s t1) = Some (tab, b) -> holds s (g_pc s t2) = Some (tab, b) -> t1 = t2.
  Proof.
    intros HI H1 H2. pose proof (xi_lockA _ _ _ _ s HI t1 tab b H1). pose proof (xi_lockA _ _ _ _ s HI t2 tab b H2). congruence.
  Qed.

  Theorem mutual_exclusion_mu s t1 t2 : XInv s ->
    holds_mu (g_pc s t1) = true -> holds_mu (g_pc s t2) = true -> t1 = t2.
  Proof.
    intros HI H1 H2. pose proof (xi_muA _ _ _ _ s HI t1 H1). pose proof (xi_muA _ _ _ _ s HI t2 H2). congruence.
  Qed.

  (* ---------------- deadlock freedom ---------------- *)

  Definition waits_lock (s : xstate) (p : pc) : option (nat * nat) :=
    match p with
    | PW_Lock cx tab => Some (tab, home (tab_at s tab) (cx_k cx))
    | PR_CpLock _ _ tab _ i => Some (tab, i)
    | PG_Lock tab i => Some (tab, i)
    | _ => None
    end.

  Definition waits_mu (p : pc) : bool :=
    match p with PR_FinLock _ | PT_Lock _ _ | PT_Relock _ _ => true | _ => false end.

  (* why a step is not possible *)
  Lemma blocked_why s t p : step_pc s t p = None ->
    (exists tab b u, waits_lock s p = Some (tab, b) /\ lock_of (tab_at s tab) b = Some u)
    \/ (waits_mu p = true /\ exists u, g_rmu s = Some u)
    \/ (exists hn kt, p = PT_Waiting hn kt)
    \/ p = PIdle \/ (exists r, p = PRet r)
    \/ (exists k lc tab h bi, p = PL_Ent k lc tab h bi []).
  Proof.
    intros Hs. destruct p; cbn [XMachine.step_pc] in Hs; cbv zeta in Hs;
      repeat match type of Hs with
             | context [match ?x with _ => _ end] => destruct x eqn:?
             end; try discriminate.
    all: try (left; do 3 eexists; split; [reflexivity | eassumption]).
    all: try (right; left; split; [reflexivity | eexists; first [eassumption | reflexivity]]).
    all: try (right; right; left; do 2 eexists; reflexivity).
    all: try (right; right; right; left; reflexivity).
    all: try (right; right; right; right; left; eexists; reflexivity).
    all: try (right; right; right; right; right; do 5 eexists; reflexivity).
  Qed.

  Lemma holder_steps s t p tab b : holds s p = Some (tab, b) -> step_pc s t p <> None.
  Proof.
    intros H E. destruct (blocked_why s t p E) as [[? [? [? [W _]]]]|[[W _]|[[? [? Ep]]|[Ep|[[? Ep]|[? [? [? [? [? Ep]]]]]]]]]];
      try (rewrite Ep in H; discriminate); destruct p; cbn in *; discriminate.
  Qed.

  Lemma mu_holder_steps s t p : holds_mu p = true -> step_pc s t p <> None.
  Proof.
    intros H E. destruct (blocked_why s t p E) as [[? [? [? [W _]]]]|[[W _]|[[? [? Ep]]|[Ep|[[? Ep]|[? [? [? [? [? Ep]]]]]]]]]];
      try (rewrite Ep in H; discriminate); destruct p; cbn in *; discriminate.
  Qed.

  Lemma xstep_of_pc s t : g_pc s t <> PIdle -> xstep s t = step_pc s t (g_pc s t).
  Proof. intros H. unfold XMachine.xstep. destruct (g_pc s t); try reflexivity. congruence. Qed.

  Lemma lock_holder_enabled s tab b u : XInv s -> tab < length (g_tabs s) ->
    lock_of (tab_at s tab) b = Some u -> enabled s u = true.
  Proof.
    intros HI Htab Hl. pose proof (xi_lockB _ _ _ _ s HI tab b u Htab Hl) as Hh.
    unfold XMachine.enabled. rewrite xstep_of_pc by (intros E; rewrite E in Hh; discriminate).
    destruct (step_pc s u (g_pc s u)) eqn:E; [reflexivity|]. exfalso. eapply holder_steps; eassumption.
  Qed.

  Lemma mu_holder_enabled s u : XInv s -> g_rmu s = Some u -> enabled s u = true.
  Proof.
    intros HI Hm. pose proof (xi_muB _ _ _ _ s HI u Hm) as Hh.
    unfold XMachine.enabled. rewrite xstep_of_pc by (intros E; rewrite E in Hh; discriminate).
    destruct (step_pc s u (g_pc s u)) eqn:E; [reflexivity|]. exfalso. eapply mu_holder_steps; eassumption.
  Qed.

  Lemma waits_lock_valid s p tab b : valid s p -> waits_lock s p = Some (tab, b) -> tab < length (g_tabs s).
  Proof. destruct p; cbn; intros Hv H; try discriminate; inversion H; subst; tauto. Qed.

  (* a thread that is not waiting on the condition variable is enabled, or whoever blocks it is *)
  Lemma blocked_has_enabled s t : XI2 s -> g_pc s t <> PIdle -> (forall hn kt, g_pc s t <> PT_Waiting hn kt) ->
    exists u, enabled s u = true.
  Proof.
    intros [HI HW] Hni Hnw. destruct (step_pc s t (g_pc s t)) as [[s' ls]|] eqn:E.
    - exists t. unfold XMachine.enabled. rewrite xstep_of_pc by exact Hni. rewrite E. reflexivity.
    - destruct (blocked_why s t _ E) as [[tab [b [u [W Hl]]]]|[[W [u Hm]]|[[hn [kt Ew]]|[Ei|[[r Er]|[k [lc [tab [h [bi Ee]]]]]]]]]].
      + exists u. eapply lock_holder_enabled; [exact HI | | exact Hl].
        eapply waits_lock_valid; [apply (xi_valid _ _ _ _ s HI t) | exact W].
      + exists u. apply mu_holder_enabled; assumption.
      + exfalso. eapply Hnw. exact Ew.
      + contradiction.
      + exfalso. eapply (xw_ret s HW). exact Er.
      + exfalso. pose proof (xi_valid _ _ _ _ s HI t) as Hv. rewrite Ee in Hv. cbn in Hv. destruct Hv as [_ Hv]. apply Hv. reflexivity.
  Qed.

  Definition finished (s : xstate) (t : nat) : Prop := g_pc s t = PIdle /\ g_todo s t = [].

  Theorem deadlock_free s t : XI2 s -> ~ finished s t -> exists u, enabled s u = true.
  Proof.
    intros H2 Hnf. destruct H2 as [HI HW].
    destruct (g_pc s t) eqn:Hp.
    all: try (apply (blocked_has_enabled s t (conj HI HW)); rewrite Hp; [discriminate | intros; discriminate]).
    - (* PIdle with work to do *)
      exists t. unfold XMachine.enabled, XMachine.xstep. rewrite Hp.
      destruct (g_todo s t) eqn:Et; [exfalso; apply Hnf; split; assumption|].
      destruct (XMachine.step_pc _ _ _ _ _ _ _ _ _ _ _ _ _ _ _); [destruct p|]; reflexivity.
    - (* in the wait set: the flag is set, or the broadcast is about to happen *)
      destruct (xw_waiting s HW t hn kt Hp) as [Hr|[u [kt' Hu]]].
      + destruct (xi_rzC _ _ _ _ s HI Hr) as [r Hrz].
        apply (blocked_has_enabled s r (conj HI HW)); intros; intro E; rewrite E in Hrz; discriminate.
      + apply (blocked_has_enabled s u (conj HI HW)); rewrite Hu; [discriminate | intros; discriminate].
  Qed.

  (* over every reachable state: a run never ends in a state where calls are pending and nothing can move *)
  Theorem no_deadlock len0 todo sched t : 0 < len0 ->
    let s := fst (xrun (xinit nslots seeds nstripes len0 todo) sched) in
    ~ finished s t -> exists u, enabled s u = true.
  Proof. intros Hl s Hnf. apply (deadlock_free s t); [apply reachable_inv2; exact Hl | exact Hnf]. Qed.

  (* nobody is left waiting for a resize that is over *)
  Theorem no_lost_wakeup len0 todo sched t hn kt : 0 < len0 ->
    let s := fst (xrun (xinit nslots seeds nstripes len0 todo) sched) in
    g_pc s t = PT_Waiting hn kt ->
    g_resizing s = true \/ exists t' kt', g_pc s t' = PR_FinBcast kt'.
  Proof. intros Hl s Hp. destruct (reachable_inv2 len0 todo sched Hl) as [_ HW]. eapply xw_waiting; eassumption. Qed.


  (* ---------------- critical sections are short ---------------- *)

  (* how many more steps the holder of a bucket lock needs, at most, before it releases it *)
  Definition cs_bound (s : xstate) (p : pc) : nat :=
    match p with
    | PW_ChkRes _ tab => 6 + nstr (tab_at s tab)
    | PW_ChkTab _ tab => 5 + nstr (tab_at s tab)
    | PW_Sum _ tab i _ => 3 + (nstr (tab_at s tab) - i)
    | PW_D1 _ _ _ _ | PW_I1 _ _ _ _ => 3
    | PW_D2 _ _ _ _ | PW_U1 _ _ _ _ _ | PW_I2 _ _ _ _ | PW_N1 _ _ _ => 2
    | PW_Unlock _ _ _ | PR_CpUnlock _ _ _ _ _ | PG_Unlock _ _ _ => 1
    | _ => 0
    end.

  Lemma nstr_set_chain (tb : xtable) b f : nstr (set_chain tb b f) = nstr tb.
  Proof. reflexivity. Qed.

  (* the holder of a bucket lock is never blocked, and every one of its steps brings the release nearer *)
  Theorem cs_bounded s t p s' ls tab b : valid s p -> holds s p = Some (tab, b) -> step_pc s t p = Some (s', ls) ->
    holds s' (g_pc s' t) = None \/ cs_bound s' (g_pc s' t) < cs_bound s p.
  Proof.
    intros Hv Hh Hs.
    destruct p; try discriminate Hh; cbn [valid] in Hv;
      cbn [XMachine.step_pc] in Hs; cbv zeta in Hs;
      repeat match type of Hs with
             | context [match ?x with _ => _ end] => destruct x eqn:?
             end; try discriminate Hs; apply some_fst' in Hs; subst s'; rewrite ?goto_state'; cbn [fst];
      cbn [set_pc g_pc]; (destruct (Nat.eq_dec t t) as [_|Hc]; [|exfalso; apply Hc; reflexivity]); cbn [norm].
    all: try (left; reflexivity).
    all: try (left; match goal with Hq : _ /\ _ /\ _ /\ quiet _ _ _ _ ?a |- _ =>
                      destruct Hq as [_ [_ [_ [Q _]]]]; destruct a; cbn [norm]; first [reflexivity | apply Q] end).
    all: try (right; cbn [cs_bound]; rewrite ?tab_at_set_pc; try rewrite (tab_at_set_tab nslots nstripes s _ _ _ Hv);
              repeat match goal with |- context [Nat.eq_dec ?a ?a] => destruct (Nat.eq_dec a a) as [_|Hc]; [|exfalso; apply Hc; reflexivity] end;
              cbn [nstr set_chain x_size]; try lia).
    all: try match goal with H : Nat.ltb _ _ = true |- _ => apply Nat.ltb_lt in H; unfold nstr in *; lia end.
    all: try (destruct p; cbn; auto).
    all: try match goal with |- context [run_cont ?kt] => destruct kt; cbn; auto end.
  Qed.

End C13.

(* ---------------- the statements of props/C13.v ---------------- *)

Definition xhyps (idx : N -> nat -> nat) (nstripes : nat -> nat) (minlen : nat) : Prop :=
  (forall h len, 0 < len -> idx h len < len) /\ (forall len, 0 < nstripes len) /\ 0 < minlen.

Section Final.
  Context {K V : Type}.
  Variable eqd : forall a b : K, {a = b} + {a <> b}.
  Variable hash : K -> N -> N.
  Variable idx : N -> nat -> nat.
  Variable tag : N -> N.
  Variable nslots : nat.
  Variable seeds : nat -> N.
  Variable grow_needed shrink_policy : nat -> Z -> bool.
  Variable probe : list (option N) -> N -> list nat.
  Variable nstripes : nat -> nat.
  Variable minlen : nat.
  Variable grow_only : bool.

  Notation run len0 todo sched :=
    (fst (@xrun K V eqd hash idx tag nslots seeds grow_needed shrink_policy probe nstripes minlen grow_only
            (xinit nslots seeds nstripes len0 todo) sched)).
  Notation tab_at := (@tab_at K V nslots nstripes).

  Lemma protocol_proof :
    xhyps idx nstripes minlen -> forall len0 todo sched, 0 < len0 ->
    X_inv.XInv hash idx nslots nstripes (run len0 todo sched).
  Proof.
    intros [H1 [H2 H3]] len0 todo sched Hl.
    apply (reachable_inv2 eqd hash idx tag nslots seeds grow_needed shrink_policy probe nstripes minlen grow_only H1 H2 H3 len0 todo sched Hl).
  Qed.

  Lemma cs_bounded_proof :
    xhyps idx nstripes minlen -> forall len0 todo sched t tab b, 0 < len0 ->
    let s := run len0 todo sched in
    holds hash idx nslots nstripes s (g_pc s t) = Some (tab, b) ->
    exists s' ls, @step_pc K V eqd hash idx tag nslots seeds grow_needed shrink_policy probe nstripes minlen grow_only s t (g_pc s t) = Some (s', ls)
      /\ (holds hash idx nslots nstripes s' (g_pc s' t) = None
          \/ cs_bound nslots nstripes s' (g_pc s' t) < cs_bound nslots nstripes s (g_pc s t)).
  Proof.
    intros [H1 [H2 H3]] len0 todo sched t tab b Hl s Hh.
    destruct (reachable_inv2 eqd hash idx tag nslots seeds grow_needed shrink_policy probe nstripes minlen grow_only H1 H2 H3 len0 todo sched Hl) as [HI _].
    fold s in HI.
    destruct (@step_pc K V eqd hash idx tag nslots seeds grow_needed shrink_policy probe nstripes minlen grow_only s t (g_pc s t)) as [[s' ls]|] eqn:E.
    - exists s', ls. split; [reflexivity|].
      eapply cs_bounded; try exact H3; [apply (xi_valid _ _ _ _ s HI t) | exact Hh | exact E].
    - exfalso. eapply (holder_steps eqd hash idx tag nslots seeds grow_needed shrink_policy probe nstripes minlen grow_only); eassumption.
  Qed.

  Lemma locks_released_proof :
    xhyps idx nstripes minlen -> forall len0 todo sched t, 0 < len0 ->
    let s := run len0 todo sched in
    g_pc s t = PIdle ->
    (forall tab b, tab < length (g_tabs s) -> lock_of (tab_at s tab) b <> Some t)
    /\ g_rmu s <> Some t
    /\ (g_resizing s = true -> exists t', t' <> t /\ resizer (g_pc s t') = true).
  Proof.
    intros [H1 [H2 H3]] len0 todo sched t Hl s Hp.
    apply (idle_holds_nothing hash idx nslots nstripes); [|exact Hp].
    apply (reachable_inv2 eqd hash idx tag nslots seeds grow_needed shrink_policy probe nstripes minlen grow_only H1 H2 H3 len0 todo sched Hl).
  Qed.

  Lemma mutual_exclusion_proof :
    xhyps idx nstripes minlen -> forall len0 todo sched t1 t2, 0 < len0 ->
    let s := run len0 todo sched in
    (forall tab b, holds hash idx nslots nstripes s (g_pc s t1) = Some (tab, b) ->
                   holds hash idx nslots nstripes s (g_pc s t2) = Some (tab, b) -> t1 = t2)
    /\ (holds_mu (g_pc s t1) = true -> holds_mu (g_pc s t2) = true -> t1 = t2).
  Proof.
    intros [H1 [H2 H3]] len0 todo sched t1 t2 Hl s.
    destruct (reachable_inv2 eqd hash idx tag nslots seeds grow_needed shrink_policy probe nstripes minlen grow_only H1 H2 H3 len0 todo sched Hl) as [HI _].
    split.
    - intros tab b. apply (mutual_exclusion hash idx nslots nstripes). exact HI.
    - apply mutual_exclusion_mu with (hash := hash) (idx := idx) (nslots := nslots) (nstripes := nstripes). exact HI.
  Qed.

  Lemma no_lost_wakeup_proof :
    xhyps idx nstripes minlen -> forall len0 todo sched t hn kt, 0 < len0 ->
    let s := run len0 todo sched in
    g_pc s t = PT_Waiting hn kt ->
    g_resizing s = true \/ exists t' kt', g_pc s t' = PR_FinBcast kt'.
  Proof.
    intros [H1 [H2 H3]] len0 todo sched t hn kt Hl.
    apply (no_lost_wakeup eqd hash idx tag nslots seeds grow_needed shrink_policy probe nstripes minlen grow_only H1 H2 H3 len0 todo sched t hn kt Hl).
  Qed.

  Lemma no_deadlock_proof :
    xhyps idx nstripes minlen -> forall len0 todo sched t, 0 < len0 ->
    let s := run len0 todo sched in
    ~ (g_pc s t = PIdle /\ g_todo s t = []) ->
    exists u, @enabled K V eqd hash idx tag nslots seeds grow_needed shrink_policy probe nstripes minlen grow_only s u = true.
  Proof.
    intros [H1 [H2 H3]] len0 todo sched t Hl.
    apply (no_deadlock eqd hash idx tag nslots seeds grow_needed shrink_policy probe nstripes minlen grow_only H1 H2 H3 len0 todo sched t Hl).
  Qed.
End Final.
