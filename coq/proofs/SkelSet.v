(* SkelSet.v -- the clock and settings accesses of the cache methods (C14, C09): projection P_set of the budgets *)
From CacheV Require Import Base SpecMap Client CacheModel CacheOfModel Ops.
From CacheV.gen Require Import Params SrcFacts.
From CacheV.proofs Require Export SkelDefs.
From CacheV.proofs Require Import SkelTac.
From Coq Require Import String ZArith List Lia Bool.
Import ListNotations.
Local Open Scope nat_scope.

Section Within.
  Context {K V : Type}.
  Variable eqd : forall a b : K, {a = b} + {a <> b}.
  Variable zero : V.

  Theorem cache_within_on (o : cop K V) :
    is_call o -> within (relax P_set false budgets_map) (prog_cache eqd zero) o.
  Proof. solve_within_cache. Qed.

  Theorem cacheof_within_on (o : cop K V) :
    is_call o -> within (relax P_set false budgets_mapof) (prog_cacheof eqd zero) o.
  Proof. solve_within_cacheof. Qed.
End Within.

Theorem attained_on :
  unattained_on P_set false budgets_map (prog_cache Z.eq_dec 0%Z) = [] /\
  unattained_on P_set false budgets_mapof (prog_cacheof Z.eq_dec 0%Z) = [].
Proof. split; vm_compute; reflexivity. Qed.

