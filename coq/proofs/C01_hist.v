(* C01_hist.v -- from one call to whole histories, for both twins. *)
From CacheV Require Import Base SpecMap Client CacheModel CacheOfModel Ops SpecTTL.
From CacheV.gen Require Import Params.
From CacheV.proofs Require Import C01_sim C01_ops C12_twins.

Section Hist.
  Context {K V : Type}.
  Variable eqd : forall a b : K, {a = b} + {a <> b}.
  Variable zero : V.
  Notation R := (R eqd).

  Lemma R_init (m : cstate K V) : st_map m = [] -> R m m.
  Proof.
    intros H. constructor; auto; rewrite H; cbn; try constructor.
  Qed.

  Lemma run_refines ops : forall m s, R m s -> monotone ops ->
    let '(m', rs) := run_cache eqd zero m ops in
    spec_run eqd zero s ops (map fst rs) /\ R m' (fold_left (spec_next eqd zero) ops s).
  Proof.
    unfold run_cache.
    induction ops as [|o t IH]; intros m s HR Hmono; cbn [run_with fold_left].
    - cbn. auto.
    - inversion Hmono as [|o' t' Ho Ht]; subst.
      pose proof (sim_step eqd zero o Ho m s HR) as Hs.
      change (step_with eqd (prog_cache eqd zero) m o) with (step_cache eqd zero m o).
      destruct (step_cache eqd zero m o) as [[m1 r] evs]. destruct Hs as [Hok HR1].
      specialize (IH m1 _ HR1 Ht).
      destruct (run_with eqd (prog_cache eqd zero) m1 t) as [m2 rs]. destruct IH as [Hrun HR2].
      cbn [map fst spec_run]. auto.
  Qed.

  Theorem cache_refines_spec (m0 : cstate K V) ops :
    st_map m0 = [] -> monotone ops ->
    spec_run eqd zero m0 ops (map fst (snd (run_cache eqd zero m0 ops))).
  Proof.
    intros H0 Hm. pose proof (run_refines ops m0 m0 (R_init m0 H0) Hm) as H.
    destruct (run_cache eqd zero m0 ops) as [m' rs]. cbn. tauto.
  Qed.

  Theorem cacheof_refines_spec (m0 : cstate K V) ops :
    st_map m0 = [] -> monotone ops ->
    spec_run eqd zero m0 ops (map fst (snd (run_cacheof eqd zero m0 ops))).
  Proof.
    intros H0 Hm. rewrite twins_run. apply cache_refines_spec; auto.
  Qed.

  (* -------- the sentences of C01 that are quoted from the refinement -------- *)

  (* an expired value is never returned, whether or not cleanup has run:
     at any point of any history, whatever Get answers with ok = true is the
     item the specification holds for that key, and that item is unexpired *)
  Theorem never_returns_expired ops m0 k :
    st_map m0 = [] -> monotone ops ->
    let '(m, _) := run_cache eqd zero m0 ops in
    let s := fold_left (spec_next eqd zero) ops m0 in
    forall v, snd (fst (step_cache eqd zero m (OGet k))) = CVal v true ->
      exists i, lookup eqd k (st_map s) = Some i /\ iv i = v /\ expiredWithNow (st_now s) i = false.
  Proof.
    intros H0 Hm. pose proof (run_refines ops m0 m0 (R_init m0 H0) Hm) as H.
    destruct (run_cache eqd zero m0 ops) as [m rs]. destruct H as [_ HR].
    intros s v Hres. subst s.
    pose proof (sim_Get eqd zero k m _ HR) as Hs.
    destruct (step_cache eqd zero m (OGet k)) as [[m1 r] evs]. cbn [fst snd] in Hres. rewrite Hres in Hs.
    destruct Hs as [Hok _]. cbn in Hok. unfold vw, view in Hok.
    destruct (lookup eqd k (st_map (fold_left (spec_next eqd zero) ops m0))) as [i|] eqn:HL; [|discriminate].
    destruct (expiredWithNow _ i) eqn:He; [discriminate|].
    inversion Hok; subst. exists i. auto.
  Qed.

  (* an unexpired value is never dropped by DeleteExpired or by lazy deletion on
     read: those calls leave the specification state -- hence every view --
     exactly as it was *)
  Theorem cleanup_changes_no_view s o :
    match o with
    | ODeleteExpired | OGet _ | OGetWithExpiration _ | OGetWithTTL _ | ORange _ _ | OItems _ | OCount => True
    | _ => False
    end -> spec_next eqd zero s o = s.
  Proof. destruct o; cbn; tauto. Qed.

End Hist.
