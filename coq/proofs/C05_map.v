(* C05_map.v -- the table model reports the user function exactly when SpecMap does. *)
From CacheV Require Import Base SpecMap TableModel.
From CacheV.proofs Require Import C11_lists C11_table.
From Coq Require Import NArith.

Section M.
  Context {K V A : Type}.
  Variable eqd : forall a b : K, {a = b} + {a <> b}.
  Variable hash : K -> N -> N.
  Variable idx : N -> nat -> nat.
  Variable tag : N -> N.
  Variable nslots : nat.
  Variable seeds : nat -> N.
  Variable variant : bool.
  Variables g s : nat -> nat -> bool.
  Hypothesis Hidx : forall h len, (0 < len)%nat -> (idx h len < len)%nat.

  Lemma res_equiv_RVal (r : mres K V A) v ok a : res_equiv r (RVal v ok a) -> r = RVal v ok a.
  Proof. destruct r; cbn; auto. Qed.

  Lemma compute_once fuel (m : @tmap K V) a k f m' r :
    WFm hash idx tag nslots m -> meq eqd (abs nslots m) a ->
    @table_step K V A eqd hash idx tag nslots seeds variant g s fuel m (MCompute k f) = Some (m', r) ->
    exists v ok x, r = RVal v ok (Some x) /\ x = snd (f (lookup eqd k a)).
  Proof.
    intros Hm Hq Hr.
    pose proof (table_refines eqd hash idx tag nslots seeds variant g s Hidx fuel m a (MCompute k f) m' r Hm Hq Hr) as H.
    cbn [map_step] in H. destruct (f (lookup eqd k a)) as [[nv del] x] eqn:Ef.
    destruct (lookup eqd k a) as [o|]; destruct del; destruct H as [_ [_ H]]; apply res_equiv_RVal in H; subst r; eauto.
  Qed.

  Lemma loadorcompute_once fuel (m : @tmap K V) a k f m' r :
    WFm hash idx tag nslots m -> meq eqd (abs nslots m) a ->
    @table_step K V A eqd hash idx tag nslots seeds variant g s fuel m (MLoadOrCompute k f) = Some (m', r) ->
    match lookup eqd k a with
    | Some old => r = RVal (Some old) true None
    | None => r = RVal (Some (fst (f tt))) false (Some (snd (f tt)))
    end.
  Proof.
    intros Hm Hq Hr.
    pose proof (table_refines eqd hash idx tag nslots seeds variant g s Hidx fuel m a (MLoadOrCompute k f) m' r Hm Hq Hr) as H.
    cbn [map_step] in H. destruct (lookup eqd k a) as [o|].
    - destruct H as [_ [_ H]]. apply res_equiv_RVal in H. exact H.
    - destruct (f tt) as [v x]. destruct H as [_ [_ H]]. apply res_equiv_RVal in H. exact H.
  Qed.

End M.
