(* C02F_smachine.v -- stages 2-3 for XMachineS (the string-keyed Map of xsync_map.go's cache): the
   cache over XMachineS, linearizability WITH FINAL-STATE AGREEMENT, as C02F_mapof.v.
   [cache_over_smachine_linearizable_final]: every run of CX_map.v's product machine has a
   linearization w.r.t. [tspec] ending in s_fin, and an association list mf WITHOUT repeated keys
   whose lookups are exactly what is visible in the machine's current table ([XS_abs.sabs]) with
   C01_sim.R (mk NOW DFLT CB mf) s_fin.  (The enumeration XS_size.tpairs of the table is such a
   list when no modifying call is in flight: XS_size.tpairs_settled.) *)
From CacheV Require Import Base SpecMap Client CacheModel CacheOfModel Ops SpecTTL Lin LinF Conc.
From CacheV.gen Require Import Params.
From CacheV.proofs Require X_linpoints.
From CacheV.proofs Require Import C01_sim C01_hist C02_good C02_methods C02_methods_of C02_lin C02_lin_gen
  XS_resize XS_abs XS_linpoints XS_linearizable
  CX_trans CX_compose CX_product CX_map C08X_product C08X_map C02F_smap C02F_trans C02F_compose C02F_lin C02F_mapof.
From CacheV Require Import XMachineS.
From Coq Require Import NArith.
Local Open Scope nat_scope.
Local Arguments p_x {K V XS} p.

Section TransSF.
  Context {K V : Type}.
  Variable eqd : forall a b : K, {a = b} + {a <> b}.
  Variable e : env.
  Notation item := (item V).

  Theorem map_lin_transfer_final hx hm mxf :
    hrel (stranslate e) (sback e) mapcall_ok (fun _ => None) hx hm ->
    linearizableF (@sop K item) (@sres item) (X_linpoints.amap K item) (sspec eqd) X_linpoints.aempty hx mxf ->
    exists mf, linearizableF (cmop K V) (imres K V) (Base.amap K item) (cmspec eqd e) [] hm mf /\ Rst eqd mxf mf.
  Proof.
    intros Hh Hl.
    eapply (lin_transfer_final (@sop K item) (@sres item) (X_linpoints.amap K item) (sspec eqd) (cmop K V) (imres K V) (Base.amap K item) (cmspec eqd e)
              (stranslate e) (sback e) mapcall_ok (Rst eqd)); [|apply Rst_empty|exact Hh|exact Hl].
    intros s1 s2 o r s1' HR Hok Hs. apply (strans_sim eqd e s1 s2 o r s1' HR Hok Hs).
  Qed.
End TransSF.

Section CacheFinalS.
  Context {K V : Type}.
  Variable eqd : forall a b : K, {a = b} + {a <> b}.
  Variable hash : K -> N -> N.
  Variable idx : N -> nat -> nat.
  Variable tophash : N -> N.
  Variable nslots : nat.
  Variable seeds : nat -> N.
  Variable grow_needed shrink_policy : nat -> Z -> bool.
  Variable nstripes : nat -> nat.
  Variable minlen : nat.
  Variable grow_only : bool.
  Variable len0 : nat.
  Variable zero : V.
  Variable progs : cop K V -> prog K V (cres K V).
  Variables NOW DFLT : Z.
  Variable CB : cbid.

  Notation item := (item V).
  Notation mstate := (@mstate K item).
  Notation sop := (@sop K item).
  Notation sres := (@sres item).
  Notation env0 := (Conc.env0 NOW DFLT).
  Notation sp_step := (@sp_step K item eqd hash idx tophash nslots seeds grow_needed shrink_policy nstripes minlen grow_only).
  Notation srun := (@srun K item eqd hash idx tophash nslots seeds grow_needed shrink_policy nstripes minlen grow_only).
  Notation sp_init := (@sp_init K V nslots seeds nstripes len0).
  Notation csrun := (csrun eqd hash idx tophash nslots seeds grow_needed shrink_policy nstripes minlen grow_only progs NOW DFLT CB).
  Notation csinit := (csinit nslots seeds nstripes len0).
  Notation cshist := (cshist eqd hash idx tophash nslots seeds grow_needed shrink_policy nstripes minlen grow_only len0 progs NOW DFLT CB).

  Hypothesis Hr : @XS_resize.rhyps K hash idx tophash nslots minlen.
  Hypothesis Hlen : 0 < len0.
  Hypothesis Hinit : forall o : cop K V, conc_ok o -> good eqd zero NOW DFLT CB o None [] 0 (progs o).

  Theorem cache_over_smachine_final (todo : nat -> list (cop K V)) sched :
    (forall t, Forall conc_ok (todo t)) ->
    let p := fst (fst (csrun (csinit todo) sched)) in
    exists Lfin mf,
      linearizableF _ _ _ (tspec eqd zero) (mk NOW DFLT CB []) (cshist todo sched) (mk NOW DFLT CB Lfin)
      /\ R eqd (mk NOW DFLT CB mf) (mk NOW DFLT CB Lfin)
      /\ forall k v, sabs hash idx tophash nslots nstripes (p_x p) k v <-> lookup eqd k mf = Some v.
  Proof.
    intros Htodo p.
    destruct (prun_ok progs NOW DFLT CB mstate sop sres sp_step (@h_todo K item) swith_todo (@sidle K item)
                (stranslate env0) (sback env0) ssup (fun s td u => eq_refl) (fun s td u => conj (fun H => H) (fun H => H))
                (@sp_proto K item eqd hash idx tophash nslots seeds grow_needed shrink_policy nstripes minlen grow_only)
                sched (csinit todo)) as [Hh Hv].
    { apply PI_init; [intros td u; reflexivity | intros td u; left; reflexivity]. }
    fold csrun in Hh, Hv.
    destruct (prophecy_state_ok progs NOW DFLT CB mstate sop sres sp_step (@h_todo K item) swith_todo (sokop (K:=K) (V:=item))
                (stranslate env0) (sback env0) ssup (fun s td u => eq_refl) (fun s a b => eq_refl)
                (@sp_frame K item eqd hash idx tophash nslots seeds grow_needed shrink_policy nstripes minlen grow_only)) with (sched := sched) (p := csinit todo)
      as [fut [Hok Hf]].
    { intros o Ho. apply stranslate_okop. unfold mok in Ho. destruct o; cbn in Ho |- *; try exact I; discriminate Ho. }
    destruct (Hf (sp_init fut)) as [sched' [s'' [Hrun [td [Es Htd]]]]].
    { exists fut. split; [reflexivity|]. intros u. reflexivity. }
    fold csrun in Hrun, Es. fold p in Es.
    assert (Er : s'' = fst (srun (sp_init fut) sched')).
    { rewrite <- (sp_mrun_fst eqd hash idx tophash nslots seeds grow_needed shrink_policy nstripes minlen grow_only), Hrun. reflexivity. }
    assert (Eh : snd (csrun (csinit todo) sched) = XS_linpoints.shist (snd (srun (sp_init fut) sched'))).
    { rewrite <- (sp_mrun eqd hash idx tophash nslots seeds grow_needed shrink_policy nstripes minlen grow_only), Hrun. reflexivity. }
    destruct (smachine_linearizable_final eqd hash idx tophash nslots seeds grow_needed shrink_policy nstripes minlen grow_only
                Hr len0 fut sched' Hlen Hok) as [mxf [Hlx Hvis]].
    unfold CX_map.sp_init in Er, Eh. rewrite <- Er in Hvis. rewrite <- Eh in Hlx.
    assert (Eabs : forall k v, sabs hash idx tophash nslots nstripes s'' k v <-> sabs hash idx tophash nslots nstripes (p_x p) k v)
      by (intros k v; rewrite Es; reflexivity).
    destruct (map_lin_transfer_final eqd env0 (snd (csrun (csinit todo) sched)) (mproj (snd (fst (csrun (csinit todo) sched)))) mxf)
      as [mf [Hlm HRst]].
    { eapply hrel_ok_mono; [|exact Hh]. intros o Ho. unfold mok in Ho. destruct o; cbn in Ho |- *; try exact I; discriminate Ho. }
    { exact Hlx. }
    destruct (compose_trace_final eqd progs NOW DFLT CB [] mf todo _ Hv Hlm) as [scheda [Hha Hma]].
    destruct (gen_linearizable_final eqd zero NOW DFLT CB progs Hinit [] [] todo scheda) as [Lfin [Hlc HRm]].
    { apply C01_hist.R_init. reflexivity. }
    { exact Htodo. }
    rewrite Hha in Hlc. rewrite Hma in HRm.
    exists Lfin, mf. split; [exact Hlc|]. split; [exact HRm|].
    intros k v. rewrite <- Eabs, Hvis, (HRst k). reflexivity.
  Qed.

End CacheFinalS.

Section FinalSF.
  Context {K V : Type}.
  Variable eqd : forall a b : K, {a = b} + {a <> b}.
  Variable hash : K -> N -> N.
  Variable idx : N -> nat -> nat.
  Variable tophash : N -> N.
  Variable nslots : nat.
  Variable seeds : nat -> N.
  Variable grow_needed shrink_policy : nat -> Z -> bool.
  Variable nstripes : nat -> nat.
  Variable minlen : nat.
  Variable grow_only : bool.
  Variable zero : V.
  Variables NOW DFLT : Z.
  Variable CB : cbid.

  Theorem cache_over_smachine_linearizable_final :
    @XS_resize.rhyps K hash idx tophash nslots minlen -> forall len0 (todo : nat -> list (cop K V)) sched, 0 < len0 ->
    (forall t, Forall conc_ok (todo t)) ->
    let p := fst (fst (csrun eqd hash idx tophash nslots seeds grow_needed shrink_policy nstripes minlen grow_only (prog_cache eqd zero) NOW DFLT CB
                             (csinit nslots seeds nstripes len0 todo) sched)) in
    exists Lfin mf,
      linearizableF _ _ _ (tspec eqd zero) (mk NOW DFLT CB [])
        (cshist eqd hash idx tophash nslots seeds grow_needed shrink_policy nstripes minlen grow_only len0 (prog_cache eqd zero) NOW DFLT CB todo sched)
        (mk NOW DFLT CB Lfin)
      /\ R eqd (mk NOW DFLT CB mf) (mk NOW DFLT CB Lfin)
      /\ forall k v, sabs hash idx tophash nslots nstripes (p_x p) k v <-> lookup eqd k mf = Some v.
  Proof.
    intros Hr len0 todo sched Hlen Htodo.
    apply (cache_over_smachine_final eqd hash idx tophash nslots seeds grow_needed shrink_policy nstripes minlen grow_only
             len0 zero (prog_cache eqd zero) NOW DFLT CB Hr Hlen (good_init eqd zero NOW DFLT CB) todo sched Htodo).
  Qed.

  Theorem cacheof_over_smachine_linearizable_final :
    @XS_resize.rhyps K hash idx tophash nslots minlen -> forall len0 (todo : nat -> list (cop K V)) sched, 0 < len0 ->
    (forall t, Forall conc_ok (todo t)) ->
    let p := fst (fst (csrun eqd hash idx tophash nslots seeds grow_needed shrink_policy nstripes minlen grow_only (prog_cacheof eqd zero) NOW DFLT CB
                             (csinit nslots seeds nstripes len0 todo) sched)) in
    exists Lfin mf,
      linearizableF _ _ _ (tspec eqd zero) (mk NOW DFLT CB [])
        (cshist eqd hash idx tophash nslots seeds grow_needed shrink_policy nstripes minlen grow_only len0 (prog_cacheof eqd zero) NOW DFLT CB todo sched)
        (mk NOW DFLT CB Lfin)
      /\ R eqd (mk NOW DFLT CB mf) (mk NOW DFLT CB Lfin)
      /\ forall k v, sabs hash idx tophash nslots nstripes (p_x p) k v <-> lookup eqd k mf = Some v.
  Proof.
    intros Hr len0 todo sched Hlen Htodo.
    apply (cache_over_smachine_final eqd hash idx tophash nslots seeds grow_needed shrink_policy nstripes minlen grow_only
             len0 zero (prog_cacheof eqd zero) NOW DFLT CB Hr Hlen (good_init_of eqd zero NOW DFLT CB) todo sched Htodo).
  Qed.

End FinalSF.
Print Assumptions cache_over_smachine_linearizable_final.
Print Assumptions cacheof_over_smachine_linearizable_final.
