(* CXT_map.v -- the cache methods over XMachineS (the string-keyed Map of xsync_map.go's
   cache) with a TICKING clock, as CXT_mapof.v over XMachine: the product machine of
   CXT_product.v instantiated with XMachineS (interface lemmas of CX_map.v: sp_frame,
   sp_proto, sp_mrun; H_lin is XS_linearizable.smachine_linearizable_proof), the closure of
   a Compute being given the clock of the instant the call is handed to the map.

   [cache_over_smachine_linearizable_ticking]: every TICK-SAFE run (no tick while a
   Compute call is in flight) of the cache methods of CacheModel over XMachineS from the
   empty cache is linearizable in the sense of LinT.v; [cacheof_over_smachine_...]: the twin. *)
From CacheV Require Import Base SpecMap Client CacheModel CacheOfModel Ops SpecTTL Lin LinT Conc ConcT.
From CacheV.gen Require Import Params.
From CacheV.proofs Require X_linpoints.
From CacheV.proofs Require Import C01_sim C01_hist C02_good C02_lin XS_resize XS_linpoints XS_linearizable
  CX_trans CX_compose CX_product CX_map LinT_facts C02T_good C02T_methods C02T_lin C02T_main C02T_methods_of
  CXT_compose CXT_product.
From CacheV Require Import XMachineS.
From Coq Require Import NArith.
Local Open Scope nat_scope.

Section TransSE.
  Context {K V : Type}.
  Variable eqd : forall a b : K, {a = b} + {a <> b}.
  Variable DFLT : Z.

  Notation item := (item V).
  Notation emop := (@emop K V).
  Notation sop := (@sop K item).
  Notation sres := (@sres item).

  Definition strT (mo : cmop K V) (c : Z) : sop := stranslate (Conc.env0 c DFLT) mo.
  Definition sbkT (mo : cmop K V) (c : Z) (r : sres) : imres K V := sback (Conc.env0 c DFLT) mo r.

  Theorem map_lin_transferE hx hm :
    hrel (trE _ strT) (bkE _ sbkT) (fun o : emop => mapcall_ok (fst o)) (fun _ => None) hx hm ->
    linearizable sop sres (X_linpoints.amap K item) (sspec eqd) X_linpoints.aempty hx ->
    linearizable emop (imres K V) (Base.amap K item) (cmspecE eqd DFLT) [] hm.
  Proof.
    intros Hh Hl.
    eapply (lin_transfer sop sres (X_linpoints.amap K item) (sspec eqd) emop (imres K V) (Base.amap K item) (cmspecE eqd DFLT)
              (trE _ strT) (bkE _ sbkT) (fun o : emop => mapcall_ok (fst o)) (Rst eqd)); [|apply Rst_empty|exact Hh|exact Hl].
    intros s1 s2 [mo c] r s1' HR Hok Hs. cbn [fst] in Hok.
    exact (strans_sim eqd (Conc.env0 c DFLT) s1 s2 mo r s1' HR Hok Hs).
  Qed.

End TransSE.

Section CacheOverXMachineST.
  Context {K V : Type}.
  Variable eqd : forall a b : K, {a = b} + {a <> b}.
  Variable hash : K -> N -> N.
  Variable idx : N -> nat -> nat.
  Variable tophash : N -> N.
  Variable nslots : nat.
  Variable seeds : nat -> N.
  Variable grow_needed shrink_policy : nat -> Z -> bool.
  Variable nstripes : nat -> nat.
  Variable minlen : nat.
  Variable grow_only : bool.
  Variable len0 : nat.
  Variable progs : cop K V -> prog K V (cres K V).
  Variable DFLT : Z.
  Variable CB : cbid.

  Notation item := (item V).
  Notation mstate := (@mstate K item).
  Notation sop := (@sop K item).
  Notation sres := (@sres item).
  Notation sp_step := (@sp_step K item eqd hash idx tophash nslots seeds grow_needed shrink_policy nstripes minlen grow_only).
  Notation sp_init := (@sp_init K V nslots seeds nstripes len0).
  Notation rhyps := (@XS_resize.rhyps K hash idx tophash nslots minlen).

  Definition csstepT := pstepT progs DFLT CB mstate sop sres sp_step (@h_todo K item) swith_todo (strT DFLT) (sbkT DFLT) ssup.
  Definition csrunT := prunT progs DFLT CB mstate sop sres sp_step (@h_todo K item) swith_todo (strT DFLT) (sbkT DFLT) ssup.
  Definition csinitT (now0 : Z) (todo : nat -> list (cop K V)) : pconfT mstate := pinitT mstate sop sp_init now0 todo.

  Definition cshistT (now0 : Z) (todo : nat -> list (cop K V)) (sched : list (@move K V)) : list (hevT (cop K V) (cres K V)) :=
    cprojT (snd (fst (csrunT (csinitT now0 todo) sched))).

  (* THE ASSUMPTION: every tick of the run happens while no Compute call is in flight *)
  Definition cssafeT (now0 : Z) (todo : nat -> list (cop K V)) (sched : list (@move K V)) : Prop :=
    tick_safe progs DFLT CB mstate sop sres sp_step (@h_todo K item) swith_todo (strT DFLT) (sbkT DFLT) ssup
              (csinitT now0 todo) sched.

  (* the assumption, decided, for runs of the threads 0 .. n-1 *)
  Definition cssafebT (n : nat) (now0 : Z) (todo : nat -> list (cop K V)) (sched : list (@move K V)) : bool :=
    tick_safeb progs DFLT CB mstate sop sres sp_step (@h_todo K item) swith_todo (strT DFLT) (sbkT DFLT) ssup
               n (csinitT now0 todo) sched.

  Lemma cssafebT_sound n now0 todo sched :
    (forall t, n <= t -> todo t = []) -> cssafebT n now0 todo sched = true -> cssafeT now0 todo sched.
  Proof.
    intros Htd Hb. unfold cssafeT. eapply tick_safeb_sound; [|exact Hb]. apply dormant_init. exact Htd.
  Qed.

  Hypothesis Hr : rhyps.
  Hypothesis Hlen : 0 < len0.

  Theorem sproductT_all (P : list (hevT (cop K V) (cres K V)) -> Prop) now0 todo sched :
    (forall sched', P (historyT (snd (trun eqd progs DFLT CB (tinit now0 [] todo) sched')))) ->
    cssafeT now0 todo sched ->
    P (cshistT now0 todo sched).
  Proof.
    intros Hall Hs.
    change (cshistT now0 todo sched) with
      (phistT progs DFLT CB mstate sop sres sp_step (@h_todo K item) swith_todo sp_init (strT DFLT) (sbkT DFLT) ssup now0 todo sched).
    apply (productT_all eqd progs DFLT CB mstate sop sres (X_linpoints.amap K item)
             sp_step (@h_todo K item) swith_todo (@sidle K item) sp_init (sspec eqd) (X_linpoints.aempty (K:=K) (V:=item))
             (sokop (K:=K) (V:=item)) (strT DFLT) (sbkT DFLT) ssup); try exact Hall; try exact Hs.
    - intros s td t. reflexivity.
    - intros s td t. split; intros H; exact H.
    - intros s a b. reflexivity.
    - intros td t. reflexivity.
    - intros td t. left. reflexivity.
    - intros a b. reflexivity.
    - intros s t s' h td fut. apply sp_frame.
    - intros s t s' h. apply sp_proto.
    - intros o c Ho. apply stranslate_okop. unfold mokT in Ho. destruct o; cbn in Ho |- *; try exact I; discriminate Ho.
    - intros td sched0 Htd. rewrite sp_mrun.
      apply (smachine_linearizable_proof eqd hash idx tophash nslots seeds grow_needed shrink_policy nstripes minlen grow_only
               Hr len0 td sched0 Hlen Htd).
    - intros hx hm Hh Hl. apply (map_lin_transferE eqd DFLT hx hm); [|exact Hl].
      eapply hrel_ok_mono; [|exact Hh]. intros [o c] Ho. unfold mokE, mokT in Ho. cbn [fst] in *.
      destruct o; cbn in Ho |- *; try exact I; discriminate Ho.
  Qed.

End CacheOverXMachineST.

Section FinalST.
  Context {K V : Type}.
  Variable eqd : forall a b : K, {a = b} + {a <> b}.
  Variable hash : K -> N -> N.
  Variable idx : N -> nat -> nat.
  Variable tophash : N -> N.
  Variable nslots : nat.
  Variable seeds : nat -> N.
  Variable grow_needed shrink_policy : nat -> Z -> bool.
  Variable nstripes : nat -> nat.
  Variable minlen : nat.
  Variable grow_only : bool.
  Variable zero : V.
  Variable DFLT : Z.
  Variable CB : cbid.

  Theorem cache_over_smachine_linearizable_ticking :
    @XS_resize.rhyps K hash idx tophash nslots minlen -> forall len0 now0 (todo : nat -> list (cop K V)) sched, 0 < len0 ->
    (forall t, Forall conc_ok (todo t)) ->
    cssafeT eqd hash idx tophash nslots seeds grow_needed shrink_policy nstripes minlen grow_only len0
            (prog_cache eqd zero) DFLT CB now0 todo sched ->
    cache_linearizableT eqd zero (mk now0 DFLT CB [])
      (cshistT eqd hash idx tophash nslots seeds grow_needed shrink_policy nstripes minlen grow_only len0
               (prog_cache eqd zero) DFLT CB now0 todo sched).
  Proof.
    intros Hr len0 now0 todo sched Hlen Htodo Hs.
    apply (sproductT_all eqd hash idx tophash nslots seeds grow_needed shrink_policy nstripes minlen grow_only
             len0 (prog_cache eqd zero) DFLT CB Hr Hlen (cache_linearizableT eqd zero (mk now0 DFLT CB []))); [|exact Hs].
    intros sched'. apply (cache_linearizable_ticking eqd zero DFLT CB now0 [] [] todo sched'); [|exact Htodo].
    apply start_empty_ticking.
  Qed.

  Theorem cacheof_over_smachine_linearizable_ticking :
    @XS_resize.rhyps K hash idx tophash nslots minlen -> forall len0 now0 (todo : nat -> list (cop K V)) sched, 0 < len0 ->
    (forall t, Forall conc_ok (todo t)) ->
    cssafeT eqd hash idx tophash nslots seeds grow_needed shrink_policy nstripes minlen grow_only len0
            (prog_cacheof eqd zero) DFLT CB now0 todo sched ->
    cache_linearizableT eqd zero (mk now0 DFLT CB [])
      (cshistT eqd hash idx tophash nslots seeds grow_needed shrink_policy nstripes minlen grow_only len0
               (prog_cacheof eqd zero) DFLT CB now0 todo sched).
  Proof.
    intros Hr len0 now0 todo sched Hlen Htodo Hs.
    apply (sproductT_all eqd hash idx tophash nslots seeds grow_needed shrink_policy nstripes minlen grow_only
             len0 (prog_cacheof eqd zero) DFLT CB Hr Hlen (cache_linearizableT eqd zero (mk now0 DFLT CB []))); [|exact Hs].
    intros sched'. apply (cacheof_linearizable_ticking eqd zero DFLT CB now0 [] [] todo sched'); [|exact Htodo].
    apply start_empty_ticking.
  Qed.

End FinalST.

Print Assumptions cache_over_smachine_linearizable_ticking.
Print Assumptions cacheof_over_smachine_linearizable_ticking.
