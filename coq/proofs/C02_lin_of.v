(* C02_lin_of.v -- C02 for the generic twin: every run of the concurrent cache
   machine with the method texts of CacheOfModel.v (xsync_mapof.go) is
   linearizable w.r.t. the same specification [tspec] as the original, and every
   thread's trace is accepted by the same C05/C06 monitor.  Instances of
   C02_lin_gen.v with C02_methods_of.good_init_of (and, as a check of the generic
   development, with C02_methods.good_init: the statements of C02_lin.v again). *)
From CacheV Require Import Base SpecMap Client CacheModel CacheOfModel Ops SpecTTL Lin Conc.
From CacheV.gen Require Import Params.
From CacheV.proofs Require Import C01_sim C01_ops C02_good C02_methods C02_methods_of C02_lin C02_lin_gen.

Section LinOf.
  Context {K V : Type}.
  Variable eqd : forall a b : K, {a = b} + {a <> b}.
  Variable zero : V.
  Variables NOW DFLT : Z.
  Variable CB : cbid.

  Notation item := (item V).
  Notation cop := (cop K V).
  Notation mk := (mk NOW DFLT CB).
  Notation Rm := (Rm eqd NOW DFLT CB).

  Theorem cacheof_linearizable (P0 L0 : amap K item) (todo : nat -> list cop) sched :
    Rm P0 L0 -> (forall t, Forall conc_ok (todo t)) ->
    linearizable _ _ _ (tspec eqd zero) (mk L0)
      (history (snd (crun eqd (prog_cacheof eqd zero) NOW DFLT CB (cinit P0 todo) sched))).
  Proof.
    apply (gen_linearizable eqd zero NOW DFLT CB (prog_cacheof eqd zero) (good_init_of eqd zero NOW DFLT CB)).
  Qed.

  (* C06 / C05 along every run of the twin: no thread's trace ever violates the monitor *)
  Theorem cacheof_monitored (P0 L0 : amap K item) (todo : nat -> list cop) sched t :
    Rm P0 L0 -> (forall t, Forall conc_ok (todo t)) ->
    mon_accepts CB t mon_idle (snd (crun eqd (prog_cacheof eqd zero) NOW DFLT CB (cinit P0 todo) sched)).
  Proof.
    apply (gen_monitored eqd zero NOW DFLT CB (prog_cacheof eqd zero) (good_init_of eqd zero NOW DFLT CB)).
  Qed.

  (* the generic development gives back C02_lin.v's statements for the original text *)
  Theorem cache_linearizable_again (P0 L0 : amap K item) (todo : nat -> list cop) sched :
    Rm P0 L0 -> (forall t, Forall conc_ok (todo t)) ->
    linearizable _ _ _ (tspec eqd zero) (mk L0)
      (history (snd (crun eqd (prog_cache eqd zero) NOW DFLT CB (cinit P0 todo) sched))).
  Proof.
    apply (gen_linearizable eqd zero NOW DFLT CB (prog_cache eqd zero) (good_init eqd zero NOW DFLT CB)).
  Qed.

  Theorem cache_monitored_again (P0 L0 : amap K item) (todo : nat -> list cop) sched t :
    Rm P0 L0 -> (forall t, Forall conc_ok (todo t)) ->
    mon_accepts CB t mon_idle (snd (crun eqd (prog_cache eqd zero) NOW DFLT CB (cinit P0 todo) sched)).
  Proof.
    apply (gen_monitored eqd zero NOW DFLT CB (prog_cache eqd zero) (good_init eqd zero NOW DFLT CB)).
  Qed.

End LinOf.

(* ---------------- a run of the twin on Conc.v's machine ---------------- *)
(* The one place where the two texts report something different to the method body: GetAndSet on an EXPIRED entry
   (the original's closure has assigned `old`, the twin's has not).  The clock stands at 100, the map holds
   7 -> (1, expires at 50).  Thread 0 does GetAndSet(7, 2, forever), thread 1 does Get(7) around it.
   Both texts produce the same history: the GetAndSet answers (2, false) -- the expired 1 is not reported --,
   the Get that loaded the expired entry before the store re-checks under the lock and answers (2, true). *)
Local Open Scope nat_scope.
Definition twin_ex_run (progs : cop Z Z -> prog Z Z (cres Z Z)) :=
  history (snd (crun Z.eq_dec progs 100%Z 0%Z None
                     (cinit [(7%Z, {| iv := 1%Z; ie := 50%Z |})]
                            (fun t => match t with 0 => [OGetAndSet 7%Z 2%Z (-1)%Z] | 1 => [OGet 7%Z] | _ => [] end))
                     (map (fun t => (t, [])) [1; 1; 1; 0; 0; 0; 1; 1; 1]))).

Example twin_run_same :
  twin_ex_run (prog_cacheof Z.eq_dec 0%Z)
  = [HInv 1 (OGet 7%Z); HInv 0 (OGetAndSet 7%Z 2%Z (-1)%Z); HRes 0 (CVal 2%Z false); HRes 1 (CVal 2%Z true)]
  /\ twin_ex_run (prog_cache Z.eq_dec 0%Z) = twin_ex_run (prog_cacheof Z.eq_dec 0%Z).
Proof. split; vm_compute; reflexivity. Qed.
