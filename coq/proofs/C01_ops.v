(* C01_ops.v -- one simulation lemma per method of the string/interface{} twin. *)
From CacheV Require Import Base SpecMap Client CacheModel Ops SpecTTL.
From CacheV.gen Require Import Params.
From CacheV.proofs Require Import C01_sim C07_range.

Section OpsSim.
  Context {K V : Type}.
  Variable eqd : forall a b : K, {a = b} + {a <> b}.
  Variable zero : V.
  Notation R := (R eqd).
  Notation step := (step_cache eqd zero).
  Notation ok := (spec_ok eqd zero).
  Notation next := (spec_next eqd zero).

  Definition sim (o : cop K V) : Prop :=
    forall m s, R m s ->
      let '(m', r, evs) := step m o in ok s o r /\ R m' (next s o).

  Ltac start HR :=
    intros m s HR; unfold step_cache, step_with, prog_cache;
    cbn [run_seq to_mop map_step spec_ok spec_next].

  (* ---------- run_seq and bind ---------- *)

  Lemma run_seq_bind {A B} (p : prog K V A) (f : A -> prog K V B) m :
    run_seq eqd (CacheModel.bind p f) m =
    let '(m1, a, e1) := run_seq eqd p m in
    let '(m2, b, e2) := run_seq eqd (f a) m1 in (m2, b, e1 ++ e2).
  Proof.
    revert m. induction p as [r|o k IH|k IH|k IH|d k IH|k IH|c k IH|e k IH]; intros m; cbn [CacheModel.bind run_seq].
    - destruct (run_seq eqd (f r) m) as [[m2 b] e2]. reflexivity.
    - destruct (map_step eqd (st_map m) (to_mop (st_env m) o)) as [m' r].
      change ((fix go (p : prog K V A) : prog K V B := _) (k r)) with (CacheModel.bind (k r) f).
      rewrite IH. destruct (run_seq eqd (k r) (with_map m m')) as [[m1 a] e1].
      destruct (run_seq eqd (f a) m1) as [[m2 b] e2]. rewrite app_assoc. reflexivity.
    - change ((fix go (p : prog K V A) : prog K V B := _) (k (st_now m))) with (CacheModel.bind (k (st_now m)) f).
      apply IH.
    - change ((fix go (p : prog K V A) : prog K V B := _) (k (st_dflt m))) with (CacheModel.bind (k (st_dflt m)) f).
      apply IH.
    - change ((fix go (p : prog K V A) : prog K V B := _) k) with (CacheModel.bind k f). apply IH.
    - change ((fix go (p : prog K V A) : prog K V B := _) (k (st_cb m))) with (CacheModel.bind (k (st_cb m)) f).
      apply IH.
    - change ((fix go (p : prog K V A) : prog K V B := _) k) with (CacheModel.bind k f). apply IH.
    - change ((fix go (p : prog K V A) : prog K V B := _) k) with (CacheModel.bind k f). rewrite IH.
      destruct (run_seq eqd k m) as [[m1 a] e1]. destruct (run_seq eqd (f a) m1) as [[m2 b] e2]. reflexivity.
  Qed.


  (* ---------- Set / SetDefault / SetForever ---------- *)

  Lemma run_Set (m s : cstate K V) k v d : R m s ->
    let '(m', r, evs) := run_seq eqd (Set_ k v d) m in
    r = CUnit /\ R m' (set_L s (insert eqd k (arm s v d) (st_map s))).
  Proof.
    intros HR. unfold Set_, expiration_prog, arm, spec_expiration.
    rewrite <- (R_now eqd _ _ HR), <- (R_dflt eqd _ _ HR).
    destruct (d =? DefaultExpiration); cbn [run_seq].
    - destruct (0 <? st_dflt m); cbn [run_seq to_mop map_step]; (split; [reflexivity|]);
        (apply R_upd; [exact HR | nodup eqd HR | nodup eqd HR |]); pointwise eqd HR k; reflexivity.
    - destruct (0 <? d); cbn [run_seq to_mop map_step]; (split; [reflexivity|]);
        (apply R_upd; [exact HR | nodup eqd HR | nodup eqd HR |]); pointwise eqd HR k; reflexivity.
  Qed.

  Lemma sim_Set k v d : sim (OSet k v d).
  Proof. intros m s HR. unfold step_cache, step_with, prog_cache. apply run_Set; auto. Qed.

  Lemma sim_SetDefault k v : sim (OSetDefault k v).
  Proof. intros m s HR. unfold step_cache, step_with, prog_cache, SetDefault. apply run_Set; auto. Qed.

  Lemma sim_SetForever k v : sim (OSetForever k v).
  Proof. intros m s HR. unfold step_cache, step_with, prog_cache, SetForever. apply run_Set; auto. Qed.

  (* ---------- get ---------- *)

  Lemma run_get (m s : cstate K V) k : R m s ->
    let '(m', r, evs) := run_seq eqd (get zero k) m in
    r = vw eqd s k /\ R m' s /\ st_now m' = st_now m.
  Proof.
    intros HR. unfold get. cbn [run_seq to_mop map_step].
    rewrite (R_view eqd m s k HR).
    pose proof (R_pt eqd _ _ HR k) as Hk.
    destruct (lookup eqd k (st_map m)) as [i|] eqn:HP; cbn [run_seq with_map st_now].
    2:{ split; [reflexivity|]. split; [apply R_with_map_id; auto | reflexivity]. }
    destruct (expiredWithNow (st_now m) i) eqn:He; cbn [negb run_seq].
    2:{ split; [reflexivity|]. split; [apply R_with_map_id; auto | reflexivity]. }
    cbn [to_mop map_step with_map st_map st_env]. rewrite HP.
    unfold get_closure, expired, st_env, with_map. cbn [e_now st_now]. rewrite He. cbn.
    split; [reflexivity|]. split; [|reflexivity].
    apply (R_updP eqd (with_map m (st_map m)) s); [apply R_with_map_id; auto | cbn; nodup eqd HR |].
    cbn. pointwise eqd HR k. cbn. cbn in Hk. rewrite Hk. rewrite <- (R_now eqd _ _ HR). exact He.
  Qed.

  Lemma sim_Get k : sim (OGet k).
  Proof.
    start HR. unfold Get. rewrite run_seq_bind.
    pose proof (run_get m s k HR) as H. destruct (run_seq eqd (get zero k) m) as [[m1 a] e1].
    destruct H as [-> [HR1 _]]. destruct (vw eqd s k); cbn; auto.
  Qed.

  Lemma sim_GetWithExpiration k : sim (OGetWithExpiration k).
  Proof.
    start HR. unfold GetWithExpiration. rewrite run_seq_bind.
    pose proof (run_get m s k HR) as H. destruct (run_seq eqd (get zero k) m) as [[m1 a] e1].
    destruct H as [-> [HR1 _]]. destruct (vw eqd s k) as [i|]; cbn; auto.
    destruct (0 <? ie i); cbn; auto.
  Qed.

  Lemma sim_GetWithTTL k : sim (OGetWithTTL k).
  Proof.
    start HR. unfold GetWithTTL. rewrite run_seq_bind.
    pose proof (run_get m s k HR) as H. destruct (run_seq eqd (get zero k) m) as [[m1 a] e1].
    destruct H as [-> [HR1 Hn]]. destruct (vw eqd s k) as [i|]; cbn; auto.
    destruct (0 <? ie i); cbn; auto. rewrite Hn, (R_now eqd _ _ HR). auto.
  Qed.


  (* ---------- the read-modify-write methods: one Compute each ---------- *)

  Ltac rmw HR m s k :=
    rewrite (R_view eqd m s k HR); unfold expired, st_env; cbn [e_now e_dflt];
    let Hk := fresh "Hk" in pose proof (R_pt eqd _ _ HR k) as Hk;
    let i := fresh "i" in let HP := fresh "HP" in let He := fresh "He" in
    destruct (lookup eqd k (st_map m)) as [i|] eqn:HP;
    [destruct (expiredWithNow (st_now m) i) eqn:He|]; cbn.

  Ltac both HR k :=
    apply R_upd; [exact HR | nodup eqd HR | nodup eqd HR | pointwise eqd HR k].
  Ltac onlyP HR k :=
    apply R_updP; [exact HR | nodup eqd HR | pointwise eqd HR k].

  Lemma sim_GetOrSet k v d : sim (OGetOrSet k v d).
  Proof.
    start HR. unfold GetOrSet. cbn [run_seq to_mop map_step]. rmw HR m s k.
    - split; [reflexivity|]. both HR k. cbn. unfold arm. rewrite (expiration_eq eqd m s d HR). reflexivity.
    - split; [reflexivity|]. onlyP HR k. cbn. cbn in Hk. auto.
    - split; [reflexivity|]. both HR k. cbn. unfold arm. rewrite (expiration_eq eqd m s d HR). reflexivity.
  Qed.

  Lemma sim_GetOrCompute k v d : sim (OGetOrCompute k v d).
  Proof.
    start HR. unfold GetOrCompute. cbn [run_seq to_mop map_step]. rmw HR m s k.
    - split; [reflexivity|]. both HR k. cbn. unfold arm. rewrite (expiration_eq eqd m s d HR). reflexivity.
    - split; [reflexivity|]. onlyP HR k. cbn. cbn in Hk. auto.
    - split; [reflexivity|]. both HR k. cbn. unfold arm. rewrite (expiration_eq eqd m s d HR). reflexivity.
  Qed.

  Lemma sim_GetAndSet k v d : sim (OGetAndSet k v d).
  Proof.
    start HR. unfold GetAndSet. cbn [run_seq to_mop map_step]. rmw HR m s k.
    - split; [reflexivity|]. both HR k. cbn. unfold arm. rewrite (expiration_eq eqd m s d HR). reflexivity.
    - split; [reflexivity|]. both HR k. cbn. unfold arm. rewrite (expiration_eq eqd m s d HR). reflexivity.
    - split; [reflexivity|]. both HR k. cbn. unfold arm. rewrite (expiration_eq eqd m s d HR). reflexivity.
  Qed.

  Lemma sim_GetAndRefresh k d : sim (OGetAndRefresh k d).
  Proof.
    start HR. unfold GetAndRefresh. cbn [run_seq to_mop map_step]. rmw HR m s k.
    - (* expired, uncleaned: lazily deleted; the specification state keeps it *)
      split; [reflexivity|]. onlyP HR k. cbn. cbn in Hk. rewrite Hk.
      rewrite <- (R_now eqd _ _ HR). exact He.
    - split; [reflexivity|]. both HR k. cbn. unfold arm. rewrite (expiration_eq eqd m s d HR). reflexivity.
    - split; [reflexivity|]. apply R_with_map_id; auto.
  Qed.

  Lemma sim_Compute k fn d : sim (OCompute k fn d).
  Proof.
    start HR. unfold Compute. cbn [run_seq to_mop map_step]. rmw HR m s k.
    - (* expired, uncleaned: the function sees (zero, false) *)
      destruct (fn zero false) as [v del] eqn:Hf. destruct del; cbn.
      + split; [reflexivity|]. both HR k. cbn. auto.
      + split; [reflexivity|]. both HR k. cbn. unfold arm. rewrite (expiration_eq eqd m s d HR). reflexivity.
    - destruct (fn (iv i) true) as [v del] eqn:Hf. destruct del; cbn.
      + split; [reflexivity|]. both HR k. cbn. auto.
      + split; [reflexivity|]. both HR k. cbn. unfold arm. rewrite (expiration_eq eqd m s d HR). reflexivity.
    - destruct (fn zero false) as [v del] eqn:Hf. destruct del; cbn.
      + split; [reflexivity|]. apply R_upd; [exact HR | nodup eqd HR | nodup eqd HR |].
        intros k0. rewrite lookup_remove. destruct (eqd k0 k); [subst k0|exact (R_pt eqd _ _ HR k0)].
        rewrite HP. exact I.
      + split; [reflexivity|]. both HR k. cbn. unfold arm. rewrite (expiration_eq eqd m s d HR). reflexivity.
  Qed.


  (* ---------- GetAndDelete / Delete ---------- *)

  Lemma run_GetAndDelete (m s : cstate K V) k : R m s ->
    let '(m', r, evs) := run_seq eqd (GetAndDelete zero k) m in
    ok s (OGetAndDelete k) r /\ R m' (set_L s (remove eqd k (st_map s))).
  Proof.
    intros HR. unfold GetAndDelete. cbn [run_seq to_mop map_step spec_ok].
    rewrite (R_view eqd m s k HR).
    destruct (lookup eqd k (st_map m)) as [i|] eqn:HP; cbn [run_seq with_map st_now st_cb].
    - destruct (st_cb m) as [c|]; unfold fire; destruct (expiredWithNow (st_now m) i); cbn;
        (split; [reflexivity|]); both HR k; cbn; auto.
    - cbn. split; [reflexivity|]. apply R_upd; [exact HR | nodup eqd HR | nodup eqd HR |].
      intros k0. rewrite lookup_remove. destruct (eqd k0 k); [subst k0|exact (R_pt eqd _ _ HR k0)].
      rewrite HP. exact I.
  Qed.

  Lemma sim_GetAndDelete k : sim (OGetAndDelete k).
  Proof. intros m s HR. unfold step_cache, step_with, prog_cache. apply run_GetAndDelete; auto. Qed.

  Lemma sim_Delete k : sim (ODelete k).
  Proof.
    start HR. unfold Delete. rewrite run_seq_bind.
    pose proof (run_GetAndDelete m s k HR) as H.
    destruct (run_seq eqd (GetAndDelete zero k) m) as [[m1 a] e1]. destruct H as [_ HR1]. cbn. auto.
  Qed.

  (* ---------- the rest of the simple ones ---------- *)

  Lemma sim_Clear : sim OClear.
  Proof.
    start HR. unfold Clear. cbn. split; [reflexivity|].
    apply R_upd; [exact HR | constructor | constructor | intros k0; exact I].
  Qed.

  Lemma sim_GetDflt : sim OGetDflt.
  Proof. start HR. cbn. rewrite (R_dflt eqd _ _ HR). auto. Qed.

  Lemma sim_GetCb : sim OGetCb.
  Proof. start HR. cbn. rewrite (R_cb eqd _ _ HR). auto. Qed.

  Lemma sim_SetDflt d : sim (OSetDflt d).
  Proof. start HR. cbn. split; [reflexivity|]. destruct HR; constructor; cbn; auto. Qed.

  Lemma sim_SetCb c : sim (OSetCb c).
  Proof. start HR. cbn. split; [reflexivity|]. destruct HR; constructor; cbn; auto. Qed.


  (* ---------- Count ---------- *)

  Lemma sim_Count : sim OCount.
  Proof.
    start HR. unfold Count. cbn. split; [|apply R_with_map_id; auto].
    exists (length (st_map m)). split; [reflexivity|]. split.
    - rewrite <- (map_length fst (st_map m)). apply NoDup_incl_length.
      + unfold live_keys. apply NoDup_filter. exact (R_ndL eqd _ _ HR).
      + intros k Hin. unfold live_keys in Hin. apply filter_In in Hin. destruct Hin as [_ Hv].
        rewrite (R_view eqd m s k HR) in Hv.
        destruct (lookup eqd k (st_map m)) as [i|] eqn:HP; [|discriminate].
        eapply lookup_in_keys; eauto.
    - rewrite <- (map_length fst (st_map m)), <- (map_length fst (st_map s)).
      apply NoDup_incl_length; [exact (R_ndP eqd _ _ HR)|].
      intros k Hin. apply (in_keys_lookup eqd) in Hin. destruct Hin as [i HP].
      pose proof (R_pt eqd _ _ HR k) as Hk. rewrite HP in Hk. cbn in Hk.
      eapply lookup_in_keys; eauto.
  Qed.

  (* ---------- DeleteExpired: removes only what the view already hides ---------- *)

  Lemma run_fire_all {A} c l (p : prog K V A) m :
    run_seq eqd (fire_all c l p) m =
    let '(m', r, evs) := run_seq eqd p m in (m', r, map (fun '(k, v) => EFire c k v) l ++ evs).
  Proof.
    induction l as [|[k v] t IH]; cbn [fire_all run_seq map app].
    - destruct (run_seq eqd p m) as [[m' r] evs]. reflexivity.
    - rewrite IH. destruct (run_seq eqd p m) as [[m' r] evs]. reflexivity.
  Qed.

  Lemma run_delexp_loop ec now snap : forall ev (m s : cstate K V), R m s -> now = st_now m ->
    let '(m', r, evs) := run_seq eqd (delexp_loop zero ec now snap ev) m in
    r = CUnit /\ R m' s.
  Proof.
    induction snap as [|[k i0] t IH]; intros ev m s HR Hnow; cbn [delexp_loop].
    - destruct ec as [c|]; [rewrite run_fire_all|]; cbn; auto.
    - destruct (expiredWithNow now i0); [|apply IH; auto].
      cbn [run_seq to_mop map_step].
      pose proof (R_pt eqd _ _ HR k) as Hk.
      unfold delexp_closure.
      destruct (lookup eqd k (st_map m)) as [cur|] eqn:HP.
      + destruct (expiredWithNow now cur) eqn:He; cbn [a_ok a_old].
        * (* still expired: removed for real *)
          assert (HR' : R (with_map m (remove eqd k (st_map m))) s).
          { onlyP HR k. cbn. cbn in Hk. rewrite Hk. rewrite <- (R_now eqd _ _ HR), <- Hnow. exact He. }
          destruct ec as [c|].
          -- specialize (IH (ev ++ [(k, iv cur)]) _ _ HR' Hnow).
             destruct (run_seq eqd (delexp_loop zero (Some c) now t (ev ++ [(k, iv cur)])) _) as [[m' r] evs].
             cbn. exact IH.
          -- specialize (IH ev _ _ HR' Hnow).
             destruct (run_seq eqd (delexp_loop zero None now t ev) _) as [[m' r] evs].
             cbn. exact IH.
        * (* a fresh value: kept *)
          assert (HR' : R (with_map m (insert eqd k cur (st_map m))) s).
          { onlyP HR k. cbn. cbn in Hk. auto. }
          specialize (IH ev _ _ HR' Hnow). cbn [a_ok aux0].
          destruct (run_seq eqd (delexp_loop zero ec now t ev) _) as [[m' r] evs]. cbn. exact IH.
      + specialize (IH ev _ _ (R_with_map_id eqd _ _ HR) Hnow). cbn [a_ok aux0].
        destruct (run_seq eqd (delexp_loop zero ec now t ev) _) as [[m' r] evs]. cbn. exact IH.
  Qed.

  Lemma sim_DeleteExpired : sim ODeleteExpired.
  Proof.
    start HR. unfold DeleteExpired. cbn [run_seq to_mop map_step].
    pose proof (run_delexp_loop (st_cb m) (st_now m) (st_map m) [] _ _ (R_with_map_id eqd _ _ HR) eq_refl) as H.
    cbn [with_map st_cb st_now] in H.
    destruct (run_seq eqd (delexp_loop zero (st_cb m) (st_now m) (st_map m) []) _) as [[m' r] evs].
    cbn. exact H.
  Qed.


  (* ---------- Range / Items ---------- *)

  Lemma visits_range_ok (m s : cstate K V) f hint : R m s ->
    range_ok eqd s f (visits (st_now m) f (reorder eqd hint (st_map m))).
  Proof.
    intros HR.
    pose proof (reorder_perm eqd hint (st_map m)) as Hperm.
    set (l := reorder eqd hint (st_map m)) in *.
    assert (Hnd : NoDup (map fst l)).
    { eapply Permutation_NoDup; [apply Permutation_map; exact Hperm | exact (R_ndP eqd _ _ HR)]. }
    assert (Hin : forall k i, In (k, i) l <-> lookup eqd k (st_map m) = Some i).
    { intros k i. split.
      - intros H. apply In_lookup; [exact (R_ndP eqd _ _ HR)|].
        eapply Permutation_in; [apply Permutation_sym; exact Hperm | exact H].
      - intros H. eapply Permutation_in; [exact Hperm | apply lookup_In with (eqd := eqd); exact H]. }
    split; [apply visits_nodup; exact Hnd|].
    split.
    { intros k v Hv. apply visits_sound in Hv. destruct Hv as [i [Hi [He Hiv]]].
      exists i. split; [|exact Hiv]. rewrite (R_view eqd m s k HR).
      apply Hin in Hi. rewrite Hi, He. reflexivity. }
    split; [intros pre k v post; apply visits_go_on|].
    destruct (visits_end (st_now m) f l) as [H|[H1 H2]]; [left; exact H|].
    right. split; [exact H1|].
    intros k i Hv. rewrite (R_view eqd m s k HR) in Hv.
    destruct (lookup eqd k (st_map m)) as [i'|] eqn:HP; [|discriminate].
    destruct (expiredWithNow (st_now m) i') eqn:He; [discriminate|]. inversion Hv; subst i'.
    apply H2; [apply Hin; exact HP | exact He].
  Qed.

  Lemma sim_Range f hint : sim (ORange f hint).
  Proof.
    start HR. unfold Range. destruct f as [f|]; cbn [run_seq to_mop map_step].
    - rewrite run_range_loop. cbn [app]. split; [|apply R_with_map_id; auto].
      eexists. split; [reflexivity|]. apply visits_range_ok; auto.
    - cbn. auto.
  Qed.

  Lemma sim_Items hint : sim (OItems hint).
  Proof.
    start HR. unfold Items, Range. cbn [run_seq to_mop map_step].
    rewrite run_range_loop. cbn [app with_map st_map st_now].
    split; [|apply (R_with_map_id eqd (with_map m (st_map m)) s), R_with_map_id; auto].
    eexists. split; [reflexivity|]. apply visits_range_ok; auto.
  Qed.

  (* ---------- every call ---------- *)

  Theorem sim_step o : match o with OAdvance dt => 0 <= dt | _ => True end -> sim o.
  Proof.
    destruct o; intros Hadv.
    - apply sim_Set. - apply sim_SetDefault. - apply sim_SetForever.
    - apply sim_Get. - apply sim_GetWithExpiration. - apply sim_GetWithTTL.
    - apply sim_GetOrSet. - apply sim_GetAndSet. - apply sim_GetAndRefresh.
    - apply sim_GetOrCompute. - apply sim_Compute.
    - apply sim_GetAndDelete. - apply sim_Delete. - apply sim_DeleteExpired.
    - apply sim_Range. - apply sim_Items. - apply sim_Clear. - apply sim_Count.
    - apply sim_GetDflt. - apply sim_SetDflt. - apply sim_GetCb. - apply sim_SetCb.
    - intros m s HR. cbn. split; [reflexivity|]. apply R_advance; auto.
  Qed.

End OpsSim.
