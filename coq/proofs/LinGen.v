(* LinGen.v -- the machine-independent part of the linearizability proofs of the two concurrent
   map machines (XMachine / MapOf: X_linpoints.v, X_linearizable.v; XMachineS / Map: XS_linpoints.v,
   XS_linearizable.v): instrumented histories as lists, the per-thread protocol, the history
   organised by table generations and the two operations on it (insertion of one event into the
   body of a generation, publish of a new table), for ANY deterministic specification
   [LSpec] = (Op, Res, St, next, res, ok) that has an operation [clr] ("Clear") whose effect and
   answer do not depend on the state.
   This is X_linpoints.v's first half with xop / xres / spec_res / spec_next / XClear abstracted
   (same lemma names, same proofs); X_linpoints.v itself is left as it is. *)
From CacheV Require Import Base Lin.
Local Open Scope nat_scope.

Record LSpec := {
  Op : Type; Res : Type; St : Type;
  next : St -> Op -> St;          (* the state after an operation *)
  res : St -> Op -> Res;          (* its answer *)
  ok : Op -> Prop;                (* the operations of the specification *)
  clr : Op;                       (* Clear *)
  s0 : St;                        (* the initial state *)
  clr_next : forall m1 m2, next m1 clr = next m2 clr;
  clr_res : forall m1 m2, res m1 clr = res m2 clr;
}.

Section Gen.
  Variable L : LSpec.

  Notation xop := (Op L).
  Notation xres := (Res L).
  Notation iev := (Lin.iev xop xres).
  Notation hev := (Lin.hev xop xres).
  Notation tstat := (Lin.tstat xop xres).
  Notation amap := (St L).
  Notation aempty := (s0 L).
  Notation spec_next := (next L).
  Notation spec_res := (res L).
  Notation okop := (ok L).
  Notation XClear := (clr L).

  Definition xspec (m : amap) (o : xop) (r : xres) (m' : amap) : Prop :=
    okop o /\ r = spec_res m o /\ m' = spec_next m o.

  (* ---------------- instrumented histories as lists ---------------- *)

  Definition evt (e : iev) : nat := match e with IInv t _ | ILin t _ _ | IRes t _ => t end.
  Definition no_ev (t : nat) (l : list iev) : Prop := Forall (fun e => evt e <> t) l.

  Fixpoint lrun (m : amap) (l : list iev) : amap :=
    match l with
    | [] => m
    | ILin _ o _ :: r => lrun (spec_next m o) r
    | _ :: r => lrun m r
    end.

  Fixpoint lok (m : amap) (l : list iev) : Prop :=
    match l with
    | [] => True
    | ILin _ o r :: l' => okop o /\ r = spec_res m o /\ lok (spec_next m o) l'
    | _ :: l' => lok m l'
    end.

  Lemma lrun_app m a b : lrun m (a ++ b) = lrun (lrun m a) b.
  Proof. revert m. induction a as [|[] a IH]; intros m; cbn; auto. Qed.

  Lemma lok_app m a b : lok m (a ++ b) <-> lok m a /\ lok (lrun m a) b.
  Proof.
    revert m. induction a as [|[] a IH]; intros m; cbn [app lok lrun]; try apply IH; [tauto|].
    rewrite IH. tauto.
  Qed.

  Lemma lok_legal m l : lok m l -> legal xop xres amap xspec m l.
  Proof.
    revert m. induction l as [|[] l IH]; intros m H; cbn in H.
    - constructor.
    - apply legal_inv. auto.
    - destruct H as [A [B C]]. eapply legal_lin; [split; [exact A | split; [exact B | reflexivity]] | auto].
    - apply legal_res. auto.
  Qed.

  Lemma erase_app (a b : list iev) : erase xop xres (a ++ b) = erase xop xres a ++ erase xop xres b.
  Proof. induction a as [|[] a IH]; cbn; auto; f_equal; auto. Qed.

  Lemma no_ev_app t a b : no_ev t (a ++ b) <-> no_ev t a /\ no_ev t b.
  Proof. unfold no_ev. rewrite Forall_app. tauto. Qed.

  Lemma no_ev_cons t e l : no_ev t (e :: l) <-> evt e <> t /\ no_ev t l.
  Proof. unfold no_ev. split; [intros H; inversion H; auto | intros [A B]; constructor; auto]. Qed.

  Lemma no_ev_nil t : no_ev t [].
  Proof. constructor. Qed.

  (* a Clear mark makes what follows independent of what precedes *)
  Definition starts_clear (l : list iev) : Prop := exists c r l', l = ILin c XClear r :: l'.

  Lemma lrun_clear m1 m2 l : m1 = m2 \/ starts_clear l -> lrun m1 l = lrun m2 l.
  Proof. intros [->|[c [r [l' ->]]]]; [reflexivity|]. cbn [lrun]. rewrite (clr_next L m1 m2). reflexivity. Qed.

  Lemma lok_clear m1 m2 l : m1 = m2 \/ starts_clear l -> lok m1 l -> lok m2 l.
  Proof. intros [->|[c [r [l' ->]]]]; [auto|]. cbn [lok]. rewrite (clr_next L m1 m2), (clr_res L m1 m2). tauto. Qed.

  (* ---------------- the per-thread protocol ---------------- *)

  Inductive tproto (t : nat) : tstat -> list iev -> tstat -> Prop :=
  | tp_nil st : tproto t st [] st
  | tp_other st e l st' : evt e <> t -> tproto t st l st' -> tproto t st (e :: l) st'
  | tp_inv o l st' : tproto t (TInvoked o) l st' -> tproto t TIdle (IInv t o :: l) st'
  | tp_lin o r l st' : tproto t (TLinearized o r) l st' -> tproto t (TInvoked o) (ILin t o r :: l) st'
  | tp_res o r l st' : tproto t TIdle l st' -> tproto t (TLinearized o r) (IRes t r :: l) st'.

  Lemma tproto_app t a l1 b l2 c : tproto t a l1 b -> tproto t b l2 c -> tproto t a (l1 ++ l2) c.
  Proof.
    intros H1 H2. induction H1; cbn [app]; [exact H2 | apply tp_other; auto | apply tp_inv; auto | apply tp_lin; auto | eapply tp_res; auto].
  Qed.

  Lemma tproto_noev t st l : no_ev t l -> tproto t st l st.
  Proof. induction 1; [apply tp_nil | apply tp_other; auto]. Qed.

  Lemma tproto_noev_eq t a l b : tproto t a l b -> no_ev t l -> a = b.
  Proof.
    induction 1; intros Hn; auto; apply no_ev_cons in Hn; destruct Hn as [Hn1 Hn2]; auto; cbn in Hn1; congruence.
  Qed.

  Lemma tproto_split t a l1 l2 c : tproto t a (l1 ++ l2) c -> exists b, tproto t a l1 b /\ tproto t b l2 c.
  Proof.
    revert a. induction l1 as [|e l1 IH]; intros a H; cbn in H.
    - exists a. split; [constructor | exact H].
    - inversion H; subst;
        match goal with Ht : tproto t _ (l1 ++ l2) c |- _ => destruct (IH _ Ht) as [b [A B]] end; exists b; (split; [|exact B]);
        [apply tp_other; assumption | apply tp_inv; assumption | apply tp_lin; assumption | eapply tp_res; eassumption].
  Qed.

  (* one event of thread t moves its status *)
  Inductive tmove (t : nat) : tstat -> iev -> tstat -> Prop :=
  | tm_inv o : tmove t TIdle (IInv t o) (TInvoked o)
  | tm_lin o r : tmove t (TInvoked o) (ILin t o r) (TLinearized o r)
  | tm_res o r : tmove t (TLinearized o r) (IRes t r) TIdle.

  Lemma tmove_evt t a e b : tmove t a e b -> evt e = t.
  Proof. destruct 1; reflexivity. Qed.

  Lemma tproto_one t a e b : tmove t a e b -> tproto t a [e] b.
  Proof. destruct 1; constructor; constructor. Qed.

  (* inserting an event of thread t after which t has no events *)
  Lemma tproto_ins_own t pre post e st st' :
    tproto t TIdle (pre ++ post) st -> no_ev t post -> tmove t st e st' -> tproto t TIdle (pre ++ e :: post) st'.
  Proof.
    intros H Hn Hm. destruct (tproto_split t _ pre post _ H) as [b [A B]].
    pose proof (tproto_noev_eq t _ _ _ B Hn) as ->.
    eapply tproto_app; [exact A|]. change (e :: post) with ([e] ++ post).
    eapply tproto_app; [apply tproto_one; exact Hm | apply tproto_noev; exact Hn].
  Qed.

  (* inserting an event of another thread *)
  Lemma tproto_ins_other t pre post e st :
    evt e <> t -> tproto t TIdle (pre ++ post) st -> tproto t TIdle (pre ++ e :: post) st.
  Proof.
    intros Hne H. destruct (tproto_split t _ pre post _ H) as [b [A B]].
    eapply tproto_app; [exact A|]. apply tp_other; assumption.
  Qed.

  Lemma tproto_wf (l : list iev) : forall st : nat -> tstat,
    (forall t, exists st', tproto t (st t) l st') -> wf_inst xop xres st l.
  Proof.
    induction l as [|e l IH]; intros st H; [constructor|].
    assert (Hoth : forall st0 t, t <> evt e -> (exists st', tproto t (Lin.upd st (evt e) st0 t) l st')).
    { intros st0 t Hne. destruct (H t) as [st' Ht]. exists st'. unfold Lin.upd. destruct (Nat.eq_dec t (evt e)); [contradiction|].
      inversion Ht; subst; auto; cbn in Hne; congruence. }
    destruct (H (evt e)) as [st' He].
    destruct e as [t o|t o r|t r]; cbn [evt] in *; inversion He; subst;
      try (match goal with Hx : evt _ <> _ |- _ => exfalso; apply Hx; reflexivity end).
    - apply wf_inv; [auto|]. apply IH. intros t'. destruct (Nat.eq_dec t' t) as [->|Hne]; [|apply Hoth; exact Hne].
      exists st'. unfold Lin.upd. destruct (Nat.eq_dec t t); [assumption|congruence].
    - apply wf_lin; [auto|]. apply IH. intros t'. destruct (Nat.eq_dec t' t) as [->|Hne]; [|apply Hoth; exact Hne].
      exists st'. unfold Lin.upd. destruct (Nat.eq_dec t t); [assumption|congruence].
    - eapply wf_res; [eauto|]. apply IH. intros t'. destruct (Nat.eq_dec t' t) as [->|Hne]; [|apply Hoth; exact Hne].
      exists st'. unfold Lin.upd. destruct (Nat.eq_dec t t); [assumption|congruence].
  Qed.

  (* ---------------- the history by table generations ---------------- *)

  Record ghost := { gb : nat -> list iev; gc : nat -> list iev; gst : nat -> tstat }.

  Definition gseg (G : ghost) (j : nat) : list iev := gb G j ++ gc G j.
  Definition gflat (G : ghost) (a n : nat) : list iev := flat_map (gseg G) (seq a n).
  Definition gI (G : ghost) (cur : nat) : list iev := gflat G 0 (S cur).
  (* the abstract map at the start of generation j, and at the end of its body *)
  Definition gSS (G : ghost) (j : nat) : amap := lrun aempty (gflat G 0 j).
  Definition gSE (G : ghost) (j : nat) : amap := lrun (gSS G j) (gb G j).

  Lemma gflat_app G a n m : gflat G a (n + m) = gflat G a n ++ gflat G (a + n) m.
  Proof. unfold gflat. rewrite seq_app, flat_map_app. reflexivity. Qed.

  Lemma gflat_one G a : gflat G a 1 = gseg G a.
  Proof. unfold gflat. cbn. apply app_nil_r. Qed.

  Lemma gflat_S G a n : gflat G a (S n) = gflat G a n ++ gseg G (a + n).
  Proof. replace (S n) with (n + 1) by lia. rewrite gflat_app, gflat_one. reflexivity. Qed.

  Lemma gflat_ext G G' a n : (forall j, a <= j < a + n -> gseg G j = gseg G' j) -> gflat G a n = gflat G' a n.
  Proof.
    revert a. induction n as [|n IH]; intros a H; [reflexivity|]. unfold gflat in *. cbn [seq flat_map].
    rewrite (H a) by lia. f_equal. apply IH. intros j Hj. apply H. lia.
  Qed.

  Lemma gI_split G cur j : j <= cur ->
    gI G cur = gflat G 0 j ++ gb G j ++ gc G j ++ gflat G (S j) (cur - j).
  Proof.
    intros Hj. unfold gI. replace (S cur) with (j + (1 + (cur - j))) by lia.
    rewrite gflat_app, gflat_app, gflat_one. cbn [Nat.add]. unfold gseg. rewrite <- app_assoc.
    replace (j + 1) with (S j) by lia. reflexivity.
  Qed.

  Lemma no_ev_gflat t G a n : no_ev t (gflat G a n) <-> forall j, a <= j < a + n -> no_ev t (gseg G j).
  Proof.
    revert a. induction n as [|n IH]; intros a.
    - split; [intros _ j Hj; lia | intros _; constructor].
    - unfold gflat in *. cbn [seq flat_map]. rewrite no_ev_app, IH. split.
      + intros [A B] j Hj. destruct (Nat.eq_dec j a) as [->|]; [exact A | apply B; lia].
      + intros H. split; [apply H; lia | intros j Hj; apply H; lia].
  Qed.

  Lemma gSS_S G j : gSS G (S j) = lrun (gSE G j) (gc G j).
  Proof.
    unfold gSS, gSE. replace (S j) with (j + 1) by lia. rewrite gflat_app, gflat_one. cbn [Nat.add].
    unfold gseg. rewrite !lrun_app. reflexivity.
  Qed.

  Lemma gSS_ext G G' j : (forall i, i < j -> gseg G i = gseg G' i) -> gSS G j = gSS G' j.
  Proof. intros H. unfold gSS. rewrite (gflat_ext G G' 0 j); [reflexivity|]. intros i Hi. apply H. lia. Qed.

  (* ---------------- a call that can still be given its linearization point ---------------- *)

  (* thread t's pending call o can be marked, answering r, at a point of the history after which t
     has no events and at which the specification answers r without changing the map *)
  Definition can_ret (G : ghost) (cur t : nat) (o : xop) (r : xres) : Prop :=
    exists j b1 b2, j <= cur /\ gb G j = b1 ++ b2 /\ no_ev t b2 /\ no_ev t (gc G j)
      /\ (forall j', j < j' <= cur -> no_ev t (gseg G j'))
      /\ okop o /\ r = spec_res (lrun (gSS G j) b1) o /\ spec_next (lrun (gSS G j) b1) o = lrun (gSS G j) b1.

  (* at the end of the body of generation j *)
  Lemma can_ret_end G cur t o j : j <= cur -> no_ev t (gc G j) -> (forall j', j < j' <= cur -> no_ev t (gseg G j')) ->
    okop o -> spec_next (gSE G j) o = gSE G j -> can_ret G cur t o (spec_res (gSE G j) o).
  Proof.
    intros Hj H1 H2 Ho Hs. exists j, (gb G j), []. rewrite app_nil_r. repeat split; auto. constructor.
  Qed.

  (* ---------------- the two operations on the history ---------------- *)

  Definition g_ins (G : ghost) (j : nat) (b1 : list iev) (e : iev) (b2 : list iev) : ghost :=
    {| gb := fun i => if Nat.eq_dec i j then b1 ++ e :: b2 else gb G i; gc := gc G; gst := gst G |}.

  Definition g_pub (G : ghost) (j : nat) (cl : list iev) : ghost :=
    {| gb := gb G; gc := fun i => if Nat.eq_dec i j then cl else gc G i; gst := gst G |}.

  Definition g_setst (G : ghost) (t : nat) (st : tstat) : ghost :=
    {| gb := gb G; gc := gc G; gst := fun t' => if Nat.eq_dec t' t then st else gst G t' |}.

  (* what an extension of the history by events of thread u (and by a publish) keeps for the other threads *)
  Record gext (u cur : nat) (G : ghost) (cur' : nat) (G' : ghost) : Prop := {
    ge_cur : cur <= cur';
    ge_ret : forall t o r, t <> u -> can_ret G cur t o r -> can_ret G' cur' t o r;
    ge_pos : forall t j, t <> u -> j <= cur -> no_ev t (gc G j) -> (forall j', j < j' <= cur -> no_ev t (gseg G j')) ->
                no_ev t (gc G' j) /\ forall j', j < j' <= cur' -> no_ev t (gseg G' j');
    ge_tp : forall t st, t <> u -> tproto t TIdle (gI G cur) st -> tproto t TIdle (gI G' cur') st;
    ge_st : forall t, t <> u -> gst G' t = gst G t;
  }.

  Lemma gext_refl u cur G : gext u cur G cur G.
  Proof. constructor; auto. Qed.

  Lemma gext_trans u c1 G1 c2 G2 c3 G3 : gext u c1 G1 c2 G2 -> gext u c2 G2 c3 G3 -> gext u c1 G1 c3 G3.
  Proof.
    intros A B. constructor.
    - pose proof (ge_cur _ _ _ _ _ A). pose proof (ge_cur _ _ _ _ _ B). lia.
    - intros t o r Hne H. apply (ge_ret _ _ _ _ _ B t o r Hne). apply (ge_ret _ _ _ _ _ A t o r Hne H).
    - intros t j Hne Hj H1 H2. destruct (ge_pos _ _ _ _ _ A t j Hne Hj H1 H2) as [X Y].
      apply (ge_pos _ _ _ _ _ B t j Hne); [pose proof (ge_cur _ _ _ _ _ A); lia | exact X | exact Y].
    - intros t st Hne H. apply (ge_tp _ _ _ _ _ B t st Hne). apply (ge_tp _ _ _ _ _ A t st Hne H).
    - intros t Hne. rewrite (ge_st _ _ _ _ _ B t Hne). apply (ge_st _ _ _ _ _ A t Hne).
  Qed.

  Lemma gext_setst u cur G st : gext u cur G cur (g_setst G u st).
  Proof.
    constructor; auto. intros t Hne. cbn [g_setst gst]. destruct (Nat.eq_dec t u); [contradiction|reflexivity].
  Qed.

  (* ---- insertion of one event into the body of generation j ---- *)

  Section Ins.
    Variables (G : ghost) (cur j : nat) (b1 b2 : list iev) (e : iev).
    Hypothesis Hj : j <= cur.
    Hypothesis Hb : gb G j = b1 ++ b2.

    Local Notation G' := (g_ins G j b1 e b2).
    Local Notation pre := (gflat G 0 j ++ b1).
    Local Notation post := (b2 ++ gc G j ++ gflat G (S j) (cur - j)).

    Lemma ins_seg i : i <> j -> gseg G' i = gseg G i.
    Proof. intros H. unfold gseg, g_ins. cbn. destruct (Nat.eq_dec i j); [contradiction|reflexivity]. Qed.

    Lemma ins_seg_j : gseg G' j = b1 ++ e :: b2 ++ gc G j.
    Proof. unfold gseg, g_ins. cbn. destruct (Nat.eq_dec j j); [|congruence]. rewrite <- app_assoc. reflexivity. Qed.

    Lemma ins_I_old : gI G cur = pre ++ post.
    Proof. rewrite (gI_split G cur j Hj), Hb, <- !app_assoc. reflexivity. Qed.

    Lemma ins_I_new : gI G' cur = pre ++ e :: post.
    Proof.
      rewrite (gI_split G' cur j Hj).
      rewrite (gflat_ext G' G 0 j) by (intros i Hi; apply ins_seg; lia).
      rewrite (gflat_ext G' G (S j) (cur - j)) by (intros i Hi; apply ins_seg; lia).
      unfold g_ins. cbn [gb gc]. destruct (Nat.eq_dec j j); [|congruence].
      rewrite <- !app_assoc. reflexivity.
    Qed.

    Lemma ins_pre_state : lrun aempty pre = lrun (gSS G j) b1.
    Proof. unfold gSS. apply lrun_app. Qed.

    Lemma ins_SS_le i : i <= j -> gSS G' i = gSS G i.
    Proof. intros Hi. apply gSS_ext. intros i0 Hi0. apply ins_seg. lia. Qed.

    Section Stable.
    (* the insertion does not change the abstract map at any later point of the history *)
    Hypothesis Hstable :
      lrun (lrun (gSS G j) b1) [e] = lrun (gSS G j) b1
      \/ (b2 = [] /\ ((j = cur /\ gc G j = []) \/ starts_clear (gc G j))).

    (* the state after the inserted event and the rest of generation j's segment *)
    Lemma ins_after : lrun (lrun (gSS G j) (b1 ++ [e])) (b2 ++ gc G j) = lrun (lrun (gSS G j) b1) (b2 ++ gc G j) \/ j = cur.
    Proof.
      destruct Hstable as [Hn|[-> [[-> _]|Hc]]]; [left | right; reflexivity | left].
      - rewrite (lrun_app (gSS G j) b1 [e]), Hn. reflexivity.
      - cbn [app]. apply lrun_clear. right. exact Hc.
    Qed.

    Lemma ins_SS_gt i : j < i <= cur -> gSS G' i = gSS G i.
    Proof.
      intros Hi. destruct ins_after as [Ha|Ha]; [|lia].
      unfold gSS. replace i with (j + (1 + (i - S j))) by lia. rewrite !gflat_app, !gflat_one. cbn [Nat.add].
      rewrite (gflat_ext G' G 0 j) by (intros i0 Hi0; apply ins_seg; lia).
      rewrite (gflat_ext G' G (j + 1) (i - S j)) by (intros i0 Hi0; apply ins_seg; lia).
      rewrite ins_seg_j. unfold gseg. rewrite Hb. rewrite !lrun_app. fold (gSS G j).
      f_equal. change (e :: b2 ++ gc G j) with ([e] ++ (b2 ++ gc G j)).
      rewrite lrun_app. rewrite <- (lrun_app (gSS G j) b1 [e]). rewrite Ha. rewrite lrun_app. reflexivity.
    Qed.

    Lemma ins_SS i : i <= cur -> gSS G' i = gSS G i.
    Proof. intros Hi. destruct (Nat.le_gt_cases i j); [apply ins_SS_le; assumption | apply ins_SS_gt; lia]. Qed.

    Lemma ins_SE_other i : i <= cur -> i <> j -> gSE G' i = gSE G i.
    Proof.
      intros Hi Hne. unfold gSE. rewrite (ins_SS i Hi). unfold g_ins. cbn [gb]. destruct (Nat.eq_dec i j); [contradiction|reflexivity].
    Qed.

    Lemma ins_SE_j : gSE G' j = lrun (gSS G j) (b1 ++ e :: b2).
    Proof. unfold gSE. rewrite (ins_SS j Hj). unfold g_ins. cbn [gb]. destruct (Nat.eq_dec j j); [reflexivity|congruence]. Qed.

    Lemma ins_SE_noop : lrun (lrun (gSS G j) b1) [e] = lrun (gSS G j) b1 -> gSE G' j = gSE G j.
    Proof.
      intros Hn. rewrite ins_SE_j. unfold gSE. rewrite Hb. change (e :: b2) with ([e] ++ b2).
      rewrite !lrun_app, Hn. reflexivity.
    Qed.

    (* the inserted event is legal where it stands *)
    Definition eok (m : amap) (e0 : iev) : Prop :=
      match e0 with ILin _ o r => okop o /\ r = spec_res m o | _ => True end.

    Lemma ins_lok : lok aempty (gI G cur) -> eok (lrun (gSS G j) b1) e -> lok aempty (gI G' cur).
    Proof.
      rewrite ins_I_old, ins_I_new. rewrite (lok_app aempty pre post), (lok_app aempty pre (e :: post)). intros [A B] He. split; [exact A|].
      rewrite ins_pre_state in *.
      assert (Hpost : lok (lrun (lrun (gSS G j) b1) [e]) post).
      { destruct Hstable as [Hn|[Hb2 [[Hjc Hc]|Hc]]].
        - rewrite Hn. exact B.
        - rewrite Hb2, Hc, Hjc, Nat.sub_diag. exact I.
        - eapply lok_clear; [|exact B]. right. rewrite Hb2. cbn [app].
          destruct Hc as [c [r [l' Hc]]]. rewrite Hc. exists c, r, (l' ++ gflat G (S j) (cur - j)). reflexivity. }
      destruct e as [t o|t o r|t r]; cbn [lok]; cbn [lrun] in Hpost; auto.
      cbn [eok] in He. destruct He as [He1 He2]. auto.
    Qed.

    Lemma ins_erase_mark : (match e with ILin _ _ _ => True | _ => False end) ->
      erase xop xres (gI G' cur) = erase xop xres (gI G cur).
    Proof.
      intros He. rewrite ins_I_old, ins_I_new, (erase_app pre post), (erase_app pre (e :: post)). destruct e; try contradiction. reflexivity.
    Qed.

    Lemma ins_tp_own st st' : no_ev (evt e) b2 -> no_ev (evt e) (gc G j) -> (forall j', j < j' <= cur -> no_ev (evt e) (gseg G j')) ->
      tproto (evt e) TIdle (gI G cur) st -> tmove (evt e) st e st' -> tproto (evt e) TIdle (gI G' cur) st'.
    Proof.
      intros H1 H2 H3 Ht Hm. rewrite ins_I_new. rewrite ins_I_old in Ht.
      eapply tproto_ins_own; [exact Ht | | exact Hm].
      rewrite !no_ev_app. split; [exact H1|]. split; [exact H2|].
      apply no_ev_gflat. intros j' Hj'. apply H3. lia.
    Qed.

    Lemma ins_noev_seg t i : evt e <> t -> no_ev t (gseg G i) -> no_ev t (gseg G' i).
    Proof.
      intros Hne H. destruct (Nat.eq_dec i j) as [->|Hi]; [|rewrite ins_seg by exact Hi; exact H].
      rewrite ins_seg_j. unfold gseg in H. rewrite Hb in H. rewrite !no_ev_app in H. destruct H as [[A B] C].
      rewrite no_ev_app, no_ev_cons, no_ev_app. auto.
    Qed.

    Lemma ins_gext : gext (evt e) cur G cur G'.
    Proof.
      constructor.
      - lia.
      - intros t o r Hne [j0 [c1 [c2 [Hj0 [Hc [N1 [N2 [N3 [Ho [Hr Hs]]]]]]]]]].
        assert (Hne' : evt e <> t) by congruence.
        destruct (Nat.eq_dec j0 j) as [->|Hj0j].
        + (* the same generation: compare the two cuts *)
          rewrite Hb in Hc. destruct (app_eq_app _ _ _ _ Hc) as [l [[E1 E2]|[E1 E2]]].
          * (* b1 = c1 ++ l : the insertion point is not before the cut *)
            exists j, c1, (l ++ e :: b2). rewrite (ins_SS j Hj).
            split; [exact Hj|]. split; [unfold g_ins; cbn [gb]; destruct (Nat.eq_dec j j); [|congruence]; rewrite E1, <- app_assoc; reflexivity|].
            split; [rewrite E2 in N1; apply no_ev_app in N1; destruct N1 as [X Y]; rewrite no_ev_app, no_ev_cons; auto|].
            split; [exact N2|]. split; [intros j' Hj'; apply ins_noev_seg; [exact Hne' | apply N3; exact Hj']|].
            auto.
          * (* c1 = b1 ++ l : the cut is behind the insertion point *)
            destruct l as [|x l].
            -- (* the same point: the new event goes behind the cut *)
               rewrite app_nil_r in E1. subst c1. cbn [app] in E2. subst c2.
               exists j, b1, (e :: b2). rewrite (ins_SS j Hj).
               split; [exact Hj|]. split; [unfold g_ins; cbn [gb]; destruct (Nat.eq_dec j j); [reflexivity|congruence]|].
               split; [rewrite no_ev_cons; auto|].
               split; [exact N2|]. split; [intros j' Hj'; apply ins_noev_seg; [exact Hne' | apply N3; exact Hj']|].
               auto.
            -- (* strictly behind: only possible if the insertion does not change the map there *)
               destruct Hstable as [Hn|[Hb2 _]]; [|rewrite Hb2 in E2; discriminate E2].
               exists j, (b1 ++ e :: x :: l), c2. rewrite (ins_SS j Hj).
               assert (Est : lrun (gSS G j) (b1 ++ e :: x :: l) = lrun (gSS G j) c1).
               { rewrite E1. change (e :: x :: l) with ([e] ++ (x :: l)). rewrite !lrun_app, Hn. reflexivity. }
               rewrite Est.
               split; [exact Hj|]. split; [unfold g_ins; cbn [gb]; destruct (Nat.eq_dec j j); [|congruence]; rewrite E2; rewrite <- app_assoc; reflexivity|].
               split; [exact N1|].
               split; [exact N2|]. split; [intros j' Hj'; apply ins_noev_seg; [exact Hne' | apply N3; exact Hj']|].
               auto.
        + exists j0, c1, c2. rewrite (ins_SS j0 Hj0).
          split; [exact Hj0|]. split; [unfold g_ins; cbn [gb]; destruct (Nat.eq_dec j0 j); [contradiction|exact Hc]|].
          split; [exact N1|]. split; [exact N2|]. split; [intros j' Hj'; apply ins_noev_seg; [exact Hne' | apply N3; exact Hj']|]. auto.
      - intros t j0 Hne Hj0 N2 N3. assert (Hne' : evt e <> t) by congruence.
        split; [exact N2|]. intros j' Hj'. apply ins_noev_seg; [exact Hne' | apply N3; exact Hj'].
      - intros t st Hne Ht. rewrite ins_I_new. rewrite ins_I_old in Ht. apply tproto_ins_other; [congruence | exact Ht].
      - intros t Hne. reflexivity.
    Qed.
    End Stable.
  End Ins.

  (* appending an invocation / response event at the end of the current generation *)
  Lemma ins_erase_end G cur e : gc G cur = [] ->
    erase xop xres (gI (g_ins G cur (gb G cur) e []) cur) = erase xop xres (gI G cur) ++ erase xop xres [e].
  Proof.
    intros Hc.
    assert (Hb : gb G cur = gb G cur ++ []) by (symmetry; apply app_nil_r).
    rewrite (ins_I_new G cur cur (gb G cur) [] e (le_n _)), (ins_I_old G cur cur (gb G cur) [] (le_n _) Hb).
    rewrite Hc, Nat.sub_diag. cbn [app gflat seq flat_map]. rewrite !erase_app. cbn [erase app]. rewrite app_nil_r. reflexivity.
  Qed.

  (* ---- the publish of a new table: generation cur is closed, generation S cur begins ---- *)

  Section Pub.
    Variables (G : ghost) (cur : nat) (cl : list iev).
    Hypothesis Hc0 : gc G cur = [].
    Hypothesis Hb1 : gb G (S cur) = [].
    Hypothesis Hc1 : gc G (S cur) = [].

    Local Notation G' := (g_pub G cur cl).

    Lemma pub_seg i : i <> cur -> gseg G' i = gseg G i.
    Proof. intros H. unfold gseg, g_pub. cbn. destruct (Nat.eq_dec i cur); [contradiction|reflexivity]. Qed.

    Lemma pub_seg_cur : gseg G' cur = gb G cur ++ cl.
    Proof. unfold gseg, g_pub. cbn. destruct (Nat.eq_dec cur cur); [reflexivity|congruence]. Qed.

    Lemma pub_I : gI G' (S cur) = gI G cur ++ cl.
    Proof.
      unfold gI. rewrite (gflat_S (g_pub G cur cl) 0 (S cur)), (gflat_S (g_pub G cur cl) 0 cur), (gflat_S G 0 cur). cbn [Nat.add].
      rewrite (gflat_ext (g_pub G cur cl) G 0 cur) by (intros i Hi; apply pub_seg; lia).
      rewrite pub_seg_cur, (pub_seg (S cur)) by lia.
      unfold gseg. rewrite Hc0, Hb1, Hc1, !app_nil_r, <- app_assoc. reflexivity.
    Qed.

    Lemma pub_SS i : i <= cur -> gSS G' i = gSS G i.
    Proof. intros Hi. apply gSS_ext. intros i0 Hi0. apply pub_seg. lia. Qed.

    Lemma pub_SE i : i <= cur -> gSE G' i = gSE G i.
    Proof. intros Hi. unfold gSE. rewrite (pub_SS i Hi). reflexivity. Qed.

    Lemma pub_SE_new : gSE G' (S cur) = lrun (gSE G cur) cl.
    Proof.
      unfold gSE at 1. rewrite gSS_S. rewrite (pub_SE cur (le_n _)).
      unfold g_pub. cbn [gb gc]. rewrite Hb1. destruct (Nat.eq_dec cur cur); [reflexivity|congruence].
    Qed.

    Lemma pub_lok : lok aempty (gI G cur) -> lok (gSE G cur) cl -> lok aempty (gI G' (S cur)).
    Proof.
      intros A B. rewrite pub_I. apply lok_app. split; [exact A|].
      assert (E : lrun aempty (gI G cur) = gSE G cur).
      { rewrite (gI_split G cur cur (le_n _)), Hc0, Nat.sub_diag. cbn [gflat seq flat_map]. rewrite !app_nil_r.
        unfold gSE, gSS. apply lrun_app. }
      rewrite E. exact B.
    Qed.

    Lemma pub_erase : (forall e, In e cl -> match e with ILin _ _ _ => True | _ => False end) ->
      erase xop xres (gI G' (S cur)) = erase xop xres (gI G cur).
    Proof.
      intros H. rewrite pub_I, erase_app.
      assert (E : erase xop xres cl = []).
      { clear -H. induction cl as [|e l IH]; [reflexivity|]. pose proof (H e (or_introl eq_refl)) as He. destruct e; try contradiction.
        cbn. apply IH. intros e0 H0. apply H. right. exact H0. }
      rewrite E. apply app_nil_r.
    Qed.

    Lemma pub_gext u : (forall t, t <> u -> no_ev t cl) -> gext u cur G (S cur) G'.
    Proof.
      intros Hcl.
      assert (Hseg : forall t i, t <> u -> no_ev t (gseg G i) -> no_ev t (gseg G' i)).
      { intros t i Hne H. destruct (Nat.eq_dec i cur) as [->|Hi]; [|rewrite pub_seg by exact Hi; exact H].
        rewrite pub_seg_cur. unfold gseg in H. apply no_ev_app in H. destruct H as [A _]. apply no_ev_app. auto. }
      assert (Hnew : forall t, no_ev t (gseg G' (S cur))).
      { intros t. rewrite pub_seg by lia. unfold gseg. rewrite Hb1, Hc1. constructor. }
      assert (Hgc : forall t i, t <> u -> no_ev t (gc G i) -> no_ev t (gc G' i)).
      { intros t i Hne H. unfold g_pub. cbn [gc]. destruct (Nat.eq_dec i cur); [apply Hcl; exact Hne | exact H]. }
      assert (Hlater : forall t j, t <> u -> (forall j', j < j' <= cur -> no_ev t (gseg G j')) ->
                       forall j', j < j' <= S cur -> no_ev t (gseg G' j')).
      { intros t j Hne H j' Hj'. destruct (Nat.eq_dec j' (S cur)) as [->|]; [apply Hnew|]. apply Hseg; [exact Hne | apply H; lia]. }
      constructor.
      - lia.
      - intros t o r Hne [j0 [c1 [c2 [Hj0 [Hc [N1 [N2 [N3 [Ho [Hr Hs]]]]]]]]]].
        exists j0, c1, c2. rewrite (pub_SS j0 Hj0).
        split; [lia|]. split; [exact Hc|]. split; [exact N1|]. split; [apply Hgc; assumption|].
        split; [apply Hlater; assumption|]. auto.
      - intros t j Hne Hj N2 N3. split; [apply Hgc; assumption | apply Hlater; assumption].
      - intros t st Hne Ht. rewrite pub_I. eapply tproto_app; [exact Ht|]. apply tproto_noev. apply Hcl. exact Hne.
      - intros t Hne. reflexivity.
    Qed.

    Lemma pub_tp_own u st st' c : cl = [c] -> tproto u TIdle (gI G cur) st -> tmove u st c st' -> tproto u TIdle (gI G' (S cur)) st'.
    Proof.
      intros Hcl Ht Hm. rewrite pub_I, Hcl. eapply tproto_app; [exact Ht|]. apply tproto_one. exact Hm.
    Qed.

    Lemma pub_tp_nil u st : cl = [] -> tproto u TIdle (gI G cur) st -> tproto u TIdle (gI G' (S cur)) st.
    Proof. intros Hcl Ht. rewrite pub_I, Hcl, app_nil_r. exact Ht. Qed.
  End Pub.

  (* the status function is not part of the lists *)
  Lemma setst_I G t st cur : gI (g_setst G t st) cur = gI G cur.
  Proof. reflexivity. Qed.


  Record GOK (cur : nat) (G : ghost) : Prop := {
    gk_empty : gc G cur = [] /\ forall j, cur < j -> gb G j = [] /\ gc G j = [];
    gk_lok : lok aempty (gI G cur);
    gk_tp : forall t, tproto t TIdle (gI G cur) (gst G t);
  }.

  Definition stable (G : ghost) (cur j : nat) (b1 b2 : list iev) (e : iev) : Prop :=
    lrun (lrun (gSS G j) b1) [e] = lrun (gSS G j) b1
    \/ (b2 = [] /\ ((j = cur /\ gc G j = []) \/ starts_clear (gc G j))).

  Lemma gins_ok cur G j b1 b2 e st' :
    GOK cur G -> j <= cur -> gb G j = b1 ++ b2 -> stable G cur j b1 b2 e -> eok (lrun (gSS G j) b1) e ->
    no_ev (evt e) b2 -> no_ev (evt e) (gc G j) -> (forall j', j < j' <= cur -> no_ev (evt e) (gseg G j')) ->
    tmove (evt e) (gst G (evt e)) e st' ->
    let G' := g_setst (g_ins G j b1 e b2) (evt e) st' in
    GOK cur G' /\ gext (evt e) cur G cur G'
    /\ (forall i, gc G' i = gc G i)
    /\ (forall i, i <> j -> gb G' i = gb G i)
    /\ gb G' j = b1 ++ e :: b2
    /\ (forall i, i <= cur -> gSS G' i = gSS G i)
    /\ (forall i, i <= cur -> i <> j -> gSE G' i = gSE G i)
    /\ gSE G' j = lrun (gSS G j) (b1 ++ e :: b2)
    /\ gst G' (evt e) = st'
    /\ (forall t, t <> evt e -> gst G' t = gst G t).
  Proof.
    intros HG Hj Hb Hst He N1 N2 N3 Hm G'.
    assert (HgI : gI G' cur = gI (g_ins G j b1 e b2) cur) by reflexivity.
    split; [constructor|].
    - destruct (gk_empty _ _ HG) as [A B]. split; [exact A|]. intros i Hi. destruct (B i Hi) as [B1 B2].
      split; [|exact B2]. unfold G', g_setst, g_ins. cbn [gb]. destruct (Nat.eq_dec i j); [lia | exact B1].
    - rewrite HgI. apply (ins_lok G cur j b1 b2 e Hj Hb Hst (gk_lok _ _ HG) He).
    - intros t. rewrite HgI. unfold G', g_setst. cbn [gst]. destruct (Nat.eq_dec t (evt e)) as [->|Hne].
      + apply (ins_tp_own G cur j b1 b2 e Hj Hb Hst _ _ N1 N2 N3 (gk_tp _ _ HG (evt e)) Hm).
      + unfold g_ins. cbn [gst]. pose proof (ins_gext G cur j b1 b2 e Hj Hb Hst) as Hx.
        apply (ge_tp _ _ _ _ _ Hx t _ Hne). apply (gk_tp _ _ HG t).
    - split; [eapply gext_trans; [apply (ins_gext G cur j b1 b2 e Hj Hb Hst) | apply gext_setst]|].
      split; [reflexivity|].
      split; [intros i Hi; unfold G', g_setst, g_ins; cbn [gb]; destruct (Nat.eq_dec i j); [contradiction|reflexivity]|].
      split; [unfold G', g_setst, g_ins; cbn [gb]; destruct (Nat.eq_dec j j); [reflexivity|congruence]|].
      split; [intros i Hi; apply (ins_SS G cur j b1 b2 e Hj Hb Hst i Hi)|].
      split; [intros i Hi Hne; apply (ins_SE_other G cur j b1 b2 e Hj Hb Hst i Hi Hne)|].
      split; [apply (ins_SE_j G cur j b1 b2 e Hj Hb Hst)|].
      split; [unfold G', g_setst; cbn [gst]; destruct (Nat.eq_dec (evt e) (evt e)); [reflexivity|congruence]|].
      intros t Hne. unfold G', g_setst, g_ins. cbn [gst]. destruct (Nat.eq_dec t (evt e)); [contradiction|reflexivity].
  Qed.

  (* the same state at the end of generation j when the inserted event does not change the map *)
  Lemma gins_SE_noop G j b1 b2 e : gb G j = b1 ++ b2 ->
    lrun (lrun (gSS G j) b1) [e] = lrun (gSS G j) b1 -> lrun (gSS G j) (b1 ++ e :: b2) = gSE G j.
  Proof.
    intros Hb Hn. unfold gSE. rewrite Hb. change (e :: b2) with ([e] ++ b2). rewrite !lrun_app, Hn. reflexivity.
  Qed.

  Lemma gpub_ok cur G cl u st' :
    GOK cur G -> lok (gSE G cur) cl -> (forall t, t <> u -> no_ev t cl) ->
    (cl = [] /\ st' = gst G u \/ exists c, cl = [c] /\ tmove u (gst G u) c st') ->
    let G' := g_setst (g_pub G cur cl) u st' in
    GOK (S cur) G' /\ gext u cur G (S cur) G'
    /\ (forall i, i <> cur -> gc G' i = gc G i) /\ gc G' cur = cl
    /\ (forall i, gb G' i = gb G i)
    /\ (forall i, i <= cur -> gSE G' i = gSE G i)
    /\ gSE G' (S cur) = lrun (gSE G cur) cl
    /\ gI G' (S cur) = gI G cur ++ cl
    /\ gst G' u = st'.
  Proof.
    intros HG Hl Hcl Hst G'. destruct (gk_empty _ _ HG) as [Hc0 Hemp]. destruct (Hemp (S cur) (le_n _)) as [Hb1 Hc1].
    assert (HgI : gI G' (S cur) = gI (g_pub G cur cl) (S cur)) by reflexivity.
    pose proof (pub_gext G cur cl Hc0 Hb1 Hc1 u Hcl) as Hx.
    split; [constructor|].
    - split.
      + unfold G', g_setst, g_pub. cbn [gc]. destruct (Nat.eq_dec (S cur) cur); [lia | exact Hc1].
      + intros i Hi. destruct (Hemp i ltac:(lia)) as [A B]. split; [exact A|].
        unfold G', g_setst, g_pub. cbn [gc]. destruct (Nat.eq_dec i cur); [lia | exact B].
    - rewrite HgI. apply (pub_lok G cur cl Hc0 Hb1 Hc1 (gk_lok _ _ HG) Hl).
    - intros t. rewrite HgI. unfold G', g_setst. cbn [gst]. destruct (Nat.eq_dec t u) as [->|Hne].
      + destruct Hst as [[-> ->]|[c [-> Hm]]].
        * eapply pub_tp_nil; [exact Hc0 | exact Hb1 | exact Hc1 | reflexivity | apply (gk_tp _ _ HG u)].
        * eapply pub_tp_own; [exact Hc0 | exact Hb1 | exact Hc1 | reflexivity | apply (gk_tp _ _ HG u) | exact Hm].
      + unfold g_pub. cbn [gst]. apply (ge_tp _ _ _ _ _ Hx t _ Hne). apply (gk_tp _ _ HG t).
    - split; [eapply gext_trans; [exact Hx | apply gext_setst]|].
      split; [intros i Hi; unfold G', g_setst, g_pub; cbn [gc]; destruct (Nat.eq_dec i cur); [contradiction|reflexivity]|].
      split; [unfold G', g_setst, g_pub; cbn [gc]; destruct (Nat.eq_dec cur cur); [reflexivity|congruence]|].
      split; [reflexivity|].
      split; [intros i Hi; apply (pub_SE G cur cl i Hi)|].
      split; [apply (pub_SE_new G cur cl Hb1)|].
      split; [rewrite HgI; apply (pub_I G cur cl Hc0 Hb1 Hc1)|].
      unfold G', g_setst. cbn [gst]. destruct (Nat.eq_dec u u); [reflexivity|congruence].
  Qed.

End Gen.
