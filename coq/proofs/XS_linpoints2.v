(* XS_linpoints2.v -- XMachineS (Map) with Range: the calls a Range visitor makes on the map are
   calls of their own.  Extension of XS_linpoints.v to runs whose todo lists may contain Range
   (not Size): a Range is not an operation of the specification -- its own invocation and
   response are dropped from the history -- but every doCompute its visitor makes (labels
   SSubInv / SSubRes, run on the same thread between two visits, below the frame [h_frame])
   is a Compute call of the history.

   The history of a step ([hstep]) reads the labels with the context "is the stepping thread
   inside a Range, and with which visitor" ([ctxof], taken from the state before the step):
     SInv t (SRange vf)      dropped (the thread is now inside that Range)
     SInv t o                HInv t o
     SRes t r                dropped if t is inside a Range (its return), else HRes t r
     SVisit t k v; SSubInv   HInv t (the Compute [cxop (vf k v)] the visitor asks for)
     SSubRes t r             HRes t r
   and [srunh] is the history of a run.  When no Range is ever invoked it is [shist] of the trace.

   Here: the scope invariant [NR2] (frames and Range program counters are consistent), what a
   return does below a frame ([vout], [ret_outcome]), the steps of the Range itself ([L_rg]), and
   the reduction of every other step to the frame-free lemmas of XS_linpoints.v
   ([erase_frame_step]: a step of a thread inside a call does not look at the frame unless it returns). *)
From CacheV Require Import Base SpecMap XMachineS Lin.
From CacheV.proofs Require X_linpoints.
From CacheV.proofs Require Import X_maps XS_inv XS_lock XS_own XS_count XS_cells XS_vis XS_abs XS_resize XS_read XS_loadhit XS_loadmiss XS_range XS_stale LinGen XS_linpoints.
From Coq Require Import NArith.
Local Open Scope nat_scope.

Section SStages2.
  Context {K V : Type}.
  Variable eqd : forall a b : K, {a = b} + {a <> b}.
  Variable hash : K -> N -> N.
  Variable idx : N -> nat -> nat.
  Variable tophash : N -> N.
  Variable nslots : nat.
  Variable seeds : nat -> N.
  Variable grow_needed : nat -> Z -> bool.
  Variable shrink_policy : nat -> Z -> bool.
  Variable nstripes : nat -> nat.
  Variable minlen : nat.
  Variable grow_only : bool.

  Notation mstate := (@mstate K V).
  Notation spc := (@spc K V).
  Notation sop := (@sop K V).
  Notation sres := (@sres V).
  Notation slabel := (@slabel K V).
  Notation scx := (@scx K V).
  Notation scont := (@scont K V).
  Notation slcont := (@slcont K V).
  Notation lockk := (@lockk K V).
  Notation rframe := (@rframe K V).
  Notation hev := (Lin.hev sop sres).
  Notation tstat := (Lin.tstat sop sres).
  Notation vfun := (K -> V -> option scx).
  Notation stab_at := (@stab_at K V nslots nstripes).
  Notation sstep_pc := (@sstep_pc K V eqd hash idx tophash nslots seeds grow_needed shrink_policy nstripes minlen grow_only).
  Notation sstep := (@sstep K V eqd hash idx tophash nslots seeds grow_needed shrink_policy nstripes minlen grow_only).
  Notation sgoto := (@sgoto K V).
  Notation svisits := (@svisits K V).
  Notation shist := (@shist K V).

  (* the Compute call a visitor makes *)
  Definition cxop (cx : scx) : sop := SCompute (sc_k cx) (sc_f cx) (sc_ev cx) (sc_lie cx) (sc_co cx).
  Lemma sopcx_cxop cx : sopcx (cxop cx) = Some cx.
  Proof. destruct cx; reflexivity. Qed.

  Definition sokop2 (o : sop) : Prop := match o with SSize => False | _ => True end.

  (* the first of the copied entries for which the visitor calls the map: that call, and the entries left *)
  Fixpoint vout (rest : list (K * V)) (vf : vfun) : option (scx * list (K * V)) :=
    match rest with
    | [] => None
    | (k, v) :: r => match vf k v with Some cx => Some (cx, r) | None => vout r vf end
    end.

  (* where a Range goes on after its visits: the next bucket's lockBucket, or its return *)
  Definition rgafter (vf : vfun) (a : spc) : Prop := a = QRet SRUnit \/ exists tab b, a = QK_Load tab b (LKRange vf).

  (* the program counters of Range itself: its visitor *)
  Definition rgvf (p : spc) : option vfun :=
    match p with
    | QG_Table vf => Some vf
    | QK_Load _ _ (LKRange vf) | QK_Spin _ _ (LKRange vf) | QK_CAS _ _ _ (LKRange vf) | QK_Yield _ _ (LKRange vf) => Some vf
    | QU_Load _ _ (Some (_, vf)) _ | QU_Store _ _ _ (Some (_, vf)) _ => Some vf
    | _ => None
    end.
  Definition rgwf (p : spc) : Prop :=
    match p with
    | QU_Load _ _ (Some (_, vf)) a | QU_Store _ _ _ (Some (_, vf)) a => rgafter vf a
    | _ => True
    end.

  (* is the thread inside a Range, and with which visitor *)
  Definition ctxof (s : mstate) (t : nat) : option vfun :=
    match h_frame s t with Some fr => Some (rf_vf fr) | None => rgvf (h_pc s t) end.

  (* frames and Range program counters are consistent; no Size *)
  Definition NR2 (s : mstate) : Prop := forall t,
    match h_frame s t with
    | Some fr => norange (h_pc s t) /\ rgafter (rf_vf fr) (rf_after fr)
    | None => norange (h_pc s t) \/ (rgvf (h_pc s t) <> None /\ rgwf (h_pc s t))
    end.

  Lemma norange_rgvf (p : spc) : norange p -> rgvf p = None.
  Proof. destruct p; cbn; try tauto; try (destruct lk; tauto); intros [-> _]; reflexivity. Qed.

  Lemma rgvf_swake (p : spc) : rgvf (swake p) = rgvf p. Proof. destruct p; reflexivity. Qed.
  Lemma rgwf_swake (p : spc) : rgwf p -> rgwf (swake p). Proof. destruct p; cbn; auto. Qed.

  (* ---------------- the history of one step ---------------- *)

  Fixpoint hst (c : option vfun) (last : option (K * V)) (ls : list slabel) : list hev :=
    match ls with
    | [] => []
    | SInv t (SRange vf) :: r => hst (Some vf) last r
    | SInv t o :: r => HInv t o :: hst c last r
    | SRes t x :: r => match c with Some _ => hst None last r | None => HRes t x :: hst c last r end
    | SVisit t k v :: r => hst c (Some (k, v)) r
    | SSubInv t _ :: r =>
        match c, last with
        | Some vf, Some (k, v) => match vf k v with Some cx => HInv t (cxop cx) :: hst c last r | None => hst c last r end
        | _, _ => hst c last r
        end
    | SSubRes t x :: r => HRes t x :: hst c last r
    | _ :: r => hst c last r
    end.

  Definition hstep (s : mstate) (t : nat) (ls : list slabel) : list hev := hst (ctxof s t) None ls.

  (* labels that are neither invocations, responses nor visits *)
  Definition plainl (l : list slabel) : Prop :=
    Forall (fun x => match x with SStep _ _ | SFn _ _ _ => True | _ => False end) l.

  Lemma hst_plain c last a b : plainl a -> hst c last (a ++ b) = hst c last b.
  Proof. induction 1 as [|x a Hx _ IH]; [reflexivity|]. destruct x; try contradiction; exact IH. Qed.

  Lemma shist_plain a : plainl a -> shist a = [].
  Proof. induction 1 as [|x a Hx _ IH]; [reflexivity|]. destruct x; try contradiction; exact IH. Qed.

  (* the labels of the visits *)
  Fixpoint vlab (t : nat) (rest : list (K * V)) (vf : vfun) (after : spc) : list slabel :=
    match rest with
    | [] => match after with QRet r => [SRes t r] | _ => [] end
    | (k, v) :: r => match vf k v with
                     | None => SVisit t k v :: vlab t r vf after
                     | Some cx => [SVisit t k v; SSubInv t (sc_k cx)]
                     end
    end.

  Lemma svisits_snd (S0 : mstate) t rest vf after ls : snd (svisits S0 t rest vf after ls) = ls ++ vlab t rest vf after.
  Proof.
    revert ls. induction rest as [|[k v] r IH]; intros ls; cbn [XMachineS.svisits vlab].
    - destruct after; cbn [snd]; rewrite ?app_nil_r; reflexivity.
    - destruct (vf k v) as [cx|]; [reflexivity|]. rewrite IH, <- app_assoc. reflexivity.
  Qed.

  Lemma vlab_hst t rest vf after last : rgafter vf after ->
    hst (Some vf) last (vlab t rest vf after) = match vout rest vf with Some (cx, _) => [HInv t (cxop cx)] | None => [] end.
  Proof.
    intros Ha. revert last. induction rest as [|[k v] r IH]; intros last; cbn [vlab vout].
    - destruct Ha as [->|[tab [b ->]]]; reflexivity.
    - destruct (vf k v) as [cx|] eqn:E; cbn [hst]; [rewrite E; reflexivity | apply IH].
  Qed.

  (* where the thread stands after the visits *)
  Definition snorm (q : spc) : spc := match q with QRet _ => QIdle | _ => q end.

  Lemma svisits_out (S0 : mstate) t rest vf after ls :
    match vout rest vf with
    | Some (cx, r') =>
        h_pc (fst (svisits S0 t rest vf after ls)) t = sstart_cx cx
        /\ h_frame (fst (svisits S0 t rest vf after ls)) t = Some {| rf_rest := r'; rf_vf := vf; rf_after := after |}
    | None =>
        h_pc (fst (svisits S0 t rest vf after ls)) t = snorm after /\ h_frame (fst (svisits S0 t rest vf after ls)) t = None
    end
    /\ h_todo (fst (svisits S0 t rest vf after ls)) = h_todo S0.
  Proof.
    revert ls. induction rest as [|[k v] r IH]; intros ls; cbn [XMachineS.svisits vout].
    - split; [|destruct after; reflexivity].
      destruct after; cbn [fst sset_pc sset_frame h_pc h_frame snorm]; (destruct (Nat.eq_dec t t) as [_|Hc]; [|exfalso; apply Hc; reflexivity]); auto.
    - destruct (vf k v) as [cx|]; [|apply IH]. cbn [fst sset_pc sset_frame h_pc h_frame h_todo].
      destruct (Nat.eq_dec t t) as [_|Hc]; [|exfalso; apply Hc; reflexivity]. auto.
  Qed.

  (* ---------------- what a return does ---------------- *)

  (* the program counter, the frame and the history events after "return r" of thread t whose frame is fr *)
  Definition retpc (fr : option rframe) : spc :=
    match fr with
    | None => QIdle
    | Some f => match vout (rf_rest f) (rf_vf f) with Some (cx, _) => sstart_cx cx | None => snorm (rf_after f) end
    end.
  Definition retframe (fr : option rframe) : option rframe :=
    match fr with
    | None => None
    | Some f => match vout (rf_rest f) (rf_vf f) with
                | Some (_, r') => Some {| rf_rest := r'; rf_vf := rf_vf f; rf_after := rf_after f |}
                | None => None
                end
    end.
  Definition retev (t : nat) (fr : option rframe) (r : sres) : list hev :=
    HRes t r :: match fr with
                | None => []
                | Some f => match vout (rf_rest f) (rf_vf f) with Some (cx, _) => [HInv t (cxop cx)] | None => [] end
                end.

  Lemma ret_outcome (S0 : mstate) t r l0 : plainl l0 ->
    match h_frame S0 t with Some f => rgafter (rf_vf f) (rf_after f) /\ norange (h_pc S0 t) | None => rgvf (h_pc S0 t) = None end ->
    h_pc (fst (sgoto S0 t (QRet r) l0)) t = retpc (h_frame S0 t)
    /\ h_frame (fst (sgoto S0 t (QRet r) l0)) t = retframe (h_frame S0 t)
    /\ hst (ctxof S0 t) None (snd (sgoto S0 t (QRet r) l0)) = retev t (h_frame S0 t) r
    /\ h_todo (fst (sgoto S0 t (QRet r) l0)) = h_todo S0.
  Proof.
    intros Hpl Hfr. unfold ctxof. cbn [XMachineS.sgoto]. destruct (h_frame S0 t) as [f|] eqn:Ef; cbn [retpc retframe retev].
    - destruct Hfr as [Ha _].
      destruct (svisits_out S0 t (rf_rest f) (rf_vf f) (rf_after f) (l0 ++ [SSubRes t r])) as [Ho Htd].
      rewrite svisits_snd, <- app_assoc, (hst_plain _ _ _ _ Hpl). cbn [app hst]. rewrite (vlab_hst t _ _ _ None Ha).
      unfold retev. destruct (vout (rf_rest f) (rf_vf f)) as [[cx r']|]; destruct Ho as [A B]; auto.
    - rewrite Hfr. cbn [fst snd sset_pc h_pc h_frame h_todo]. destruct (Nat.eq_dec t t) as [_|Hc]; [|exfalso; apply Hc; reflexivity].
      rewrite Ef, (hst_plain _ _ _ _ Hpl). auto.
  Qed.

  (* ---------------- one step of a thread inside a call (top-level or a visitor's), whatever its frame ---------------- *)

  (* the step returns r: everything else is told by [ret_outcome] *)
  Definition isret (s : mstate) (t : nat) (s' : mstate) (ls : list slabel) (r : sres) : Prop :=
    exists S0 l0, s' = fst (sgoto S0 t (QRet r) l0) /\ ls = snd (sgoto S0 t (QRet r) l0) /\ plainl l0
                  /\ h_frame S0 = h_frame s /\ h_pc S0 = h_pc s /\ h_todo S0 = h_todo s /\ h_cur S0 = h_cur s.

  (* the step does not return: no history event, frames and todo lists stay *)
  Definition stepq (s s' : mstate) (ls : list slabel) : Prop := plainl ls /\ h_frame s' = h_frame s /\ h_todo s' = h_todo s.

  Lemma plainl_sfnev t (cx : scx) o (l : slabel) : plainl [l] -> plainl (l :: sfnev t cx o).
  Proof. intros H. inversion H; subst. constructor; [assumption|]. unfold sfnev. destruct (sc_ev cx); repeat constructor. Qed.

  Lemma plainl_step t k : plainl [@SStep K V t k].
  Proof. repeat constructor. Qed.

  Ltac prep p Hnr :=
    destruct p; cbn [norange] in Hnr; try contradiction;
    try (match goal with lk : lockk |- _ => destruct lk; try contradiction end);
    try (match type of Hnr with _ /\ _ => let E := fresh "Erg" in destruct Hnr as [E Hnr]; subst end).

  Ltac gcase Hs :=
    cbn [XMachineS.sstep_pc XMachineS.after_lock] in Hs; cbv zeta in Hs;
    try (match type of Hs with context [scopy_chain ?a ?b ?c ?d ?e ?f] => destruct (scopy_chain a b c d e f) end; cbv beta iota zeta in Hs);
    repeat match type of Hs with context [match ?x with _ => _ end] => destruct x eqn:? end;
    try discriminate; apply some_pair_l in Hs; destruct Hs as [? ?]; subst;
    try (match goal with |- context [XMachineS.sgoto _ _ ?a _] => is_var a; destruct a end);
    try (match goal with |- context [srun_cont ?kt] => is_var kt; destruct kt; cbn [srun_cont] end).

  (* the two ways a case ends *)
  Ltac isret_tac := eexists; eexists; split; [reflexivity|]; split; [reflexivity|]; split;
                    [first [apply plainl_step | apply plainl_sfnev; apply plainl_step]|]; split; [reflexivity|]; split; [reflexivity|]; split; reflexivity.
  Ltac stepq_tac := cbn [XMachineS.sgoto fst snd]; split;
                    [first [apply plainl_step | apply plainl_sfnev; apply plainl_step] | split; reflexivity].

  Lemma L_pend_g s t p s' ls r : sstep_pc s t p = Some (s', ls) -> norange p -> spend p = Some r ->
    (stepq s s' ls /\ spend (h_pc s' t) = Some r) \/ isret s t s' ls r.
  Proof.
    intros Hs Hnr Hr.
    prep p Hnr; cbn [spend] in Hr; try discriminate Hr; gcase Hs; cbn [spend skres skres_nc] in *; try discriminate Hr.
    all: try (right; inversion Hr; subst; isret_tac).
    all: try (left; split; [stepq_tac | cbn [XMachineS.sgoto fst]; rewrite sset_pc_same; exact Hr]).
    all: try (destruct r0; try discriminate Hr; inversion Hr; subst; right; isret_tac).
    all: try (left; split; [stepq_tac | cbn [XMachineS.sgoto fst]; rewrite sset_pc_same; cbn [spend];
              match goal with kt : scont |- _ => destruct kt as [?|r1]; cbn [skres skres_nc] in *; try discriminate Hr; destruct r1; try discriminate Hr; exact Hr end]).
  Qed.

  Lemma L_rd_g s t p s' ls k lc tab h : sstep_pc s t p = Some (s', ls) -> srdk p = Some (k, lc, tab, h) ->
    h_tabs s' = h_tabs s /\ h_cur s' = h_cur s /\
    ( (stepq s s' ls /\ srdk (h_pc s' t) = Some (k, lc, tab, h))
      \/ (exists v, isret s t s' ls (shitres lc v))
      \/ (lc = SLPlain /\ isret s t s' ls (SRVal None false))
      \/ (exists cx, lc = SLFast cx /\ stepq s s' ls /\ h_pc s' t = QW_Table cx) ).
  Proof.
    intros Hs Hr.
    destruct p; cbn [srdk] in Hr; try discriminate Hr; inversion Hr; subst; clear Hr;
      cbn [XMachineS.sstep_pc] in Hs; cbv zeta in Hs;
      repeat match type of Hs with context [match ?x with _ => _ end] => destruct x eqn:? end;
      try discriminate; apply some_pair_l in Hs; destruct Hs as [? ?]; subst;
      (split; [apply XS_cells.htabs_goto|]); (split; [apply hcur_goto|]); cbn [shitres].
    all: try (left; split; [stepq_tac | cbn [XMachineS.sgoto fst]; rewrite sset_pc_same; reflexivity]).
    all: try (right; left; eexists; cbn [shitres]; isret_tac).
    all: try (right; right; left; split; [reflexivity | isret_tac]).
    all: try (right; right; right; eexists; split; [reflexivity|]; split; [stepq_tac | cbn [XMachineS.sgoto fst]; rewrite sset_pc_same; reflexivity]).
  Qed.

  Lemma L_clr_g s t p s' ls : sstep_pc s t p = Some (s', ls) -> sclr p = true ->
    stepq s s' ls /\
    ((sclr (h_pc s' t) = true /\ forall kt new, p <> QR_Publish kt new)
     \/ (exists new, p = QR_Publish (SKReturn SRUnit) new /\ spend (h_pc s' t) = Some SRUnit)).
  Proof.
    intros Hs Hc.
    destruct p; cbn [sclr] in Hc; try discriminate Hc;
      repeat match type of Hc with context [match ?x with _ => _ end] => destruct x end; try discriminate Hc;
      gcase Hs; (split; [stepq_tac|]); cbn [XMachineS.sgoto fst]; rewrite ?sset_pc_same; cbn [sclr spend skres].
    all: try (left; split; [reflexivity | intros ? ? E; discriminate E]).
    all: try (right; eexists; split; reflexivity).
  Qed.

  Notation snooplin := (@snooplin K V eqd hash idx tophash nslots nstripes).

  Lemma L_wr_g s t p s' ls cx : sstep_pc s t p = Some (s', ls) -> norange p ->
    spend p = None -> srdk p = None -> swcx p = Some cx ->
    stepq s s' ls /\
    ( (slres p = None /\ spend (h_pc s' t) = None /\ srdk (h_pc s' t) = None /\ swcx (h_pc s' t) = Some cx)
      \/ (exists r, slres p = Some r /\ spend (h_pc s' t) = Some r)
      \/ (exists r, slres p = None /\ snooplin s p r /\ spend (h_pc s' t) = Some r) ).
  Proof.
    intros Hs Hnr Hp Hr Hw.
    prep p Hnr; cbn [swcx] in Hw; try discriminate Hw; cbn [spend] in Hp; try discriminate Hp;
      gcase Hs; cbn [spend swcx skcx] in Hp, Hw; try discriminate;
      try (match goal with H : skcx ?k = Some _ |- _ => is_var k; destruct k; cbn [skcx] in H; try discriminate H end);
      (split; [stepq_tac|]); cbn [XMachineS.sgoto fst srun_cont]; rewrite ?sset_pc_same;
      cbn [slres spend srdk swcx skres skres_nc skcx XS_linpoints.snooplin] in *.
    all: try (inversion Hw; subst; clear Hw).
    all: try (left; repeat split; try reflexivity; try assumption; fail).
    all: try (right; left; eexists; split; reflexivity).
    all: try (right; left; eexists; split; [reflexivity|]; match goal with H : sc_co _ = _ |- _ => rewrite H end; reflexivity).
    all: try (right; right; eexists; split; [reflexivity|]; split; [|reflexivity]; cbn [XS_linpoints.snooplin];
              first [ match goal with H : scan_slots _ _ _ _ _ _ _ _ _ = _ |- _ => rewrite H end;
                      first [ split; [assumption | reflexivity] | split; [assumption|]; split; [assumption | reflexivity] ]
                    | split; [assumption | reflexivity] ]).
  Qed.

  (* the scope and the recorded decisions over a step that does not return *)
  Lemma step_scope_g s t p s' ls : sstep_pc s t p = Some (s', ls) -> norange p ->
    (exists r, isret s t s' ls r) \/ (stepq s s' ls /\ norange (h_pc s' t) /\ (sdec p -> sdec (h_pc s' t))).
  Proof.
    intros Hs Hnr.
    prep p Hnr; gcase Hs.
    all: try (left; eexists; isret_tac).
    all: right; (split; [first [stepq_tac | (split; [apply plainl_step | split; reflexivity])]|]);
         cbn [XMachineS.sgoto fst]; rewrite ?sset_pc_same; cbn [norange sdec] in *; try tauto.
    all: try (split; [tauto | intros _; first [exact I | tauto | (split; assumption) | assumption]]).
  Qed.

  (* ---------------- the steps of the Range itself ---------------- *)

  Lemma hst_single_plain c last (l : slabel) : plainl [l] -> hst c last [l] = [].
  Proof. intros H. rewrite <- (app_nil_r [l]). rewrite (hst_plain c last [l] [] H). reflexivity. Qed.

  Lemma L_rg s t p s' ls vf : sstep_pc s t p = Some (s', ls) -> h_frame s t = None -> rgvf p = Some vf -> rgwf p ->
    h_todo s' = h_todo s /\
    ( (h_frame s' t = None /\ rgvf (h_pc s' t) = Some vf /\ rgwf (h_pc s' t) /\ hst (Some vf) None ls = [])
      \/ (h_frame s' t = None /\ h_pc s' t = QIdle /\ hst (Some vf) None ls = [])
      \/ (exists cx r' a, h_pc s' t = sstart_cx cx /\ h_frame s' t = Some {| rf_rest := r'; rf_vf := vf; rf_after := a |}
                          /\ rgafter vf a /\ hst (Some vf) None ls = [HInv t (cxop cx)]) ).
  Proof.
    intros Hs Hf Hv Hw.
    destruct p; cbn [rgvf] in Hv; try discriminate Hv;
      try (match goal with lk : lockk |- _ => destruct lk; try discriminate Hv end);
      try (match goal with rg : option _ |- _ => destruct rg as [[snap vf0]|]; try discriminate Hv end);
      inversion Hv; subst; clear Hv; cbn [rgwf] in Hw.
    - (* QK_Load *) gcase Hs; (split; [reflexivity|]); left; cbn [XMachineS.sgoto fst snd]; rewrite sset_pc_same;
        (split; [exact Hf|]); (split; [reflexivity|]); (split; [exact I|]); apply hst_single_plain; apply plainl_step.
    - (* QK_Spin *) gcase Hs; (split; [reflexivity|]); left; cbn [XMachineS.sgoto fst snd]; rewrite sset_pc_same;
        (split; [exact Hf|]); (split; [reflexivity|]); (split; [exact I|]); apply hst_single_plain; apply plainl_step.
    - (* QK_CAS *) gcase Hs; (split; [reflexivity|]); left; cbn [XMachineS.sgoto fst snd]; rewrite sset_pc_same;
        (split; [exact Hf|]); (split; [reflexivity|]); (split; [cbn [rgwf rgafter]; first [exact I | right; eexists; eexists; reflexivity | left; reflexivity]|]);
        apply hst_single_plain; apply plainl_step.
    - (* QK_Yield *) gcase Hs; (split; [reflexivity|]); left; cbn [XMachineS.sgoto fst snd]; rewrite sset_pc_same;
        (split; [exact Hf|]); (split; [reflexivity|]); (split; [exact I|]); apply hst_single_plain; apply plainl_step.
    - (* QU_Load *) cbn [XMachineS.sstep_pc] in Hs. cbv zeta in Hs. apply some_pair_l in Hs. destruct Hs as [-> ->].
      split; [reflexivity|]. left. cbn [XMachineS.sgoto fst snd]. rewrite sset_pc_same.
      split; [exact Hf|]. split; [reflexivity|]. split; [exact Hw|]. apply hst_single_plain; apply plainl_step.
    - (* QU_Store: the visits *)
      cbn [XMachineS.sstep_pc] in Hs. cbv zeta in Hs. apply some_pair_l in Hs. destruct Hs as [-> ->].
      match goal with |- context [XMachineS.svisits ?S0 t snap vf p ?L] =>
        destruct (svisits_out S0 t snap vf p L) as [Ho Htd]; rewrite (svisits_snd S0 t snap vf p L) end.
      split; [exact Htd|].
      change ([SStep t (SKStoreU64 (word_val (with_lock v None)))] ++ vlab t snap vf p)
        with (SStep t (SKStoreU64 (word_val (with_lock v None))) :: vlab t snap vf p).
      cbn [hst]. rewrite (vlab_hst t snap vf p None Hw).
      destruct (vout snap vf) as [[cx r']|]; destruct Ho as [A B].
      + right. right. exists cx, r', p. auto.
      + destruct Hw as [->|[tab0 [b0 ->]]]; cbn [snorm] in A.
        * right. left. auto.
        * left. split; [exact B|]. rewrite A. split; [reflexivity|]. split; [exact I | reflexivity].
    - (* QG_Table *) gcase Hs; cbn [XMachineS.sgoto]; rewrite ?Hf; cbn [fst snd]; (split; [reflexivity|]); rewrite sset_pc_same.
      + left. split; [exact Hf|]. split; [reflexivity|]. split; [exact I|]. apply hst_single_plain; apply plainl_step.
      + right. left. split; [exact Hf|]. split; [reflexivity | reflexivity].
  Qed.

  (* ---------------- the status of a thread against its program counter, with Range ---------------- *)

  Definition sTOK2 (st : tstat) (p : spc) : Prop :=
    match st with
    | TIdle => p = QIdle \/ p = QStart \/ rgvf p <> None
    | TInvoked o =>
        spend p = None /\
        match o with
        | SLoad k => exists tab h, srdk p = Some (k, SLPlain, tab, h)
        | SCompute k f ev lie co =>
            let cx := {| sc_k := k; sc_f := f; sc_ev := ev; sc_lie := lie; sc_co := co |} in
            (lie = true /\ ((exists tab h, srdk p = Some (k, SLFast cx, tab, h)) \/ p = QL_Table k (SLFast cx)))
            \/ (srdk p = None /\ swcx p = Some cx)
        | SClear => sclr p = true
        | _ => False
        end
    | TLinearized o r => sokop o /\ spend p = Some r
    end.

  Lemma sTOK2_swake st (p : spc) : sTOK2 st p -> sTOK2 st (swake p).
  Proof.
    destruct st as [|o|o r]; cbn [sTOK2].
    - rewrite rgvf_swake. intros [->|[->|H]]; auto.
    - rewrite spend_swake. intros [A B]. split; [exact A|]. destruct o; auto; rewrite ?srdk_swake, ?swcx_swake, ?sclr_swake; try exact B.
      destruct B as [[B1 [B2|B2]]|B]; [left; split; [exact B1 | left; exact B2] | left; split; [exact B1 | right; rewrite B2; reflexivity] | right; exact B].
    - rewrite spend_swake. auto.
  Qed.

End SStages2.
