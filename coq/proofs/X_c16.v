(* X_c16.v -- reads never wait (XMachine, MapOf): in every reachable state a
   thread inside Load (also the read-only fast path of doCompute) or Size
     - can take its next step whatever the other threads are doing or holding
       (reader_never_blocks),
     - performs loads only and changes nothing but its own program counter
       (reader_step),
     - and, running alone while every other thread stays where it is -- inside
       a user function, between two stores of an insert, in the middle of a
       table copy --, leaves the read path within [rd_bound] of its own steps,
       a number fixed by the table generation it loaded (solo_reader). *)
From CacheV Require Import Base SpecMap XMachine.
From CacheV.proofs Require Import X_basic X_inv X_c13.
From Coq Require Import NArith.
Local Open Scope nat_scope.

Section C16.
  Context {K V : Type}.
  Variable eqd : forall a b : K, {a = b} + {a <> b}.
  Variable hash : K -> N -> N.
  Variable idx : N -> nat -> nat.
  Variable tag : N -> N.
  Variable nslots : nat.
  Variable seeds : nat -> N.
  Variable grow_needed : nat -> Z -> bool.
  Variable shrink_policy : nat -> Z -> bool.
  Variable probe : list (option N) -> N -> list nat.
  Variable nstripes : nat -> nat.
  Variable minlen : nat.
  Variable grow_only : bool.

  Hypothesis Hidx : forall h len, 0 < len -> idx h len < len.
  Hypothesis Hstripes : forall len, 0 < nstripes len.
  Hypothesis Hminlen : 0 < minlen.

  Notation xtable := (@xtable K V).
  Notation xstate := (@xstate K V).
  Notation pc := (@pc K V).
  Notation tab_at := (@tab_at K V nslots nstripes).
  Notation step_pc := (@step_pc K V eqd hash idx tag nslots seeds grow_needed shrink_policy probe nstripes minlen grow_only).
  Notation xstep := (@xstep K V eqd hash idx tag nslots seeds grow_needed shrink_policy probe nstripes minlen grow_only).
  Notation xrun := (@xrun K V eqd hash idx tag nslots seeds grow_needed shrink_policy probe nstripes minlen grow_only).
  Notation XInv := (@X_inv.XInv K V hash idx nslots nstripes).
  Notation valid := (@valid K V hash idx nslots nstripes).

  (* the program counters of Load and Size *)
  Definition reader_pc (p : pc) : bool :=
    match p with
    | PL_Table _ _ | PL_Meta _ _ _ _ _ | PL_Ent _ _ _ _ _ _ | PL_Next _ _ _ _ _ | PS_Table | PS_Sum _ _ _ => true
    | _ => false
    end.

  Definition load_kind (k : lkind) : bool :=
    match k with KLoadPtr _ | KLoadU64 _ | KLoadI64 _ => true | _ => false end.

  (* what a reader's step may emit: loads, and its own return *)
  Definition read_label (t : nat) (l : @xlabel K V) : Prop :=
    match l with
    | XStep t' k => t' = t /\ load_kind k = true
    | XRes t' _ => t' = t
    | _ => False
    end.

  Definition shared_eq (s s' : xstate) : Prop :=
    g_tabs s' = g_tabs s /\ g_cur s' = g_cur s /\ g_resizing s' = g_resizing s /\ g_rmu s' = g_rmu s
    /\ g_growths s' = g_growths s /\ g_shrinks s' = g_shrinks s.

  Lemma shared_eq_refl s : shared_eq s s.
  Proof. unfold shared_eq. auto 10. Qed.

  Lemma shared_eq_trans a b c : shared_eq a b -> shared_eq b c -> shared_eq a c.
  Proof. unfold shared_eq. intuition congruence. Qed.

  (* ---------------- the bound ---------------- *)

  Definition plen (c : list (@slot K V)) (tg : N) (bi : nat) : nat :=
    length (probe (tags_of (bucket_slots nslots c bi)) tg).

  (* buckets j, j+1, ... of a chain with nb buckets: one meta load, the probed entries, one next load each *)
  Fixpoint wsum (c : list (@slot K V)) (tg : N) (j n : nat) : nat :=
    match n with
    | O => 0
    | S n' => 2 + plen c tg j + wsum c tg (S j) n'
    end.

  Definition wrest (c : list (@slot K V)) (tg : N) (j : nat) : nat := wsum c tg j (nbuckets nslots c - j).

  Definition rd_chain (s : xstate) (tab : nat) (h : N) : list (@slot K V) :=
    let tb := tab_at s tab in chain_of tb (idx h (x_len tb)).

  Definition rd_bound (s : xstate) (p : pc) : nat :=
    match p with
    | PL_Table k _ =>
        let tab := g_cur s in
        let h := hash k (x_seed (tab_at s tab)) in
        let c := rd_chain s tab h in
        3 + plen c (tag h) 0 + wrest c (tag h) 1
    | PL_Meta _ _ tab h bi => let c := rd_chain s tab h in 2 + plen c (tag h) bi + wrest c (tag h) (S bi)
    | PL_Ent _ _ tab h bi todo => let c := rd_chain s tab h in 1 + length todo + wrest c (tag h) (S bi)
    | PL_Next _ _ tab h bi => let c := rd_chain s tab h in 1 + wrest c (tag h) (S bi)
    | PS_Table => 2 + nstr (tab_at s (g_cur s))
    | PS_Sum tab i _ => 1 + (nstr (tab_at s tab) - S i)
    | _ => 0
    end.

  Lemma wrest_step c tg j : j < nbuckets nslots c -> wrest c tg j = 2 + plen c tg j + wrest c tg (S j).
  Proof.
    clear Hidx Hstripes Hminlen. intros H. unfold wrest. replace (nbuckets nslots c - j) with (S (nbuckets nslots c - S j)) by lia. reflexivity.
  Qed.

  Lemma rd_bound_shared s s' p : shared_eq s s' -> rd_bound s' p = rd_bound s p.
  Proof.
    intros [E1 [E2 _]]. unfold rd_bound, rd_chain, XMachine.tab_at. rewrite E1, E2. reflexivity.
  Qed.

  (* ---------------- one step of a reader ---------------- *)

  Lemma some_fst'' {A B} (g : A * B) a b : Some g = Some (a, b) -> a = fst g /\ b = snd g.
  Proof. intros H. inversion H. auto. Qed.

  Lemma goto_labels (s : xstate) t p ls :
    snd (goto s t p ls) = match p with PRet r => ls ++ [XRes t r] | _ => ls end.
  Proof. destruct p; reflexivity. Qed.

  Ltac step_cases2 Hs :=
    cbn [XMachine.step_pc] in Hs; cbv zeta in Hs;
    repeat match type of Hs with
           | context [match ?x with _ => _ end] => destruct x eqn:?
           end;
    try discriminate; apply some_fst'' in Hs; destruct Hs as [? ?]; subst;
    rewrite ?goto_state', ?goto_labels; cbn [fst].

  Lemma reader_never_blocks s t p : valid s p -> reader_pc p = true -> step_pc s t p <> None.
  Proof.
    intros Hv Hr E.
    destruct (blocked_why eqd hash idx tag nslots seeds grow_needed shrink_policy probe nstripes minlen grow_only s t p E)
      as [[? [? [? [W _]]]]|[[W _]|[[? [? Ep]]|[Ep|[[? Ep]|[? [? [? [? [? Ep]]]]]]]]]];
      try (rewrite Ep in Hr; discriminate); try (destruct p; cbn in *; discriminate).
    rewrite Ep in Hv. cbn in Hv. destruct Hv as [_ Hv]. apply Hv. reflexivity.
  Qed.

  Lemma Forall_app_single {X} (P : X -> Prop) l x : Forall P l -> P x -> Forall P (l ++ [x]).
  Proof. intros H1 H2. apply Forall_app. split; [exact H1 | constructor; [exact H2 | constructor]]. Qed.

  Lemma reader_step s t p s' ls : reader_pc p = true -> step_pc s t p = Some (s', ls) ->
    shared_eq s s'
    /\ (forall t', t' <> t -> g_pc s' t' = g_pc s t')
    /\ g_todo s' = g_todo s
    /\ Forall (read_label t) ls
    /\ (reader_pc (g_pc s' t) = true -> rd_bound s (g_pc s' t) < rd_bound s p).
  Proof.
    clear Hidx Hstripes Hminlen. intros Hr Hs.
    destruct p; try discriminate; step_cases2 Hs;
      (split; [unfold shared_eq; cbn [set_pc g_tabs g_cur g_resizing g_rmu g_growths g_shrinks]; auto 10 |
       split; [intros t' Hne; cbn [g_pc set_pc]; destruct (Nat.eq_dec t' t); [contradiction | reflexivity] |
       split; [reflexivity |
       split; [repeat (first [apply Forall_app_single | constructor]); cbn; auto |
       cbn [g_pc set_pc]; destruct (Nat.eq_dec t t); [|congruence]; cbn [norm reader_pc]; try discriminate; intros _ ]]]]).
    all: cbn [rd_bound]; unfold rd_chain; cbv zeta.
    - (* PL_Table -> PL_Meta 0 *) unfold wrest. lia.
    - (* PL_Meta -> PL_Next *)
      unfold plen. match goal with H : probe _ _ = [] |- _ => rewrite H end. cbn [length]. lia.
    - (* PL_Meta -> PL_Ent *)
      unfold plen. match goal with H : probe _ _ = _ :: _ |- _ => rewrite H end. cbn [length]. lia.
    - (* PL_Ent: other key, last *) cbn [length]. lia.
    - (* PL_Ent: other key, more *) cbn [length]. lia.
    - (* PL_Ent: nil, last *) cbn [length]. lia.
    - (* PL_Ent: nil, more *) cbn [length]. lia.
    - (* PL_Next -> PL_Meta (S bi) *)
      match goal with H : Nat.ltb _ _ = true |- _ => apply Nat.ltb_lt in H; rewrite (wrest_step _ _ (S bi) H) end. lia.
    - (* PS_Table -> PS_Sum *) lia.
    - (* PS_Sum *)
      match goal with H : Nat.ltb _ _ = true |- _ => apply Nat.ltb_lt in H end. lia.
  Qed.

  (* ---------------- running alone ---------------- *)

  Lemma xstep_reader s t : reader_pc (g_pc s t) = true -> xstep s t = step_pc s t (g_pc s t).
  Proof. intros H. unfold XMachine.xstep. destruct (g_pc s t); try reflexivity. discriminate. Qed.

  (* the reader of thread t is over: it returned, or (fast path of doCompute, miss) went on to the write path *)
  Theorem solo_reader t : forall n s, XInv s -> reader_pc (g_pc s t) = true -> rd_bound s (g_pc s t) <= n ->
    exists m, m <= n /\
      let s' := fst (xrun s (repeat t m)) in
      reader_pc (g_pc s' t) = false
      /\ shared_eq s s' /\ (forall t', t' <> t -> g_pc s' t' = g_pc s t')
      /\ Forall (read_label t) (snd (xrun s (repeat t m))).
  Proof.
    induction n as [|n IH]; intros s HI Hr Hb.
    - exfalso. destruct (g_pc s t); try discriminate; cbn in Hb; lia.
    - destruct (step_pc s t (g_pc s t)) as [[s1 ls1]|] eqn:E.
      2:{ exfalso. eapply reader_never_blocks; [apply (xi_valid _ _ _ _ s HI t) | exact Hr | exact E]. }
      destruct (reader_step s t _ s1 ls1 Hr E) as [Hsh [Hoth [Htd [Hls Hdec]]]].
      assert (HI1 : XInv s1).
      { eapply (xstep_inv eqd hash idx tag nslots seeds grow_needed shrink_policy probe nstripes minlen grow_only Hidx Hstripes Hminlen s t).
        - exact HI.
        - rewrite xstep_reader by exact Hr. exact E. }
      destruct (reader_pc (g_pc s1 t)) eqn:Hr1.
      + specialize (Hdec eq_refl).
        destruct (IH s1 HI1 Hr1) as [m [Hm Hfin]].
        { rewrite (rd_bound_shared s s1 _ Hsh). lia. }
        exists (S m). split; [lia|]. cbn [repeat XMachine.xrun]. rewrite xstep_reader by exact Hr. rewrite E.
        cbv zeta in Hfin. destruct (XMachine.xrun _ _ _ _ _ _ _ _ _ _ _ _ s1 (repeat t m)) as [s2 ls2] eqn:E2.
        cbn [fst snd] in *. destruct Hfin as [F1 [F2 [F3 F4]]].
        split; [exact F1|]. split; [eapply shared_eq_trans; eassumption|].
        split; [intros t' Hne; rewrite (F3 t' Hne); apply Hoth; exact Hne|].
        apply Forall_app. split; assumption.
      + exists 1. split; [lia|]. cbn [repeat XMachine.xrun]. rewrite xstep_reader by exact Hr. rewrite E.
        cbn [fst snd]. split; [exact Hr1|]. split; [exact Hsh|]. split; [exact Hoth|].
        rewrite app_nil_r. exact Hls.
  Qed.

  (* from any reachable state *)
  Theorem reads_never_wait len0 todo sched t : 0 < len0 ->
    let s := fst (xrun (xinit nslots seeds nstripes len0 todo) sched) in
    reader_pc (g_pc s t) = true ->
    enabled eqd hash idx tag nslots seeds grow_needed shrink_policy probe nstripes minlen grow_only s t = true
    /\ exists m, m <= rd_bound s (g_pc s t) /\
         let s' := fst (xrun s (repeat t m)) in
         reader_pc (g_pc s' t) = false /\ shared_eq s s' /\ (forall t', t' <> t -> g_pc s' t' = g_pc s t')
         /\ Forall (read_label t) (snd (xrun s (repeat t m))).
  Proof.
    intros Hl s Hr.
    destruct (reachable_inv2 eqd hash idx tag nslots seeds grow_needed shrink_policy probe nstripes minlen grow_only
                Hidx Hstripes Hminlen len0 todo sched Hl) as [HI _].
    fold s in HI. split.
    - unfold XMachine.enabled. rewrite xstep_reader by exact Hr.
      destruct (step_pc s t (g_pc s t)) eqn:E; [reflexivity|].
      exfalso. eapply reader_never_blocks; [apply (xi_valid _ _ _ _ s HI t) | exact Hr | exact E].
    - apply (solo_reader t (rd_bound s (g_pc s t)) s HI Hr). lia.
  Qed.

End C16.


(* ---------------- the statements of props/C16.v ---------------- *)
Section Final.
  Context {K V : Type}.
  Variable eqd : forall a b : K, {a = b} + {a <> b}.
  Variable hash : K -> N -> N.
  Variable idx : N -> nat -> nat.
  Variable tag : N -> N.
  Variable nslots : nat.
  Variable seeds : nat -> N.
  Variable grow_needed shrink_policy : nat -> Z -> bool.
  Variable probe : list (option N) -> N -> list nat.
  Variable nstripes : nat -> nat.
  Variable minlen : nat.
  Variable grow_only : bool.

  Notation xrun := (@xrun K V eqd hash idx tag nslots seeds grow_needed shrink_policy probe nstripes minlen grow_only).

  Lemma reads_never_wait_proof :
    xhyps idx nstripes minlen -> forall len0 todo sched t, 0 < len0 ->
    let xrun := xrun in
    let s := fst (xrun (xinit nslots seeds nstripes len0 todo) sched) in
    reader_pc (g_pc s t) = true ->
    @enabled K V eqd hash idx tag nslots seeds grow_needed shrink_policy probe nstripes minlen grow_only s t = true
    /\ exists m, m <= rd_bound hash idx tag nslots probe nstripes s (g_pc s t) /\
         let s' := fst (xrun s (repeat t m)) in
         reader_pc (g_pc s' t) = false /\ shared_eq s s' /\ (forall t', t' <> t -> g_pc s' t' = g_pc s t')
         /\ Forall (read_label t) (snd (xrun s (repeat t m))).
  Proof.
    intros [H1 [H2 H3]] len0 todo sched t Hl.
    apply (reads_never_wait eqd hash idx tag nslots seeds grow_needed shrink_policy probe nstripes minlen grow_only H1 H2 H3 len0 todo sched t Hl).
  Qed.

  Lemma reader_step_proof :
    forall (s : @xstate K V) t p s' ls, reader_pc p = true ->
    @step_pc K V eqd hash idx tag nslots seeds grow_needed shrink_policy probe nstripes minlen grow_only s t p = Some (s', ls) ->
    shared_eq s s' /\ (forall t', t' <> t -> g_pc s' t' = g_pc s t') /\ g_todo s' = g_todo s
    /\ Forall (read_label t) ls.
  Proof.
    intros s t p s' ls Hr Hs.
    destruct (reader_step eqd hash idx tag nslots seeds grow_needed shrink_policy probe nstripes minlen grow_only s t p s' ls Hr Hs)
      as [A [B [C [D _]]]]. auto.
  Qed.
End Final.
