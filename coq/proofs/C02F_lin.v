(* C02F_lin.v -- C02_lin_gen.v's theorem WITH THE FINAL STATE: every run of Conc.v's atomic-map
   machine has a linearization w.r.t. [tspec] whose run ends in a specification state that is
   related by C01's R to the shared map at the end of the run ([runs_linearizable_final],
   [gen_linearizable_final]).  [step_invF] is C02_lin_gen.step_inv with the legality clause
   carrying the final state. *)
From CacheV Require Import Base SpecMap Client Ops SpecTTL Lin LinF Conc.
From CacheV.gen Require Import Params.
From CacheV.proofs Require Import C01_sim C01_ops C02_good C02_lin C02_lin_gen.

Section LinF.
  Context {K V : Type}.
  Variable eqd : forall a b : K, {a = b} + {a <> b}.
  Variable zero : V.
  Variables NOW DFLT : Z.
  Variable CB : cbid.
  Variable progs : cop K V -> prog K V (cres K V).

  Notation item := (item V).
  Notation cop := (cop K V).
  Notation cres := (cres K V).
  Notation good := (good eqd zero NOW DFLT CB).
  Notation mk := (mk NOW DFLT CB).
  Notation Rm := (Rm eqd NOW DFLT CB).
  Notation cconf := (@cconf K V).
  Notation cstep := (cstep eqd progs NOW DFLT CB).
  Notation crun := (crun eqd progs NOW DFLT CB).
  Notation label := (@label K V).
  Notation tspec := (tspec eqd zero).
  Notation Inv := (Inv eqd zero NOW DFLT CB).
  Notation mon_run := (mon_run CB).
  Notation mon_accepts := (mon_accepts CB).
  Notation mon_step := (mon_step CB).

  (* the one fact about the text *)
  Hypothesis Hinit : forall o : cop, conc_ok o -> good o None [] 0 (progs o).

  (* one step: what it does to the instrumented history, to the invariant and to the monitors *)
  Lemma step_invF s ist L gh t orc s1 ls1 :
    Inv s ist L gh -> cstep s t orc = Some (s1, ls1) ->
    exists ist1 L1 g1 marks,
      Inv s1 ist1 L1 (upd gh t g1)
      /\ erase _ _ marks = history ls1
      /\ (forall i, wf_inst _ _ ist1 i -> wf_inst _ _ ist (marks ++ i))
      /\ (forall i sf, legalF _ _ _ tspec (mk L1) i sf -> legalF _ _ _ tspec (mk L) (marks ++ i) sf)
      /\ labels_of t ls1
      /\ (forall m', mon_run t (Some (mon_of (c_thr s t) (gh t))) ls1 m' -> m' = Some (mon_of (c_thr s1 t) g1)).
  Proof.
    intros HI Hstep.
    pose proof (inv_thr eqd zero NOW DFLT CB _ _ _ _ HI t) as Ht. pose proof (inv_R eqd zero NOW DFLT CB _ _ _ _ HI) as HR.
    unfold Conc.cstep in Hstep.
    destruct (c_thr s t) as [|o p] eqn:Ethr.
    - (* invocation *)
      destruct (c_todo s t) as [|o rest_ops] eqn:Etodo; [discriminate|].
      injection Hstep as <- <-. cbn in Ht.
      assert (Hco : conc_ok o /\ Forall conc_ok rest_ops).
      { pose proof (inv_todo eqd zero NOW DFLT CB _ _ _ _ HI t) as Hf. rewrite Etodo in Hf. inversion Hf; auto. }
      destruct Hco as [Hco Hrest].
      exists (upd ist t (TInvoked o)), L, ([], 0%nat), [IInv t o].
      split; [|split; [reflexivity|split; [|split; [|split]]]].
      + eapply Inv_set; [exact HI | exact HR | |].
        * cbn. split; [exact Hco|]. left. split; [reflexivity|]. apply Hinit. exact Hco.
        * intros t'. unfold upd. destruct (Nat.eq_dec t' t); [exact Hrest | apply (inv_todo eqd zero NOW DFLT CB _ _ _ _ HI)].
      + intros i Hw. cbn. apply wf_inv; assumption.
      + intros i sf Hl. cbn. apply lf_inv; assumption.
      + repeat constructor.
      + intros m' Hr. apply mon_run_single in Hr. cbn in Hr. destruct (Nat.eq_dec t t); [|congruence].
        subst m'. cbn [c_thr]. rewrite upd_same. reflexivity.
    - (* a step of a running call *)
      cbn in Ht. destruct Ht as [Hco Hg]. destruct (gh t) as [owe nfn] eqn:Egh. cbn [fst snd] in Hg.
      destruct p as [r|mo k|k|k|d k|k|c k|e k].
      + (* Ret *)
        injection Hstep as <- <-.
        assert (Hst : ist t = TLinearized o r /\ owe = [] /\ fn_ok o r nfn).
        { destruct Hg as [[_ Hg]|[r' [Hst Hg]]]; cbn in Hg; destruct Hg as [Hl [Ho Hf]]; [discriminate | inversion Hl; subst; auto]. }
        destruct Hst as [Hst [Ho Hf]].
        exists (upd ist t TIdle), L, ([], 0%nat), [IRes t r].
        split; [|split; [reflexivity|split; [|split; [|split]]]].
        * unfold set_thr. eapply Inv_set; [exact HI | exact HR | cbn; reflexivity | apply (inv_todo eqd zero NOW DFLT CB _ _ _ _ HI)].
        * intros i Hw. cbn. eapply wf_res; eassumption.
        * intros i sf Hl. cbn. apply lf_res; assumption.
        * repeat constructor.
        * intros m' Hr. apply mon_run_single in Hr. cbn in Hr. destruct (Nat.eq_dec t t); [|congruence].
          destruct Hr as [[_ [_ ->]]|[Hn _]]; [|exfalso; apply Hn; subst; auto].
          cbn [c_thr set_thr]. rewrite upd_same. reflexivity.
      + (* a map call *)
        assert (Hcases :
          exists m' k' g1, s1 = {| c_map := m'; c_thr := upd (c_thr s) t (Running o k'); c_todo := c_todo s |}
            /\ history ls1 = [] /\ labels_of t ls1
            /\ (forall mm, mon_run t (Some {| m_op := Some o; m_owe := owe; m_nfn := nfn |}) ls1 mm ->
                  mm = Some {| m_op := Some o; m_owe := fst g1; m_nfn := snd g1 |})
            /\ ((Rm m' L /\ ((ist t = TInvoked o /\ good o None (fst g1) (snd g1) k')
                             \/ (exists r, ist t = TLinearized o r /\ good o (Some r) (fst g1) (snd g1) k')))
                \/ (ist t = TInvoked o /\ exists res,
                      spec_ok eqd zero (mk L) o res /\ Rm m' (st_map (spec_next eqd zero (mk L) o))
                      /\ good o (Some res) (fst g1) (snd g1) k'))).
        { destruct mo.
          8:{ (* the snapshot *)
              cbn [good] in Hg. injection Hstep as <- <-.
              exists (c_map s), (k (RSnap orc)), (owe, nfn). unfold set_thr.
              split; [reflexivity|]. split; [reflexivity|]. split; [repeat constructor|].
              split. { intros mm Hr. apply mon_run_single in Hr. cbn in Hr. subst. reflexivity. }
              cbn [fst snd].
              destruct Hg as [[Hst Hg]|[r [Hst Hg]]]; specialize (Hg _ _ HR orc); cbn [call_ok] in Hg.
              - destruct Hg as [[HR' Hg]|[res [Hok [HR' Hg]]]].
                + left. split; [exact HR'|]. left. auto.
                + right. split; [exact Hst|]. eauto.
              - destruct Hg as [HR' Hg]. left. split; [exact HR'|]. right. exists r. auto. }
          all: cbn [good] in Hg;
               destruct Hg as [[Hst Hg]|[r [Hst Hg]]]; specialize (Hg _ _ HR);
               revert Hstep Hg;
               match goal with |- context [map_step eqd ?m ?op] => destruct (map_step eqd m op) as [m' r'] eqn:Ems end;
               intros Hstep Hg; injection Hstep as <- <-;
               match type of Ems with map_step _ _ (to_mop _ ?MO) = _ =>
                 exists m', (k r'), (track eqd CB o (c_map s) m' owe, (nfn + length (fn_events MO r'))%nat) end;
               (split; [reflexivity|]);
               match type of Ems with map_step _ _ (to_mop _ ?MO) = _ =>
                 (split; [exact (step_labels_history t (fn_events MO r') (gone eqd (c_map s) m'))|]);
                 (split; [exact (step_labels_of t (fn_events MO r') (gone eqd (c_map s) m'))|]);
                 (split; [intros mm Hmm; exact (mon_step_labels CB t o owe nfn MO r' (gone eqd (c_map s) m') mm Hmm)|])
               end.
          all: cbn [fst snd]; cbn [call_ok] in Hg.
          all: first
            [ (* not yet linearized *)
              destruct Hg as [[HR' Hg]|[res [Hok [HR' Hg]]]];
              [ left; split; [exact HR'|]; left; split; [exact Hst | exact Hg]
              | right; split; [exact Hst|]; exists res; auto ]
            | (* already linearized *)
              destruct Hg as [HR' Hg]; left; split; [exact HR'|]; right; exists r; split; [exact Hst | exact Hg] ]. }
        destruct Hcases as [m' [k' [g1 [-> [Hh [Hlab [Hmon Hc]]]]]]].
        destruct Hc as [[HR' Hc]|[Hst [res [Hok [HR' Hg']]]]].
        * (* no linearization point at this step *)
          exists ist, L, g1, []. split; [|split; [symmetry; exact Hh|split; [auto|split; [auto|split; [exact Hlab|]]]]].
          -- assert (E : ist = upd ist t (ist t) \/ True) by (right; exact I). clear E.
             constructor; cbn.
             ++ exact HR'.
             ++ intros t'. unfold upd. destruct (Nat.eq_dec t' t) as [->|]; [|apply (inv_thr eqd zero NOW DFLT CB _ _ _ _ HI)].
                cbn. split; [exact Hco|]. destruct Hc as [[Hst Hg']|[r [Hst Hg']]]; [left|right]; eauto.
             ++ apply (inv_todo eqd zero NOW DFLT CB _ _ _ _ HI).
          -- intros mm Hr. cbn [mon_of] in Hr. rewrite (Hmon _ Hr). cbn [c_thr]. rewrite upd_same. reflexivity.
        * (* the linearization point *)
          exists (upd ist t (TLinearized o res)), (st_map (spec_next eqd zero (mk L) o)), g1, [ILin t o res].
          split; [|split; [cbn; symmetry; exact Hh|split; [|split; [|split; [exact Hlab|]]]]].
          -- eapply Inv_set; [exact HI | exact HR' | | apply (inv_todo eqd zero NOW DFLT CB _ _ _ _ HI)].
             cbn. split; [exact Hco|]. right. exists res. auto.
          -- intros i Hw. cbn. apply wf_lin; assumption.
          -- intros i sf Hl. cbn. eapply lf_lin; [|exact Hl]. split; [exact Hok|]. symmetry. apply spec_next_mk. exact Hco.
          -- intros mm Hr. cbn [mon_of] in Hr. rewrite (Hmon _ Hr). cbn [c_thr]. rewrite upd_same. reflexivity.
      + (* ReadNow *)
        injection Hstep as <- <-. exists ist, L, (owe, nfn), [].
        split; [|split; [reflexivity|split; [auto|split; [auto|split; [repeat constructor|]]]]].
        * unfold set_thr. constructor; cbn; [exact HR | | apply (inv_todo eqd zero NOW DFLT CB _ _ _ _ HI)].
          intros t'. unfold upd. destruct (Nat.eq_dec t' t) as [->|]; [|apply (inv_thr eqd zero NOW DFLT CB _ _ _ _ HI)].
          cbn. split; [exact Hco|]. exact Hg.
        * intros mm Hr. apply mon_run_single in Hr. cbn in Hr. subst mm. cbn [c_thr set_thr]. rewrite upd_same. reflexivity.
      + (* ReadDflt *)
        injection Hstep as <- <-. exists ist, L, (owe, nfn), [].
        split; [|split; [reflexivity|split; [auto|split; [auto|split; [repeat constructor|]]]]].
        * unfold set_thr. constructor; cbn; [exact HR | | apply (inv_todo eqd zero NOW DFLT CB _ _ _ _ HI)].
          intros t'. unfold upd. destruct (Nat.eq_dec t' t) as [->|]; [|apply (inv_thr eqd zero NOW DFLT CB _ _ _ _ HI)].
          cbn. split; [exact Hco|]. exact Hg.
        * intros mm Hr. apply mon_run_single in Hr. cbn in Hr. subst mm. cbn [c_thr set_thr]. rewrite upd_same. reflexivity.
      + discriminate.
      + (* ReadCb *)
        injection Hstep as <- <-. exists ist, L, (owe, nfn), [].
        split; [|split; [reflexivity|split; [auto|split; [auto|split; [repeat constructor|]]]]].
        * unfold set_thr. constructor; cbn; [exact HR | | apply (inv_todo eqd zero NOW DFLT CB _ _ _ _ HI)].
          intros t'. unfold upd. destruct (Nat.eq_dec t' t) as [->|]; [|apply (inv_thr eqd zero NOW DFLT CB _ _ _ _ HI)].
          cbn. split; [exact Hco|]. exact Hg.
        * intros mm Hr. apply mon_run_single in Hr. cbn in Hr. subst mm. cbn [c_thr set_thr]. rewrite upd_same. reflexivity.
      + discriminate.
      + (* Emit *)
        injection Hstep as <- <-.
        destruct e as [c k0 v|k0|k0 v].
        * (* a callback: the thread owes it *)
          assert (Hx : exists owe', CB = Some c /\ owe = (k0, v) :: owe'
                       /\ ((ist t = TInvoked o /\ good o None owe' nfn k)
                           \/ (exists r, ist t = TLinearized o r /\ good o (Some r) owe' nfn k))).
          { destruct Hg as [[Hst Hg]|[r [Hst Hg]]]; cbn [good] in Hg; destruct Hg as [owe' [Hcb [Ho Hg]]]; exists owe'; eauto 8. }
          destruct Hx as [owe' [Hcb [Ho Hg']]].
          exists ist, L, (owe', nfn), [].
          split; [|split; [reflexivity|split; [auto|split; [auto|split; [repeat constructor|]]]]].
          -- unfold set_thr. constructor; cbn; [exact HR | | apply (inv_todo eqd zero NOW DFLT CB _ _ _ _ HI)].
             intros t'. unfold upd. destruct (Nat.eq_dec t' t) as [->|]; [|apply (inv_thr eqd zero NOW DFLT CB _ _ _ _ HI)].
             cbn. split; [exact Hco|]. exact Hg'.
          -- intros mm Hr. apply mon_run_single in Hr. cbn in Hr. destruct (Nat.eq_dec t t); [|congruence].
             destruct Hr as [[rest [_ [Hr1 ->]]]|[Hn _]].
             ++ cbn [m_owe] in Hr1. rewrite Ho in Hr1. inversion Hr1; subst. cbn [c_thr set_thr]. rewrite upd_same. reflexivity.
             ++ exfalso. apply (Hn owe'). cbn. auto.
        * (* the user function is reported by the map call itself; no method body emits it *)
          exfalso. destruct Hg as [[Hst Hg]|[r [Hst Hg]]]; cbn [good] in Hg; exact Hg.
        * (* a visit *)
          exists ist, L, (owe, nfn), [].
          split; [|split; [reflexivity|split; [auto|split; [auto|split; [repeat constructor|]]]]].
          -- unfold set_thr. constructor; cbn; [exact HR | | apply (inv_todo eqd zero NOW DFLT CB _ _ _ _ HI)].
             intros t'. unfold upd. destruct (Nat.eq_dec t' t) as [->|]; [|apply (inv_thr eqd zero NOW DFLT CB _ _ _ _ HI)].
             cbn. split; [exact Hco|]. exact Hg.
          -- intros mm Hr. apply mon_run_single in Hr. cbn in Hr. subst mm. cbn [c_thr set_thr]. rewrite upd_same. reflexivity.
  Qed.


  Notation cstep_other := (C02_lin_gen.cstep_other eqd NOW DFLT CB progs).

  Theorem runs_linearizable_final sched : forall s ist L gh,
    Inv s ist L gh ->
    exists i ist' L' gh',
      erase _ _ i = history (snd (crun s sched)) /\ wf_inst _ _ ist i
      /\ legalF _ _ _ tspec (mk L) i (mk L')
      /\ Inv (fst (crun s sched)) ist' L' gh'.
  Proof.
    induction sched as [|[t orc] rest IH]; intros s ist L gh HI; cbn [Conc.crun].
    - exists [], ist, L, gh. cbn. split; [reflexivity|]. split; [constructor|]. split; [constructor | exact HI].
    - destruct (cstep s t orc) as [[s1 ls1]|] eqn:Hstep; [|apply (IH _ _ _ _ HI)].
      destruct (step_invF _ _ _ _ _ _ _ _ HI Hstep) as [ist1 [L1 [g1 [marks [HI1 [He [Hw [Hl _]]]]]]]].
      destruct (IH _ _ _ _ HI1) as [i [ist' [L' [gh' [He2 [Hw2 [Hl2 HI2]]]]]]].
      destruct (crun s1 rest) as [s2 ls2]. cbn [fst snd] in *.
      exists (marks ++ i), ist', L', gh'. split; [|split; [apply Hw; exact Hw2 | split; [apply Hl; exact Hl2 | exact HI2]]].
      rewrite history_app, <- He, <- He2. clear. induction marks as [|[] m IH]; cbn; auto; f_equal; auto.
  Qed.

  (* from any state reached sequentially, every thread idle: a linearization, the specification map L'
     it ends in, and C01's relation between the shared map at the end of the run and L' *)
  Theorem gen_linearizable_final (P0 L0 : amap K item) (todo : nat -> list cop) sched :
    Rm P0 L0 -> (forall t, Forall conc_ok (todo t)) ->
    exists L', linearizableF _ _ _ tspec (mk L0) (history (snd (crun (cinit P0 todo) sched))) (mk L')
               /\ Rm (c_map (fst (crun (cinit P0 todo) sched))) L'.
  Proof.
    intros HR Htodo.
    destruct (runs_linearizable_final sched _ _ _ _ (Inv_init eqd zero NOW DFLT CB P0 L0 todo HR Htodo))
      as [i [ist' [L' [gh' [E [W [Lg HI]]]]]]].
    exists L'. split; [exists i; auto|]. exact (inv_R eqd zero NOW DFLT CB _ _ _ _ HI).
  Qed.

End LinF.
Print Assumptions gen_linearizable_final.
