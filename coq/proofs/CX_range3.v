(* CX_range3.v -- C07 (Range / Items) at the CACHE level under concurrency, part 3: the two cache
   texts (xsync_map.go = prog_cache, xsync_mapof.go = prog_cacheof) over XMachine (MapOf).

   [range_call progs sup NOW DFLT CB todo0 sched0 sched t o rest l]: in the run of the product
   machine from the empty cache with the lists of calls todo0, after the moves sched0 thread t is
   idle and has the call o next on its list; after the further moves sched (of any threads) t is
   idle again, exactly this call consumed; and its history over sched contains the response CList l.
   [is_range o f hint]: o is Range f hint, or Items hint and f is the visitor that always says true.

   For every schedule, any number of threads, any calls of the other threads (whatever [sup] lets
   through to the machine):
     [*_range_returns]     the history of t over the window is [HInv t o; HRes t (CList l)];
     [*_range_once]        (a) the keys of l are pairwise distinct;
     [*_range_no_phantom]  (b) every (k, v) of l: at some configuration of the window in which the
                           traversal was under way on table tab, an item i with iv i = v, not
                           expired at NOW, was visible under k in table tab;
     [*_range_complete]    (c) an item i not expired at NOW that is visible under k in the traversed
                           table at every configuration of the window in which the traversal is
                           under way is in l (as (k, iv i)), if the visitor never said false.
   [cx2_is_gstep]: with sup := xsup the machine is [cx2step] / [cx2run] of CX_mapof2.v verbatim. *)
From CacheV Require Import Base SpecMap Client CacheModel CacheOfModel Ops SpecTTL Lin Conc XMachine.
From CacheV.gen Require Import Params.
From CacheV.proofs Require Import X_basic X_lin X_resize X_range CX_trans CX_compose CX_product CX_mapof CX_product2 X_linearizable2 CX_mapof2
  C07_range CX_range CX_range2.
From Coq Require Import NArith Lia Permutation.
Local Open Scope nat_scope.

Section Texts.
  Context {K V : Type}.
  Variable eqd : forall a b : K, {a = b} + {a <> b}.
  Variable zero : V.
  Notation item := (item V).

  Lemma rl_range_loop now f (l : list (K * item)) : forall vs, rl (vs ++ visits now f l) (CacheModel.range_loop now f l vs).
  Proof.
    induction l as [|[k i] r IH]; intros vs; cbn [CacheModel.range_loop visits].
    - rewrite app_nil_r. constructor.
    - destruct (expiredWithNow now i); [apply IH|]. constructor.
      destruct (f k (iv i)).
      + replace (vs ++ (k, iv i) :: visits now f r) with ((vs ++ [(k, iv i)]) ++ visits now f r) by (rewrite <- app_assoc; reflexivity).
        apply IH.
      + constructor.
  Qed.

  Lemma rl_range_loop_of now f (l : list (K * item)) : forall vs, rl (vs ++ visits now f l) (CacheOfModel.range_loop now f l vs).
  Proof.
    induction l as [|[k i] r IH]; intros vs; cbn [CacheOfModel.range_loop visits].
    - rewrite app_nil_r. constructor.
    - destruct (expiredWithNow now i); [apply IH|]. constructor.
      destruct (f k (iv i)).
      + replace (vs ++ (k, iv i) :: visits now f r) with ((vs ++ [(k, iv i)]) ++ visits now f r) by (rewrite <- app_assoc; reflexivity).
        apply IH.
      + constructor.
  Qed.

  Lemma pick_perm_of k (l : list (K * item)) :
    match CacheOfModel.pick eqd k l with
    | (Some p, rest) => Permutation l (p :: rest)
    | (None, rest) => rest = l
    end.
  Proof.
    induction l as [|[k' i] r IH]; cbn [CacheOfModel.pick]; auto.
    destruct (eqd k k'); [apply Permutation_refl|].
    destruct (CacheOfModel.pick eqd k r) as [[p|] rest].
    - eapply perm_trans; [apply perm_skip, IH | apply perm_swap].
    - subst. reflexivity.
  Qed.

  Lemma reorder_perm_of hint : forall l : list (K * item), Permutation l (CacheOfModel.reorder eqd hint l).
  Proof.
    induction hint as [|k hs IH]; intros l; cbn [CacheOfModel.reorder]; [apply Permutation_refl|].
    pose proof (pick_perm_of k l) as H. destruct (CacheOfModel.pick eqd k l) as [[p|] rest].
    - eapply perm_trans; [exact H | apply perm_skip, IH].
    - subst. apply IH.
  Qed.
End Texts.

Section Statements.
  Context {K V : Type}.
  Variable eqd : forall a b : K, {a = b} + {a <> b}.
  Variable hash : K -> N -> N.
  Variable idx : N -> nat -> nat.
  Variable tag : N -> N.
  Variable nslots : nat.
  Variable seeds : nat -> N.
  Variable grow_needed shrink_policy : nat -> Z -> bool.
  Variable probe : list (option N) -> N -> list nat.
  Variable nstripes : nat -> nat.
  Variable minlen : nat.
  Variable grow_only : bool.
  Variable len0 : nat.
  Variable zero : V.

  Notation item := (item V).
  Notation cop := (cop K V).
  Notation cres := (cres K V).
  Notation xstate := (@xstate K item).
  Notation pconf := (@CX_product2.pconf K V xstate).
  Notation px := (@p_x K V xstate).
  Notation pthr := (@p_thr K V xstate).
  Notation ptodo := (@p_todo K V xstate).
  Notation tab_at := (@tab_at K item nslots nstripes).
  Notation vis := (@X_lin.vis K item hash idx).
  Notation ginit := (@ginit K V nslots seeds nstripes len0).

  Section Call.
    Variable progs : cop -> prog K V cres.
    Variable sup : cmop K V -> bool.
    Variables NOW DFLT : Z.
    Variable CB : cbid.
    Notation pafter := (@pafter K V eqd hash idx tag nslots seeds grow_needed shrink_policy probe nstripes minlen grow_only progs NOW DFLT CB sup).
    Notation pouts := (@pouts K V eqd hash idx tag nslots seeds grow_needed shrink_policy probe nstripes minlen grow_only progs NOW DFLT CB sup).

    (* the configuration after the moves sched0 ++ a *)
    Definition conf_at (todo0 : nat -> list cop) (sched0 a : list nat) : pconf := pafter (pafter (ginit todo0) sched0) a.

    (* thread t's call o, from before its invocation to after its response *)
    Definition call_window (todo0 : nat -> list cop) (sched0 sched : list nat) (t : nat) (o : cop) (rest : list cop) : Prop :=
      pthr (conf_at todo0 sched0 []) t = QIdle /\ ptodo (conf_at todo0 sched0 []) t = o :: rest
      /\ pthr (conf_at todo0 sched0 sched) t = QIdle /\ ptodo (conf_at todo0 sched0 sched) t = rest.

    (* the history of thread t over the window *)
    Definition window_hist (todo0 : nat -> list cop) (sched0 sched : list nat) (t : nat) : list (hev cop cres) :=
      thist t (cproj (pouts (pafter (ginit todo0) sched0) sched)).

    Definition range_call todo0 sched0 sched t o rest (l : list (K * V)) : Prop :=
      call_window todo0 sched0 sched t o rest /\ In (HRes t (CList l)) (window_hist todo0 sched0 sched t).

    (* the traversal of thread t is under way on table tab, and (k, i) is visible in that table *)
    Definition seen_at (p : pconf) (t tab : nat) (k : K) (i : item) : Prop :=
      traversing t p tab /\ vis (tab_at (px p) tab) k i.
  End Call.

  Definition is_range (o : cop) (f : K -> V -> bool) (hint : list K) : Prop :=
    o = ORange (Some f) hint \/ (o = OItems hint /\ f = ftrue).

  Hypothesis Hx : xhyps4 idx nstripes minlen nslots probe.
  Hypothesis Hlen : 0 < len0.

  Variable sup : cmop K V -> bool.
  Variables NOW DFLT : Z.
  Variable CB : cbid.
  Variable todo0 : nat -> list cop.
  Variables sched0 sched : list nat.
  Variable t : nat.
  Variable o : cop.
  Variable f : K -> V -> bool.
  Variable hint : list K.
  Variable rest : list cop.
  Hypothesis Ho : is_range o f hint.

  (* ---------------- xsync_map.go ---------------- *)

  Notation pc := (prog_cache eqd zero).

  Theorem cache_range_returns : call_window pc sup NOW DFLT CB todo0 sched0 sched t o rest ->
    exists l, window_hist pc sup NOW DFLT CB todo0 sched0 sched t = [HInv t o; HRes t (CList l)].
  Proof.
    intros [H1 [H2 [H3 H4]]].
    destruct (cache_range_window eqd hash idx tag nslots seeds grow_needed shrink_policy probe nstripes minlen grow_only len0
                pc NOW DFLT CB sup Hx Hlen (@CacheModel.range_loop K V) (CacheModel.reorder eqd)
                (fun now f0 l vs => rl_range_loop now f0 l vs) (fun h l => reorder_perm eqd h l)
                (fun _ _ => eq_refl) (fun _ => eq_refl) todo0 sched0 t o f hint rest Ho H1 H2 sched H3 H4) as [tab [accF [E _]]].
    eexists. exact E.
  Qed.

  Theorem cache_range_once l : range_call pc sup NOW DFLT CB todo0 sched0 sched t o rest l -> NoDup (map fst l).
  Proof.
    intros [[H1 [H2 [H3 H4]]] H5].
    exact (cache_range_once eqd hash idx tag nslots seeds grow_needed shrink_policy probe nstripes minlen grow_only len0
             pc NOW DFLT CB sup Hx Hlen (@CacheModel.range_loop K V) (CacheModel.reorder eqd)
             (fun now f0 l vs => rl_range_loop now f0 l vs) (fun h l => reorder_perm eqd h l)
             (fun _ _ => eq_refl) (fun _ => eq_refl) todo0 sched0 t o f hint rest Ho H1 H2 sched H3 H4 l H5).
  Qed.

  Theorem cache_range_no_phantom l k v : range_call pc sup NOW DFLT CB todo0 sched0 sched t o rest l -> In (k, v) l ->
    exists a b tab i, sched = a ++ b /\ seen_at (conf_at pc sup NOW DFLT CB todo0 sched0 a) t tab k i
                      /\ iv i = v /\ expiredWithNow NOW i = false.
  Proof.
    intros [[H1 [H2 [H3 H4]]] H5] Hin.
    destruct (cache_range_no_phantom eqd hash idx tag nslots seeds grow_needed shrink_policy probe nstripes minlen grow_only len0
             pc NOW DFLT CB sup Hx Hlen (@CacheModel.range_loop K V) (CacheModel.reorder eqd)
             (fun now f0 l vs => rl_range_loop now f0 l vs) (fun h l => reorder_perm eqd h l)
             (fun _ _ => eq_refl) (fun _ => eq_refl) todo0 sched0 t o f hint rest Ho H1 H2 sched H3 H4 l H5 k v Hin)
      as [a [b [tab [i [E1 [E2 [E3 [E4 E5]]]]]]]].
    exists a, b, tab, i. unfold seen_at, conf_at. auto.
  Qed.

  Theorem cache_range_complete l k i : range_call pc sup NOW DFLT CB todo0 sched0 sched t o rest l ->
    expiredWithNow NOW i = false ->
    (forall a b tab, sched = a ++ b -> traversing t (conf_at pc sup NOW DFLT CB todo0 sched0 a) tab ->
                     vis (tab_at (px (conf_at pc sup NOW DFLT CB todo0 sched0 a)) tab) k i) ->
    (forall k' v', In (k', v') l -> f k' v' = true) ->
    In (k, iv i) l.
  Proof.
    intros [[H1 [H2 [H3 H4]]] H5] He Hv Hf.
    exact (cache_range_complete eqd hash idx tag nslots seeds grow_needed shrink_policy probe nstripes minlen grow_only len0
             pc NOW DFLT CB sup Hx Hlen (@CacheModel.range_loop K V) (CacheModel.reorder eqd)
             (fun now f0 l vs => rl_range_loop now f0 l vs) (fun h l => reorder_perm eqd h l)
             (fun _ _ => eq_refl) (fun _ => eq_refl) todo0 sched0 t o f hint rest Ho H1 H2 sched H3 H4 l H5 k i He Hv Hf).
  Qed.


  (* (b) sharper: one table for all the pairs, current at a configuration of the window *)
  Theorem cache_range_no_phantom_tab l : range_call pc sup NOW DFLT CB todo0 sched0 sched t o rest l ->
    exists tab, (exists a0 b0, sched = a0 ++ b0 /\ g_cur (px (conf_at pc sup NOW DFLT CB todo0 sched0 a0)) = tab)
      /\ forall k v, In (k, v) l ->
           exists a b i, sched = a ++ b /\ seen_at (conf_at pc sup NOW DFLT CB todo0 sched0 a) t tab k i
                         /\ iv i = v /\ expiredWithNow NOW i = false.
  Proof.
    intros [[H1 [H2 [H3 H4]]] H5].
    destruct (CX_range2.cache_range_no_phantom_tab eqd hash idx tag nslots seeds grow_needed shrink_policy probe nstripes minlen grow_only len0
             pc NOW DFLT CB sup Hx Hlen (@CacheModel.range_loop K V) (CacheModel.reorder eqd)
             (fun now f0 l vs => rl_range_loop now f0 l vs) (fun h l => reorder_perm eqd h l)
             (fun _ _ => eq_refl) (fun _ => eq_refl) todo0 sched0 t o f hint rest Ho H1 H2 sched H3 H4 l H5) as [tab [HC H]].
    exists tab. split; [exact HC|]. intros k v Hin. destruct (H k v Hin) as [a [b [i [E1 [E2 [E3 [E4 E5]]]]]]].
    exists a, b, i. unfold seen_at, conf_at. auto.
  Qed.

  (* (b) when no new table is published during the window: every pair was in the abstract map *)
  Theorem cache_range_no_phantom_abs l c : range_call pc sup NOW DFLT CB todo0 sched0 sched t o rest l ->
    (forall a b, sched = a ++ b -> g_cur (px (conf_at pc sup NOW DFLT CB todo0 sched0 a)) = c) ->
    forall k v, In (k, v) l ->
      exists a b i, sched = a ++ b /\ X_resize.abs hash idx nslots nstripes (px (conf_at pc sup NOW DFLT CB todo0 sched0 a)) k i
                    /\ iv i = v /\ expiredWithNow NOW i = false.
  Proof.
    intros [[H1 [H2 [H3 H4]]] H5].
    exact (CX_range2.cache_range_no_phantom_abs eqd hash idx tag nslots seeds grow_needed shrink_policy probe nstripes minlen grow_only len0
             pc NOW DFLT CB sup Hx Hlen (@CacheModel.range_loop K V) (CacheModel.reorder eqd)
             (fun now f0 l vs => rl_range_loop now f0 l vs) (fun h l => reorder_perm eqd h l)
             (fun _ _ => eq_refl) (fun _ => eq_refl) todo0 sched0 t o f hint rest Ho H1 H2 sched H3 H4 l H5 c).
  Qed.


  (* a call whose traversal is still under way (whether or not it ever returns): the pairs collected so far *)
  Theorem cache_range_pending o' k' acc :
    pthr (conf_at pc sup NOW DFLT CB todo0 sched0 []) t = QIdle -> ptodo (conf_at pc sup NOW DFLT CB todo0 sched0 []) t = o :: rest ->
    pthr (conf_at pc sup NOW DFLT CB todo0 sched0 sched) t = QSWait o' k' acc -> ptodo (conf_at pc sup NOW DFLT CB todo0 sched0 sched) t = rest ->
    NoDup (map fst acc)
    /\ exists tab, (exists a0 b0, sched = a0 ++ b0 /\ g_cur (px (conf_at pc sup NOW DFLT CB todo0 sched0 a0)) = tab)
         /\ forall k i, In (k, i) acc -> exists a b, sched = a ++ b /\ seen_at (conf_at pc sup NOW DFLT CB todo0 sched0 a) t tab k i.
  Proof.
    intros H1 H2 H3 H4.
    destruct (CX_range2.cache_range_pending eqd hash idx tag nslots seeds grow_needed shrink_policy probe nstripes minlen grow_only len0
             pc NOW DFLT CB sup Hx Hlen (@CacheModel.range_loop K V) (CacheModel.reorder eqd)
             (fun now f0 l vs => rl_range_loop now f0 l vs) (fun h l => reorder_perm eqd h l)
             (fun _ _ => eq_refl) (fun _ => eq_refl) todo0 sched0 t o f hint rest Ho H1 H2 sched o' k' acc H3 H4) as [Hnd [tab [HC [_ HW]]]].
    split; [exact Hnd|]. exists tab. split; [exact HC|]. intros k i Hin. destruct (HW k i Hin) as [a [b [E1 [E2 E3]]]].
    exists a, b. unfold seen_at, conf_at. auto.
  Qed.

  (* ---------------- xsync_mapof.go ---------------- *)

  Notation pco := (prog_cacheof eqd zero).

  Theorem cacheof_range_returns : call_window pco sup NOW DFLT CB todo0 sched0 sched t o rest ->
    exists l, window_hist pco sup NOW DFLT CB todo0 sched0 sched t = [HInv t o; HRes t (CList l)].
  Proof.
    intros [H1 [H2 [H3 H4]]].
    destruct (cache_range_window eqd hash idx tag nslots seeds grow_needed shrink_policy probe nstripes minlen grow_only len0
                pco NOW DFLT CB sup Hx Hlen (@CacheOfModel.range_loop K V) (CacheOfModel.reorder eqd)
                (fun now f0 l vs => rl_range_loop_of now f0 l vs) (fun h l => reorder_perm_of eqd h l)
                (fun _ _ => eq_refl) (fun _ => eq_refl) todo0 sched0 t o f hint rest Ho H1 H2 sched H3 H4) as [tab [accF [E _]]].
    eexists. exact E.
  Qed.

  Theorem cacheof_range_once l : range_call pco sup NOW DFLT CB todo0 sched0 sched t o rest l -> NoDup (map fst l).
  Proof.
    intros [[H1 [H2 [H3 H4]]] H5].
    exact (CX_range2.cache_range_once eqd hash idx tag nslots seeds grow_needed shrink_policy probe nstripes minlen grow_only len0
             pco NOW DFLT CB sup Hx Hlen (@CacheOfModel.range_loop K V) (CacheOfModel.reorder eqd)
             (fun now f0 l vs => rl_range_loop_of now f0 l vs) (fun h l => reorder_perm_of eqd h l)
             (fun _ _ => eq_refl) (fun _ => eq_refl) todo0 sched0 t o f hint rest Ho H1 H2 sched H3 H4 l H5).
  Qed.

  Theorem cacheof_range_no_phantom l k v : range_call pco sup NOW DFLT CB todo0 sched0 sched t o rest l -> In (k, v) l ->
    exists a b tab i, sched = a ++ b /\ seen_at (conf_at pco sup NOW DFLT CB todo0 sched0 a) t tab k i
                      /\ iv i = v /\ expiredWithNow NOW i = false.
  Proof.
    intros [[H1 [H2 [H3 H4]]] H5] Hin.
    destruct (CX_range2.cache_range_no_phantom eqd hash idx tag nslots seeds grow_needed shrink_policy probe nstripes minlen grow_only len0
             pco NOW DFLT CB sup Hx Hlen (@CacheOfModel.range_loop K V) (CacheOfModel.reorder eqd)
             (fun now f0 l vs => rl_range_loop_of now f0 l vs) (fun h l => reorder_perm_of eqd h l)
             (fun _ _ => eq_refl) (fun _ => eq_refl) todo0 sched0 t o f hint rest Ho H1 H2 sched H3 H4 l H5 k v Hin)
      as [a [b [tab [i [E1 [E2 [E3 [E4 E5]]]]]]]].
    exists a, b, tab, i. unfold seen_at, conf_at. auto.
  Qed.

  Theorem cacheof_range_complete l k i : range_call pco sup NOW DFLT CB todo0 sched0 sched t o rest l ->
    expiredWithNow NOW i = false ->
    (forall a b tab, sched = a ++ b -> traversing t (conf_at pco sup NOW DFLT CB todo0 sched0 a) tab ->
                     vis (tab_at (px (conf_at pco sup NOW DFLT CB todo0 sched0 a)) tab) k i) ->
    (forall k' v', In (k', v') l -> f k' v' = true) ->
    In (k, iv i) l.
  Proof.
    intros [[H1 [H2 [H3 H4]]] H5] He Hv Hf.
    exact (CX_range2.cache_range_complete eqd hash idx tag nslots seeds grow_needed shrink_policy probe nstripes minlen grow_only len0
             pco NOW DFLT CB sup Hx Hlen (@CacheOfModel.range_loop K V) (CacheOfModel.reorder eqd)
             (fun now f0 l vs => rl_range_loop_of now f0 l vs) (fun h l => reorder_perm_of eqd h l)
             (fun _ _ => eq_refl) (fun _ => eq_refl) todo0 sched0 t o f hint rest Ho H1 H2 sched H3 H4 l H5 k i He Hv Hf).
  Qed.


  (* (b) sharper: one table for all the pairs, current at a configuration of the window *)
  Theorem cacheof_range_no_phantom_tab l : range_call pco sup NOW DFLT CB todo0 sched0 sched t o rest l ->
    exists tab, (exists a0 b0, sched = a0 ++ b0 /\ g_cur (px (conf_at pco sup NOW DFLT CB todo0 sched0 a0)) = tab)
      /\ forall k v, In (k, v) l ->
           exists a b i, sched = a ++ b /\ seen_at (conf_at pco sup NOW DFLT CB todo0 sched0 a) t tab k i
                         /\ iv i = v /\ expiredWithNow NOW i = false.
  Proof.
    intros [[H1 [H2 [H3 H4]]] H5].
    destruct (CX_range2.cache_range_no_phantom_tab eqd hash idx tag nslots seeds grow_needed shrink_policy probe nstripes minlen grow_only len0
             pco NOW DFLT CB sup Hx Hlen (@CacheOfModel.range_loop K V) (CacheOfModel.reorder eqd)
             (fun now f0 l vs => rl_range_loop_of now f0 l vs) (fun h l => reorder_perm_of eqd h l)
             (fun _ _ => eq_refl) (fun _ => eq_refl) todo0 sched0 t o f hint rest Ho H1 H2 sched H3 H4 l H5) as [tab [HC H]].
    exists tab. split; [exact HC|]. intros k v Hin. destruct (H k v Hin) as [a [b [i [E1 [E2 [E3 [E4 E5]]]]]]].
    exists a, b, i. unfold seen_at, conf_at. auto.
  Qed.

  (* (b) when no new table is published during the window: every pair was in the abstract map *)
  Theorem cacheof_range_no_phantom_abs l c : range_call pco sup NOW DFLT CB todo0 sched0 sched t o rest l ->
    (forall a b, sched = a ++ b -> g_cur (px (conf_at pco sup NOW DFLT CB todo0 sched0 a)) = c) ->
    forall k v, In (k, v) l ->
      exists a b i, sched = a ++ b /\ X_resize.abs hash idx nslots nstripes (px (conf_at pco sup NOW DFLT CB todo0 sched0 a)) k i
                    /\ iv i = v /\ expiredWithNow NOW i = false.
  Proof.
    intros [[H1 [H2 [H3 H4]]] H5].
    exact (CX_range2.cache_range_no_phantom_abs eqd hash idx tag nslots seeds grow_needed shrink_policy probe nstripes minlen grow_only len0
             pco NOW DFLT CB sup Hx Hlen (@CacheOfModel.range_loop K V) (CacheOfModel.reorder eqd)
             (fun now f0 l vs => rl_range_loop_of now f0 l vs) (fun h l => reorder_perm_of eqd h l)
             (fun _ _ => eq_refl) (fun _ => eq_refl) todo0 sched0 t o f hint rest Ho H1 H2 sched H3 H4 l H5 c).
  Qed.


  (* a call whose traversal is still under way (whether or not it ever returns): the pairs collected so far *)
  Theorem cacheof_range_pending o' k' acc :
    pthr (conf_at pco sup NOW DFLT CB todo0 sched0 []) t = QIdle -> ptodo (conf_at pco sup NOW DFLT CB todo0 sched0 []) t = o :: rest ->
    pthr (conf_at pco sup NOW DFLT CB todo0 sched0 sched) t = QSWait o' k' acc -> ptodo (conf_at pco sup NOW DFLT CB todo0 sched0 sched) t = rest ->
    NoDup (map fst acc)
    /\ exists tab, (exists a0 b0, sched = a0 ++ b0 /\ g_cur (px (conf_at pco sup NOW DFLT CB todo0 sched0 a0)) = tab)
         /\ forall k i, In (k, i) acc -> exists a b, sched = a ++ b /\ seen_at (conf_at pco sup NOW DFLT CB todo0 sched0 a) t tab k i.
  Proof.
    intros H1 H2 H3 H4.
    destruct (CX_range2.cache_range_pending eqd hash idx tag nslots seeds grow_needed shrink_policy probe nstripes minlen grow_only len0
             pco NOW DFLT CB sup Hx Hlen (@CacheOfModel.range_loop K V) (CacheOfModel.reorder eqd)
             (fun now f0 l vs => rl_range_loop_of now f0 l vs) (fun h l => reorder_perm_of eqd h l)
             (fun _ _ => eq_refl) (fun _ => eq_refl) todo0 sched0 t o f hint rest Ho H1 H2 sched o' k' acc H3 H4) as [Hnd [tab [HC [_ HW]]]].
    split; [exact Hnd|]. exists tab. split; [exact HC|]. intros k i Hin. destruct (HW k i Hin) as [a [b [E1 [E2 E3]]]].
    exists a, b. unfold seen_at, conf_at. auto.
  Qed.

  (* ---------------- with sup := xsup this is the machine of CX_mapof2.v ---------------- *)

  Lemma cx2_is_gstep progs :
    gstep eqd hash idx tag nslots seeds grow_needed shrink_policy probe nstripes minlen grow_only progs NOW DFLT CB (@xsup K V)
    = cx2step eqd hash idx tag nslots seeds grow_needed shrink_policy probe nstripes minlen grow_only progs NOW DFLT CB
    /\ grun eqd hash idx tag nslots seeds grow_needed shrink_policy probe nstripes minlen grow_only progs NOW DFLT CB (@xsup K V)
       = cx2run eqd hash idx tag nslots seeds grow_needed shrink_policy probe nstripes minlen grow_only progs NOW DFLT CB
    /\ ginit todo0 = cx2init nslots seeds nstripes len0 todo0.
  Proof. split; [reflexivity|]. split; reflexivity. Qed.


End Statements.


(* ---------------- (a), spelled out over cx2run of CX_mapof2.v ---------------- *)
Section Cx2.
  Context {K V : Type}.
  Variable eqd : forall a b : K, {a = b} + {a <> b}.
  Variable hash : K -> N -> N.
  Variable idx : N -> nat -> nat.
  Variable tag : N -> N.
  Variable nslots : nat.
  Variable seeds : nat -> N.
  Variable grow_needed shrink_policy : nat -> Z -> bool.
  Variable probe : list (option N) -> N -> list nat.
  Variable nstripes : nat -> nat.
  Variable minlen : nat.
  Variable grow_only : bool.
  Variable len0 : nat.
  Variable zero : V.
  Notation cop := (cop K V).
  Notation cres := (cres K V).
  Notation xstate := (@xstate K (item V)).
  Notation pthr := (@p_thr K V xstate).
  Notation ptodo := (@p_todo K V xstate).

  Lemma in_cproj (e : hev cop cres) (outs : list (@out K V)) : In (OC e) outs -> In e (cproj outs).
  Proof.
    induction outs as [|[e'|e'] r IH]; cbn [cproj In]; [tauto | | ].
    - intros [E|H]; [inversion E; left; reflexivity | right; apply IH; exact H].
    - intros [E|H]; [discriminate E | apply IH; exact H].
  Qed.

  Theorem cx2_range_once :
    xhyps4 idx nstripes minlen nslots probe -> 0 < len0 ->
    forall NOW DFLT CB (todo0 : nat -> list cop) (sched0 sched : list nat) (t : nat) (o : cop) f hint (rest : list cop),
    is_range o f hint ->
    let run := cx2run eqd hash idx tag nslots seeds grow_needed shrink_policy probe nstripes minlen grow_only (prog_cache eqd zero) NOW DFLT CB in
    let p0 := fst (fst (run (cx2init nslots seeds nstripes len0 todo0) sched0)) in
    let p1 := fst (fst (run p0 sched)) in
    let outs := snd (fst (run p0 sched)) in
    pthr p0 t = QIdle -> ptodo p0 t = o :: rest -> pthr p1 t = QIdle -> ptodo p1 t = rest ->
    forall l, In (OC (HRes t (CList l))) outs -> NoDup (map fst l).
  Proof.
    intros Hx Hlen NOW DFLT CB todo0 sched0 sched t o f hint rest Ho run p0 p1 outs H1 H2 H3 H4 l Hin.
    apply (cache_range_once eqd hash idx tag nslots seeds grow_needed shrink_policy probe nstripes minlen grow_only len0 zero Hx Hlen
             (@xsup K V) NOW DFLT CB todo0 sched0 sched t o f hint rest Ho l).
    split; [split; [exact H1|]; split; [exact H2|]; split; [exact H3 | exact H4]|].
    unfold window_hist, thist. apply filter_In. split; [apply in_cproj; exact Hin | cbn [ev_thread]; apply Nat.eqb_refl].
  Qed.
End Cx2.

Print Assumptions cache_range_returns.
Print Assumptions cache_range_once.
Print Assumptions cache_range_no_phantom.
Print Assumptions cache_range_complete.
Print Assumptions cacheof_range_returns.
Print Assumptions cacheof_range_once.
Print Assumptions cacheof_range_no_phantom.
Print Assumptions cacheof_range_complete.
Print Assumptions cx2_range_once.
Print Assumptions cache_range_no_phantom_tab.
Print Assumptions cache_range_no_phantom_abs.
Print Assumptions cacheof_range_no_phantom_tab.
Print Assumptions cacheof_range_no_phantom_abs.
Print Assumptions cache_range_pending.
Print Assumptions cacheof_range_pending.
