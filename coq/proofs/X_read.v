(* X_read.v -- what a lookup that runs alone returns (XMachine, MapOf): from any
   reachable state, with every other thread frozen wherever it is, Load k
   returns v exactly when (k, v) is visible in the table it loaded -- i.e. the
   writes whose linearization store has happened, and no half-written one. *)
From CacheV Require Import Base SpecMap XMachine.
From CacheV.proofs Require Import X_basic X_inv X_c13 X_c16 X_own X_chain X_c04 X_lin X_resize.
From Coq Require Import NArith.
Local Open Scope nat_scope.

Section Read.
  Context {K V : Type}.
  Variable eqd : forall a b : K, {a = b} + {a <> b}.
  Variable hash : K -> N -> N.
  Variable idx : N -> nat -> nat.
  Variable tag : N -> N.
  Variable nslots : nat.
  Variable seeds : nat -> N.
  Variable grow_needed : nat -> Z -> bool.
  Variable shrink_policy : nat -> Z -> bool.
  Variable probe : list (option N) -> N -> list nat.
  Variable nstripes : nat -> nat.
  Variable minlen : nat.
  Variable grow_only : bool.

  Hypothesis Hidx : forall h len, 0 < len -> idx h len < len.
  Hypothesis Hstripes : forall len, 0 < nstripes len.
  Hypothesis Hminlen : 0 < minlen.
  Hypothesis Hnslots : 0 < nslots.
  Hypothesis Hprobe_sound : forall tags tg i, In i (probe tags tg) -> i < length tags /\ nth i tags None <> None.
  Hypothesis Hprobe_complete : forall tags tg i, i < length tags -> nth i tags None = Some tg -> In i (probe tags tg).

  Notation xstate := (@xstate K V).
  Notation pc := (@pc K V).
  Notation slot := (@slot K V).
  Notation empty_slot := (@empty_slot K V).
  Notation tab_at := (@tab_at K V nslots nstripes).
  Notation step_pc := (@step_pc K V eqd hash idx tag nslots seeds grow_needed shrink_policy probe nstripes minlen grow_only).
  Notation xstep := (@xstep K V eqd hash idx tag nslots seeds grow_needed shrink_policy probe nstripes minlen grow_only).
  Notation xrun := (@xrun K V eqd hash idx tag nslots seeds grow_needed shrink_policy probe nstripes minlen grow_only).
  Notation XInv := (@X_inv.XInv K V hash idx nslots nstripes).

  (* ---------------- what the reader computes on a chain that does not change ---------------- *)

  Fixpoint rd_ents (c : list slot) (k : K) (bi : nat) (todo : list nat) : option V :=
    match todo with
    | [] => None
    | i :: r =>
        match s_ent (nth (bi * nslots + i) c empty_slot) with
        | Some (k', v) => if eqd k k' then Some v else rd_ents c k bi r
        | None => rd_ents c k bi r
        end
    end.

  Fixpoint rd_from (c : list slot) (k : K) (tg : N) (bi fuel : nat) : option V :=
    match rd_ents c k bi (probe (tags_of (bucket_slots nslots c bi)) tg) with
    | Some v => Some v
    | None =>
        match fuel with
        | O => None
        | S f => if Nat.ltb (S bi) (nbuckets nslots c) then rd_from c k tg (S bi) f else None
        end
    end.

  Definition rd_next (c : list slot) (k : K) (tg : N) (bi : nat) : option V :=
    if Nat.ltb (S bi) (nbuckets nslots c) then rd_from c k tg (S bi) (nbuckets nslots c - S (S bi)) else None.

  Definition rchain (s : xstate) (tab : nat) (h : N) : list slot :=
    let tb := tab_at s tab in chain_of tb (idx h (x_len tb)).

  (* the value the lookup at program counter p will come back with, if the chain stays as it is *)
  Definition rd_out (s : xstate) (p : pc) : option V :=
    match p with
    | PL_Table k _ =>
        let tab := g_cur s in let h := hash k (x_seed (tab_at s tab)) in let c := rchain s tab h in
        rd_from c k (tag h) 0 (nbuckets nslots c - 1)
    | PL_Meta k _ tab h bi => let c := rchain s tab h in rd_from c k (tag h) bi (nbuckets nslots c - S bi)
    | PL_Ent k _ tab h bi todo =>
        let c := rchain s tab h in
        match rd_ents c k bi todo with Some v => Some v | None => rd_next c k (tag h) bi end
    | PL_Next k _ tab h bi => rd_next (rchain s tab h) k (tag h) bi
    | _ => None
    end.

  Lemma rd_from_unfold c k tg bi : 
    rd_from c k tg bi (nbuckets nslots c - S bi) =
    match rd_ents c k bi (probe (tags_of (bucket_slots nslots c bi)) tg) with
    | Some v => Some v
    | None => rd_next c k tg bi
    end.
  Proof.
    unfold rd_next. destruct (nbuckets nslots c - S bi) as [|f] eqn:E; cbn [rd_from].
    - destruct (rd_ents _ _ _ _); [reflexivity|]. destruct (Nat.ltb (S bi) (nbuckets nslots c)) eqn:El; [|reflexivity].
      apply Nat.ltb_lt in El. lia.
    - destruct (rd_ents _ _ _ _); [reflexivity|]. destruct (Nat.ltb (S bi) (nbuckets nslots c)) eqn:El; [|reflexivity].
      replace (nbuckets nslots c - S (S bi)) with f by lia. reflexivity.
  Qed.


  (* ---------------- the same search as the writers' locked one ---------------- *)

  Lemma rd_ents_find (c : list slot) k tg bi : (S bi) * nslots <= length c ->
    rd_ents c k bi (probe (tags_of (bucket_slots nslots c bi)) tg) = option_map snd (find_in_bucket eqd nslots probe k tg c bi).
  Proof.
    intros Hlen. unfold find_in_bucket.
    assert (Hin : forall i, In i (probe (tags_of (bucket_slots nslots c bi)) tg) -> i < nslots).
    { intros i Hi. destruct (Hprobe_sound _ _ _ Hi) as [Hl _]. unfold tags_of in Hl.
      rewrite map_length, (bucket_slots_length nslots Hnslots c bi Hlen) in Hl. exact Hl. }
    induction (probe (tags_of (bucket_slots nslots c bi)) tg) as [|i r IH]; [reflexivity|].
    cbn [rd_ents map first_some]. rewrite (nth_bucket_slots nslots Hnslots c bi i (Hin i (or_introl eq_refl))).
    destruct (s_ent (nth (bi * nslots + i) c empty_slot)) as [[k' v]|].
    - destruct (eqd k k'); [reflexivity|]. apply IH. intros j Hj. apply Hin. right. exact Hj.
    - apply IH. intros j Hj. apply Hin. right. exact Hj.
  Qed.

  Lemma rd_from_find (c : list slot) k tg : length c = nbuckets nslots c * nslots ->
    forall fuel bi, bi + S fuel = nbuckets nslots c ->
    rd_from c k tg bi fuel = option_map snd (find_chain eqd nslots probe k tg c bi (S fuel)).
  Proof.
    intros Hlen. induction fuel as [|f IH]; intros bi Hb; cbn [rd_from XMachine.find_chain].
    - rewrite rd_ents_find by nia. destruct (find_in_bucket eqd nslots probe k tg c bi) as [[p v]|]; reflexivity.
    - rewrite rd_ents_find by nia. destruct (find_in_bucket eqd nslots probe k tg c bi) as [[p v]|]; [reflexivity|].
      cbn [option_map]. assert (El : Nat.ltb (S bi) (nbuckets nslots c) = true) by (apply Nat.ltb_lt; lia). rewrite El.
      apply IH. lia.
  Qed.


  Notation XC := (@X_c04.XC K V hash idx tag nslots nstripes).
  Notation vis := (@X_lin.vis K V hash idx).

  (* on a published table the lookup finds exactly what is visible *)
  Lemma rd_vis s tab k v : XInv s -> XC s -> tab < length (g_tabs s) -> (forall u, newtab (g_pc s u) <> Some tab) ->
    let tb := tab_at s tab in let h := hash k (x_seed tb) in let c := chain_of tb (idx h (x_len tb)) in
    (rd_from c k (tag h) 0 (nbuckets nslots c - 1) = Some v <-> vis tb k v).
  Proof.
    intros HI HC Htab Hpub tb h c.
    assert (Hb : idx h (x_len tb) < x_len tb) by (apply Hidx; apply (xi_wf _ _ _ _ s HI tab Htab)).
    destruct (xc_ch _ _ _ _ _ s HC tab _ Htab Hpub Hb) as [Csh [Cun Csl]].
    fold tb in Csh, Cun, Csl. change (X_c04.chain nslots nstripes s tab (idx h (x_len tb))) with c in Csh, Cun, Csl.
    destruct (shaped_nbuckets nslots Hnslots c Csh) as [Elen Hnb].
    rewrite (rd_from_find c k (tag h) Elen (nbuckets nslots c - 1) 0) by lia.
    replace (S (nbuckets nslots c - 1)) with (nbuckets nslots c) by lia.
    unfold X_lin.vis. change (chain_of tb (home hash idx tb k)) with c.
    destruct (find_chain eqd nslots probe k (tag h) c 0 (nbuckets nslots c)) as [[pos v0]|] eqn:E; cbn [option_map snd].
    - destruct (search_hit eqd nslots probe Hnslots Hprobe_sound _ _ _ _ _ Csh E) as [A [B C]]. split.
      + intros Ev. inversion Ev; subst. exists pos. auto.
      + intros [p [Hp [Ht He]]]. f_equal. assert (pos = p) by (eapply Cun; eassumption). subst. congruence.
    - split; [discriminate|]. intros [p [Hp [Ht He]]]. exfalso.
      specialize (Csl p Hp). unfold X_c04.slot_ok in Csl. unfold ent_at in He. unfold tag_at in Ht. rewrite He in Csl.
      destruct (s_tag (nth p c empty_slot)) as [tg|] eqn:Et; [|congruence]. destruct Csl as [_ Etg].
      apply (search_miss eqd nslots probe Hnslots Hprobe_complete k (tag h) c Csh E p v Hp); [|exact He].
      unfold tag_at. rewrite Et, Etg. reflexivity.
  Qed.


  (* ---------------- a plain Load, step by step ---------------- *)

  Definition plain_load (p : pc) : bool :=
    match p with
    | PL_Table _ LPlain | PL_Meta _ LPlain _ _ _ | PL_Ent _ LPlain _ _ _ _ | PL_Next _ LPlain _ _ _ => true
    | _ => false
    end.

  Definition res_of (o : option V) : @xres K V :=
    match o with Some v => XRVal (Some v) true | None => XRVal None false end.

  Lemma some_pair2 {A B} (g : A * B) a b : Some g = Some (a, b) -> a = fst g /\ b = snd g.
  Proof. intros H. inversion H. auto. Qed.

  Lemma goto_labels2 (s : xstate) t p ls :
    snd (goto s t p ls) = match p with PRet r => ls ++ [XRes t r] | _ => ls end.
  Proof. destruct p; reflexivity. Qed.

  Lemma load_step s t p s' ls : plain_load p = true -> step_pc s t p = Some (s', ls) ->
    g_tabs s' = g_tabs s /\ g_cur s' = g_cur s /\ (forall t', t' <> t -> g_pc s' t' = g_pc s t')
    /\ ((plain_load (g_pc s' t) = true /\ rd_out s (g_pc s' t) = rd_out s p)
        \/ (g_pc s' t = PIdle /\ In (XRes t (res_of (rd_out s p))) ls)).
  Proof.
    intros Hp Hs.
    destruct p; try discriminate Hp; destruct lc; try discriminate Hp;
      cbn [XMachine.step_pc] in Hs; cbv zeta in Hs;
      repeat match type of Hs with
             | context [match ?x with _ => _ end] => destruct x eqn:?
             end; try discriminate Hs; apply some_pair2 in Hs; destruct Hs as [-> ->];
      rewrite ?goto_state', ?goto_labels2; cbn [fst];
      (split; [reflexivity | split; [reflexivity | split; [intros t' Hne; cbn [g_pc set_pc]; destruct (Nat.eq_dec t' t); [contradiction|reflexivity]|]]]);
      cbn [g_pc set_pc norm]; (destruct (Nat.eq_dec t t) as [_|Hc]; [|exfalso; apply Hc; reflexivity]).
    all: first [ left; split; [reflexivity|] | right; split; [reflexivity|] ].
    all: cbn [rd_out]; unfold rchain.
    - (* Table -> Meta 0 *) reflexivity.
    - (* Meta -> Next: nothing probed *) rewrite rd_from_unfold. rewrite Heql. reflexivity.
    - (* Meta -> Ent *) rewrite rd_from_unfold. rewrite Heql. reflexivity.
    - (* Ent: hit *) cbn [rd_ents]. rewrite Heqo. destruct (eqd k k0) as [He|Hc]; [|exfalso; apply Hc; assumption].
      apply in_or_app. right. left. reflexivity.
    - (* Ent: other key, last *) cbn [rd_ents]. rewrite Heqo. destruct (eqd k k0) as [Hc|He]; [contradiction|]. reflexivity.
    - (* Ent: other key, more *) cbn [rd_ents]. rewrite Heqo. destruct (eqd k k0) as [Hc|He]; [contradiction|]. reflexivity.
    - (* Ent: nil, last *) cbn [rd_ents]. rewrite Heqo. reflexivity.
    - (* Ent: nil, more *) cbn [rd_ents]. rewrite Heqo. reflexivity.
    - (* Next -> Meta (S bi) *) unfold rd_next. rewrite Heqb. reflexivity.
    - (* Next -> miss *) unfold rd_next. rewrite Heqb. apply in_or_app. right. left. reflexivity.
  Qed.


  Lemma plain_reader (p : pc) : plain_load p = true -> reader_pc p = true.
  Proof. destruct p; cbn; try discriminate; auto. Qed.

  Lemma rd_out_same (s s' : xstate) p : g_tabs s' = g_tabs s -> g_cur s' = g_cur s -> rd_out s' p = rd_out s p.
  Proof. intros E1 E2. unfold rd_out, rchain, XMachine.tab_at. rewrite E1, E2. reflexivity. Qed.

  Notation rd_bound := (@X_c16.rd_bound K V hash idx tag nslots probe nstripes).

  (* Load k run alone from any state satisfying the protocol invariant *)
  Theorem solo_load t : forall n s, XInv s -> plain_load (g_pc s t) = true -> rd_bound s (g_pc s t) <= n ->
    exists m, m <= n /\
      g_pc (fst (xrun s (repeat t m))) t = PIdle
      /\ In (XRes t (res_of (rd_out s (g_pc s t)))) (snd (xrun s (repeat t m)))
      /\ g_tabs (fst (xrun s (repeat t m))) = g_tabs s /\ g_cur (fst (xrun s (repeat t m))) = g_cur s
      /\ (forall t', t' <> t -> g_pc (fst (xrun s (repeat t m))) t' = g_pc s t').
  Proof.
    induction n as [|n IH]; intros s HI Hp Hb.
    - exfalso. destruct (g_pc s t); try discriminate; cbn in Hb; lia.
    - pose proof (plain_reader _ Hp) as Hr.
      destruct (step_pc s t (g_pc s t)) as [[s1 ls1]|] eqn:E.
      2:{ exfalso. eapply (reader_never_blocks eqd hash idx tag nslots seeds grow_needed shrink_policy probe nstripes minlen grow_only);
          [apply (xi_valid _ _ _ _ s HI t) | exact Hr | exact E]. }
      destruct (reader_step eqd hash idx tag nslots seeds grow_needed shrink_policy probe nstripes minlen grow_only s t _ s1 ls1 Hr E)
        as [Hsh [_ [_ [_ Hdec]]]].
      destruct (load_step s t _ s1 ls1 Hp E) as [Et [Ec [Hoth Hcase]]].
      assert (Ex : xstep s t = step_pc s t (g_pc s t)).
      { unfold XMachine.xstep. destruct (g_pc s t); try reflexivity. discriminate Hp. }
      assert (HI1 : XInv s1).
      { eapply (xstep_inv eqd hash idx tag nslots seeds grow_needed shrink_policy probe nstripes minlen grow_only Hidx Hstripes Hminlen s t);
          [exact HI | rewrite Ex; exact E]. }
      destruct Hcase as [[Hp1 Hout]|[Hidle Hin]].
      + assert (Hr1 : reader_pc (g_pc s1 t) = true) by (apply plain_reader; exact Hp1).
        specialize (Hdec Hr1).
        destruct (IH s1 HI1 Hp1) as [m [Hm [F1 [F2 [F3 [F4 F5]]]]]].
        { rewrite (rd_bound_shared hash idx tag nslots probe nstripes s s1 _ Hsh). lia. }
        exists (S m). split; [lia|]. cbn [repeat XMachine.xrun]. rewrite Ex, E.
        destruct (XMachine.xrun _ _ _ _ _ _ _ _ _ _ _ _ s1 (repeat t m)) as [s2 ls2] eqn:E2. cbn [fst snd] in *.
        split; [exact F1|]. split.
        * apply in_or_app. right. rewrite (rd_out_same s s1 _ Et Ec) in F2. rewrite Hout in F2. exact F2.
        * split; [congruence|]. split; [congruence|]. intros t' Hne. rewrite (F5 t' Hne). apply Hoth. exact Hne.
      + exists 1. split; [lia|]. cbn [repeat XMachine.xrun]. rewrite Ex, E. cbn [fst snd].
        split; [exact Hidle|]. split; [rewrite app_nil_r; exact Hin|]. auto.
  Qed.


  Notation XT := (@X_own.XT K V).

  (* C16, last sentence: the lookup that runs alone while everybody else is frozen returns what is
     visible in the current table -- the last completely written value of the key, or absent *)
  Theorem solo_load_visible s t k : XInv s -> XT s -> XC s -> g_pc s t = PL_Table k LPlain ->
    exists m o, m <= rd_bound s (PL_Table k LPlain)
      /\ g_pc (fst (xrun s (repeat t m))) t = PIdle
      /\ In (XRes t (res_of o)) (snd (xrun s (repeat t m)))
      /\ (forall v, o = Some v <-> vis (tab_at s (g_cur s)) k v)
      /\ g_tabs (fst (xrun s (repeat t m))) = g_tabs s /\ g_cur (fst (xrun s (repeat t m))) = g_cur s
      /\ (forall t', t' <> t -> g_pc (fst (xrun s (repeat t m))) t' = g_pc s t').
  Proof.
    intros HI HT HC Hp.
    destruct (solo_load t (rd_bound s (g_pc s t)) s HI) as [m [Hm [F1 [F2 [F3 [F4 F5]]]]]]; [rewrite Hp; reflexivity | lia |].
    rewrite Hp in *. exists m, (rd_out s (PL_Table k LPlain)).
    split; [exact Hm|]. split; [exact F1|]. split; [exact F2|]. split; [|auto].
    intros v. cbn [rd_out]. unfold rchain.
    apply (rd_vis s (g_cur s) k v HI HC (xi_cur _ _ _ _ s HI)).
    intros u Eu. destruct (xt_new s HT u _ Eu) as [_ B]. lia.
  Qed.

  (* ---------------- from the call itself ---------------- *)

  (* the state in which thread t has just been handed its next call o *)
  Definition invoked (s : xstate) (t : nat) (o : xop) (rest : list xop) : xstate :=
    {| g_tabs := g_tabs s; g_cur := g_cur s; g_resizing := g_resizing s; g_rmu := g_rmu s;
       g_growths := g_growths s; g_shrinks := g_shrinks s;
       g_pc := fun t' => if Nat.eq_dec t' t then start_pc o else g_pc s t';
       g_todo := fun t' => if Nat.eq_dec t' t then rest else g_todo s t' |}.

  Lemma start_not_idle (o : xop) : @start_pc K V o <> PIdle.
  Proof. destruct o; cbn; try discriminate; destruct lie; discriminate. Qed.

  (* the invocation is part of the thread's first step: running t from the idle state s is
     running it from [invoked s t o rest], with the invocation event in front *)
  Lemma invoke_run s t o rest m : g_pc s t = PIdle -> g_todo s t = o :: rest ->
    step_pc (invoked s t o rest) t (start_pc o) <> None ->
    xrun s (repeat t (S m)) = (fst (xrun (invoked s t o rest) (repeat t (S m))),
                               XMachine.XInv t o :: snd (xrun (invoked s t o rest) (repeat t (S m)))).
  Proof.
    intros Hp Ht Hne. cbn [repeat XMachine.xrun].
    assert (E1 : xstep s t = match step_pc (invoked s t o rest) t (start_pc o) with
                             | Some (s2, ls) => Some (s2, XMachine.XInv t o :: ls)
                             | None => Some (invoked s t o rest, [XMachine.XInv t o]) end).
    { unfold XMachine.xstep. rewrite Hp, Ht. reflexivity. }
    assert (Ep : g_pc (invoked s t o rest) t = start_pc o).
    { unfold invoked. cbn [g_pc]. destruct (Nat.eq_dec t t); congruence. }
    assert (E2 : xstep (invoked s t o rest) t = step_pc (invoked s t o rest) t (start_pc o)).
    { unfold XMachine.xstep. rewrite Ep. pose proof (start_not_idle o) as Hn. destruct (start_pc o); try reflexivity. congruence. }
    rewrite E1, E2. destruct (step_pc (invoked s t o rest) t (start_pc o)) as [[s2 ls]|]; [|congruence].
    destruct (XMachine.xrun _ _ _ _ _ _ _ _ _ _ _ _ s2 (repeat t m)) as [s3 ls3]. reflexivity.
  Qed.

  Lemma invoked_inv s t o rest : XInv s -> XT s -> XC s -> g_pc s t = PIdle ->
    XInv (invoked s t o rest) /\ XT (invoked s t o rest) /\ XC (invoked s t o rest).
  Proof.
    intros HI HT HC Hp.
    exact (invoke_inv hash idx tag nslots seeds grow_needed nstripes minlen Hminlen Hnslots s t o rest HI HT HC Hp).
  Qed.

  (* C16, last sentence, from the call: thread t is idle and its next call is Load k; run alone
     (everybody else frozen wherever they are) it returns what is visible in the current table *)
  Theorem call_load_visible s t k rest : XInv s -> XT s -> XC s -> g_pc s t = PIdle -> g_todo s t = XLoad k :: rest ->
    exists m o, m <= rd_bound (invoked s t (XLoad k) rest) (PL_Table k LPlain)
      /\ g_pc (fst (xrun s (repeat t m))) t = PIdle
      /\ In (XRes t (res_of o)) (snd (xrun s (repeat t m)))
      /\ (forall v, o = Some v <-> vis (tab_at s (g_cur s)) k v)
      /\ g_tabs (fst (xrun s (repeat t m))) = g_tabs s /\ g_cur (fst (xrun s (repeat t m))) = g_cur s
      /\ (forall t', t' <> t -> g_pc (fst (xrun s (repeat t m))) t' = g_pc s t').
  Proof.
    intros HI HT HC Hp Ht.
    destruct (invoked_inv s t (XLoad k) rest HI HT HC Hp) as [HI1 [HT1 HC1]].
    set (s1 := invoked s t (XLoad k) rest) in *.
    assert (Ep : g_pc s1 t = PL_Table k LPlain) by (unfold s1, invoked; cbn [g_pc start_pc]; destruct (Nat.eq_dec t t); congruence).
    destruct (solo_load_visible s1 t k HI1 HT1 HC1 Ep) as [m [o [Hm [F1 [F2 [F3 [F4 [F5 F6]]]]]]]].
    destruct m as [|m]; [cbn [repeat XMachine.xrun fst] in F1; rewrite Ep in F1; discriminate|].
    exists (S m), o. split; [exact Hm|].
    rewrite (invoke_run s t (XLoad k) rest m Hp Ht); [|cbn; discriminate]. fold s1. cbn [fst snd].
    split; [exact F1|]. split; [right; exact F2|]. split; [exact F3|]. split; [exact F4|]. split; [exact F5|].
    intros t' Hne. rewrite (F6 t' Hne). unfold s1, invoked. cbn [g_pc]. destruct (Nat.eq_dec t' t); [contradiction | reflexivity].
  Qed.

End Read.

(* ---------------- the statement of props/C16.v ---------------- *)
Section Final.
  Context {K V : Type}.
  Variable eqd : forall a b : K, {a = b} + {a <> b}.
  Variable hash : K -> N -> N.
  Variable idx : N -> nat -> nat.
  Variable tag : N -> N.
  Variable nslots : nat.
  Variable seeds : nat -> N.
  Variable grow_needed shrink_policy : nat -> Z -> bool.
  Variable probe : list (option N) -> N -> list nat.
  Variable nstripes : nat -> nat.
  Variable minlen : nat.
  Variable grow_only : bool.

  Notation xrun := (@xrun K V eqd hash idx tag nslots seeds grow_needed shrink_policy probe nstripes minlen grow_only).

  Lemma solo_load_visible_proof :
    xhyps4 idx nstripes minlen nslots probe -> forall len0 todo sched t k rest, 0 < len0 ->
    let s := fst (xrun (xinit nslots seeds nstripes len0 todo) sched) in
    g_pc s t = PIdle -> g_todo s t = XLoad k :: rest ->
    exists m o, m <= X_c16.rd_bound hash idx tag nslots probe nstripes (invoked s t (XLoad k) rest) (PL_Table k LPlain)
      /\ g_pc (fst (xrun s (repeat t m))) t = PIdle
      /\ In (XRes t (res_of o)) (snd (xrun s (repeat t m)))
      /\ (forall v, o = Some v <-> X_lin.vis hash idx (tab_at nslots nstripes s (g_cur s)) k v)
      /\ g_tabs (fst (xrun s (repeat t m))) = g_tabs s /\ g_cur (fst (xrun s (repeat t m))) = g_cur s
      /\ (forall t', t' <> t -> g_pc (fst (xrun s (repeat t m))) t' = g_pc s t').
  Proof.
    intros [[H1 [H2 H3]] [H4 [H5 H6]]] len0 todo sched t k rest Hl s Hp Ht.
    destruct (reachable_inv4 eqd hash idx tag nslots seeds grow_needed shrink_policy probe nstripes minlen grow_only H1 H2 H3 H4 H5 H6 len0 todo sched Hl)
      as [HI [_ [HT HC]]].
    exact (call_load_visible eqd hash idx tag nslots seeds grow_needed shrink_policy probe nstripes minlen grow_only
             H1 H2 H3 H4 H5 H6 s t k rest HI HT HC Hp Ht).
  Qed.
End Final.
