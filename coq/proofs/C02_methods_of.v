(* C02_methods_of.v -- every method of the generic twin (CacheOfModel.v,
   xsync_mapof.go) is [good] (C02_good.v, used as is: it does not mention either
   text) from its first step.

   Route: the two texts are STEP-SIMILAR ([psim]): with the settings of the
   concurrent phase (clock, default expiration, callback) they make the same
   sequence of reads, map calls and callback events; on EVERY state of the shared
   map each pair of corresponding map calls leaves the same map and reports the
   same number of user-function invocations, and the continuations are again
   similar on the two (possibly different) results; they return the same answer.
   [good] is preserved by step-similarity ([good_psim]), so [good_init_of]
   follows from C02_methods.good_init.  Because the similarity is checked map
   call by map call on an arbitrary map -- not on the map the previous call left --
   it is exactly what matters under interleaving.

   Where the texts differ (none of it matters, which is what psim_* say):
   - closures of the twin see (value, loaded) with value = the zero itemOf[V]
     when not loaded ([arg]) and test `loaded && !expired`; the original
     matches on the option;
   - GetAndSet: the original assigns the captured `old` whenever the key is
     loaded, live or not; the twin only when it is live.  The aux reported by
     the Compute call differs (a_old) when the entry is expired; the method's
     answer does not look at it in that case;
   - Get / GetAndRefresh return `iv zeroedV` where the original returns `zero`;
   - get returns (itemOf[V], bool) instead of an option;
   - delexp_closure tests `loaded && expired`, then `loaded`. *)
From CacheV Require Import Base SpecMap Client CacheModel CacheOfModel Ops SpecTTL Conc.
From CacheV.gen Require Import Params.
From CacheV.proofs Require Import C01_sim C01_ops C02_good C02_methods.

Section Sim.
  Context {K V : Type}.
  Variable eqd : forall a b : K, {a = b} + {a <> b}.
  Variable zero : V.
  Variables NOW DFLT : Z.
  Variable CB : cbid.

  Notation item := (item V).
  Notation cop := (cop K V).
  Notation cres := (cres K V).
  Notation prog := (prog K V).
  Notation good := (good eqd zero NOW DFLT CB).
  Notation Rm := (Rm eqd NOW DFLT CB).
  Notation env0 := (env0 NOW DFLT).

  Definition is_snap (mo : cmop K V) : bool := match mo with CSnapshot => true | _ => false end.

  (* step-similarity of two programs whose answers are related by RR *)
  Fixpoint psim {A B} (RR : A -> B -> Prop) (p : prog A) (q : prog B) {struct p} : Prop :=
    match p, q with
    | Ret a, Ret b => RR a b
    | ReadNow k, ReadNow k' => psim RR (k NOW) (k' NOW)
    | ReadDflt k, ReadDflt k' => psim RR (k DFLT) (k' DFLT)
    | ReadCb k, ReadCb k' => psim RR (k CB) (k' CB)
    | Emit e k, Emit e' k' => e = e' /\ psim RR k k'
    | MapCall mo k, MapCall mo' k' =>
        if is_snap mo then is_snap mo' = true /\ forall l, psim RR (k (RSnap l)) (k' (RSnap l))
        else is_snap mo' = false /\
             forall P, psim RR (k (snd (map_step eqd P (to_mop env0 mo)))) (k' (snd (map_step eqd P (to_mop env0 mo'))))
                       /\ fst (map_step eqd P (to_mop env0 mo)) = fst (map_step eqd P (to_mop env0 mo'))
                       /\ length (fn_events mo (snd (map_step eqd P (to_mop env0 mo))))
                          = length (fn_events mo' (snd (map_step eqd P (to_mop env0 mo'))))
    | _, _ => False
    end.

  Lemma call_ok_mono (o : cop) lin (P' L : amap K item) (G G' : option cres -> Prop) :
    (forall l, G l -> G' l) -> call_ok eqd zero NOW DFLT CB o lin P' L G -> call_ok eqd zero NOW DFLT CB o lin P' L G'.
  Proof.
    intros HG. unfold call_ok. destruct lin as [r|].
    - intros [A B]. split; [exact A | apply HG; exact B].
    - intros [[A B]|[res [A [B C]]]]; [left; split; [exact A | apply HG; exact B] | right; exists res; split; [exact A|]; split; [exact B | apply HG; exact C]].
  Qed.

  Lemma good_MapCall o lin owe nfn (mo : cmop K V) (k : imres K V -> prog cres) : is_snap mo = false ->
    (good o lin owe nfn (MapCall mo k) <->
     (forall P L, Rm P L ->
       call_ok eqd zero NOW DFLT CB o lin (fst (map_step eqd P (to_mop env0 mo))) L (fun lin' =>
         good o lin' (track eqd CB o P (fst (map_step eqd P (to_mop env0 mo))) owe)
              (nfn + length (fn_events mo (snd (map_step eqd P (to_mop env0 mo))))) (k (snd (map_step eqd P (to_mop env0 mo))))))).
  Proof.
    intros Hs. destruct mo; try discriminate Hs; cbn [C02_good.good]; split; intros H P L HR; specialize (H P L HR);
      destruct (map_step eqd P (to_mop env0 _)) as [P' r']; exact H.
  Qed.

  Lemma good_Snap o lin owe nfn (k : imres K V -> prog cres) :
    good o lin owe nfn (MapCall CSnapshot k) =
    (forall P L, Rm P L -> forall l, call_ok eqd zero NOW DFLT CB o lin P L (fun lin' => good o lin' owe nfn (k (RSnap l)))).
  Proof. reflexivity. Qed.

  (* [good] only looks at what step-similarity preserves *)
  Theorem good_psim o (p : prog cres) : forall (q : prog cres) lin owe nfn,
    psim eq p q -> good o lin owe nfn p -> good o lin owe nfn q.
  Proof.
    induction p as [r|mo k IH|k IH|k IH|d k IH|k IH|c k IH|e k IH]; intros q lin owe nfn Hs Hg;
      destruct q as [r'|mo' k'|k'|k'|d' k'|k'|c' k'|e' k']; cbn [psim] in Hs; try contradiction.
    - subst r'. exact Hg.
    - destruct (is_snap mo) eqn:Es.
      + destruct Hs as [Es' Hs]. destruct mo; try discriminate Es. destruct mo'; try discriminate Es'.
        rewrite good_Snap in *. intros P L HR l. eapply call_ok_mono; [|exact (Hg P L HR l)].
        intros lin'. apply IH. apply Hs.
      + destruct Hs as [Es' Hs]. apply (good_MapCall o lin owe nfn mo' k' Es'). pose proof (proj1 (good_MapCall o lin owe nfn mo k Es) Hg) as Hg'.
        intros P L HR. destruct (Hs P) as [Hk [EP El]]. rewrite <- EP, <- El.
        eapply call_ok_mono; [|exact (Hg' P L HR)]. intros lin'. apply IH. exact Hk.
    - rewrite good_ReadNow in *. eapply IH; eassumption.
    - rewrite good_ReadDflt in *. eapply IH; eassumption.
    - rewrite good_ReadCb in *. eapply IH; eassumption.
    - destruct Hs as [<- Hs]. cbn [C02_good.good] in *. destruct e as [c0 k0 v0|k0|k0 v0].
      + destruct Hg as [owe' [A [B C]]]. exists owe'. split; [exact A|]. split; [exact B|]. eapply IH; eassumption.
      + exact Hg.
      + eapply IH; eassumption.
  Qed.

  (* ---------------- the two texts, method by method ---------------- *)

  Lemma psim_bind {A B A' B'} (RR : A -> B -> Prop) (RR' : A' -> B' -> Prop) (p : prog A) :
    forall (q : prog B) (f : A -> prog A') (g : B -> prog B'),
    psim RR p q -> (forall a b, RR a b -> psim RR' (f a) (g b)) ->
    psim RR' (CacheModel.bind p f) (CacheOfModel.bind q g).
  Proof.
    induction p as [r|mo k IH|k IH|k IH|d k IH|k IH|c k IH|e k IH]; intros q f g Hs Hf;
      destruct q as [r'|mo' k'|k'|k'|d' k'|k'|c' k'|e' k']; cbn [psim] in Hs; try contradiction;
      cbn [CacheModel.bind CacheOfModel.bind psim].
    - apply Hf. exact Hs.
    - destruct (is_snap mo).
      + destruct Hs as [E Hs]. split; [exact E|]. intros l. exact (IH _ _ f g (Hs l) Hf).
      + destruct Hs as [E Hs]. split; [exact E|]. intros P. destruct (Hs P) as [Hk [EP El]].
        split; [exact (IH _ _ f g Hk Hf) | split; [exact EP | exact El]].
    - exact (IH _ _ f g Hs Hf).
    - exact (IH _ _ f g Hs Hf).
    - exact (IH _ _ f g Hs Hf).
    - destruct Hs as [E Hs]. split; [exact E | exact (IH _ f g Hs Hf)].
  Qed.

  (* one non-snapshot map call on each side *)
  Lemma psim_call {A B} (RR : A -> B -> Prop) (mo mo' : cmop K V) k k' :
    is_snap mo = false -> is_snap mo' = false ->
    (forall P, psim RR (k (snd (map_step eqd P (to_mop env0 mo)))) (k' (snd (map_step eqd P (to_mop env0 mo'))))
               /\ fst (map_step eqd P (to_mop env0 mo)) = fst (map_step eqd P (to_mop env0 mo'))
               /\ length (fn_events mo (snd (map_step eqd P (to_mop env0 mo))))
                  = length (fn_events mo' (snd (map_step eqd P (to_mop env0 mo'))))) ->
    psim RR (MapCall mo k) (MapCall mo' k').
  Proof. intros E E' H. cbn [psim]. rewrite E. split; [exact E' | exact H]. Qed.

  Lemma psim_RN {A B} (RR : A -> B -> Prop) k k' : psim RR (k NOW) (k' NOW) -> psim RR (ReadNow k) (ReadNow k').
  Proof. exact (fun H => H). Qed.
  Lemma psim_RD {A B} (RR : A -> B -> Prop) k k' : psim RR (k DFLT) (k' DFLT) -> psim RR (ReadDflt k) (ReadDflt k').
  Proof. exact (fun H => H). Qed.
  Lemma psim_RC {A B} (RR : A -> B -> Prop) k k' : psim RR (k CB) (k' CB) -> psim RR (ReadCb k) (ReadCb k').
  Proof. exact (fun H => H). Qed.
  Lemma psim_Ret {A B} (RR : A -> B -> Prop) a b : RR a b -> psim RR (Ret a) (Ret b).
  Proof. exact (fun H => H). Qed.
  Lemma psim_Emit {A B} (RR : A -> B -> Prop) e k k' : psim RR k k' -> psim RR (Emit e k) (Emit e k').
  Proof. intros H. split; [reflexivity | exact H]. Qed.

  Ltac by_map k :=
    let P2 := fresh "P" in
    apply psim_call; [reflexivity | reflexivity |]; intros P2; cbn [to_mop map_step];
    unfold CacheModel.expired, CacheOfModel.expired, CacheOfModel.arg, Conc.env0; cbn [e_now e_dflt];
    destruct (lookup eqd k P2) as [?i|]; cbn [andb negb];
    [match goal with |- context [expiredWithNow NOW ?i] => destruct (expiredWithNow NOW i) eqn:?He end|]; cbn.

  Lemma psim_Set k v d : psim eq (CacheModel.Set_ k v d) (CacheOfModel.Set_ k v d).
  Proof.
    unfold CacheModel.Set_, CacheOfModel.Set_, CacheModel.expiration_prog, CacheOfModel.expiration_prog.
    destruct (d =? DefaultExpiration); [apply psim_RD|]; cbv beta zeta; [destruct (0 <? DFLT) | destruct (0 <? d)]; try apply psim_RN;
      (apply psim_call; [reflexivity | reflexivity |]; intros P; cbn; auto).
  Qed.

  Definition grel (a : option item) (b : item * bool) : Prop :=
    match a with Some i => b = (i, true) | None => b = (CacheOfModel.zeroedV zero, false) end.

  Lemma psim_get k : psim grel (CacheModel.get zero k) (CacheOfModel.get zero k).
  Proof.
    unfold CacheModel.get, CacheOfModel.get.
    apply psim_call; [reflexivity | reflexivity |]. intros P. cbn [to_mop map_step].
    destruct (lookup eqd k P) as [i|]; cbn [fst snd fn_events length]; [|split; [apply psim_Ret; reflexivity | auto]].
    split; [|auto]. apply psim_RN. destruct (expiredWithNow NOW i); cbn [negb]; [|apply psim_Ret; reflexivity].
    unfold get_closure. by_map k; auto.
  Qed.

  Lemma psim_Get k : psim eq (CacheModel.Get zero k) (CacheOfModel.Get zero k).
  Proof.
    unfold CacheModel.Get, CacheOfModel.Get. apply (psim_bind grel eq); [apply psim_get|].
    intros [i|] b Hb; cbn in Hb; subst b; apply psim_Ret; reflexivity.
  Qed.

  Lemma psim_GetWithExpiration k : psim eq (CacheModel.GetWithExpiration zero k) (CacheOfModel.GetWithExpiration zero k).
  Proof.
    unfold CacheModel.GetWithExpiration, CacheOfModel.GetWithExpiration. apply (psim_bind grel eq); [apply psim_get|].
    intros [i|] b Hb; cbn in Hb; subst b; cbn [negb]; [destruct (0 <? ie i)|]; apply psim_Ret; reflexivity.
  Qed.

  Lemma psim_GetWithTTL k : psim eq (CacheModel.GetWithTTL zero k) (CacheOfModel.GetWithTTL zero k).
  Proof.
    unfold CacheModel.GetWithTTL, CacheOfModel.GetWithTTL. apply (psim_bind grel eq); [apply psim_get|].
    intros [i|] b Hb; cbn in Hb; subst b; cbn [negb]; [destruct (0 <? ie i); [apply psim_RN|]|]; apply psim_Ret; reflexivity.
  Qed.

  Lemma psim_GetOrSet k v d : psim eq (CacheModel.GetOrSet zero k v d) (CacheOfModel.GetOrSet zero k v d).
  Proof. unfold CacheModel.GetOrSet, CacheOfModel.GetOrSet. by_map k; auto. Qed.

  (* the captured `old` differs when the entry is expired; the answer does not *)
  Lemma psim_GetAndSet k v d : psim eq (CacheModel.GetAndSet zero k v d) (CacheOfModel.GetAndSet zero k v d).
  Proof. unfold CacheModel.GetAndSet, CacheOfModel.GetAndSet. by_map k; auto. Qed.

  Lemma psim_GetAndRefresh k d : psim eq (CacheModel.GetAndRefresh zero k d) (CacheOfModel.GetAndRefresh zero k d).
  Proof. unfold CacheModel.GetAndRefresh, CacheOfModel.GetAndRefresh. by_map k; auto. Qed.

  Lemma psim_GetOrCompute k v d : psim eq (CacheModel.GetOrCompute zero k v d) (CacheOfModel.GetOrCompute zero k v d).
  Proof. unfold CacheModel.GetOrCompute, CacheOfModel.GetOrCompute. by_map k; auto. Qed.

  Lemma psim_Compute k fn d : psim eq (CacheModel.Compute zero k fn d) (CacheOfModel.Compute zero k fn d).
  Proof.
    unfold CacheModel.Compute, CacheOfModel.Compute. by_map k;
      match goal with |- context [fn ?a ?b] => destruct (fn a b) as [? []] end; cbn; auto.
  Qed.

  Lemma psim_GetAndDelete k : psim eq (CacheModel.GetAndDelete zero k) (CacheOfModel.GetAndDelete zero k).
  Proof.
    unfold CacheModel.GetAndDelete, CacheOfModel.GetAndDelete.
    apply psim_call; [reflexivity | reflexivity |]. intros P. cbn [to_mop map_step].
    destruct (lookup eqd k P) as [i|]; cbn [fst snd fn_events length]; (split; [|auto]); [|apply psim_Ret; reflexivity].
    apply psim_RN, psim_RC. unfold CacheModel.fire, CacheOfModel.fire.
    destruct CB; [apply psim_Emit|]; destruct (expiredWithNow NOW i); apply psim_Ret; reflexivity.
  Qed.

  Lemma psim_Delete k : psim eq (CacheModel.Delete zero k) (CacheOfModel.Delete zero k).
  Proof.
    unfold CacheModel.Delete, CacheOfModel.Delete. apply (psim_bind eq eq); [apply psim_GetAndDelete|].
    intros a b _. apply psim_Ret. reflexivity.
  Qed.

  Lemma psim_fire_all c (l : list (K * V)) :
    psim eq (CacheModel.fire_all c l (Ret (CUnit (K:=K) (V:=V)))) (CacheOfModel.fire_all c l (Ret CUnit)).
  Proof. induction l as [|[k v] t IH]; cbn [CacheModel.fire_all CacheOfModel.fire_all]; [apply psim_Ret; reflexivity | apply psim_Emit; exact IH]. Qed.

  Lemma psim_delexp_loop ec now (snap : list (K * item)) : forall ev,
    psim eq (CacheModel.delexp_loop zero ec now snap ev) (CacheOfModel.delexp_loop zero ec now snap ev).
  Proof.
    induction snap as [|[k i0] t IH]; intros ev; cbn [CacheModel.delexp_loop CacheOfModel.delexp_loop].
    - destruct ec; [apply psim_fire_all | apply psim_Ret; reflexivity].
    - destruct (expiredWithNow now i0); [|apply IH].
      apply psim_call; [reflexivity | reflexivity |]. intros P. cbn [to_mop map_step].
      unfold CacheModel.delexp_closure, CacheOfModel.delexp_closure, CacheOfModel.arg.
      destruct (lookup eqd k P) as [cur|]; cbn [andb].
      + destruct (expiredWithNow now cur); cbn; (split; [|auto]); [destruct ec|]; apply IH.
      + cbn. split; [apply IH | auto].
  Qed.

  Lemma psim_DeleteExpired : psim eq (CacheModel.DeleteExpired zero) (CacheOfModel.DeleteExpired (K:=K) zero).
  Proof.
    unfold CacheModel.DeleteExpired, CacheOfModel.DeleteExpired. apply psim_RC, psim_RN.
    cbn [psim is_snap]. split; [reflexivity|]. intros l. apply psim_delexp_loop.
  Qed.

  Lemma psim_Clear : psim eq (@CacheModel.Clear K V) (@CacheOfModel.Clear K V).
  Proof. unfold CacheModel.Clear, CacheOfModel.Clear. apply psim_call; [reflexivity | reflexivity |]. intros P. cbn. auto. Qed.

  (* ---------- every call of a concurrent phase starts out good, in the generic twin too ---------- *)

  Theorem psim_init (o : cop) : conc_ok o -> psim eq (prog_cache eqd zero o) (prog_cacheof eqd zero o).
  Proof.
    destruct o; cbn [conc_ok prog_cache prog_cacheof]; intros Hc; try contradiction.
    - apply psim_Set. - apply psim_Set. - apply psim_Set.
    - apply psim_Get. - apply psim_GetWithExpiration. - apply psim_GetWithTTL.
    - apply psim_GetOrSet. - apply psim_GetAndSet. - apply psim_GetAndRefresh.
    - apply psim_GetOrCompute. - apply psim_Compute.
    - apply psim_GetAndDelete. - apply psim_Delete. - apply psim_DeleteExpired. - apply psim_Clear.
  Qed.

  Theorem good_init_of (o : cop) : conc_ok o -> good o None [] 0 (prog_cacheof eqd zero o).
  Proof.
    intros Hc. apply (good_psim o (prog_cache eqd zero o)); [apply psim_init; exact Hc | apply good_init; exact Hc].
  Qed.

End Sim.
