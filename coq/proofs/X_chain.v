(* X_chain.v -- bucket chains of XMachine as finite maps: what a reader can see
   in a chain ([cvis]), how each single-cell store of a writer changes it, and
   what the locked search of doCompute (find_chain, first_free) tells the writer.
   Pure list reasoning; no machine states here. *)
From CacheV Require Import Base SpecMap XMachine.
From CacheV.proofs Require Import X_basic.
From Coq Require Import NArith.
Local Open Scope nat_scope.

Section Chain.
  Context {K V : Type}.
  Variable eqd : forall a b : K, {a = b} + {a <> b}.
  Variable nslots : nat.
  Variable probe : list (option N) -> N -> list nat.

  Hypothesis Hnslots : 0 < nslots.
  (* the SWAR match of util.go visits every slot whose meta byte equals the tag,
     possibly others whose byte is not the empty mark, and never an empty-marked one *)
  Hypothesis Hprobe_sound : forall tags tg i, In i (probe tags tg) -> i < length tags /\ nth i tags None <> None.
  Hypothesis Hprobe_complete : forall tags tg i, i < length tags -> nth i tags None = Some tg -> In i (probe tags tg).

  Notation slot := (@slot K V).
  Notation empty_slot := (@empty_slot K V).
  Notation upd_nth := XMachine.upd_nth.

  Definition ent_at (c : list slot) (pos : nat) : option (K * V) := s_ent (nth pos c empty_slot).
  Definition tag_at (c : list slot) (pos : nat) : option N := s_tag (nth pos c empty_slot).

  (* what a lock-free reader can find: meta byte set and entry pointer set *)
  Definition cvis (c : list slot) (k : K) (v : V) : Prop :=
    exists pos, pos < length c /\ tag_at c pos <> None /\ ent_at c pos = Some (k, v).

  Definition has_key (c : list slot) (k : K) : Prop :=
    exists pos v, pos < length c /\ ent_at c pos = Some (k, v).

  Definition uniq (c : list slot) : Prop :=
    forall p1 p2 k v1 v2, p1 < length c -> p2 < length c ->
      ent_at c p1 = Some (k, v1) -> ent_at c p2 = Some (k, v2) -> p1 = p2.

  (* ---------------- one cell is stored ---------------- *)

  Lemma set_slot_length (c : list slot) pos f : length (set_slot c pos f) = length c.
  Proof. apply upd_nth_length. Qed.

  Lemma nth_set_slot (c : list slot) pos f p : pos < length c ->
    nth p (set_slot c pos f) empty_slot = if Nat.eq_dec p pos then f (nth pos c empty_slot) else nth p c empty_slot.
  Proof.
    intros H. unfold set_slot. rewrite nth_upd_nth. destruct (Nat.eq_dec p pos); [|reflexivity].
    apply Nat.ltb_lt in H. rewrite H. reflexivity.
  Qed.

  Lemma ent_set_tag (c : list slot) pos tg p : pos < length c ->
    ent_at (set_slot c pos (fun sl => {| s_tag := tg; s_ent := s_ent sl |})) p = ent_at c p.
  Proof. intros H. unfold ent_at. rewrite nth_set_slot by exact H. destruct (Nat.eq_dec p pos); [subst|]; reflexivity. Qed.

  Lemma tag_set_tag (c : list slot) pos tg p : pos < length c ->
    tag_at (set_slot c pos (fun sl => {| s_tag := tg; s_ent := s_ent sl |})) p = if Nat.eq_dec p pos then tg else tag_at c p.
  Proof. intros H. unfold tag_at. rewrite nth_set_slot by exact H. destruct (Nat.eq_dec p pos); reflexivity. Qed.

  Lemma tag_set_ent (c : list slot) pos e p : pos < length c ->
    tag_at (set_slot c pos (fun sl => {| s_tag := s_tag sl; s_ent := e |})) p = tag_at c p.
  Proof. intros H. unfold tag_at. rewrite nth_set_slot by exact H. destruct (Nat.eq_dec p pos); [subst|]; reflexivity. Qed.

  Lemma ent_set_ent (c : list slot) pos e p : pos < length c ->
    ent_at (set_slot c pos (fun sl => {| s_tag := s_tag sl; s_ent := e |})) p = if Nat.eq_dec p pos then e else ent_at c p.
  Proof. intros H. unfold ent_at. rewrite nth_set_slot by exact H. destruct (Nat.eq_dec p pos); reflexivity. Qed.

  (* update in place / second store of an insert: the entry pointer of slot pos becomes (k, nv) *)
  Lemma cvis_store_ent (c : list slot) pos k nv :
    pos < length c -> tag_at c pos <> None ->
    (forall p v, p < length c -> p <> pos -> ent_at c p <> Some (k, v)) ->
    (forall k' v', ent_at c pos = Some (k', v') -> k' = k) ->
    forall k' v',
      cvis (set_slot c pos (fun sl => {| s_tag := s_tag sl; s_ent := Some (k, nv) |})) k' v'
      <-> (k' = k /\ v' = nv) \/ (k' <> k /\ cvis c k' v').
  Proof.
    intros Hpos Htag Hother Hown k' v'. unfold cvis. rewrite set_slot_length. split.
    - intros [p [Hp [Ht He]]]. rewrite tag_set_ent in Ht by exact Hpos. rewrite ent_set_ent in He by exact Hpos.
      destruct (Nat.eq_dec p pos) as [->|Hne].
      + inversion He; subst. left. auto.
      + right. split.
        * intros ->. eapply Hother; eassumption.
        * exists p. auto.
    - intros [[-> ->]|[Hne [p [Hp [Ht He]]]]].
      + exists pos. rewrite tag_set_ent, ent_set_ent by exact Hpos. destruct (Nat.eq_dec pos pos); [auto|congruence].
      + exists p. rewrite tag_set_ent, ent_set_ent by exact Hpos. destruct (Nat.eq_dec p pos) as [->|]; [|auto].
        exfalso. apply Hne. eapply Hown. exact He.
  Qed.

  (* first store of a delete: the meta byte of slot pos (holding k) is marked empty *)
  Lemma cvis_clear_tag (c : list slot) pos k old :
    pos < length c -> ent_at c pos = Some (k, old) -> uniq c ->
    forall k' v',
      cvis (set_slot c pos (fun sl => {| s_tag := None; s_ent := s_ent sl |})) k' v'
      <-> k' <> k /\ cvis c k' v'.
  Proof.
    intros Hpos He0 Hu k' v'. unfold cvis. rewrite set_slot_length. split.
    - intros [p [Hp [Ht He]]]. rewrite tag_set_tag in Ht by exact Hpos. rewrite ent_set_tag in He by exact Hpos.
      destruct (Nat.eq_dec p pos) as [->|Hne]; [congruence|]. split.
      + intros ->. apply Hne. eapply Hu; eassumption.
      + exists p. auto.
    - intros [Hne [p [Hp [Ht He]]]]. exists p. rewrite tag_set_tag, ent_set_tag by exact Hpos.
      destruct (Nat.eq_dec p pos) as [->|]; [|auto]. rewrite He0 in He. inversion He; subst. congruence.
  Qed.

  (* second store of a delete: slot pos, already marked empty, loses its entry pointer *)
  Lemma cvis_clear_ent (c : list slot) pos :
    pos < length c -> tag_at c pos = None ->
    forall k' v', cvis (set_slot c pos (fun sl => {| s_tag := s_tag sl; s_ent := None |})) k' v' <-> cvis c k' v'.
  Proof.
    intros Hpos Ht0 k' v'. unfold cvis. rewrite set_slot_length. split.
    - intros [p [Hp [Ht He]]]. rewrite tag_set_ent in Ht by exact Hpos. rewrite ent_set_ent in He by exact Hpos.
      destruct (Nat.eq_dec p pos); [discriminate|]. exists p. auto.
    - intros [p [Hp [Ht He]]]. exists p. rewrite tag_set_ent, ent_set_ent by exact Hpos.
      destruct (Nat.eq_dec p pos) as [->|]; [congruence|auto].
  Qed.

  (* first store of an insert: the meta byte of a free slot is set; nothing to see yet *)
  Lemma cvis_set_tag (c : list slot) pos tg :
    pos < length c -> ent_at c pos = None ->
    forall k' v', cvis (set_slot c pos (fun sl => {| s_tag := Some tg; s_ent := s_ent sl |})) k' v' <-> cvis c k' v'.
  Proof.
    intros Hpos He0 k' v'. unfold cvis. rewrite set_slot_length. split.
    - intros [p [Hp [Ht He]]]. rewrite ent_set_tag in He by exact Hpos. rewrite tag_set_tag in Ht by exact Hpos.
      destruct (Nat.eq_dec p pos) as [->|]; [congruence|]. exists p. auto.
    - intros [p [Hp [Ht He]]]. exists p. rewrite ent_set_tag, tag_set_tag by exact Hpos.
      destruct (Nat.eq_dec p pos) as [->|]; [congruence|auto].
  Qed.

  (* a new bucket is linked: its first slot holds (k, nv), the others are free *)
  Lemma cvis_append (c : list slot) tg k nv :
    ~ has_key c k ->
    forall k' v',
      cvis (c ++ {| s_tag := Some tg; s_ent := Some (k, nv) |} :: repeat empty_slot (nslots - 1)) k' v'
      <-> (k' = k /\ v' = nv) \/ (k' <> k /\ cvis c k' v').
  Proof.
    intros Hno k' v'. unfold cvis, tag_at, ent_at. split.
    - intros [p [Hp [Ht He]]]. destruct (Nat.lt_ge_cases p (length c)) as [Hlt|Hge].
      + rewrite app_nth1 in Ht, He by exact Hlt. right. split.
        * intros ->. apply Hno. exists p, v'. auto.
        * exists p. auto.
      + rewrite app_nth2 in Ht, He by exact Hge. destruct (p - length c) as [|q] eqn:E.
        * cbn in He. inversion He; subst. left. auto.
        * cbn [nth] in He. exfalso. destruct (Nat.lt_ge_cases q (nslots - 1)) as [Hq|Hq].
          -- rewrite nth_repeat in He. discriminate.
          -- rewrite nth_overflow in He by (rewrite repeat_length; exact Hq). discriminate.
    - intros [[-> ->]|[Hne [p [Hp [Ht He]]]]].
      + exists (length c). rewrite app_length. cbn [length]. split; [lia|].
        rewrite !app_nth2 by lia. rewrite Nat.sub_diag. cbn. split; [discriminate|reflexivity].
      + exists p. rewrite app_length. split; [lia|]. rewrite !app_nth1 by exact Hp. auto.
  Qed.

  (* ---------------- keys stay unique ---------------- *)

  Lemma uniq_set_tag (c : list slot) pos tg : pos < length c -> uniq c ->
    uniq (set_slot c pos (fun sl => {| s_tag := tg; s_ent := s_ent sl |})).
  Proof.
    intros Hpos Hu p1 p2 k v1 v2. rewrite set_slot_length, !ent_set_tag by exact Hpos. apply Hu.
  Qed.

  Lemma uniq_clear_ent (c : list slot) pos : pos < length c -> uniq c ->
    uniq (set_slot c pos (fun sl => {| s_tag := s_tag sl; s_ent := None |})).
  Proof.
    intros Hpos Hu p1 p2 k v1 v2. rewrite set_slot_length, !ent_set_ent by exact Hpos.
    destruct (Nat.eq_dec p1 pos), (Nat.eq_dec p2 pos); try discriminate. apply Hu.
  Qed.

  Lemma uniq_store_ent (c : list slot) pos k nv : pos < length c -> uniq c ->
    (forall p v, p < length c -> p <> pos -> ent_at c p <> Some (k, v)) ->
    uniq (set_slot c pos (fun sl => {| s_tag := s_tag sl; s_ent := Some (k, nv) |})).
  Proof.
    intros Hpos Hu Hother p1 p2 k0 v1 v2. rewrite set_slot_length, !ent_set_ent by exact Hpos.
    destruct (Nat.eq_dec p1 pos) as [->|H1], (Nat.eq_dec p2 pos) as [->|H2]; intros L1 L2 E1 E2; auto.
    - inversion E1; subst. exfalso. exact (Hother p2 v2 L2 H2 E2).
    - inversion E2; subst. exfalso. exact (Hother p1 v1 L1 H1 E1).
    - exact (Hu p1 p2 k0 v1 v2 L1 L2 E1 E2).
  Qed.

  Lemma uniq_append (c : list slot) tg k nv : uniq c -> ~ has_key c k ->
    uniq (c ++ {| s_tag := Some tg; s_ent := Some (k, nv) |} :: repeat empty_slot (nslots - 1)).
  Proof.
    intros Hu Hno.
    assert (Hnew : forall p k0 v0, length c <= p ->
              ent_at (c ++ {| s_tag := Some tg; s_ent := Some (k, nv) |} :: repeat empty_slot (nslots - 1)) p = Some (k0, v0) ->
              p = length c /\ k0 = k).
    { intros p k0 v0 Hge E. unfold ent_at in E. rewrite app_nth2 in E by exact Hge. destruct (p - length c) as [|q] eqn:Eq.
      - cbn in E. inversion E; subst. split; [lia|reflexivity].
      - cbn [nth] in E. exfalso. destruct (Nat.lt_ge_cases q (nslots - 1)) as [Hq|Hq].
        + rewrite nth_repeat in E. discriminate.
        + rewrite nth_overflow in E by (rewrite repeat_length; exact Hq). discriminate. }
    assert (Hold : forall p, p < length c ->
              ent_at (c ++ {| s_tag := Some tg; s_ent := Some (k, nv) |} :: repeat empty_slot (nslots - 1)) p = ent_at c p).
    { intros p Hp. unfold ent_at. rewrite app_nth1 by exact Hp. reflexivity. }
    intros p1 p2 k0 v1 v2 L1 L2 E1 E2.
    destruct (Nat.lt_ge_cases p1 (length c)) as [H1|H1], (Nat.lt_ge_cases p2 (length c)) as [H2|H2].
    - rewrite Hold in E1, E2 by assumption. eapply Hu; eassumption.
    - rewrite Hold in E1 by assumption. destruct (Hnew _ _ _ H2 E2) as [_ ->]. exfalso. apply Hno. exists p1, v1. auto.
    - rewrite Hold in E2 by assumption. destruct (Hnew _ _ _ H1 E1) as [_ ->]. exfalso. apply Hno. exists p2, v2. auto.
    - destruct (Hnew _ _ _ H1 E1) as [-> _]. destruct (Hnew _ _ _ H2 E2) as [-> _]. reflexivity.
  Qed.

  (* ---------------- buckets inside a flat chain ---------------- *)

  Lemma nth_skipn' {X} (l : list X) n i d : nth i (skipn n l) d = nth (n + i) l d.
  Proof. revert l. induction n as [|n IH]; intros l; [reflexivity|]. destruct l; [destruct i; reflexivity|]. cbn. apply IH. Qed.

  Lemma nth_firstn' {X} (l : list X) n i d : i < n -> nth i (firstn n l) d = nth i l d.
  Proof.
    revert l i. induction n as [|n IH]; intros l i H; [lia|]. destruct l; [destruct i; reflexivity|].
    destruct i; [reflexivity|]. cbn. apply IH. lia.
  Qed.

  Lemma nth_bucket_slots (c : list slot) bi i : i < nslots ->
    nth i (bucket_slots nslots c bi) empty_slot = nth (bi * nslots + i) c empty_slot.
  Proof. intros H. unfold bucket_slots. rewrite nth_firstn' by exact H. apply nth_skipn'. Qed.

  Lemma bucket_slots_length (c : list slot) bi : (S bi) * nslots <= length c -> length (bucket_slots nslots c bi) = nslots.
  Proof. intros H. unfold bucket_slots. rewrite firstn_length, skipn_length. lia. Qed.

  Lemma nth_tags_of (l : list slot) i : nth i (tags_of l) None = s_tag (nth i l empty_slot).
  Proof. unfold tags_of. change None with (s_tag empty_slot) at 1. apply map_nth. Qed.

  (* the chain is a whole number (>= 1) of buckets *)
  Definition shaped (c : list slot) : Prop := exists m, 0 < m /\ length c = m * nslots.

  Lemma shaped_nbuckets (c : list slot) : shaped c -> length c = nbuckets nslots c * nslots /\ 0 < nbuckets nslots c.
  Proof.
    intros [m [Hm E]]. unfold nbuckets. rewrite E. rewrite Nat.div_mul by lia. auto.
  Qed.

  (* ---------------- the locked search ---------------- *)

  Lemma first_some_some {X} (l : list (option X)) x : first_some l = Some x -> In (Some x) l.
  Proof. induction l as [|[y|] r IH]; cbn; intros H; [discriminate | inversion H; auto | auto]. Qed.

  Lemma first_some_none {X} (l : list (option X)) : first_some l = None -> forall o, In o l -> o = None.
  Proof. induction l as [|[y|] r IH]; cbn; intros H o Ho; [contradiction | discriminate |]. destruct Ho as [<-|Ho]; auto. Qed.

  Lemma find_in_bucket_some k tg (c : list slot) bi pos v : (S bi) * nslots <= length c ->
    find_in_bucket eqd nslots probe k tg c bi = Some (pos, v) ->
    pos < length c /\ tag_at c pos <> None /\ ent_at c pos = Some (k, v).
  Proof.
    intros Hlen H. unfold find_in_bucket in H. apply first_some_some in H. apply in_map_iff in H.
    destruct H as [i [Hi Hin]]. destruct (Hprobe_sound _ _ _ Hin) as [Hl Ht].
    unfold tags_of in Hl. rewrite map_length, bucket_slots_length in Hl by exact Hlen.
    rewrite nth_tags_of in Ht. rewrite nth_bucket_slots in Hi, Ht by exact Hl.
    destruct (s_ent (nth (bi * nslots + i) c empty_slot)) as [[k' v']|] eqn:E; [|discriminate].
    destruct (eqd k k') as [->|]; [|discriminate]. inversion Hi; subst.
    unfold tag_at, ent_at. split; [nia|]. split; [exact Ht | exact E].
  Qed.

  Lemma find_in_bucket_none k tg (c : list slot) bi i : (S bi) * nslots <= length c -> i < nslots ->
    find_in_bucket eqd nslots probe k tg c bi = None ->
    tag_at c (bi * nslots + i) = Some tg -> forall v, ent_at c (bi * nslots + i) <> Some (k, v).
  Proof.
    intros Hlen Hi H Ht v He. unfold find_in_bucket in H.
    assert (Hin : In i (probe (tags_of (bucket_slots nslots c bi)) tg)).
    { apply Hprobe_complete.
      - unfold tags_of. rewrite map_length, bucket_slots_length by exact Hlen. exact Hi.
      - rewrite nth_tags_of, nth_bucket_slots by exact Hi. exact Ht. }
    pose proof (first_some_none _ H) as Hall.
    specialize (Hall _ (in_map _ _ _ Hin)). cbv beta in Hall.
    rewrite nth_bucket_slots in Hall by exact Hi. unfold ent_at in He. rewrite He in Hall.
    destruct (eqd k k); [discriminate|congruence].
  Qed.

  Lemma find_chain_some k tg (c : list slot) : forall n bi pos v, (bi + n) * nslots <= length c ->
    find_chain eqd nslots probe k tg c bi n = Some (pos, v) ->
    pos < length c /\ tag_at c pos <> None /\ ent_at c pos = Some (k, v).
  Proof.
    induction n as [|n IH]; intros bi pos v Hlen H; cbn [XMachine.find_chain] in H; [discriminate|].
    destruct (find_in_bucket eqd nslots probe k tg c bi) as [[p0 v0]|] eqn:E.
    - inversion H; subst. eapply find_in_bucket_some; [|exact E]. nia.
    - apply (IH (S bi)); [nia | exact H].
  Qed.

  Lemma find_chain_none k tg (c : list slot) : forall n bi, (bi + n) * nslots <= length c ->
    find_chain eqd nslots probe k tg c bi n = None ->
    forall pos, bi * nslots <= pos < (bi + n) * nslots -> tag_at c pos = Some tg -> forall v, ent_at c pos <> Some (k, v).
  Proof.
    induction n as [|n IH]; intros bi Hlen H pos Hpos Ht v; [lia|]. cbn [XMachine.find_chain] in H.
    destruct (find_in_bucket eqd nslots probe k tg c bi) as [[p0 v0]|] eqn:E; [discriminate|].
    destruct (Nat.lt_ge_cases pos (S bi * nslots)) as [Hin|Hout].
    - replace pos with (bi * nslots + (pos - bi * nslots)) in * by lia.
      eapply find_in_bucket_none; [| | exact E | exact Ht]; nia.
    - apply (IH (S bi)); [nia | exact H | nia | exact Ht].
  Qed.

  (* what doCompute learns from a hit / a miss on a shaped chain *)
  Theorem search_hit k tg (c : list slot) pos v : shaped c ->
    find_chain eqd nslots probe k tg c 0 (nbuckets nslots c) = Some (pos, v) ->
    pos < length c /\ tag_at c pos <> None /\ ent_at c pos = Some (k, v).
  Proof.
    intros Hs H. destruct (shaped_nbuckets c Hs) as [E _]. eapply find_chain_some; [|exact H]. lia.
  Qed.

  Theorem search_miss k tg (c : list slot) : shaped c ->
    find_chain eqd nslots probe k tg c 0 (nbuckets nslots c) = None ->
    forall pos v, pos < length c -> tag_at c pos = Some tg -> ent_at c pos <> Some (k, v).
  Proof.
    intros Hs H pos v Hpos Ht. destruct (shaped_nbuckets c Hs) as [E _].
    eapply find_chain_none; [| exact H | | exact Ht]; lia.
  Qed.

  Lemma first_free_spec (c : list slot) : forall off p, first_free c off = Some p ->
    off <= p /\ p - off < length c /\ tag_at c (p - off) = None.
  Proof.
    induction c as [|sl r IH]; intros off p H; cbn in H; [discriminate|].
    destruct (s_tag sl) eqn:E.
    - destruct (IH (S off) p H) as [A [B C]]. split; [lia|]. split; [cbn; lia|].
      unfold tag_at in *. replace (p - off) with (S (p - S off)) by lia. exact C.
    - inversion H; subst. rewrite Nat.sub_diag. split; [lia|]. split; [cbn; lia|]. exact E.
  Qed.

  Lemma first_free_none (c : list slot) : forall off, first_free c off = None -> forall p, p < length c -> tag_at c p <> None.
  Proof.
    induction c as [|sl r IH]; intros off H p Hp; cbn in *; [lia|].
    destruct (s_tag sl) eqn:E; [|discriminate]. destruct p; [unfold tag_at; cbn; congruence|].
    apply (IH (S off) H). lia.
  Qed.


  (* ---------------- the pairs Range / the resize copy take from a chain ---------------- *)

  Lemma live_pairs_in (c : list slot) k v : In (k, v) (live_pairs c) <-> exists pos, pos < length c /\ ent_at c pos = Some (k, v).
  Proof.
    induction c as [|sl r IH].
    - cbn. split; [tauto | intros [pos [H _]]; lia].
    - unfold live_pairs. cbn [flat_map]. fold (live_pairs r). rewrite in_app_iff, IH. split.
      + intros [H|[pos [Hp He]]].
        * destruct (s_ent sl) as [kv|] eqn:E; [|contradiction]. destruct H as [->|[]]. exists 0. split; [cbn; lia | exact E].
        * exists (S pos). split; [cbn; lia | exact He].
      + intros [[|pos] [Hp He]].
        * left. unfold ent_at in He. cbn in He. rewrite He. left. reflexivity.
        * right. exists pos. split; [cbn in Hp; lia | exact He].
  Qed.

  Lemma uniq_tail (sl : slot) (r : list slot) : uniq (sl :: r) -> uniq r.
  Proof.
    intros Hu p1 p2 k v1 v2 L1 L2 E1 E2.
    assert (S p1 = S p2) by (apply (Hu (S p1) (S p2) k v1 v2); cbn; auto; lia). lia.
  Qed.

  Lemma live_pairs_nodup (c : list slot) : uniq c -> NoDup (map fst (live_pairs c)).
  Proof.
    induction c as [|sl r IH]; intros Hu; [constructor|].
    unfold live_pairs. cbn [flat_map]. fold (live_pairs r). destruct (s_ent sl) as [[k v]|] eqn:E; cbn [app map fst].
    - constructor; [|apply IH; eapply uniq_tail; exact Hu].
      intros Hin. apply in_map_iff in Hin. destruct Hin as [[k' v'] [Ek Hin]]. cbn in Ek. subst k'.
      apply live_pairs_in in Hin. destruct Hin as [pos [Hp He]].
      assert (0 = S pos); [|lia]. apply (Hu 0 (S pos) k v v'); cbn; auto; lia.
    - apply IH. eapply uniq_tail. exact Hu.
  Qed.

End Chain.

(* ---------------- copying a bucket into the new table (resize) ---------------- *)
Section Copy.
  Context {K V : Type}.
  Variable hash : K -> N -> N.
  Variable idx : N -> nat -> nat.
  Variable tag : N -> N.
  Variable nslots : nat.
  Hypothesis Hnslots : 0 < nslots.
  Hypothesis Hidx : forall h len, 0 < len -> idx h len < len.

  Notation slot := (@slot K V).
  Notation xtable := (@xtable K V).
  Notation empty_slot := (@empty_slot K V).
  Notation home := (@home K V hash idx).
  Notation shaped := (@shaped K V nslots).

  (* every slot of the chain is free or completely written *)
  Definition settled (c : list slot) : Prop :=
    forall pos, pos < length c -> (tag_at c pos = None <-> ent_at c pos = None).

  Definition fresh (tg : N) (kv : K * V) : slot := {| s_tag := Some tg; s_ent := Some kv |}.

  Lemma place_slot_cases (c : list slot) tg kv :
    (exists p, p < length c /\ ent_at c p = None /\ place_slot nslots c tg kv = set_slot c p (fun _ => fresh tg kv))
    \/ ((forall p, p < length c -> ent_at c p <> None) /\ place_slot nslots c tg kv = c ++ fresh tg kv :: repeat empty_slot (nslots - 1)).
  Proof.
    induction c as [|sl r IH]; cbn [place_slot].
    - right. split; [cbn; intros; lia | reflexivity].
    - destruct (s_ent sl) as [kv0|] eqn:E.
      + destruct IH as [[p [Hp [He Hpl]]]|[Hall Hpl]].
        * left. exists (S p). split; [cbn; lia|]. split; [exact He|]. rewrite Hpl. reflexivity.
        * right. split.
          -- intros [|q] Hq; [unfold ent_at; cbn; congruence | apply Hall; cbn in Hq; lia].
          -- rewrite Hpl. reflexivity.
      + left. exists 0. split; [cbn; lia|]. split; [exact E | reflexivity].
  Qed.

  Lemma set_both (c : list slot) p tg kv : p < length c ->
    set_slot c p (fun _ => fresh tg kv)
    = set_slot (set_slot c p (fun sl => {| s_tag := Some tg; s_ent := s_ent sl |})) p (fun sl => {| s_tag := s_tag sl; s_ent := Some kv |}).
  Proof.
    revert p. induction c as [|sl r IH]; intros p Hp; [cbn in Hp; lia|].
    destruct p; cbn; [reflexivity|]. f_equal. apply IH. cbn in Hp. lia.
  Qed.

  Lemma place_slot_spec (c : list slot) tg k v :
    shaped c -> uniq c -> settled c -> ~ has_key c k ->
    let c' := place_slot nslots c tg (k, v) in
    shaped c' /\ uniq c' /\ settled c'
    /\ (forall k' v', cvis c' k' v' <-> (k' = k /\ v' = v) \/ (k' <> k /\ cvis c k' v'))
    /\ (forall pos, pos < length c' -> nth pos c' empty_slot = fresh tg (k, v) \/ (pos < length c /\ nth pos c' empty_slot = nth pos c empty_slot)
                                       \/ nth pos c' empty_slot = empty_slot).
  Proof.
    intros Hsh Hu Hst Hno c'. subst c'.
    destruct (place_slot_cases c tg (k, v)) as [[p [Hp [He Hpl]]]|[Hall Hpl]]; rewrite Hpl.
    - (* a free slot is filled *)
      assert (Ht : tag_at c p = None) by (apply (Hst p Hp); exact He).
      rewrite (set_both c p tg (k, v) Hp).
      set (c1 := set_slot c p (fun sl => {| s_tag := Some tg; s_ent := s_ent sl |})).
      assert (L1 : length c1 = length c) by apply set_slot_length.
      assert (Hother : forall q w, q < length c1 -> q <> p -> ent_at c1 q <> Some (k, w)).
      { intros q w Hq Hne E. unfold c1 in E. rewrite ent_set_tag in E by exact Hp. apply Hno. exists q, w. split; [lia | exact E]. }
      split; [|split; [|split; [|split]]].
      + destruct Hsh as [m [Hm E]]. exists m. split; [exact Hm|]. rewrite set_slot_length, L1. exact E.
      + apply uniq_store_ent; [lia | apply uniq_set_tag; assumption | exact Hother].
      + intros q Hq. rewrite set_slot_length, L1 in Hq. rewrite tag_set_ent, ent_set_ent by lia. unfold c1.
        rewrite tag_set_tag by exact Hp. destruct (Nat.eq_dec q p); [split; discriminate|]. rewrite ent_set_tag by exact Hp. apply Hst. exact Hq.
      + intros k' v'. rewrite (cvis_store_ent c1 p k v); [| lia | | exact Hother |].
        * unfold c1. split; (intros [H|[H1 H2]]; [left; exact H | right; split; [exact H1|]]);
            [apply (cvis_set_tag c p tg Hp He) in H2 | apply (cvis_set_tag c p tg Hp He)]; exact H2.
        * unfold c1. rewrite tag_set_tag by exact Hp. destruct (Nat.eq_dec p p); [discriminate|congruence].
        * intros k0 v0 E. unfold c1 in E. rewrite ent_set_tag in E by exact Hp. congruence.
      + intros q Hq. rewrite set_slot_length, L1 in Hq. rewrite nth_set_slot by lia.
        destruct (Nat.eq_dec q p) as [->|Hne].
        * left. unfold c1. rewrite nth_set_slot by exact Hp. destruct (Nat.eq_dec p p); [|congruence]. cbn. unfold fresh. reflexivity.
        * right. left. split; [exact Hq|]. unfold c1. rewrite nth_set_slot by exact Hp. destruct (Nat.eq_dec q p); [contradiction|reflexivity].
    - (* the chain is full: a bucket is appended *)
      split; [|split; [|split; [|split]]].
      + destruct Hsh as [m [Hm E]]. exists (S m). split; [lia|]. rewrite app_length. cbn [length]. rewrite repeat_length. lia.
      + apply uniq_append; first [exact Hnslots | assumption].
      + intros q Hq. unfold tag_at, ent_at. destruct (Nat.lt_ge_cases q (length c)) as [Hlt|Hge].
        * rewrite !app_nth1 by exact Hlt. apply Hst. exact Hlt.
        * rewrite !app_nth2 by exact Hge. destruct (q - length c) as [|r]; [cbn; split; discriminate|]. cbn [nth].
          destruct (Nat.lt_ge_cases r (nslots - 1)) as [Hr|Hr].
          -- rewrite nth_repeat. cbn. tauto.
          -- rewrite nth_overflow by (rewrite repeat_length; exact Hr). cbn. tauto.
      + apply cvis_append; first [exact Hnslots | exact Hno].
      + intros q Hq. destruct (Nat.lt_ge_cases q (length c)) as [Hlt|Hge].
        * right. left. split; [exact Hlt|]. apply app_nth1. exact Hlt.
        * rewrite app_nth2 by exact Hge. destruct (q - length c) as [|r]; [left; reflexivity|]. right. right. cbn [nth].
          destruct (Nat.lt_ge_cases r (nslots - 1)) as [Hr|Hr]; [apply nth_repeat | apply nth_overflow; rewrite repeat_length; exact Hr].
  Qed.


  (* ---- tables ---- *)

  Definition tent (tb : xtable) (k : K) (v : V) : Prop :=
    exists b pos, b < x_len tb /\ pos < length (chain_of tb b) /\ ent_at (chain_of tb b) pos = Some (k, v).
  Definition tkey (tb : xtable) (k : K) : Prop := exists v, tent tb k v.

  Definition clean_chain (tb : xtable) (b : nat) : Prop :=
    let c := chain_of tb b in
    shaped c /\ uniq c /\ settled c /\
    forall pos k v, pos < length c -> ent_at c pos = Some (k, v) ->
                    home tb k = b /\ tag_at c pos = Some (tag (hash k (x_seed tb))).
  Definition clean_table (tb : xtable) : Prop := 0 < x_len tb /\ forall b, b < x_len tb -> clean_chain tb b.

  Lemma home_lt (tb : xtable) k : 0 < x_len tb -> home tb k < x_len tb.
  Proof. intros H. unfold XMachine.home. apply Hidx. exact H. Qed.

  Lemma tent_cvis (tb : xtable) k v : clean_table tb -> (tent tb k v <-> cvis (chain_of tb (home tb k)) k v).
  Proof.
    intros [Hl Hc]. split.
    - intros [b [pos [Hb [Hp He]]]]. destruct (Hc b Hb) as [_ [_ [_ H4]]]. destruct (H4 pos k v Hp He) as [Hh Ht].
      rewrite Hh. exists pos. split; [exact Hp|]. split; [congruence | exact He].
    - intros [pos [Hp [_ He]]]. exists (home tb k), pos. split; [apply home_lt; exact Hl | auto].
  Qed.

  Lemma chain_of_set_chain' (tb : xtable) b0 g b :
    chain_of (set_chain tb b0 g) b =
    if Nat.eq_dec b b0 then (if Nat.ltb b0 (x_len tb) then g (chain_of tb b0) else []) else chain_of tb b.
  Proof. unfold chain_of, set_chain, x_len. cbn [x_chains]. apply nth_upd_nth. Qed.

  Lemma place_table (tb : xtable) k v :
    clean_table tb -> ~ tkey tb k ->
    let h := hash k (x_seed tb) in
    let tb' := set_chain tb (idx h (x_len tb)) (fun c => place_slot nslots c (tag h) (k, v)) in
    clean_table tb' /\ x_len tb' = x_len tb /\ x_seed tb' = x_seed tb /\ x_locks tb' = x_locks tb /\ x_size tb' = x_size tb
    /\ (forall k' v', tent tb' k' v' <-> (k' = k /\ v' = v) \/ tent tb k' v').
  Proof.
    intros Hct Hno h tb'. pose proof Hct as [Hl Hc].
    assert (Elen : x_len tb' = x_len tb) by (unfold tb', x_len, set_chain; cbn [x_chains]; apply upd_nth_length).
    assert (Eseed : x_seed tb' = x_seed tb) by reflexivity.
    assert (Ehome : forall k0, home tb' k0 = home tb k0) by (intros; unfold XMachine.home; rewrite Elen, Eseed; reflexivity).
    set (b0 := idx h (x_len tb)). assert (Hb0 : b0 < x_len tb) by (apply Hidx; exact Hl).
    assert (Eb0 : b0 = home tb k) by reflexivity.
    assert (Ech : forall b, chain_of tb' b = if Nat.eq_dec b b0 then place_slot nslots (chain_of tb b0) (tag h) (k, v) else chain_of tb b).
    { intros b. unfold tb'. fold b0. rewrite chain_of_set_chain'. destruct (Nat.eq_dec b b0); [|reflexivity].
      apply Nat.ltb_lt in Hb0. rewrite Hb0. reflexivity. }
    destruct (Hc b0 Hb0) as [C1 [C2 [C3 C4]]].
    assert (Hnk : ~ has_key (chain_of tb b0) k).
    { intros [pos [w [Hp He]]]. apply Hno. exists w, b0, pos. auto. }
    destruct (place_slot_spec (chain_of tb b0) (tag h) k v C1 C2 C3 Hnk) as [P1 [P2 [P3 [P4 P5]]]].
    assert (Hct' : clean_table tb').
    { split; [rewrite Elen; exact Hl|]. intros b Hb. rewrite Elen in Hb. unfold clean_chain. rewrite Ech.
      destruct (Nat.eq_dec b b0) as [->|Hne].
      - split; [exact P1|]. split; [exact P2|]. split; [exact P3|].
        intros pos k0 v0 Hp He. rewrite Ehome, Eseed. unfold ent_at, tag_at in *.
        destruct (P5 pos Hp) as [E|[[Hp0 E]|E]]; rewrite E in *.
        + cbn in He. inversion He; subst. split; [symmetry; exact Eb0 | reflexivity].
        + apply (C4 pos k0 v0 Hp0 He).
        + cbn in He. discriminate.
      - destruct (Hc b Hb) as [D1 [D2 [D3 D4]]]. split; [exact D1|]. split; [exact D2|]. split; [exact D3|].
        intros pos k0 v0 Hp He. rewrite Ehome, Eseed. apply (D4 pos k0 v0 Hp He). }
    split; [exact Hct'|]. split; [exact Elen|]. split; [exact Eseed|]. split; [reflexivity|]. split; [reflexivity|].
    intros k' v'. rewrite (tent_cvis tb' k' v' Hct'), (tent_cvis tb k' v' Hct). rewrite Ehome, Ech.
    destruct (Nat.eq_dec (home tb k') b0) as [E|Hne].
    - rewrite P4. rewrite E. split.
      + intros [H|[_ H]]; [left; exact H | right; exact H].
      + intros [H|H]; [left; exact H|]. right. split; [|exact H].
        intros ->. apply Hno. exists v'. apply (tent_cvis tb k v' Hct). rewrite <- Eb0. exact H.
    - split; [intros H; right; exact H|]. intros [[-> _]|H]; [congruence | exact H].
  Qed.

  Definition cstep (acc : xtable * Z) (sl : slot) : xtable * Z :=
    match s_ent sl with
    | Some (k, v) =>
        let h := hash k (x_seed (fst acc)) in
        (set_chain (fst acc) (idx h (x_len (fst acc))) (fun c => place_slot nslots c (tag h) (k, v)), (snd acc + 1)%Z)
    | None => acc
    end.

  Lemma copy_chain_fold src dst : copy_chain hash idx tag nslots src dst = fold_left cstep src (dst, 0%Z).
  Proof. reflexivity. Qed.

  Lemma copy_fold_spec (src : list slot) : forall acc,
    clean_table (fst acc) -> NoDup (map fst (live_pairs src)) ->
    (forall k, In k (map fst (live_pairs src)) -> ~ tkey (fst acc) k) ->
    let r := fold_left cstep src acc in
    clean_table (fst r) /\ x_len (fst r) = x_len (fst acc) /\ x_seed (fst r) = x_seed (fst acc)
    /\ x_locks (fst r) = x_locks (fst acc) /\ x_size (fst r) = x_size (fst acc)
    /\ (forall k v, tent (fst r) k v <-> tent (fst acc) k v \/ In (k, v) (live_pairs src)).
  Proof.
    induction src as [|sl r IH]; intros acc Hct Hnd Hno; cbn [fold_left].
    - split; [exact Hct|]. repeat (split; [reflexivity|]). intros k v. cbn. tauto.
    - unfold live_pairs in Hnd, Hno. cbn [flat_map] in Hnd, Hno. fold (live_pairs r) in Hnd, Hno.
      destruct (s_ent sl) as [[k v]|] eqn:E.
      + assert (Ec : cstep acc sl = (set_chain (fst acc) (idx (hash k (x_seed (fst acc))) (x_len (fst acc)))
                          (fun c => place_slot nslots c (tag (hash k (x_seed (fst acc)))) (k, v)), (snd acc + 1)%Z))
          by (unfold cstep; rewrite E; reflexivity).
        rewrite Ec. clear Ec.
        cbn [app map fst] in Hnd, Hno. inversion Hnd as [|? ? Hnin Hnd']; subst.
        destruct (place_table (fst acc) k v Hct (Hno k (or_introl eq_refl))) as [Q1 [Q2 [Q3 [Q4 [Q5 Q6]]]]].
        cbv zeta in Q1, Q2, Q3, Q4, Q5, Q6.
        specialize (IH (set_chain (fst acc) (idx (hash k (x_seed (fst acc))) (x_len (fst acc)))
                          (fun c => place_slot nslots c (tag (hash k (x_seed (fst acc)))) (k, v)), (snd acc + 1)%Z)).
        cbn [fst] in IH. destruct (IH Q1 Hnd') as [R1 [R2 [R3 [R4 [R5 R6]]]]].
        { intros k0 Hin [w Hw]. apply Q6 in Hw. destruct Hw as [[-> _]|Hw]; [contradiction|].
          apply (Hno k0 (or_intror Hin)). exists w. exact Hw. }
        split; [exact R1|]. split; [congruence|]. split; [congruence|]. split; [congruence|]. split; [congruence|].
        intros k0 v0. rewrite R6, Q6. unfold live_pairs at 2. cbn [flat_map]. rewrite E. cbn [app In]. fold (live_pairs r).
        split; [intros [[[-> ->]|H]|H]; auto | intros [H|[H|H]]; auto]. inversion H; subst. auto.
      + assert (Ec : cstep acc sl = acc) by (unfold cstep; rewrite E; reflexivity). rewrite Ec. clear Ec.
        cbn [app] in Hnd, Hno. destruct (IH acc Hct Hnd Hno) as [R1 [R2 [R3 [R4 [R5 R6]]]]].
        split; [exact R1|]. split; [exact R2|]. split; [exact R3|]. split; [exact R4|]. split; [exact R5|].
        intros k0 v0. rewrite R6. unfold live_pairs at 2. cbn [flat_map]. rewrite E. cbn [app]. fold (live_pairs r). tauto.
  Qed.

End Copy.
