(* C06_seq.v -- evicted callbacks of the cache model, call by call:
   what is fired is exactly what the call physically removed. *)
From CacheV Require Import Base SpecMap Client CacheModel Ops.
From CacheV.gen Require Import Params.
From CacheV.proofs Require Import C01_sim C01_ops.

Section Fire.
  Context {K V : Type}.
  Variable eqd : forall a b : K, {a = b} + {a <> b}.
  Variable zero : V.
  Notation step := (step_cache eqd zero).
  Notation P m := (st_map m).

  Fixpoint fires (evs : list (event K V)) : list (nat * K * V) :=
    match evs with
    | [] => []
    | EFire c k v :: t => (c, k, v) :: fires t
    | _ :: t => fires t
    end.

  Lemma fires_app a b : fires (a ++ b) = fires a ++ fires b.
  Proof. induction a as [|[] t IH]; cbn; auto. f_equal. auto. Qed.

  Lemma fires_repeat_fn k n : fires (repeat (EFn k) n) = [].
  Proof. induction n; cbn; auto. Qed.

  (* the physical entries a call removes *)
  Definition removed_by (m : cstate K V) (o : cop K V) : list (K * V) :=
    match o with
    | OGetAndDelete k | ODelete k =>
        match lookup eqd k (P m) with Some i => [(k, iv i)] | None => [] end
    | ODeleteExpired =>
        map (fun p => (fst p, iv (snd p))) (filter (fun p => expiredWithNow (st_now m) (snd p)) (P m))
    | _ => []
    end.

  Definition expected_fires (m : cstate K V) (o : cop K V) : list (nat * K * V) :=
    match st_cb m with
    | Some c => map (fun p => (c, fst p, snd p)) (removed_by m o)
    | None => []
    end.

  (* ---------- GetAndDelete / Delete ---------- *)

  Lemma fires_GetAndDelete m k :
    let '(m', r, evs) := run_seq eqd (GetAndDelete zero k) m in
    fires evs = expected_fires m (OGetAndDelete k)
    /\ P m' = remove eqd k (P m) /\ st_cb m' = st_cb m /\ st_now m' = st_now m.
  Proof.
    unfold GetAndDelete, expected_fires, removed_by. cbn [run_seq to_mop map_step].
    destruct (lookup eqd k (P m)) as [i|] eqn:HP; cbn [run_seq with_map st_cb st_now st_map].
    - destruct (st_cb m) as [c|] eqn:Hcb; unfold fire; destruct (expiredWithNow (st_now m) i); cbn;
        rewrite ?Hcb; auto.
    - cbn. rewrite (remove_absent eqd k (P m) HP). destruct (st_cb m); auto.
  Qed.

  (* ---------- DeleteExpired ---------- *)

  Lemma fires_fire_all {A} c l (p : prog K V A) m :
    fires (snd (run_seq eqd (fire_all c l p) m)) = map (fun q => (c, fst q, snd q)) l ++ fires (snd (run_seq eqd p m)).
  Proof.
    induction l as [|[k v] t IH]; cbn [fire_all run_seq map app]; auto.
    destruct (run_seq eqd (fire_all c t p) m) as [[m' r] evs] eqn:E. cbn [snd fires fst].
    rewrite <- IH. reflexivity.
  Qed.

  Definition exp_pairs now (l : list (K * item V)) : list (K * V) :=
    map (fun p => (fst p, iv (snd p))) (filter (fun p => expiredWithNow now (snd p)) l).

  (* physical map after removing the expired entries listed in [l] *)
  Fixpoint strip now (l : list (K * item V)) (m : amap K (item V)) : amap K (item V) :=
    match l with
    | [] => m
    | (k, i) :: t => if expiredWithNow now i then strip now t (remove eqd k m) else strip now t m
    end.

  Lemma run_delexp_loop_fires ec now snap : forall ev (m : cstate K V),
    NoDup (keys snap) ->
    (forall k i, In (k, i) snap -> lookup eqd k (P m) = Some i) ->
    let '(m', r, evs) := run_seq eqd (delexp_loop zero ec now snap ev) m in
    fires evs = match ec with
                | Some c => map (fun q => (c, fst q, snd q)) (ev ++ exp_pairs now snap)
                | None => []
                end
    /\ (forall k, lookup eqd k (P m') = lookup eqd k (strip now snap (P m)))
    /\ st_cb m' = st_cb m /\ st_now m' = st_now m.
  Proof.
    induction snap as [|[k i] t IH]; intros ev m Hnd Hin; cbn [delexp_loop].
    - destruct ec as [c|].
      + rewrite (run_fire_all eqd c ev (Ret (@CUnit K V)) m). cbn [run_seq]. rewrite app_nil_r.
        unfold exp_pairs. cbn [filter map]. rewrite app_nil_r.
        split; [|auto].
        clear. induction ev as [|[k v] t IH]; cbn; [reflexivity | rewrite IH; reflexivity].
      + cbn. auto.
    - cbn [keys map fst] in Hnd. inversion Hnd as [|? ? Hnotin Hnd']; subst.
      assert (Hk : lookup eqd k (P m) = Some i) by (apply Hin; left; reflexivity).
      unfold exp_pairs. cbn [filter snd strip].
      destruct (expiredWithNow now i) eqn:He.
      + cbn [run_seq to_mop map_step]. unfold delexp_closure. rewrite Hk, He. cbn [a_ok a_old].
        set (m1 := with_map m (remove eqd k (P m))).
        assert (Hin1 : forall k' i', In (k', i') t -> lookup eqd k' (P m1) = Some i').
        { intros k' i' H'. cbn. rewrite lookup_remove_neq.
          - apply Hin. right. exact H'.
          - intros ->. apply Hnotin. change k with (fst (k, i')). apply in_map. exact H'. }
        destruct ec as [c|].
        * specialize (IH (ev ++ [(k, iv i)]) m1 Hnd' Hin1).
          destruct (run_seq eqd (delexp_loop zero (Some c) now t (ev ++ [(k, iv i)])) m1) as [[m' r] evs].
          cbn [fn_events a_fn repeat app]. destruct IH as [H1 [H2 [H3 H4]]].
          split; [|auto]. rewrite H1. cbn [map fst snd]. rewrite <- app_assoc. reflexivity.
        * specialize (IH ev m1 Hnd' Hin1).
          destruct (run_seq eqd (delexp_loop zero None now t ev) m1) as [[m' r] evs].
          cbn [fn_events a_fn repeat app]. exact IH.
      + apply IH; auto. intros k' i' H'. apply Hin. right. exact H'.
  Qed.

  Lemma strip_lookup now l : forall m k, NoDup (keys l) ->
    (forall k' i', In (k', i') l -> lookup eqd k' m = Some i') ->
    lookup eqd k (strip now l m) =
      match lookup eqd k l with
      | Some i => if expiredWithNow now i then None else lookup eqd k m
      | None => lookup eqd k m
      end.
  Proof.
    induction l as [|[k0 i0] t IH]; intros m k Hnd Hin; cbn [strip lookup]; auto.
    cbn [keys map fst] in Hnd. inversion Hnd as [|? ? Hnotin Hnd']; subst.
    destruct (expiredWithNow now i0) eqn:He.
    - rewrite IH; auto.
      + destruct (eqd k k0) as [->|Hne].
        * rewrite (notin_lookup_None eqd k0 t Hnotin). rewrite lookup_remove_eq, He. reflexivity.
        * rewrite lookup_remove_neq by auto. reflexivity.
      + intros k' i' H'. rewrite lookup_remove_neq.
        * apply Hin. right. exact H'.
        * intros ->. apply Hnotin. change k0 with (fst (k0, i')). apply in_map. exact H'.
    - rewrite IH; auto.
      + destruct (eqd k k0) as [->|Hne]; [|reflexivity].
        rewrite (notin_lookup_None eqd k0 t Hnotin), He. reflexivity.
      + intros k' i' H'. apply Hin. right. exact H'.
  Qed.

  Lemma fires_DeleteExpired m : NoDup (keys (P m)) ->
    let '(m', r, evs) := run_seq eqd (DeleteExpired zero) m in
    fires evs = expected_fires m ODeleteExpired
    /\ (forall k, lookup eqd k (P m') =
                  match lookup eqd k (P m) with
                  | Some i => if expiredWithNow (st_now m) i then None else Some i
                  | None => None
                  end)
    /\ st_cb m' = st_cb m /\ st_now m' = st_now m.
  Proof.
    intros Hnd. unfold DeleteExpired. cbn [run_seq to_mop map_step].
    pose proof (run_delexp_loop_fires (st_cb m) (st_now m) (P m) [] (with_map m (P m)) Hnd) as H.
    cbn [with_map st_map st_cb st_now] in H.
    specialize (H (fun k i Hin => In_lookup eqd k i (P m) Hnd Hin)).
    destruct (run_seq eqd (delexp_loop zero (st_cb m) (st_now m) (P m) []) (with_map m (P m))) as [[m' r] evs].
    cbn [fn_events app]. destruct H as [H1 [H2 [H3 H4]]].
    split; [|split; [|auto]].
    - rewrite H1. unfold expected_fires, removed_by, exp_pairs. destruct (st_cb m); reflexivity.
    - intros k. rewrite H2. rewrite strip_lookup; auto.
      + destruct (lookup eqd k (P m)); reflexivity.
      + intros k' i' Hin. apply In_lookup; auto.
  Qed.

  (* ---------- no other call fires anything ---------- *)

  Lemma run_seq_bind' {A B} (p : prog K V A) (f : A -> prog K V B) m :
    run_seq eqd (CacheModel.bind p f) m =
    let '(m1, a, e1) := run_seq eqd p m in
    let '(m2, b, e2) := run_seq eqd (f a) m1 in (m2, b, e1 ++ e2).
  Proof.
    revert m. induction p as [r|o k IH|k IH|k IH|d k IH|k IH|c k IH|e k IH]; intros m; cbn [CacheModel.bind run_seq].
    - destruct (run_seq eqd (f r) m) as [[m2 b] e2]. reflexivity.
    - destruct (map_step eqd (st_map m) (to_mop (st_env m) o)) as [m' r].
      change ((fix go (p : prog K V A) : prog K V B := _) (k r)) with (CacheModel.bind (k r) f).
      rewrite IH. destruct (run_seq eqd (k r) (with_map m m')) as [[m1 a] e1].
      destruct (run_seq eqd (f a) m1) as [[m2 b] e2]. rewrite app_assoc. reflexivity.
    - change ((fix go (p : prog K V A) : prog K V B := _) (k (st_now m))) with (CacheModel.bind (k (st_now m)) f). apply IH.
    - change ((fix go (p : prog K V A) : prog K V B := _) (k (st_dflt m))) with (CacheModel.bind (k (st_dflt m)) f). apply IH.
    - change ((fix go (p : prog K V A) : prog K V B := _) k) with (CacheModel.bind k f). apply IH.
    - change ((fix go (p : prog K V A) : prog K V B := _) (k (st_cb m))) with (CacheModel.bind (k (st_cb m)) f). apply IH.
    - change ((fix go (p : prog K V A) : prog K V B := _) k) with (CacheModel.bind k f). apply IH.
    - change ((fix go (p : prog K V A) : prog K V B := _) k) with (CacheModel.bind k f). rewrite IH.
      destruct (run_seq eqd k m) as [[m1 a] e1]. destruct (run_seq eqd (f a) m1) as [[m2 b] e2]. reflexivity.
  Qed.

  Lemma get_no_fire m k : fires (snd (run_seq eqd (get zero k) m)) = [].
  Proof.
    unfold get. cbn [run_seq to_mop map_step].
    destruct (lookup eqd k (P m)) as [i|]; cbn [run_seq]; [|reflexivity].
    destruct (negb (expiredWithNow (st_now (with_map m (P m))) i)); cbn [run_seq]; [reflexivity|].
    cbn [to_mop map_step]. destruct (lookup eqd k (st_map (with_map m (P m)))) as [j|];
      unfold get_closure; cbn; [destruct (negb _); cbn; reflexivity | reflexivity].
  Qed.

  Lemma range_loop_no_fire now f l : forall vis (m : cstate K V),
    fires (snd (run_seq eqd (range_loop now f l vis) m)) = [].
  Proof.
    induction l as [|[k i] t IH]; intros vis m; cbn [range_loop run_seq]; [reflexivity|].
    destruct (expiredWithNow now i); [apply IH|]. cbn [run_seq].
    destruct (f k (iv i)).
    - specialize (IH (vis ++ [(k, iv i)]) m).
      destruct (run_seq eqd (range_loop now f t (vis ++ [(k, iv i)])) m) as [[m' r] evs]. cbn in *. exact IH.
    - cbn. reflexivity.
  Qed.


  (* ---------- every call: what is fired is what was removed ---------- *)

  Ltac rmw_nofire m k :=
    cbn [run_seq to_mop map_step]; unfold CacheModel.expired, st_env; cbn [e_now e_dflt];
    destruct (lookup eqd k (P m)) as [?i|]; [destruct (expiredWithNow (st_now m) i)|];
    cbn; destruct (st_cb m); reflexivity.

  Theorem fires_step m o : NoDup (keys (P m)) ->
    let '(m', r, evs) := step m o in fires evs = expected_fires m o.
  Proof.
    intros Hnd. unfold step_cache, step_with, prog_cache.
    destruct o.
    - (* Set *) unfold Set_, expiration_prog, expected_fires.
      destruct (d =? DefaultExpiration); cbn [run_seq];
        [destruct (0 <? st_dflt m) | destruct (0 <? d)]; cbn; destruct (st_cb m); reflexivity.
    - unfold SetDefault, Set_, expiration_prog, expected_fires.
      destruct (DefaultExpiration =? DefaultExpiration); cbn [run_seq];
        [destruct (0 <? st_dflt m) | destruct (0 <? DefaultExpiration)]; cbn; destruct (st_cb m); reflexivity.
    - unfold SetForever, Set_, expiration_prog, expected_fires.
      destruct (NoExpiration =? DefaultExpiration); cbn [run_seq];
        [destruct (0 <? st_dflt m) | destruct (0 <? NoExpiration)]; cbn; destruct (st_cb m); reflexivity.
    - (* Get *) unfold Get. rewrite run_seq_bind'. pose proof (get_no_fire m k) as H.
      destruct (run_seq eqd (get zero k) m) as [[m1 a] e1]. cbn [snd] in H.
      destruct a; cbn; rewrite app_nil_r, H; unfold expected_fires; destruct (st_cb m); reflexivity.
    - unfold GetWithExpiration. rewrite run_seq_bind'. pose proof (get_no_fire m k) as H.
      destruct (run_seq eqd (get zero k) m) as [[m1 a] e1]. cbn [snd] in H.
      destruct a as [i|]; [destruct (0 <? ie i)|]; cbn; rewrite app_nil_r, H; unfold expected_fires; destruct (st_cb m); reflexivity.
    - unfold GetWithTTL. rewrite run_seq_bind'. pose proof (get_no_fire m k) as H.
      destruct (run_seq eqd (get zero k) m) as [[m1 a] e1]. cbn [snd] in H.
      destruct a as [i|]; [destruct (0 <? ie i)|]; cbn; rewrite app_nil_r, H; unfold expected_fires; destruct (st_cb m); reflexivity.
    - unfold GetOrSet, expected_fires. rmw_nofire m k.
    - unfold GetAndSet, expected_fires. rmw_nofire m k.
    - unfold GetAndRefresh, expected_fires. rmw_nofire m k.
    - unfold GetOrCompute, expected_fires. rmw_nofire m k.
    - unfold Compute, expected_fires.
      cbn [run_seq to_mop map_step]; unfold CacheModel.expired, st_env; cbn [e_now e_dflt].
      destruct (lookup eqd k (P m)) as [i|]; [destruct (expiredWithNow (st_now m) i)|]; cbn;
        match goal with |- context [fn ?a ?b] => destruct (fn a b) as [? []] end; cbn; destruct (st_cb m); reflexivity.
    - (* GetAndDelete *) pose proof (fires_GetAndDelete m k) as H.
      destruct (run_seq eqd (GetAndDelete zero k) m) as [[m' r] evs]. tauto.
    - (* Delete *) unfold Delete. rewrite run_seq_bind'. pose proof (fires_GetAndDelete m k) as H.
      destruct (run_seq eqd (GetAndDelete zero k) m) as [[m' r] evs]. cbn. rewrite app_nil_r. tauto.
    - (* DeleteExpired *) pose proof (fires_DeleteExpired m Hnd) as H.
      destruct (run_seq eqd (DeleteExpired zero) m) as [[m' r] evs]. tauto.
    - (* Range *) unfold Range, expected_fires. destruct f as [f|]; cbn [run_seq to_mop map_step].
      + pose proof (range_loop_no_fire (st_now m) f (reorder eqd hint (P m)) [] (with_map m (P m))) as H.
        destruct (run_seq eqd (range_loop (st_now m) f (reorder eqd hint (P m)) []) (with_map m (P m))) as [[m' r] evs].
        cbn in *. rewrite H. destruct (st_cb m); reflexivity.
      + cbn. destruct (st_cb m); reflexivity.
    - (* Items *) unfold Items, Range, expected_fires. cbn [run_seq to_mop map_step].
      match goal with |- context [run_seq eqd (range_loop ?n ?f ?l ?v) ?s] =>
        pose proof (range_loop_no_fire n f l v s) as H; destruct (run_seq eqd (range_loop n f l v) s) as [[m' r] evs] end.
      cbn in *. rewrite H. destruct (st_cb m); reflexivity.
    - cbn. unfold expected_fires. destruct (st_cb m); reflexivity.
    - cbn. unfold expected_fires. destruct (st_cb m); reflexivity.
    - cbn. unfold expected_fires. destruct (st_cb m); reflexivity.
    - cbn. unfold expected_fires. destruct (st_cb m); reflexivity.
    - cbn. unfold expected_fires. destruct (st_cb m); reflexivity.
    - cbn. unfold expected_fires. destruct (st_cb m); reflexivity.
    - cbn. unfold expected_fires. destruct (st_cb m); reflexivity.
  Qed.

  (* removed means removed: not retrievable afterwards, and it was that very value *)
  Theorem removed_is_gone m o k v : NoDup (keys (P m)) -> In (k, v) (removed_by m o) ->
    let '(m', r, evs) := step m o in
    lookup eqd k (P m') = None /\ exists i, lookup eqd k (P m) = Some i /\ iv i = v.
  Proof.
    intros Hnd Hin. unfold step_cache, step_with, prog_cache.
    destruct o; cbn [removed_by] in Hin; try contradiction.
    - pose proof (fires_GetAndDelete m k0) as H.
      destruct (run_seq eqd (GetAndDelete zero k0) m) as [[m' r] evs]. destruct H as [_ [H _]].
      destruct (lookup eqd k0 (P m)) as [i|] eqn:HP; [|contradiction].
      destruct Hin as [E|[]]. inversion E; subst. rewrite H, lookup_remove_eq. eauto.
    - unfold Delete. rewrite run_seq_bind'. pose proof (fires_GetAndDelete m k0) as H.
      destruct (run_seq eqd (GetAndDelete zero k0) m) as [[m' r] evs]. destruct H as [_ [H _]]. cbn.
      destruct (lookup eqd k0 (P m)) as [i|] eqn:HP; [|contradiction].
      destruct Hin as [E|[]]. inversion E; subst. rewrite H, lookup_remove_eq. eauto.
    - pose proof (fires_DeleteExpired m Hnd) as H.
      destruct (run_seq eqd (DeleteExpired zero) m) as [[m' r] evs]. destruct H as [_ [H _]].
      apply in_map_iff in Hin. destruct Hin as [[k' i] [E Hf]]. cbn in E. inversion E; subst.
      apply filter_In in Hf. destruct Hf as [Hi He]. cbn in He.
      rewrite H. rewrite (In_lookup eqd k i (P m) Hnd Hi), He. eauto.
  Qed.

End Fire.
