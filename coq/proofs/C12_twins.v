(* C12_twins.v -- the two separately written cache models (xsync_map.go and
   xsync_mapof.go) compute the same thing, call by call. *)
From CacheV Require Import Base SpecMap Client CacheModel CacheOfModel Ops.
From CacheV.gen Require Import Params.

Section Twins.
  Context {K V : Type}.
  Variable eqd : forall a b : K, {a = b} + {a <> b}.
  Variable zero : V.

  Lemma run_seq_bindOf {A B} (p : prog K V A) (f : A -> prog K V B) m :
    run_seq eqd (CacheOfModel.bind p f) m =
    let '(m1, a, e1) := run_seq eqd p m in
    let '(m2, b, e2) := run_seq eqd (f a) m1 in (m2, b, e1 ++ e2).
  Proof.
    revert m. induction p as [r|o k IH|k IH|k IH|d k IH|k IH|c k IH|e k IH]; intros m; cbn [CacheOfModel.bind run_seq].
    - destruct (run_seq eqd (f r) m) as [[m2 b] e2]. reflexivity.
    - destruct (map_step eqd (st_map m) (to_mop (st_env m) o)) as [m' r].
      change ((fix go (p : prog K V A) : prog K V B := _) (k r)) with (CacheOfModel.bind (k r) f).
      rewrite IH. destruct (run_seq eqd (k r) (with_map m m')) as [[m1 a] e1].
      destruct (run_seq eqd (f a) m1) as [[m2 b] e2]. rewrite app_assoc. reflexivity.
    - change ((fix go (p : prog K V A) : prog K V B := _) (k (st_now m))) with (CacheOfModel.bind (k (st_now m)) f).
      apply IH.
    - change ((fix go (p : prog K V A) : prog K V B := _) (k (st_dflt m))) with (CacheOfModel.bind (k (st_dflt m)) f).
      apply IH.
    - change ((fix go (p : prog K V A) : prog K V B := _) k) with (CacheOfModel.bind k f). apply IH.
    - change ((fix go (p : prog K V A) : prog K V B := _) (k (st_cb m))) with (CacheOfModel.bind (k (st_cb m)) f).
      apply IH.
    - change ((fix go (p : prog K V A) : prog K V B := _) k) with (CacheOfModel.bind k f). apply IH.
    - change ((fix go (p : prog K V A) : prog K V B := _) k) with (CacheOfModel.bind k f). rewrite IH.
      destruct (run_seq eqd k m) as [[m1 a] e1]. destruct (run_seq eqd (f a) m1) as [[m2 b] e2]. reflexivity.
  Qed.

  Lemma run_seq_bind {A B} (p : prog K V A) (f : A -> prog K V B) m :
    run_seq eqd (CacheModel.bind p f) m =
    let '(m1, a, e1) := run_seq eqd p m in
    let '(m2, b, e2) := run_seq eqd (f a) m1 in (m2, b, e1 ++ e2).
  Proof.
    revert m. induction p as [r|o k IH|k IH|k IH|d k IH|k IH|c k IH|e k IH]; intros m; cbn [CacheModel.bind run_seq].
    - destruct (run_seq eqd (f r) m) as [[m2 b] e2]. reflexivity.
    - destruct (map_step eqd (st_map m) (to_mop (st_env m) o)) as [m' r].
      change ((fix go (p : prog K V A) : prog K V B := _) (k r)) with (CacheModel.bind (k r) f).
      rewrite IH. destruct (run_seq eqd (k r) (with_map m m')) as [[m1 a] e1].
      destruct (run_seq eqd (f a) m1) as [[m2 b] e2]. rewrite app_assoc. reflexivity.
    - change ((fix go (p : prog K V A) : prog K V B := _) (k (st_now m))) with (CacheModel.bind (k (st_now m)) f).
      apply IH.
    - change ((fix go (p : prog K V A) : prog K V B := _) (k (st_dflt m))) with (CacheModel.bind (k (st_dflt m)) f).
      apply IH.
    - change ((fix go (p : prog K V A) : prog K V B := _) k) with (CacheModel.bind k f). apply IH.
    - change ((fix go (p : prog K V A) : prog K V B := _) (k (st_cb m))) with (CacheModel.bind (k (st_cb m)) f).
      apply IH.
    - change ((fix go (p : prog K V A) : prog K V B := _) k) with (CacheModel.bind k f). apply IH.
    - change ((fix go (p : prog K V A) : prog K V B := _) k) with (CacheModel.bind k f). rewrite IH.
      destruct (run_seq eqd k m) as [[m1 a] e1]. destruct (run_seq eqd (f a) m1) as [[m2 b] e2]. reflexivity.
  Qed.

  (* get: option item on one side, (item, bool) on the other *)
  Definition get_rel (a : option (item V)) (b : item V * bool) : Prop :=
    match a with
    | Some i => b = (i, true)
    | None => b = (CacheOfModel.zeroedV zero, false)
    end.

  Lemma twins_get m k :
    let '(m1, a, e1) := run_seq eqd (CacheModel.get zero k) m in
    let '(m2, b, e2) := run_seq eqd (CacheOfModel.get zero k) m in
    m1 = m2 /\ e1 = e2 /\ get_rel a b.
  Proof.
    unfold CacheModel.get, CacheOfModel.get. cbn [run_seq to_mop map_step].
    destruct (lookup eqd k (st_map m)) as [i|] eqn:HP; cbn [run_seq with_map st_now]; [|cbn; auto].
    destruct (expiredWithNow (st_now m) i) eqn:He; cbn [negb run_seq]; [|cbn; auto].
    cbn [to_mop map_step with_map st_map]. rewrite HP.
    unfold get_closure, CacheModel.expired, CacheOfModel.expired, CacheOfModel.arg, st_env. cbn [e_now st_now with_map].
    rewrite He. cbn. auto.
  Qed.

  Ltac by_cases m k :=
    cbn [run_seq to_mop map_step];
    unfold CacheModel.expired, CacheOfModel.expired, CacheOfModel.arg, st_env; cbn [e_now e_dflt];
    destruct (lookup eqd k (st_map m)) as [?i|]; cbn;
    [destruct (expiredWithNow (st_now m) i); cbn|]; try reflexivity.

  Lemma twins_delexp_loop ec now (snap : list (K * item V)) : forall ev (m : cstate K V),
    run_seq eqd (CacheOfModel.delexp_loop zero ec now snap ev) m =
    run_seq eqd (CacheModel.delexp_loop zero ec now snap ev) m.
  Proof.
    induction snap as [|[k i0] t IH]; intros ev m; cbn [CacheOfModel.delexp_loop CacheModel.delexp_loop].
    - reflexivity.
    - destruct (expiredWithNow now i0); [|apply IH].
      cbn [run_seq to_mop map_step].
      unfold CacheOfModel.delexp_closure, CacheModel.delexp_closure, CacheOfModel.arg.
      destruct (lookup eqd k (st_map m)) as [cur|]; cbn.
      + destruct (expiredWithNow now cur); cbn; [destruct ec; rewrite IH; reflexivity | rewrite IH; reflexivity].
      + rewrite IH. reflexivity.
  Qed.

  Lemma twins_range_loop now (f : K -> V -> bool) (l : list (K * item V)) : forall vis (m : cstate K V),
    run_seq eqd (CacheOfModel.range_loop now f l vis) m = run_seq eqd (CacheModel.range_loop now f l vis) m.
  Proof.
    induction l as [|[k i] t IH]; intros vis m; cbn [CacheOfModel.range_loop CacheModel.range_loop run_seq];
      [reflexivity|].
    destruct (expiredWithNow now i); [apply IH|]. cbn [run_seq].
    destruct (f k (iv i)); [rewrite IH|]; reflexivity.
  Qed.

  Lemma twins_reorder hint : forall l : list (K * item V),
    CacheOfModel.reorder eqd hint l = CacheModel.reorder eqd hint l.
  Proof.
    assert (Hp : forall k (l : list (K * item V)), CacheOfModel.pick eqd k l = CacheModel.pick eqd k l).
    { intros k l. induction l as [|[k' i] t IH]; cbn [CacheOfModel.pick CacheModel.pick]; [reflexivity|].
      destruct (eqd k k'); [reflexivity|]. rewrite IH. reflexivity. }
    induction hint as [|k hs IH]; intros l; cbn [CacheOfModel.reorder CacheModel.reorder]; [reflexivity|]. rewrite Hp.
    destruct (CacheModel.pick eqd k l) as [[p|] rest]; rewrite IH; reflexivity.
  Qed.

  Ltac get_based :=
    rewrite run_seq_bindOf, run_seq_bind;
    match goal with |- context [CacheModel.get _ ?k] =>
      match goal with |- context [run_seq _ _ ?m] =>
        let H := fresh "H" in pose proof (twins_get m k) as H;
        destruct (run_seq eqd (CacheModel.get zero k) m) as [[?m1 ?a] ?e1];
        destruct (run_seq eqd (CacheOfModel.get zero k) m) as [[?m2 ?b] ?e2];
        destruct H as [-> [-> ?Hg]]
      end
    end.

  Theorem twins_step m o : step_cacheof eqd zero m o = step_cache eqd zero m o.
  Proof.
    unfold step_cacheof, step_cache, step_with.
    destruct o; cbn [prog_cacheof prog_cache].
    - (* Set *) reflexivity.
    - (* SetDefault *) reflexivity.
    - (* SetForever *) reflexivity.
    - (* Get *)
      unfold CacheOfModel.Get, CacheModel.Get. get_based.
      destruct a; cbn in Hg; subst b; reflexivity.
    - (* GetWithExpiration *)
      unfold CacheOfModel.GetWithExpiration, CacheModel.GetWithExpiration. get_based.
      destruct a as [i|]; cbn in Hg; subst b; cbn [negb]; [|reflexivity].
      destruct (0 <? ie i); reflexivity.
    - (* GetWithTTL *)
      unfold CacheOfModel.GetWithTTL, CacheModel.GetWithTTL. get_based.
      destruct a as [i|]; cbn in Hg; subst b; cbn [negb]; [|reflexivity].
      destruct (0 <? ie i); reflexivity.
    - unfold CacheOfModel.GetOrSet, CacheModel.GetOrSet. by_cases m k.
    - unfold CacheOfModel.GetAndSet, CacheModel.GetAndSet. by_cases m k.
    - unfold CacheOfModel.GetAndRefresh, CacheModel.GetAndRefresh. by_cases m k.
    - unfold CacheOfModel.GetOrCompute, CacheModel.GetOrCompute. by_cases m k.
    - unfold CacheOfModel.Compute, CacheModel.Compute. by_cases m k.
    - (* GetAndDelete *) reflexivity.
    - (* Delete *)
      unfold CacheOfModel.Delete, CacheModel.Delete. rewrite run_seq_bindOf, run_seq_bind. reflexivity.
    - (* DeleteExpired *)
      unfold CacheOfModel.DeleteExpired, CacheModel.DeleteExpired. cbn [run_seq to_mop map_step].
      rewrite twins_delexp_loop. reflexivity.
    - (* Range *)
      unfold CacheOfModel.Range, CacheModel.Range. destruct f; [|reflexivity].
      cbn [run_seq to_mop map_step]. rewrite twins_reorder, twins_range_loop. reflexivity.
    - (* Items *)
      unfold CacheOfModel.Items, CacheModel.Items, CacheOfModel.Range, CacheModel.Range.
      cbn [run_seq to_mop map_step]. rewrite twins_reorder, twins_range_loop. reflexivity.
    - (* Clear *) reflexivity.
    - (* Count *) reflexivity.
    - (* GetDflt *) reflexivity.
    - (* SetDflt *) reflexivity.
    - (* GetCb *) reflexivity.
    - (* SetCb *) reflexivity.
    - (* Advance *) reflexivity.
  Qed.

  Theorem twins_run ops : forall m, run_cacheof eqd zero m ops = run_cache eqd zero m ops.
  Proof.
    unfold run_cacheof, run_cache.
    induction ops as [|o t IH]; intros m; cbn [run_with]; auto.
    change (step_with eqd (prog_cacheof eqd zero) m o) with (step_cacheof eqd zero m o).
    change (step_with eqd (prog_cache eqd zero) m o) with (step_cache eqd zero m o).
    rewrite twins_step. destruct (step_cache eqd zero m o) as [[s1 r] evs]. rewrite IH. reflexivity.
  Qed.

End Twins.
