(* XS_loadmiss.v -- the "returns absent" half for the readers of XMachineS (map.go),
   under every schedule (port of the second half of X_loadhit.v):
   load_no_miss: from the state in which a lookup of k in table tab is about to load the
     first bucket word of the chain, as long as the thread stays inside the lookup and k is
     visible in table tab (presence bit, top hash, key pointer k, value pointer non-nil) in
     every state of the run -- its value may change --, the thread's next step is not the
     end of the chain (it does not return "absent", it does not fall through to the locked
     path of a load-or-compute);
   load_miss: a lookup that reaches the end of the chain is justified by a state of the run
     in which k was not visible in the table.
   The visible slot of a key does not move while the key stays visible (an update replaces
   the value pointer, not the key; a delete clears the presence bit first); the reader
   filters the slots of a bucket by the word it loads, then value / key / value: a snapshot
   retry looks at the same slot again, and a nil value pointer loaded from the visible slot
   is impossible. *)
From CacheV Require Import Base SpecMap XMachineS.
From CacheV.proofs Require Import X_maps XS_inv XS_lock XS_own XS_count XS_cells XS_vis XS_abs XS_resize XS_read XS_loadhit.
From Coq Require Import NArith.
Local Open Scope nat_scope.

Section SLoadMiss.
  Context {K V : Type}.
  Variable eqd : forall a b : K, {a = b} + {a <> b}.
  Variable hash : K -> N -> N.
  Variable idx : N -> nat -> nat.
  Variable tophash : N -> N.
  Variable nslots : nat.
  Variable seeds : nat -> N.
  Variable grow_needed : nat -> Z -> bool.
  Variable shrink_policy : nat -> Z -> bool.
  Variable nstripes : nat -> nat.
  Variable minlen : nat.
  Variable grow_only : bool.

  Hypothesis Hslots : nslots <= 3.
  Hypothesis Hnslots : 0 < nslots.
  Hypothesis Htop : forall k sd, (tophash (hash k sd) < 1048576)%N.
  Hypothesis Hidx : forall h len, 0 < len -> idx h len < len.
  Hypothesis Hminlen : 0 < minlen.

  Notation mslot := (@mslot K V).
  Notation mtable := (@mtable K V).
  Notation mstate := (@mstate K V).
  Notation spc := (@spc K V).
  Notation slabel := (@slabel K V).
  Notation empty_mslot := (@empty_mslot K V).
  Notation sstep_pc := (@sstep_pc K V eqd hash idx tophash nslots seeds grow_needed shrink_policy nstripes minlen grow_only).
  Notation sstep := (@sstep K V eqd hash idx tophash nslots seeds grow_needed shrink_policy nstripes minlen grow_only).
  Notation srun := (@srun K V eqd hash idx tophash nslots seeds grow_needed shrink_policy nstripes minlen grow_only).
  Notation salong := (@salong K V eqd hash idx tophash nslots seeds grow_needed shrink_policy nstripes minlen grow_only).
  Notation sever := (@sever K V eqd hash idx tophash nslots seeds grow_needed shrink_policy nstripes minlen grow_only).
  Notation stab_at := (@stab_at K V nslots nstripes).
  Notation shome := (@shome K V hash idx).
  Notation tabT := (@tabT K V nslots nstripes).
  Notation XL := (@XL K V hash idx nslots nstripes).
  Notation XB := (@XB K V hash idx tophash nslots nstripes).
  Notation XCS := (@XCS K V hash idx tophash nslots nstripes).
  Notation svis := (@svis K V hash idx tophash nslots).
  Notation sinvoke := (@sinvoke K V).

  (* ---------------- how a key pointer of a published table changes in one step ---------------- *)

  Definition kstep (R : Prop) (o o' : option K) : Prop := o' = o \/ o = None \/ R.

  Definition ktr (R : nat -> nat -> Prop) (tb tb' : mtable) : Prop :=
    forall b pos, kstep (R b pos) (ms_key (nth pos (schain_of tb b) empty_mslot)) (ms_key (nth pos (schain_of tb' b) empty_mslot)).

  Lemma ktr_refl R (tb : mtable) : ktr R tb tb.
  Proof. intros b pos. left. reflexivity. Qed.

  Lemma ktr_chains R (tb tb2 tb' : mtable) : (forall b, schain_of tb' b = schain_of tb2 b) -> ktr R tb tb2 -> ktr R tb tb'.
  Proof. intros Hc H b pos. rewrite Hc. apply H. Qed.

  Lemma ktr_set_chain R (tb : mtable) b0 g :
    (forall pos, kstep (R b0 pos) (ms_key (nth pos (schain_of tb b0) empty_mslot)) (ms_key (nth pos (g (schain_of tb b0)) empty_mslot))) ->
    ktr R tb (sset_chain tb b0 g).
  Proof.
    intros Hg b pos. unfold schain_of, sset_chain in *. cbn [m_chains]. rewrite nth_supd_nth.
    destruct (Nat.eq_dec b b0) as [->|]; [|left; reflexivity].
    destruct (Nat.ltb b0 (length (m_chains tb))) eqn:E; [apply Hg|].
    apply Nat.ltb_ge in E. rewrite (nth_overflow (m_chains tb)) by exact E. left. reflexivity.
  Qed.

  Lemma ktr_set_slot R (tb : mtable) b0 pos0 g :
    (forall sl, kstep (R b0 pos0) (ms_key sl) (ms_key (g sl))) -> ktr R tb (sset_slot tb b0 pos0 g).
  Proof.
    intros Hg. apply ktr_set_chain. intros pos. rewrite nth_supd_nth. destruct (Nat.eq_dec pos pos0) as [->|]; [|left; reflexivity].
    destruct (Nat.ltb pos0 (length (schain_of tb b0))) eqn:E; [apply Hg|].
    apply Nat.ltb_ge in E. rewrite nth_overflow by exact E. left. reflexivity.
  Qed.

  (* the two stores that change a key pointer: the last store of a delete, the last store of an insert *)
  Definition kchg (s : mstate) (p : spc) (tab b pos : nat) : Prop :=
    (exists cx old ne, p = QW_D3 cx tab pos old ne /\ b = shome (tabT (h_tabs s) tab) (sc_k cx))
    \/ (exists cx nv, p = QW_I3 cx tab pos nv /\ b = shome (tabT (h_tabs s) tab) (sc_k cx)).

  Lemma ktr_step_pc s u p s' ls : XT s -> h_pc s u = p -> sstep_pc s u p = Some (s', ls) ->
    forall tab, tab <= h_cur s -> ktr (kchg s p tab) (tabT (h_tabs s) tab) (tabT (h_tabs s') tab).
  Proof.
    intros HT Hp Hs tab0 Hle.
    assert (Hlt : tab0 < length (h_tabs s)) by (pose proof (xt_cur s HT); lia).
    destruct (xt_pc s HT u) as [_ Hnew]. rewrite Hp in Hnew.
    destruct p; cbn [XMachineS.sstep_pc] in Hs; cbv zeta in Hs;
      repeat match type of Hs with context [match ?x with _ => _ end] => destruct x eqn:? end;
      try discriminate Hs; apply some_fst_h in Hs; subst s'; rewrite ?htabs_goto, ?htabs_visits;
      cbn [fst h_tabs h_alloc sset_pc sset_tab sset_flags spush_tab sbump]; try apply ktr_refl.
    all: try (rewrite tabT_app_lt by exact Hlt; apply ktr_refl).
    all: try (rewrite tabT_supd; destruct (Nat.eq_dec tab0 tab) as [->|]; [|apply ktr_refl];
              destruct (Nat.ltb tab (length (h_tabs s))); [|apply ktr_refl];
              first [ apply (ktr_chains _ _ (tabT (h_tabs s) tab)); [intros b0; reflexivity | apply ktr_refl]
                    | apply ktr_set_slot; intros sl; cbn [ms_key]; unfold kstep, kchg;
                      first [ left; reflexivity
                            | right; right; left; do 3 eexists; split; reflexivity
                            | right; right; right; do 2 eexists; split; reflexivity ] ]).
    - (* lockBucket's CAS succeeded: a copy goes to the unpublished table *)
      match goal with Ha : after_lock _ _ _ _ _ ?S1 ?T ?TAB ?B ?LK = (_, _) |- _ =>
        pose proof (after_lock_tab hash idx tophash nslots nstripes S1 T TAB B LK tab0) as A; rewrite Ha in A; cbn [fst h_tabs sset_tab] in A end.
      rewrite A.
      2:{ intros E. cbn [snewtab] in Hnew. destruct (Hnew _ E). lia. }
      rewrite tabT_supd. destruct (Nat.eq_dec tab0 tab) as [->|]; [|apply ktr_refl].
      destruct (Nat.ltb tab (length (h_tabs s))); [|apply ktr_refl].
      apply (ktr_chains _ _ (tabT (h_tabs s) tab)); [intros b0; reflexivity | apply ktr_refl].
    - (* a new bucket is linked *)
      rewrite tabT_supd. destruct (Nat.eq_dec tab0 tab) as [->|]; [|apply ktr_refl].
      destruct (Nat.ltb tab (length (h_tabs s))); [|apply ktr_refl].
      apply (ktr_chains _ _ (sset_chain (tabT (h_tabs s) tab) (shome (stab_at s tab) (sc_k cx))
                                 (fun c => c ++ {| ms_key := Some (sc_k cx); ms_val := Some (nv, h_alloc s) |} :: repeat empty_mslot (nslots - 1))));
        [intros b0; reflexivity|].
      apply ktr_set_chain. intros pos.
      destruct (Nat.lt_ge_cases pos (length (schain_of (tabT (h_tabs s) tab) (shome (stab_at s tab) (sc_k cx))))) as [L|L].
      + rewrite app_nth1 by exact L. left. reflexivity.
      + right. left. rewrite nth_overflow by exact L. reflexivity.
  Qed.


  Section OneMiss.
    Variables (t : nat) (k : K) (lc : @slcont K V) (tab : nat).

    Notation inl := (@inlookup K V hash nslots nstripes t k lc tab).
    Notation rtb := (@rtb K V nslots nstripes tab).
    Notation rc := (@rc K V hash idx nslots nstripes k tab).
    Notation slotk := (@slotk K V hash idx nslots nstripes k tab).
    Notation slotv := (@slotv K V hash idx nslots nstripes k tab).
    Notation slote := (@slote K V hash idx nslots nstripes k tab).

    (* k is visible in slot p of its home chain *)
    Definition kpos (s : mstate) (p : nat) : Prop :=
      p < length (rc s) /\ slotk s p = Some k /\ (exists x id, slotv s p = Some (x, id)) /\ slote s p = (true, ktop hash tophash (rtb s) k).

    Lemma kpos_svis s : (exists p, kpos s p) <-> exists v, svis (stab_at s tab) k v.
    Proof.
      split.
      - intros [p [A [B [[x [id C]] D]]]]. exists x, p. split; [exact A|]. split; [exact B|]. split; [exists id; exact C | exact D].
      - intros [v [p [A [B [[id C] D]]]]]. exists p. split; [exact A|]. split; [exact B|]. split; [exists v, id; exact C | exact D].
    Qed.

    Lemma chain_facts s : XB s -> tab <= h_cur s ->
      shome (rtb s) k < m_len (rtb s) /\ chain_ok hash idx tophash nslots (rtb s) tab (shome (rtb s) k) (holder_pc nslots nstripes s tab (shome (rtb s) k)).
    Proof.
      intros [HI [HS [HT [HX HC]]]] Hle.
      pose proof (tb_ok_tabT nslots nstripes Hslots _ tab (xl_tabs _ _ _ _ s HS)) as Hok.
      pose proof (shome_lt hash idx Hidx _ k Hok) as Hb. split; [exact Hb|].
      apply (xcs_ch _ _ _ _ _ s HC tab _ Hle Hb).
    Qed.

    Lemma key_lt s p x : slotk s p = Some x -> p < length (rc s).
    Proof.
      intros E. destruct (Nat.lt_ge_cases p (length (rc s))) as [L|L]; [exact L|]. unfold XS_loadhit.slotk in E. rewrite nth_overflow in E by exact L. discriminate E.
    Qed.

    Lemma kpos_uniq s p q : XB s -> tab <= h_cur s -> kpos s p -> kpos s q -> p = q.
    Proof.
      intros HB Hle [P1 [P2 _]] [Q1 [Q2 _]]. destruct (chain_facts s HB Hle) as [_ [_ [Hu _]]].
      apply (Hu p q k P1 Q1 P2 Q2).
    Qed.

    (* the visible slot of k does not move in one step *)
    Lemma kpos_step_pc s u p s' ls p0 p' : XB s -> XB s' -> h_pc s u = p -> sstep_pc s u p = Some (s', ls) ->
      tab <= h_cur s -> tab <= h_cur s' -> kpos s p0 -> kpos s' p' -> p' = p0.
    Proof.
      intros HB HB' Hp Hs Hc Hc' [P1 [P2 [P3 P4]]] [Q1 [Q2 _]].
      pose proof (step_facts_pc eqd hash idx tophash nslots seeds grow_needed shrink_policy nstripes minlen grow_only Hslots Hnslots Hidx Hminlen s u p s' ls HB Hp Hs) as HF.
      pose proof (home_step hash idx nslots nstripes k tab s u s' HF Hc) as Eh.
      destruct HB as [HI [HS [HT [HX HC]]]].
      assert (Hk : slotk s' p0 = Some k).
      { destruct (ktr_step_pc s u p s' ls HT Hp Hs tab Hc (shome (rtb s) k) p0) as [E|[E|E]].
        - unfold XS_loadhit.slotk, XS_loadhit.rc. rewrite Eh. fold (rtb s). unfold XS_loadhit.rtb at 1. rewrite E. exact P2.
        - exfalso. unfold XS_loadhit.slotk, XS_loadhit.rc in P2. fold (rtb s) in E. rewrite P2 in E. discriminate E.
        - exfalso. pose proof (xcs_pc _ _ _ _ _ s HC u) as Hf. rewrite Hp in Hf.
          destruct E as [(cx & old & ne & Ep & Eb)|(cx & nv & Ep & Eb)]; rewrite Ep in Hf; cbn [pcfact] in Hf; unfold slot_is, kchain, ktops in Hf;
            fold (rtb s) in Hf, Eb; rewrite <- Eb in Hf.
          + destruct Hf as [_ [_ [_ D]]]. unfold XS_loadhit.slote in P4. rewrite P4 in D. discriminate D.
          + destruct Hf as [[_ [B _]] _]. unfold XS_loadhit.slotk, XS_loadhit.rc in P2. rewrite P2 in B. discriminate B. }
      destruct (chain_facts s' HB' Hc') as [_ [_ [Hu _]]].
      apply (Hu p' p0 k Q1 (key_lt s' p0 k Hk) Q2 Hk).
    Qed.

    Lemma kpos_sstep s u s' ls p0 p' : XB s -> XB s' -> sstep s u = Some (s', ls) ->
      tab <= h_cur s -> tab <= h_cur s' -> kpos s p0 -> kpos s' p' -> p' = p0.
    Proof.
      intros HB HB' E Hc Hc' K0 K'. unfold XMachineS.sstep in E.
      destruct (h_pc s u) eqn:Hp; try (eapply kpos_step_pc; [exact HB | exact HB' | exact Hp | exact E | exact Hc | exact Hc' | exact K0 | exact K']).
      destruct (h_todo s u) as [|o rest]; [discriminate|].
      change (match sstep_pc (sinvoke s u o rest) u (sstart_pc o) with
              | Some (s2, ls0) => Some (s2, SInv u o :: ls0)
              | None => Some (sinvoke s u o rest, [SInv u o])
              end = Some (s', ls)) in E.
      assert (Hpu : h_pc (sinvoke s u o rest) u = sstart_pc o) by (cbn [XS_count.sinvoke h_pc]; destruct (Nat.eq_dec u u); congruence).
      pose proof (invoke_XB hash idx tophash nslots nstripes s u o rest Hp HB) as HB1.
      assert (K1 : kpos (sinvoke s u o rest) p0) by exact K0.
      destruct (sstep_pc (sinvoke s u o rest) u (sstart_pc o)) as [[s2 ls0]|] eqn:E2.
      - inversion E; subst s2 ls. apply (kpos_step_pc (sinvoke s u o rest) u _ s' ls0 p0 p' HB1 HB' Hpu E2 Hc Hc' K1 K').
      - inversion E; subst s'. symmetry. apply (kpos_uniq _ p0 p' HB1 Hc K1 K').
    Qed.

    (* where the reader still has to look: the visible slot of k is not behind it; a nil value pointer was not loaded from it *)
    Definition ahead (bi : nat) (todo : list nat) (q : nat) : Prop := (exists i, In i todo /\ q = bi * nslots + i) \/ S bi * nslots <= q.

    Definition region (p : spc) (q : nat) : Prop :=
      match p with
      | QL_Top _ _ _ _ bi => bi * nslots <= q
      | QL_Val _ _ _ _ bi todo | QL_Val2 _ _ _ _ bi todo _ _ => ahead bi todo q
      | QL_Key _ _ _ _ bi todo vp => ahead bi todo q /\ (forall i r, todo = i :: r -> q = bi * nslots + i -> vp <> None)
      | QL_Next _ _ _ _ bi => S bi * nslots <= q
      | _ => True
      end.

    Definition JM (s : mstate) : Prop := forall q, kpos s q -> region (h_pc s t) q.

    Definition stays (s : mstate) : Prop := inl s /\ exists v, svis (stab_at s tab) k v.

    Lemma ahead_tail bi i r q : ahead bi (i :: r) q -> q <> bi * nslots + i -> ahead bi r q.
    Proof. intros [[j [[<-|Hj] Eq]]|H] Hne; [contradiction | left; exists j; auto | right; exact H]. Qed.

    Lemma ahead_nil bi q : ahead bi [] q -> S bi * nslots <= q.
    Proof. intros [[j [[] _]]|H]; exact H. Qed.

    (* the visible slot of k passes the filter of its bucket word *)
    Lemma kpos_todo s q bi : XB s -> tab <= h_cur s -> kpos s q -> bi * nslots <= q -> q < S bi * nslots ->
      In (q - bi * nslots) (filter (top_match (tophash (hash k (m_seed (rtb s)))) (sword_at nslots (rtb s) (shome (rtb s) k) bi)) (seq 0 nslots)).
    Proof.
      intros HB Hle [P1 [_ [_ P4]]] H1 H2. destruct (chain_facts s HB Hle) as [_ [Csh _]].
      assert (Hi : q - bi * nslots < nslots) by (cbn [Nat.mul] in H2; lia).
      apply filter_In. split; [apply in_seq; lia|]. apply top_match_false.
      assert (Eq : q = bi * nslots + (q - bi * nslots)) by lia.
      unfold XS_loadhit.rc in P1. rewrite Eq in P1.
      destruct (topent_bucket nslots Hslots Hnslots (rtb s) (shome (rtb s) k) bi _ Csh P1 Hi) as [T1 _].
      rewrite <- T1, <- Eq. exact P4.
    Qed.

    Lemma JM_step s u s' ls : XB s -> NQ s -> XB s' -> sstep s u = Some (s', ls) -> stays s -> stays s' -> JM s -> JM s'.
    Proof.
      intros HB HN HB' E [Hin Hv] [Hin' _] HJ q' K'.
      pose proof (inlookup_le hash idx tophash nslots nstripes t k lc tab s HB Hin) as Hc.
      pose proof (inlookup_le hash idx tophash nslots nstripes t k lc tab s' HB' Hin') as Hc'.
      apply kpos_svis in Hv. destruct Hv as [q0 K0].
      pose proof (kpos_sstep s u s' ls q0 q' HB HB' E Hc Hc' K0 K') as ->.
      specialize (HJ q0 K0). clear K'.
      destruct (Nat.eq_dec u t) as [->|Hne].
      - (* the reader's own step *)
        assert (Ex : sstep s t = sstep_pc s t (h_pc s t)).
        { unfold XMachineS.sstep. unfold XS_loadhit.inlookup in Hin. destruct (h_pc s t); try reflexivity; contradiction. }
        rewrite Ex in E. clear Ex.
        pose proof (inlookup_ql hash nslots nstripes t k lc tab s' Hin') as Hq'.
        destruct (chain_facts s HB Hc) as [Hb [Csh _]].
        destruct K0 as [P1 [P2 [[x0 [id0 P3]] P4]]].
        unfold XS_loadhit.inlookup in Hin.
        destruct (h_pc s t) eqn:Hp; try contradiction; destruct Hin as [-> [Elc [-> Eh]]]; cbn [region] in HJ;
          cbn [XMachineS.sstep_pc] in E; cbv zeta in E;
          repeat match type of E with context [match ?x with _ => _ end] => destruct x eqn:? end;
          try discriminate E; apply some_fst_h in E; subst s';
          try (exfalso; exact (ret_out t s _ _ HN Hq'));
          rewrite sgoto_pc_eq by (intros r0; discriminate); cbn [region]; try exact I; try exact HJ.
        all: try (destruct HJ as [HJ1 HJ2];
          match type of Hp with _ = QL_Key _ _ _ _ _ (?n :: ?l) _ =>
            assert (Hne : q0 <> bi * nslots + n);
            [ intros Eq; first [ exact (HJ2 n l eq_refl Eq eq_refl)
                               | rewrite Eq in P2; subst h;
                                 match goal with H : ms_key (sslot_at _ _ _) = ?X |- _ =>
                                   pose proof (eq_trans (eq_sym P2) H : Some k = X) as Hx; first [discriminate Hx | inversion Hx; contradiction] end ]
            | first [apply ahead_nil|idtac]; apply (ahead_tail bi n _ q0 HJ1 Hne) ]
          end).
        + (* no slot of this bucket passes the filter: k is further on *)
          destruct (Nat.lt_ge_cases q0 (S bi * nslots)) as [Hlt|Hge]; [exfalso|exact Hge].
          assert (Hi : In (q0 - bi * nslots) []); [|exact Hi].
          rewrite <- Heql. subst h. exact (kpos_todo s q0 bi HB Hc (conj P1 (conj P2 (conj (ex_intro _ x0 (ex_intro _ id0 P3)) P4))) HJ Hlt).
        + destruct (Nat.lt_ge_cases q0 (S bi * nslots)) as [Hlt|Hge]; [left|right; exact Hge].
          exists (q0 - bi * nslots). split; [|lia].
          rewrite <- Heql. subst h. exact (kpos_todo s q0 bi HB Hc (conj P1 (conj P2 (conj (ex_intro _ x0 (ex_intro _ id0 P3)) P4))) HJ Hlt).
        + (* the value pointer loaded from the visible slot is not nil *)
          split; [exact HJ|]. intros i r Er Eq Hnone. inversion Er; subst i r. rewrite Eq in P3. subst h.
          pose proof (eq_trans (eq_sym P3) Hnone : Some (x0, id0) = None) as Hx. discriminate Hx.
        + exact (proj1 HJ).
      - (* another thread: the reader stands where it stood *)
        pose proof (step_facts_sstep eqd hash idx tophash nslots seeds grow_needed shrink_policy nstripes minlen grow_only Hslots Hnslots Hidx Hminlen s u s' ls HB E) as HF.
        assert (Ept : h_pc s' t = h_pc s t).
        { destruct (sf_oth _ _ s u s' HF t (not_eq_sym Hne)) as [E0|E0]; [exact E0|]. rewrite E0. apply swake_ql.
          apply (inlookup_ql hash nslots nstripes t k lc tab s Hin). }
        rewrite Ept. exact HJ.
    Qed.

    (* the lookup reaches the end of the chain: the load of b.next finds nil *)
    Definition endchain (s : mstate) (ls2 : list slabel) : Prop :=
      (match h_pc s t with QL_Next _ _ _ _ _ => True | _ => False end) /\ In (SStep t (SKLoadPtr true)) ls2.

    Lemma miss_step s s2 ls2 : XB s -> stays s -> JM s -> sstep s t = Some (s2, ls2) -> ~ endchain s ls2.
    Proof.
      intros HB [Hin Hv] HJ E [Hn Hl].
      pose proof (inlookup_le hash idx tophash nslots nstripes t k lc tab s HB Hin) as Hc.
      apply kpos_svis in Hv. destruct Hv as [q0 K0]. specialize (HJ q0 K0).
      assert (Ex : sstep s t = sstep_pc s t (h_pc s t)).
      { unfold XMachineS.sstep. destruct (h_pc s t); try reflexivity; contradiction. }
      rewrite Ex in E. clear Ex.
      destruct (chain_facts s HB Hc) as [_ [[Csh1 Csh2] _]]. destruct K0 as [P1 _]. unfold XS_loadhit.rc in P1.
      unfold XS_loadhit.inlookup in Hin.
      destruct (h_pc s t) eqn:Hp; try contradiction. destruct Hin as [-> [Elc [-> Eh]]]. cbn [region] in HJ.
      cbn [XMachineS.sstep_pc] in E. cbv zeta in E.
      destruct (Nat.ltb (S bi) _) eqn:El in E.
      - apply some_pair_rd in E. destruct E as [_ ->]. cbn [sgoto snd] in Hl. destruct Hl as [Hl|[]]. discriminate Hl.
      - apply Nat.ltb_ge in El. subst h. change (snbuckets nslots (schain_of (rtb s) (shome (rtb s) k)) <= S bi) in El.
        unfold snbuckets in El. rewrite Csh2 in El, P1. rewrite Nat.div_mul in El by lia. nia.
    Qed.

    Lemma load_no_miss_gen sched : forall s, XB s -> NQ s -> salong stays s sched -> JM s ->
      forall s2 ls2, sstep (fst (srun s sched)) t = Some (s2, ls2) -> ~ endchain (fst (srun s sched)) ls2.
    Proof.
      induction sched as [|u r IH]; intros s HB HN Hal HJ s2 ls2 E; cbn [XMachineS.srun XS_loadhit.salong] in *.
      - destruct Hal as [Hst _]. cbn [fst] in *. apply (miss_step s s2 ls2 HB Hst HJ E).
      - destruct Hal as [Hst Hal]. destruct (sstep s u) as [[s' ls]|] eqn:Eu.
        + pose proof (XB_sstep eqd hash idx tophash nslots seeds grow_needed shrink_policy nstripes minlen grow_only
                        Hslots Hnslots Htop Hidx Hminlen s u s' ls HB Eu) as HB'.
          pose proof (NQ_sstep eqd hash idx tophash nslots seeds grow_needed shrink_policy nstripes minlen grow_only s u s' ls HN Eu) as HN'.
          assert (Hst' : stays s') by (destruct r; cbn [XS_loadhit.salong] in Hal; apply Hal).
          pose proof (JM_step s u s' ls HB HN HB' Eu Hst Hst' HJ) as HJ'.
          destruct (XMachineS.srun _ _ _ _ _ _ _ _ _ _ _ s' r) as [s'' ls''] eqn:Er. cbn [fst] in *.
          specialize (IH s' HB' HN' Hal HJ' s2 ls2). rewrite Er in IH. cbn [fst] in IH. apply IH. exact E.
        + apply (IH s HB HN Hal HJ s2 ls2 E).
    Qed.

    (* C04, readers of map.go, the other half: from a state in which thread t is about to load the first bucket word of the chain,
       as long as it stays inside the lookup and k is visible in table tab in every state of the run, its next step does not reach
       the end of the chain *)
    Theorem load_no_miss s sched s2 ls2 : XB s -> NQ s -> salong stays s sched ->
      (exists k' lc' tab' h, h_pc s t = QL_Top k' lc' tab' h 0) ->
      sstep (fst (srun s sched)) t = Some (s2, ls2) -> ~ endchain (fst (srun s sched)) ls2.
    Proof.
      intros HB HN Hal [k' [lc' [tab' [h Hp]]]] E.
      apply (load_no_miss_gen sched s HB HN Hal) with (s2 := s2); [|exact E].
      intros q _. rewrite Hp. cbn [region]. lia.
    Qed.

    (* ---------------- what the caller sees ---------------- *)

    Lemma svisits_res (S0 : mstate) rest vf after ls1 r : rga after -> r <> SRUnit ->
      In (SRes t r) (snd (svisits S0 t rest vf after ls1)) \/ In (SSubRes t r) (snd (svisits S0 t rest vf after ls1)) ->
      In (SRes t r) ls1 \/ In (SSubRes t r) ls1.
    Proof.
      intros Ha Hr. revert ls1. induction rest as [|[k0 v0] rs IH]; intros ls1 Hl; cbn [svisits] in Hl.
      - destruct after; cbn [rga] in Ha; try contradiction; cbn [snd] in Hl; [|exact Hl].
        destruct r0; try contradiction.
        destruct Hl as [Hl|Hl]; apply in_app_or in Hl; destruct Hl as [Hl|[Hl|[]]]; auto; inversion Hl; congruence.
      - destruct (vf k0 v0) as [cx|].
        + cbn [snd] in Hl. destruct Hl as [Hl|Hl]; apply in_app_or in Hl; destruct Hl as [Hl|[Hl|[Hl|[]]]]; auto; discriminate Hl.
        + specialize (IH _ Hl). destruct IH as [IH|IH]; apply in_app_or in IH; destruct IH as [IH|[IH|[]]]; auto; discriminate IH.
    Qed.

    Lemma sgoto_res (S0 : mstate) q ls0 r : NQ S0 -> r <> SRUnit ->
      In (SRes t r) (snd (sgoto S0 t q ls0)) \/ In (SSubRes t r) (snd (sgoto S0 t q ls0)) ->
      In (SRes t r) ls0 \/ In (SSubRes t r) ls0 \/ q = QRet r.
    Proof.
      intros HN Hr Hl. destruct q; cbn [sgoto snd] in Hl; try (destruct Hl as [Hl|Hl]; [left | right; left]; exact Hl).
      destruct (h_frame S0 t) as [fr|] eqn:Ef.
      - pose proof (svisits_res S0 _ _ _ _ r (nq_fr S0 HN t fr Ef) Hr Hl) as H.
        destruct H as [H|H]; apply in_app_or in H; destruct H as [H|[H|[]]]; auto; inversion H; auto.
      - cbn [snd] in Hl. destruct Hl as [H|H]; apply in_app_or in H; destruct H as [H|[H|[]]]; auto; inversion H; auto.
    Qed.

    Lemma svisits_incl (S0 : mstate) rest vf after ls1 l : In l ls1 -> In l (snd (svisits S0 t rest vf after ls1)).
    Proof.
      revert ls1. induction rest as [|[k0 v0] rs IH]; intros ls1 Hl; cbn [svisits].
      - destruct after; cbn [snd]; try exact Hl. apply in_or_app. left. exact Hl.
      - destruct (vf k0 v0); [cbn [snd] | apply IH]; apply in_or_app; left; exact Hl.
    Qed.

    Lemma sgoto_incl (S0 : mstate) q ls0 l : In l ls0 -> In l (snd (sgoto S0 t q ls0)).
    Proof.
      intros Hl. destruct q; cbn [sgoto snd]; try exact Hl. destruct (h_frame S0 t).
      - apply svisits_incl. apply in_or_app. left. exact Hl.
      - cbn [snd]. apply in_or_app. left. exact Hl.
    Qed.

    (* a lookup that returns "absent" -- to its caller, or to a Range visitor's call -- has reached the end of the chain *)
    Lemma absent_end s s2 ls2 : NQ s -> inl s -> sstep s t = Some (s2, ls2) ->
      In (SRes t (SRVal None false)) ls2 \/ In (SSubRes t (SRVal None false)) ls2 -> endchain s ls2.
    Proof.
      intros HN Hin E Hl.
      assert (Ex : sstep s t = sstep_pc s t (h_pc s t)).
      { unfold XMachineS.sstep. unfold XS_loadhit.inlookup in Hin. destruct (h_pc s t); try reflexivity; contradiction. }
      rewrite Ex in E. clear Ex. unfold XS_loadhit.inlookup in Hin. unfold endchain.
      assert (Hnu : @SRVal V None false <> SRUnit) by discriminate.
      destruct (h_pc s t) eqn:Hp; try contradiction; destruct Hin as [-> [Elc [-> Eh]]];
        cbn [XMachineS.sstep_pc] in E; cbv zeta in E;
        repeat match type of E with context [match ?x with _ => _ end] => destruct x eqn:? end;
        try discriminate E; apply some_pair_rd in E; destruct E as [-> ->];
        (destruct (sgoto_res s _ _ _ HN Hnu Hl) as [H|[H|H]];
         [exfalso; destruct H as [H|[]]; discriminate H | exfalso; destruct H as [H|[]]; discriminate H | ]); try discriminate H.
      split; [exact I|]. apply sgoto_incl. left. reflexivity.
    Qed.

    (* the end of the chain: a plain Load returns "absent", the read-only path of a compute goes on to the locked path *)
    Lemma end_then s s2 ls2 : inl s -> sstep s t = Some (s2, ls2) -> endchain s ls2 ->
      match lc with
      | SLPlain => In (SRes t (SRVal None false)) ls2 \/ In (SSubRes t (SRVal None false)) ls2
      | SLFast cx => h_pc s2 t = QW_Table cx
      end.
    Proof.
      intros Hin E [Hn Hl].
      assert (Ex : sstep s t = sstep_pc s t (h_pc s t)).
      { unfold XMachineS.sstep. destruct (h_pc s t); try reflexivity; contradiction. }
      rewrite Ex in E. clear Ex. unfold XS_loadhit.inlookup in Hin.
      destruct (h_pc s t) eqn:Hp; try contradiction. destruct Hin as [-> [Elc [-> Eh]]].
      cbn [XMachineS.sstep_pc] in E. cbv zeta in E.
      destruct (Nat.ltb (S bi) _) in E.
      - exfalso. apply some_pair_rd in E. destruct E as [_ ->]. cbn [sgoto snd] in Hl. destruct Hl as [Hl|[]]. discriminate Hl.
      - apply some_pair_rd in E. destruct E as [-> ->]. rewrite <- Elc. destruct lc0.
        + cbn [sgoto]. destruct (h_frame s t) as [fr|].
          * right. apply svisits_incl. apply in_or_app. right. left. reflexivity.
          * left. cbn [snd]. apply in_or_app. right. left. reflexivity.
        + apply sgoto_pc_eq. intros r0. discriminate.
    Qed.

    (* ---------------- a miss is justified by a state in which k was not visible ---------------- *)

    Definition kposb (s : mstate) (p : nat) : bool :=
      match slotk s p, slotv s p, slote s p with
      | Some k', Some _, (true, th) => if eqd k k' then N.eqb th (ktop hash tophash (rtb s) k) else false
      | _, _, _ => false
      end.

    Lemma kposb_spec s p : p < length (rc s) -> (kposb s p = true <-> kpos s p).
    Proof.
      intros Hp. unfold kposb, kpos. split.
      - intros H. destruct (slotk s p) as [k'|]; [|discriminate H]. destruct (slotv s p) as [[x id]|]; [|discriminate H].
        destruct (slote s p) as [[|] th]; [|discriminate H]. destruct (eqd k k') as [<-|]; [|discriminate H]. apply N.eqb_eq in H. subst th.
        split; [exact Hp|]. split; [reflexivity|]. split; [exists x, id; reflexivity | reflexivity].
      - intros [_ [-> [[x [id ->]] ->]]]. destruct (eqd k k) as [_|Hc]; [apply N.eqb_refl | exfalso; apply Hc; reflexivity].
    Qed.

    Lemma haspos_dec s : {exists q, kpos s q} + {forall q, ~ kpos s q}.
    Proof.
      destruct (existsb (kposb s) (seq 0 (length (rc s)))) eqn:E.
      - left. apply existsb_exists in E. destruct E as [q [Hin Hv]]. apply in_seq in Hin. exists q. apply kposb_spec; [lia | exact Hv].
      - right. intros q Hq. assert (Hx : existsb (kposb s) (seq 0 (length (rc s))) = true); [|rewrite Hx in E; discriminate E].
        apply existsb_exists. exists q. destruct Hq as [Q1 Q2]. split; [apply in_seq; lia|]. apply kposb_spec; [exact Q1 | exact (conj Q1 Q2)].
    Qed.

    Lemma vis_dec s : {exists v, svis (stab_at s tab) k v} + {~ exists v, svis (stab_at s tab) k v}.
    Proof.
      destruct (haspos_dec s) as [H|H]; [left; apply kpos_svis; exact H|].
      right. intros Hv. apply kpos_svis in Hv. destruct Hv as [q Hq]. exact (H q Hq).
    Qed.

    Lemma along_or_ever (P : mstate -> Prop) (Pdec : forall s, {P s} + {~ P s}) sched : forall s,
      salong P s sched \/ sever (fun s => ~ P s) s sched.
    Proof.
      induction sched as [|u r IH]; intros s; cbn [XS_loadhit.salong XS_loadhit.sever].
      - destruct (Pdec s) as [H|H]; [left; auto | right; left; exact H].
      - destruct (Pdec s) as [H|H]; [|right; left; exact H].
        destruct (sstep s u) as [[s' ls]|].
        + destruct (IH s') as [A|A]; [left; auto | right; right; exact A].
        + destruct (IH s) as [A|A]; [left; auto | right; right; exact A].
    Qed.

    Lemma along_and (P Q : mstate -> Prop) sched : forall s, salong P s sched -> salong Q s sched -> salong (fun s => P s /\ Q s) s sched.
    Proof.
      induction sched as [|u r IH]; intros s [HP AP] [HQ AQ]; cbn [XS_loadhit.salong]; (split; [auto|]); [exact I|].
      cbn [XS_loadhit.salong] in AP, AQ. destruct (sstep s u) as [[s' ls]|]; apply IH; assumption.
    Qed.

    Lemma ever_impl (P Q : mstate -> Prop) sched : (forall s, P s -> Q s) -> forall s, sever P s sched -> sever Q s sched.
    Proof.
      intros HPQ. induction sched as [|u r IH]; intros s; cbn [XS_loadhit.sever]; intros [H|H].
      - left. apply HPQ. exact H.
      - destruct H.
      - left. apply HPQ. exact H.
      - right. destruct (sstep s u) as [[s' ls]|]; apply IH; exact H.
    Qed.

    (* C04, readers of map.go: a lookup that reaches the end of the chain is justified by a state of the run in which k was not visible in the table *)
    Theorem load_miss s sched s2 ls2 : XB s -> NQ s -> salong inl s sched ->
      (exists k' lc' tab' h, h_pc s t = QL_Top k' lc' tab' h 0) ->
      sstep (fst (srun s sched)) t = Some (s2, ls2) -> endchain (fst (srun s sched)) ls2 ->
      sever (fun s' => forall v, ~ svis (stab_at s' tab) k v) s sched.
    Proof.
      intros HB HN Hal Hst E Hmiss.
      destruct (along_or_ever (fun s => exists v, svis (stab_at s tab) k v) vis_dec sched s) as [A|A].
      - exfalso. pose proof (along_and _ _ sched s Hal A) as Hst'.
        exact (load_no_miss s sched s2 ls2 HB HN Hst' Hst E Hmiss).
      - eapply ever_impl; [|exact A]. intros s0 Hn v Hv. apply Hn. exists v. exact Hv.
    Qed.

    (* the same, for what the caller sees: the lookup returns "absent" *)
    Lemma salong_last (P : mstate -> Prop) sched : forall s, salong P s sched -> P (fst (srun s sched)).
    Proof.
      induction sched as [|u r IH]; intros s [HP A]; cbn [XMachineS.srun]; [exact HP|].
      destruct (sstep s u) as [[s' ls]|]; [|apply IH; exact A].
      specialize (IH s' A). destruct (XMachineS.srun _ _ _ _ _ _ _ _ _ _ _ s' r). exact IH.
    Qed.

    Lemma NQ_srun sched : forall s, NQ s -> NQ (fst (srun s sched)).
    Proof.
      induction sched as [|u r IH]; intros s H; cbn [XMachineS.srun]; [exact H|].
      destruct (sstep s u) as [[s' ls]|] eqn:E; [|apply IH; exact H].
      specialize (IH s' (NQ_sstep eqd hash idx tophash nslots seeds grow_needed shrink_policy nstripes minlen grow_only s u s' ls H E)).
      destruct (XMachineS.srun _ _ _ _ _ _ _ _ _ _ _ s' r). exact IH.
    Qed.

    Theorem load_absent s sched s2 ls2 : XB s -> NQ s -> salong inl s sched ->
      (exists k' lc' tab' h, h_pc s t = QL_Top k' lc' tab' h 0) ->
      sstep (fst (srun s sched)) t = Some (s2, ls2) ->
      In (SRes t (SRVal None false)) ls2 \/ In (SSubRes t (SRVal None false)) ls2 ->
      sever (fun s' => forall v, ~ svis (stab_at s' tab) k v) s sched.
    Proof.
      intros HB HN Hal Hst E Hl. apply (load_miss s sched s2 ls2 HB HN Hal Hst E).
      apply (absent_end _ s2 ls2 (NQ_srun sched s HN) (salong_last _ sched s Hal) E Hl).
    Qed.

    (* a boolean test of visibility, for examples *)
    Definition visb (s : mstate) : bool := existsb (kposb s) (seq 0 (length (rc s))).

    Lemma visb_ok s : visb s = true -> exists v, svis (stab_at s tab) k v.
    Proof.
      intros E. apply kpos_svis. apply existsb_exists in E. destruct E as [q [Hin Hv]]. apply in_seq in Hin.
      exists q. apply kposb_spec; [exact (proj2 Hin) | exact Hv].
    Qed.

  End OneMiss.

  Fixpoint salongb (f : mstate -> bool) (s : mstate) (sched : list nat) : bool :=
    f s && match sched with
           | [] => true
           | u :: r => match sstep s u with Some (s', _) => salongb f s' r | None => salongb f s r end
           end.

  Lemma salongb_ok (f : mstate -> bool) (P : mstate -> Prop) : (forall s, f s = true -> P s) ->
    forall sched s, salongb f s sched = true -> salong P s sched.
  Proof.
    intros Hf. induction sched as [|u r IH]; intros s E; cbn [salongb XS_loadhit.salong] in *; apply andb_prop in E; destruct E as [E1 E2].
    - split; [apply Hf; exact E1 | exact I].
    - split; [apply Hf; exact E1|]. destruct (sstep s u) as [[s' ls]|]; apply IH; exact E2.
  Qed.

End SLoadMiss.

(* ---------------- the statements, every reachable state ---------------- *)
Section Final.
  Context {K V : Type}.
  Variable eqd : forall a b : K, {a = b} + {a <> b}.
  Variable hash : K -> N -> N.
  Variable idx : N -> nat -> nat.
  Variable tophash : N -> N.
  Variable nslots : nat.
  Variable seeds : nat -> N.
  Variable grow_needed shrink_policy : nat -> Z -> bool.
  Variable nstripes : nat -> nat.
  Variable minlen : nat.
  Variable grow_only : bool.

  Notation srun := (@srun K V eqd hash idx tophash nslots seeds grow_needed shrink_policy nstripes minlen grow_only).
  Notation sstep := (@sstep K V eqd hash idx tophash nslots seeds grow_needed shrink_policy nstripes minlen grow_only).
  Notation salong := (@salong K V eqd hash idx tophash nslots seeds grow_needed shrink_policy nstripes minlen grow_only).
  Notation sever := (@sever K V eqd hash idx tophash nslots seeds grow_needed shrink_policy nstripes minlen grow_only).

  Theorem s_load_no_miss_proof :
    lhhyps hash idx tophash nslots minlen -> forall len0 todo sched0 sched t k lc tab s2 ls2, 0 < len0 ->
    let s := fst (srun (sinit nslots seeds nstripes len0 todo) sched0) in
    salong (stays hash idx tophash nslots nstripes t k lc tab) s sched ->
    (exists k' lc' tab' h, h_pc s t = QL_Top k' lc' tab' h 0) ->
    sstep (fst (srun s sched)) t = Some (s2, ls2) ->
    ~ endchain t (fst (srun s sched)) ls2.
  Proof.
    intros [[H1 H2] [H3 [H4 H5]]] len0 todo sched0 sched t k lc tab s2 ls2 Hl s.
    apply (load_no_miss eqd hash idx tophash nslots seeds grow_needed shrink_policy nstripes minlen grow_only H1 H2 H3 H4 H5 t k lc tab s sched s2 ls2).
    - apply (reachable_XB eqd hash idx tophash nslots seeds grow_needed shrink_policy nstripes minlen grow_only H1 H2 H3 H4 H5 len0 todo sched0 Hl).
    - apply (reachable_NQ eqd hash idx tophash nslots seeds grow_needed shrink_policy nstripes minlen grow_only len0 todo sched0).
  Qed.

  Theorem s_load_miss_proof :
    lhhyps hash idx tophash nslots minlen -> forall len0 todo sched0 sched t k lc tab s2 ls2, 0 < len0 ->
    let s := fst (srun (sinit nslots seeds nstripes len0 todo) sched0) in
    salong (inlookup hash nslots nstripes t k lc tab) s sched ->
    (exists k' lc' tab' h, h_pc s t = QL_Top k' lc' tab' h 0) ->
    sstep (fst (srun s sched)) t = Some (s2, ls2) ->
    endchain t (fst (srun s sched)) ls2 ->
    sever (fun s' => forall v, ~ svis hash idx tophash nslots (stab_at nslots nstripes s' tab) k v) s sched.
  Proof.
    intros [[H1 H2] [H3 [H4 H5]]] len0 todo sched0 sched t k lc tab s2 ls2 Hl s.
    apply (load_miss eqd hash idx tophash nslots seeds grow_needed shrink_policy nstripes minlen grow_only H1 H2 H3 H4 H5 t k lc tab s sched s2 ls2).
    - apply (reachable_XB eqd hash idx tophash nslots seeds grow_needed shrink_policy nstripes minlen grow_only H1 H2 H3 H4 H5 len0 todo sched0 Hl).
    - apply (reachable_NQ eqd hash idx tophash nslots seeds grow_needed shrink_policy nstripes minlen grow_only len0 todo sched0).
  Qed.

  Theorem s_load_absent_proof :
    lhhyps hash idx tophash nslots minlen -> forall len0 todo sched0 sched t k lc tab s2 ls2, 0 < len0 ->
    let s := fst (srun (sinit nslots seeds nstripes len0 todo) sched0) in
    salong (inlookup hash nslots nstripes t k lc tab) s sched ->
    (exists k' lc' tab' h, h_pc s t = QL_Top k' lc' tab' h 0) ->
    sstep (fst (srun s sched)) t = Some (s2, ls2) ->
    In (SRes t (SRVal None false)) ls2 \/ In (SSubRes t (SRVal None false)) ls2 ->
    sever (fun s' => forall v, ~ svis hash idx tophash nslots (stab_at nslots nstripes s' tab) k v) s sched.
  Proof.
    intros [[H1 H2] [H3 [H4 H5]]] len0 todo sched0 sched t k lc tab s2 ls2 Hl s.
    apply (load_absent eqd hash idx tophash nslots seeds grow_needed shrink_policy nstripes minlen grow_only H1 H2 H3 H4 H5 t k lc tab s sched s2 ls2).
    - apply (reachable_XB eqd hash idx tophash nslots seeds grow_needed shrink_policy nstripes minlen grow_only H1 H2 H3 H4 H5 len0 todo sched0 Hl).
    - apply (reachable_NQ eqd hash idx tophash nslots seeds grow_needed shrink_policy nstripes minlen grow_only len0 todo sched0).
  Qed.
End Final.
