(* CX_mapof.v -- Stage C: the cache methods over XMachine (MapOf).

   XMachine satisfies the interface of CX_product.v:
     - [step_pc_wtodo] (H_frame): a step does not look at the todo lists, except that an
       idle thread pops the head of its own;
     - [xp_proto] (H_proto): the call protocol, from [step_pc_others] (a step changes
       another thread's program counter at most by waking it up) and [step_pc_hist]
       (a step inside a call is silent or answers and goes idle);
     - H_lin is X_linearizable.xmachine_linearizable_proof, H_transfer is
       CX_trans.mapof_lin_transfer.

   [cache_over_xmachine_linearizable]: every run of the product machine "threads running
   the cache methods of CacheModel, each MapCall being a whole call of XMachine --
   invocation, the primitive steps of the Go code interleaved with everybody else's,
   response --" is linearizable at the cache level w.r.t. the TTL semantics [tspec]. *)
From CacheV Require Import Base SpecMap Client CacheModel Ops SpecTTL Lin Conc XMachine.
From CacheV.gen Require Import Params.
From CacheV.proofs Require Import C01_sim C01_hist C02_good C02_lin X_basic X_lin X_linpoints X_linearizable
  CX_trans CX_compose CX_product.
From Coq Require Import NArith.
Local Open Scope nat_scope.

(* ---------------- XMachine and its todo lists ---------------- *)

Section XFrame.
  Context {K V : Type}.
  Variable eqd : forall a b : K, {a = b} + {a <> b}.
  Variable hash : K -> N -> N.
  Variable idx : N -> nat -> nat.
  Variable tag : N -> N.
  Variable nslots : nat.
  Variable seeds : nat -> N.
  Variable grow_needed shrink_policy : nat -> Z -> bool.
  Variable probe : list (option N) -> N -> list nat.
  Variable nstripes : nat -> nat.
  Variable minlen : nat.
  Variable grow_only : bool.

  Notation xstate := (@xstate K V).
  Notation xop := (@xop K V).
  Notation xres := (@xres K V).
  Notation xlabel := (@xlabel K V).
  Notation pc := (@pc K V).
  Notation step_pc := (@step_pc K V eqd hash idx tag nslots seeds grow_needed shrink_policy probe nstripes minlen grow_only).
  Notation xstep := (@xstep K V eqd hash idx tag nslots seeds grow_needed shrink_policy probe nstripes minlen grow_only).
  Notation xrun := (@xrun K V eqd hash idx tag nslots seeds grow_needed shrink_policy probe nstripes minlen grow_only).
  Notation xhist := (@X_linpoints.xhist K V).

  Definition with_todo (s : xstate) (td : nat -> list xop) : xstate :=
    {| g_tabs := g_tabs s; g_cur := g_cur s; g_resizing := g_resizing s; g_rmu := g_rmu s;
       g_growths := g_growths s; g_shrinks := g_shrinks s; g_pc := g_pc s; g_todo := td |}.

  Definition lift (td : nat -> list xop) (r : option (xstate * list xlabel)) : option (xstate * list xlabel) :=
    match r with Some (s1, ls) => Some (with_todo s1 td, ls) | None => None end.

  (* a step inside a call does not look at the todo lists *)
  Lemma step_pc_wtodo s td t p : step_pc (with_todo s td) t p = lift td (step_pc s t p).
  Proof.
    destruct s as [tabs cur rz mu gr sh pcs td0]. unfold with_todo. cbn [g_tabs g_cur g_resizing g_rmu g_growths g_shrinks g_pc g_todo].
    destruct p; cbn [XMachine.step_pc]; cbv zeta;
      unfold XMachine.tab_at, XMachine.set_tab, XMachine.set_flags, XMachine.push_tab; cbn [g_tabs g_cur g_resizing g_rmu g_growths g_shrinks g_pc g_todo];
      repeat match goal with |- context [match ?x with _ => _ end] => destruct x eqn:? end; try reflexivity.
    all: try (match goal with |- context [goto _ _ ?q _] => is_var q; destruct q; reflexivity end).
    all: try (match goal with |- context [run_cont ?q] => is_var q; destruct q; reflexivity end).
  Qed.

  Lemma some_pair {A B} (g : A * B) a b : Some g = Some (a, b) -> a = fst g /\ b = snd g.
  Proof. intros H. inversion H. auto. Qed.

  Lemma goto_hist' (s : xstate) t (q : pc) l :
    xhist (snd (goto s t q l)) = xhist l ++ match q with PRet r => [HRes t r] | _ => [] end.
  Proof. destruct q; cbn [goto snd]; rewrite ?app_nil_r; try reflexivity. rewrite xhist_app. reflexivity. Qed.

  Lemma goto_pc_other (s : xstate) t (q : pc) l u : u <> t -> g_pc (fst (goto s t q l)) u = g_pc s u.
  Proof. intros Hn. destruct q; cbn [goto fst set_pc g_pc]; destruct (Nat.eq_dec u t); congruence. Qed.

  Lemma goto_pc_ret (s : xstate) t r l : g_pc (fst (goto s t (PRet r) l)) t = PIdle.
  Proof. cbn [goto fst set_pc g_pc]. destruct (Nat.eq_dec t t); congruence. Qed.

  Lemma goto_todo' (s : xstate) t (q : pc) l : g_todo (fst (goto s t q l)) = g_todo s.
  Proof. destruct q; reflexivity. Qed.

  Lemma fnev_hist' t (cx : @cctx K V) : xhist (fnev_of t cx) = [].
  Proof. unfold fnev_of. destruct (cx_ev cx); reflexivity. Qed.

  Lemma visit_hist' t (snap : list (K * V)) : xhist (map (fun kv => XVisit t (fst kv) (snd kv)) snap) = [].
  Proof. induction snap; cbn; auto. Qed.

  Ltac scases Hs :=
    cbn [XMachine.step_pc] in Hs; cbv zeta in Hs;
    repeat match type of Hs with
           | context [match ?x with _ => _ end] => destruct x eqn:?
           end;
    try discriminate; apply some_pair in Hs; destruct Hs as [? ?]; subst.

  Lemma step_pc_todo s t p s' ls : step_pc s t p = Some (s', ls) -> g_todo s' = g_todo s.
  Proof. intros Hs. destruct p; scases Hs; rewrite ?goto_todo'; reflexivity. Qed.

  (* a step changes another thread's program counter at most by waking it up *)
  Lemma step_pc_others s t p s' ls : step_pc s t p = Some (s', ls) ->
    forall u, u <> t -> g_pc s' u = g_pc s u \/ g_pc s' u = wake (g_pc s u).
  Proof.
    intros Hs u Hn. destruct p; scases Hs; rewrite ?goto_pc_other by exact Hn;
      cbn [g_pc set_tab set_flags push_tab set_pc fst]; auto.
    all: try (destruct (Nat.eq_dec u t); [contradiction | auto]).
  Qed.

  (* a step inside a call is silent, or answers and leaves the thread idle *)
  Lemma step_pc_hist s t p s' ls : step_pc s t p = Some (s', ls) ->
    xhist ls = [] \/ exists r, xhist ls = [HRes t r] /\ g_pc s' t = PIdle.
  Proof.
    intros Hs. destruct p; scases Hs; rewrite ?goto_hist'; cbn [X_linpoints.xhist app];
      rewrite ?xhist_app, ?fnev_hist', ?visit_hist'; cbn [X_linpoints.xhist app].
    all: try (left; reflexivity).
    all: try (right; eexists; split; [reflexivity | apply goto_pc_ret]).
    all: try (match goal with |- context [match ?q with PRet _ => _ | _ => _ end] => is_var q; destruct q end;
              first [left; reflexivity | right; eexists; split; [reflexivity | apply goto_pc_ret]]).
    all: try (match goal with |- context [run_cont ?q] => is_var q; destruct q; cbn [run_cont] end;
              first [left; reflexivity | right; eexists; split; [reflexivity | apply goto_pc_ret]]).
  Qed.

  (* ---------------- the interface of CX_product.v ---------------- *)

  Definition xp_step (s : xstate) (t : nat) : option (xstate * list (hev xop xres)) :=
    match xstep s t with Some (s', ls) => Some (s', xhist ls) | None => None end.

  Definition xidle (s : xstate) (t : nat) : Prop := g_pc s t = PStart \/ g_pc s t = PIdle.

  (* the state just after the invocation of o by the idle thread t *)
  Definition xinvoke (s : xstate) (t : nat) (o : xop) (rest : list xop) : xstate :=
    {| g_tabs := g_tabs s; g_cur := g_cur s; g_resizing := g_resizing s; g_rmu := g_rmu s;
       g_growths := g_growths s; g_shrinks := g_shrinks s;
       g_pc := fun t' => if Nat.eq_dec t' t then start_pc o else g_pc s t';
       g_todo := fun t' => if Nat.eq_dec t' t then rest else g_todo s t' |}.

  Lemma pc_idle_dec (p : pc) : {p = PIdle} + {p <> PIdle}.
  Proof. destruct p; first [left; reflexivity | right; discriminate]. Qed.

  Lemma xstep_nonidle s t : g_pc s t <> PIdle -> xstep s t = step_pc s t (g_pc s t).
  Proof. intros Hn. unfold XMachine.xstep. destruct (g_pc s t); try reflexivity. exfalso; apply Hn; reflexivity. Qed.

  Lemma xstep_idle s t : g_pc s t = PIdle ->
    xstep s t = match g_todo s t with
                | [] => None
                | o :: rest =>
                    match step_pc (xinvoke s t o rest) t (start_pc o) with
                    | Some (s2, ls) => Some (s2, XMachine.XInv t o :: ls)
                    | None => Some (xinvoke s t o rest, [XMachine.XInv t o])
                    end
                end.
  Proof. intros Hp. unfold XMachine.xstep. rewrite Hp. reflexivity. Qed.

  Lemma start_pc_blocks_not (s1 : xstate) t o : step_pc s1 t (start_pc o) <> None.
  Proof. destruct o; cbn; try discriminate. destruct lie; cbn; discriminate. Qed.

  Lemma xp_frame s t s' h td fut :
    xp_step s t = Some (s', h) -> (forall u, td u = g_todo s u ++ fut u) ->
    exists td', xp_step (with_todo s td) t = Some (with_todo s' td', h) /\ forall u, td' u = g_todo s' u ++ fut u.
  Proof.
    unfold xp_step. intros E Htd.
    destruct (xstep s t) as [[s1 ls]|] eqn:Ex; [|discriminate E]. inversion E; subst s1 h; clear E.
    destruct (pc_idle_dec (g_pc s t)) as [Hp|Hp].
    - rewrite (xstep_idle s t Hp) in Ex. rewrite (xstep_idle (with_todo s td) t Hp).
      cbn [with_todo g_todo]. rewrite (Htd t).
      destruct (g_todo s t) as [|o rest] eqn:Et; [discriminate Ex|]. cbn [app].
      set (td1 := fun t' => if Nat.eq_dec t' t then rest ++ fut t else td t').
      change (xinvoke (with_todo s td) t o (rest ++ fut t)) with (with_todo (xinvoke s t o rest) td1).
      rewrite step_pc_wtodo.
      assert (Htd1 : forall u, td1 u = g_todo (xinvoke s t o rest) u ++ fut u).
      { intros u. unfold td1. cbn [xinvoke g_todo]. destruct (Nat.eq_dec u t) as [->|]; [reflexivity | apply Htd]. }
      destruct (step_pc (xinvoke s t o rest) t (start_pc o)) as [[s2 ls2]|] eqn:E2; cbn [lift].
      + inversion Ex; subst s' ls; clear Ex. exists td1. split; [reflexivity|].
        intros u. rewrite (step_pc_todo _ _ _ _ _ E2). apply Htd1.
      + inversion Ex; subst s' ls; clear Ex. exists td1. split; [reflexivity | exact Htd1].
    - rewrite (xstep_nonidle s t Hp) in Ex. rewrite (xstep_nonidle (with_todo s td) t Hp).
      cbn [with_todo g_pc]. rewrite step_pc_wtodo, Ex. cbn [lift]. exists td. split; [reflexivity|].
      intros u. rewrite (step_pc_todo _ _ _ _ _ Ex). apply Htd.
  Qed.

  Lemma wake_idle (p : pc) : (p = PStart \/ p = PIdle) -> wake p = p.
  Proof. intros [-> | ->]; reflexivity. Qed.

  Lemma xp_proto s t s' h : xp_step s t = Some (s', h) ->
    (forall u, u <> t -> g_todo s' u = g_todo s u /\ (xidle s u -> xidle s' u))
    /\ ( (xidle s t /\ h = [] /\ xidle s' t /\ g_todo s' t = g_todo s t)
         \/ (xidle s t /\ exists o rest, g_todo s t = o :: rest /\ g_todo s' t = rest
                        /\ (h = [HInv t o] \/ exists r, h = [HInv t o; HRes t r] /\ xidle s' t))
         \/ (~ xidle s t /\ g_todo s' t = g_todo s t /\ (h = [] \/ exists r, h = [HRes t r] /\ xidle s' t)) ).
  Proof.
    unfold xp_step. intros E.
    destruct (xstep s t) as [[s1 ls]|] eqn:Ex; [|discriminate E]. inversion E; subst s1 h; clear E.
    destruct (pc_idle_dec (g_pc s t)) as [Hp|Hp].
    - (* the invocation *)
      rewrite (xstep_idle s t Hp) in Ex. destruct (g_todo s t) as [|o rest] eqn:Et; [discriminate Ex|].
      destruct (step_pc (xinvoke s t o rest) t (start_pc o)) as [[s2 ls2]|] eqn:E2;
        [|exfalso; exact (start_pc_blocks_not _ _ _ E2)].
      inversion Ex; subst s' ls; clear Ex.
      pose proof (step_pc_todo _ _ _ _ _ E2) as Htd. split.
      + intros u Hn. rewrite Htd. cbn [xinvoke g_todo]. destruct (Nat.eq_dec u t) as [Hc|_]; [contradiction|].
        split; [reflexivity|]. intros Hi. unfold xidle.
        destruct (step_pc_others _ _ _ _ _ E2 u Hn) as [Eu|Eu]; rewrite Eu; cbn [xinvoke g_pc];
          (destruct (Nat.eq_dec u t) as [Hc|_]; [contradiction|]); [exact Hi | rewrite (wake_idle _ Hi); exact Hi].
      + right; left. split; [right; exact Hp|]. exists o, rest. split; [reflexivity|]. split.
        * rewrite Htd. cbn [xinvoke g_todo]. destruct (Nat.eq_dec t t) as [_|Hc]; [reflexivity | congruence].
        * cbn [X_linpoints.xhist]. destruct (step_pc_hist _ _ _ _ _ E2) as [Eh|[r [Eh Hi]]]; rewrite Eh.
          -- left. reflexivity.
          -- right. exists r. split; [reflexivity | right; exact Hi].
    - rewrite (xstep_nonidle s t Hp) in Ex.
      pose proof (step_pc_todo _ _ _ _ _ Ex) as Htd. split.
      + intros u Hn. rewrite Htd. split; [reflexivity|]. intros Hi. unfold xidle.
        destruct (step_pc_others _ _ _ _ _ Ex u Hn) as [Eu|Eu]; rewrite Eu; [exact Hi | rewrite (wake_idle _ Hi); exact Hi].
      + destruct (g_pc s t) eqn:Hpc; try (exfalso; apply Hp; reflexivity).
        1: { (* the goroutine starts *)
             left. cbn [XMachine.step_pc] in Ex. inversion Ex; subst s' ls; clear Ex.
             split; [left; exact Hpc|]. split; [reflexivity|]. split; [|reflexivity].
             right. cbn [set_pc g_pc]. destruct (Nat.eq_dec t t); congruence. }
        all: right; right; (split; [intros [Hc|Hc]; rewrite Hpc in Hc; discriminate Hc|]); (split; [rewrite Htd; reflexivity|]);
          rewrite <- Hpc in Ex; (destruct (step_pc_hist _ _ _ _ _ Ex) as [Eh|[rr [Eh Hi]]]; rewrite Eh;
          [left; reflexivity | right; exists rr; split; [reflexivity | right; exact Hi]]).
  Qed.

  Lemma xp_mrun sched : forall s, snd (mrun xstate xop xres xp_step s sched) = xhist (snd (xrun s sched)).
  Proof.
    induction sched as [|t rest IH]; intros s; [reflexivity|].
    cbn [mrun XMachine.xrun]. unfold xp_step at 1.
    destruct (xstep s t) as [[s1 ls]|]; [|apply IH].
    specialize (IH s1). destruct (mrun xstate xop xres xp_step s1 rest) as [s2 h2].
    destruct (xrun s1 rest) as [s3 ls3]. cbn [snd] in *. rewrite xhist_app, IH. reflexivity.
  Qed.

End XFrame.

(* ---------------- the cache over XMachine ---------------- *)

Section CacheOverXMachine.
  Context {K V : Type}.
  Variable eqd : forall a b : K, {a = b} + {a <> b}.
  Variable hash : K -> N -> N.
  Variable idx : N -> nat -> nat.
  Variable tag : N -> N.
  Variable nslots : nat.
  Variable seeds : nat -> N.
  Variable grow_needed shrink_policy : nat -> Z -> bool.
  Variable probe : list (option N) -> N -> list nat.
  Variable nstripes : nat -> nat.
  Variable minlen : nat.
  Variable grow_only : bool.
  Variable len0 : nat.                                   (* the initial table's length *)
  Variable progs : cop K V -> prog K V (cres K V).       (* the cache methods *)
  Variables NOW DFLT : Z.
  Variable CB : cbid.

  Notation item := (item V).
  Notation xstate := (@xstate K item).
  Notation xop := (@xop K item).
  Notation xres := (@xres K item).
  Notation env0 := (Conc.env0 NOW DFLT).
  Notation xp_step := (@xp_step K item eqd hash idx tag nslots seeds grow_needed shrink_policy probe nstripes minlen grow_only).

  (* the map calls XMachine can do linearizably: all but Size and Range *)
  Definition xsup (o : cmop K V) : bool := match o with CSize | CSnapshot => false | _ => true end.

  Definition xp_init (td : nat -> list xop) : xstate := xinit nslots seeds nstripes len0 td.

  (* one move of the product machine: thread t of "the cache over MapOf" *)
  Definition cxstep := pstep progs NOW DFLT CB xstate xop xres xp_step (@g_todo K item) with_todo
                             (translate env0) (back env0) xsup.
  Definition cxrun := prun progs NOW DFLT CB xstate xop xres xp_step (@g_todo K item) with_todo
                           (translate env0) (back env0) xsup.
  Definition cxinit (todo : nat -> list (cop K V)) : pconf xstate := pinit xstate xop xp_init todo.

  (* the cache-level history of a run *)
  Definition cxhist (todo : nat -> list (cop K V)) sched : list (hev (cop K V) (cres K V)) :=
    cproj (snd (fst (cxrun (cxinit todo) sched))).

  Hypothesis Hx : xhyps4 idx nstripes minlen nslots probe.
  Hypothesis Hlen : 0 < len0.

  (* for any programs: linearizability of the atomic-map machine of Conc.v carries over *)
  Theorem xproduct_linearizable (St : Type) (spec : St -> cop K V -> cres K V -> St -> Prop) (S0 : St) todo sched :
    (forall sched', linearizable _ _ St spec S0 (history (snd (crun eqd progs NOW DFLT CB (cinit [] todo) sched')))) ->
    linearizable _ _ St spec S0 (cxhist todo sched).
  Proof.
    intros Hall. unfold cxhist, cxrun, cxinit.
    apply (product_linearizable eqd progs NOW DFLT CB xstate xop xres (X_linpoints.amap K item)
             xp_step (@g_todo K item) with_todo (@xidle K item) xp_init (xspec eqd) (aempty (K:=K) (V:=item)) (okop (K:=K) (V:=item))
             (translate env0) (back env0) xsup); try exact Hall.
    - intros s td t. reflexivity.
    - intros s td t. split; intros H; exact H.
    - intros s a b. reflexivity.
    - intros td t. reflexivity.
    - intros td t. left. reflexivity.
    - intros a b. reflexivity.
    - intros s t s' h td fut. apply xp_frame.
    - intros s t s' h. apply xp_proto.
    - intros o Ho. apply translate_okop. destruct o; cbn in Ho |- *; try exact I; discriminate Ho.
    - intros td sched0 Htd. rewrite xp_mrun.
      apply (xmachine_linearizable_proof eqd hash idx tag nslots seeds grow_needed shrink_policy probe nstripes minlen grow_only
               Hx len0 td sched0 Hlen Htd).
    - intros hx hm Hh Hl. apply (mapof_lin_transfer eqd env0 hx hm); [|exact Hl].
      eapply hrel_ok_mono; [|exact Hh]. intros o Ho. destruct o; cbn in Ho |- *; try exact I; discriminate Ho.
  Qed.

End CacheOverXMachine.

Section Final.
  Context {K V : Type}.
  Variable eqd : forall a b : K, {a = b} + {a <> b}.
  Variable hash : K -> N -> N.
  Variable idx : N -> nat -> nat.
  Variable tag : N -> N.
  Variable nslots : nat.
  Variable seeds : nat -> N.
  Variable grow_needed shrink_policy : nat -> Z -> bool.
  Variable probe : list (option N) -> N -> list nat.
  Variable nstripes : nat -> nat.
  Variable minlen : nat.
  Variable grow_only : bool.
  Variable zero : V.
  Variables NOW DFLT : Z.
  Variable CB : cbid.

  (* C02 over the concurrent map: every run of the cache methods (CacheModel) over XMachine,
     from the empty cache, is linearizable w.r.t. the TTL-map semantics *)
  Theorem cache_over_xmachine_linearizable :
    xhyps4 idx nstripes minlen nslots probe -> forall len0 (todo : nat -> list (cop K V)) sched, 0 < len0 ->
    (forall t, Forall conc_ok (todo t)) ->
    linearizable _ _ _ (tspec eqd zero) (mk NOW DFLT CB [])
      (cxhist eqd hash idx tag nslots seeds grow_needed shrink_policy probe nstripes minlen grow_only len0
              (prog_cache eqd zero) NOW DFLT CB todo sched).
  Proof.
    intros Hx len0 todo sched Hlen Htodo.
    apply (xproduct_linearizable eqd hash idx tag nslots seeds grow_needed shrink_policy probe nstripes minlen grow_only
             len0 (prog_cache eqd zero) NOW DFLT CB Hx Hlen).
    intros sched'. apply (cache_linearizable eqd zero NOW DFLT CB [] [] todo sched'); [|exact Htodo].
    apply C01_hist.R_init. reflexivity.
  Qed.

End Final.

Print Assumptions cache_over_xmachine_linearizable.

(* ---------------- the executable instance (XExec.v), and a run ---------------- *)
From CacheV Require Import TabExec Exec XExec.
From CacheV.proofs Require Import X_swar.

(* the cache methods over the MapOf machine that CORR-sched replays against the Go code *)
Theorem cache_over_xmachine_instance :
  forall (o : oracle) (sds : list N) (hint : Z) (zero : Z) (NOW DFLT : Z) (CB : cbid)
         (todo : nat -> list (cop Z Z)) sched,
    (forall t, Forall conc_ok (todo t)) ->
    linearizable _ _ _ (tspec zeqd zero) (mk NOW DFLT CB [])
      (cxhist zeqd (hash_of o) idx_mapof tag_mapof (Z.to_nat entriesPerMapOfBucket) (seeds_of sds)
              grow_needed_m shrink_policy_m probe_x nstripes_x (minlen_of_hint true hint) false (minlen_of_hint true hint)
              (prog_cache zeqd zero) NOW DFLT CB todo sched).
Proof.
  intros o sds hint zero NOW DFLT CB todo sched Htodo.
  apply (cache_over_xmachine_linearizable zeqd (hash_of o) idx_mapof tag_mapof (Z.to_nat entriesPerMapOfBucket) (seeds_of sds)
           grow_needed_m shrink_policy_m probe_x nstripes_x (minlen_of_hint true hint) false zero NOW DFLT CB
           (x_instance_hyps4 hint) (minlen_of_hint true hint) todo sched); [|exact Htodo].
  destruct (x_instance_hyps4 hint) as [[_ [_ H]] _]. exact H.
Qed.
Print Assumptions cache_over_xmachine_instance.

(* a run: thread 0 does Set(7, 1, 50ns) and GetAndDelete(7), thread 1 does Get(7) twice; the clock
   stands at 100.  Thread 1's first Get overlaps the GetAndDelete: both see the value 1 (the Get is
   linearized before the delete); its second Get misses. *)
Definition cx_ex_hist (todo : nat -> list (cop Z Z)) sched :=
  cxhist zeqd (hash_of []) idx_mapof tag_mapof (Z.to_nat entriesPerMapOfBucket) (seeds_of [])
         grow_needed_m shrink_policy_m probe_x nstripes_x (minlen_of_hint true 0%Z) false (minlen_of_hint true 0%Z)
         (prog_cache zeqd 0%Z) 100%Z 0%Z None todo sched.
Definition cx_ex_todo (t : nat) : list (cop Z Z) :=
  match t with O => [OSet 7%Z 1%Z 50%Z; OGetAndDelete 7%Z] | S O => [OGet 7%Z; OGet 7%Z] | _ => [] end.
Definition cx_ex_sched : list (nat * list (Z * item Z)) :=
  map (fun t => (t, [])) (repeat 0 18 ++ [1; 1; 1; 1; 1; 1] ++ repeat 0 20 ++ repeat 1 30).

Example cache_over_xmachine_run :
  cx_ex_hist cx_ex_todo cx_ex_sched
  = [HInv 0 (OSet 7%Z 1%Z 50%Z); HRes 0 CUnit; HInv 0 (OGetAndDelete 7%Z);
     HInv 1 (OGet 7%Z); HRes 0 (CVal 1%Z true); HRes 1 (CVal 1%Z true);
     HInv 1 (OGet 7%Z); HRes 1 (CVal 0%Z false)].
Proof. vm_compute. reflexivity. Qed.
