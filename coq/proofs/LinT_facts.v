(* LinT_facts.v -- facts about interval-timestamped linearizability (LinT.v):
   an inversion principle for instrumented histories, and the sanity lemma
   that on histories WITHOUT ticks the notion coincides with Lin.v's
   [linearizable] w.r.t. the specification [tspec] of C02_lin.v. *)
From CacheV Require Import Base SpecMap Client Ops SpecTTL Lin LinT.
From CacheV.gen Require Import Params.
From CacheV.proofs Require C02_lin.

Section Inversion.
  Variables Op Res St : Type.
  Variable clock : St -> Z.
  Variable tick : St -> Z -> St.
  Variable stamp_ok : Op -> Z -> Z -> Z -> Prop.
  Variable spec : St -> Z -> Op -> Res -> St -> Prop.

  Notation legalT := (legalT Op Res St clock tick stamp_ok spec).
  Notation eraseT := (eraseT Op Res).

  (* an instrumented history whose erasure starts with e starts with a mark of an
     invoked thread, or with e *)
  Lemma legalT_head s st i e h :
    legalT s st i -> eraseT i = e :: h ->
    (exists t o c_inv tau r s' i',
        i = ITLin t o tau r :: i' /\ st t = TInvokedT o c_inv /\ stamp_ok o c_inv (clock s) tau
        /\ spec s tau o r s' /\ legalT s' (upd st t (TLinearizedT o r tau)) i' /\ eraseT i' = e :: h)
    \/ (exists i', eraseT i' = h /\
          match e with
          | HTInv t o => i = ITInv t o :: i' /\ st t = TIdleT /\ legalT s (upd st t (TInvokedT o (clock s))) i'
          | HTRes t r => i = ITRes t r :: i' /\ exists o tau, st t = TLinearizedT o r tau /\ tau <= clock s
                                                              /\ legalT s (upd st t TIdleT) i'
          | HTTick dt => i = ITTick dt :: i' /\ 0 <= dt /\ legalT (tick s dt) st i'
          end).
  Proof.
    intros Hl He. destruct Hl as [s st|s st t o l Hst Hl|s st dt l Hdt Hl|s st t o c_inv tau r s' l Hst Hsk Hsp Hl|s st t o r tau l Hst Hle Hl];
      cbn [LinT.eraseT] in He.
    - discriminate.
    - injection He as <- <-. right. exists l. auto.
    - injection He as <- <-. right. exists l. auto.
    - left. exists t, o, c_inv, tau, r, s', l. auto 10.
    - injection He as <- <-. right. exists l. split; [reflexivity|]. split; [reflexivity|]. eauto.
  Qed.

End Inversion.

Section Ext.
  Variables Op Res St : Type.
  Variable clock : St -> Z.
  Variable tick : St -> Z -> St.
  Variable stamp_ok : Op -> Z -> Z -> Z -> Prop.
  Variable spec : St -> Z -> Op -> Res -> St -> Prop.

  Notation legalT := (legalT Op Res St clock tick stamp_ok spec).

  Lemma upd_ext {X} (f g : nat -> X) t x : (forall t', f t' = g t') -> forall t', upd f t x t' = upd g t x t'.
  Proof. intros H t'. unfold upd. destruct (Nat.eq_dec t' t); auto. Qed.

  (* the judgement only looks at the values of the status function *)
  Lemma legalT_ext s st i : legalT s st i -> forall st', (forall t, st t = st' t) -> legalT s st' i.
  Proof.
    induction 1 as [s st|s st t o l Hst Hl IH|s st dt l Hdt Hl IH|s st t o c_inv tau r s' l Hst Hsk Hsp Hl IH|s st t o r tau l Hst Hle Hl IH];
      intros st' He.
    - constructor.
    - apply lt_inv; [rewrite <- He; exact Hst|]. apply IH. apply upd_ext. exact He.
    - apply lt_tick; [exact Hdt|]. apply IH. exact He.
    - eapply lt_lin; [rewrite <- He; exact Hst | exact Hsk | exact Hsp |]. apply IH. apply upd_ext. exact He.
    - eapply lt_res; [rewrite <- He; exact Hst | exact Hle |]. apply IH. apply upd_ext. exact He.
  Qed.

  Lemma eraseT_app (a b : list (ievT Op Res)) : eraseT Op Res (a ++ b) = eraseT Op Res a ++ eraseT Op Res b.
  Proof. induction a as [|[] a IH]; cbn; auto; f_equal; auto. Qed.

End Ext.

(* ------------------------------------------------------------------ *)
(* LinT.v is a conservative generalisation of Lin.v: on histories without ticks
   (and without calls that themselves move the clock: OAdvance is SpecTTL's way
   of letting time pass BETWEEN calls of a sequential history) the TTL instance
   [cache_linearizableT] coincides with [linearizable] w.r.t. [tspec]. *)
Section Conservative.
  Context {K V : Type}.
  Variable eqd : forall a b : K, {a = b} + {a <> b}.
  Variable zero : V.

  Notation cop := (cop K V).
  Notation cres := (cres K V).
  Notation sstate := (@sstate K V).
  Notation tspec := (C02_lin.tspec eqd zero).
  Notation legalT := (legalT cop cres sstate (@st_now K V) (@advance K V) (stampT (K:=K) (V:=V)) (tspecT eqd zero)).
  Notation eraseT := (eraseT cop cres).

  Definition no_adv (o : cop) : Prop := match o with OAdvance _ => False | _ => True end.

  Definition hist_no_adv (h : list (@hev cop cres)) : Prop :=
    Forall (fun e => match e with HInv _ o => no_adv o | HRes _ _ => True end) h.

  Lemma spec_next_now (s : sstate) o : no_adv o -> st_now (spec_next eqd zero s o) = st_now s.
  Proof.
    destruct o; cbn; intros H; try contradiction; try reflexivity.
    - destruct (vw eqd s k); reflexivity.
    - destruct (vw eqd s k); reflexivity.
    - destruct (vw eqd s k); reflexivity.
    - destruct (match vw eqd s k with Some i => fn (iv i) true | None => fn zero false end) as [v []]; reflexivity.
  Qed.

  (* with the stamp equal to the clock of the state, the timed specification IS the untimed one *)
  Lemma tspecT_now (s : sstate) o r s' : tspecT eqd zero s (st_now s) o r s' <-> tspec s o r s'.
  Proof.
    unfold C02_lin.tspec. destruct o; cbn [tspecT spec_ok spec_next]; tauto.
  Qed.

  (* whatever stamp a call used: without ticks, the untimed specification allows the same step,
     with the same answer as soon as the stamp is not in the future *)
  Lemma tspecT_back (s : sstate) c_inv tau o r s' :
    c_inv = st_now s -> stampT o c_inv (st_now s) tau -> tspecT eqd zero s tau o r s' ->
    exists r', tspec s o r' s' /\ (tau <= st_now s -> r' = r).
  Proof.
    intros -> Hst Hsp.
    assert (Heq : tau = st_now s -> exists r', tspec s o r' s' /\ (tau <= st_now s -> r' = r)).
    { intros ->. exists r. split; [apply tspecT_now; exact Hsp | auto]. }
    unfold stampT in Hst. destruct o; cbn [kindT stamp_in] in Hst; try (apply Heq; lia).
    - (* GetWithTTL *)
      cbn [tspecT] in Hsp. destruct Hsp as [-> ->].
      eexists. split; [split; [cbn [spec_ok]; reflexivity | reflexivity]|].
      intros Hle. assert (tau = st_now s) by lia. subst tau. reflexivity.
    - (* GetAndDelete *)
      cbn [tspecT] in Hsp. destruct Hsp as [-> ->].
      eexists. split; [split; [cbn [spec_ok]; reflexivity | reflexivity]|].
      intros Hle. assert (tau = st_now s) by lia. subst tau. reflexivity.
  Qed.

  (* ---- Lin.v -> LinT.v ---- *)

  Definition statT (c0 : Z) (x : tstat cop cres) : tstatT cop cres :=
    match x with
    | TIdle => TIdleT
    | TInvoked o => TInvokedT o c0
    | TLinearized o r => TLinearizedT o r c0
    end.

  Fixpoint instT (c0 : Z) (i : list (@iev cop cres)) : list (ievT cop cres) :=
    match i with
    | [] => []
    | IInv t o :: l => ITInv t o :: instT c0 l
    | ILin t o r :: l => ITLin t o c0 r :: instT c0 l
    | IRes t r :: l => ITRes t r :: instT c0 l
    end.

  Lemma eraseT_instT c0 i : eraseT (instT c0 i) = embed _ _ (erase _ _ i).
  Proof. induction i as [|[] i IH]; cbn; auto; f_equal; auto. Qed.

  Definition inv_no_adv (st : nat -> tstat cop cres) : Prop :=
    forall t o, st t = TInvoked o -> no_adv o.

  Lemma lin_to_linT i : forall (s : sstate) st,
    wf_inst _ _ st i -> legal _ _ _ tspec s i ->
    hist_no_adv (erase _ _ i) -> inv_no_adv st ->
    legalT s (fun t => statT (st_now s) (st t)) (instT (st_now s) i).
  Proof.
    induction i as [|e i IH]; intros s st Hw Hl Hh Hst; [constructor|].
    destruct e as [t o|t o r|t r]; inversion Hw; subst; inversion Hl; subst; cbn [instT erase] in *.
    - inversion Hh; subst.
      apply lt_inv; [match goal with H : st t = _ |- _ => rewrite H end; reflexivity|].
      eapply legalT_ext; [apply (IH s (upd st t (TInvoked o))); auto|].
      + intros t' o'. unfold upd. destruct (Nat.eq_dec t' t); [intros E; inversion E; subst; assumption | apply Hst].
      + intros t'. unfold upd. destruct (Nat.eq_dec t' t); reflexivity.
    - match goal with H : tspec s o r _ |- _ => pose proof H as Hsp; destruct H as [_ Hnx] end.
      assert (Hna : no_adv o) by (eapply Hst; eassumption).
      assert (Hnow : st_now s' = st_now s) by (rewrite Hnx; apply spec_next_now; exact Hna).
      eapply lt_lin with (c_inv := st_now s) (s' := s').
      + match goal with H : st t = _ |- _ => rewrite H end. reflexivity.
      + unfold stampT. destruct (kindT o); cbn; lia.
      + apply tspecT_now. exact Hsp.
      + rewrite <- Hnow. eapply legalT_ext; [apply (IH s' (upd st t (TLinearized o r))); auto|].
        * intros t' o'. unfold upd. destruct (Nat.eq_dec t' t); [discriminate | apply Hst].
        * intros t'. unfold upd. destruct (Nat.eq_dec t' t); reflexivity.
    - eapply lt_res with (o := o) (tau := st_now s).
      + match goal with H : st t = _ |- _ => rewrite H end. reflexivity.
      + cbn. lia.
      + eapply legalT_ext; [apply (IH s (upd st t TIdle)); auto|].
        * inversion Hh; auto.
        * intros t' o'. unfold upd. destruct (Nat.eq_dec t' t); [discriminate | apply Hst].
        * intros t'. unfold upd. destruct (Nat.eq_dec t' t); reflexivity.
  Qed.

  (* ---- LinT.v -> Lin.v ---- *)

  (* a status of LinT.v and the status of Lin.v that stands for it when the clock is c0 throughout *)
  Definition strel (c0 : Z) (xT : tstatT cop cres) (x : tstat cop cres) : Prop :=
    match xT with
    | TIdleT => x = TIdle
    | TInvokedT o ci => x = TInvoked o /\ ci = c0 /\ no_adv o
    | TLinearizedT o r tau => exists r', x = TLinearized o r' /\ (tau <= c0 -> r' = r)
    end.

  Lemma linT_to_lin (s : sstate) stT iT :
    legalT s stT iT -> forall h st,
    eraseT iT = embed _ _ h -> hist_no_adv h ->
    (forall t, strel (st_now s) (stT t) (st t)) ->
    exists i, erase _ _ i = h /\ wf_inst _ _ st i /\ legal _ _ _ tspec s i.
  Proof.
    induction 1 as [s stT|s stT t o l Hst Hl IH|s stT dt l Hdt Hl IH|s stT t o c_inv tau r s' l Hst Hsk Hsp Hl IH|s stT t o r tau l Hst Hle Hl IH];
      intros h st He Hh Hrel.
    - destruct h as [|[] h]; [|discriminate He|discriminate He]. exists []. repeat split; constructor.
    - destruct h as [|[t0 o0|t0 r0] h]; try discriminate He. cbn in He. injection He as <- <- He.
      inversion Hh as [|? ? Hna Hh']; subst.
      destruct (IH h (upd st t (TInvoked o)) He Hh') as [i [Ei [Hw Hleg]]].
      { intros t'. unfold upd. destruct (Nat.eq_dec t' t); [cbn; auto | apply Hrel]. }
      exists (IInv t o :: i). split; [cbn; f_equal; exact Ei|]. split.
      + apply wf_inv; [|exact Hw]. specialize (Hrel t). rewrite Hst in Hrel. exact Hrel.
      + apply legal_inv. exact Hleg.
    - destruct h as [|[] h]; discriminate He.
    - pose proof (Hrel t) as Ht. rewrite Hst in Ht. cbn in Ht. destruct Ht as [Est [-> Hna]].
      destruct (tspecT_back s (st_now s) tau o r s' eq_refl Hsk Hsp) as [r' [Hsp' Hr']].
      assert (Hnow : st_now s' = st_now s) by (destruct Hsp' as [_ ->]; apply spec_next_now; exact Hna).
      destruct (IH h (upd st t (TLinearized o r')) He Hh) as [i [Ei [Hw Hleg]]].
      { intros t'. unfold upd. destruct (Nat.eq_dec t' t); [|rewrite Hnow; apply Hrel].
        cbn. exists r'. split; [reflexivity|]. rewrite Hnow. exact Hr'. }
      exists (ILin t o r' :: i). split; [exact Ei|]. split.
      + apply wf_lin; [exact Est | exact Hw].
      + eapply legal_lin; [exact Hsp' | exact Hleg].
    - destruct h as [|[t0 o0|t0 r0] h]; try discriminate He. cbn in He. injection He as <- <- He.
      inversion Hh as [|? ? _ Hh']; subst.
      pose proof (Hrel t) as Ht. rewrite Hst in Ht. cbn in Ht. destruct Ht as [r' [Est Hr']]. rewrite (Hr' Hle) in Est.
      destruct (IH h (upd st t TIdle) He Hh') as [i [Ei [Hw Hleg]]].
      { intros t'. unfold upd. destruct (Nat.eq_dec t' t); [reflexivity | apply Hrel]. }
      exists (IRes t r :: i). split; [cbn; f_equal; exact Ei|]. split.
      + eapply wf_res; [exact Est | exact Hw].
      + apply legal_res. exact Hleg.
  Qed.

  (* the sanity theorem *)
  Theorem linearizableT_conservative (s0 : sstate) (h : list (@hev cop cres)) :
    hist_no_adv h ->
    (cache_linearizableT eqd zero s0 (embed _ _ h) <-> linearizable _ _ _ tspec s0 h).
  Proof.
    intros Hh. split.
    - intros [iT [He Hl]]. apply (linT_to_lin s0 _ iT Hl h (fun _ => TIdle) He Hh). intros t. reflexivity.
    - intros [i [He [Hw Hl]]]. exists (instT (st_now s0) i). split; [rewrite eraseT_instT, He; reflexivity|].
      eapply legalT_ext; [apply (lin_to_linT i s0 (fun _ => TIdle) Hw Hl)|].
      + rewrite He. exact Hh.
      + intros t o E. discriminate E.
      + intros t. reflexivity.
  Qed.

End Conservative.

(* ------------------------------------------------------------------ *)
(* the weakening is confined to GetAndDelete: a history in which it is never invoked and
   which is linearizable in the final sense is so in the sense first written down *)
Section Strict.
  Context {K V : Type}.
  Variable eqd : forall a b : K, {a = b} + {a <> b}.
  Variable zero : V.

  Notation cop := (cop K V).
  Notation cres := (cres K V).
  Notation sstate := (@sstate K V).
  Notation legalW := (legalT cop cres sstate (@st_now K V) (@advance K V) (stampT (K:=K) (V:=V)) (tspecT eqd zero)).
  Notation legalS := (legalT cop cres sstate (@st_now K V) (@advance K V) (stampT_strict (K:=K) (V:=V)) (tspecT_strict eqd zero)).

  Definition not_gad (o : cop) : Prop := match o with OGetAndDelete _ => False | _ => True end.

  Lemma strict_of_weak s st i : legalW s st i ->
    (forall t o ci, st t = TInvokedT o ci -> not_gad o) ->
    (forall t o, In (HTInv t o) (eraseT cop cres i) -> not_gad o) ->
    legalS s st i.
  Proof.
    induction 1 as [s st|s st t o l Hst Hl IH|s st dt l Hdt Hl IH|s st t o c_inv tau r s' l Hst Hsk Hsp Hl IH|s st t o r tau l Hst Hle Hl IH];
      intros Hinv Hh.
    - constructor.
    - apply lt_inv; [exact Hst|]. apply IH.
      + intros t' o' ci. unfold upd. destruct (Nat.eq_dec t' t); [|apply Hinv].
        intros E. inversion E; subst. apply (Hh t). left. reflexivity.
      + intros t' o' Hin. apply (Hh t'). right. exact Hin.
    - apply lt_tick; [exact Hdt|]. apply IH; [exact Hinv|]. intros t' o' Hin. apply (Hh t'). right. exact Hin.
    - assert (Hn : not_gad o) by (eapply Hinv; exact Hst).
      eapply lt_lin; [exact Hst | | |].
      + destruct o; try contradiction; exact Hsk.
      + destruct o; try contradiction; exact Hsp.
      + apply IH; [|exact Hh]. intros t' o' ci. unfold upd. destruct (Nat.eq_dec t' t); [discriminate | apply Hinv].
    - eapply lt_res; [exact Hst | exact Hle |]. apply IH.
      + intros t' o' ci. unfold upd. destruct (Nat.eq_dec t' t); [discriminate | apply Hinv].
      + intros t' o' Hin. apply (Hh t'). right. exact Hin.
  Qed.

  Theorem linearizableT_strict_without_getanddelete (s0 : sstate) h :
    (forall t o, In (HTInv t o) h -> not_gad o) ->
    cache_linearizableT eqd zero s0 h -> cache_linearizableT_strict eqd zero s0 h.
  Proof.
    intros Hh [i [He Hl]]. exists i. split; [exact He|]. apply strict_of_weak; [exact Hl | discriminate | rewrite He; exact Hh].
  Qed.

End Strict.
