(* CXT_product.v -- Stage C, generic part, with a ticking clock: CX_product.v's PRODUCT
   MACHINE "threads running the cache methods over a concurrent map machine" with the
   clock in the configuration and ticks among the moves.

   The map machine and what is assumed of it: exactly CX_product.v's interface (H_frame,
   H_proto, H_lin; proved for XMachine in CX_mapof.v and for XMachineS in CX_map.v).  The
   map machine does not know the clock: a tick leaves its state alone.

   The product machine [pstepT]: a thread runs its cache program as in ConcT.v (ReadNow
   reads the current clock), except that [MapCall mo k] (a) appends the translation
   [tr mo now] of mo -- A CLOSURE IS GIVEN THE CLOCK OF THIS INSTANT -- to the thread's
   todo list in the map machine, (b) lets the map machine's thread run, one primitive
   step per move of the schedule, interleaved with everybody else's moves AND WITH
   TICKS, until it answers r, and (c) continues with [k (bk mo now r)].  [MTick dt]
   (0 <= dt) advances the clock.

   THE ASSUMPTION on schedules ([tick_safe]): no tick while a Compute call -- a call
   that carries a closure -- is in flight (pushed and not yet answered).  See
   CXT_compose.v.  Ticks inside all other map calls and between the steps of the cache
   methods are unrestricted.

   [productT_all]: whatever holds of the histories of all runs of ConcT.v's atomic-map
   machine holds of the cache-level history of every tick-safe run of the product. *)
From CacheV Require Import Base SpecMap Client Ops Lin LinT Conc ConcT.
From CacheV.proofs Require Import CX_trans CX_compose CX_product CXT_compose.
Local Open Scope Z_scope.

Section ProductT.
  Context {K V : Type}.
  Variable eqd : forall a b : K, {a = b} + {a <> b}.
  Variable progs : cop K V -> prog K V (cres K V).
  Variable DFLT : Z.
  Variable CB : cbid.

  Notation item := (item V).
  Notation cop := (cop K V).
  Notation cres := (cres K V).
  Notation cmop := (cmop K V).
  Notation imres := (imres K V).
  Notation prog := (prog K V cres).
  Notation emop := (@emop K V).
  Notation cmspecE := (@cmspecE K V eqd DFLT).
  Notation outT := (@outT K V).
  Notation vconfT := (@vconfT K V).
  Notation vstT := (@vstT K V).
  Notation vstepT := (vstepT progs DFLT CB).
  Notation vtraceT := (vtraceT progs DFLT CB).
  Notation move := (@move K V).

  (* ---------------- the map machine: CX_product.v's interface ---------------- *)

  Variables XS XO XR XSt : Type.
  Variable step : XS -> nat -> option (XS * list (hev XO XR)).
  Variable todo : XS -> nat -> list XO.
  Variable wtodo : XS -> (nat -> list XO) -> XS.
  Variable idle : XS -> nat -> Prop.
  Variable xinit : (nat -> list XO) -> XS.
  Variable xspec : XSt -> XO -> XR -> XSt -> Prop.
  Variable x0 : XSt.
  Variable xok : XO -> Prop.

  (* the translation: the call, and the clock its closure is given *)
  Variable tr : cmop -> Z -> XO.
  Variable bk : cmop -> Z -> XR -> imres.
  Variable sup : cmop -> bool.
  Definition mokT (o : cmop) : Prop := sup o = true.

  Definition trE (o : emop) : XO := tr (fst o) (snd o).
  Definition bkE (o : emop) (r : XR) : imres := bk (fst o) (snd o) r.
  Definition mokE (o : emop) : Prop := mokT (fst o).

  Notation mrun := (mrun XS XO XR step).

  Hypothesis H_todo_w : forall s td t, todo (wtodo s td) t = td t.
  Hypothesis H_idle_w : forall s td t, idle (wtodo s td) t <-> idle s t.
  Hypothesis H_ww : forall s a b, wtodo (wtodo s a) b = wtodo s b.
  Hypothesis H_init_todo : forall td t, todo (xinit td) t = td t.
  Hypothesis H_init_idle : forall td t, idle (xinit td) t.
  Hypothesis H_init_w : forall a b, wtodo (xinit a) b = xinit b.

  Hypothesis H_frame : forall s t s' h td fut,
    step s t = Some (s', h) -> (forall u, td u = todo s u ++ fut u) ->
    exists td', step (wtodo s td) t = Some (wtodo s' td', h) /\ forall u, td' u = todo s' u ++ fut u.

  Hypothesis H_proto : forall s t s' h, step s t = Some (s', h) ->
    (forall u, u <> t -> todo s' u = todo s u /\ (idle s u -> idle s' u))
    /\ ( (idle s t /\ h = [] /\ idle s' t /\ todo s' t = todo s t)
         \/ (idle s t /\ exists o rest, todo s t = o :: rest /\ todo s' t = rest
                        /\ (h = [HInv t o] \/ exists r, h = [HInv t o; HRes t r] /\ idle s' t))
         \/ (~ idle s t /\ todo s' t = todo s t /\ (h = [] \/ exists r, h = [HRes t r] /\ idle s' t)) ).

  Hypothesis H_ok : forall o c, mokT o -> xok (tr o c).

  Hypothesis H_lin : forall td sched, (forall t, Forall xok (td t)) ->
    linearizable XO XR XSt xspec x0 (snd (mrun (xinit td) sched)).

  Hypothesis H_transfer : forall hx hm, hrel trE bkE mokE (fun _ => None) hx hm ->
    linearizable XO XR XSt xspec x0 hx -> linearizable emop imres _ cmspecE [] hm.

  (* ---------------- the product machine ---------------- *)

  Inductive qstT :=
  | QIdleT
  | QRunT (o : cop) (p : prog)
  | QPushedT (o : cop) (mo : cmop) (ci : Z) (k : imres -> prog)    (* the call is in the todo list of the map machine *)
  | QWaitT (o : cop) (mo : cmop) (ci : Z) (k : imres -> prog).     (* the map machine has invoked it *)

  Record pconfT := { pt_x : XS; pt_thr : nat -> qstT; pt_todo : nat -> list cop; pt_now : Z }.

  Definition pushT (s : XS) (t : nat) (xo : XO) : XS := wtodo s (upd (todo s) t (todo s t ++ [xo])).

  Definition feedT (t : nat) (q : qstT) (e : hev XO XR) : qstT * list outT :=
    match e, q with
    | HInv _ _, QPushedT o mo ci k => (QWaitT o mo ci k, [OMT (HInv t (mo, ci))])
    | HRes _ r, QWaitT o mo ci k => (QRunT o (k (bk mo ci r)), [OMT (HRes t (bk mo ci r))])
    | _, _ => (q, [])
    end.

  Fixpoint feedsT (t : nat) (q : qstT) (es : list (hev XO XR)) : qstT * list outT :=
    match es with
    | [] => (q, [])
    | e :: r => let '(q1, o1) := feedT t q e in let '(q2, o2) := feedsT t q1 r in (q2, o1 ++ o2)
    end.

  Definition psetT (p : pconfT) (t : nat) (q : qstT) : pconfT :=
    {| pt_x := pt_x p; pt_thr := upd (pt_thr p) t q; pt_todo := pt_todo p; pt_now := pt_now p |}.

  Definition xmoveT (p : pconfT) (t : nat) : option (pconfT * list outT * list (hev XO XR)) :=
    match step (pt_x p) t with
    | None => None
    | Some (x', h) =>
        let '(q', os) := feedsT t (pt_thr p t) h in
        Some ({| pt_x := x'; pt_thr := upd (pt_thr p) t q'; pt_todo := pt_todo p; pt_now := pt_now p |}, os, h)
    end.

  Definition pthrT (p : pconfT) (t : nat) (orc : list (K * item)) : option (pconfT * list outT * list (hev XO XR)) :=
    match pt_thr p t with
    | QIdleT =>
        match pt_todo p t with
        | [] => None
        | o :: rest =>
            Some ({| pt_x := pt_x p; pt_thr := upd (pt_thr p) t (QRunT o (progs o)); pt_todo := upd (pt_todo p) t rest;
                     pt_now := pt_now p |},
                  [OCT (HInv t o)], [])
        end
    | QRunT o pr =>
        match pr with
        | Ret r => Some (psetT p t QIdleT, [OCT (HRes t r)], [])
        | MapCall mo k =>
            match mo with
            | CSnapshot => Some (psetT p t (QRunT o (k (RSnap orc))), [], [])
            | _ => if sup mo
                   then Some ({| pt_x := pushT (pt_x p) t (tr mo (pt_now p)); pt_thr := upd (pt_thr p) t (QPushedT o mo (pt_now p) k);
                                 pt_todo := pt_todo p; pt_now := pt_now p |}, [], [])
                   else None
            end
        | ReadNow k => Some (psetT p t (QRunT o (k (pt_now p))), [], [])
        | ReadDflt k => Some (psetT p t (QRunT o (k DFLT)), [], [])
        | ReadCb k => Some (psetT p t (QRunT o (k CB)), [], [])
        | Emit _ k => Some (psetT p t (QRunT o k), [], [])
        | WriteDflt _ _ | WriteCb _ _ => None
        end
    | QPushedT _ _ _ _ | QWaitT _ _ _ _ => xmoveT p t
    end.

  Definition ptick (p : pconfT) (dt : Z) : pconfT :=
    {| pt_x := pt_x p; pt_thr := pt_thr p; pt_todo := pt_todo p; pt_now := pt_now p + dt |}.

  (* one move: a thread's, or a tick *)
  Definition pstepT (p : pconfT) (mv : move) : option (pconfT * list outT * list (hev XO XR)) :=
    match mv with
    | MThr t orc => pthrT p t orc
    | MTick dt => if 0 <=? dt then Some (ptick p dt, [OTickT dt], []) else None
    end.

  Fixpoint prunT (p : pconfT) (sched : list move) : pconfT * list outT * list (hev XO XR) :=
    match sched with
    | [] => (p, [], [])
    | mv :: rest =>
        match pstepT p mv with
        | Some (p', os, h) => let '(p'', os', h') := prunT p' rest in (p'', os ++ os', h ++ h')
        | None => prunT p rest
        end
    end.

  Definition pinitT (now0 : Z) (todo0 : nat -> list cop) : pconfT :=
    {| pt_x := xinit (fun _ => []); pt_thr := fun _ => QIdleT; pt_todo := todo0; pt_now := now0 |}.

  (* the cache-level history of a run, ticks included *)
  Definition phistT (now0 : Z) (todo0 : nat -> list cop) sched : list (hevT cop cres) :=
    cprojT (snd (fst (prunT (pinitT now0 todo0) sched))).

  (* ---------------- the assumption on schedules ---------------- *)

  (* no Compute call is in flight *)
  Definition pquiet (p : pconfT) : Prop :=
    forall t, match pt_thr p t with
              | QPushedT _ mo _ _ | QWaitT _ mo _ _ => is_compute mo = false
              | _ => True
              end.

  (* every tick of the run happens while no Compute call is in flight *)
  Fixpoint tick_safe (p : pconfT) (sched : list move) : Prop :=
    match sched with
    | [] => True
    | mv :: rest =>
        match pstepT p mv with
        | Some (p', _, _) => (match mv with MTick _ => pquiet p | MThr _ _ => True end) /\ tick_safe p' rest
        | None => tick_safe p rest
        end
    end.

  (* ---------------- the invariant ---------------- *)

  Definition PIT (p : pconfT) : Prop :=
    forall t, match pt_thr p t with
              | QIdleT | QRunT _ _ => todo (pt_x p) t = [] /\ idle (pt_x p) t
              | QPushedT o mo ci k => todo (pt_x p) t = [tr mo ci] /\ idle (pt_x p) t /\ mokT mo /\ mo <> CSnapshot
                                      /\ (is_compute mo = true -> ci = pt_now p)
              | QWaitT o mo ci k => todo (pt_x p) t = [] /\ mokT mo
              end.

  Definition vqT (q : qstT) : vstT :=
    match q with
    | QIdleT => VIdleT
    | QRunT o p => VRunT o p
    | QPushedT o mo ci k => VRunT o (MapCall mo k)
    | QWaitT o mo ci k => VWaitT o mo ci k
    end.

  Definition vofT (p : pconfT) : vconfT := {| vt_thr := fun t => vqT (pt_thr p t); vt_todo := pt_todo p |}.

  Definition pqT (q : qstT) : option emop := match q with QWaitT _ mo ci _ => Some (mo, ci) | _ => None end.
  Definition pend_ofT (p : pconfT) : nat -> option emop := fun t => pqT (pt_thr p t).

  Notation hrel' := (hrel trE bkE mokE).

  Definition move_okT (p p1 : pconfT) (os : list outT) (h : list (hev XO XR)) : Prop :=
    PIT p1
    /\ (forall hx' hm', hrel' (pend_ofT p1) hx' hm' -> hrel' (pend_ofT p) (h ++ hx') (mprojT os ++ hm'))
    /\ (forall outs', vtraceT (pt_now p1) (vofT p1) outs' -> vtraceT (pt_now p) (vofT p) (os ++ outs')).

  Lemma pendT_upd p x1 td1 n1 t q u :
    pend_ofT {| pt_x := x1; pt_thr := upd (pt_thr p) t q; pt_todo := td1; pt_now := n1 |} u = upd (pend_ofT p) t (pqT q) u.
  Proof. unfold pend_ofT; cbn. unfold upd. destruct (Nat.eq_dec u t); reflexivity. Qed.

  Lemma vofT_upd p x1 n1 t q :
    veqT (vsetT (vofT p) t (vqT q)) (vofT {| pt_x := x1; pt_thr := upd (pt_thr p) t q; pt_todo := pt_todo p; pt_now := n1 |}).
  Proof. split; cbn; [|reflexivity]. intros u. unfold upd. destruct (Nat.eq_dec u t); reflexivity. Qed.

  Lemma veqT_refl (c : vconfT) : veqT c c.
  Proof. split; reflexivity. Qed.
  Lemma veqT_sym (c c' : vconfT) : veqT c c' -> veqT c' c.
  Proof. intros [A B]. split; intros t; symmetry; auto. Qed.
  Lemma veqT_trans (c c' c'' : vconfT) : veqT c c' -> veqT c' c'' -> veqT c c''.
  Proof. intros [A B] [A' B']. split; intros t; [rewrite A; apply A' | rewrite B; apply B']. Qed.
  Lemma veqT_vset (c c' : vconfT) t x : veqT c c' -> veqT (vsetT c t x) (vsetT c' t x).
  Proof.
    intros [A B]. split; cbn; [|exact B]. intros u. unfold upd. destruct (Nat.eq_dec u t); [reflexivity | apply A].
  Qed.

  Lemma vstepT_veq now c c' a c1 os : veqT c c' -> vstepT now c a = Some (c1, os) ->
    exists c1', vstepT now c' a = Some (c1', os) /\ veqT c1 c1'.
  Proof.
    intros Hq E. pose proof Hq as [A B].
    destruct a as [t|t|t ci|t r|t l|t]; cbn [CXT_compose.vstepT] in *; rewrite <- ?(A t), <- ?(B t).
    - destruct (vt_thr c t); try discriminate E. destruct (vt_todo c t) as [|o rest]; try discriminate E.
      inversion E; subst. eexists. split; [reflexivity|]. split; cbn; intros u; unfold upd; destruct (Nat.eq_dec u t); auto.
    - destruct (vt_thr c t) as [|o p|]; try discriminate E. destruct p; try discriminate E.
      inversion E; subst. eexists. split; [reflexivity|]. apply veqT_vset. exact Hq.
    - destruct (vt_thr c t) as [|o p|]; try discriminate E. destruct p as [|mo k| | | | | |]; try discriminate E.
      destruct mo; try discriminate E; (destruct (stampb _ ci now); [|discriminate E]); inversion E; subst;
        (eexists; split; [reflexivity|]; apply veqT_vset; exact Hq).
    - destruct (vt_thr c t); try discriminate E.
      inversion E; subst. eexists. split; [reflexivity|]. apply veqT_vset. exact Hq.
    - destruct (vt_thr c t) as [|o p|]; try discriminate E. destruct p as [|mo k| | | | | |]; try discriminate E.
      destruct mo; try discriminate E.
      inversion E; subst. eexists. split; [reflexivity|]. apply veqT_vset. exact Hq.
    - destruct (vt_thr c t) as [|o p|]; try discriminate E. destruct p; try discriminate E;
        inversion E; subst; (eexists; split; [reflexivity|]; apply veqT_vset; exact Hq).
  Qed.

  Lemma quiet_veq (c c' : vconfT) : veqT c c' -> quiet c -> quiet c'.
  Proof. intros [A _] H t o mo ci k E. rewrite <- A in E. exact (H t o mo ci k E). Qed.

  Lemma vtraceT_veq now c c' outs : veqT c c' -> vtraceT now c outs -> vtraceT now c' outs.
  Proof.
    intros Hq Hv. revert c' Hq. induction Hv as [now c | now c a c1 os c1' outs Ev Hq1 Hv IH | now c dt outs Hdt Hqu Hv IH]; intros c' Hq.
    - constructor.
    - destruct (vstepT_veq now c c' a c1 os Hq Ev) as [c1'' [Ev' Hq']].
      eapply vtT_step; [exact Ev' | | exact Hv]. eapply veqT_trans; [apply veqT_sym; exact Hq' | exact Hq1].
    - apply vtT_tick; [exact Hdt | eapply quiet_veq; eassumption | apply IH; exact Hq].
  Qed.

  Lemma upd_same_extT {X} (f : nat -> X) t x u : x = f t -> upd f t x u = f u.
  Proof. intros ->. unfold upd. destruct (Nat.eq_dec u t) as [->|]; reflexivity. Qed.

  Lemma vstepT_minv now (c : vconfT) t o mo ci k : vt_thr c t = VRunT o (MapCall mo k) -> mo <> CSnapshot ->
    (is_compute mo = true -> ci = now) ->
    vstepT now c (AMInvT t ci) = Some (vsetT c t (VWaitT o mo ci k), [OMT (HInv t (mo, ci))]).
  Proof.
    intros E Hn Hc. cbn [CXT_compose.vstepT]. rewrite E.
    assert (Hs : stampb mo ci now = true).
    { unfold stampb. destruct (is_compute mo); [|reflexivity]. apply Z.eqb_eq. apply Hc. reflexivity. }
    destruct mo; try (rewrite Hs; reflexivity). exfalso; apply Hn; reflexivity.
  Qed.

  Lemma vstepT_mres now (c : vconfT) t o mo ci k r : vt_thr c t = VWaitT o mo ci k ->
    vstepT now c (AMResT t r) = Some (vsetT c t (VRunT o (k r)), [OMT (HRes t r)]).
  Proof. intros E. cbn [CXT_compose.vstepT]. rewrite E. reflexivity. Qed.

  Definition thr_PIT (x1 : XS) (n1 : Z) (t : nat) (q1 : qstT) : Prop :=
    match q1 with
    | QIdleT | QRunT _ _ => todo x1 t = [] /\ idle x1 t
    | QPushedT o mo ci k => todo x1 t = [tr mo ci] /\ idle x1 t /\ mokT mo /\ mo <> CSnapshot /\ (is_compute mo = true -> ci = n1)
    | QWaitT o mo ci k => todo x1 t = [] /\ mokT mo
    end.

  Lemma PIT_xmove p t x1 q1 :
    PIT p ->
    (forall u, u <> t -> todo x1 u = todo (pt_x p) u /\ (idle (pt_x p) u -> idle x1 u)) ->
    thr_PIT x1 (pt_now p) t q1 ->
    PIT {| pt_x := x1; pt_thr := upd (pt_thr p) t q1; pt_todo := pt_todo p; pt_now := pt_now p |}.
  Proof.
    intros HP Ho Ht u. cbn. unfold upd. destruct (Nat.eq_dec u t) as [->|Hn]; [exact Ht|].
    pose proof (HP u) as Hu. destruct (Ho u Hn) as [A B]. rewrite A.
    destruct (pt_thr p u); intuition.
  Qed.

  Lemma silent_okT p t x1 q1 : PIT p ->
    PIT {| pt_x := x1; pt_thr := upd (pt_thr p) t q1; pt_todo := pt_todo p; pt_now := pt_now p |} ->
    vqT q1 = vqT (pt_thr p t) -> pqT q1 = pqT (pt_thr p t) ->
    move_okT p {| pt_x := x1; pt_thr := upd (pt_thr p) t q1; pt_todo := pt_todo p; pt_now := pt_now p |} [] [].
  Proof.
    intros HP HP1 Ev Ep. split; [exact HP1|]. split.
    - intros hx' hm' Hh. cbn [app mprojT]. eapply hrel_ext; [exact Hh|].
      intros u. rewrite pendT_upd. apply upd_same_extT. exact Ep.
    - intros outs' Hv. cbn [app pt_now] in *. eapply vtraceT_veq; [|exact Hv].
      eapply veqT_trans; [apply veqT_sym; apply (vofT_upd p x1 (pt_now p) t q1)|].
      split; cbn; [|reflexivity]. intros u. exact (upd_same_extT (fun t0 => vqT (pt_thr p t0)) t (vqT q1) u Ev).
  Qed.

  Lemma xmoveT_ok p t p1 os h : PIT p ->
    match pt_thr p t with QPushedT _ _ _ _ | QWaitT _ _ _ _ => True | _ => False end ->
    xmoveT p t = Some (p1, os, h) -> move_okT p p1 os h.
  Proof.
    intros HP Hq E. unfold xmoveT in E.
    destruct (step (pt_x p) t) as [[x1 h1]|] eqn:Es; [|discriminate E].
    destruct (H_proto _ _ _ _ Es) as [Ho Hc].
    pose proof (HP t) as Hpt.
    destruct (pt_thr p t) as [| |o mo ci k|o mo ci k] eqn:Et; try contradiction.
    - (* the call is still in the todo list *)
      destruct Hpt as [Htd [Hid [Hmok [Hns Hci]]]].
      destruct Hc as [[_ [Eh [Hid1 Htd1]]]|[[_ [xo [rest [Etd [Etd1 Eh]]]]]|[Hni _]]]; [| |contradiction].
      + subst h1. cbn in E. inversion E; subst p1 os h; clear E.
        apply silent_okT; [exact HP | | rewrite Et; reflexivity | rewrite Et; reflexivity].
        apply PIT_xmove; [exact HP | exact Ho | cbn; rewrite Htd1; auto].
      + rewrite Htd in Etd. inversion Etd; subst xo rest. clear Etd.
        destruct Eh as [Eh|[r [Eh Hid1]]]; subst h1; cbn in E; inversion E; subst p1 os h; clear E.
        * (* the invocation *)
          split; [apply PIT_xmove; [exact HP | exact Ho | cbn; auto]|]. split.
          -- intros hx' hm' Hh. cbn [app mprojT]. apply (hrel_inv trE bkE mokE _ t (mo, ci)); [exact Hmok|].
             eapply hrel_ext; [exact Hh|]. intros u. apply pendT_upd.
          -- intros outs' Hv. cbn [app pt_now] in *.
             eapply (vtT_step progs DFLT CB (pt_now p) (vofT p) (AMInvT t ci) _ [OMT (HInv t (mo, ci))]);
               [apply (vstepT_minv (pt_now p) (vofT p) t o mo ci k); [cbn; rewrite Et; reflexivity | exact Hns | exact Hci] | | exact Hv].
             apply (vofT_upd p x1 (pt_now p) t (QWaitT o mo ci k)).
        * (* invoked and answered in one step *)
          split; [apply PIT_xmove; [exact HP | exact Ho | cbn; auto]|]. split.
          -- intros hx' hm' Hh. cbn [app mprojT]. apply (hrel_inv trE bkE mokE _ t (mo, ci)); [exact Hmok|].
             apply (hrel_res trE bkE mokE _ t (mo, ci) r); [unfold upd; destruct (Nat.eq_dec t t); [reflexivity | congruence]|].
             eapply hrel_ext; [exact Hh|]. intros u. rewrite pendT_upd. cbn [pqT].
             unfold upd. destruct (Nat.eq_dec u t); reflexivity.
          -- intros outs' Hv. cbn [app pt_now] in *.
             eapply (vtT_step progs DFLT CB (pt_now p) (vofT p) (AMInvT t ci) _ [OMT (HInv t (mo, ci))]);
               [apply (vstepT_minv (pt_now p) (vofT p) t o mo ci k); [cbn; rewrite Et; reflexivity | exact Hns | exact Hci] | apply veqT_refl |].
             eapply (vtT_step progs DFLT CB (pt_now p) _ (AMResT t (bk mo ci r)) _ [OMT (HRes t (bk mo ci r))]);
               [apply (vstepT_mres (pt_now p) _ t o mo ci k); cbn; unfold upd; destruct (Nat.eq_dec t t); [reflexivity | congruence] | | exact Hv].
             split; cbn; [|reflexivity]. intros u. unfold upd. destruct (Nat.eq_dec u t); reflexivity.
    - (* the call has been invoked *)
      destruct Hpt as [Htd Hmok].
      assert (Hsil : h1 = [] -> todo x1 t = todo (pt_x p) t -> move_okT p p1 os h).
      { intros -> Htd1. cbn in E. inversion E; subst p1 os h; clear E.
        apply silent_okT; [exact HP | | rewrite Et; reflexivity | rewrite Et; reflexivity].
        apply PIT_xmove; [exact HP | exact Ho | cbn; rewrite Htd1; auto]. }
      destruct Hc as [[_ [Eh [Hid1 Htd1]]]|[[_ [xo [rest [Etd [Etd1 Eh]]]]]|[Hni [Htd1 [Eh|[r [Eh Hid1]]]]]]].
      + apply Hsil; assumption.
      + rewrite Htd in Etd. discriminate Etd.
      + apply Hsil; assumption.
      + (* the answer *)
        subst h1. cbn in E. inversion E; subst p1 os h; clear E.
        split; [apply PIT_xmove; [exact HP | exact Ho | cbn; rewrite Htd1; auto]|]. split.
        * intros hx' hm' Hh. cbn [app mprojT].
          apply (hrel_res trE bkE mokE _ t (mo, ci) r); [unfold pend_ofT; rewrite Et; reflexivity|].
          eapply hrel_ext; [exact Hh|]. intros u. apply pendT_upd.
        * intros outs' Hv. cbn [app pt_now] in *.
          eapply (vtT_step progs DFLT CB (pt_now p) (vofT p) (AMResT t (bk mo ci r)) _ [OMT (HRes t (bk mo ci r))]);
            [apply (vstepT_mres (pt_now p) (vofT p) t o mo ci k); cbn; rewrite Et; reflexivity | | exact Hv].
          apply (vofT_upd p x1 (pt_now p) t (QRunT o (k (bk mo ci r)))).
  Qed.

  (* a move of the client alone: the map machine is not touched *)
  Lemma client_moveT p t q a os :
    PIT p ->
    match q with QIdleT | QRunT _ _ => True | _ => False end ->
    match pt_thr p t with QIdleT | QRunT _ _ => True | _ => False end ->
    mprojT os = [] ->
    vstepT (pt_now p) (vofT p) a = Some (vsetT (vofT p) t (vqT q), os) ->
    move_okT p (psetT p t q) os [].
  Proof.
    intros HP Hq Ht Hm Hv. pose proof (HP t) as Hpt. split; [|split].
    - apply PIT_xmove; [exact HP | intros u _; auto |].
      destruct (pt_thr p t); try contradiction; destruct q; try contradiction; exact Hpt.
    - intros hx' hm' Hh. rewrite Hm. cbn [app]. eapply hrel_ext; [exact Hh|].
      intros u. unfold psetT. rewrite pendT_upd. apply upd_same_extT. unfold pend_ofT.
      destruct (pt_thr p t); try contradiction; destruct q; try contradiction; reflexivity.
    - intros outs' Ho. cbn [psetT pt_now] in Ho. eapply vtT_step; [exact Hv | | exact Ho]. apply (vofT_upd p (pt_x p) (pt_now p) t q).
  Qed.

  Lemma pushT_ok p t o mo k : PIT p -> pt_thr p t = QRunT o (MapCall mo k) -> mokT mo -> mo <> CSnapshot ->
    move_okT p {| pt_x := pushT (pt_x p) t (tr mo (pt_now p)); pt_thr := upd (pt_thr p) t (QPushedT o mo (pt_now p) k);
                  pt_todo := pt_todo p; pt_now := pt_now p |} [] [].
  Proof.
    intros HP Et Hsup Hns. pose proof (HP t) as Hpt. rewrite Et in Hpt. destruct Hpt as [Htd Hid].
    split; [|split].
    - intros u. cbn. unfold upd at 1. destruct (Nat.eq_dec u t) as [->|Hn].
      + unfold pushT. rewrite H_todo_w. unfold upd. destruct (Nat.eq_dec t t) as [_|Hc]; [|congruence].
        rewrite Htd. split; [reflexivity|]. split; [apply H_idle_w; exact Hid|]. split; [exact Hsup|]. split; [exact Hns | auto].
      + pose proof (HP u) as Hu. unfold pushT. rewrite H_todo_w. unfold upd. destruct (Nat.eq_dec u t) as [Hc|_]; [contradiction|].
        destruct (pt_thr p u); rewrite ?H_idle_w; exact Hu.
    - intros hx' hm' Hh. cbn [app mprojT]. eapply hrel_ext; [exact Hh|].
      intros u. rewrite pendT_upd. apply upd_same_extT. unfold pend_ofT. rewrite Et. reflexivity.
    - intros outs' Hv. cbn [app pt_now] in *. eapply vtraceT_veq; [|exact Hv].
      split; cbn; [|reflexivity]. intros u. unfold upd. destruct (Nat.eq_dec u t) as [->|]; [rewrite Et|]; reflexivity.
  Qed.

  Lemma pthrT_ok p t orc p1 os h : PIT p -> pthrT p t orc = Some (p1, os, h) -> move_okT p p1 os h.
  Proof.
    intros HP E. unfold pthrT in E. pose proof (HP t) as Hpt.
    destruct (pt_thr p t) as [|o pr|o mo ci k|o mo ci k] eqn:Et.
    - destruct (pt_todo p t) as [|o rest] eqn:Etd; [discriminate E|]. inversion E; subst p1 os h; clear E.
      split; [|split].
      + intros u. cbn. unfold upd. destruct (Nat.eq_dec u t) as [->|]; [exact Hpt | apply HP].
      + intros hx' hm' Hh. cbn [app mprojT]. eapply hrel_ext; [exact Hh|].
        intros u. rewrite pendT_upd. apply upd_same_extT. unfold pend_ofT. rewrite Et. reflexivity.
      + intros outs' Hv. cbn [pt_now] in Hv.
        eapply (vtT_step progs DFLT CB (pt_now p) (vofT p) (AInvT t)); [cbn; rewrite Et, Etd; reflexivity | | exact Hv].
        split; cbn; intros u; unfold upd; destruct (Nat.eq_dec u t); reflexivity.
    - destruct pr as [r|mo k|k|k|d k|k|cb k|e k]; try discriminate E.
      + inversion E; subst p1 os h; clear E.
        apply (client_moveT p t QIdleT (ARetT t)); [exact HP | exact I | rewrite Et; exact I | reflexivity |].
        cbn. rewrite Et. reflexivity.
      + destruct mo.
        1-7: destruct (sup _) eqn:Hsup; [|discriminate E]; inversion E; subst p1 os h; clear E.
        1-7: apply pushT_ok; [exact HP | exact Et | exact Hsup | discriminate].
        inversion E; subst p1 os h; clear E.
        apply (client_moveT p t (QRunT o (k (RSnap orc))) (ASnapT t orc)); [exact HP | exact I | rewrite Et; exact I | reflexivity |].
        cbn. rewrite Et. reflexivity.
      + inversion E; subst p1 os h; clear E.
        apply (client_moveT p t (QRunT o (k (pt_now p))) (ATauT t)); [exact HP | exact I | rewrite Et; exact I | reflexivity |].
        cbn. rewrite Et. reflexivity.
      + inversion E; subst p1 os h; clear E.
        apply (client_moveT p t (QRunT o (k DFLT)) (ATauT t)); [exact HP | exact I | rewrite Et; exact I | reflexivity |].
        cbn. rewrite Et. reflexivity.
      + inversion E; subst p1 os h; clear E.
        apply (client_moveT p t (QRunT o (k CB)) (ATauT t)); [exact HP | exact I | rewrite Et; exact I | reflexivity |].
        cbn. rewrite Et. reflexivity.
      + inversion E; subst p1 os h; clear E.
        apply (client_moveT p t (QRunT o k) (ATauT t)); [exact HP | exact I | rewrite Et; exact I | reflexivity |].
        cbn. rewrite Et. reflexivity.
    - apply (xmoveT_ok p t p1 os h HP); [rewrite Et; exact I | exact E].
    - apply (xmoveT_ok p t p1 os h HP); [rewrite Et; exact I | exact E].
  Qed.

  (* a tick while no Compute call is in flight *)
  Lemma ptick_ok p dt : PIT p -> 0 <= dt -> pquiet p -> move_okT p (ptick p dt) [OTickT dt] [].
  Proof.
    intros HP Hdt Hq. split; [|split].
    - intros t. pose proof (HP t) as Hpt. pose proof (Hq t) as Hqt. cbn [ptick pt_thr pt_x pt_now].
      destruct (pt_thr p t) as [| |o mo ci k|o mo ci k]; try exact Hpt.
      destruct Hpt as [A [B [C [D _]]]]. repeat split; auto. intros Hc. rewrite Hqt in Hc. discriminate Hc.
    - intros hx' hm' Hh. cbn [app mprojT]. exact Hh.
    - intros outs' Hv. cbn [app ptick pt_now] in *. apply vtT_tick; [exact Hdt | | exact Hv].
      intros t o mo ci k E. pose proof (Hq t) as Hqt. cbn in E. destruct (pt_thr p t); cbn in E; try discriminate E.
      inversion E; subst. exact Hqt.
  Qed.

  Lemma prunT_cons p mv rest :
    prunT p (mv :: rest) =
    match pstepT p mv with
    | Some (p', os, h) => (fst (fst (prunT p' rest)), os ++ snd (fst (prunT p' rest)), h ++ snd (prunT p' rest))
    | None => prunT p rest
    end.
  Proof. cbn [prunT]. destruct (pstepT p mv) as [[[p' os] h]|]; [|reflexivity]. destruct (prunT p' rest) as [[p'' os'] h']. reflexivity. Qed.

  Lemma prunT_ok sched : forall p, PIT p -> tick_safe p sched ->
    hrel' (pend_ofT p) (snd (prunT p sched)) (mprojT (snd (fst (prunT p sched))))
    /\ vtraceT (pt_now p) (vofT p) (snd (fst (prunT p sched))).
  Proof.
    induction sched as [|mv rest IH]; intros p HP Hs.
    - cbn. split; constructor.
    - rewrite prunT_cons. cbn [tick_safe] in Hs.
      destruct (pstepT p mv) as [[[p1 os] h]|] eqn:E; [|apply IH; assumption].
      destruct Hs as [Hq Hs]. cbn [fst snd].
      assert (Hm : move_okT p p1 os h).
      { destruct mv as [t orc|dt]; cbn [pstepT] in E.
        - apply (pthrT_ok p t orc); assumption.
        - destruct (0 <=? dt) eqn:Hdt; [|discriminate E]. inversion E; subst p1 os h.
          apply ptick_ok; [exact HP | apply Z.leb_le; exact Hdt | exact Hq]. }
      destruct Hm as [HP1 [Hh Hv]].
      destruct (IH p1 HP1 Hs) as [A B]. rewrite mprojT_app. split; [apply Hh; exact A | apply Hv; exact B].
  Qed.

  (* ---------------- the prophecy ---------------- *)

  Lemma pstepT_kind p mv p1 os h : pstepT p mv = Some (p1, os, h) ->
    (pt_x p1 = pt_x p /\ h = [])
    \/ (exists t mo c, mokT mo /\ pt_x p1 = pushT (pt_x p) t (tr mo c) /\ h = [])
    \/ (exists t, step (pt_x p) t = Some (pt_x p1, h)).
  Proof.
    intros E. destruct mv as [t orc|dt]; cbn [pstepT] in E.
    2:{ destruct (0 <=? dt); [|discriminate E]. inversion E; subst. left. split; reflexivity. }
    unfold pthrT in E.
    assert (Hx : xmoveT p t = Some (p1, os, h) -> step (pt_x p) t = Some (pt_x p1, h)).
    { unfold xmoveT. destruct (step (pt_x p) t) as [[x1 h1]|]; [|discriminate].
      destruct (feedsT t (pt_thr p t) h1). intros E'. inversion E'; subst. reflexivity. }
    destruct (pt_thr p t) as [|o pr|o mo ci k|o mo ci k].
    - destruct (pt_todo p t); [discriminate E|]. inversion E; subst. left. split; reflexivity.
    - destruct pr as [r|mo k|k|k|d k|k|cb k|e k]; try discriminate E;
        try (inversion E; subst; left; split; reflexivity).
      destruct mo; try (inversion E; subst; left; split; reflexivity);
        (destruct (sup _) eqn:Hsup; [|discriminate E]; inversion E; subst; right; left;
         eexists; eexists; eexists; split; [exact Hsup|]; split; reflexivity).
    - right; right. exists t. apply Hx. exact E.
    - right; right. exists t. apply Hx. exact E.
  Qed.

  Definition aheadT (fut : nat -> list XO) (s s' : XS) : Prop :=
    exists td, s' = wtodo s td /\ forall u, td u = todo s u ++ fut u.

  Lemma mrun_consT s t rest :
    mrun s (t :: rest) = match step s t with
                         | Some (s', h) => (fst (mrun s' rest), h ++ snd (mrun s' rest))
                         | None => mrun s rest
                         end.
  Proof. cbn [CX_product.mrun]. destruct (step s t) as [[s' h]|]; [|reflexivity]. destruct (mrun s' rest). reflexivity. Qed.

  Theorem prophecyT sched : forall p,
    exists fut, (forall t, Forall xok (fut t))
      /\ forall s', aheadT fut (pt_x p) s' -> exists sched', snd (mrun s' sched') = snd (prunT p sched).
  Proof.
    induction sched as [|mv rest IH]; intros p.
    - exists (fun _ => []). split; [intros t; constructor|]. intros s' _. exists []. reflexivity.
    - rewrite prunT_cons. destruct (pstepT p mv) as [[[p1 os] h]|] eqn:E; [|apply IH].
      cbn [snd]. destruct (IH p1) as [fut1 [Hok1 Hf1]].
      destruct (pstepT_kind p mv p1 os h E) as [[Ex Eh]|[[t [mo [c [Hmok [Ex Eh]]]]]|[t Es]]].
      + subst h. exists fut1. split; [exact Hok1|]. intros s' Ha. rewrite <- Ex in Ha. apply (Hf1 s' Ha).
      + subst h. exists (upd fut1 t (tr mo c :: fut1 t)). split.
        * intros u. unfold upd. destruct (Nat.eq_dec u t) as [->|]; [constructor; [apply H_ok; exact Hmok | apply Hok1] | apply Hok1].
        * intros s' [td [Es' Htd]]. apply Hf1. rewrite Ex. exists td. split.
          -- unfold pushT. rewrite H_ww. exact Es'.
          -- intros u. unfold pushT. rewrite H_todo_w. rewrite Htd. unfold upd.
             destruct (Nat.eq_dec u t) as [->|]; [rewrite <- app_assoc; reflexivity | reflexivity].
      + exists fut1. split; [exact Hok1|]. intros s' [td [Es' Htd]]. subst s'.
        destruct (H_frame _ _ _ _ td fut1 Es Htd) as [td' [Es1 Htd']].
        destruct (Hf1 (wtodo (pt_x p1) td')) as [sched' Hs']; [exists td'; split; [reflexivity | exact Htd']|].
        exists (t :: sched'). rewrite mrun_consT, Es1. cbn [snd]. rewrite Hs'. reflexivity.
  Qed.

  (* ---------------- the theorems ---------------- *)

  Lemma PIT_init now0 todo0 : PIT (pinitT now0 todo0).
  Proof. intros t. cbn. split; [apply H_init_todo | apply H_init_idle]. Qed.

  (* the map-level projection of every tick-safe run of the product machine is linearizable
     w.r.t. the cache's map calls (one map_step per call, the closure with the clock it was given) *)
  Theorem productT_map_linearizable now0 todo0 sched : tick_safe (pinitT now0 todo0) sched ->
    linearizable emop imres _ cmspecE [] (mprojT (snd (fst (prunT (pinitT now0 todo0) sched)))).
  Proof.
    intros Hs.
    destruct (prunT_ok sched (pinitT now0 todo0) (PIT_init now0 todo0) Hs) as [Hh _].
    destruct (prophecyT sched (pinitT now0 todo0)) as [fut [Hok Hf]].
    destruct (Hf (xinit fut)) as [sched' Hs'].
    { exists fut. split; [cbn; rewrite H_init_w; reflexivity|]. intros u. cbn. rewrite H_init_todo. reflexivity. }
    eapply H_transfer; [exact Hh|]. rewrite <- Hs'. apply H_lin. exact Hok.
  Qed.

  Theorem productT_trace now0 todo0 sched : tick_safe (pinitT now0 todo0) sched ->
    vtraceT now0 (vinitT todo0) (snd (fst (prunT (pinitT now0 todo0) sched))).
  Proof. intros Hs. destruct (prunT_ok sched (pinitT now0 todo0) (PIT_init now0 todo0) Hs) as [_ Hv]. exact Hv. Qed.

  (* whatever holds of the histories of all runs of ConcT.v's atomic-map machine from the empty map
     holds of the cache-level history of every tick-safe run of the product machine *)
  Theorem productT_all (P : list (hevT cop cres) -> Prop) now0 todo0 sched :
    (forall sched', P (historyT (snd (trun eqd progs DFLT CB (tinit now0 [] todo0) sched')))) ->
    tick_safe (pinitT now0 todo0) sched ->
    P (phistT now0 todo0 sched).
  Proof.
    intros Hall Hs. unfold phistT.
    apply (compose_trace_allT eqd progs DFLT CB P now0 [] todo0);
      [exact Hall | apply productT_trace; exact Hs | apply productT_map_linearizable; exact Hs].
  Qed.

  (* ---------------- the assumption, decided: for runs of finitely many threads ---------------- *)

  Definition qcompute (q : qstT) : bool :=
    match q with QPushedT _ mo _ _ | QWaitT _ mo _ _ => is_compute mo | _ => false end.

  Definition pquietb (n : nat) (p : pconfT) : bool :=
    forallb (fun t => negb (qcompute (pt_thr p t))) (seq 0 n).

  Fixpoint tick_safeb (n : nat) (p : pconfT) (sched : list move) : bool :=
    match sched with
    | [] => true
    | mv :: rest =>
        match pstepT p mv with
        | Some (p', _, _) => (match mv with MTick _ => pquietb n p | MThr _ _ => true end) && tick_safeb n p' rest
        | None => tick_safeb n p rest
        end
    end.

  (* the threads from n on have nothing to do *)
  Definition dormant (n : nat) (p : pconfT) : Prop :=
    forall t, (n <= t)%nat -> pt_thr p t = QIdleT /\ pt_todo p t = [].

  Lemma pthrT_other p t orc p1 os h u : pthrT p t orc = Some (p1, os, h) -> u <> t ->
    pt_thr p1 u = pt_thr p u /\ pt_todo p1 u = pt_todo p u.
  Proof.
    intros E Hn. unfold pthrT in E.
    assert (Hx : xmoveT p t = Some (p1, os, h) -> pt_thr p1 u = pt_thr p u /\ pt_todo p1 u = pt_todo p u).
    { unfold xmoveT. destruct (step (pt_x p) t) as [[x1 h1]|]; [|discriminate].
      destruct (feedsT t (pt_thr p t) h1). intros E'. inversion E'; subst. cbn.
      unfold upd. destruct (Nat.eq_dec u t); [contradiction | auto]. }
    destruct (pt_thr p t) as [|o pr|o mo ci k|o mo ci k]; try (apply Hx; exact E).
    - destruct (pt_todo p t); [discriminate E|]. inversion E; subst. cbn. unfold upd. destruct (Nat.eq_dec u t); [contradiction | auto].
    - destruct pr as [r|mo k|k|k|d k|k|cb k|e k]; try discriminate E;
        try (inversion E; subst; cbn; unfold upd; destruct (Nat.eq_dec u t); [contradiction | auto]).
      destruct mo; try (inversion E; subst; cbn; unfold upd; destruct (Nat.eq_dec u t); [contradiction | auto]);
        (destruct (sup _); [|discriminate E]; inversion E; subst; cbn; unfold upd; destruct (Nat.eq_dec u t); [contradiction | auto]).
  Qed.

  Lemma dormant_step n p mv p1 os h : pstepT p mv = Some (p1, os, h) -> dormant n p -> dormant n p1.
  Proof.
    intros E Hd u Hu. destruct mv as [t orc|dt]; cbn [pstepT] in E.
    - destruct (Nat.eq_dec u t) as [->|Hn].
      + exfalso. destruct (Hd t Hu) as [A B]. unfold pthrT in E. rewrite A, B in E. discriminate E.
      + destruct (pthrT_other p t orc p1 os h u E Hn) as [A B]. rewrite A, B. apply Hd. exact Hu.
    - destruct (0 <=? dt); [|discriminate E]. inversion E; subst. cbn. apply Hd. exact Hu.
  Qed.

  Lemma pquietb_sound n p : dormant n p -> pquietb n p = true -> pquiet p.
  Proof.
    intros Hd Hb t. destruct (Nat.lt_ge_cases t n) as [Hlt|Hge].
    - unfold pquietb in Hb. rewrite forallb_forall in Hb.
      assert (Hin : In t (seq 0 n)) by (apply in_seq; split; [apply Nat.le_0_l | exact Hlt]).
      specialize (Hb t Hin).
      destruct (pt_thr p t) as [| |o mo ci k|o mo ci k]; cbn in Hb |- *; try exact I; destruct (is_compute mo); (discriminate Hb || reflexivity).
    - destruct (Hd t Hge) as [A _]. rewrite A. exact I.
  Qed.

  Theorem tick_safeb_sound n sched : forall p, dormant n p -> tick_safeb n p sched = true -> tick_safe p sched.
  Proof.
    induction sched as [|mv rest IH]; intros p Hd Hb; cbn [tick_safe tick_safeb] in *; [exact I|].
    destruct (pstepT p mv) as [[[p1 os] h]|] eqn:E; [|apply IH; assumption].
    apply andb_true_iff in Hb. destruct Hb as [Hq Hb]. split.
    - destruct mv; [exact I|]. apply (pquietb_sound n p Hd Hq).
    - apply IH; [eapply dormant_step; eassumption | exact Hb].
  Qed.

  Lemma dormant_init n now0 todo0 : (forall t, (n <= t)%nat -> todo0 t = []) -> dormant n (pinitT now0 todo0).
  Proof. intros H t Ht. split; [reflexivity | apply H; exact Ht]. Qed.

End ProductT.
Print Assumptions productT_all.
