(* C02F_map.v -- stage 1: XMachine's linearizability WITH THE FINAL STATE.
   X_linearizable's invariant LI already says it: the abstract map at the end of the instrumented
   history agrees with what is visible in the machine's current table ([li_agree] at the current
   generation, [li_empty]) -- in EVERY reachable state, quiescent or not (a writer is marked at
   its linearization store).  [xmachine_linearizable_final]: every run from the initial state has
   a linearization whose run of [xspec] ends in a map that agrees with the current table. *)
From CacheV Require Import Base SpecMap XMachine Lin LinF.
From CacheV.proofs Require Import X_basic X_lin X_linpoints X_linearizable.
From Coq Require Import NArith.
Local Open Scope nat_scope.

Section MapFinal.
  Context {K V : Type}.
  Variable eqd : forall a b : K, {a = b} + {a <> b}.
  Variable hash : K -> N -> N.
  Variable idx : N -> nat -> nat.
  Variable tag : N -> N.
  Variable nslots : nat.
  Variable seeds : nat -> N.
  Variable grow_needed shrink_policy : nat -> Z -> bool.
  Variable probe : list (option N) -> N -> list nat.
  Variable nstripes : nat -> nat.
  Variable minlen : nat.
  Variable grow_only : bool.

  Notation xop := (@xop K V).
  Notation xres := (@xres K V).
  Notation xrun := (@xrun K V eqd hash idx tag nslots seeds grow_needed shrink_policy probe nstripes minlen grow_only).
  Notation xspec := (@xspec K V eqd).
  Notation lrun := (@lrun K V eqd).
  Notation lok := (@lok K V eqd).

  Lemma lok_legalF m l : lok m l -> legalF xop xres (amap K V) xspec m l (lrun m l).
  Proof.
    revert m. induction l as [|[] l IH]; intros m H; cbn in H |- *.
    - constructor.
    - apply lf_inv. auto.
    - destruct H as [A [B C]]. eapply lf_lin; [split; [exact A | split; [exact B | reflexivity]] | auto].
    - apply lf_res. auto.
  Qed.

  Theorem xmachine_linearizable_final :
    xhyps4 idx nstripes minlen nslots probe -> forall len0 todo sched, 0 < len0 ->
    (forall t, Forall okop (todo t)) ->
    let s := fst (xrun (xinit nslots seeds nstripes len0 todo) sched) in
    exists mfin : amap K V,
      linearizableF xop xres (amap K V) xspec aempty (xhist (snd (xrun (xinit nslots seeds nstripes len0 todo) sched))) mfin
      /\ forall k v, vis hash idx (tab_at nslots nstripes s (g_cur s)) k v <-> mfin k = Some v.
  Proof.
    intros Hx len0 todo sched Hl Htodo s.
    destruct (LI_reachable_proof eqd hash idx tag nslots seeds grow_needed shrink_policy probe nstripes minlen grow_only
                Hx len0 todo sched Hl Htodo) as [G [HL E]]. fold s in HL, E.
    exists (lrun aempty (gI G (g_cur s))). split.
    - exists (gI G (g_cur s)). split; [exact E|]. split.
      + apply tproto_wf. intros t. exists (gst G t). apply (li_tp _ _ _ _ _ _ s G HL t).
      + apply lok_legalF. apply (li_lok _ _ _ _ _ _ s G HL).
    - assert (Eg : lrun aempty (gI G (g_cur s)) = gSE eqd G (g_cur s)).
      { unfold gI, gSE, gSS. replace (S (g_cur s)) with (g_cur s + 1) by lia.
        rewrite gflat_app, gflat_one. cbn [Nat.add]. unfold gseg.
        destruct (li_empty _ _ _ _ _ _ s G HL) as [Ec _]. rewrite Ec, app_nil_r. apply lrun_app. }
      rewrite Eg. apply (li_agree _ _ _ _ _ _ s G HL (g_cur s) (le_n _)).
  Qed.

End MapFinal.
Print Assumptions xmachine_linearizable_final.
