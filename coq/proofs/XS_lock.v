(* XS_lock.v -- the bucket spin lock of XMachineS (map.go) in every reachable
   state and for every schedule: bit 0 of the root word of bucket b of table tab
   is held by thread t exactly when t's program counter stands between the
   successful CompareAndSwapUint64 of lockBucket and the StoreUint64 of
   unlockBucket on (tab, b) -- for doCompute, copyBucket (resize) and Range;
   a thread holds at most one bucket lock, the continuation it carries and the
   Range frame below a visitor's call hold none; two threads never hold the
   same lock. *)
From CacheV Require Import Base SpecMap XMachineS.
From CacheV.proofs Require Import X_maps.
From Coq Require Import NArith.
Local Open Scope nat_scope.

(* ---------------- lists ---------------- *)

Lemma supd_nth_length {X} (l : list X) i f : length (supd_nth l i f) = length l.
Proof. revert i. induction l as [|x r IH]; intros [|i]; cbn; auto. Qed.

Lemma nth_supd_nth {X} (l : list X) i j f d :
  nth j (supd_nth l i f) d = if Nat.eq_dec j i then (if Nat.ltb i (length l) then f (nth i l d) else d) else nth j l d.
Proof.
  revert i j. induction l as [|x r IH]; intros i j.
  - destruct i; cbn [supd_nth length]; destruct (Nat.eq_dec j _); try reflexivity; destruct j; reflexivity.
  - destruct i as [|i], j as [|j]; cbn [supd_nth nth length].
    + reflexivity.
    + destruct (Nat.eq_dec (S j) 0); [discriminate|reflexivity].
    + destruct (Nat.eq_dec 0 (S i)); [discriminate|reflexivity].
    + rewrite IH. destruct (Nat.eq_dec j i), (Nat.eq_dec (S j) (S i)); try lia; try reflexivity.
Qed.

Lemma Forall_supd_nth {X} (P : X -> Prop) (l : list X) i f :
  Forall P l -> (forall x, P x -> P (f x)) -> Forall P (supd_nth l i f).
Proof.
  intros H Hf. revert i. induction H as [|x r Hx Hr IH]; intros [|i]; cbn [supd_nth]; constructor; auto.
Qed.

Lemma N_even_shiftl a n : (0 < n)%N -> N.even (N.shiftl a n) = true.
Proof.
  intros H. rewrite N.shiftl_mul_pow2, N.even_mul. rewrite (N.even_pow 2 n) by lia. apply orb_true_r.
Qed.

Lemma Forall_supd_nth_at {X} (P : X -> Prop) (l : list X) i f d :
  Forall P l -> (P (nth i l d) -> P (f (nth i l d))) -> Forall P (supd_nth l i f).
Proof.
  intros H. revert i. induction H as [|x r Hx Hr IH]; intros [|i] Hf; cbn [supd_nth nth] in *; constructor; auto.
Qed.

Lemma top_val_even (l : list (bool * N)) i : length l + i <= 3 -> N.even (top_val l i) = true.
Proof.
  revert i. induction l as [|[p th] r IH]; intros i H; cbn [top_val length] in *; [reflexivity|].
  rewrite !N.even_add. rewrite IH by lia. rewrite N_even_shiftl by lia.
  destruct p; [rewrite N_even_shiftl by lia|]; reflexivity.
Qed.

(* bit 0 of the word is the mutex: the top hashes and presence bits of (at most) three slots lie above it *)
Lemma word_val_even (w : bword) : length (w_top w) <= 3 ->
  N.even (word_val w) = match w_lock w with Some _ => false | None => true end.
Proof.
  intros H. unfold word_val. rewrite N.even_add, top_val_even by lia. destruct (w_lock w); reflexivity.
Qed.

Section SLock.
  Context {K V : Type}.
  Variable eqd : forall a b : K, {a = b} + {a <> b}.
  Variable hash : K -> N -> N.
  Variable idx : N -> nat -> nat.
  Variable tophash : N -> N.
  Variable nslots : nat.
  Variable seeds : nat -> N.
  Variable grow_needed : nat -> Z -> bool.
  Variable shrink_policy : nat -> Z -> bool.
  Variable nstripes : nat -> nat.
  Variable minlen : nat.
  Variable grow_only : bool.

  (* the hypotheses on the parameters: Hslots here, Hidx and Hminlen before the step theorem *)
  Hypothesis Hslots : nslots <= 3.          (* the three slots of a bucket fit above bit 0 of the word *)

  Notation mtable := (@mtable K V).
  Notation mstate := (@mstate K V).
  Notation spc := (@spc K V).
  Notation rframe := (@rframe K V).
  Notation sstep_pc := (@sstep_pc K V eqd hash idx tophash nslots seeds grow_needed shrink_policy nstripes minlen grow_only).
  Notation sstep := (@sstep K V eqd hash idx tophash nslots seeds grow_needed shrink_policy nstripes minlen grow_only).
  Notation srun := (@srun K V eqd hash idx tophash nslots seeds grow_needed shrink_policy nstripes minlen grow_only).
  Notation stab_at := (@stab_at K V nslots nstripes).
  Notation shome := (@shome K V hash idx).
  Notation sword_at := (@sword_at K V nslots).

  (* ---------------- the lock a program counter holds ---------------- *)

  Definition tabT (T : list mtable) (i : nat) : mtable := nth i T (new_mtable nslots nstripes 1 0%N).
  Definition lockT (T : list mtable) (tab b : nat) : option nat := w_lock (sword_at (tabT T tab) b 0).
  Definition lock_of (s : mstate) : nat -> nat -> option nat := lockT (h_tabs s).

  Definition sholdsT (T : list mtable) (p : spc) : option (nat * nat) :=
    match p with
    | QW_ChkRes cx tab | QW_ChkTab cx tab | QW_Scan cx tab _ _ _ | QW_D1 cx tab _ _ _ _ | QW_D2 cx tab _ _ _
    | QW_D3 cx tab _ _ _ | QW_U1 cx tab _ _ _ | QW_I0 cx tab _ _ | QW_I1 cx tab _ _ _ | QW_I2 cx tab _ _
    | QW_I3 cx tab _ _ | QW_Sum cx tab _ _ | QW_N1 cx tab _ => Some (tab, shome (tabT T tab) (sc_k cx))
    | QU_Load tab b _ _ | QU_Store tab b _ _ _ => Some (tab, b)
    | _ => None
    end.

  (* (table, root bucket) of the bucket lock the thread holds: from the successful CAS of lockBucket
     to the StoreUint64 of unlockBucket.  doCompute locks the home bucket of its key *)
  Definition sholds (s : mstate) (p : spc) : option (nat * nat) := sholdsT (h_tabs s) p.

  (* the program counter, continuations included, holds no bucket lock *)
  Fixpoint nolock (p : spc) : bool :=
    match p with
    | QW_ChkRes _ _ | QW_ChkTab _ _ | QW_Scan _ _ _ _ _ | QW_D1 _ _ _ _ _ _ | QW_D2 _ _ _ _ _
    | QW_D3 _ _ _ _ _ | QW_U1 _ _ _ _ _ | QW_I0 _ _ _ _ | QW_I1 _ _ _ _ _ | QW_I2 _ _ _ _
    | QW_I3 _ _ _ _ | QW_Sum _ _ _ _ | QW_N1 _ _ _ => false
    | QU_Load _ _ _ _ | QU_Store _ _ _ _ _ => false
    | QA_Add _ _ _ a => nolock a
    | _ => true
    end.

  Lemma nolock_holds T (p : spc) : nolock p = true -> sholdsT T p = None.
  Proof. destruct p; cbn; intros; try discriminate; reflexivity. Qed.

  (* ---------------- shapes ---------------- *)

  Definition wok (w : bword) : Prop := length (w_top w) <= 3.

  Definition tb_ok (tb : mtable) : Prop :=
    0 < m_len tb /\ length (m_words tb) = m_len tb /\ Forall (fun ws => ws <> []) (m_words tb) /\ Forall (Forall wok) (m_words tb).

  Definition inr (T : list mtable) (tab b : nat) : Prop := tab < length T /\ b < m_len (tabT T tab).

  Definition lkok (T : list mtable) (tab b : nat) (lk : @lockk K V) : Prop :=
    match lk with
    | LKCompute cx => b = shome (tabT T tab) (sc_k cx)
    | LKCopy _ _ new => new < length T
    | LKRange _ => True
    end.

  (* what the locals of a program counter satisfy (t: the thread) *)
  Fixpoint PCI (T : list mtable) (t : nat) (p : spc) : Prop :=
    match p with
    | QK_Load tab b lk | QK_Spin tab b lk | QK_Yield tab b lk => inr T tab b /\ lkok T tab b lk
    | QK_CAS tab b v lk => inr T tab b /\ lkok T tab b lk /\ w_lock v = None /\ wok v
    | QU_Load tab b _ a => inr T tab b /\ nolock a = true /\ PCI T t a
    | QU_Store tab b v _ a => inr T tab b /\ wok v /\ nolock a = true /\ PCI T t a
    | QA_Add _ _ _ a => nolock a = true /\ PCI T t a
    | QW_ChkRes _ tab | QW_ChkTab _ tab | QW_Scan _ tab _ _ _ | QW_D2 _ tab _ _ _
    | QW_D3 _ tab _ _ _ | QW_U1 _ tab _ _ _ | QW_I0 _ tab _ _ | QW_I2 _ tab _ _
    | QW_I3 _ tab _ _ | QW_Sum _ tab _ _ | QW_N1 _ tab _ => tab < length T
    | QW_D1 _ tab pos _ w _ | QW_I1 _ tab pos _ w => tab < length T /\ wok w /\ (pos / nslots = 0 -> w_lock w = Some t)
    | QR_ShSum _ tab _ _ => tab < length T /\ 2 <= m_len (tabT T tab)
    | QR_Stat hn _ tab => tab < length T /\ (hn = SHGrow \/ 2 <= m_len (tabT T tab))
    | QR_Publish _ new => new < length T
    | _ => True
    end.

  Definition FR (T : list mtable) (fr : nat -> option rframe) : Prop :=
    forall u f, fr u = Some f -> nolock (rf_after f) = true /\ PCI T u (rf_after f).

  Record XL (s : mstate) : Prop := {
    xl_tabs : Forall tb_ok (h_tabs s);
    xl_cur : h_cur s < length (h_tabs s);
    xl_pc : forall t, PCI (h_tabs s) t (h_pc s t);
    xl_frame : FR (h_tabs s) (h_frame s);
    (* the lock word says t exactly when t's program counter holds the lock *)
    xl_lockA : forall t tab b, sholds s (h_pc s t) = Some (tab, b) -> lock_of s tab b = Some t;
    xl_lockB : forall t tab b, lock_of s tab b = Some t -> sholds s (h_pc s t) = Some (tab, b);
  }.

  (* ---------------- tables only grow in number; length and seed of a table never change ---------------- *)

  Definition sextT (T T' : list mtable) : Prop :=
    length T <= length T' /\ forall i, i < length T -> m_len (tabT T' i) = m_len (tabT T i) /\ m_seed (tabT T' i) = m_seed (tabT T i).

  Lemma sextT_refl T : sextT T T.
  Proof. split; [lia | auto]. Qed.

  Lemma shome_ext (tb tb' : mtable) k : m_len tb' = m_len tb -> m_seed tb' = m_seed tb -> shome tb' k = shome tb k.
  Proof. unfold XMachineS.shome. intros -> ->. reflexivity. Qed.

  Lemma inr_ext T T' tab b : sextT T T' -> inr T tab b -> inr T' tab b.
  Proof. intros [A B] [C D]. split; [lia|]. destruct (B tab C) as [E _]. rewrite E. exact D. Qed.

  Lemma lkok_ext T T' tab b lk : sextT T T' -> tab < length T -> lkok T tab b lk -> lkok T' tab b lk.
  Proof.
    intros [A B] C. destruct lk; cbn; auto; [|lia].
    destruct (B tab C) as [E F]. intros ->. symmetry. apply shome_ext; assumption.
  Qed.

  Lemma PCI_ext T T' t (p : spc) : sextT T T' -> PCI T t p -> PCI T' t p.
  Proof.
    intros HE. pose proof HE as [A B]. induction p; cbn [PCI]; intros H; auto; try lia.
    all: try (destruct H as [H1 H2]; split; [eapply inr_ext; eassumption|]).
    all: try (eapply lkok_ext; [eassumption | apply H1 | assumption]).
    all: try (destruct H2 as [H2 H3]; split; [eapply lkok_ext; [eassumption | apply H1 | assumption] | assumption]).
    all: try tauto.
    all: try (split; [lia | tauto]).
    all: try (destruct H as [H1 H2]; destruct (B tab H1) as [E _]; rewrite E; split; [lia | exact H2]).
  Qed.

  Lemma sholdsT_ext T T' t (p : spc) : sextT T T' -> PCI T t p -> sholdsT T' p = sholdsT T p.
  Proof.
    intros [A B]. destruct p; cbn [PCI sholdsT]; intros H; try reflexivity.
    all: match goal with |- Some (?tab, _) = _ => assert (C : tab < length T) by tauto end;
      destruct (B _ C) as [E F]; rewrite (shome_ext _ _ _ E F); reflexivity.
  Qed.

  Lemma FR_ext T T' fr : sextT T T' -> FR T fr -> FR T' fr.
  Proof. intros HE H u f E. destruct (H u f E). split; [assumption | eapply PCI_ext; eassumption]. Qed.

  Lemma swake_holds T (p : spc) : sholdsT T (swake p) = sholdsT T p.
  Proof. destruct p; reflexivity. Qed.

  Lemma swake_PCI T t (p : spc) : PCI T t p -> PCI T t (swake p).
  Proof. destruct p; cbn; auto. Qed.


  (* ---------------- updates of a table that leave every lock bit alone ---------------- *)

  Definition lneutral (tb tb' : mtable) : Prop :=
    m_len tb' = m_len tb /\ m_seed tb' = m_seed tb
    /\ (forall b, w_lock (sword_at tb' b 0) = w_lock (sword_at tb b 0)) /\ (tb_ok tb -> tb_ok tb').

  Lemma lneutral_refl tb : lneutral tb tb.
  Proof. split; [reflexivity|]. split; [reflexivity|]. split; [reflexivity | exact (fun H => H)]. Qed.

  Lemma lneutral_trans a b c : lneutral a b -> lneutral b c -> lneutral a c.
  Proof.
    intros [A1 [A2 [A3 A4]]] [B1 [B2 [B3 B4]]]. split; [congruence|]. split; [congruence|].
    split; [intros x; rewrite B3; apply A3 | auto].
  Qed.

  Lemma wok_empty : wok (empty_bword nslots).
  Proof. unfold wok, empty_bword. cbn. rewrite repeat_length. exact Hslots. Qed.

  Lemma wok_store_top w i th : wok w -> wok (store_top w i th).
  Proof. unfold wok, store_top. cbn. rewrite supd_nth_length. auto. Qed.

  Lemma wok_erase_top w i : wok w -> wok (erase_top w i).
  Proof. unfold wok, erase_top. cbn. rewrite supd_nth_length. auto. Qed.

  Lemma wok_with_lock w o : wok w -> wok (with_lock w o).
  Proof. auto. Qed.

  Lemma neutral_set_chain (tb : mtable) b g : lneutral tb (sset_chain tb b g).
  Proof.
    unfold lneutral, sset_chain, tb_ok, m_len, XMachineS.sword_at, swords_of. cbn. rewrite supd_nth_length. auto.
  Qed.

  Lemma neutral_add_size (tb : mtable) b d : lneutral tb (sadd_size tb b d).
  Proof. unfold lneutral, sadd_size, tb_ok, m_len, XMachineS.sword_at, swords_of. cbn. auto. Qed.

  Lemma tb_ok_set_word (tb : mtable) b bi g : (forall w, wok w -> wok (g w)) -> tb_ok tb -> tb_ok (sset_word tb b bi g).
  Proof.
    intros Hw. unfold sset_word, sset_words, tb_ok, m_len. cbn [m_chains m_seed m_words].
    intros [A [B [C D]]]. split; [exact A|]. split; [rewrite supd_nth_length; exact B|]. split.
    - apply Forall_supd_nth; [exact C|]. intros ws Hn E. apply Hn. destruct ws; [reflexivity|].
      destruct bi; discriminate E.
    - apply Forall_supd_nth; [exact D|]. intros ws Hws. apply Forall_supd_nth; assumption.
  Qed.

  Lemma neutral_set_word (tb : mtable) b bi g :
    (bi = 0 -> w_lock (g (sword_at tb b 0)) = w_lock (sword_at tb b 0)) -> (forall w, wok w -> wok (g w)) ->
    lneutral tb (sset_word tb b bi g).
  Proof.
    intros Hl Hw. split; [reflexivity|]. split; [reflexivity|]. split; [|apply tb_ok_set_word; exact Hw].
    unfold sset_word, sset_words.
    intros b'. unfold XMachineS.sword_at, swords_of in *. cbn [m_words]. rewrite nth_supd_nth.
    destruct (Nat.eq_dec b' b) as [->|]; [|reflexivity].
    destruct (Nat.ltb b (length (m_words tb))) eqn:E0; [|apply Nat.ltb_ge in E0; rewrite (nth_overflow _ _ E0); reflexivity].
    rewrite nth_supd_nth. destruct (Nat.eq_dec 0 bi) as [<-|]; [|reflexivity].
    destruct (Nat.ltb 0 (length (nth b (m_words tb) []))) eqn:E; [apply Hl; reflexivity|].
    apply Nat.ltb_ge in E. destruct (nth b (m_words tb) []); [reflexivity | cbn in E; lia].
  Qed.

  Lemma neutral_app_word (tb : mtable) b w : w_lock w = None -> wok w ->
    lneutral tb (sset_words tb b (fun ws => ws ++ [w])).
  Proof.
    intros Hl Hw. unfold lneutral, sset_words, tb_ok, m_len. cbn [m_chains m_seed m_words].
    split; [reflexivity|]. split; [reflexivity|]. split.
    - intros b'. unfold XMachineS.sword_at, swords_of in *. cbn [m_words]. rewrite nth_supd_nth.
      destruct (Nat.eq_dec b' b) as [->|]; [|reflexivity].
      destruct (Nat.ltb b (length (m_words tb))) eqn:E0; [|apply Nat.ltb_ge in E0; rewrite (nth_overflow _ _ E0); reflexivity].
      destruct (nth b (m_words tb) []); [cbn; exact Hl | reflexivity].
    - intros [A [B [C D]]]. split; [exact A|]. split; [rewrite supd_nth_length; exact B|]. split.
      + apply Forall_supd_nth; [exact C|]. intros ws _ E. destruct ws; discriminate E.
      + apply Forall_supd_nth; [exact D|]. intros ws Hws. apply Forall_app. split; [exact Hws | constructor; [exact Hw | constructor]].
  Qed.

  Lemma neutral_set_slot (tb : mtable) b pos g : lneutral tb (sset_slot tb b pos g).
  Proof. apply neutral_set_chain. Qed.

  Lemma neutral_sappend (tb : mtable) b th k vp : lneutral tb (sappend nslots tb b th k vp).
  Proof.
    unfold sappend. destruct (first_nil_key _ _) as [pos|].
    - eapply lneutral_trans; [apply neutral_set_slot|]. apply neutral_set_word; [reflexivity | intros; apply wok_store_top; assumption].
    - eapply lneutral_trans; [apply neutral_set_chain|]. apply neutral_app_word; [reflexivity | apply wok_store_top, wok_empty].
  Qed.

  Lemma neutral_scopy src (dst : mtable) : lneutral dst (fst (scopy_chain hash idx tophash nslots src dst)).
  Proof.
    unfold scopy_chain. generalize 0%Z. revert dst. induction src as [|sl r IH]; intros dst z; cbn [fold_left fst]; [apply lneutral_refl|].
    destruct (ms_key sl) as [k|]; [|apply IH]. cbn [fst snd].
    eapply lneutral_trans; [apply neutral_sappend | apply IH].
  Qed.

  (* ---------------- the same for the list of tables ---------------- *)

  Lemma tabT_supd T tab f i :
    tabT (supd_nth T tab f) i = if Nat.eq_dec i tab then (if Nat.ltb tab (length T) then f (tabT T tab) else tabT T tab) else tabT T i.
  Proof.
    unfold tabT. rewrite nth_supd_nth. destruct (Nat.eq_dec i tab) as [->|]; [|reflexivity].
    destruct (Nat.ltb tab (length T)) eqn:E; [reflexivity|]. apply Nat.ltb_ge in E. rewrite nth_overflow by exact E. reflexivity.
  Qed.

  Lemma neutral_tabs T tab f : lneutral (tabT T tab) (f (tabT T tab)) -> Forall tb_ok T ->
    sextT T (supd_nth T tab f) /\ Forall tb_ok (supd_nth T tab f)
    /\ forall tab' b', lockT (supd_nth T tab f) tab' b' = lockT T tab' b'.
  Proof.
    intros [A [B [C D]]] HT. split; [|split].
    - split; [rewrite supd_nth_length; lia|]. intros i _. rewrite tabT_supd.
      destruct (Nat.eq_dec i tab) as [->|]; [|auto]. destruct (Nat.ltb tab (length T)); auto.
    - apply (Forall_supd_nth_at _ _ _ _ (new_mtable nslots nstripes 1 0%N)); [exact HT | exact D].
    - intros tab' b'. unfold lockT. rewrite tabT_supd.
      destruct (Nat.eq_dec tab' tab) as [->|]; [|auto]. destruct (Nat.ltb tab (length T)); auto.
  Qed.

  Lemma tb_ok_new len seed : 0 < len -> tb_ok (new_mtable nslots nstripes len seed).
  Proof.
    intros H. unfold tb_ok, new_mtable, m_len. cbn [m_chains m_words]. rewrite !repeat_length.
    split; [exact H|]. split; [reflexivity|]. split; apply Forall_forall; intros x Hx; apply repeat_spec in Hx; subst x.
    - discriminate.
    - constructor; [apply wok_empty | constructor].
  Qed.

  Lemma tb_ok_default : tb_ok (new_mtable nslots nstripes 1 0%N).
  Proof. apply tb_ok_new. lia. Qed.

  Lemma tb_ok_tabT T i : Forall tb_ok T -> tb_ok (tabT T i).
  Proof.
    intros H. unfold tabT. destruct (Nat.lt_ge_cases i (length T)) as [L|L].
    - rewrite Forall_forall in H. apply H. apply nth_In. exact L.
    - rewrite nth_overflow by exact L. apply tb_ok_default.
  Qed.

  Lemma wok_sword_at (tb : mtable) b bi : tb_ok tb -> wok (sword_at tb b bi).
  Proof.
    intros [_ [_ [_ D]]]. unfold XMachineS.sword_at, swords_of.
    destruct (Nat.lt_ge_cases b (length (m_words tb))) as [L|L]; [|rewrite (nth_overflow _ _ L); destruct bi; apply wok_empty].
    rewrite Forall_forall in D. pose proof (D _ (nth_In _ [] L)) as Hws.
    destruct (Nat.lt_ge_cases bi (length (nth b (m_words tb) []))) as [L2|L2]; [|rewrite (nth_overflow _ _ L2); apply wok_empty].
    rewrite Forall_forall in Hws. apply Hws. apply nth_In. exact L2.
  Qed.

  Lemma lock_new_table len seed b : w_lock (sword_at (new_mtable nslots nstripes len seed) b 0) = None.
  Proof.
    unfold XMachineS.sword_at, swords_of, new_mtable. cbn [m_words].
    destruct (Nat.lt_ge_cases b len) as [L|L].
    - rewrite (nth_indep _ [] [empty_bword nslots]) by (rewrite repeat_length; exact L). rewrite nth_repeat. reflexivity.
    - rewrite (nth_overflow (repeat [empty_bword nslots] len) []) by (rewrite repeat_length; exact L). reflexivity.
  Qed.

  (* a new table at the end *)
  Lemma push_tabs T (tb : mtable) : tb_ok tb -> (forall b, w_lock (sword_at tb b 0) = None) -> Forall tb_ok T ->
    sextT T (T ++ [tb]) /\ Forall tb_ok (T ++ [tb]) /\ forall tab' b', lockT (T ++ [tb]) tab' b' = lockT T tab' b'.
  Proof.
    intros Hok Hl HT. split; [|split].
    - split; [rewrite app_length; lia|]. intros i Hi. unfold tabT. rewrite app_nth1 by exact Hi. auto.
    - apply Forall_app. split; [exact HT | constructor; [exact Hok | constructor]].
    - intros tab' b'. unfold lockT, tabT. destruct (Nat.lt_ge_cases tab' (length T)) as [L|L]; [rewrite app_nth1 by exact L; reflexivity|].
      rewrite (nth_overflow T) by exact L. rewrite app_nth2 by exact L.
      destruct (tab' - length T) as [|n]; cbn [nth]; [rewrite Hl; symmetry; apply (lock_new_table 1 0%N) | destruct n; reflexivity].
  Qed.


  (* ---------------- where a thread stands after sgoto / svisits ---------------- *)

  Lemma start_cx_nolock (cx : @scx K V) T t : nolock (sstart_cx cx) = true /\ PCI T t (sstart_cx cx).
  Proof. unfold sstart_cx. destruct (sc_lie cx); split; first [reflexivity | exact I]. Qed.

  Lemma svisits_eff (S0 : mstate) t rest vf after ls :
    FR (h_tabs S0) (h_frame S0) -> nolock after = true -> PCI (h_tabs S0) t after ->
    let s' := fst (svisits S0 t rest vf after ls) in
    h_tabs s' = h_tabs S0 /\ h_cur s' = h_cur S0 /\ (forall u, u <> t -> h_pc s' u = h_pc S0 u)
    /\ nolock (h_pc s' t) = true /\ PCI (h_tabs S0) t (h_pc s' t) /\ FR (h_tabs S0) (h_frame s').
  Proof.
    intros HF Hn Hp s'. destruct (svisits_shared S0 t rest vf after ls) as [[A [B _]] [C _]]. fold s' in A, B, C.
    split; [exact A|]. split; [exact B|]. split; [exact C|]. subst s'. clear A B C.
    revert ls. induction rest as [|[k v] r IH]; intros ls; cbn [svisits].
    - assert (HF' : FR (h_tabs S0) (fun t' => if Nat.eq_dec t' t then None else h_frame S0 t')).
      { intros u f. destruct (Nat.eq_dec u t); [discriminate | apply HF]. }
      destruct after; cbn [fst sset_pc sset_frame h_pc h_frame]; (destruct (Nat.eq_dec t t) as [_|Hc]; [|exfalso; apply Hc; reflexivity]);
        (split; [first [exact Hn | reflexivity] | split; [first [exact Hp | exact I] | exact HF']]).
    - destruct (vf k v) as [cx|]; [|apply IH]. cbn [fst sset_pc sset_frame h_pc h_frame].
      destruct (Nat.eq_dec t t) as [_|Hc]; [|exfalso; apply Hc; reflexivity].
      destruct (start_cx_nolock cx (h_tabs S0) t) as [A B]. split; [exact A|]. split; [exact B|].
      intros u f. destruct (Nat.eq_dec u t) as [->|]; [|apply HF]. intros E. inversion E; subst f. cbn [rf_after]. auto.
  Qed.

  Lemma sgoto_eff (S0 : mstate) t q ls :
    FR (h_tabs S0) (h_frame S0) -> PCI (h_tabs S0) t q ->
    let s' := fst (sgoto S0 t q ls) in
    h_tabs s' = h_tabs S0 /\ h_cur s' = h_cur S0 /\ (forall u, u <> t -> h_pc s' u = h_pc S0 u)
    /\ sholdsT (h_tabs S0) (h_pc s' t) = sholdsT (h_tabs S0) q /\ PCI (h_tabs S0) t (h_pc s' t) /\ FR (h_tabs S0) (h_frame s').
  Proof.
    intros HF Hp s'. destruct (sgoto_shared S0 t q ls) as [[A [B _]] [C _]]. fold s' in A, B, C.
    split; [exact A|]. split; [exact B|]. split; [exact C|]. subst s'. clear A B C.
    destruct q; cbn [sgoto fst sset_pc h_pc h_frame];
      try (destruct (Nat.eq_dec t t) as [_|Hc]; [|exfalso; apply Hc; reflexivity]; split; [reflexivity | split; [exact Hp | exact HF]]).
    destruct (h_frame S0 t) as [fr|] eqn:E.
    - destruct (HF t fr E) as [F1 F2].
      destruct (svisits_eff S0 t (rf_rest fr) (rf_vf fr) (rf_after fr) (ls ++ [SSubRes t r]) HF F1 F2) as [_ [_ [_ [G1 [G2 G3]]]]].
      split; [rewrite (nolock_holds _ _ G1); reflexivity | split; [exact G2 | exact G3]].
    - cbn [fst sset_pc h_pc h_frame]. destruct (Nat.eq_dec t t) as [_|Hc]; [|exfalso; apply Hc; reflexivity].
      split; [reflexivity | split; [exact I | exact HF]].
  Qed.

  (* ---------------- what one step does to the locks ---------------- *)

  Definition eqp (tab b tab' b' : nat) : bool := Nat.eqb tab' tab && Nat.eqb b' b.

  Lemma eqp_true tab b tab' b' : eqp tab b tab' b' = true <-> tab' = tab /\ b' = b.
  Proof. unfold eqp. rewrite andb_true_iff, !Nat.eqb_eq. tauto. Qed.

  Inductive lock_eff (t : nat) (H H' : option (nat * nat)) (L L' : nat -> nat -> option nat) : Prop :=
  | LE_same : H' = H -> (forall tab b, L' tab b = L tab b) -> lock_eff t H H' L L'
  | LE_acq tab b : H = None -> H' = Some (tab, b) -> L tab b = None ->
      (forall tab' b', L' tab' b' = if eqp tab b tab' b' then Some t else L tab' b') -> lock_eff t H H' L L'
  | LE_rel tab b : H = Some (tab, b) -> H' = None ->
      (forall tab' b', L' tab' b' = if eqp tab b tab' b' then None else L tab' b') -> lock_eff t H H' L L'.

  Record step_eff (s : mstate) (t : nat) (s' : mstate) : Prop := {
    se_oth : forall u, u <> t -> h_pc s' u = h_pc s u \/ h_pc s' u = swake (h_pc s u);
    se_ext : sextT (h_tabs s) (h_tabs s');
    se_tabs : Forall tb_ok (h_tabs s');
    se_cur : h_cur s' < length (h_tabs s');
    se_pc : PCI (h_tabs s') t (h_pc s' t);
    se_fr : FR (h_tabs s') (h_frame s');
    se_lock : lock_eff t (sholds s (h_pc s t)) (sholds s' (h_pc s' t)) (lock_of s) (lock_of s');
  }.

  Theorem XL_eff s t s' : XL s -> step_eff s t s' -> XL s'.
  Proof.
    intros HS HE.
    assert (Hoth : forall u, u <> t -> sholds s' (h_pc s' u) = sholds s (h_pc s u) /\ PCI (h_tabs s') u (h_pc s' u)).
    { intros u Hne. pose proof (xl_pc s HS u) as Hp. pose proof (se_ext _ _ _ HE) as Hx. unfold sholds.
      destruct (se_oth _ _ _ HE u Hne) as [E|E]; rewrite E.
      - split; [eapply sholdsT_ext; eassumption | eapply PCI_ext; eassumption].
      - rewrite swake_holds. split; [eapply sholdsT_ext; eassumption | apply swake_PCI; eapply PCI_ext; eassumption]. }
    constructor.
    - apply (se_tabs _ _ _ HE).
    - apply (se_cur _ _ _ HE).
    - intros u. destruct (Nat.eq_dec u t) as [->|Hne]; [apply (se_pc _ _ _ HE) | apply (Hoth u Hne)].
    - apply (se_fr _ _ _ HE).
    - (* the holder is in the word *)
      intros u tab b Hh. destruct (se_lock _ _ _ HE) as [E1 E2 | tb bb E1 E2 E3 E4 | tb bb E1 E2 E4].
      + rewrite E2. apply (xl_lockA s HS). destruct (Nat.eq_dec u t) as [->|Hne]; [congruence|].
        destruct (Hoth u Hne) as [A _]. congruence.
      + rewrite E4. destruct (eqp tb bb tab b) eqn:Eq.
        * apply eqp_true in Eq. destruct Eq as [-> ->]. destruct (Nat.eq_dec u t) as [->|Hne]; [reflexivity|].
          destruct (Hoth u Hne) as [A _]. rewrite A in Hh. pose proof (xl_lockA s HS u tb bb Hh). congruence.
        * destruct (Nat.eq_dec u t) as [->|Hne].
          -- rewrite E2 in Hh. inversion Hh; subst. assert (eqp tab b tab b = true) by (apply eqp_true; auto). congruence.
          -- destruct (Hoth u Hne) as [A _]. rewrite A in Hh. apply (xl_lockA s HS u tab b Hh).
      + rewrite E4. destruct (Nat.eq_dec u t) as [->|Hne]; [congruence|].
        destruct (Hoth u Hne) as [A _]. rewrite A in Hh. pose proof (xl_lockA s HS u tab b Hh) as Hu.
        destruct (eqp tb bb tab b) eqn:Eq; [|exact Hu].
        apply eqp_true in Eq. destruct Eq as [-> ->]. pose proof (xl_lockA s HS t tb bb E1). congruence.
    - (* the word names its holder *)
      intros u tab b Hl. destruct (se_lock _ _ _ HE) as [E1 E2 | tb bb E1 E2 E3 E4 | tb bb E1 E2 E4].
      + rewrite E2 in Hl. pose proof (xl_lockB s HS u tab b Hl) as Hu. destruct (Nat.eq_dec u t) as [->|Hne]; [congruence|].
        destruct (Hoth u Hne) as [A _]. congruence.
      + rewrite E4 in Hl. destruct (eqp tb bb tab b) eqn:Eq.
        * apply eqp_true in Eq. destruct Eq as [-> ->]. inversion Hl; subst u. exact E2.
        * pose proof (xl_lockB s HS u tab b Hl) as Hu. destruct (Nat.eq_dec u t) as [->|Hne]; [congruence|].
          destruct (Hoth u Hne) as [A _]. congruence.
      + rewrite E4 in Hl. destruct (eqp tb bb tab b) eqn:Eq; [discriminate|].
        pose proof (xl_lockB s HS u tab b Hl) as Hu. destruct (Nat.eq_dec u t) as [->|Hne].
        * rewrite E1 in Hu. inversion Hu; subst. assert (eqp tab b tab b = true) by (apply eqp_true; auto). congruence.
        * destruct (Hoth u Hne) as [A _]. congruence.
  Qed.


  (* ---------------- the usual shapes of a step ---------------- *)

  Lemma eff_goto s t (S0 : mstate) q ls :
    XL s -> h_frame S0 = h_frame s ->
    (forall u, u <> t -> h_pc S0 u = h_pc s u \/ h_pc S0 u = swake (h_pc s u)) ->
    sextT (h_tabs s) (h_tabs S0) -> Forall tb_ok (h_tabs S0) -> h_cur S0 < length (h_tabs S0) ->
    PCI (h_tabs S0) t q ->
    lock_eff t (sholds s (h_pc s t)) (sholdsT (h_tabs S0) q) (lock_of s) (lockT (h_tabs S0)) ->
    step_eff s t (fst (sgoto S0 t q ls)).
  Proof.
    intros HS Hfr Hoth Hx Hok Hcur Hq Hl.
    assert (HF : FR (h_tabs S0) (h_frame S0)) by (rewrite Hfr; eapply FR_ext; [exact Hx | apply (xl_frame s HS)]).
    destruct (sgoto_eff S0 t q ls HF Hq) as [A [B [C [D [E F]]]]].
    constructor.
    - intros u Hne. rewrite (C u Hne). apply Hoth; exact Hne.
    - rewrite A; exact Hx.
    - rewrite A. exact Hok.
    - rewrite A, B. exact Hcur.
    - rewrite A. exact E.
    - rewrite A. exact F.
    - unfold sholds at 2, lock_of at 2. rewrite A, D. exact Hl.
  Qed.

  (* the tables are untouched *)
  Lemma eff_same s t (S0 : mstate) q ls :
    XL s -> h_tabs S0 = h_tabs s -> h_frame S0 = h_frame s ->
    (forall u, u <> t -> h_pc S0 u = h_pc s u \/ h_pc S0 u = swake (h_pc s u)) ->
    h_cur S0 < length (h_tabs s) ->
    PCI (h_tabs s) t q -> sholdsT (h_tabs s) q = sholds s (h_pc s t) ->
    step_eff s t (fst (sgoto S0 t q ls)).
  Proof.
    intros HS E1 E2 Ho Hc Hq Hh. apply eff_goto; rewrite ?E1; auto.
    - apply sextT_refl.
    - apply (xl_tabs s HS).
    - apply LE_same; [exact Hh | reflexivity].
  Qed.

  (* one table is updated, no lock bit changes *)
  Lemma eff_neutral s t (S0 : mstate) tab f q ls :
    XL s -> h_tabs S0 = supd_nth (h_tabs s) tab f -> h_frame S0 = h_frame s -> h_pc S0 = h_pc s -> h_cur S0 = h_cur s ->
    lneutral (tabT (h_tabs s) tab) (f (tabT (h_tabs s) tab)) ->
    PCI (h_tabs s) t q -> sholdsT (h_tabs s) q = sholds s (h_pc s t) ->
    step_eff s t (fst (sgoto S0 t q ls)).
  Proof.
    intros HS E1 E2 E3 E4 Hn Hq Hh. destruct (neutral_tabs (h_tabs s) tab f Hn (xl_tabs s HS)) as [X1 [X2 X3]].
    apply eff_goto; rewrite ?E1, ?E3, ?E4; auto.
    - rewrite supd_nth_length. apply (xl_cur s HS).
    - eapply PCI_ext; eassumption.
    - apply LE_same; [|exact X3]. rewrite <- Hh. eapply sholdsT_ext; eassumption.
  Qed.

  (* a new table is allocated *)
  Lemma eff_push s t (S0 : mstate) tb q ls :
    XL s -> h_tabs S0 = h_tabs s ++ [tb] -> h_frame S0 = h_frame s -> h_pc S0 = h_pc s -> h_cur S0 = h_cur s ->
    tb_ok tb -> (forall b, w_lock (sword_at tb b 0) = None) ->
    PCI (h_tabs s ++ [tb]) t q -> sholdsT (h_tabs s ++ [tb]) q = sholds s (h_pc s t) ->
    step_eff s t (fst (sgoto S0 t q ls)).
  Proof.
    intros HS E1 E2 E3 E4 Hok Hl Hq Hh. destruct (push_tabs (h_tabs s) tb Hok Hl (xl_tabs s HS)) as [X1 [X2 X3]].
    apply eff_goto; rewrite ?E1, ?E3, ?E4; auto.
    - rewrite app_length. pose proof (xl_cur s HS). lia.
    - apply LE_same; [exact Hh | exact X3].
  Qed.

  (* the locked scan of doCompute: the slot found lies in the bucket scanned *)
  Lemma scan_found k th w (sl : list (@mslot K V)) base i emp ne pos vp :
    scan_slots eqd k th w sl base i emp ne = ScFound pos vp -> base + i <= pos < base + i + length sl.
  Proof.
    revert i emp ne. induction sl as [|x r IH]; intros i emp ne; cbn [scan_slots length]; [discriminate|].
    destruct (ms_key x) as [k'|].
    - destruct (top_match th w i); [destruct (eqd k k')|].
      + intros E. inversion E; subst. lia.
      + intros E. apply IH in E. lia.
      + intros E. apply IH in E. lia.
    - intros E. apply IH in E. lia.
  Qed.

  Lemma sbucket_slots_length (c : list (@mslot K V)) bi : length (sbucket_slots nslots c bi) <= nslots.
  Proof. unfold sbucket_slots. rewrite firstn_length. lia. Qed.

  Lemma found_bucket bi pos n : bi * nslots + 0 <= pos < bi * nslots + 0 + n -> n <= nslots -> pos / nslots = 0 -> bi = 0.
  Proof.
    intros H Hn Hd. destruct (Nat.eq_dec nslots 0) as [E|E]; [lia|].
    apply Nat.div_small_iff in Hd; [|exact E]. destruct bi; [reflexivity|]. cbn in H. nia.
  Qed.

  Lemma sextT_trans A B C : sextT A B -> sextT B C -> sextT A C.
  Proof.
    intros [A1 A2] [B1 B2]. split; [lia|]. intros i Hi. destruct (A2 i Hi) as [E1 E2].
    destruct (B2 i ltac:(lia)) as [F1 F2]. split; congruence.
  Qed.

  (* the lock bit of root bucket (tab, b) is written *)
  Lemma set_lock_tabs T tab b w' : inr T tab b -> Forall tb_ok T -> wok w' ->
    let T1 := supd_nth T tab (fun tb : mtable => sset_word tb b 0 (fun _ => w')) in
    sextT T T1 /\ Forall tb_ok T1
    /\ forall tab' b', lockT T1 tab' b' = if eqp tab b tab' b' then w_lock w' else lockT T tab' b'.
  Proof.
    intros [Ht Hb] HT Hw T1. subst T1. split; [|split].
    - split; [rewrite supd_nth_length; lia|]. intros i _. rewrite tabT_supd.
      destruct (Nat.eq_dec i tab) as [->|]; [|auto]. destruct (Nat.ltb tab (length T)); auto.
    - apply (Forall_supd_nth_at _ _ _ _ (new_mtable nslots nstripes 1 0%N)); [exact HT|].
      apply tb_ok_set_word. intros _ _. exact Hw.
    - intros tab' b'. unfold lockT. rewrite tabT_supd. unfold eqp.
      destruct (Nat.eq_dec tab' tab) as [->|Hne]; [rewrite Nat.eqb_refl | apply Nat.eqb_neq in Hne; rewrite Hne; reflexivity].
      apply Nat.ltb_lt in Ht. rewrite Ht. cbn [andb].
      pose proof (tb_ok_tabT T tab HT) as [A [B [C D]]]. fold (tabT T tab) in *.
      unfold XMachineS.sword_at, swords_of, sset_word, sset_words. cbn [m_words]. rewrite nth_supd_nth.
      destruct (Nat.eq_dec b' b) as [->|Hne]; [rewrite Nat.eqb_refl | apply Nat.eqb_neq in Hne; rewrite Hne; reflexivity].
      rewrite <- B in Hb. pose proof Hb as Hb'. apply Nat.ltb_lt in Hb. rewrite Hb.
      rewrite Forall_forall in C. pose proof (C _ (nth_In _ [] Hb')) as Hn.
      destruct (nth b (m_words (tabT T tab)) []); [contradiction | reflexivity].
  Qed.

  Lemma eff_visits s t (S0 : mstate) rest vf after ls :
    XL s -> h_frame S0 = h_frame s ->
    (forall u, u <> t -> h_pc S0 u = h_pc s u \/ h_pc S0 u = swake (h_pc s u)) ->
    sextT (h_tabs s) (h_tabs S0) -> Forall tb_ok (h_tabs S0) -> h_cur S0 < length (h_tabs S0) ->
    nolock after = true -> PCI (h_tabs S0) t after ->
    lock_eff t (sholds s (h_pc s t)) None (lock_of s) (lockT (h_tabs S0)) ->
    step_eff s t (fst (svisits S0 t rest vf after ls)).
  Proof.
    intros HS Hfr Hoth Hx Hok Hcur Hn Hq Hl.
    assert (HF : FR (h_tabs S0) (h_frame S0)) by (rewrite Hfr; eapply FR_ext; [exact Hx | apply (xl_frame s HS)]).
    destruct (svisits_eff S0 t rest vf after ls HF Hn Hq) as [A [B [C [D [E F]]]]].
    constructor.
    - intros u Hne. rewrite (C u Hne). apply Hoth; exact Hne.
    - rewrite A; exact Hx.
    - rewrite A. exact Hok.
    - rewrite A, B. exact Hcur.
    - rewrite A. exact E.
    - rewrite A. exact F.
    - unfold sholds at 2, lock_of at 2. rewrite A, (nolock_holds _ _ D). exact Hl.
  Qed.


  (* ---------------- lockBucket's CAS and unlockBucket's store ---------------- *)

  (* the CAS succeeds only when nobody holds the lock: the loaded value had bit 0 clear *)
  Lemma cas_free s t tab b v lk : XL s -> h_pc s t = QK_CAS tab b v lk ->
    word_val (sword_at (stab_at s tab) b 0) = word_val v -> lock_of s tab b = None.
  Proof.
    intros HS Hp E. pose proof (xl_pc s HS t) as Hpc. rewrite Hp in Hpc. cbn [PCI] in Hpc. destruct Hpc as (_ & _ & Hv & Hw).
    pose proof (wok_sword_at (tabT (h_tabs s) tab) b 0 (tb_ok_tabT _ tab (xl_tabs s HS))) as Hc.
    pose proof (word_val_even _ Hc) as E1. pose proof (word_val_even _ Hw) as E2.
    unfold lock_of, lockT. change (stab_at s tab) with (tabT (h_tabs s) tab) in E. rewrite E in E1. rewrite E2, Hv in E1.
    destruct (w_lock (sword_at _ _ _)); [discriminate | reflexivity].
  Qed.

  Lemma cas_eff s t tab b v lk ls : XL s -> h_pc s t = QK_CAS tab b v lk ->
    word_val (sword_at (stab_at s tab) b 0) = word_val v ->
    forall m q, after_lock hash idx tophash nslots nstripes
                  (sset_tab s tab (fun tb => sset_word tb b 0 (fun _ => with_lock v (Some t)))) t tab b lk = (m, q) ->
    step_eff s t (fst (sgoto m t q ls)).
  Proof.
    intros HS Hp E m q Ha. pose proof (cas_free s t tab b v lk HS Hp E) as Hfree.
    pose proof (xl_pc s HS t) as Hpc. rewrite Hp in Hpc. cbn [PCI] in Hpc. destruct Hpc as (Hin & Hlk & Hv & Hw).
    destruct (set_lock_tabs (h_tabs s) tab b (with_lock v (Some t)) Hin (xl_tabs s HS) Hw) as [X1 [X2 X3]].
    cbn [with_lock w_lock] in X3.
    set (S1 := sset_tab s tab (fun tb => sset_word tb b 0 (fun _ => with_lock v (Some t)))) in *.
    change (supd_nth (h_tabs s) tab (fun tb : mtable => sset_word tb b 0 (fun _ => with_lock v (Some t)))) with (h_tabs S1) in *.
    assert (Hin1 : inr (h_tabs S1) tab b) by (eapply inr_ext; eassumption).
    assert (Hc1 : h_cur S1 < length (h_tabs S1)) by (destruct X1 as [X1 _]; pose proof (xl_cur s HS); cbn [S1 h_cur sset_tab] in *; lia).
    unfold after_lock in Ha. destruct lk; cbv zeta in Ha.
    - inversion Ha; subst m q.
      apply eff_goto; [exact HS | reflexivity | intros u _; left; reflexivity | exact X1 | exact X2 | exact Hc1 | | ].
      + cbn [PCI]. apply Hin1.
      + apply (LE_acq _ _ _ _ _ tab b); [rewrite Hp; reflexivity | | exact Hfree | exact X3].
        cbn [sholdsT lkok] in *. rewrite Hlk. f_equal. f_equal. destruct X1 as [_ X1]. destruct (X1 tab (proj1 Hin)) as [F1 F2].
        apply shome_ext; assumption.
    - (* copyBucket: the plain copy into the new table *)
      destruct (scopy_chain hash idx tophash nslots (schain_of (stab_at S1 tab) b) (stab_at S1 new)) as [nt copied] eqn:Ec.
      inversion Ha; subst m q. clear Ha.
      assert (Hn : lneutral (tabT (h_tabs S1) new) ((fun _ : mtable => sadd_size nt b copied) (tabT (h_tabs S1) new))).
      { eapply lneutral_trans; [|apply neutral_add_size].
        pose proof (neutral_scopy (schain_of (stab_at S1 tab) b) (stab_at S1 new)) as Hc. rewrite Ec in Hc. exact Hc. }
      destruct (neutral_tabs (h_tabs S1) new _ Hn X2) as [Y1 [Y2 Y3]].
      assert (Hm : m_len (stab_at S1 tab) = m_len (tabT (h_tabs s) tab)) by (destruct X1 as [_ X1]; apply (X1 tab (proj1 Hin))).
      apply eff_goto; [exact HS | reflexivity | intros u _; left; reflexivity | | exact Y2 | | | ].
      + eapply sextT_trans; eassumption.
      + cbn [h_tabs h_cur sset_tab] in *. rewrite supd_nth_length. exact Hc1.
      + cbn [h_tabs sset_tab]. eapply PCI_ext; [exact Y1|].
        assert (Hnew : new < length (h_tabs S1)) by (destruct X1 as [X1 _]; cbn [lkok] in Hlk; lia).
        destruct (S b <? m_len (stab_at S1 tab)) eqn:Eb; cbn [PCI nolock lkok].
        * split; [exact Hin1|]. split; [reflexivity|]. split; [|exact Hnew].
          split; [apply Hin1|]. apply Nat.ltb_lt in Eb. exact Eb.
        * split; [exact Hin1|]. split; [reflexivity | exact Hnew].
      + apply (LE_acq _ _ _ _ _ tab b); [rewrite Hp; reflexivity | reflexivity | exact Hfree |].
        intros tab' b'. cbn [h_tabs sset_tab]. rewrite Y3. apply X3.
    - (* Range: the plain copy of the entries *)
      inversion Ha; subst m q. clear Ha.
      apply eff_goto; [exact HS | reflexivity | intros u _; left; reflexivity | exact X1 | exact X2 | exact Hc1 | | ].
      + destruct (S b <? m_len (stab_at S1 tab)) eqn:Eb; cbn [PCI nolock lkok].
        * split; [exact Hin1|]. split; [reflexivity|]. split; [|exact I].
          split; [apply Hin1|]. apply Nat.ltb_lt in Eb. exact Eb.
        * split; [exact Hin1|]. split; [reflexivity | exact I].
      + apply (LE_acq _ _ _ _ _ tab b); [rewrite Hp; reflexivity | reflexivity | exact Hfree | exact X3].
  Qed.

  Lemma unlock_eff s t tab b v rg after ls : XL s -> h_pc s t = QU_Store tab b v rg after ->
    let S1 := sset_tab s tab (fun tb => sset_word tb b 0 (fun _ => with_lock v None)) in
    step_eff s t (match rg with
                  | None => fst (sgoto S1 t after ls)
                  | Some (snap, vf) => fst (svisits S1 t snap vf after ls)
                  end).
  Proof.
    intros HS Hp S1.
    pose proof (xl_pc s HS t) as Hpc. rewrite Hp in Hpc. cbn [PCI] in Hpc. destruct Hpc as (Hin & Hw & Hn & Ha).
    destruct (set_lock_tabs (h_tabs s) tab b (with_lock v None) Hin (xl_tabs s HS) Hw) as [X1 [X2 X3]].
    cbn [with_lock w_lock] in X3.
    change (supd_nth (h_tabs s) tab (fun tb : mtable => sset_word tb b 0 (fun _ => with_lock v None))) with (h_tabs S1) in *.
    assert (Hc1 : h_cur S1 < length (h_tabs S1)) by (destruct X1 as [X1 _]; pose proof (xl_cur s HS); cbn [S1 h_cur sset_tab] in *; lia).
    assert (Ha1 : PCI (h_tabs S1) t after) by (eapply PCI_ext; eassumption).
    destruct rg as [[snap vf]|].
    - apply eff_visits; [exact HS | reflexivity | intros u _; left; reflexivity | exact X1 | exact X2 | exact Hc1 | exact Hn | exact Ha1 | ].
      apply (LE_rel _ _ _ _ _ tab b); [rewrite Hp; reflexivity | reflexivity | exact X3].
    - apply eff_goto; [exact HS | reflexivity | intros u _; left; reflexivity | exact X1 | exact X2 | exact Hc1 | exact Ha1 | ].
      apply (LE_rel _ _ _ _ _ tab b); [rewrite Hp; reflexivity | apply nolock_holds; exact Hn | exact X3].
  Qed.


  (* ---------------- every step ---------------- *)

  Hypothesis Hidx : forall h len, 0 < len -> idx h len < len.
  Hypothesis Hminlen : 0 < minlen.

  Lemma shome_lt (tb : mtable) k : tb_ok tb -> shome tb k < m_len tb.
  Proof. intros [A _]. unfold XMachineS.shome. apply Hidx. exact A. Qed.


  Lemma some_fst {A B} (g : A * B) a b : Some g = Some (a, b) -> a = fst g.
  Proof. intros H. inversion H. reflexivity. Qed.

  Ltac pci Hok :=
    cbn [PCI nolock lkok]; unfold inr in *;
    repeat match goal with
           | |- _ /\ _ => split
           | |- wok (XMachineS.sword_at _ _ _ _) => apply wok_sword_at; apply (tb_ok_tabT _ _ Hok)
           | |- XMachineS.shome _ _ _ _ < _ => apply shome_lt; apply (tb_ok_tabT _ _ Hok)
           end;
    try reflexivity; try exact I; try assumption; try tauto.

  Theorem sstep_pc_eff s t p s' ls : XL s -> h_pc s t = p -> sstep_pc s t p = Some (s', ls) -> step_eff s t s'.
  Proof.
    intros HS Hp Hs. pose proof (xl_pc s HS t) as Hpc. rewrite Hp in Hpc.
    pose proof (xl_lockA s HS t) as HA. rewrite Hp in HA. unfold sholds in HA.
    pose proof (xl_cur s HS) as Hcur. pose proof (xl_tabs s HS) as Hok.
    destruct p; cbn [XMachineS.sstep_pc] in Hs; cbv zeta in Hs;
      repeat match type of Hs with context [match ?x with _ => _ end] => destruct x eqn:? end;
      try discriminate Hs; apply some_fst in Hs; subst s'; cbn [PCI sholdsT] in Hpc, HA.
    all: try match goal with |- context [srun_cont ?kt] => destruct kt; cbn [srun_cont] end.
    all: try (apply eff_same; [exact HS | reflexivity | reflexivity | intros u Hne; first [left; reflexivity | right; reflexivity]
                               | first [exact Hcur | exact Hpc] | pci Hok | rewrite Hp; reflexivity ]).
    all: try (eapply cas_eff; [exact HS | exact Hp | apply N.eqb_eq; eassumption | eassumption]).
    all: try (exact (unlock_eff s t _ _ _ (Some (_, _)) _ _ HS Hp)).
    all: try (exact (unlock_eff s t _ _ _ None _ _ HS Hp)).
    all: try (eapply eff_neutral;
              [ exact HS | reflexivity | reflexivity | reflexivity | reflexivity
              | first [ apply neutral_set_slot | apply neutral_add_size
                      | eapply lneutral_trans; [apply neutral_set_chain | apply neutral_app_word; [reflexivity | apply wok_store_top, wok_empty]]
                      | apply neutral_set_word;
                        [ intros E0; cbn beta; cbn [erase_top store_top w_lock]; destruct Hpc as (_ & _ & Hw0); rewrite (Hw0 E0);
                          symmetry; apply (HA _ _ eq_refl)
                        | intros ? _; first [apply wok_erase_top | apply wok_store_top]; tauto ] ]
              | pci Hok | rewrite Hp; first [reflexivity | apply nolock_holds; tauto] ]).
    all: try (eapply eff_push;
              [ exact HS | reflexivity | reflexivity | reflexivity | reflexivity
              | apply tb_ok_new | intros; apply lock_new_table | | rewrite Hp; reflexivity ]).
    all: try exact Hminlen.
    all: try (cbn [PCI]; rewrite app_length; cbn [length]; lia).
    all: try match goal with
             | Hb : (_ <? m_len (stab_at ?S ?x)) = true |- _ =>
                 apply Nat.ltb_lt in Hb; change (stab_at S x) with (tabT (h_tabs S) x) in Hb
             end.
    all: try match goal with |- context [m_len (stab_at ?S ?x)] => change (stab_at S x) with (tabT (h_tabs S) x) end.
    all: try lia.
    all: try (destruct (tb_ok_tabT _ tab Hok) as [Hpos _]; lia).
    all: try match goal with Hx : _ /\ (_ = SHGrow \/ _) |- _ => destruct Hx as [_ [Hd|Hd]]; [discriminate|]; apply Nat.div_str_pos; lia end.
    all: try (cbn [PCI lkok]; unfold inr; rewrite app_length; cbn [length]; unfold tabT at 1; rewrite app_nth1 by tauto;
              fold (tabT (h_tabs s) tab); lia).
    - (* the goroutine starts *)
      change (fst (sset_pc s t QIdle, [SStep t SKStart])) with (fst (sgoto s t QIdle [SStep t SKStart])).
      apply eff_same; [exact HS | reflexivity | reflexivity | intros u _; left; reflexivity | exact Hcur | exact I | rewrite Hp; reflexivity].
    - (* the locked scan found the key in bucket bi: the word loaded is that bucket's *)
      intros E0.
      match goal with Hsc : scan_slots _ _ _ _ _ _ _ _ _ = ScFound _ _ |- _ => pose proof (scan_found _ _ _ _ _ _ _ _ _ _ Hsc) as Hf end.
      pose proof (found_bucket bi pos _ Hf (sbucket_slots_length _ _) E0) as ->. apply (HA _ _ eq_refl).
    - intros E0. rewrite E0. apply (HA _ _ eq_refl).
  Qed.


  Lemma sstart_nolock (o : @sop K V) T t : nolock (sstart_pc o) = true /\ PCI T t (sstart_pc o).
  Proof. destruct o; cbn [sstart_pc]; try (split; [reflexivity | exact I]). apply start_cx_nolock. Qed.

  Theorem XL_sstep s t s' ls : XL s -> sstep s t = Some (s', ls) -> XL s'.
  Proof.
    intros HS Hs. unfold XMachineS.sstep in Hs.
    destruct (h_pc s t) eqn:Hp; try (eapply XL_eff; [exact HS | eapply sstep_pc_eff; [exact HS | exact Hp | exact Hs]]).
    destruct (h_todo s t) as [|o rest]; [discriminate|].
    set (s1 := {| h_tabs := h_tabs s; h_cur := h_cur s; h_resizing := h_resizing s; h_rmu := h_rmu s;
                  h_growths := h_growths s; h_shrinks := h_shrinks s; h_alloc := h_alloc s;
                  h_pc := fun t' => if Nat.eq_dec t' t then sstart_pc o else h_pc s t';
                  h_todo := fun t' => if Nat.eq_dec t' t then rest else h_todo s t'; h_frame := h_frame s |}) in *.
    destruct (sstart_nolock o (h_tabs s) t) as [N1 N2].
    assert (Hh : forall u, sholds s1 (h_pc s1 u) = sholds s (h_pc s u)).
    { intros u. unfold sholds. cbn [s1 h_tabs h_pc]. destruct (Nat.eq_dec u t) as [->|]; [|reflexivity].
      rewrite Hp. apply nolock_holds. exact N1. }
    assert (H1 : XL s1).
    { constructor; cbn [s1 h_tabs h_cur h_frame].
      - apply (xl_tabs s HS).
      - apply (xl_cur s HS).
      - intros u. unfold s1. cbn [h_pc]. destruct (Nat.eq_dec u t) as [->|]; [exact N2 | apply (xl_pc s HS)].
      - apply (xl_frame s HS).
      - intros u tab b. rewrite Hh. apply (xl_lockA s HS).
      - intros u tab b Hl. rewrite Hh. apply (xl_lockB s HS u tab b Hl). }
    destruct (sstep_pc s1 t (sstart_pc o)) as [[s2 ls0]|] eqn:E.
    - inversion Hs; subst. eapply XL_eff; [exact H1 | eapply sstep_pc_eff; [exact H1 | | exact E]].
      cbn. destruct (Nat.eq_dec t t); congruence.
    - inversion Hs; subst. exact H1.
  Qed.

  Lemma XL_init len0 todo : 0 < len0 -> XL (sinit nslots seeds nstripes len0 todo).
  Proof.
    clear Hidx Hminlen. intros Hl. constructor; cbn [sinit h_tabs h_cur h_pc h_frame].
    - constructor; [apply tb_ok_new; exact Hl | constructor].
    - cbn. lia.
    - intros t. exact I.
    - intros u f E. discriminate E.
    - intros t tab b E. discriminate E.
    - intros t tab b E. exfalso. unfold lock_of, lockT, tabT in E. cbn [sinit h_tabs] in E.
      destruct tab as [|[|tab]]; cbn [nth] in E; rewrite lock_new_table in E; discriminate E.
  Qed.

  Theorem XL_srun sched : forall s, XL s -> XL (fst (srun s sched)).
  Proof.
    induction sched as [|t rest IH]; intros s H; cbn [XMachineS.srun]; [exact H|].
    destruct (sstep s t) as [[s' ls]|] eqn:E.
    - specialize (IH s' (XL_sstep s t s' ls H E)). destruct (XMachineS.srun _ _ _ _ _ _ _ _ _ _ _ s' rest). exact IH.
    - apply IH. exact H.
  Qed.

  (* the bucket-lock invariant holds in every reachable state, for every schedule *)
  Theorem reachable_XL len0 todo sched : 0 < len0 -> XL (fst (srun (sinit nslots seeds nstripes len0 todo) sched)).
  Proof. intros Hl. apply XL_srun. apply XL_init. exact Hl. Qed.

  (* ---------------- what XL says ---------------- *)

  (* the lock word of a root bucket names t exactly when t stands between lockBucket's CAS and unlockBucket's store on it *)
  Theorem lock_iff s t tab b : XL s -> (lock_of s tab b = Some t <-> sholds s (h_pc s t) = Some (tab, b)).
  Proof. intros HS. split; [apply (xl_lockB s HS) | apply (xl_lockA s HS)]. Qed.

  (* two threads never hold the same bucket lock *)
  Theorem lock_mutex s t t' tab b : XL s ->
    sholds s (h_pc s t) = Some (tab, b) -> sholds s (h_pc s t') = Some (tab, b) -> t = t'.
  Proof. intros HS H1 H2. pose proof (xl_lockA s HS t tab b H1). pose proof (xl_lockA s HS t' tab b H2). congruence. Qed.

  (* a thread holds at most one bucket lock: the words that name it are one root word *)
  Theorem lock_one s t tab b tab' b' : XL s -> lock_of s tab b = Some t -> lock_of s tab' b' = Some t -> tab' = tab /\ b' = b.
  Proof.
    intros HS H1 H2. pose proof (xl_lockB s HS t tab b H1) as A. pose proof (xl_lockB s HS t tab' b' H2) as B.
    rewrite A in B. inversion B. auto.
  Qed.

  (* the continuation carried through unlockBucket / addSize and the Range frame below a visitor's call hold nothing *)
  Theorem lock_conts s t : XL s ->
    (forall tab b rg a, h_pc s t = QU_Load tab b rg a -> nolock a = true)
    /\ (forall tab b v rg a, h_pc s t = QU_Store tab b v rg a -> nolock a = true)
    /\ (forall tab b d a, h_pc s t = QA_Add tab b d a -> nolock a = true)
    /\ (forall fr, h_frame s t = Some fr -> nolock (rf_after fr) = true).
  Proof.
    intros HS. pose proof (xl_pc s HS t) as Hpc.
    split; [|split; [|split]].
    - intros tab b rg a E. rewrite E in Hpc. cbn [PCI] in Hpc. tauto.
    - intros tab b v rg a E. rewrite E in Hpc. cbn [PCI] in Hpc. tauto.
    - intros tab b d a E. rewrite E in Hpc. cbn [PCI] in Hpc. tauto.
    - intros fr E. apply (xl_frame s HS t fr E).
  Qed.

  (* a thread that has returned, or has not started, holds no bucket lock; a held lock has an owner that can release it *)
  Theorem idle_no_lock s t tab b : XL s -> (h_pc s t = QIdle \/ h_pc s t = QStart) -> lock_of s tab b <> Some t.
  Proof.
    intros HS Hp Hl. pose proof (xl_lockB s HS t tab b Hl) as A. destruct Hp as [E|E]; rewrite E in A; discriminate A.
  Qed.

End SLock.
