(* X_stale.v -- what happens to a table of XMachine (MapOf) after it has been replaced.

   [wtab p = Some tab] (X_c04): the thread is a writer PAST its post-lock checks on table
   tab (it has found the table current and the resizing flag clear, and is now scanning /
   storing into its locked chain: PW_D1 D2 U1 I1 I2 Sum N1).

     step_wtab / xstep_wtab   a thread becomes "past its checks" on a table only by the step at
                              PW_ChkTab that finds this table CURRENT; nobody ever becomes
                              past its checks on a table that is not current
     CT, CT_xstep, publish_next   table indices are generations: the tables 0 .. m.table
                              have all been current, in this order; above m.table there
                              is at most the one table under construction; a publish
                              makes table (m.table + 1) current
     publish_grow_quiet       at the publish of a grow / shrink (~ clear_kt kt) no thread
                              is past its checks on the table that is being replaced
     vis_quiet_xstep          a step leaves [vis] of a published table on which the stepping
                              thread is not past its checks unchanged
   and over runs (from any state that satisfies the invariants, hence from every
   reachable state):
     stale_grow_frozen        (a) after the publish of a grow / shrink, in every later
                              state of the run nobody is past its checks on the replaced
                              table, and [vis] of the replaced table is what [abs] was
                              just before the publish
     stale_clear_writers      (b) after the publish of a Clear (of any publish, in fact)
                              every thread that is past its checks on the replaced table
                              in a later state was so, with the same table, in every state
                              since the publish: the replaced table is written only by
                              writers that the Clear overtook *)
From CacheV Require Import Base SpecMap XMachine.
From CacheV.proofs Require Import X_basic X_inv X_c13 X_own X_chain X_c04 X_lin X_resize X_range X_loadhit.
From Coq Require Import NArith.
Local Open Scope nat_scope.

Section Stale.
  Context {K V : Type}.
  Variable eqd : forall a b : K, {a = b} + {a <> b}.
  Variable hash : K -> N -> N.
  Variable idx : N -> nat -> nat.
  Variable tag : N -> N.
  Variable nslots : nat.
  Variable seeds : nat -> N.
  Variable grow_needed : nat -> Z -> bool.
  Variable shrink_policy : nat -> Z -> bool.
  Variable probe : list (option N) -> N -> list nat.
  Variable nstripes : nat -> nat.
  Variable minlen : nat.
  Variable grow_only : bool.

  Hypothesis Hidx : forall h len, 0 < len -> idx h len < len.
  Hypothesis Hstripes : forall len, 0 < nstripes len.
  Hypothesis Hminlen : 0 < minlen.
  Hypothesis Hnslots : 0 < nslots.
  Hypothesis Hprobe_sound : forall tags tg i, In i (probe tags tg) -> i < length tags /\ nth i tags None <> None.
  Hypothesis Hprobe_complete : forall tags tg i, i < length tags -> nth i tags None = Some tg -> In i (probe tags tg).

  Notation xtable := (@xtable K V).
  Notation xstate := (@xstate K V).
  Notation pc := (@pc K V).
  Notation xop := (@xop K V).
  Notation xlabel := (@xlabel K V).
  Notation tab_at := (@tab_at K V nslots nstripes).
  Notation step_pc := (@step_pc K V eqd hash idx tag nslots seeds grow_needed shrink_policy probe nstripes minlen grow_only).
  Notation xstep := (@xstep K V eqd hash idx tag nslots seeds grow_needed shrink_policy probe nstripes minlen grow_only).
  Notation xrun := (@xrun K V eqd hash idx tag nslots seeds grow_needed shrink_policy probe nstripes minlen grow_only).
  Notation XInv := (@X_inv.XInv K V hash idx nslots nstripes).
  Notation XT := (@X_own.XT K V).
  Notation XC := (@X_c04.XC K V hash idx tag nslots nstripes).
  Notation XI5 := (@X_resize.XI5 K V hash idx tag nslots nstripes).
  Notation vis := (@X_lin.vis K V hash idx).
  Notation abs := (@X_resize.abs K V hash idx nslots nstripes).
  Notation valid := (@valid K V hash idx nslots nstripes).
  Notation wtab := (@X_c04.wtab K V).
  Notation along := (@X_range.along K V eqd hash idx tag nslots seeds grow_needed shrink_policy probe nstripes minlen grow_only).
  Notation XI5_xstep := (@X_resize.XI5_xstep K V eqd hash idx tag nslots seeds grow_needed shrink_policy probe nstripes minlen grow_only
                           Hidx Hstripes Hminlen Hnslots Hprobe_sound Hprobe_complete).

  (* ---------------- one xstep = (the invocation, for an idle thread) + one step_pc ---------------- *)

  (* the state just after the invocation of o by the idle thread t *)
  Definition invoke (s : xstate) (t : nat) (o : xop) (rest : list xop) : xstate :=
    {| g_tabs := g_tabs s; g_cur := g_cur s; g_resizing := g_resizing s; g_rmu := g_rmu s;
       g_growths := g_growths s; g_shrinks := g_shrinks s;
       g_pc := fun t' => if Nat.eq_dec t' t then start_pc o else g_pc s t';
       g_todo := fun t' => if Nat.eq_dec t' t then rest else g_todo s t' |}.

  Lemma start_never_blocks (s1 : xstate) t o : step_pc s1 t (start_pc o) <> None.
  Proof. destruct o; cbn; try discriminate. destruct lie; cbn; discriminate. Qed.

  Lemma xstep_split s t s' ls : xstep s t = Some (s', ls) ->
    (g_pc s t <> PIdle /\ step_pc s t (g_pc s t) = Some (s', ls))
    \/ (g_pc s t = PIdle /\ exists o rest ls0, g_todo s t = o :: rest /\ ls = XMachine.XInv t o :: ls0
          /\ step_pc (invoke s t o rest) t (start_pc o) = Some (s', ls0)).
  Proof.
    intros E. unfold XMachine.xstep in E.
    destruct (g_pc s t) eqn:Hp; try (left; split; [discriminate | exact E]).
    right. split; [reflexivity|]. destruct (g_todo s t) as [|o rest]; [discriminate|].
    change (match step_pc (invoke s t o rest) t (start_pc o) with
            | Some (s2, ls0) => Some (s2, XMachine.XInv t o :: ls0)
            | None => Some (invoke s t o rest, [XMachine.XInv t o])
            end = Some (s', ls)) in E.
    destruct (step_pc (invoke s t o rest) t (start_pc o)) as [[s2 ls0]|] eqn:E2.
    - inversion E; subst. exists o, rest, ls0. auto.
    - exfalso. exact (start_never_blocks _ _ _ E2).
  Qed.

  Lemma invoke_pc s t o rest u : g_pc (invoke s t o rest) u = if Nat.eq_dec u t then start_pc o else g_pc s u.
  Proof. reflexivity. Qed.

  Lemma invoke_inv3 s t o rest : XInv s -> XT s -> XC s -> g_pc s t = PIdle ->
    XInv (invoke s t o rest) /\ XT (invoke s t o rest) /\ XC (invoke s t o rest).
  Proof.
    intros HI HT HC Hp.
    exact (X_resize.invoke_inv hash idx tag nslots seeds grow_needed nstripes minlen Hminlen Hnslots s t o rest HI HT HC Hp).
  Qed.

  Lemma some_pair7 {A B} (g : A * B) a b : Some g = Some (a, b) -> a = fst g /\ b = snd g.
  Proof. intros H. inversion H. auto. Qed.
  Lemma goto_state7 (s : xstate) t p ls : fst (goto s t p ls) = set_pc s t (norm p).
  Proof. destruct p; reflexivity. Qed.
  Lemma set_pc_same7 (S0 : xstate) u (q : pc) : g_pc (set_pc S0 u q) u = q.
  Proof. cbn [set_pc g_pc]. destruct (Nat.eq_dec u u) as [_|Hc]; [reflexivity | exfalso; apply Hc; reflexivity]. Qed.

  Ltac step_cases7 Hs :=
    cbn [XMachine.step_pc] in Hs; cbv zeta in Hs;
    repeat match type of Hs with
           | context [match ?x with _ => _ end] => destruct x eqn:?
           end;
    try discriminate; apply some_pair7 in Hs; destruct Hs as [? ?]; subst;
    rewrite ?goto_state7; cbn [fst].

  (* ---------------- becoming "past the checks" ---------------- *)

  Lemma wtab_norm (q : pc) : wtab (norm q) = wtab q.
  Proof. destruct q; reflexivity. Qed.
  Lemma wtab_wake (q : pc) : wtab (wake q) = wtab q.
  Proof. destruct q; reflexivity. Qed.

  Lemma quiet_wtab (q : pc) : quiet hash idx nslots nstripes q -> wtab q = None.
  Proof.
    intros [Q1 _]. specialize (Q1 (xinit nslots seeds nstripes 1 (fun _ => []))).
    destruct q; cbn in *; try reflexivity; discriminate.
  Qed.

  Lemma step_wtab s t p s' ls j : valid s p -> step_pc s t p = Some (s', ls) -> wtab (g_pc s' t) = Some j ->
    wtab p = Some j \/ (exists cx, p = PW_ChkTab cx j) /\ g_cur s = j.
  Proof.
    intros Hv Hs Hw.
    destruct p; step_cases7 Hs; rewrite ?goto_state7 in Hw; cbn [fst] in Hw; rewrite set_pc_same7 in Hw; rewrite ?wtab_norm in Hw;
      cbn [X_c04.wtab valid] in *; try discriminate Hw;
      try (match type of Hw with context [run_cont ?kt] => destruct kt; cbn in Hw; discriminate Hw end);
      try (match type of Hw with context [match ?x with _ => _ end] => destruct x; cbn in Hw; try discriminate Hw end);
      try (match type of Hw with context [run_cont ?kt] => destruct kt; cbn in Hw; discriminate Hw end).
    all: try (left; exact Hw).
    all: try (inversion Hw; subst; right; split; [eexists; reflexivity|];
              match goal with H : negb (Nat.eqb _ _) = false |- _ => apply Bool.negb_false_iff, Nat.eqb_eq in H; exact H end).
    all: try (exfalso; destruct Hv as [_ [_ [_ Hq]]]; apply quiet_wtab in Hq; congruence).
  Qed.

  Lemma start_wtab o : wtab (@start_pc K V o) = None.
  Proof. destruct o; cbn; try reflexivity. destruct lie; reflexivity. Qed.

  Lemma start_valid (s1 : xstate) o : valid s1 (start_pc o).
  Proof. destruct o; cbn; auto. destruct lie; cbn; auto. Qed.

  Notation xstep_others := (@X_loadhit.xstep_others K V eqd hash idx tag nslots seeds grow_needed shrink_policy probe nstripes minlen grow_only).

  (* a thread becomes past its checks on a table only by the ChkTab step that finds the table current *)
  Theorem xstep_wtab s t s' ls u j : XInv s -> xstep s t = Some (s', ls) -> wtab (g_pc s' u) = Some j ->
    wtab (g_pc s u) = Some j \/ (u = t /\ g_cur s = j /\ exists cx, g_pc s t = PW_ChkTab cx j).
  Proof.
    intros HI E Hw. destruct (Nat.eq_dec u t) as [->|Hne].
    - destruct (xstep_split s t s' ls E) as [[Hn Es]|[Hp [o [rest [ls0 [Et [El Es]]]]]]].
      + destruct (step_wtab s t _ s' ls j (xi_valid _ _ _ _ s HI t) Es Hw) as [H|[[cx H] Hc]]; [left; exact H|].
        right. split; [reflexivity|]. split; [exact Hc|]. exists cx. exact H.
      + exfalso. destruct (step_wtab (invoke s t o rest) t _ s' ls0 j (start_valid _ o) Es Hw) as [H|[[cx H] _]].
        * rewrite start_wtab in H. discriminate.
        * destruct o; cbn in H; try discriminate. destruct lie; discriminate.
    - left. destruct (xstep_others s t s' ls HI E u Hne) as [E0|E0]; rewrite E0 in Hw; [exact Hw|].
      rewrite wtab_wake in Hw. exact Hw.
  Qed.

  (* nobody becomes past its checks on a table that is not current *)
  Corollary xstep_wtab_stale s t s' ls u j : XInv s -> xstep s t = Some (s', ls) -> j <> g_cur s ->
    wtab (g_pc s' u) = Some j -> wtab (g_pc s u) = Some j.
  Proof.
    intros HI E Hne Hw. destruct (xstep_wtab s t s' ls u j HI E Hw) as [H|[_ [Hc _]]]; [exact H|]. congruence.
  Qed.

  (* ---------------- table indices are generations ---------------- *)

  Definition CT (s : xstate) : Prop :=
    forall j, g_cur s < j < length (g_tabs s) -> exists t, newtab (g_pc s t) = Some j.

  Lemma CT_next s t new : XT s -> CT s -> newtab (g_pc s t) = Some new -> new = S (g_cur s).
  Proof.
    intros HT HC En. destruct (xt_new s HT t new En) as [A B].
    destruct (Nat.eq_dec new (S (g_cur s))) as [E|Hne]; [exact E|]. exfalso.
    destruct (HC (S (g_cur s))) as [u Eu]; [lia|].
    destruct (xt_new s HT u _ Eu) as [A' _]. lia.
  Qed.

  Lemma CT_len s : XInv s -> XT s -> CT s ->
    length (g_tabs s) = S (g_cur s) \/ (length (g_tabs s) = S (S (g_cur s)) /\ exists t, newtab (g_pc s t) = Some (S (g_cur s))).
  Proof.
    intros HI HT HC. pose proof (xi_cur _ _ _ _ s HI) as Hc.
    destruct (Nat.eq_dec (length (g_tabs s)) (S (g_cur s))) as [E|Hne]; [left; exact E|]. right.
    destruct (HC (S (g_cur s))) as [u Eu]; [lia|]. destruct (xt_new s HT u _ Eu) as [A _].
    split; [lia | exists u; exact Eu].
  Qed.

  (* what one step does to the list of tables and to the stepping thread's table under construction *)
  Lemma step_tabs s t p s' ls : valid s p -> step_pc s t p = Some (s', ls) ->
    (length (g_tabs s') = length (g_tabs s)
     /\ forall new, newtab p = Some new -> newtab (g_pc s' t) = Some new \/ exists kt, p = PR_Publish kt new)
    \/ (length (g_tabs s') = S (length (g_tabs s)) /\ resizer p = true /\ newtab p = None
        /\ newtab (g_pc s' t) = Some (length (g_tabs s))).
  Proof.
    intros Hv Hs.
    destruct p; step_cases7 Hs; rewrite ?set_pc_same7, ?norm_newtab; cbn [newtab resizer];
      try (left; split; [cbn [set_pc set_tab set_flags g_tabs]; rewrite ?upd_nth_length; reflexivity | intros ? E; try discriminate E]).
    all: try (left; inversion E; subst; reflexivity).
    all: try (inversion E; subst; right; eexists; reflexivity).
    all: try (right; split; [cbn [set_pc push_tab g_tabs]; rewrite app_length; cbn; lia|]; split; [reflexivity|]; split; reflexivity).
  Qed.

  Lemma CT_step_pc s t p s' ls : XInv s -> XT s -> CT s -> g_pc s t = p -> step_pc s t p = Some (s', ls) -> CT s'.
  Proof.
    intros HI HT HC Hp Hs.
    pose proof (xi_valid _ _ _ _ s HI t) as Hv. rewrite Hp in Hv.
    destruct (step_misc eqd hash idx tag nslots seeds grow_needed shrink_policy probe nstripes minlen grow_only s t p s' ls Hs Hv)
      as [Hcur [_ [_ Hoth]]].
    assert (Hnt : forall u new, u <> t -> newtab (g_pc s u) = Some new -> newtab (g_pc s' u) = Some new).
    { intros u new Hne En. destruct (Hoth u Hne) as [E|E]; rewrite E; [exact En | rewrite wake_newtab; exact En]. }
    intros j Hj.
    destruct (step_tabs s t p s' ls Hv Hs) as [[Hlen Hnew]|[Hlen [Hr [Hnn Hnew]]]].
    - destruct Hcur as [Hcur|[kt [new [Ep Hcur]]]].
      + rewrite Hcur, Hlen in Hj. destruct (HC j Hj) as [u Eu]. destruct (Nat.eq_dec u t) as [->|Hne].
        * rewrite Hp in Eu. destruct (Hnew j Eu) as [H|[kt H]]; [exists t; exact H|].
          exfalso. rewrite H in Hs. cbn [XMachine.step_pc] in Hs. apply some_pair7 in Hs. destruct Hs as [Hs1 _].
          rewrite Hs1, goto_state7 in Hcur. cbn in Hcur.
          assert (En : newtab (g_pc s t) = Some j) by (rewrite Hp; exact Eu).
          destruct (xt_new s HT t j En). lia.
        * exists u. apply Hnt; assumption.
      + exfalso. assert (En : newtab (g_pc s t) = Some new) by (rewrite Hp, Ep; reflexivity).
        destruct (xt_new s HT t new En) as [A B]. rewrite Hcur, Hlen in Hj. lia.
    - assert (Hcur' : g_cur s' = g_cur s).
      { destruct Hcur as [H|[kt [new [Ep _]]]]; [exact H|]. rewrite Ep in Hnn. discriminate Hnn. }
      rewrite Hcur', Hlen in Hj.
      destruct (Nat.eq_dec j (length (g_tabs s))) as [->|Hne]; [exists t; exact Hnew|].
      exfalso. destruct (HC j) as [u Eu]; [lia|].
      assert (Hru : resizer (g_pc s u) = true) by (eapply newtab_resizer; exact Eu).
      assert (Hrt : resizer (g_pc s t) = true) by (rewrite Hp; exact Hr).
      assert (u = t) by (apply (xi_rzB _ _ _ _ s HI u t Hru Hrt)). subst u. rewrite Hp, Hnn in Eu. discriminate.
  Qed.

  Lemma start_newtab o : newtab (@start_pc K V o) = None.
  Proof. destruct o; cbn; try reflexivity. destruct lie; reflexivity. Qed.

  Lemma CT_invoke s t o rest : CT s -> g_pc s t = PIdle -> CT (invoke s t o rest).
  Proof.
    intros HC Hp j Hj. cbn [invoke g_cur g_tabs] in Hj. destruct (HC j Hj) as [u Eu]. exists u.
    rewrite invoke_pc. destruct (Nat.eq_dec u t) as [->|]; [rewrite Hp in Eu; discriminate Eu | exact Eu].
  Qed.

  Theorem CT_xstep s t s' ls : XInv s -> XT s -> XC s -> CT s -> xstep s t = Some (s', ls) -> CT s'.
  Proof.
    intros HI HT HX HC E.
    destruct (xstep_split s t s' ls E) as [[Hn Es]|[Hp [o [rest [ls0 [Et [El Es]]]]]]].
    - eapply CT_step_pc; [exact HI | exact HT | exact HC | reflexivity | exact Es].
    - destruct (invoke_inv3 s t o rest HI HT HX Hp) as [HI1 [HT1 _]].
      eapply (CT_step_pc (invoke s t o rest) t (start_pc o)); [exact HI1 | exact HT1 | apply CT_invoke; assumption | | exact Es].
      rewrite invoke_pc. destruct (Nat.eq_dec t t); congruence.
  Qed.

  Lemma CT_init len0 todo : CT (xinit nslots seeds nstripes len0 todo).
  Proof. intros j Hj. cbn in Hj. lia. Qed.

  (* the store that publishes a table makes the next generation current *)
  Theorem publish_next s t kt new s' ls : XT s -> CT s -> g_pc s t = PR_Publish kt new -> xstep s t = Some (s', ls) ->
    new = S (g_cur s) /\ g_cur s' = S (g_cur s) /\ g_tabs s' = g_tabs s.
  Proof.
    intros HT HC Hp E. assert (En : newtab (g_pc s t) = Some new) by (rewrite Hp; reflexivity).
    pose proof (CT_next s t new HT HC En) as ->.
    unfold XMachine.xstep in E. rewrite Hp in E. cbn [XMachine.step_pc] in E. inversion E; subst. auto.
  Qed.

  (* ---------------- the publish of a grow / shrink finds nobody at work on the old table ---------------- *)

  Lemma wtab_committed (p : pc) j : wtab p = Some j -> exists k, X_resize.committed p = Some (j, k).
  Proof. destruct p; cbn; intros E; try discriminate E; inversion E; subst; eexists; reflexivity. Qed.

  Theorem publish_grow_quiet s t kt new : XI5 s -> g_pc s t = PR_Publish kt new -> ~ clear_kt kt ->
    forall u, wtab (g_pc s u) <> Some (g_cur s).
  Proof.
    intros [_ [_ HR]] Hp Hnc u Hw.
    destruct (xr_publish _ _ _ _ s HR t kt new Hp) as [[Hc _]|[_ [_ Hno]]]; [exact (Hnc Hc)|].
    destruct (wtab_committed _ _ Hw) as [k Hk]. exact (Hno u k Hk).
  Qed.

  (* ---------------- a table nobody is at work on does not change ---------------- *)

  Lemma lin_wtab (p : pc) j e : lin_effect p j = Some e -> wtab p = Some j.
  Proof.
    destruct p; cbn; intros E; try discriminate E; destruct (Nat.eq_dec tab j); try discriminate E; subst; reflexivity.
  Qed.

  Lemma published_le s j : XInv s -> XT s -> j <= g_cur s ->
    j < length (g_tabs s) /\ forall u, newtab (g_pc s u) <> Some j.
  Proof.
    intros HI HT Hj. pose proof (xi_cur _ _ _ _ s HI). split; [lia|].
    intros u Eu. destruct (xt_new s HT u j Eu) as [_ B]. lia.
  Qed.

  Theorem vis_quiet_xstep s t s' ls j : XI5 s -> xstep s t = Some (s', ls) -> j <= g_cur s ->
    wtab (g_pc s t) <> Some j -> forall k v, vis (tab_at s' j) k v <-> vis (tab_at s j) k v.
  Proof.
    intros [[HI [_ [HT HC]]] _] E Hj Hw k v. destruct (published_le s j HI HT Hj) as [Hlt Hpub].
    rewrite (vis_xstep eqd hash idx tag nslots seeds grow_needed shrink_policy probe nstripes minlen grow_only Hidx Hminlen Hnslots
               s t s' ls j k v HI HT HC E Hlt Hpub).
    destruct (lin_effect (g_pc s t) j) as [e|] eqn:El; [|reflexivity].
    exfalso. apply Hw. eapply lin_wtab. exact El.
  Qed.

  (* the current table index never decreases *)
  Lemma xstep_cur_mono s t s' ls : XI5 s -> CT s -> xstep s t = Some (s', ls) -> g_cur s <= g_cur s'.
  Proof.
    intros [[HI [_ [HT HC]]] _] HCT E.
    destruct (g_pc s t) eqn:Hp;
      try (rewrite (xstep_cur eqd hash idx tag nslots seeds grow_needed shrink_policy probe nstripes minlen grow_only s t s' ls HI E); [lia|];
           rewrite Hp; intros; discriminate).
    match goal with Hq : g_pc s t = PR_Publish ?kt ?new |- _ => destruct (publish_next s t kt new s' ls HT HCT Hq E) as [_ [H _]] end. lia.
  Qed.

  (* ---------------- over runs ---------------- *)

  Definition SI (s : xstate) : Prop := XI5 s /\ CT s.

  Lemma SI_xstep s t s' ls : SI s -> xstep s t = Some (s', ls) -> SI s'.
  Proof.
    intros [H5 HC] E. split; [eapply XI5_xstep; eassumption|].
    destruct H5 as [[HI [_ [HT HX]]] _]. eapply CT_xstep; eassumption.
  Qed.

  Lemma SI_reachable len0 todo sched : 0 < len0 -> SI (fst (xrun (xinit nslots seeds nstripes len0 todo) sched)).
  Proof.
    intros Hl. assert (H0 : SI (xinit nslots seeds nstripes len0 todo)).
    { split; [|apply CT_init].
      exact (reachable_inv5 eqd hash idx tag nslots seeds grow_needed shrink_policy probe nstripes minlen grow_only
               Hidx Hstripes Hminlen Hnslots Hprobe_sound Hprobe_complete len0 todo [] Hl). }
    generalize (xinit nslots seeds nstripes len0 todo) H0. clear H0.
    induction sched as [|t r IH]; intros s H; cbn [XMachine.xrun]; [exact H|].
    destruct (xstep s t) as [[s' ls]|] eqn:E.
    - specialize (IH s' (SI_xstep s t s' ls H E)).
      destruct (XMachine.xrun _ _ _ _ _ _ _ _ _ _ _ _ s' r) as [s'' ls']. exact IH.
    - apply IH. exact H.
  Qed.

  (* a property that holds now and is kept by every step (of states satisfying SI) holds along every run *)
  Lemma along_inductive (P : xstate -> Prop) :
    (forall s t s' ls, SI s -> P s -> xstep s t = Some (s', ls) -> P s') ->
    forall sched s, SI s -> P s -> along P s sched.
  Proof.
    intros Hstep. induction sched as [|u r IH]; intros s HS HP; cbn [X_range.along]; (split; [exact HP|]); [exact I|].
    destruct (xstep s u) as [[s' ls]|] eqn:E.
    - apply IH; [eapply SI_xstep; eassumption | eapply Hstep; eassumption].
    - apply IH; assumption.
  Qed.

  Lemma along_weaken (P Q : xstate -> Prop) : (forall s, P s -> Q s) -> forall sched s, along P s sched -> along Q s sched.
  Proof.
    intros HPQ. induction sched as [|u r IH]; intros s [H Hr]; cbn [X_range.along]; (split; [apply HPQ; exact H|]); [exact I|].
    destruct (xstep s u) as [[s' ls]|]; apply IH; exact Hr.
  Qed.

  (* (a) after the publish of a grow / shrink: the replaced table is dead *)
  Theorem stale_grow_frozen s t kt new s1 ls sched : SI s -> g_pc s t = PR_Publish kt new -> ~ clear_kt kt ->
    xstep s t = Some (s1, ls) ->
    along (fun s' => (forall u, wtab (g_pc s' u) <> Some (g_cur s))
                     /\ forall k v, vis (tab_at s' (g_cur s)) k v <-> abs s k v) s1 sched.
  Proof.
    intros [H5 HCT] Hp Hnc E. pose proof H5 as [[HI [_ [HT HC]]] _].
    destruct (publish_next s t kt new s1 ls HT HCT Hp E) as [-> [Hc1 Ht1]].
    set (old := g_cur s) in *.
    apply (along_weaken (fun s' => old < g_cur s' /\ (forall u, wtab (g_pc s' u) <> Some old)
                                   /\ forall k v, vis (tab_at s' old) k v <-> abs s k v)); [intros s2 [_ H]; exact H|].
    apply along_inductive.
    - intros s2 u s3 ls3 [H52 HC2] [Hlt [Hq Hv]] E2. pose proof H52 as [[HI2 _] _].
      pose proof (xstep_cur_mono s2 u s3 ls3 H52 HC2 E2) as Hm.
      split; [lia|]. split.
      + intros w Hw. apply (Hq w). eapply xstep_wtab_stale; [exact HI2 | exact E2 | lia | exact Hw].
      + intros k v. rewrite <- Hv. apply (vis_quiet_xstep s2 u s3 ls3 old H52 E2); [lia | apply Hq].
    - eapply SI_xstep; [split; eassumption | exact E].
    - assert (Hq : forall u, wtab (g_pc s u) <> Some old) by (apply (publish_grow_quiet s t kt (S old) H5 Hp Hnc)).
      split; [lia|]. split.
      + intros u Hw. destruct (xstep_wtab s t s1 ls u old HI E Hw) as [H|[_ [_ [cx H]]]]; [exact (Hq u H)|].
        rewrite Hp in H. discriminate.
      + intros k v. unfold X_resize.abs. fold old. apply (vis_quiet_xstep s t s1 ls old H5 E); [unfold old; lia | apply Hq].
  Qed.

  (* (b) after any publish (in particular that of a Clear): whoever is past its checks on the replaced
     table later was so at the publish already and has been ever since *)
  Theorem stale_clear_writers s t kt new s1 ls sched : SI s -> g_pc s t = PR_Publish kt new ->
    xstep s t = Some (s1, ls) ->
    forall u, wtab (g_pc (fst (xrun s1 sched)) u) = Some (g_cur s) ->
      wtab (g_pc s u) = Some (g_cur s) /\ along (fun s' => wtab (g_pc s' u) = Some (g_cur s)) s1 sched.
  Proof.
    intros [H5 HCT] Hp E u. pose proof H5 as [[HI [_ [HT HC]]] _].
    destruct (publish_next s t kt new s1 ls HT HCT Hp E) as [-> [Hc1 Ht1]].
    set (old := g_cur s) in *.
    assert (HS1 : SI s1) by (eapply SI_xstep; [split; eassumption | exact E]).
    assert (Hlt : old < g_cur s1) by lia.
    assert (Hgen : forall sch s2, SI s2 -> old < g_cur s2 -> wtab (g_pc (fst (xrun s2 sch)) u) = Some old ->
                   along (fun s' => wtab (g_pc s' u) = Some old) s2 sch).
    { clear Hlt HS1 Hc1 Ht1 E Hp. induction sch as [|w r IH]; intros s2 HS2 Hlt2 Hw; cbn [XMachine.xrun X_range.along] in *.
      - split; [exact Hw | exact I].
      - destruct (xstep s2 w) as [[s3 ls3]|] eqn:E3.
        + pose proof HS2 as [H52 HC2]. pose proof H52 as [[HI2 _] _].
          assert (Hlt3 : old < g_cur s3) by (pose proof (xstep_cur_mono s2 w s3 ls3 H52 HC2 E3); lia).
          assert (Hw3 : wtab (g_pc (fst (xrun s3 r)) u) = Some old).
          { destruct (XMachine.xrun _ _ _ _ _ _ _ _ _ _ _ _ s3 r) as [s4 ls4]. exact Hw. }
          pose proof (IH s3 (SI_xstep s2 w s3 ls3 HS2 E3) Hlt3 Hw3) as Hal.
          split; [|exact Hal].
          assert (H3 : wtab (g_pc s3 u) = Some old) by (destruct r; cbn [X_range.along] in Hal; apply Hal).
          eapply xstep_wtab_stale; [exact HI2 | exact E3 | lia | exact H3].
        + pose proof (IH s2 HS2 Hlt2 Hw) as Hal. split; [|exact Hal]. destruct r; cbn [X_range.along] in Hal; apply Hal. }
    intros Hw. pose proof (Hgen sched s1 HS1 Hlt Hw) as Hal. split; [|exact Hal].
    assert (H1 : wtab (g_pc s1 u) = Some old) by (destruct sched; cbn [X_range.along] in Hal; apply Hal).
    destruct (xstep_wtab s t s1 ls u old HI E H1) as [H|[_ [_ [cx H]]]]; [exact H|]. rewrite Hp in H. discriminate.
  Qed.

End Stale.

(* ---------------- statements for every reachable state, under xhyps4 ---------------- *)
Section Final.
  Context {K V : Type}.
  Variable eqd : forall a b : K, {a = b} + {a <> b}.
  Variable hash : K -> N -> N.
  Variable idx : N -> nat -> nat.
  Variable tag : N -> N.
  Variable nslots : nat.
  Variable seeds : nat -> N.
  Variable grow_needed shrink_policy : nat -> Z -> bool.
  Variable probe : list (option N) -> N -> list nat.
  Variable nstripes : nat -> nat.
  Variable minlen : nat.
  Variable grow_only : bool.

  Notation xrun := (@xrun K V eqd hash idx tag nslots seeds grow_needed shrink_policy probe nstripes minlen grow_only).
  Notation xstep := (@xstep K V eqd hash idx tag nslots seeds grow_needed shrink_policy probe nstripes minlen grow_only).
  Notation along := (@X_range.along K V eqd hash idx tag nslots seeds grow_needed shrink_policy probe nstripes minlen grow_only).
  Notation abs := (@X_resize.abs K V hash idx nslots nstripes).
  Notation vis := (@X_lin.vis K V hash idx).
  Notation tab_at := (@tab_at K V nslots nstripes).
  Notation wtab := (@X_c04.wtab K V).

  (* (a) *)
  Theorem stale_grow_frozen_proof :
    xhyps4 idx nstripes minlen nslots probe -> forall len0 todo sched0 t kt new s1 ls sched, 0 < len0 ->
    let s := fst (xrun (xinit nslots seeds nstripes len0 todo) sched0) in
    g_pc s t = PR_Publish kt new -> ~ clear_kt kt -> xstep s t = Some (s1, ls) ->
    g_cur s1 = S (g_cur s) /\
    along (fun s' => (forall u, wtab (g_pc s' u) <> Some (g_cur s))
                     /\ forall k v, vis (tab_at s' (g_cur s)) k v <-> abs s k v) s1 sched.
  Proof.
    intros [[H1 [H2 H3]] [H4 [H5 H6]]] len0 todo sched0 t kt new s1 ls sched Hl s Hp Hnc E.
    pose proof (SI_reachable eqd hash idx tag nslots seeds grow_needed shrink_policy probe nstripes minlen grow_only
                  H1 H2 H3 H4 H5 H6 len0 todo sched0 Hl) as HS. fold s in HS.
    split.
    - destruct HS as [[[_ [_ [HT _]]] _] HC].
      destruct (publish_next eqd hash idx tag nslots seeds grow_needed shrink_policy probe nstripes minlen grow_only H3 H4 s t kt new s1 ls HT HC Hp E) as [_ [A _]].
      exact A.
    - exact (stale_grow_frozen eqd hash idx tag nslots seeds grow_needed shrink_policy probe nstripes minlen grow_only
               H1 H2 H3 H4 H5 H6 s t kt new s1 ls sched HS Hp Hnc E).
  Qed.

  (* (b) *)
  Theorem stale_clear_writers_proof :
    xhyps4 idx nstripes minlen nslots probe -> forall len0 todo sched0 t kt new s1 ls sched u, 0 < len0 ->
    let s := fst (xrun (xinit nslots seeds nstripes len0 todo) sched0) in
    g_pc s t = PR_Publish kt new -> xstep s t = Some (s1, ls) ->
    wtab (g_pc (fst (xrun s1 sched)) u) = Some (g_cur s) ->
    wtab (g_pc s u) = Some (g_cur s) /\ along (fun s' => wtab (g_pc s' u) = Some (g_cur s)) s1 sched.
  Proof.
    intros [[H1 [H2 H3]] [H4 [H5 H6]]] len0 todo sched0 t kt new s1 ls sched u Hl s Hp E.
    pose proof (SI_reachable eqd hash idx tag nslots seeds grow_needed shrink_policy probe nstripes minlen grow_only
                  H1 H2 H3 H4 H5 H6 len0 todo sched0 Hl) as HS. fold s in HS.
    exact (stale_clear_writers eqd hash idx tag nslots seeds grow_needed shrink_policy probe nstripes minlen grow_only
             H1 H2 H3 H4 H5 H6 s t kt new s1 ls sched HS Hp E u).
  Qed.

  (* nobody ever becomes past its checks on a table that is not current *)
  Theorem no_commit_on_stale_proof :
    xhyps4 idx nstripes minlen nslots probe -> forall len0 todo sched0 t s1 ls u j, 0 < len0 ->
    let s := fst (xrun (xinit nslots seeds nstripes len0 todo) sched0) in
    xstep s t = Some (s1, ls) -> j <> g_cur s -> wtab (g_pc s1 u) = Some j -> wtab (g_pc s u) = Some j.
  Proof.
    intros [[H1 [H2 H3]] [H4 [H5 H6]]] len0 todo sched0 t s1 ls u j Hl s E Hne Hw.
    pose proof (SI_reachable eqd hash idx tag nslots seeds grow_needed shrink_policy probe nstripes minlen grow_only
                  H1 H2 H3 H4 H5 H6 len0 todo sched0 Hl) as [[[HI _] _] _]. fold s in HI.
    exact (xstep_wtab_stale eqd hash idx tag nslots seeds grow_needed shrink_policy probe nstripes minlen grow_only
             s t s1 ls u j HI E Hne Hw).
  Qed.
End Final.

Print Assumptions stale_grow_frozen_proof.
Print Assumptions stale_clear_writers_proof.
Print Assumptions no_commit_on_stale_proof.
