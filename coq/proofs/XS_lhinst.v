(* XS_lhinst.v -- the executable instance of XMachineS (XExecS) has the reader
   theorem of XS_loadhit.v (oracle hashes being 64-bit values); non-vacuity: a
   reader that has loaded the bucket word, a deleter that has then cleared the
   presence bit, the reader still returning the value. *)
From CacheV Require Import Base SpecMap XMachineS TabExec Exec XExec XExecS.
From CacheV.gen Require Import Params.
From CacheV.proofs Require Import X_maps X_inst XS_lock XS_inv XS_own XS_count XS_inst XS_cells XS_vis XS_abs XS_cinst XS_read XS_loadhit.
From Coq Require Import NArith Lia.

Lemma s_instance_lhhyps o hint : oracle64 o -> lhhyps (hash_of o) idx_map tag_map (nslots_of false) (minlen_of_hint false hint).
Proof.
  intros Ho. destruct (s_instance_hyps_cells o hint Ho) as [[H1 [H2 H3]] [H4 H5]].
  split; [split; assumption|]. split; [exact H5|]. split; assumption.
Qed.

Notation s_srunL o seeds hint :=
  (srun zeqd (hash_of o) idx_map tag_map (nslots_of false) (seeds_of seeds) grow_needed_s shrink_policy_s
        nstripes_x (minlen_of_hint false hint) false).
Notation s_salong o seeds hint :=
  (salong zeqd (hash_of o) idx_map tag_map (nslots_of false) (seeds_of seeds) grow_needed_s shrink_policy_s
          nstripes_x (minlen_of_hint false hint) false).
Notation s_sever o seeds hint :=
  (sever zeqd (hash_of o) idx_map tag_map (nslots_of false) (seeds_of seeds) grow_needed_s shrink_policy_s
         nstripes_x (minlen_of_hint false hint) false).

(* the extracted Map machine, every schedule: from any reachable state in which thread t is about to load a bucket word
   (or a next pointer) of its lookup of k in table tab, while it stays in that lookup, a step of t that returns v
   means (k, v) was visible in table tab in some state the run went through *)
Theorem s_machine_load_hit (o : oracle) (seeds : list N) (hint : Z) (todo : nat -> list sop_z) (sched0 sched : list nat)
        t k lc tab v s2 ls2 : oracle64 o ->
  let s := fst (s_srunL o seeds hint (s_machine_init seeds hint todo) sched0) in
  s_salong o seeds hint (inlookup (hash_of o) (nslots_of false) nstripes_x t k lc tab) s sched ->
  (match h_pc s t with QL_Val _ _ _ _ _ _ | QL_Key _ _ _ _ _ _ _ | QL_Val2 _ _ _ _ _ _ _ _ => False | _ => True end) ->
  s_machine_step o seeds hint (fst (s_srunL o seeds hint s sched)) t = Some (s2, ls2) ->
  (exists l, In l ls2 /\ hit t v l) ->
  s_sever o seeds hint (fun s' => svis (hash_of o) idx_map tag_map (nslots_of false) (stab_at (nslots_of false) nstripes_x s' tab) k v) s sched.
Proof.
  intros Ho. unfold s_machine_init, s_machine_step.
  apply (s_load_hit_proof zeqd (hash_of o) idx_map tag_map (nslots_of false) (seeds_of seeds) grow_needed_s shrink_policy_s nstripes_x
           (minlen_of_hint false hint) false (s_instance_lhhyps o hint Ho)).
  apply minlen_of_hint_pos.
Qed.

(* ---------------- non-vacuity ---------------- *)
(* Three slots per bucket, one bucket.  Thread 0 has stored (7, 1) and returned.  Thread 1 (Load 7) has loaded m.table and stands
   before the load of the bucket word (QL_Top): the start state s.  The schedule: thread 1 loads the word (slot 0 passes the
   top-hash filter); thread 2 (Delete 7) starts, locks the bucket, scans, and stores the word with the presence bit of slot 0
   cleared (QW_D1 -> QW_D2): the pair (7, 1) is now behind a cleared bit; thread 1 loads the value pointer and the key pointer.
   Thread 1 stays inside its lookup all along, and its next step -- the second load of the value pointer -- returns (1, true).
   (7, 1) was visible in the start state. *)
Local Open Scope nat_scope.
Definition lh_hash := (fun (k : nat) (_ : N) => N.of_nat k).
Definition lh_idx := (fun (h : N) len => Nat.modulo (N.to_nat h) len).
Definition lh_srun := @srun nat nat Nat.eq_dec lh_hash lh_idx (fun h => h) 3 (fun _ => 0%N) (fun _ _ => false) (fun _ _ => false) (fun _ => 1) 1 false.
Definition lh_sstep := @sstep nat nat Nat.eq_dec lh_hash lh_idx (fun h => h) 3 (fun _ => 0%N) (fun _ _ => false) (fun _ _ => false) (fun _ => 1) 1 false.
Definition lh_salong := @salong nat nat Nat.eq_dec lh_hash lh_idx (fun h => h) 3 (fun _ => 0%N) (fun _ _ => false) (fun _ _ => false) (fun _ => 1) 1 false.
Definition lh_init : @mstate nat nat :=
  sinit 3 (fun _ => 0%N) (fun _ => 1) 1
        (fun t => match t with
                  | 0 => [SCompute 7 (fun _ => Some 1) false false false]
                  | 1 => [SLoad 7]
                  | 2 => [SCompute 7 (fun _ => None) false false false]
                  | _ => []
                  end).
Definition lh_start : @mstate nat nat := fst (lh_srun lh_init (repeat 0 20 ++ [1; 1])).
Definition lh_sched : list nat := 1 :: repeat 2 8 ++ [1; 1].

Example loadhit_nonvacuous :
  (* the start state: about to load the bucket word; the pair is visible *)
  h_pc lh_start 1 = QL_Top 7 SLPlain 0 7%N 0
  /\ svis lh_hash lh_idx (fun h => h) 3 (stab_at 3 (fun _ => 1) lh_start 0) 7 1
  (* the reader stays inside the lookup of 7 in table 0 *)
  /\ lh_salong (inlookup lh_hash 3 (fun _ => 1) 1 7 SLPlain 0) lh_start lh_sched
  (* after the reader's load of the word and the deleter's store: the deleter stands between its two stores, the slot holds
     (7, 1) behind a cleared presence bit *)
  /\ (let s1 := fst (lh_srun lh_start (1 :: repeat 2 8)) in
      h_pc s1 1 = QL_Val 7 SLPlain 0 7%N 0 [0]
      /\ d2of (h_pc s1 2) = Some ({| sc_k := 7; sc_f := fun _ => None; sc_ev := false; sc_lie := false; sc_co := false |}, 0, 0, 1, 0)
      /\ sslot_at (stab_at 3 (fun _ => 1) s1 0) 0 0 = {| ms_key := Some 7; ms_val := Some (1, 0) |}
      /\ topent 3 (ctops (stab_at 3 (fun _ => 1) s1 0) 0) 0 = (false, 7%N))
  (* the reader's next step returns the value *)
  /\ option_map snd (lh_sstep (fst (lh_srun lh_start lh_sched)) 1) = Some [SStep 1 (SKLoadPtr false); SRes 1 (SRVal (Some 1) true)]
  /\ @hit nat nat 1 1 (SRes 1 (SRVal (Some 1) true)).
Proof.
  split; [vm_compute; reflexivity|]. split.
  { exists 0. vm_compute. repeat split; try lia. exists 0. reflexivity. }
  split; [vm_compute; repeat split; reflexivity|].
  split; [repeat split; vm_compute; reflexivity|].
  split; [vm_compute; reflexivity|]. exists true. left. reflexivity.
Qed.
