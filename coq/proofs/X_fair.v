(* X_fair.v -- every call of XMachine (MapOf) terminates under FAIR scheduling (C13).
   An infinite schedule is sigma : nat -> nat; a step of a disabled or finished thread is a no-op ([stay]).
   Weak fairness, in the plain form used here: every thread of ths is scheduled infinitely often,
       fair sigma := forall n t, In t ths -> exists m, n <= m /\ sigma m = t
   (no modulus is needed: the conclusion is a proposition, so the witness may be opened; no classical axiom). *)
From CacheV Require Import Base SpecMap XMachine.
From CacheV.proofs Require Import X_basic X_inv X_c13 X_c16 X_term.
From CacheV.proofs Require X_own X_c04 X_resize.
From Coq Require Import NArith Lia.
Local Open Scope nat_scope.

Section Fair.
  Context {K V : Type}.
  Variable eqd : forall a b : K, {a = b} + {a <> b}.
  Variable hash : K -> N -> N.
  Variable idx : N -> nat -> nat.
  Variable tag : N -> N.
  Variable nslots : nat.
  Variable seeds : nat -> N.
  Variable grow_needed : nat -> Z -> bool.
  Variable shrink_policy : nat -> Z -> bool.
  Variable probe : list (option N) -> N -> list nat.
  Variable nstripes : nat -> nat.
  Variable minlen : nat.
  Variable grow_only : bool.

  Notation slot := (@slot K V).
  Notation xtable := (@xtable K V).
  Notation xstate := (@xstate K V).
  Notation pc := (@pc K V).
  Notation xlabel := (@xlabel K V).
  Notation tab_at := (@tab_at K V nslots nstripes).
  Notation step_pc := (@step_pc K V eqd hash idx tag nslots seeds grow_needed shrink_policy probe nstripes minlen grow_only).
  Notation xstep := (@xstep K V eqd hash idx tag nslots seeds grow_needed shrink_policy probe nstripes minlen grow_only).
  Notation xrun := (@xrun K V eqd hash idx tag nslots seeds grow_needed shrink_policy probe nstripes minlen grow_only).
  Notation enabled := (@enabled K V eqd hash idx tag nslots seeds grow_needed shrink_policy probe nstripes minlen grow_only).
  Notation XInv := (@X_inv.XInv K V hash idx nslots nstripes).
  Notation holds := (@holds K V hash idx nslots nstripes).
  Notation valid := (@valid K V hash idx nslots nstripes).
  Notation XI2 := (@XI2 K V hash idx nslots nstripes).

  (* ---------------- infinite schedules ---------------- *)

  Definition stay (s : xstate) (t : nat) : xstate := match xstep s t with Some (s', _) => s' | None => s end.

  Fixpoint run_to (sigma : nat -> nat) (n : nat) (s : xstate) : xstate :=
    match n with 0 => s | S m => stay (run_to sigma m s) (sigma m) end.

  Lemma xrun_snoc s a t : fst (xrun s (a ++ [t])) = stay (fst (xrun s a)) t.
  Proof.
    rewrite (xrun_app eqd hash idx tag nslots seeds grow_needed shrink_policy probe nstripes minlen grow_only). cbn [fst].
    unfold stay. cbn [XMachine.xrun]. destruct (xstep (fst (xrun s a)) t) as [[s' ls]|]; reflexivity.
  Qed.

  Lemma run_to_xrun sigma n s : run_to sigma n s = fst (xrun s (map sigma (seq 0 n))).
  Proof.
    induction n as [|n IH]; [reflexivity|]. cbn [run_to]. rewrite seq_S, map_app. cbn [map Nat.add]. rewrite xrun_snoc, <- IH. reflexivity.
  Qed.

  Lemma run_to_add sigma a : forall b s, run_to sigma (a + b) s = run_to (fun i => sigma (a + i)) b (run_to sigma a s).
  Proof.
    induction b as [|b IH]; intros s; [rewrite Nat.add_0_r; reflexivity|].
    rewrite Nat.add_succ_r. cbn [run_to]. rewrite IH. reflexivity.
  Qed.

  Variable ths : list nat.

  Definition fair (sigma : nat -> nat) : Prop := forall n t, In t ths -> exists m, n <= m /\ sigma m = t.
  Definition all_done (s : xstate) : Prop := forall t, In t ths -> g_pc s t = PIdle /\ g_todo s t = [].

  Lemma fair_shift sigma a : fair sigma -> fair (fun i => sigma (a + i)).
  Proof.
    intros H n t Ht. destruct (H (a + n) t Ht) as [m [Hm E]]. exists (m - a). split; [lia|]. replace (a + (m - a)) with m by lia. exact E.
  Qed.

  (* ---------------- the scheme: a measure that every step of a thread of ths decreases ---------------- *)

  Section Scheme.
    Variable Inv : xstate -> Prop.
    Variable M : xstate -> nat.
    Hypothesis Inv_step : forall s t s' ls, Inv s -> xstep s t = Some (s', ls) -> Inv s'.
    Hypothesis M_in : forall s t s' ls, Inv s -> In t ths -> xstep s t = Some (s', ls) -> M s' < M s.
    Hypothesis M_out : forall s t s' ls, Inv s -> ~ In t ths -> xstep s t = Some (s', ls) ->
      M s' <= M s /\ forall u, In u ths -> enabled s' u = enabled s u.
    Hypothesis live : forall s, Inv s -> ~ all_done s -> exists u, In u ths /\ enabled s u = true.
    Hypothesis done_dec : forall s, Inv s -> all_done s \/ ~ all_done s.

    Lemma Inv_run sigma n : forall s, Inv s -> Inv (run_to sigma n s).
    Proof.
      induction n as [|n IH]; intros s H; [exact H|]. cbn [run_to]. unfold stay.
      destruct (xstep (run_to sigma n s) (sigma n)) as [[s' ls]|] eqn:E; [|apply IH; exact H].
      eapply Inv_step; [apply IH; exact H | exact E].
    Qed.

    (* waiting for the enabled thread u to be scheduled: either the measure drops before, or u moves *)
    Lemma wait_for u : forall d sigma s, Inv s -> In u ths -> enabled s u = true -> sigma d = u ->
      exists n, M (run_to sigma n s) < M s /\ Inv (run_to sigma n s).
    Proof.
      induction d as [|d IH]; intros sigma s HI Hu He Hs.
      - exists 1. cbn [run_to]. unfold stay. rewrite Hs. unfold XMachine.enabled in He.
        destruct (xstep s u) as [[s' ls]|] eqn:E; [|discriminate He]. split; [eapply M_in; eassumption | eapply Inv_step; eassumption].
      - destruct (in_dec Nat.eq_dec (sigma 0) ths) as [Hi|Hi].
        + destruct (xstep s (sigma 0)) as [[s' ls]|] eqn:E.
          * exists 1. cbn [run_to]. unfold stay. rewrite E. split; [eapply M_in; eassumption | eapply Inv_step; eassumption].
          * assert (E1 : run_to sigma 1 s = s) by (cbn [run_to]; unfold stay; rewrite E; reflexivity).
            destruct (IH (fun i => sigma (1 + i)) s HI Hu He) as [n [Hn Hi']]; [cbn; exact Hs|].
            exists (1 + n). rewrite run_to_add, E1. split; assumption.
        + destruct (xstep s (sigma 0)) as [[s' ls]|] eqn:E.
          * destruct (M_out s (sigma 0) s' ls HI Hi E) as [Hle Hen].
            assert (E1 : run_to sigma 1 s = s') by (cbn [run_to]; unfold stay; rewrite E; reflexivity).
            destruct (IH (fun i => sigma (1 + i)) s' (Inv_step s _ s' ls HI E) Hu) as [n [Hn Hi']]; [rewrite (Hen u Hu); exact He | cbn; exact Hs|].
            exists (1 + n). rewrite run_to_add, E1. split; [lia | exact Hi'].
          * assert (E1 : run_to sigma 1 s = s) by (cbn [run_to]; unfold stay; rewrite E; reflexivity).
            destruct (IH (fun i => sigma (1 + i)) s HI Hu He) as [n [Hn Hi']]; [cbn; exact Hs|].
            exists (1 + n). rewrite run_to_add, E1. split; assumption.
    Qed.

    Theorem fair_scheme : forall k sigma s, fair sigma -> Inv s -> M s <= k -> exists n, all_done (run_to sigma n s).
    Proof.
      induction k as [k IH] using lt_wf_ind. intros sigma s Hf HI Hk.
      destruct (done_dec s HI) as [Hd|Hd]; [exists 0; exact Hd|].
      destruct (live s HI Hd) as [u [Hu He]].
      destruct (Hf 0 u Hu) as [d [_ Hs]].
      destruct (wait_for u d sigma s HI Hu He Hs) as [n [Hn Hi']].
      destruct (IH (M (run_to sigma n s)) ltac:(lia) (fun i => sigma (n + i)) (run_to sigma n s) (fair_shift sigma n Hf) Hi' (le_n _)) as [n' Hd'].
      exists (n + n'). rewrite run_to_add. exact Hd'.
    Qed.
  End Scheme.

  (* ================ the measure ================ *)

  (* caps, constants of the whole run: table lengths, stripe counts, chain lengths (in buckets) *)
  Variables CB LX NSX : nat.

  Definition capped (s : xstate) : Prop :=
    forall tab, tab < length (g_tabs s) ->
      x_len (tab_at s tab) <= LX /\ nstr (tab_at s tab) <= NSX
      /\ forall b, nbuckets nslots (chain_of (tab_at s tab) b) <= CB.

  Definition WB : nat := nslots + 2.          (* one bucket of a reader: the meta word, the probed entries, the next pointer *)
  Definition Wt : nat := 12.                  (* waitForResize *)
  Definition ATT : nat := NSX + 20.           (* one attempt of doCompute up to its decision *)

  Definition RCr (kt : @cont K V) (r : bool) : nat :=
    match kt with KRetry _ => ATT + (if r then Wt + 3 else 0) | KReturn _ => 0 end.
  Definition casl (hn : hint) (kt : @cont K V) (r : bool) : nat :=
    1 + (if r then 6 + (match hn with HClear => 1 | _ => RCr kt false end) else 0).
  Definition EE (ohn : option hint) (kt : @cont K V) (r : bool) : nat :=
    match ohn with Some HClear => casl HClear kt r | _ => RCr kt r end.
  Definition LCr (lc : @lcont K V) (r : bool) : nat :=
    match lc with LPlain => 0 | LFast _ => ATT + (if r then Wt + 3 else 0) end.

  (* the steps thread at p still needs for its call, at most, if no further resize starts; r: the resizing flag,
     cur: the current table, bp: some thread stands before its broadcast *)
  Fixpoint lam (r : bool) (cur : nat) (bp : bool) (p : pc) : nat :=
    match p with
    | PStart => 1
    | PIdle | PRet _ => 0
    | PL_Table _ lc => CB * WB + WB + 1 + LCr lc r
    | PL_Meta _ lc _ _ bi => (CB - bi) * WB + WB + LCr lc r
    | PL_Ent _ lc _ _ bi todo => (CB - bi) * WB + length todo + 1 + LCr lc r
    | PL_Next _ lc _ _ bi => (CB - bi) * WB + 1 + LCr lc r
    | PW_Table _ => ATT + (if r then Wt + 3 else 0)
    | PW_Lock _ tab => if r then ATT + Wt + 2 else if Nat.eqb cur tab then ATT - 1 else ATT + 4
    | PW_ChkRes _ tab => if r then ATT + 8 else if Nat.eqb cur tab then ATT - 2 else ATT + 3
    | PW_ChkTab _ tab => if r then ATT + NSX + Wt + 10 else if Nat.eqb cur tab then ATT - 3 else ATT + 2
    | PW_Sum cx _ i _ => (NSX - i) + 6 + casl HGrow (KRetry cx) r
    | PW_D1 _ _ _ _ => NSX + 15
    | PW_D2 _ _ _ _ => NSX + 14
    | PW_U1 _ _ _ _ _ => 2
    | PW_I1 _ _ _ _ => 4
    | PW_I2 _ _ _ _ => 3
    | PW_N1 _ _ _ => 3
    | PW_Unlock _ _ a => 1 + lam r cur bp a
    | PW_Add _ _ _ a => 1 + lam r cur bp a
    | PR_FastSum _ kt i _ => (NSX - i) + 2 + casl HShrink kt r + RCr kt r
    | PR_CAS hn kt => casl hn kt r
    | PR_Table _ kt => NSX + 2 * LX + 11 + RCr kt r
    | PR_ShSum kt _ i _ => (NSX - i) + 2 * LX + 9 + RCr kt r
    | PR_Stat _ kt _ => 2 * LX + 8 + RCr kt r
    | PR_CpLock _ kt _ _ i => 2 * (LX - i) + 6 + RCr kt r
    | PR_CpUnlock _ kt _ _ i => 2 * (LX - i) + 5 + RCr kt r
    | PR_Publish kt _ => 5 + RCr kt r
    | PR_FinLock kt => 4 + RCr kt r
    | PR_FinStore kt => 3 + RCr kt r
    | PR_FinBcast kt => 2 + RCr kt r
    | PR_FinUnlock kt => 1 + RCr kt r
    | PT_Lock hn kt => 3 + EE hn kt false + (if r then 3 else 0)
    | PT_Load hn kt => 2 + EE hn kt false + (if r then 3 else 0)
    | PT_Wait hn kt => 4 + EE hn kt false
    | PT_Waiting hn kt => 3 + EE hn kt false + (if r && bp then 8 else 0)
    | PT_Relock hn kt => 3 + EE hn kt false + (if r then 8 else 0)
    | PT_Unlock hn kt => 1 + EE hn kt r
    | PG_Table => 2 * LX + 2
    | PG_Lock _ i => 2 * (LX - i)
    | PG_Unlock _ i _ => 2 * (LX - i) - 1
    | PS_Table => NSX + 3
    | PS_Sum _ i _ => NSX - i + 1
    | PC_Table => 1 + casl HClear (KReturn XRUnit) r
    end.

  Definition bpend (s : xstate) : bool := existsb (fun u => is_bcast (g_pc s u)) ths.
  Definition lamS (s : xstate) (p : pc) : nat := lam (g_resizing s) (g_cur s) (bpend s) p.

  Definition is_waiting (p : pc) : bool := match p with PT_Waiting _ _ => true | _ => false end.
  Definition cas_wins (s : xstate) (p : pc) : bool := match p with PR_CAS _ _ => negb (g_resizing s) | _ => false end.

  Hypothesis Hprobe : forall tags tg, length (probe tags tg) <= length tags.

  Lemma some_fst_f {A B} (g : A * B) a b : Some g = Some (a, b) -> a = fst g.
  Proof. intros H. inversion H. reflexivity. Qed.

  Lemma bucket_slots_len (c : list slot) bi : length (bucket_slots nslots c bi) <= nslots.
  Proof. unfold bucket_slots. rewrite firstn_length. lia. Qed.

  Lemma lam_norm r cur bp (q : pc) : lam r cur bp (norm q) <= lam r cur bp q.
  Proof. destruct q; cbn [norm lam]; lia. Qed.

  Lemma lam_bp_inner r cur bp bp' (p : pc) : inner_ok p -> is_waiting p = false -> lam r cur bp' p = lam r cur bp p.
  Proof.
    induction p; cbn [lam inner_ok is_waiting]; intros Hi Hw; try reflexivity; try discriminate Hw.
    - destruct Hi as [Ha Hb]. rewrite IHp; [reflexivity | exact Hb | destruct p; try reflexivity; contradiction].
    - destruct Hi as [Ha Hb]. rewrite IHp; [reflexivity | exact Hb | destruct p; try reflexivity; contradiction].
  Qed.

  Notation XW := (@XW K V).

  (* the own step: the thread's bound decreases, unless it wins the CAS that starts a resize *)
  Lemma lam_own s t p s' ls : XInv s -> XW s -> capped s -> g_pc s t = p -> step_pc s t p = Some (s', ls) -> cas_wins s p = false ->
    forall bp', lam (g_resizing s') (g_cur s') (bp' && negb (is_waiting (g_pc s' t))) (g_pc s' t) < lamS s p.
  Proof.
    intros HI HW HC Hp Hs Hcw bp'.
    pose proof (xi_valid _ _ _ _ s HI t) as Hv. rewrite Hp in Hv.
    pose proof (xw_inner s HW t) as Hin. rewrite Hp in Hin.
    assert (Hrz : resizer p = true -> g_resizing s = true) by (intros H; apply (xi_rzA _ _ _ _ s HI t); rewrite Hp; exact H).
    assert (Hcap : forall tab, tab < length (g_tabs s) -> x_len (tab_at s tab) <= LX /\ nstr (tab_at s tab) <= NSX
                   /\ forall b, nbuckets nslots (chain_of (tab_at s tab) b) <= CB) by exact HC.
    destruct p; cbn [XMachine.step_pc] in Hs; cbv zeta in Hs;
      repeat match type of Hs with context [match ?x with _ => _ end] => destruct x eqn:? end;
      try discriminate Hs; apply some_fst_f in Hs; subst s'; rewrite ?goto_state;
      cbn [g_pc g_resizing g_cur set_pc set_tab set_flags push_tab fst]; (destruct (Nat.eq_dec t t) as [_|Hx]; [|exfalso; apply Hx; reflexivity]);
      unfold lamS; cbn [valid resizer cas_wins inner_ok] in *.
    all: try (match goal with H : g_resizing _ = false |- _ => rewrite H in Hcw; discriminate Hcw end).
    all: try (rewrite (Hrz eq_refl) in * ).
    all: repeat match goal with H : g_resizing _ = _ |- _ => rewrite H in *; clear H end.
    all: repeat match goal with
                | H : negb (Nat.eqb _ _) = true |- _ => apply negb_true_iff in H
                | H : negb (Nat.eqb _ _) = false |- _ => apply negb_false_iff in H
                end.
    all: repeat match goal with H : Nat.eqb (g_cur _) _ = _ |- _ => rewrite H in *; clear H end.
    all: repeat match goal with
                | H : Nat.ltb _ _ = true |- _ => apply Nat.ltb_lt in H
                | H : Nat.ltb _ _ = false |- _ => apply Nat.ltb_ge in H
                end.
    all: repeat match goal with H : _ /\ _ |- _ => destruct H end.
    all: repeat match goal with H : ?tab < length (g_tabs _) |- _ => pose proof (Hcap tab H); revert H end; intros.
    all: repeat match goal with H : _ /\ _ |- _ => destruct H end.
    all: try match goal with H : S ?bi < nbuckets _ (chain_of _ ?b), Hc3 : forall b0, nbuckets _ (chain_of _ b0) <= CB |- _ => specialize (Hc3 b) end.
    all: try match goal with H : probe (tags_of ?l) ?tg = _ :: _ |- _ =>
           pose proof (Hprobe (tags_of l) tg) as Hpl; rewrite H in Hpl; unfold tags_of in Hpl; rewrite map_length in Hpl;
           match type of Hpl with _ <= length (bucket_slots _ ?c ?bi) => pose proof (bucket_slots_len c bi) end end.
    all: try match goal with |- context [run_cont ?kt] => destruct kt; cbn [run_cont] end.
    all: cbn [lam norm is_waiting negb andb]; rewrite ?andb_true_r, ?andb_false_r, ?Nat.eqb_refl.
    all: try match goal with |- lam ?r ?c ?B (norm ?q) < 1 + lam _ _ ?B0 _ =>
           is_var q; pose proof (lam_norm r c B q) as Hno;
           assert (Hib : is_waiting q = false) by (destruct q; try reflexivity; contradiction);
           assert (Hib2 : is_waiting (norm q) = false) by (destruct q; try reflexivity; contradiction);
           rewrite Hib2 in *; cbn [negb] in *; rewrite andb_true_r in *;
           rewrite (lam_bp_inner r c B0 B q ltac:(assumption) Hib) in Hno end.
    all: unfold casl, EE, RCr, LCr, ATT, Wt, WB in *.
    all: try lia.
    all: repeat match goal with |- context [if ?c then _ else _] => destruct c end;
         repeat match goal with |- context [match ?x with _ => _ end] => destruct x end;
         unfold casl, RCr, ATT, Wt in *; cbn [length] in *; try lia; try nia.
    all: assert (Hib : is_waiting p = false) by (destruct p; try reflexivity; contradiction);
         assert (Hib2 : is_waiting (norm p) = false) by (destruct p; try reflexivity; contradiction);
         rewrite Hib2; cbn [negb]; rewrite andb_true_r;
         pose proof (lam_norm (g_resizing s) (g_cur s) bp' p) as Hno;
         match goal with Hi : inner_ok ?P |- _ => rewrite (lam_bp_inner (g_resizing s) (g_cur s) (bpend s) bp' P Hi Hib) in Hno end; lia.
  Qed.

  (* ---------------- what the steps of the others do to the bound of a thread ---------------- *)

  Definition KR : nat := 2 * ATT + 2 * NSX + 2 * LX + Wt + 40.

  Ltac lam_ind p :=
    induction p; cbn [lam wake andb]; rewrite ?andb_true_r, ?andb_false_r; unfold casl, EE, RCr, LCr, KR, ATT, Wt, WB in *;
    repeat match goal with |- context [if ?c then _ else _] => destruct c end;
    repeat match goal with |- context [match ?x with _ => _ end] => destruct x end;
    cbn [andb] in *; unfold casl, RCr, ATT, Wt in *; try lia.

  Lemma lam_bp_le r cur bp bp' (p : pc) : (bp' = true -> bp = true) -> lam r cur bp' p <= lam r cur bp p.
  Proof. intros H. destruct bp'; [rewrite (H eq_refl); lia|]. destruct bp; [|lia]. destruct r; lam_ind p. Qed.

  Lemma lam_r_le cur bp (p : pc) : lam false cur bp p <= lam true cur bp p.
  Proof. destruct bp; lam_ind p. Qed.

  Lemma lam_r_up cur bp (p : pc) : lam true cur bp p <= lam false cur bp p + KR.
  Proof. destruct bp; lam_ind p. Qed.

  Lemma lam_true_cur cur cur' bp (p : pc) : lam true cur bp p = lam true cur' bp p.
  Proof. induction p; cbn [lam]; try reflexivity; rewrite IHp; reflexivity. Qed.

  Lemma lam_finstore cur (p : pc) : lam false cur true p <= lam true cur false p.
  Proof. lam_ind p. Qed.

  Lemma lam_wake r cur bp' (p : pc) : lam r cur bp' (wake p) <= lam r cur true p.
  Proof. destruct p; try (apply lam_bp_le; auto). cbn [wake lam]. destruct r; cbn [andb]; lia. Qed.

  Lemma is_bcast_wake (q : pc) : is_bcast (wake q) = is_bcast q.
  Proof. destruct q; reflexivity. Qed.

  Lemma bpend_true s : bpend s = true <-> exists u, In u ths /\ is_bcast (g_pc s u) = true.
  Proof. unfold bpend. rewrite existsb_exists. tauto. Qed.

  Notation TI := (@TI K V hash idx nslots nstripes).

  (* a step of thread t, seen by thread u *)
  Lemma lam_env s t p s' ls u : TI s -> In t ths -> g_pc s t = p -> step_pc s t p = Some (s', ls) -> u <> t ->
    lamS s' (g_pc s' u) <= lamS s (g_pc s u) + (if cas_wins s p then KR else 0).
  Proof.
    intros [HI [HW _]] Ht Hp Hs Hne.
    pose proof (xi_valid _ _ _ _ s HI t) as Hv. rewrite Hp in Hv.
    assert (Hin : inner_ok p) by (rewrite <- Hp; apply (xw_inner s HW)).
    destruct (step_effect eqd hash idx tag nslots seeds grow_needed shrink_policy probe nstripes minlen grow_only s t p s' ls Hin Hs)
      as [Hoth [Hrz [_ [_ [S3 _]]]]].
    destruct (X_resize.step_misc eqd hash idx tag nslots seeds grow_needed shrink_policy probe nstripes minlen grow_only s t p s' ls Hs Hv)
      as [Hcur _].
    specialize (Hoth u Hne).
    assert (Hrzp : resizer p = true -> g_resizing s = true) by (intros H; apply (xi_rzA _ _ _ _ s HI t); rewrite Hp; exact H).
    (* the broadcast is pending afterwards only if it was before, or this is the store of the flag *)
    assert (Hbp : (forall kt, p <> PR_FinStore kt) -> bpend s' = true -> bpend s = true).
    { intros Hnf H. apply bpend_true in H. destruct H as [w [Hw Hb]]. apply bpend_true.
      destruct (Nat.eq_dec w t) as [->|Hnw].
      - exfalso. destruct (g_pc s' t) eqn:E; try discriminate Hb. eapply Hnf. apply (S3 kt). reflexivity.
      - exists w. split; [exact Hw|].
        destruct (step_effect eqd hash idx tag nslots seeds grow_needed shrink_policy probe nstripes minlen grow_only s t p s' ls Hin Hs) as [Ho _].
        rewrite (Ho w Hnw) in Hb. destruct (is_bcast p); [rewrite is_bcast_wake in Hb|]; exact Hb. }
    unfold lamS.
    destruct p; cbn [is_bcast rz_after cas_wins] in *; rewrite Hoth, Hrz;
      try (destruct Hcur as [Hcur|[kt0 [new0 [E0 _]]]]; [rewrite Hcur | discriminate E0]; rewrite Nat.add_0_r; apply lam_bp_le; apply Hbp; intros; discriminate).
    - (* PR_CAS *)
      destruct Hcur as [Hcur|[kt0 [new0 [E0 _]]]]; [rewrite Hcur | discriminate E0].
      destruct (g_resizing s) eqn:Er; cbn [negb].
      + rewrite Nat.add_0_r. apply lam_bp_le; apply Hbp; intros; discriminate.
      + eapply Nat.le_trans; [apply lam_r_up|]. apply Nat.add_le_mono_r. apply lam_bp_le; apply Hbp; intros; discriminate.
    - (* PR_Publish *)
      rewrite (Hrzp eq_refl), Nat.add_0_r. rewrite (lam_true_cur (g_cur s') (g_cur s)). apply lam_bp_le; apply Hbp; intros; discriminate.
    - (* PR_FinStore *)
      rewrite (Hrzp eq_refl), Nat.add_0_r. destruct Hcur as [Hcur|[kt0 [new0 [E0 _]]]]; [rewrite Hcur | discriminate E0].
      eapply Nat.le_trans; [apply (lam_bp_le false (g_cur s) true); auto|].
      eapply Nat.le_trans; [apply lam_finstore|]. apply lam_bp_le. discriminate.
    - (* PR_FinBcast *)
      rewrite Nat.add_0_r. destruct Hcur as [Hcur|[kt0 [new0 [E0 _]]]]; [rewrite Hcur | discriminate E0].
      assert (Hb : bpend s = true) by (apply bpend_true; exists t; split; [exact Ht | rewrite Hp; reflexivity]).
      rewrite Hb. apply lam_wake.
  Qed.

  (* ---------------- the global measure ---------------- *)

  Hypothesis Hnd : NoDup ths.

  Definition KK : nat := CB * WB + WB + 2 * ATT + NSX + 2 * LX + Wt + 40.

  Definition Mt (s : xstate) (t : nat) : nat := (KK + 1) * length (g_todo s t) + lamS s (g_pc s t).
  Fixpoint Msum (s : xstate) (l : list nat) : nat := match l with [] => 0 | t :: r => Mt s t + Msum s r end.

  Lemma step_todo s t p s' ls : step_pc s t p = Some (s', ls) -> g_todo s' = g_todo s.
  Proof.
    intros Hs. destruct p; cbn [XMachine.step_pc] in Hs; cbv zeta in Hs;
      repeat match type of Hs with context [match ?x with _ => _ end] => destruct x eqn:? end;
      try discriminate Hs; apply some_fst_f in Hs; subst s'; rewrite ?goto_state; reflexivity.
  Qed.

  Lemma lam_start_KK r cur bp (o : @xop K V) : lam r cur bp (start_pc o) <= KK.
  Proof.
    destruct o; cbn [start_pc]; try (destruct lie); cbn [lam]; unfold KK, casl, LCr, RCr, ATT, Wt, WB; destruct r; lia.
  Qed.

  (* a thread that has just entered the wait set: no broadcast is pending (both need resizeMu) *)
  Lemma waiting_no_bcast s t p s' ls : TI s -> g_pc s t = p -> step_pc s t p = Some (s', ls) ->
    is_waiting (g_pc s' t) = true -> bpend s' = false.
  Proof.
    intros [HI [HW _]] Hp Hs Hw.
    assert (Hin : inner_ok p) by (rewrite <- Hp; apply (xw_inner s HW)).
    destruct (step_effect eqd hash idx tag nslots seeds grow_needed shrink_policy probe nstripes minlen grow_only s t p s' ls Hin Hs)
      as [Hoth [_ [_ [S2 _]]]].
    destruct (g_pc s' t) eqn:E; try discriminate Hw. pose proof (S2 hn kt eq_refl) as Ep.
    destruct (bpend s') eqn:Eb; [|reflexivity]. exfalso. apply bpend_true in Eb. destruct Eb as [w [Hw' Hb]].
    destruct (Nat.eq_dec w t) as [->|Hne]; [rewrite E in Hb; discriminate Hb|].
    rewrite (Hoth w Hne) in Hb. rewrite Ep in Hb. cbn [is_bcast] in Hb.
    assert (M1 : g_rmu s = Some t) by (apply (xi_muA _ _ _ _ s HI t); rewrite Hp, Ep; reflexivity).
    assert (M2 : g_rmu s = Some w) by (apply (xi_muA _ _ _ _ s HI w); destruct (g_pc s w); try discriminate Hb; reflexivity).
    congruence.
  Qed.

  Lemma lam_cas_win s t hn kt s' ls : g_pc s t = PR_CAS hn kt -> g_resizing s = false ->
    step_pc s t (PR_CAS hn kt) = Some (s', ls) -> lamS s' (g_pc s' t) <= KR.
  Proof.
    intros Hp Hr Hs. cbn [XMachine.step_pc] in Hs. rewrite Hr in Hs. apply some_fst_f in Hs. subst s'. rewrite goto_state.
    unfold lamS. cbn [g_pc set_pc set_flags g_resizing g_cur norm]. destruct (Nat.eq_dec t t) as [_|Hx]; [|exfalso; apply Hx; reflexivity].
    cbn [lam]. unfold KR, RCr, ATT, Wt. destruct kt; lia.
  Qed.

  Lemma Msum_step s t p s' ls : TI s -> capped s -> In t ths -> g_pc s t = p -> step_pc s t p = Some (s', ls) ->
    (cas_wins s p = false -> Msum s' ths < Msum s ths) /\ (cas_wins s p = true -> Msum s' ths <= Msum s ths + length ths * KR).
  Proof.
    intros HT HC Ht Hp Hs. pose proof HT as [HI [HW _]].
    pose proof (step_todo s t p s' ls Hs) as Htd.
    assert (Hoth : forall u, u <> t -> Mt s' u <= Mt s u + (if cas_wins s p then KR else 0)).
    { intros u Hne. unfold Mt. rewrite Htd. pose proof (lam_env s t p s' ls u HT Ht Hp Hs Hne). lia. }
    assert (Hown1 : cas_wins s p = false -> Mt s' t < Mt s t).
    { intros Hc. unfold Mt. rewrite Htd, Hp. pose proof (lam_own s t p s' ls HI HW HC Hp Hs Hc (bpend s')) as Hl.
      unfold lamS at 1. destruct (is_waiting (g_pc s' t)) eqn:Ew.
      - rewrite (waiting_no_bcast s t p s' ls HT Hp Hs Ew) in *. cbn [andb] in Hl. lia.
      - cbn [negb] in Hl. rewrite andb_true_r in Hl. lia. }
    assert (Hown2 : cas_wins s p = true -> Mt s' t <= Mt s t + KR).
    { intros Hc. unfold Mt. rewrite Htd. destruct p; try discriminate Hc. cbn [cas_wins] in Hc. apply negb_true_iff in Hc.
      pose proof (lam_cas_win s t hn kt s' ls Hp Hc Hs). lia. }
    assert (Hgen : forall l, NoDup l ->
              (~ In t l -> Msum s' l <= Msum s l + length l * (if cas_wins s p then KR else 0))
              /\ (In t l -> (cas_wins s p = false -> Msum s' l < Msum s l)
                             /\ (cas_wins s p = true -> Msum s' l <= Msum s l + length l * KR))).
    { induction l as [|u r IH]; intros Hn; [split; [intros _; cbn; lia | intros []]|].
      apply NoDup_cons_iff in Hn. destruct Hn as [Hu Hr]. destruct (IH Hr) as [IH1 IH2]. cbn [Msum length]. split.
      - intros Hni. assert (Hne : u <> t) by (intros ->; apply Hni; left; reflexivity).
        assert (Hnr : ~ In t r) by (intros H; apply Hni; right; exact H).
        specialize (IH1 Hnr). specialize (Hoth u Hne). lia.
      - intros [->|Hin].
        + specialize (IH1 Hu). destruct (cas_wins s p) eqn:Ec; split; intros E; try discriminate E.
          * specialize (Hown2 eq_refl). lia.
          * specialize (Hown1 eq_refl). lia.
        + assert (Hne : u <> t) by (intros ->; contradiction).
          destruct (IH2 Hin) as [A B]. specialize (Hoth u Hne). destruct (cas_wins s p) eqn:Ec; split; intros E; try discriminate E.
          * specialize (B eq_refl). lia.
          * specialize (A eq_refl). lia. }
    exact (proj2 (Hgen ths Hnd) Ht).
  Qed.

  (* ---------------- fair termination, given a bound on the resizes still to come and caps ---------------- *)

  Hypothesis Hidx : forall h len, 0 < len -> idx h len < len.
  Hypothesis Hstripes : forall len, 0 < nstripes len.
  Hypothesis Hminlen : 0 < minlen.

  Lemma some_en {X} (a b : option X) : (a = None <-> b = None) ->
    match a with Some _ => true | None => false end = match b with Some _ => true | None => false end.
  Proof. intros [H1 H2]. destruct a, b; try reflexivity; [specialize (H2 eq_refl) | specialize (H1 eq_refl)]; discriminate. Qed.

  Lemma step_none_set_pc s t q u (p : pc) : step_pc (set_pc s t q) u p = None <-> step_pc s u p = None.
  Proof.
    destruct p; cbn [XMachine.step_pc]; cbv zeta;
      change (XMachine.tab_at nslots nstripes (set_pc s t q)) with (tab_at s);
      cbn [set_pc g_tabs g_cur g_resizing g_rmu];
      repeat match goal with |- context [match ?x with _ => _ end] => destruct x end; split; intros H; try discriminate H; try reflexivity.
  Qed.

  Lemma enabled_set_pc s t q u : u <> t -> enabled (set_pc s t q) u = enabled s u.
  Proof.
    intros Hne. unfold XMachine.enabled, XMachine.xstep. cbn [set_pc g_pc g_todo]. destruct (Nat.eq_dec u t) as [->|_]; [contradiction|].
    destruct (g_pc s u) eqn:Ep; try (apply some_en; apply step_none_set_pc).
    destruct (g_todo s u); [reflexivity|].
    match goal with |- match (match ?x with _ => _ end) with _ => _ end = match (match ?y with _ => _ end) with _ => _ end =>
      destruct x as [[? ?]|]; destruct y as [[? ?]|]; reflexivity end.
  Qed.

  Variable SB : xstate -> nat.              (* the resizes (won CASes on the flag) still to come, at most *)
  Variable Good : xstate -> Prop.           (* what SB and the caps need: an invariant of the system at hand *)
  Hypothesis Good_step : forall s t s' ls, TI s -> Good s -> xstep s t = Some (s', ls) -> Good s'.
  Hypothesis Good_cap : forall s, Good s -> capped s.
  Hypothesis SB_le : forall s t s' ls, TI s -> Good s -> xstep s t = Some (s', ls) -> SB s' <= SB s.
  Hypothesis SB_lt : forall s t s' ls hn kt, TI s -> Good s -> xstep s t = Some (s', ls) ->
    g_pc s t = PR_CAS hn kt -> g_resizing s = false -> SB s' < SB s.

  (* threads outside ths have nothing to do *)
  Definition OUT (s : xstate) : Prop := forall u, ~ In u ths -> (g_pc s u = PStart \/ g_pc s u = PIdle) /\ g_todo s u = [].
  Definition FInv (s : xstate) : Prop := TI s /\ Good s /\ OUT s.
  Definition MM (s : xstate) : nat := Msum s ths + (length ths * KR + 1) * SB s.

  Notation invoked := (@invoked K V).

  Lemma xstep_idle s t o rest : g_pc s t = PIdle -> g_todo s t = o :: rest ->
    xstep s t = match step_pc (invoked s t o rest) t (start_pc o) with
                | Some (s2, ls) => Some (s2, XMachine.XInv t o :: ls)
                | None => Some (invoked s t o rest, [XMachine.XInv t o]) end.
  Proof. intros Hp Ht. unfold XMachine.xstep. rewrite Hp, Ht. reflexivity. Qed.

  Lemma xstep_pc s t : g_pc s t <> PIdle -> xstep s t = step_pc s t (g_pc s t).
  Proof. intros H. unfold XMachine.xstep. destruct (g_pc s t); try reflexivity. congruence. Qed.

  Lemma wake_start (p : pc) : (p = PStart \/ p = PIdle) -> (wake p = PStart \/ wake p = PIdle).
  Proof. intros [->| ->]; auto. Qed.

  Lemma FInv_step s t s' ls : FInv s -> xstep s t = Some (s', ls) -> FInv s'.
  Proof.
    intros [HT [HG HO]] E. split; [apply (TI_xstep eqd hash idx tag nslots seeds grow_needed shrink_policy probe nstripes minlen grow_only Hidx Hstripes Hminlen s t s' ls HT E)|].
    split; [apply (Good_step s t s' ls HT HG E)|].
    intros u Hu. destruct (HO u Hu) as [Hpu Htu].
    destruct (Nat.eq_dec u t) as [->|Hne].
    - (* a thread outside ths: its only step is the start *)
      unfold XMachine.xstep in E. destruct Hpu as [Ep|Ep]; rewrite Ep in E.
      + cbn [XMachine.step_pc] in E. inversion E; subst s'. cbn [set_pc g_pc g_todo]. destruct (Nat.eq_dec t t); [auto | congruence].
      + rewrite Htu in E. discriminate E.
    - destruct (g_pc s t) eqn:Ept.
      all: try (rewrite (xstep_pc s t) in E by (rewrite Ept; discriminate); rewrite Ept in E;
                pose proof HT as [HI [HW _]];
                assert (Hin : inner_ok (g_pc s t)) by apply (xw_inner s HW); rewrite Ept in Hin;
                destruct (step_effect eqd hash idx tag nslots seeds grow_needed shrink_policy probe nstripes minlen grow_only s t _ s' ls Hin E) as [Ho _];
                rewrite (Ho u Hne), (step_todo s t _ s' ls E);
                split; [match goal with |- context [if ?c then _ else _] => destruct c end; [apply wake_start|]; exact Hpu | exact Htu]).
      (* PIdle: the invocation *)
      destruct (g_todo s t) as [|o rest] eqn:Et; [unfold XMachine.xstep in E; rewrite Ept, Et in E; discriminate E|].
      rewrite (xstep_idle s t o rest Ept Et) in E.
      assert (H1 : (g_pc (invoked s t o rest) u = PStart \/ g_pc (invoked s t o rest) u = PIdle) /\ g_todo (invoked s t o rest) u = []).
      { cbn [X_term.invoked g_pc g_todo]. destruct (Nat.eq_dec u t); [contradiction | auto]. }
      destruct (step_pc (invoked s t o rest) t (start_pc o)) as [[s2 ls2]|] eqn:E2; inversion E; subst; [|exact H1].
      pose proof (TI_invoked hash idx nslots nstripes minlen Hminlen s t o rest HT Ept) as [HI1 [HW1 _]].
      assert (Hin : inner_ok (start_pc o)) by (pose proof (xw_inner _ HW1 t) as X; cbn [X_term.invoked g_pc] in X; destruct (Nat.eq_dec t t); [exact X | congruence]).
      destruct (step_effect eqd hash idx tag nslots seeds grow_needed shrink_policy probe nstripes minlen grow_only _ t _ s' ls2 Hin E2) as [Ho _].
      rewrite (Ho u Hne), (step_todo _ t _ s' ls2 E2). destruct H1 as [A B].
      split; [destruct (is_bcast (start_pc o)); [apply wake_start|]; exact A | exact B].
  Qed.

  Lemma existsb_ext_in {X} (f g : X -> bool) l : (forall x, In x l -> f x = g x) -> existsb f l = existsb g l.
  Proof. induction l as [|x r IH]; intros H; [reflexivity|]. cbn [existsb]. rewrite (H x (or_introl eq_refl)), IH; [reflexivity|]. intros y Hy. apply H. right. exact Hy. Qed.

  Lemma bpend_ext s s' : (forall u, In u ths -> is_bcast (g_pc s' u) = is_bcast (g_pc s u)) -> bpend s' = bpend s.
  Proof. intros H. unfold bpend. apply existsb_ext_in. exact H. Qed.

  Lemma Msum_ext s s' l : (forall u, In u l -> Mt s' u = Mt s u) -> Msum s' l = Msum s l.
  Proof. induction l as [|u r IH]; intros H; [reflexivity|]. cbn [Msum]. rewrite (H u (or_introl eq_refl)), IH; [reflexivity|]. intros w Hw. apply H. right. exact Hw. Qed.

  Lemma Msum_one_l s s' t l : NoDup l -> In t l -> (forall u, u <> t -> Mt s' u = Mt s u) -> Mt s' t < Mt s t -> Msum s' l < Msum s l.
  Proof.
    intros Hn Hi Ho Hlt. induction l as [|u r IH]; [destruct Hi|].
    apply NoDup_cons_iff in Hn. destruct Hn as [Hu Hr]. cbn [Msum]. destruct Hi as [->|Hi].
    - rewrite (Msum_ext s s' r); [lia|]. intros w Hw. apply Ho. intros ->. contradiction.
    - specialize (IH Hr Hi). rewrite (Ho u); [lia|]. intros ->. contradiction.
  Qed.

  Lemma Msum_one s s' t : In t ths -> (forall u, u <> t -> Mt s' u = Mt s u) -> Mt s' t < Mt s t -> Msum s' ths < Msum s ths.
  Proof. apply Msum_one_l. exact Hnd. Qed.

  Lemma start_not_cas s (o : @xop K V) : cas_wins s (start_pc o) = false.
  Proof. destruct o; cbn [start_pc]; try reflexivity. destruct lie; reflexivity. Qed.
  Lemma start_not_bcast (o : @xop K V) : is_bcast (start_pc o) = false.
  Proof. destruct o; cbn [start_pc]; try reflexivity. destruct lie; reflexivity. Qed.

  Lemma capped_invoked s t o rest : capped s -> capped (invoked s t o rest).
  Proof. intros H. exact H. Qed.

  Lemma mm_le a a' b b' c : a' < a -> b' <= b -> a' + c * b' < a + c * b.
  Proof. intros H1 H2. pose proof (Nat.mul_le_mono_l b' b c H2). lia. Qed.
  Lemma mm_lt a a' b b' k : a' <= a + k -> b' < b -> a' + (k + 1) * b' < a + (k + 1) * b.
  Proof. intros H1 H2. assert (H3 : S b' <= b) by lia. pose proof (Nat.mul_le_mono_l (S b') b (k + 1) H3). lia. Qed.

  Lemma MM_in s t s' ls : FInv s -> In t ths -> xstep s t = Some (s', ls) -> MM s' < MM s.
  Proof.
    intros [HT [HG HO]] Ht E. pose proof (SB_le s t s' ls HT HG E) as Hsb. unfold MM.
    destruct (g_pc s t) eqn:Ept.
    all: try (rewrite (xstep_pc s t) in E by (rewrite Ept; discriminate);
              destruct (Msum_step s t (g_pc s t) s' ls HT (Good_cap s HG) Ht eq_refl E) as [M1 M2]; rewrite Ept in M1, M2;
              cbn [cas_wins] in M1, M2; specialize (M1 eq_refl); apply mm_le; assumption).
    - (* PIdle *)
      destruct (g_todo s t) as [|o rest] eqn:Et; [unfold XMachine.xstep in E; rewrite Ept, Et in E; discriminate E|].
      rewrite (xstep_idle s t o rest Ept Et) in E.
      pose proof (TI_invoked hash idx nslots nstripes minlen Hminlen s t o rest HT Ept) as HT1.
      assert (Hb : bpend (invoked s t o rest) = bpend s).
      { apply bpend_ext. intros u _. cbn [X_term.invoked g_pc]. destruct (Nat.eq_dec u t) as [->|]; [rewrite Ept; apply start_not_bcast | reflexivity]. }
      assert (H1 : Msum (invoked s t o rest) ths < Msum s ths).
      { apply (Msum_one s (invoked s t o rest) t Ht).
        - intros u Hne. unfold Mt, lamS. rewrite Hb. cbn [X_term.invoked g_pc g_todo g_resizing g_cur]. destruct (Nat.eq_dec u t); [contradiction | reflexivity].
        - unfold Mt, lamS. rewrite Hb. cbn [X_term.invoked g_pc g_todo g_resizing g_cur]. destruct (Nat.eq_dec t t) as [_|Hx]; [|exfalso; apply Hx; reflexivity].
          rewrite Ept, Et. cbn [lam length]. pose proof (lam_start_KK (g_resizing s) (g_cur s) (bpend s) o). lia. }
      destruct (step_pc (invoked s t o rest) t (start_pc o)) as [[s2 ls2]|] eqn:E2; inversion E; subst; [|apply mm_le; assumption].
      assert (Ep1 : g_pc (invoked s t o rest) t = start_pc o) by (cbn [X_term.invoked g_pc]; destruct (Nat.eq_dec t t); [reflexivity | congruence]).
      destruct (Msum_step (invoked s t o rest) t (start_pc o) s' ls2 HT1 (capped_invoked s t o rest (Good_cap s HG)) Ht Ep1 E2) as [M1 _].
      specialize (M1 (start_not_cas _ o)). apply mm_le; [lia | assumption].
    - (* PR_CAS *)
      rewrite (xstep_pc s t) in E by (rewrite Ept; discriminate).
      destruct (Msum_step s t (g_pc s t) s' ls HT (Good_cap s HG) Ht eq_refl E) as [M1 M2]. rewrite Ept in M1, M2. cbn [cas_wins] in M1, M2.
      destruct (g_resizing s) eqn:Er; cbn [negb] in M1, M2; [specialize (M1 eq_refl); apply mm_le; assumption|].
      specialize (M2 eq_refl).
      assert (Hlt : SB s' < SB s) by (apply (SB_lt s t s' ls hn kt HT HG); [rewrite (xstep_pc s t) by (rewrite Ept; discriminate); exact E | exact Ept | exact Er]).
      apply mm_lt; assumption.
  Qed.

  Lemma MM_out s t s' ls : FInv s -> ~ In t ths -> xstep s t = Some (s', ls) ->
    MM s' <= MM s /\ forall u, In u ths -> enabled s' u = enabled s u.
  Proof.
    intros [HT [HG HO]] Ht E. pose proof (SB_le s t s' ls HT HG E) as Hsb. destruct (HO t Ht) as [Hp Htd].
    unfold XMachine.xstep in E. destruct Hp as [Ep|Ep]; rewrite Ep in E; [|rewrite Htd in E; discriminate E].
    cbn [XMachine.step_pc] in E. inversion E; subst s' ls. split.
    - unfold MM. rewrite (Msum_ext s (set_pc s t PIdle) ths); [pose proof (Nat.mul_le_mono_l _ _ (length ths * KR + 1) Hsb); lia|].
      intros u Hu. assert (Hne : u <> t) by (intros ->; contradiction).
      unfold Mt, lamS. rewrite (bpend_ext s (set_pc s t PIdle)).
      + cbn [set_pc g_pc g_todo g_resizing g_cur]. destruct (Nat.eq_dec u t); [contradiction | reflexivity].
      + intros w Hw. cbn [set_pc g_pc]. destruct (Nat.eq_dec w t) as [->|]; [contradiction | reflexivity].
    - intros u Hu. apply enabled_set_pc. intros ->. contradiction.
  Qed.

  (* ---- somebody in ths can move ---- *)

  Lemma in_ths_of_pc s u : OUT s -> g_pc s u <> PStart -> g_pc s u <> PIdle -> In u ths.
  Proof. intros HO H1 H2. destruct (in_dec Nat.eq_dec u ths) as [H|H]; [exact H|]. destruct (HO u H) as [[E|E] _]; contradiction. Qed.

  Lemma blocked_enabled_in s t : XI2 s -> OUT s -> In t ths -> g_pc s t <> PIdle -> (forall hn kt, g_pc s t <> PT_Waiting hn kt) ->
    exists u, In u ths /\ enabled s u = true.
  Proof.
    intros [HI HW] HO Ht Hni Hnw. destruct (step_pc s t (g_pc s t)) as [[s' ls]|] eqn:E.
    - exists t. split; [exact Ht|]. unfold XMachine.enabled. rewrite xstep_pc by exact Hni. rewrite E. reflexivity.
    - destruct (blocked_why eqd hash idx tag nslots seeds grow_needed shrink_policy probe nstripes minlen grow_only s t _ E)
        as [[tab [b [u [W Hl]]]]|[[W [u Hm]]|[[hn [kt Ew]]|[Ei|[[r Er]|[k [lc [tab [h [bi Ee]]]]]]]]]].
      + assert (Htab : tab < length (g_tabs s)).
        { eapply (waits_lock_valid hash idx tag nslots seeds grow_needed shrink_policy nstripes); [apply (xi_valid _ _ _ _ s HI t) | exact W]. }
        exists u. split; [|eapply (lock_holder_enabled eqd hash idx tag nslots seeds grow_needed shrink_policy probe nstripes minlen grow_only); eassumption].
        pose proof (xi_lockB _ _ _ _ s HI tab b u Htab Hl) as Hh.
        apply (in_ths_of_pc s u HO); intros Eu; rewrite Eu in Hh; discriminate Hh.
      + exists u. split; [|apply (mu_holder_enabled eqd hash idx tag nslots seeds grow_needed shrink_policy probe nstripes minlen grow_only); assumption].
        pose proof (xi_muB _ _ _ _ s HI u Hm) as Hh. apply (in_ths_of_pc s u HO); intros Eu; rewrite Eu in Hh; discriminate Hh.
      + exfalso. eapply Hnw. exact Ew.
      + contradiction.
      + exfalso. eapply (xw_ret s HW). exact Er.
      + exfalso. pose proof (xi_valid _ _ _ _ s HI t) as Hv. rewrite Ee in Hv. cbn in Hv. destruct Hv as [_ Hv]. apply Hv. reflexivity.
  Qed.

  Lemma done_dec_t (s : xstate) t : (g_pc s t = PIdle /\ g_todo s t = []) \/ ~ (g_pc s t = PIdle /\ g_todo s t = []).
  Proof.
    destruct (g_todo s t); [|right; intros [_ H]; discriminate H].
    destruct (g_pc s t); try (right; intros [H _]; discriminate H). left. split; reflexivity.
  Qed.

  Lemma all_done_dec_l (s : xstate) l : (forall t, In t l -> g_pc s t = PIdle /\ g_todo s t = []) \/ exists t, In t l /\ ~ (g_pc s t = PIdle /\ g_todo s t = []).
  Proof.
    induction l as [|u r IH]; [left; intros t []|].
    destruct (done_dec_t s u) as [Hu|Hu]; [|right; exists u; split; [left; reflexivity | exact Hu]].
    destruct IH as [H|[t [Ht Hn]]]; [left; intros t [<-|Ht]; [exact Hu | apply H; exact Ht] | right; exists t; split; [right; exact Ht | exact Hn]].
  Qed.

  Lemma all_done_dec s : all_done s \/ exists t, In t ths /\ ~ (g_pc s t = PIdle /\ g_todo s t = []).
  Proof. apply all_done_dec_l. Qed.

  Lemma live_in s : FInv s -> ~ all_done s -> exists u, In u ths /\ enabled s u = true.
  Proof.
    intros [HT [HG HO]] Hnd'. pose proof HT as [HI [HW _]].
    destruct (all_done_dec s) as [H|[t [Ht Hnf]]]; [contradiction|].
    destruct (g_pc s t) eqn:Hp.
    all: try (apply (blocked_enabled_in s t (conj HI HW) HO Ht); rewrite Hp; [discriminate | intros; discriminate]).
    - (* PIdle with work to do *)
      exists t. split; [exact Ht|]. unfold XMachine.enabled, XMachine.xstep. rewrite Hp.
      destruct (g_todo s t) eqn:Et; [exfalso; apply Hnf; split; reflexivity|].
      destruct (XMachine.step_pc _ _ _ _ _ _ _ _ _ _ _ _ _ _ _); [destruct p|]; reflexivity.
    - (* in the wait set *)
      destruct (xw_waiting s HW t hn kt Hp) as [Hr|[u [kt' Hu]]].
      + destruct (xi_rzC _ _ _ _ s HI Hr) as [r Hrz].
        assert (Hir : In r ths) by (apply (in_ths_of_pc s r HO); intros Eu; rewrite Eu in Hrz; discriminate Hrz).
        apply (blocked_enabled_in s r (conj HI HW) HO Hir); intros; intro E; rewrite E in Hrz; discriminate.
      + assert (Hiu : In u ths) by (apply (in_ths_of_pc s u HO); rewrite Hu; discriminate).
        apply (blocked_enabled_in s u (conj HI HW) HO Hiu); rewrite Hu; [discriminate | intros; discriminate].
  Qed.

  (* fair termination, for a system with a bound SB on the resizes to come and caps on its tables *)
  Theorem fair_cond sigma s : fair sigma -> FInv s -> exists n, all_done (run_to sigma n s).
  Proof.
    intros Hf HI.
    apply (fair_scheme FInv MM FInv_step MM_in MM_out live_in) with (k := MM s); [|exact Hf | exact HI | apply le_n].
    intros s0 _. destruct (all_done_dec s0) as [H|[t [Ht Hn]]]; [left; exact H | right; intros H; apply Hn; apply H; exact Ht].
  Qed.

End Fair.

(* ================================================================================================================ *)
(* the bound on the resizes and the caps, for every system: entries, counter stripes, chain lengths *)

Section Full.
  Context {K V : Type}.
  Variable eqd : forall a b : K, {a = b} + {a <> b}.
  Variable hash : K -> N -> N.
  Variable idx : N -> nat -> nat.
  Variable tag : N -> N.
  Variable nslots : nat.
  Variable seeds : nat -> N.
  Variable grow_needed : nat -> Z -> bool.
  Variable shrink_policy : nat -> Z -> bool.
  Variable probe : list (option N) -> N -> list nat.
  Variable nstripes : nat -> nat.
  Variable minlen : nat.
  Variable grow_only : bool.

  Notation slot := (@slot K V).
  Notation xtable := (@xtable K V).
  Notation xstate := (@xstate K V).
  Notation pc := (@pc K V).
  Notation xlabel := (@xlabel K V).
  Notation tab_at := (@tab_at K V nslots nstripes).
  Notation step_pc := (@step_pc K V eqd hash idx tag nslots seeds grow_needed shrink_policy probe nstripes minlen grow_only).
  Notation xstep := (@xstep K V eqd hash idx tag nslots seeds grow_needed shrink_policy probe nstripes minlen grow_only).
  Notation XInv := (@X_inv.XInv K V hash idx nslots nstripes).
  Notation valid := (@valid K V hash idx nslots nstripes).
  Notation TI := (@TI K V hash idx nslots nstripes).
  Notation ecount := (@ecount K V).
  Notation nentc := (@nentc K V).
  Notation rest_ent := (@rest_ent K V).
  Notation invoked := (@invoked K V).

  Hypothesis Hidx : forall h len, 0 < len -> idx h len < len.
  Hypothesis Hstripes : forall len, 0 < nstripes len.
  Hypothesis Hminlen : 0 < minlen.

  Variable ths : list nat.
  Hypothesis Hnd : NoDup ths.
  Variable Ctot : nat.                      (* the number of calls of the whole run *)

  (* ---------------- sums over the threads ---------------- *)

  Fixpoint psum (f : nat -> nat) (l : list nat) : nat := match l with [] => 0 | t :: r => f t + psum f r end.

  Lemma psum_ext f g l : (forall u, In u l -> f u = g u) -> psum f l = psum g l.
  Proof. induction l as [|u r IH]; intros H; [reflexivity|]. cbn [psum]. rewrite (H u (or_introl eq_refl)), IH; [reflexivity|]. intros w Hw. apply H. right. exact Hw. Qed.

  Lemma psum_upd f g l t : NoDup l -> In t l -> (forall u, u <> t -> g u = f u) -> psum g l + f t = psum f l + g t.
  Proof.
    intros Hn Hi Ho. induction l as [|u r IH]; [destruct Hi|]. apply NoDup_cons_iff in Hn. destruct Hn as [Hu Hr].
    cbn [psum]. destruct Hi as [->|Hi].
    - rewrite (psum_ext g f r); [lia|]. intros w Hw. apply Ho. intros ->. contradiction.
    - specialize (IH Hr Hi). rewrite (Ho u); [lia|]. intros ->. contradiction.
  Qed.

  Lemma psum_zero l : psum (fun _ => 0) l = 0.
  Proof. induction l; cbn; auto. Qed.

  Lemma psum_le f l n : (forall u, f u <= n) -> psum f l <= length l * n.
  Proof. intros H. induction l as [|u r IH]; cbn [psum length]; [lia|]. specialize (H u). lia. Qed.

  (* ---------------- what a program counter still may do ---------------- *)

  Definition ktr (kt : @cont K V) : nat := match kt with KRetry _ => 1 | KReturn _ => 0 end.
  Definition lcr (lc : @lcont K V) : nat := match lc with LFast _ => 1 | LPlain => 0 end.

  (* 1: the call may still store an entry *)
  Fixpoint mayins (p : pc) : nat :=
    match p with
    | PL_Table _ lc | PL_Meta _ lc _ _ _ | PL_Ent _ lc _ _ _ _ | PL_Next _ lc _ _ _ => lcr lc
    | PW_Table _ | PW_Lock _ _ | PW_ChkRes _ _ | PW_ChkTab _ _ | PW_I1 _ _ _ _ | PW_I2 _ _ _ _ | PW_Sum _ _ _ _ | PW_N1 _ _ _
    | PW_U1 _ _ _ _ _ => 1
    | PW_Unlock _ _ a => mayins a
    | PR_FastSum _ kt _ _ | PR_CAS _ kt | PR_Table _ kt | PR_ShSum kt _ _ _ | PR_Stat _ kt _ | PR_CpLock _ kt _ _ _
    | PR_CpUnlock _ kt _ _ _ | PR_Publish kt _ | PR_FinLock kt | PR_FinStore kt | PR_FinBcast kt | PR_FinUnlock kt => ktr kt
    | PT_Lock _ kt | PT_Load _ kt | PT_Wait _ kt | PT_Waiting _ kt | PT_Relock _ kt | PT_Unlock _ kt => ktr kt
    | _ => 0
    end.

  (* 1: the thread still owes  +1  to the counter of table tab *)
  Fixpoint padd (tab : nat) (p : pc) : nat :=
    match p with
    | PW_Unlock _ _ a => padd tab a
    | PW_Add tab' _ d _ => if Nat.eqb tab' tab && Z.eqb d 1 then 1 else 0
    | _ => 0
    end.

  Lemma mayins_wake (p : pc) : mayins (wake p) = mayins p. Proof. destruct p; reflexivity. Qed.
  Lemma padd_wake tab (p : pc) : padd tab (wake p) = padd tab p. Proof. destruct p; reflexivity. Qed.
  Lemma mayins_le1 (p : pc) : mayins p <= 1.
  Proof. induction p; cbn [mayins]; try lia; try (destruct lc; cbn; lia); try (destruct kt; cbn; lia). Qed.

  Definition Npre (s : xstate) : nat := psum (fun t => length (g_todo s t) + mayins (g_pc s t)) ths.
  Definition Padd (s : xstate) (tab : nat) : nat := psum (fun t => padd tab (g_pc s t)) ths.

  Definition posz (z : Z) : nat := Z.to_nat z.
  Definition spos (l : list Z) : nat := lsum (map posz l).
  Definition nbk (s : xstate) (tab b : nat) : nat := nbuckets nslots (chain_of (tab_at s tab) b).
  (* the entries of the first i chains *)
  Definition EP (s : xstate) (tab i : nat) : nat := lsum (map nentc (firstn i (x_chains (tab_at s tab)))).
  Definition notnew (s : xstate) (tab : nat) : Prop := forall u, X_own.newtab (g_pc s u) <> Some tab.
  (* a private new table: no bucket is longer than its entries make it *)
  Definition NB2 (s : xstate) (new : nat) : Prop := forall b, nbk s new b <= 1 + nentc (chain_of (tab_at s new) b).

  (* the counter is only ever moved by one *)
  Fixpoint dok (p : pc) : Prop :=
    match p with
    | PW_Unlock _ _ a => dok a
    | PW_Add _ _ d _ => (d = 1 \/ d = -1)%Z
    | _ => True
    end.
  Lemma dok_wake (p : pc) : dok p -> dok (wake p). Proof. destruct p; cbn; auto. Qed.
  Lemma dok_norm (p : pc) : dok p -> dok (norm p). Proof. destruct p; cbn; auto. Qed.

  Record XE (s : xstate) : Prop := {
    xe_d : forall t, dok (g_pc s t);
    xe_ei : forall tab, tab < length (g_tabs s) -> notnew s tab -> ecount (tab_at s tab) + Npre s <= Ctot;
    xe_ri : forall tab, tab < length (g_tabs s) -> notnew s tab -> spos (x_size (tab_at s tab)) + Npre s + Padd s tab <= Ctot;
    xe_qi : forall t cx tab i acc, g_pc s t = PW_Sum cx tab i acc ->
              (acc + Z.of_nat (spos (skipn i (x_size (tab_at s tab)))) + Z.of_nat (Npre s + Padd s tab) <= Z.of_nat Ctot)%Z;
    xe_nb : forall tab b, tab < length (g_tabs s) -> notnew s tab -> nbk s tab b + Npre s <= 1 + Ctot;
    xe_pg : forall t old new i, X_resize.progress (g_pc s t) = Some (old, new, i) ->
              ecount (tab_at s new) + rest_ent (tab_at s old) i + Npre s <= Ctot
              /\ spos (x_size (tab_at s new)) + rest_ent (tab_at s old) i + Npre s <= Ctot /\ NB2 s new;
    xe_pub : forall t kt new, g_pc s t = PR_Publish kt new ->
              ecount (tab_at s new) + Npre s <= Ctot /\ spos (x_size (tab_at s new)) + Npre s <= Ctot /\ NB2 s new;
  }.

  (* ---------------- steps that touch neither chains nor counters ---------------- *)

  Definition same_data (s s' : xstate) : Prop :=
    length (g_tabs s') = length (g_tabs s)
    /\ forall tab, x_chains (tab_at s' tab) = x_chains (tab_at s tab) /\ x_size (tab_at s' tab) = x_size (tab_at s tab).

  Lemma same_data_acc s s' : same_data s s' ->
    (forall tab, ecount (tab_at s' tab) = ecount (tab_at s tab) /\ x_size (tab_at s' tab) = x_size (tab_at s tab))
    /\ (forall tab b, nbk s' tab b = nbk s tab b /\ chain_of (tab_at s' tab) b = chain_of (tab_at s tab) b)
    /\ (forall tab i, rest_ent (tab_at s' tab) i = rest_ent (tab_at s tab) i).
  Proof.
    intros [_ H]. split; [|split].
    - intros tab. destruct (H tab) as [A B]. unfold X_term.ecount, rest_ent. rewrite A. auto.
    - intros tab b. destruct (H tab) as [A _]. unfold nbk, chain_of. rewrite A. auto.
    - intros tab i. destruct (H tab) as [A _]. unfold rest_ent. rewrite A. reflexivity.
  Qed.

  Lemma XE_mono s s' : XE s -> same_data s s' -> g_cur s' = g_cur s ->
    Npre s' <= Npre s -> (forall tab, Padd s' tab <= Padd s tab) ->
    (forall u tab, X_own.newtab (g_pc s u) = Some tab -> exists u', X_own.newtab (g_pc s' u') = Some tab) ->
    (forall u x, X_resize.progress (g_pc s' u) = Some x -> exists u', X_resize.progress (g_pc s u') = Some x) ->
    (forall u kt new, g_pc s' u = PR_Publish kt new -> exists u', g_pc s u' = PR_Publish kt new) ->
    (forall u cx tab i acc, g_pc s' u = PW_Sum cx tab i acc ->
       (exists u', g_pc s u' = PW_Sum cx tab i acc)
       \/ (acc + Z.of_nat (spos (skipn i (x_size (tab_at s tab)))) + Z.of_nat (Npre s + Padd s tab) <= Z.of_nat Ctot)%Z) ->
    (forall u, dok (g_pc s' u)) ->
    XE s'.
  Proof.
    intros HE HD Hc Hn Hp Hnew Hpg Hpub Hsum Hdk. pose proof HD as [Hl _]. destruct (same_data_acc s s' HD) as [D1 [D2 D3]].
    assert (Hnn : forall tab, notnew s' tab -> notnew s tab).
    { intros tab H u E. destruct (Hnew u tab E) as [u' E']. exact (H u' E'). }
    constructor.
    - exact Hdk.
    - intros tab Ht Hnw. rewrite Hl in Ht. rewrite (proj1 (D1 tab)). pose proof (xe_ei s HE tab Ht (Hnn tab Hnw)). lia.
    - intros tab Ht Hnw. rewrite Hl in Ht. rewrite (proj2 (D1 tab)). pose proof (xe_ri s HE tab Ht (Hnn tab Hnw)). specialize (Hp tab). lia.
    - intros t cx tab i acc E. rewrite (proj2 (D1 tab)). specialize (Hp tab). destruct (Hsum t cx tab i acc E) as [[u' E']|H].
      + pose proof (xe_qi s HE u' cx tab i acc E'). lia.
      + lia.
    - intros tab b Ht Hnw. rewrite Hl in Ht. rewrite (proj1 (D2 tab b)). pose proof (xe_nb s HE tab b Ht (Hnn tab Hnw)). lia.
    - intros t old new i E. destruct (Hpg t _ E) as [u' E']. destruct (xe_pg s HE u' old new i E') as [A [B C]].
      rewrite (proj1 (D1 new)), (proj2 (D1 new)), D3. split; [lia|]. split; [lia|].
      intros b. rewrite (proj1 (D2 new b)), (proj2 (D2 new b)). apply C.
    - intros t kt new E. destruct (Hpub t kt new E) as [u' E']. destruct (xe_pub s HE u' kt new E') as [A [B C]].
      rewrite (proj1 (D1 new)), (proj2 (D1 new)). split; [lia|]. split; [lia|].
      intros b. rewrite (proj1 (D2 new b)), (proj2 (D2 new b)). apply C.
  Qed.

  Notation XW := (@XW K V).
  Notation is_bcast := (@is_bcast K V).

  Lemma step_todo_f s t p s' ls : step_pc s t p = Some (s', ls) -> g_todo s' = g_todo s.
  Proof.
    intros Hs. destruct p; cbn [XMachine.step_pc] in Hs; cbv zeta in Hs;
      repeat match type of Hs with context [match ?x with _ => _ end] => destruct x eqn:? end;
      try discriminate Hs; apply some_fst_f in Hs; subst s'; rewrite ?goto_state; reflexivity.
  Qed.

  Lemma others_step s t p s' ls : TI s -> g_pc s t = p -> step_pc s t p = Some (s', ls) ->
    forall u, u <> t -> g_pc s' u = g_pc s u \/ g_pc s' u = wake (g_pc s u).
  Proof.
    intros [HI [HW _]] Hp Hs u Hne.
    assert (Hin : inner_ok p) by (rewrite <- Hp; apply (xw_inner s HW)).
    destruct (step_effect eqd hash idx tag nslots seeds grow_needed shrink_policy probe nstripes minlen grow_only s t p s' ls Hin Hs) as [Ho _].
    rewrite (Ho u Hne). destruct (is_bcast p); [right | left]; reflexivity.
  Qed.

  Lemma sums_step s t p s' ls : TI s -> In t ths -> g_pc s t = p -> step_pc s t p = Some (s', ls) ->
    Npre s' + mayins p = Npre s + mayins (g_pc s' t)
    /\ forall tab, Padd s' tab + padd tab p = Padd s tab + padd tab (g_pc s' t).
  Proof.
    intros HT Ht Hp Hs. pose proof (others_step s t p s' ls HT Hp Hs) as Ho. pose proof (step_todo_f s t p s' ls Hs) as Htd. split.
    - unfold Npre.
      pose proof (psum_upd (fun u => length (g_todo s u) + mayins (g_pc s u)) (fun u => length (g_todo s' u) + mayins (g_pc s' u)) ths t Hnd Ht) as H.
      cbv beta in H. rewrite Htd, Hp in H. rewrite Htd. 
      assert (Hx : forall u, u <> t -> length (g_todo s u) + mayins (g_pc s' u) = length (g_todo s u) + mayins (g_pc s u)).
      { intros u Hne. destruct (Ho u Hne) as [E|E]; rewrite E, ?mayins_wake; reflexivity. }
      specialize (H Hx). lia.
    - intros tab. unfold Padd.
      pose proof (psum_upd (fun u => padd tab (g_pc s u)) (fun u => padd tab (g_pc s' u)) ths t Hnd Ht) as H. cbv beta in H. rewrite Hp in H.
      assert (Hx : forall u, u <> t -> padd tab (g_pc s' u) = padd tab (g_pc s u)).
      { intros u Hne. destruct (Ho u Hne) as [E|E]; rewrite E, ?padd_wake; reflexivity. }
      specialize (H Hx). lia.
  Qed.

  Lemma wake_newtab_f (p : pc) : X_own.newtab (wake p) = X_own.newtab p. Proof. destruct p; reflexivity. Qed.
  Lemma wake_progress_f (p : pc) : X_resize.progress (wake p) = X_resize.progress p. Proof. destruct p; reflexivity. Qed.

  (* a step that changes neither chains nor counters nor the current table, and whose thread claims nothing new *)
  Lemma XE_quiet s t p s' ls : TI s -> XE s -> In t ths -> g_pc s t = p -> step_pc s t p = Some (s', ls) ->
    same_data s s' -> g_cur s' = g_cur s ->
    mayins (g_pc s' t) <= mayins p -> (forall tab, padd tab (g_pc s' t) <= padd tab p) ->
    (forall tab, X_own.newtab p = Some tab -> X_own.newtab (g_pc s' t) = Some tab) ->
    (forall x, X_resize.progress (g_pc s' t) = Some x -> X_resize.progress p = Some x) ->
    (forall kt new, g_pc s' t = PR_Publish kt new -> p = PR_Publish kt new) ->
    (forall cx tab i acc, g_pc s' t = PW_Sum cx tab i acc ->
       p = PW_Sum cx tab i acc
       \/ (acc + Z.of_nat (spos (skipn i (x_size (tab_at s tab)))) + Z.of_nat (Npre s + Padd s tab) <= Z.of_nat Ctot)%Z) ->
    dok (g_pc s' t) ->
    XE s'.
  Proof.
    intros HT HE Ht Hp Hs HD Hc Hm Hpa Hnew Hpg Hpub Hsum Hdk.
    pose proof (others_step s t p s' ls HT Hp Hs) as Ho. destruct (sums_step s t p s' ls HT Ht Hp Hs) as [S1 S2].
    apply (XE_mono s s' HE HD Hc); [lia | intros tab; specialize (S2 tab); specialize (Hpa tab); lia | | | | |].
    - intros u tab E. destruct (Nat.eq_dec u t) as [->|Hne]; [exists t; apply Hnew; rewrite <- Hp; exact E|].
      exists u. destruct (Ho u Hne) as [E'|E']; rewrite E', ?wake_newtab_f; exact E.
    - intros u x E. destruct (Nat.eq_dec u t) as [->|Hne]; [exists t; rewrite Hp; apply Hpg; exact E|].
      exists u. destruct (Ho u Hne) as [E'|E']; rewrite E', ?wake_progress_f in E; exact E.
    - intros u kt new E. destruct (Nat.eq_dec u t) as [->|Hne]; [exists t; rewrite Hp; apply (Hpub kt new); exact E|].
      exists u. destruct (Ho u Hne) as [E'|E']; rewrite E' in E; [exact E | destruct (g_pc s u); cbn [wake] in E; try discriminate E; exact E].
    - intros u cx tab i acc E. destruct (Nat.eq_dec u t) as [->|Hne].
      + destruct (Hsum cx tab i acc E) as [H|H]; [left; exists t; rewrite Hp; exact H | right; exact H].
      + left. exists u. destruct (Ho u Hne) as [E'|E']; rewrite E' in E; [exact E | destruct (g_pc s u); cbn [wake] in E; try discriminate E; exact E].
    - intros u. destruct (Nat.eq_dec u t) as [->|Hne]; [exact Hdk|].
      destruct (Ho u Hne) as [E'|E']; rewrite E'; [|apply dok_wake]; apply (xe_d s HE).
  Qed.


  (* ---------------- one chain changes; one stripe changes ---------------- *)

  Lemma lsum_skip_upd (l : list (list slot)) g de : (forall c, nentc (g c) <= nentc c + de) ->
    forall b i, lsum (map nentc (skipn i (upd_nth l b g))) <= lsum (map nentc (skipn i l)) + de.
  Proof.
    intros Hg. induction l as [|c r IH]; intros b i; [destruct b, i; cbn; lia|].
    destruct b as [|b], i as [|i]; cbn [upd_nth skipn map lsum].
    - specialize (Hg c). lia.
    - lia.
    - specialize (IH b 0). cbn [skipn] in IH. lia.
    - apply IH.
  Qed.

  Lemma rest_ent_set_chain (tb : xtable) b0 g de i : (forall c, nentc (g c) <= nentc c + de) ->
    rest_ent (set_chain tb b0 g) i <= rest_ent tb i + de.
  Proof. intros Hg. unfold X_term.rest_ent, set_chain. cbn [x_chains]. apply lsum_skip_upd. exact Hg. Qed.

  Lemma posz_add z d : posz (z + d) <= posz z + posz d.
  Proof. unfold posz. lia. Qed.

  Lemma spos_skip_upd (l : list Z) d : forall j i, spos (skipn i (upd_nth l j (fun z => (z + d)%Z))) <= spos (skipn i l) + posz d.
  Proof.
    unfold spos. induction l as [|x r IH]; intros j i; [destruct j, i; cbn; lia|].
    destruct j as [|j], i as [|i]; cbn [upd_nth skipn map lsum].
    - pose proof (posz_add x d). lia.
    - lia.
    - specialize (IH j 0). cbn [skipn] in IH. lia.
    - apply IH.
  Qed.

  Lemma tab_at_upd (s s' : xstate) tb0 f tab : g_tabs s' = upd_nth (g_tabs s) tb0 f -> tb0 < length (g_tabs s) ->
    tab_at s' tab = if Nat.eq_dec tab tb0 then f (tab_at s tb0) else tab_at s tab.
  Proof.
    intros E Hl. unfold XMachine.tab_at. rewrite E, nth_upd_nth. destruct (Nat.eq_dec tab tb0); [|reflexivity].
    apply Nat.ltb_lt in Hl. rewrite Hl. reflexivity.
  Qed.

  Notation XT := (@X_own.XT K V).

  Lemma le_cur_notnew s tab : XT s -> tab <= g_cur s -> notnew s tab.
  Proof. intros HT Hle u E. destruct (X_own.xt_new s HT u tab E) as [_ H]. lia. Qed.

  (* a writer stores into (or appends to) chain b0 of table tb0: at most de more entries / buckets, paid by its claim *)
  Lemma XE_slot s t p s' ls tb0 b0 g de : TI s -> XT s -> XE s -> In t ths -> g_pc s t = p -> step_pc s t p = Some (s', ls) ->
    tb0 <= g_cur s -> tb0 < length (g_tabs s) ->
    g_tabs s' = upd_nth (g_tabs s) tb0 (fun tb => set_chain tb b0 g) -> g_cur s' = g_cur s ->
    (forall c, nentc (g c) <= nentc c + de) -> (forall c, nbuckets nslots (g c) <= nbuckets nslots c + de) -> nbuckets nslots (g []) = 0 \/ de = de ->
    mayins (g_pc s' t) + de <= mayins p ->
    (forall tab, padd tab (g_pc s' t) <= padd tab p + (if Nat.eqb tab tb0 then de else 0)) ->
    X_own.newtab p = None -> X_own.newtab (g_pc s' t) = None -> X_resize.progress (g_pc s' t) = None ->
    (forall cx tab i acc, g_pc s' t <> PW_Sum cx tab i acc) -> dok (g_pc s' t) ->
    XE s'.
  Proof.
    intros HT HX HE Ht Hp Hs Hle Hlt Etabs Hc Hg1 Hg2 _ Hm Hpa Hn0 Hn1 Hpg0 Hns Hdk.
    pose proof (others_step s t p s' ls HT Hp Hs) as Ho. destruct (sums_step s t p s' ls HT Ht Hp Hs) as [S1 S2].
    assert (Hl : length (g_tabs s') = length (g_tabs s)) by (rewrite Etabs; apply upd_nth_length).
    assert (Tat : forall tab, tab_at s' tab = if Nat.eq_dec tab tb0 then set_chain (tab_at s tb0) b0 g else tab_at s tab)
      by (intros tab; apply (tab_at_upd s s' tb0 _ tab Etabs Hlt)).
    assert (Hec : forall tab i, rest_ent (tab_at s' tab) i <= rest_ent (tab_at s tab) i + (if Nat.eq_dec tab tb0 then de else 0)).
    { intros tab i. rewrite Tat. destruct (Nat.eq_dec tab tb0) as [->|]; [apply rest_ent_set_chain; exact Hg1 | lia]. }
    assert (Hsz : forall tab, x_size (tab_at s' tab) = x_size (tab_at s tab)).
    { intros tab. rewrite Tat. destruct (Nat.eq_dec tab tb0) as [->|]; reflexivity. }
    assert (Hnb : forall tab b, nbk s' tab b <= nbk s tab b + (if Nat.eq_dec tab tb0 then de else 0)).
    { intros tab b. unfold nbk. rewrite Tat. destruct (Nat.eq_dec tab tb0) as [->|]; [|lia].
      rewrite X_own.chain_of_set_chain. destruct (Nat.eq_dec b b0) as [->|]; [|lia].
      destruct (Nat.ltb b0 (x_len (tab_at s tb0))); [apply Hg2|]. unfold nbuckets. cbn [length].
      assert (Z0 : 0 / nslots = 0) by (destruct nslots; reflexivity). rewrite Z0. lia. }
    assert (Hnew : forall u tab, X_own.newtab (g_pc s' u) = Some tab -> X_own.newtab (g_pc s u) = Some tab).
    { intros u tab E. destruct (Nat.eq_dec u t) as [->|Hne]; [rewrite Hn1 in E; discriminate E|].
      destruct (Ho u Hne) as [E'|E']; rewrite E', ?wake_newtab_f in E; exact E. }
    assert (Hnew' : forall u tab, X_own.newtab (g_pc s u) = Some tab -> X_own.newtab (g_pc s' u) = Some tab).
    { intros u tab E. destruct (Nat.eq_dec u t) as [->|Hne]; [rewrite Hp, Hn0 in E; discriminate E|].
      destruct (Ho u Hne) as [E'|E']; rewrite E', ?wake_newtab_f; exact E. }
    assert (Hnn : forall tab, notnew s' tab -> notnew s tab) by (intros tab H u E; exact (H u (Hnew' u tab E))).
    assert (Hpad : forall tab, Padd s' tab + Npre s' <= Padd s tab + Npre s - (if Nat.eq_dec tab tb0 then 0 else de) /\ Npre s' + de <= Npre s).
    { intros tab. specialize (S2 tab). specialize (Hpa tab). destruct (Nat.eq_dec tab tb0) as [->|Hne].
      - rewrite Nat.eqb_refl in Hpa. lia.
      - apply Nat.eqb_neq in Hne. rewrite Hne in Hpa. lia. }
    constructor.
    - intros u. destruct (Nat.eq_dec u t) as [->|Hne]; [exact Hdk|].
      destruct (Ho u Hne) as [E'|E']; rewrite E'; [|apply dok_wake]; apply (xe_d s HE).
    - intros tab Htab Hnw. rewrite Hl in Htab. pose proof (xe_ei s HE tab Htab (Hnn tab Hnw)) as H.
      pose proof (Hec tab 0) as He. change (rest_ent (tab_at s' tab) 0) with (ecount (tab_at s' tab)) in He.
      change (rest_ent (tab_at s tab) 0) with (ecount (tab_at s tab)) in He. destruct (Hpad tab) as [_ P2]. destruct (Nat.eq_dec tab tb0); lia.
    - intros tab Htab Hnw. rewrite Hl in Htab. rewrite Hsz. pose proof (xe_ri s HE tab Htab (Hnn tab Hnw)) as H. destruct (Hpad tab) as [P1 P2].
      destruct (Nat.eq_dec tab tb0); lia.
    - intros u cx tab i acc E. assert (Hne : u <> t) by (intros ->; exact (Hns cx tab i acc E)).
      assert (E' : g_pc s u = PW_Sum cx tab i acc).
      { destruct (Ho u Hne) as [X|X]; rewrite X in E; [exact E | destruct (g_pc s u); cbn [wake] in E; try discriminate E; exact E]. }
      rewrite Hsz. pose proof (xe_qi s HE u cx tab i acc E') as H. destruct (Hpad tab) as [P1 P2]. destruct (Nat.eq_dec tab tb0); lia.
    - intros tab b Htab Hnw. rewrite Hl in Htab. pose proof (xe_nb s HE tab b Htab (Hnn tab Hnw)) as H. pose proof (Hnb tab b). destruct (Hpad tab) as [_ P2].
      destruct (Nat.eq_dec tab tb0); lia.
    - intros u old new i E. assert (Hne : u <> t) by (intros ->; rewrite Hpg0 in E; discriminate E).
      assert (E' : X_resize.progress (g_pc s u) = Some (old, new, i)) by (destruct (Ho u Hne) as [X|X]; rewrite X, ?wake_progress_f in E; exact E).
      destruct (xe_pg s HE u old new i E') as [A [B C]].
      assert (Hnt : X_own.newtab (g_pc s u) = Some new) by (destruct (g_pc s u); cbn in E'; try discriminate E'; inversion E'; subst; reflexivity).
      assert (Hnb0 : new <> tb0) by (destruct (X_own.xt_new s HX u new Hnt) as [_ H]; lia).
      assert (Tn : tab_at s' new = tab_at s new) by (rewrite Tat; destruct (Nat.eq_dec new tb0); [contradiction | reflexivity]).
      rewrite Tn. pose proof (Hec old i) as He. destruct (Hpad old) as [_ P2].
      split; [destruct (Nat.eq_dec old tb0); lia|]. split; [destruct (Nat.eq_dec old tb0); lia|].
      intros b. unfold NB2, nbk in *. rewrite Tn. apply C.
    - intros u kt new E. assert (Hne : u <> t) by (intros ->; rewrite E in Hn1; discriminate Hn1).
      assert (E' : g_pc s u = PR_Publish kt new).
      { destruct (Ho u Hne) as [X|X]; rewrite X in E; [exact E | destruct (g_pc s u); cbn [wake] in E; try discriminate E; exact E]. }
      destruct (xe_pub s HE u kt new E') as [A [B C]].
      assert (Hnb0 : new <> tb0) by (destruct (X_own.xt_new s HX u new ltac:(rewrite E'; reflexivity)) as [_ H]; lia).
      assert (Tn : tab_at s' new = tab_at s new) by (rewrite Tat; destruct (Nat.eq_dec new tb0); [contradiction | reflexivity]).
      rewrite Tn. destruct (Hpad new) as [_ P2]. split; [lia|]. split; [lia|]. intros b. unfold NB2, nbk in *. rewrite Tn. apply C.
  Qed.


  (* table.addSize *)
  Lemma XE_add s t tb0 b d (after : pc) s' ls : TI s -> XT s -> XE s -> In t ths -> g_pc s t = PW_Add tb0 b d after ->
    step_pc s t (PW_Add tb0 b d after) = Some (s', ls) -> XE s'.
  Proof.
    intros HT HX HE Ht Hp Hs. pose proof HT as [HI [HW HK]].
    pose proof (xi_valid _ _ _ _ s HI t) as Hv. rewrite Hp in Hv. cbn [valid] in Hv. destruct Hv as [Hlt [_ [_ _]]].
    pose proof (HK t) as Hrk. rewrite Hp in Hrk. cbn [rk_ok] in Hrk. destruct Hrk as [Ha Hra].
    pose proof (xe_d s HE t) as Hd. rewrite Hp in Hd. cbn [dok] in Hd.
    pose proof (X_own.xt_le s HX t) as Hle. rewrite Hp in Hle. cbn [X_own.tabs_le] in Hle. destruct Hle as [Hle _].
    pose proof (others_step s t _ s' ls HT Hp Hs) as Ho. destruct (sums_step s t _ s' ls HT Ht Hp Hs) as [S1 S2].
    assert (Ea : mayins after = 0 /\ (forall tab, padd tab after = 0) /\ X_own.newtab after = None /\ X_resize.progress after = None
                 /\ (forall cx tab i acc, norm after <> PW_Sum cx tab i acc) /\ dok (norm after)).
    { destruct after; try contradiction; cbn [mayins padd X_own.newtab X_resize.progress norm dok rk_ok] in *.
      - repeat split; try reflexivity; intros; discriminate.
      - destruct kt; [discriminate Hra|]. repeat split; try reflexivity; intros; discriminate. }
    destruct Ea as [Ea1 [Ea2 [Ea3 [Ea4 [Ea5 Ea6]]]]].
    pose proof Hs as Hs0. cbn [XMachine.step_pc] in Hs. cbv zeta in Hs. apply some_fst_f in Hs. rewrite goto_state in Hs.
    assert (Epc : g_pc s' t = norm after) by (rewrite Hs; cbn [g_pc set_pc]; destruct (Nat.eq_dec t t); [reflexivity | congruence]).
    assert (Etabs : g_tabs s' = upd_nth (g_tabs s) tb0 (fun tb => add_size tb b d)) by (rewrite Hs; reflexivity).
    assert (Hc : g_cur s' = g_cur s) by (rewrite Hs; reflexivity).
    assert (Hl : length (g_tabs s') = length (g_tabs s)) by (rewrite Etabs; apply upd_nth_length).
    assert (Tat : forall tab, tab_at s' tab = if Nat.eq_dec tab tb0 then add_size (tab_at s tb0) b d else tab_at s tab)
      by (intros tab; apply (tab_at_upd s s' tb0 _ tab Etabs Hlt)).
    assert (Hch : forall tab, x_chains (tab_at s' tab) = x_chains (tab_at s tab)) by (intros tab; rewrite Tat; destruct (Nat.eq_dec tab tb0) as [->|]; reflexivity).
    assert (Hsz : forall tab i, spos (skipn i (x_size (tab_at s' tab))) <= spos (skipn i (x_size (tab_at s tab))) + (if Nat.eq_dec tab tb0 then posz d else 0)).
    { intros tab i. rewrite Tat. destruct (Nat.eq_dec tab tb0) as [->|]; [|lia]. unfold add_size. cbn [x_size]. apply spos_skip_upd. }
    assert (Hnorm : mayins (norm after) = 0 /\ forall tab, padd tab (norm after) = 0) by (destruct after; cbn [norm mayins padd] in *; auto).
    destruct Hnorm as [N1 N2].
    assert (HN : Npre s' = Npre s) by (rewrite Epc, N1 in S1; cbn [mayins] in S1; lia).
    assert (HP : forall tab, Padd s' tab + (if Nat.eq_dec tab tb0 then posz d else 0) <= Padd s tab).
    { intros tab. specialize (S2 tab). rewrite Epc, N2 in S2. cbn [padd] in S2.
      destruct (Nat.eq_dec tab tb0) as [->|Hne]; [rewrite Nat.eqb_refl in S2; cbn [andb] in S2|lia].
      destruct Hd as [-> | ->]; cbn in S2 |- *; lia. }
    assert (Hnew : forall u tab, X_own.newtab (g_pc s u) = Some tab -> X_own.newtab (g_pc s' u) = Some tab).
    { intros u tab E. destruct (Nat.eq_dec u t) as [->|Hne]; [rewrite Hp in E; cbn in E; discriminate E|].
      destruct (Ho u Hne) as [E'|E']; rewrite E', ?wake_newtab_f; exact E. }
    assert (Hnn : forall tab, notnew s' tab -> notnew s tab) by (intros tab H u E; exact (H u (Hnew u tab E))).
    assert (Hoth : forall u, u <> t -> forall q, (forall hn kt, q <> PT_Relock hn kt) -> g_pc s' u = q -> g_pc s u = q).
    { intros u Hne q Hq E. destruct (Ho u Hne) as [X|X]; rewrite X in E; [exact E|]. destruct (g_pc s u); cbn [wake] in E; try exact E. exfalso. eapply Hq. symmetry. exact E. }
    assert (Hec : forall tab i, rest_ent (tab_at s' tab) i = rest_ent (tab_at s tab) i) by (intros; unfold X_term.rest_ent; rewrite Hch; reflexivity).
    assert (Hnbk : forall tab b1, nbk s' tab b1 = nbk s tab b1 /\ chain_of (tab_at s' tab) b1 = chain_of (tab_at s tab) b1) by (intros; unfold nbk, chain_of; rewrite Hch; auto).
    constructor.
    - intros u. destruct (Nat.eq_dec u t) as [->|Hne]; [rewrite Epc; exact Ea6|].
      destruct (Ho u Hne) as [E'|E']; rewrite E'; [|apply dok_wake]; apply (xe_d s HE).
    - intros tab Htab Hnw. rewrite Hl in Htab. pose proof (xe_ei s HE tab Htab (Hnn tab Hnw)) as H.
      change (ecount (tab_at s' tab)) with (rest_ent (tab_at s' tab) 0). rewrite Hec. change (rest_ent (tab_at s tab) 0) with (ecount (tab_at s tab)). lia.
    - intros tab Htab Hnw. rewrite Hl in Htab. pose proof (xe_ri s HE tab Htab (Hnn tab Hnw)) as H. pose proof (Hsz tab 0) as Z0. cbn [skipn] in Z0.
      specialize (HP tab). destruct (Nat.eq_dec tab tb0); lia.
    - intros u cx tab i acc E. assert (Hne : u <> t) by (intros ->; rewrite Epc in E; exact (Ea5 cx tab i acc E)).
      pose proof (Hoth u Hne (PW_Sum cx tab i acc) ltac:(intros; discriminate) E) as E'. pose proof (xe_qi s HE u cx tab i acc E') as H.
      pose proof (Hsz tab i) as Z0. specialize (HP tab). destruct (Nat.eq_dec tab tb0); lia.
    - intros tab b1 Htab Hnw. rewrite Hl in Htab. rewrite (proj1 (Hnbk tab b1)). pose proof (xe_nb s HE tab b1 Htab (Hnn tab Hnw)). lia.
    - intros u old new i E. assert (Hne : u <> t) by (intros ->; rewrite Epc in E; destruct after; cbn in *; try discriminate; contradiction).
      assert (E' : X_resize.progress (g_pc s u) = Some (old, new, i)) by (destruct (Ho u Hne) as [X|X]; rewrite X, ?wake_progress_f in E; exact E).
      destruct (xe_pg s HE u old new i E') as [A [B C]].
      assert (Hnt : X_own.newtab (g_pc s u) = Some new) by (destruct (g_pc s u); cbn in E'; try discriminate E'; inversion E'; subst; reflexivity).
      assert (Hnb0 : new <> tb0) by (destruct (X_own.xt_new s HX u new Hnt) as [_ H]; lia).
      assert (Tn : tab_at s' new = tab_at s new) by (rewrite Tat; destruct (Nat.eq_dec new tb0); [contradiction | reflexivity]).
      rewrite Tn, Hec. split; [lia|]. split; [lia|]. intros b1. unfold NB2, nbk in *. rewrite Tn. apply C.
    - intros u kt new E. assert (Hne : u <> t) by (intros ->; rewrite Epc in E; destruct after; cbn in *; try discriminate; contradiction).
      pose proof (Hoth u Hne (PR_Publish kt new) ltac:(intros; discriminate) E) as E'.
      destruct (xe_pub s HE u kt new E') as [A [B C]].
      assert (Hnb0 : new <> tb0) by (destruct (X_own.xt_new s HX u new ltac:(rewrite E'; reflexivity)) as [_ H]; lia).
      assert (Tn : tab_at s' new = tab_at s new) by (rewrite Tat; destruct (Nat.eq_dec new tb0); [contradiction | reflexivity]).
      rewrite Tn. split; [lia|]. split; [lia|]. intros b1. unfold NB2, nbk in *. rewrite Tn. apply C.
  Qed.


  (* ---------------- the steps of the resizer that build the new table ---------------- *)

  Definition nb2 (tb : xtable) : Prop := forall b, nbuckets nslots (chain_of tb b) <= 1 + nentc (chain_of tb b).

  Lemma length_place (c : list slot) tg kv :
    length (place_slot nslots c tg kv) = length c \/ length (place_slot nslots c tg kv) = length c + S (nslots - 1).
  Proof.
    induction c as [|sl r IH]; cbn [place_slot].
    - right. cbn [length]. rewrite repeat_length. reflexivity.
    - destruct (s_ent sl); [|left; reflexivity]. cbn [length]. destruct IH as [E|E]; rewrite E; [left | right]; lia.
  Qed.

  Lemma nbuckets_place (c : list slot) tg kv : nbuckets nslots (place_slot nslots c tg kv) <= nbuckets nslots c + 1.
  Proof.
    unfold nbuckets. destruct (length_place c tg kv) as [E|E]; rewrite E; [lia|].
    destruct nslots as [|n]; [cbn; lia|]. replace (length c + S (S n - 1)) with (length c + 1 * S n) by lia. rewrite Nat.div_add by lia. lia.
  Qed.

  Lemma nb2_place (tb : xtable) b0 tg kv : nb2 tb -> nb2 (set_chain tb b0 (fun c => place_slot nslots c tg kv)).
  Proof.
    intros H b. rewrite X_own.chain_of_set_chain. destruct (Nat.eq_dec b b0) as [->|]; [|apply H].
    destruct (Nat.ltb b0 (x_len tb)); [|unfold nbuckets; cbn [length]; assert (Z0 : 0 / nslots = 0) by (destruct nslots; reflexivity); rewrite Z0; lia].
    rewrite (nentc_place nslots). pose proof (nbuckets_place (chain_of tb b0) tg kv). specialize (H b0). lia.
  Qed.

  Lemma nb2_copy (src : list slot) : forall (dst : xtable), nb2 dst -> nb2 (fst (copy_chain hash idx tag nslots src dst)).
  Proof.
    unfold copy_chain. intros dst.
    assert (G : forall (acc : xtable * Z), nb2 (fst acc) ->
              nb2 (fst (fold_left (fun (a : xtable * Z) sl =>
                 match s_ent sl with
                 | Some (k, v) => let h := hash k (x_seed (fst a)) in
                     (set_chain (fst a) (idx h (x_len (fst a))) (fun c => place_slot nslots c (tag h) (k, v)), (snd a + 1)%Z)
                 | None => a end) src acc))).
    { induction src as [|sl r IH]; intros acc Ha; cbn [fold_left]; [exact Ha|].
      destruct (s_ent sl) as [[k v]|]; [|apply IH; exact Ha]. apply IH. cbn [fst]. apply nb2_place. exact Ha. }
    intros H. apply (G (dst, 0%Z)). exact H.
  Qed.

  Lemma nb2_add_size (tb : xtable) b d : nb2 tb -> nb2 (add_size tb b d).
  Proof. intros H. exact H. Qed.

  Lemma nb2_new len seed : nb2 (new_xtable nslots nstripes len seed).
  Proof.
    intros b. unfold chain_of, new_xtable. cbn [x_chains].
    destruct (Nat.lt_ge_cases b len) as [L|L].
    - rewrite nth_indep with (d' := repeat empty_slot nslots) by (rewrite repeat_length; exact L). rewrite nth_repeat.
      unfold nbuckets. rewrite repeat_length. destruct nslots as [|n]; [cbn; lia|]. rewrite Nat.div_same by lia. lia.
    - rewrite nth_overflow by (rewrite repeat_length; exact L). unfold nbuckets. cbn [length].
      assert (Z0 : 0 / nslots = 0) by (destruct nslots; reflexivity). rewrite Z0. lia.
  Qed.

  Lemma spos_repeat0 n : spos (repeat 0%Z n) = 0.
  Proof. unfold spos. induction n; cbn; auto. Qed.

  Lemma padd_le n tab (p : pc) : X_own.tabs_le n p -> n < tab -> padd tab p = 0.
  Proof.
    induction p; cbn [padd X_own.tabs_le]; intros H Hl; try reflexivity.
    - apply IHp; tauto.
    - destruct H as [H _]. assert (E : Nat.eqb tab0 tab = false) by (apply Nat.eqb_neq; lia). rewrite E. reflexivity.
  Qed.

  (* the resizer t steps; nw is its private new table; every other table keeps chains and counters *)
  Lemma XE_frame s t p s' ls nw : TI s -> XT s -> XE s -> In t ths -> g_pc s t = p -> step_pc s t p = Some (s', ls) ->
    resizer p = true -> X_own.newtab (g_pc s' t) = Some nw -> (forall tab, X_own.newtab p = Some tab -> tab = nw) -> g_cur s < nw ->
    (forall tab, tab < length (g_tabs s') -> tab = nw \/ tab < length (g_tabs s)) ->
    (forall tab, tab < length (g_tabs s) -> tab <> nw ->
       x_chains (tab_at s' tab) = x_chains (tab_at s tab) /\ x_size (tab_at s' tab) = x_size (tab_at s tab)) ->
    g_cur s' = g_cur s ->
    mayins (g_pc s' t) <= mayins p -> (forall tab, padd tab (g_pc s' t) <= padd tab p) ->
    (forall old new i, X_resize.progress (g_pc s' t) = Some (old, new, i) ->
       ecount (tab_at s' new) + rest_ent (tab_at s' old) i + Npre s <= Ctot
       /\ spos (x_size (tab_at s' new)) + rest_ent (tab_at s' old) i + Npre s <= Ctot /\ NB2 s' new) ->
    (forall kt new, g_pc s' t = PR_Publish kt new ->
       ecount (tab_at s' new) + Npre s <= Ctot /\ spos (x_size (tab_at s' new)) + Npre s <= Ctot /\ NB2 s' new) ->
    dok (g_pc s' t) ->
    XE s'.
  Proof.
    intros HT HX HE Ht Hp Hs Hrz Hnw Hnw0 Hcn Hlen Hold Hc Hm Hpa Hpg Hpub Hdk. pose proof HT as [HI [HW HK]].
    pose proof (others_step s t p s' ls HT Hp Hs) as Ho. destruct (sums_step s t p s' ls HT Ht Hp Hs) as [S1 S2].
    assert (Hnr : forall u, u <> t -> resizer (g_pc s u) = false).
    { intros u Hne. destruct (resizer (g_pc s u)) eqn:E; [|reflexivity]. exfalso. apply Hne.
      apply (xi_rzB _ _ _ _ s HI u t E). rewrite Hp. exact Hrz. }
    assert (Hnr' : forall u, u <> t -> resizer (g_pc s' u) = false).
    { intros u Hne. destruct (Ho u Hne) as [E|E]; rewrite E, ?X_own.wake_resizer; apply Hnr; exact Hne. }
    assert (Hnn : forall tab, notnew s' tab -> tab <> nw /\ notnew s tab).
    { intros tab H. split; [intros ->; exact (H t Hnw)|]. intros u E. destruct (Nat.eq_dec u t) as [->|Hne].
      - rewrite Hp in E. apply (H t). rewrite Hnw. f_equal. symmetry. apply Hnw0. exact E.
      - pose proof (X_own.newtab_resizer _ _ E) as R. rewrite (Hnr u Hne) in R. discriminate R. }
    assert (HN : Npre s' <= Npre s) by lia.
    assert (HP : forall tab, Padd s' tab <= Padd s tab) by (intros tab; specialize (S2 tab); specialize (Hpa tab); lia).
    assert (Hsame : forall tab, tab < length (g_tabs s) -> tab <> nw ->
              ecount (tab_at s' tab) = ecount (tab_at s tab) /\ x_size (tab_at s' tab) = x_size (tab_at s tab) /\ forall b, nbk s' tab b = nbk s tab b).
    { intros tab Hl Hne. destruct (Hold tab Hl Hne) as [A B]. unfold X_term.ecount, X_term.rest_ent, nbk, chain_of. rewrite A. auto. }
    constructor.
    - intros u. destruct (Nat.eq_dec u t) as [->|Hne]; [exact Hdk|].
      destruct (Ho u Hne) as [E'|E']; rewrite E'; [|apply dok_wake]; apply (xe_d s HE).
    - intros tab Htab Hnw'. destruct (Hnn tab Hnw') as [N1 N2]. destruct (Hlen tab Htab) as [->|Hl]; [contradiction|].
      destruct (Hsame tab Hl N1) as [A _]. rewrite A. pose proof (xe_ei s HE tab Hl N2). lia.
    - intros tab Htab Hnw'. destruct (Hnn tab Hnw') as [N1 N2]. destruct (Hlen tab Htab) as [->|Hl]; [contradiction|].
      destruct (Hsame tab Hl N1) as [_ [B _]]. rewrite B. pose proof (xe_ri s HE tab Hl N2). specialize (HP tab). lia.
    - intros u cx tab i acc E. assert (Hne : u <> t).
      { intros ->. pose proof (X_own.newtab_resizer _ _ Hnw) as R. rewrite E in R. discriminate R. }
      assert (E' : g_pc s u = PW_Sum cx tab i acc).
      { destruct (Ho u Hne) as [X|X]; rewrite X in E; [exact E | destruct (g_pc s u); cbn [wake] in E; try discriminate E; exact E]. }
      pose proof (xe_qi s HE u cx tab i acc E') as H.
      pose proof (xi_valid _ _ _ _ s HI u) as Hv. rewrite E' in Hv. cbn [valid] in Hv.
      pose proof (X_own.xt_le s HX u) as Hle. rewrite E' in Hle. cbn [X_own.tabs_le] in Hle.
      assert (N1 : tab <> nw) by lia.
      destruct (Hsame tab Hv N1) as [_ [B _]]. rewrite B. specialize (HP tab). lia.
    - intros tab b Htab Hnw'. destruct (Hnn tab Hnw') as [N1 N2]. destruct (Hlen tab Htab) as [->|Hl]; [contradiction|].
      destruct (Hsame tab Hl N1) as [_ [_ C]]. rewrite C. pose proof (xe_nb s HE tab b Hl N2). lia.
    - intros u old new i E. destruct (Nat.eq_dec u t) as [->|Hne].
      + destruct (Hpg old new i E) as [A [B C]]. split; [lia|]. split; [lia | exact C].
      + exfalso. destruct (X_resize.progress_resizer _ _ E) as [R _]. rewrite (Hnr' u Hne) in R. discriminate R.
    - intros u kt new E. destruct (Nat.eq_dec u t) as [->|Hne].
      + destruct (Hpub kt new E) as [A [B C]]. split; [lia|]. split; [lia | exact C].
      + exfalso. pose proof (Hnr' u Hne) as R. rewrite E in R. discriminate R.
  Qed.

  Lemma push_pub (s s' : xstate) len' seed : g_tabs s' = g_tabs s ++ [new_xtable nslots nstripes len' seed] -> Npre s <= Ctot ->
    ecount (tab_at s' (length (g_tabs s))) + Npre s <= Ctot /\ spos (x_size (tab_at s' (length (g_tabs s)))) + Npre s <= Ctot
    /\ NB2 s' (length (g_tabs s)).
  Proof.
    intros E Hn. destruct (push_acc nslots nstripes s' s _ E) as [_ Pn].
    destruct (@new_table_facts K V nslots nstripes len' seed) as [_ [_ [N3 _]]].
    unfold NB2, nbk. rewrite Pn, N3. unfold new_xtable at 1. cbn [x_size]. rewrite spos_repeat0.
    split; [lia|]. split; [lia|]. apply nb2_new.
  Qed.

  Lemma push_pg (s s' : xstate) len' seed tab : g_tabs s' = g_tabs s ++ [new_xtable nslots nstripes len' seed] ->
    XT s -> XE s -> tab < length (g_tabs s) -> tab <= g_cur s ->
    ecount (tab_at s' (length (g_tabs s))) + rest_ent (tab_at s' tab) 0 + Npre s <= Ctot
    /\ spos (x_size (tab_at s' (length (g_tabs s)))) + rest_ent (tab_at s' tab) 0 + Npre s <= Ctot
    /\ NB2 s' (length (g_tabs s)).
  Proof.
    intros E HX HE Hl Hle. destruct (push_acc nslots nstripes s' s _ E) as [Po Pn].
    destruct (@new_table_facts K V nslots nstripes len' seed) as [_ [_ [N3 _]]].
    pose proof (xe_ei s HE tab Hl (le_cur_notnew s tab HX Hle)) as H.
    unfold NB2, nbk. rewrite Pn, N3, (Po tab Hl). unfold new_xtable at 1. cbn [x_size]. rewrite spos_repeat0.
    change (rest_ent (tab_at s tab) 0) with (ecount (tab_at s tab)). split; [lia|]. split; [lia|]. apply nb2_new.
  Qed.


  Lemma posz_of_nat n : posz (Z.of_nat n) = n.
  Proof. unfold posz. lia. Qed.

  (* copyBucket: the entries of one more chain move to the new table *)
  Lemma XE_copy s t hn kt tab new i s' ls : TI s -> XT s -> XE s -> In t ths -> g_pc s t = PR_CpLock hn kt tab new i ->
    step_pc s t (PR_CpLock hn kt tab new i) = Some (s', ls) -> XE s'.
  Proof.
    intros HT HX HE Ht Hp Hs. pose proof HT as [HI [HW HK]].
    pose proof (xi_valid _ _ _ _ s HI t) as Hv. rewrite Hp in Hv. cbn [valid] in Hv. destruct Hv as [Hv1 [Hv2 [Hv3 Hv4]]].
    destruct (X_own.xt_new s HX t new ltac:(rewrite Hp; reflexivity)) as [_ Hcn].
    destruct (xe_pg s HE t tab new i ltac:(rewrite Hp; reflexivity)) as [G1 [G2 G3]].
    pose proof Hs as Hs0. cbn [XMachine.step_pc] in Hs. cbv zeta in Hs.
    destruct (lock_of (tab_at s tab) i); [discriminate Hs|].
    set (S1 := set_tab s tab (fun tb : xtable => set_lock tb i (Some t))) in *.
    assert (T1 : tab_at S1 new = tab_at s new) by (unfold S1; rewrite tab_at_set_tab by exact Hv1; destruct (Nat.eq_dec new tab); [contradiction | reflexivity]).
    rewrite T1 in Hs.
    destruct (copy_chain hash idx tag nslots (chain_of (tab_at s tab) i) (tab_at s new)) as [x z] eqn:Ec.
    apply some_fst_f in Hs. rewrite goto_state in Hs.
    assert (Hwf : 0 < x_len (tab_at s new)) by (destruct (xi_wf _ _ _ _ s HI new Hv2) as [W _]; exact W).
    pose proof (copy_chain_count hash idx tag nslots Hidx (chain_of (tab_at s tab) i) (tab_at s new, 0%Z) Hwf) as Hcc.
    cbv zeta in Hcc. cbn [fst snd] in Hcc. unfold copy_chain in Ec. rewrite Ec in Hcc. cbn [fst snd] in Hcc. destruct Hcc as [C1 [C2 [C3 C4]]].
    assert (Hl1 : length (g_tabs S1) = length (g_tabs s)) by (unfold S1, set_tab; cbn [g_tabs]; apply upd_nth_length).
    assert (Tn : tab_at s' new = add_size x i z).
    { rewrite Hs, tab_at_set_pc, tab_at_set_tab by (rewrite Hl1; exact Hv2). destruct (Nat.eq_dec new new); [reflexivity | congruence]. }
    assert (To : forall tab0, tab0 <> new -> tab_at s' tab0 = if Nat.eq_dec tab0 tab then set_lock (tab_at s tab) i (Some t) else tab_at s tab0).
    { intros tab0 Hne. rewrite Hs, tab_at_set_pc, tab_at_set_tab by (rewrite Hl1; exact Hv2). destruct (Nat.eq_dec tab0 new); [contradiction|].
      unfold S1. rewrite tab_at_set_tab by exact Hv1. reflexivity. }
    assert (Epc : g_pc s' t = PR_CpUnlock hn kt tab new i) by (rewrite Hs; cbn [g_pc set_pc norm]; destruct (Nat.eq_dec t t); [reflexivity | congruence]).
    apply (XE_frame s t _ s' ls new HT HX HE Ht Hp Hs0); rewrite ?Epc.
    - reflexivity.
    - reflexivity.
    - intros tab0 E. inversion E. reflexivity.
    - exact Hcn.
    - intros tab0 H0. right. rewrite Hs in H0. cbn [g_tabs set_pc set_tab] in H0. rewrite upd_nth_length, Hl1 in H0. exact H0.
    - intros tab0 H0 H1. rewrite (To tab0 H1). destruct (Nat.eq_dec tab0 tab) as [->|]; split; reflexivity.
    - rewrite Hs. reflexivity.
    - cbn [mayins]. lia.
    - intros tab0. cbn [padd]. lia.
    - intros old0 new0 i0 E. cbn [X_resize.progress] in E. inversion E; subst old0 new0 i0.
      assert (Tt : x_chains (tab_at s' tab) = x_chains (tab_at s tab)) by (rewrite (To tab ltac:(congruence)); destruct (Nat.eq_dec tab tab); [reflexivity | congruence]).
      assert (Er : rest_ent (tab_at s' tab) (S i) = rest_ent (tab_at s tab) (S i)) by (unfold X_term.rest_ent; rewrite Tt; reflexivity).
      pose proof (rest_ent_step (tab_at s tab) i Hv3) as Hst.
      rewrite Tn, Er. change (ecount (add_size x i z)) with (ecount x). rewrite C1.
      change (x_size (add_size x i z)) with (upd_nth (x_size x) (i mod length (x_size x)) (fun z0 : Z => (z0 + z)%Z)).
      pose proof (spos_skip_upd (x_size x) z (i mod length (x_size x)) 0) as Hsp. cbn [skipn] in Hsp.
      rewrite C4 in Hsp |- *. rewrite C2 in Hsp |- *. rewrite Z.add_0_l, posz_of_nat in Hsp. rewrite Z.add_0_l.
      split; [lia|]. split; [lia|].
      intros b. unfold nbk. rewrite Tn. apply nb2_add_size.
      assert (Ex : x = fst (copy_chain hash idx tag nslots (chain_of (tab_at s tab) i) (tab_at s new))) by (unfold copy_chain; rewrite Ec; reflexivity).
      rewrite Ex. apply nb2_copy. exact G3.
    - intros kt0 new0 E. discriminate E.
    - exact I.
  Qed.

  (* the last bucket is unlocked: everything is copied *)
  Lemma XE_cpun s t hn kt tab new i s' ls : TI s -> XT s -> XE s -> In t ths -> g_pc s t = PR_CpUnlock hn kt tab new i ->
    step_pc s t (PR_CpUnlock hn kt tab new i) = Some (s', ls) -> XE s'.
  Proof.
    intros HT HX HE Ht Hp Hs. pose proof HT as [HI [HW HK]].
    pose proof (xi_valid _ _ _ _ s HI t) as Hv. rewrite Hp in Hv. cbn [valid] in Hv. destruct Hv as [Hv1 [Hv2 [Hv3 Hv4]]].
    destruct (X_own.xt_new s HX t new ltac:(rewrite Hp; reflexivity)) as [_ Hcn].
    destruct (xe_pg s HE t tab new (S i) ltac:(rewrite Hp; reflexivity)) as [G1 [G2 G3]].
    pose proof Hs as Hs0. cbn [XMachine.step_pc] in Hs. cbv zeta in Hs. apply some_fst_f in Hs. rewrite goto_state in Hs.
    assert (To : forall tab0, tab_at s' tab0 = if Nat.eq_dec tab0 tab then set_lock (tab_at s tab) i None else tab_at s tab0).
    { intros tab0. rewrite Hs, tab_at_set_pc, tab_at_set_tab by exact Hv1. reflexivity. }
    assert (Hsame : forall tab0, x_chains (tab_at s' tab0) = x_chains (tab_at s tab0) /\ x_size (tab_at s' tab0) = x_size (tab_at s tab0)).
    { intros tab0. rewrite To. destruct (Nat.eq_dec tab0 tab) as [->|]; split; reflexivity. }
    assert (Eq : forall tab0 j, ecount (tab_at s' tab0) = ecount (tab_at s tab0) /\ rest_ent (tab_at s' tab0) j = rest_ent (tab_at s tab0) j
                 /\ forall b, nbk s' tab0 b = nbk s tab0 b /\ chain_of (tab_at s' tab0) b = chain_of (tab_at s tab0) b).
    { intros tab0 j. destruct (Hsame tab0) as [A _]. unfold X_term.ecount, X_term.rest_ent, nbk, chain_of. rewrite A. auto. }
    assert (Epc : g_pc s' t = norm (if Nat.ltb (S i) (x_len (tab_at s tab)) then PR_CpLock hn kt tab new (S i) else PR_Publish kt new))
      by (rewrite Hs; cbn [g_pc set_pc]; destruct (Nat.eq_dec t t); [reflexivity | congruence]).
    assert (Hcs : g_cur s' = g_cur s) by (rewrite Hs; reflexivity).
    assert (Hls : length (g_tabs s') = length (g_tabs s)) by (rewrite Hs; cbn [g_tabs set_pc set_tab]; apply upd_nth_length).
    clear Hs.
    apply (XE_frame s t _ s' ls new HT HX HE Ht Hp Hs0); rewrite ?Epc.
    - reflexivity.
    - destruct (Nat.ltb _ _); reflexivity.
    - intros tab0 E. inversion E. reflexivity.
    - exact Hcn.
    - intros tab0 H0. right. rewrite Hls in H0. exact H0.
    - intros tab0 _ _. apply Hsame.
    - exact Hcs.
    - destruct (Nat.ltb _ _); cbn [mayins norm]; lia.
    - intros tab0. destruct (Nat.ltb _ _); cbn [padd norm]; lia.
    - intros old0 new0 i0.
      destruct (Nat.ltb (S i) (x_len (tab_at s tab))) eqn:El; cbn [norm X_resize.progress]; intros E; [|discriminate E].
      inversion E; subst old0 new0 i0. destruct (Eq new 0) as [A [_ C]]. destruct (Eq tab (S i)) as [_ [B _]].
      rewrite A, B, (proj2 (Hsame new)). split; [exact G1|]. split; [exact G2|].
      intros b. destruct (C b) as [C1 C2]. rewrite C1, C2. apply G3.
    - intros kt0 new0.
      destruct (Nat.ltb (S i) (x_len (tab_at s tab))) eqn:El; cbn [norm]; intros E; [discriminate E|].
      inversion E; subst kt0 new0. apply Nat.ltb_ge in El. rewrite (rest_ent_end (tab_at s tab) (S i) El) in G1, G2.
      destruct (Eq new 0) as [A [_ C]]. rewrite A, (proj2 (Hsame new)). split; [lia|]. split; [lia|].
      intros b. destruct (C b) as [C1 C2]. rewrite C1, C2. apply G3.
    - destruct (Nat.ltb _ _); exact I.
  Qed.


  Lemma nentc_le_ecount (tb : xtable) b : nentc (chain_of tb b) <= ecount tb.
  Proof.
    unfold chain_of, X_term.ecount, X_term.rest_ent. cbn [skipn]. revert b. induction (x_chains tb) as [|c r IH]; intros b; [destruct b; cbn; lia|].
    destruct b as [|b]; cbn [nth map lsum]; [lia|]. specialize (IH b). lia.
  Qed.

  (* the new table is published: it takes over the claims *)
  Lemma XE_publish s t kt new s' ls : TI s -> XT s -> XE s -> In t ths -> g_pc s t = PR_Publish kt new ->
    step_pc s t (PR_Publish kt new) = Some (s', ls) -> XE s'.
  Proof.
    intros HT HX HE Ht Hp Hs. pose proof HT as [HI [HW HK]].
    destruct (X_own.xt_new s HX t new ltac:(rewrite Hp; reflexivity)) as [Hlast Hcn].
    destruct (xe_pub s HE t kt new Hp) as [G1 [G2 G3]].
    pose proof (others_step s t _ s' ls HT Hp Hs) as Ho. destruct (sums_step s t _ s' ls HT Ht Hp Hs) as [S1 S2].
    pose proof Hs as Hs0. cbn [XMachine.step_pc] in Hs. apply some_fst_f in Hs. rewrite goto_state in Hs.
    assert (Epc : g_pc s' t = PR_FinLock kt) by (rewrite Hs; cbn [g_pc set_pc norm]; destruct (Nat.eq_dec t t); [reflexivity | congruence]).
    assert (Tat : forall tab0, tab_at s' tab0 = tab_at s tab0) by (intros; rewrite Hs; reflexivity).
    assert (Hls : length (g_tabs s') = length (g_tabs s)) by (rewrite Hs; reflexivity).
    rewrite Epc in S1, S2. cbn [mayins padd] in S1, S2.
    assert (HN : Npre s' = Npre s) by lia.
    assert (HP : forall tab0, Padd s' tab0 = Padd s tab0) by (intros tab0; specialize (S2 tab0); lia).
    assert (Hnr : forall u, u <> t -> resizer (g_pc s u) = false).
    { intros u Hne. destruct (resizer (g_pc s u)) eqn:E; [|reflexivity]. exfalso. apply Hne.
      apply (xi_rzB _ _ _ _ s HI u t E). rewrite Hp. reflexivity. }
    assert (Hnr' : forall u, u <> t -> resizer (g_pc s' u) = false).
    { intros u Hne. destruct (Ho u Hne) as [E|E]; rewrite E, ?X_own.wake_resizer; apply Hnr; exact Hne. }
    assert (Hnn : forall tab0, tab0 <> new -> notnew s tab0).
    { intros tab0 Hne u E. destruct (Nat.eq_dec u t) as [->|Hu]; [rewrite Hp in E; cbn in E; congruence|].
      pose proof (X_own.newtab_resizer _ _ E) as R. rewrite (Hnr u Hu) in R. discriminate R. }
    assert (Hpn : Padd s new = 0).
    { unfold Padd. rewrite (psum_ext (fun u => padd new (g_pc s u)) (fun _ => 0) ths); [apply psum_zero|].
      intros u _. apply (padd_le (g_cur s)); [apply (X_own.xt_le s HX u) | exact Hcn]. }
    assert (Hnew_lt : new < length (g_tabs s)) by lia.
    constructor.
    - intros u. destruct (Nat.eq_dec u t) as [->|Hne]; [rewrite Epc; exact I|].
      destruct (Ho u Hne) as [E'|E']; rewrite E'; [|apply dok_wake]; apply (xe_d s HE).
    - intros tab0 Htab _. rewrite Hls in Htab. rewrite Tat, HN. destruct (Nat.eq_dec tab0 new) as [->|Hne]; [exact G1 | apply (xe_ei s HE tab0 Htab (Hnn tab0 Hne))].
    - intros tab0 Htab _. rewrite Hls in Htab. rewrite Tat, HN, HP. destruct (Nat.eq_dec tab0 new) as [->|Hne]; [rewrite Hpn; lia | apply (xe_ri s HE tab0 Htab (Hnn tab0 Hne))].
    - intros u cx tab0 i acc E. assert (Hne : u <> t) by (intros ->; rewrite Epc in E; discriminate E).
      assert (E' : g_pc s u = PW_Sum cx tab0 i acc).
      { destruct (Ho u Hne) as [X|X]; rewrite X in E; [exact E | destruct (g_pc s u); cbn [wake] in E; try discriminate E; exact E]. }
      rewrite Tat, HN, HP. apply (xe_qi s HE u cx tab0 i acc E').
    - intros tab0 b Htab _. rewrite Hls in Htab. unfold nbk. rewrite Tat, HN. destruct (Nat.eq_dec tab0 new) as [->|Hne].
      + pose proof (G3 b) as H. unfold nbk in H. pose proof (nentc_le_ecount (tab_at s new) b). lia.
      + apply (xe_nb s HE tab0 b Htab (Hnn tab0 Hne)).
    - intros u old0 new0 i0 E. exfalso. destruct (X_resize.progress_resizer _ _ E) as [R _].
      destruct (Nat.eq_dec u t) as [->|Hne]; [rewrite Epc in E; discriminate E | rewrite (Hnr' u Hne) in R; discriminate R].
    - intros u kt0 new0 E. exfalso. destruct (Nat.eq_dec u t) as [->|Hne]; [rewrite Epc in E; discriminate E|].
      pose proof (Hnr' u Hne) as R. rewrite E in R. discriminate R.
  Qed.

  Ltac pqc :=
    repeat match goal with
           | |- context [run_cont ?kt] => is_var kt; destruct kt
           | |- context [ktr ?kt] => is_var kt; destruct kt
           | |- context [lcr ?lc] => is_var lc; destruct lc
           | |- context [if ?c then _ else _] => destruct c
           | |- context [match ?hn with Some _ => _ | None => _ end] => is_var hn; destruct hn as [[]|]
           | |- context [match ?lc with LPlain => _ | LFast _ => _ end] => is_var lc; destruct lc
           end.

  Ltac sd_tac Hv :=
    split; [cbn [g_tabs set_pc set_tab set_flags]; rewrite ?upd_nth_length; reflexivity|];
    intros tab0; rewrite ?tab_at_set_pc;
    first [ split; reflexivity
          | rewrite tab_at_set_tab by tauto; destruct (Nat.eq_dec tab0 _) as [->|]; split; reflexivity ].

  Lemma spos_skip_step (l : list Z) : forall i, i < length l -> spos (skipn i l) = posz (nth i l 0%Z) + spos (skipn (S i) l).
  Proof. unfold spos. induction l as [|x r IH]; intros i Hi; [cbn in Hi; lia|]. destruct i as [|i]; [reflexivity|]. cbn [skipn nth]. apply IH. cbn in Hi. lia. Qed.

  Lemma nentc_set_slot_keep (c : list slot) pos f : (forall sl, has_ent (f sl) = has_ent sl) -> nentc (set_slot c pos f) = nentc c.
  Proof.
    intros Hf. unfold set_slot, X_term.nentc. revert pos. induction c as [|sl r IH]; intros pos; [destruct pos; reflexivity|].
    destruct pos as [|pos]; cbn [upd_nth filter]; [rewrite Hf; destruct (has_ent sl); reflexivity | destruct (has_ent sl); cbn [length]; rewrite IH; reflexivity].
  Qed.

  Lemma nentc_set_slot_le (c : list slot) pos f : nentc (set_slot c pos f) <= nentc c + 1.
  Proof.
    unfold set_slot, X_term.nentc. revert pos. induction c as [|sl r IH]; intros pos; [destruct pos; cbn; lia|].
    destruct pos as [|pos]; cbn [upd_nth filter].
    - destruct (has_ent (f sl)), (has_ent sl); cbn [length]; lia.
    - specialize (IH pos). destruct (has_ent sl); cbn [length]; lia.
  Qed.

  Lemma nentc_set_slot_none (c : list slot) pos f : (forall sl, has_ent (f sl) = false) -> nentc (set_slot c pos f) <= nentc c.
  Proof.
    intros Hf. unfold set_slot, X_term.nentc. revert pos. induction c as [|sl r IH]; intros pos; [destruct pos; cbn; lia|].
    destruct pos as [|pos]; cbn [upd_nth filter].
    - rewrite Hf. destruct (has_ent sl); cbn [length]; lia.
    - specialize (IH pos). destruct (has_ent sl); cbn [length]; lia.
  Qed.

  Lemma nentc_set_slot_le0 (c : list slot) pos f : (forall sl, has_ent (f sl) = has_ent sl \/ has_ent (f sl) = false) -> nentc (set_slot c pos f) <= nentc c.
  Proof.
    intros Hf. unfold set_slot, X_term.nentc. revert pos. induction c as [|sl r IH]; intros pos; [destruct pos; cbn; lia|].
    destruct pos as [|pos]; cbn [upd_nth filter].
    - destruct (Hf sl) as [E|E]; rewrite E; destruct (has_ent sl); cbn [length]; lia.
    - specialize (IH pos). destruct (has_ent sl); cbn [length]; lia.
  Qed.

  Lemma nbuckets_set_slot (c : list slot) pos f : nbuckets nslots (set_slot c pos f) = nbuckets nslots c.
  Proof. unfold nbuckets, set_slot. rewrite upd_nth_length. reflexivity. Qed.

  Lemma nbuckets_app_bucket (c : list slot) cell : nbuckets nslots (c ++ cell :: repeat empty_slot (nslots - 1)) <= nbuckets nslots c + 1.
  Proof.
    unfold nbuckets. rewrite app_length. cbn [length]. rewrite repeat_length. destruct nslots as [|n]; [cbn; lia|].
    replace (length c + S (S n - 1)) with (length c + 1 * S n) by lia. rewrite Nat.div_add by lia. lia.
  Qed.

  Lemma nentc_app_bucket (c : list slot) cell : nentc (c ++ cell :: repeat empty_slot (nslots - 1)) <= nentc c + 1.
  Proof.
    unfold X_term.nentc. rewrite filter_app, app_length. cbn [filter].
    assert (E : forall n, length (filter (@has_ent K V) (repeat empty_slot n)) = 0) by (induction n; cbn; auto).
    destruct (has_ent cell); cbn [length]; rewrite E; lia.
  Qed.

  Lemma mayins_norm (q : pc) : mayins (norm q) <= mayins q. Proof. destruct q; cbn; lia. Qed.
  Lemma padd_norm tab (q : pc) : padd tab (norm q) <= padd tab q. Proof. destruct q; cbn; lia. Qed.
  Lemma quiet_facts (q : pc) : quiet hash idx nslots nstripes q ->
    X_resize.progress (norm q) = None /\ (forall kt new, norm q <> PR_Publish kt new) /\ (forall cx tab i acc, norm q <> PW_Sum cx tab i acc).
  Proof.
    intros [Q1 [Q2 Q3]]. destruct q; cbn [norm X_resize.progress]; try (repeat split; intros; discriminate); cbn [resizer] in Q3; try discriminate Q3.
    exfalso. specialize (Q1 (@xinit K V nslots seeds nstripes 1 (fun _ => []))). discriminate Q1.
  Qed.

  Lemma XE_step_pc s t p s' ls : TI s -> XT s -> XE s -> In t ths -> g_pc s t = p -> step_pc s t p = Some (s', ls) -> XE s'.
  Proof.
    intros HT HX HE Ht Hp Hs. pose proof Hs as Hs0. pose proof HT as [HI [HW HK]].
    pose proof (xi_valid _ _ _ _ s HI t) as Hv. rewrite Hp in Hv.
    pose proof (X_own.xt_le s HX t) as Hle. rewrite Hp in Hle.
    destruct p; cbn [XMachine.step_pc] in Hs; cbv zeta in Hs;
      repeat match type of Hs with context [match ?x with _ => _ end] => destruct x eqn:? end;
      try discriminate Hs; apply some_fst_f in Hs; subst s'; rewrite ?goto_state in *; cbn [fst] in *; cbn [valid X_own.tabs_le] in Hv, Hle.
    all: try match goal with H : context [run_cont ?kt] |- _ => is_var kt; destruct kt; cbn [run_cont] in * end.
    all: try (apply (XE_quiet s t _ _ ls HT HE Ht Hp Hs0);
              [ sd_tac Hv | reflexivity | | | | | | | ];
              cbn [g_pc set_pc set_tab set_flags]; (destruct (Nat.eq_dec t t) as [_|Hx]; [|exfalso; apply Hx; reflexivity]);
              [ pqc; cbn [mayins norm ktr lcr]; lia
              | intros tab0; pqc; cbn [padd norm]; lia
              | intros tab0 E; pqc; cbn [X_own.newtab norm] in *; first [discriminate E | exact E]
              | intros x E; pqc; cbn [X_resize.progress norm] in *; first [discriminate E | exact E]
              | intros kt0 new0 E; pqc; cbn [norm] in E; first [discriminate E | exact E]
              | intros cx0 tab0 i0 acc0 E; pqc; cbn [norm] in E; first [discriminate E | left; exact E]
              | pqc; cbn [dok norm]; first [exact I | lia | (pose proof (xe_d s HE t) as Hd; rewrite Hp in Hd; cbn [dok] in Hd; tauto)] ]).
    (* the stores into a chain *)
    all: try match goal with |- XE (set_pc (set_tab ?S0 ?tab (fun tb => set_chain tb ?b ?g)) _ _) =>
           first [ apply (XE_slot S0 t _ _ ls tab b g 0 HT HX HE Ht Hp Hs0 ltac:(lia) ltac:(tauto) eq_refl eq_refl);
                   [ intros c0; cbv beta; rewrite Nat.add_0_r; apply nentc_set_slot_le0; intros sl0; first [left; reflexivity | right; reflexivity]
                   | intros c0; cbv beta; rewrite nbuckets_set_slot; lia | right; reflexivity | .. ]
                 | apply (XE_slot S0 t _ _ ls tab b g 1 HT HX HE Ht Hp Hs0 ltac:(lia) ltac:(tauto) eq_refl eq_refl);
                   [ intros c0; cbv beta; first [apply nentc_set_slot_le | apply nentc_app_bucket]
                   | intros c0; cbv beta; first [rewrite nbuckets_set_slot; lia | apply nbuckets_app_bucket] | right; reflexivity | .. ] ];
           cbn [g_pc set_pc set_tab]; (destruct (Nat.eq_dec t t) as [_|Hx]; [|exfalso; apply Hx; reflexivity]);
           [ pqc; cbn [mayins norm]; lia
           | intros tab0; cbn [padd norm];
             (destruct (Nat.eq_dec tab tab0) as [<-|Hne0];
              [ rewrite ?Nat.eqb_refl
              | rewrite ?(proj2 (Nat.eqb_neq _ _) Hne0), ?(proj2 (Nat.eqb_neq _ _) (not_eq_sym Hne0)) ]);
             cbn [andb Z.eqb Pos.eqb]; lia
           | reflexivity | pqc; reflexivity | pqc; reflexivity | intros; pqc; discriminate | pqc; cbn [dok norm]; auto ]
         end.
    (* unlockBucket with its continuation; addSize *)
    all: try match goal with |- XE (set_pc (set_tab _ _ (fun tb => set_lock tb _ None)) _ (norm ?q)) =>
           is_var q; destruct Hv as [Hv1 [Hv2 [Hv3 Hv4]]]; destruct (quiet_facts q Hv4) as [Q1 [Q2 Q3]];
           apply (XE_quiet s t _ _ ls HT HE Ht Hp Hs0);
           [ sd_tac Hv1 | reflexivity | | | | | | | ];
           cbn [g_pc set_pc set_tab set_flags]; (destruct (Nat.eq_dec t t) as [_|Hx]; [|exfalso; apply Hx; reflexivity]);
           [ cbn [mayins]; apply mayins_norm | intros tab0; cbn [padd]; apply padd_norm | intros tab0 E; discriminate E
           | intros x E; rewrite Q1 in E; discriminate E | intros kt0 new0 E; exfalso; exact (Q2 kt0 new0 E)
           | intros cx0 tab0 i0 acc0 E; exfalso; exact (Q3 cx0 tab0 i0 acc0 E)
           | apply dok_norm; pose proof (xe_d s HE t) as Hd; rewrite Hp in Hd; exact Hd ]
         end.
    all: try (apply (XE_add s t _ _ _ _ _ ls HT HX HE Ht Hp Hs0)).
    (* sumSize() *)
    all: try match goal with |- XE (set_pc _ _ (norm (PW_Sum ?cx ?tab ?i ?acc))) =>
           apply (XE_quiet s t _ _ ls HT HE Ht Hp Hs0);
           [ sd_tac Hv | reflexivity | | | | | | | ];
           cbn [g_pc set_pc]; (destruct (Nat.eq_dec t t) as [_|Hx]; [|exfalso; apply Hx; reflexivity]);
           [ cbn [mayins norm]; lia | intros tab0; cbn [padd norm]; lia | intros tab0 E; discriminate E | intros x E; discriminate E
           | intros kt0 new0 E; discriminate E | intros cx0 tab0 i0 acc0 E; cbn [norm] in E; inversion E; subst cx0 tab0 i0 acc0; right | exact I ]
         end.
    1: { (* the chain is full: the sum starts *)
      pose proof (xe_ri s HE tab Hv (le_cur_notnew s tab HX Hle)) as H. cbn [skipn]. lia. }
    1: { (* one more stripe *)
      pose proof (xe_qi s HE t cx tab i acc Hp) as H. apply Nat.ltb_lt in Heqb.
      assert (Hi : i < length (x_size (tab_at s tab))) by (unfold nstr in Heqb; lia).
      rewrite (spos_skip_step _ i Hi) in H. unfold stripe. unfold posz in H. lia. }
    (* a new table is allocated *)
    all: try ((assert (Hcl : g_cur s < length (g_tabs s)) by (apply (xi_cur _ _ _ _ s HI)));
              (assert (Hnp : Npre s <= Ctot) by (pose proof (xe_ei s HE (g_cur s) Hcl (le_cur_notnew s _ HX (le_n _))); lia));
              apply (XE_frame s t _ _ ls (length (g_tabs s)) HT HX HE Ht Hp Hs0);
              [ reflexivity
              | cbn [g_pc set_pc]; (destruct (Nat.eq_dec t t) as [_|Hx]; [|exfalso; apply Hx; reflexivity]); pqc; reflexivity
              | intros tab0 E; discriminate E
              | exact Hcl
              | intros tab0 H0; cbn [g_tabs set_pc push_tab] in H0; rewrite app_length in H0; cbn [length] in H0; lia
              | intros tab0 H0 H1; rewrite tab_at_set_pc; unfold XMachine.tab_at; cbn [g_tabs push_tab]; rewrite app_nth1 by exact H0; split; reflexivity
              | reflexivity
              | cbn [g_pc set_pc]; (destruct (Nat.eq_dec t t) as [_|Hx]; [|exfalso; apply Hx; reflexivity]); pqc; cbn [mayins norm]; lia
              | intros tab0; cbn [g_pc set_pc]; (destruct (Nat.eq_dec t t) as [_|Hx]; [|exfalso; apply Hx; reflexivity]); pqc; cbn [padd norm]; lia
              | intros old0 new0 i0; cbn [g_pc set_pc]; (destruct (Nat.eq_dec t t) as [_|Hx]; [|exfalso; apply Hx; reflexivity]); pqc; cbn [norm X_resize.progress]; intros E;
                first [discriminate E | (inversion E; subst old0 new0 i0; eapply push_pg; [reflexivity | exact HX | exact HE | tauto | tauto])]
              | intros kt0 new0; cbn [g_pc set_pc]; (destruct (Nat.eq_dec t t) as [_|Hx]; [|exfalso; apply Hx; reflexivity]); pqc; cbn [norm]; intros E;
                first [discriminate E | (inversion E; subst kt0 new0; eapply push_pub; [reflexivity | exact Hnp])]
              | cbn [g_pc set_pc]; (destruct (Nat.eq_dec t t) as [_|Hx]; [|exfalso; apply Hx; reflexivity]); pqc; exact I ]).
    - apply (XE_copy s t hn kt tab new i _ ls HT HX HE Ht Hp Hs0).
    - apply (XE_cpun s t hn kt tab new i _ ls HT HX HE Ht Hp Hs0).
    - apply (XE_publish s t kt new _ ls HT HX HE Ht Hp Hs0).
  Qed.

End Full.

(* ================================================================================================================ *)
(* SB (the resizes still to come), the caps, and the final theorem fair_termination.
   SBf s = Rr s * BIG + Phi s, where
     Rr  : per thread 2 for every call still to make or under way that may still win the CAS of a shrink / Clear, 1 while such a
           resize is under way and its table not yet published, 0 afterwards (a shrink / Clear returns: rk_ok);
     Phi : the grow CASes that can still be won before Rr drops: while the current table is shorter than Ctot
           (small): (Ctot - length) + 2 per thread (1 for the thread that is growing);  otherwise (big: no thread can decide to
           grow any more, ghyp + XE): 2 per thread that has decided to grow (PW_Sum on a short stale table, PR_CAS with a retry
           continuation), 1 for the thread that is growing, 0 for all others.  GL: a growing table is twice the current one.
   Caps: chains <= 1 + Ctot buckets (XE), table lengths <= LXM (LH: length * 2^SBf never exceeds LXM, every won CAS uses up one
   unit of SBf), stripes <= max of nstripes below LXM (NSI). *)

Section Full2.
  Context {K V : Type}.
  Variable eqd : forall a b : K, {a = b} + {a <> b}.
  Variable hash : K -> N -> N.
  Variable idx : N -> nat -> nat.
  Variable tag : N -> N.
  Variable nslots : nat.
  Variable seeds : nat -> N.
  Variable grow_needed : nat -> Z -> bool.
  Variable shrink_policy : nat -> Z -> bool.
  Variable probe : list (option N) -> N -> list nat.
  Variable nstripes : nat -> nat.
  Variable minlen : nat.
  Variable grow_only : bool.

  Notation slot := (@slot K V).
  Notation xtable := (@xtable K V).
  Notation xstate := (@xstate K V).
  Notation pc := (@pc K V).
  Notation xlabel := (@xlabel K V).
  Notation tab_at := (@tab_at K V nslots nstripes).
  Notation step_pc := (@step_pc K V eqd hash idx tag nslots seeds grow_needed shrink_policy probe nstripes minlen grow_only).
  Notation xstep := (@xstep K V eqd hash idx tag nslots seeds grow_needed shrink_policy probe nstripes minlen grow_only).
  Notation xrun := (@xrun K V eqd hash idx tag nslots seeds grow_needed shrink_policy probe nstripes minlen grow_only).
  Notation XInv := (@X_inv.XInv K V hash idx nslots nstripes).
  Notation valid := (@valid K V hash idx nslots nstripes).
  Notation TI := (@TI K V hash idx nslots nstripes).
  Notation XT := (@X_own.XT K V).
  Notation invoked := (@invoked K V).
  Notation frame := (@X_inv.frame K V nslots nstripes).

  Hypothesis Hidx : forall h len, 0 < len -> idx h len < len.
  Hypothesis Hstripes : forall len, 0 < nstripes len.
  Hypothesis Hminlen : 0 < minlen.
  Hypothesis Hgrow : ghyp grow_needed.

  Variable ths : list nat.
  Hypothesis Hnd : NoDup ths.
  Variable Ctot : nat.

  Notation XE := (@XE K V nslots nstripes ths Ctot).
  Notation Npre := (@Npre K V ths).
  Notation Padd := (@Padd K V ths).


  (* ---------------- the resizes still to come ---------------- *)

  (* a resizer whose table is not yet the current one: its continuation *)
  Definition prepub (p : pc) : option (@cont K V) :=
    match p with
    | PR_Table _ kt | PR_ShSum kt _ _ _ | PR_Stat _ kt _ | PR_CpLock _ kt _ _ _ | PR_CpUnlock _ kt _ _ _ | PR_Publish kt _ => Some kt
    | _ => None
    end.

  (* 2: the call may still win the CAS of a shrink or a Clear; 1: it has, and the table is not yet published *)
  Definition live (p : pc) : nat :=
    match p with
    | PStart | PIdle | PRet _ => 0
    | PR_FinLock kt | PR_FinStore kt | PR_FinBcast kt | PR_FinUnlock kt => if kdone kt then 0 else 2
    | _ => match prepub p with Some kt => if kdone kt then 1 else 2 | None => 2 end
    end.

  Definition growrz (p : pc) : bool := match prepub p with Some kt => negb (kdone kt) | None => false end.
  Fixpoint hardp (p : pc) : bool :=
    match p with PR_CAS _ kt => negb (kdone kt) | PW_Unlock _ _ a => hardp a | _ => false end.

  Definition LENc (s : xstate) : nat := x_len (tab_at s (g_cur s)).
  Definition wsm (p : pc) : nat := if growrz p then 1 else 2.
  Definition wbg (s : xstate) (p : pc) : nat :=
    if growrz p then 1 else if hardp p then 2 else
    match p with PW_Sum _ tab _ _ => if Nat.ltb (x_len (tab_at s tab)) Ctot then 2 else 0 | _ => 0 end.
  Definition small (s : xstate) : bool := Nat.ltb (LENc s) Ctot.

  Definition Rr (s : xstate) : nat := psum (fun t => 2 * length (g_todo s t) + live (g_pc s t)) ths.
  Definition Wsm (s : xstate) : nat := psum (fun t => wsm (g_pc s t)) ths.
  Definition Wbg (s : xstate) : nat := psum (fun t => wbg s (g_pc s t)) ths.
  Definition Phi (s : xstate) : nat := if small s then (Ctot - LENc s) + Wsm s else Wbg s.
  Definition BIG : nat := Ctot + 2 * length ths + 1.
  Definition SBf (s : xstate) : nat := Rr s * BIG + Phi s.

  Lemma live_wake (p : pc) : live (wake p) = live p. Proof. destruct p; reflexivity. Qed.
  Lemma wsm_wake (p : pc) : wsm (wake p) = wsm p. Proof. destruct p; reflexivity. Qed.
  Lemma wbg_wake s (p : pc) : wbg s (wake p) = wbg s p. Proof. destruct p; reflexivity. Qed.
  Lemma wsm_le2 (p : pc) : wsm p <= 2. Proof. unfold wsm. destruct (growrz p); lia. Qed.
  Lemma wbg_le2 s (p : pc) : wbg s p <= 2.
  Proof. unfold wbg. destruct (growrz p); [lia|]. destruct (hardp p); [lia|]. destruct p; try lia. destruct (Nat.ltb _ _); lia. Qed.
  Lemma wbg_le_wsm s (p : pc) : wbg s p <= wsm p.
  Proof. unfold wsm. pose proof (wbg_le2 s p). unfold wbg in *. destruct (growrz p); lia. Qed.


  (* ---------------- the tables: shapes never change; which tables are allocated ---------------- *)

  Ltac step_cases Hs :=
    cbn [XMachine.step_pc] in Hs; cbv zeta in Hs;
    repeat match type of Hs with
           | context [match ?x with _ => _ end] => destruct x eqn:?
           end;
    try discriminate; apply some_fst_f in Hs; subst; rewrite ?goto_state; cbn [fst].

  Lemma nstr_shape (a b : xtable) : shape_eq a b -> nstr b = nstr a /\ x_len b = x_len a.
  Proof. intros [A [_ [_ B]]]. unfold nstr. auto. Qed.

  Lemma step_nstr s t p s' ls : step_pc s t p = Some (s', ls) -> valid s p ->
    forall tab, tab < length (g_tabs s) -> nstr (tab_at s' tab) = nstr (tab_at s tab) /\ x_len (tab_at s' tab) = x_len (tab_at s tab).
  Proof.
    intros Hs Hv tab Htab.
    destruct p; step_cases Hs; cbn [valid] in Hv; rewrite ?tab_at_set_pc;
      try change (set_pc s t PIdle) with (set_pc s t (norm (@PIdle K V)));
      try (split; reflexivity).
    all: try (rewrite (tab_at_set_tab nslots nstripes s _ _ tab) by tauto;
              match goal with |- context [Nat.eq_dec ?y ?x] => destruct (Nat.eq_dec y x) as [->|] end;
              [ apply nstr_shape; first [apply shape_set_lock | apply shape_set_chain | apply shape_add_size] | split; reflexivity ]).
    all: try (unfold XMachine.tab_at; cbn [g_tabs push_tab]; rewrite app_nth1 by exact Htab; split; reflexivity).
    (* PR_CpLock *)
    destruct Hv as [Hv1 [Hv2 [Hv3 Hv4]]].
    rewrite (tab_at_set_tab nslots nstripes _ new _ tab) by (unfold set_tab; cbn [g_tabs]; rewrite upd_nth_length; exact Hv2).
    destruct (Nat.eq_dec tab new) as [->|].
    - pose proof (copy_chain_shape hash idx tag nslots (chain_of (tab_at s tab0) i)
                    (tab_at (set_tab s tab0 (fun tb => set_lock tb i (Some t))) new) 0%Z) as Hsh.
      cbv zeta in Hsh. change (fold_left _ _ _) with (copy_chain hash idx tag nslots (chain_of (tab_at s tab0) i)
                    (tab_at (set_tab s tab0 (fun tb => set_lock tb i (Some t))) new)) in Hsh.
      rewrite Heqp in Hsh. cbn [fst] in Hsh. destruct Hsh as [Hsh _].
      rewrite (tab_at_set_tab nslots nstripes s tab0 _ new Hv1) in Hsh. destruct (Nat.eq_dec new tab0); [contradiction|].
      apply nstr_shape. eapply shape_trans; [exact Hsh | apply shape_add_size].
    - rewrite (tab_at_set_tab nslots nstripes s tab0 _ tab Hv1). destruct (Nat.eq_dec tab tab0) as [->|]; [apply nstr_shape; apply shape_set_lock | split; reflexivity].
  Qed.

  (* the tables a step allocates *)
  Lemma step_alloc s t p s' ls : step_pc s t p = Some (s', ls) ->
    length (g_tabs s') = length (g_tabs s)
    \/ exists len', g_tabs s' = g_tabs s ++ [new_xtable nslots nstripes len' (seeds (length (g_tabs s)))]
         /\ ((exists kt, p = PR_Table HClear kt /\ len' = minlen)
             \/ (exists hn kt tab, p = PR_Stat hn kt tab
                   /\ len' = match hn with HGrow => x_len (tab_at s tab) * 2 | _ => x_len (tab_at s tab) / 2 end)).
  Proof.
    intros Hs.
    destruct p; step_cases Hs; cbn [g_tabs set_pc set_tab set_flags push_tab]; rewrite ?upd_nth_length; try (left; reflexivity).
    all: right; eexists; (split; [reflexivity|]); first [left; eexists; split; reflexivity | right; do 3 eexists; split; reflexivity].
  Qed.


  (* ---------------- the own step ---------------- *)

  Lemma spos_skip_ge (l : list Z) i : (nth i l 0 <= Z.of_nat (spos (skipn i l)))%Z.
  Proof.
    destruct (Nat.lt_ge_cases i (length l)) as [H|H].
    - rewrite (spos_skip_step minlen Hminlen l i H). unfold posz. lia.
    - rewrite nth_overflow by exact H. lia.
  Qed.

  Lemma sum_decides s t cx tab i acc : XE s -> g_pc s t = PW_Sum cx tab i acc ->
    grow_needed (x_len (tab_at s tab)) (acc + stripe (tab_at s tab) i) = true -> x_len (tab_at s tab) < Ctot.
  Proof.
    intros HE Hp Hg. apply Hgrow in Hg. pose proof (xe_qi _ _ _ _ s HE t cx tab i acc Hp) as H.
    pose proof (spos_skip_ge (x_size (tab_at s tab)) i) as H1. unfold stripe in Hg. lia.
  Qed.

  Lemma live_le2 (p : pc) : live p <= 2.
  Proof. destruct p; cbn [live prepub]; try lia; destruct (kdone kt); lia. Qed.

  Lemma quiet_w (q : pc) : quiet hash idx nslots nstripes q ->
    growrz (norm q) = false /\ hardp (norm q) = hardp q /\ (forall cx tab i acc, norm q <> PW_Sum cx tab i acc).
  Proof.
    intros Hq. destruct (quiet_facts hash idx nslots seeds nstripes q Hq) as [_ [_ Q3]]. destruct Hq as [_ [_ Q]].
    split; [|split; [|exact Q3]]; destruct q; try reflexivity; discriminate Q.
  Qed.

  Lemma own_step s t p s' ls : TI s -> XE s -> g_pc s t = p -> step_pc s t p = Some (s', ls) ->
    live (g_pc s' t) <= live p
    /\ ((exists hn kt, p = PR_CAS hn kt /\ g_resizing s = false /\ g_pc s' t = PR_Table hn kt /\ g_cur s' = g_cur s)
        \/ (exists kt new, p = PR_Publish kt new /\ g_pc s' t = PR_FinLock kt /\ g_cur s' = new)
        \/ (g_cur s' = g_cur s /\ (forall hn kt, p = PR_CAS hn kt -> g_resizing s = true)
            /\ wsm (g_pc s' t) <= wsm p /\ (small s = false -> wbg s' (g_pc s' t) <= wbg s p))).
  Proof.
    intros HT HE Hp Hs. pose proof HT as [HI [HW HK]].
    pose proof (HK t) as Hrk. rewrite Hp in Hrk.
    pose proof (xi_valid _ _ _ _ s HI t) as Hv. rewrite Hp in Hv.
    pose proof (fun cx tab i acc E => sum_decides s t cx tab i acc HE (eq_trans Hp E)) as Hdec.
    destruct p; step_cases Hs; cbn [g_pc set_pc set_tab set_flags push_tab g_cur]; (destruct (Nat.eq_dec t t) as [_|Hx]; [|exfalso; apply Hx; reflexivity]).
    all: cbn [rk_ok valid] in Hrk, Hv; unfold hk2 in Hrk.
    all: try match goal with |- context [run_cont ?kt] => destruct kt; cbn [run_cont] end.
    all: split; [cbn [norm live prepub kdone] in *; repeat match goal with |- context [if ?c then _ else _] => destruct c end; try lia |].
    all: try (left; do 2 eexists; repeat split; reflexivity).
    all: try (right; left; do 2 eexists; repeat split; reflexivity).
    all: try (right; right; split; [reflexivity|]; split; [intros hn0 kt0 E0; first [discriminate E0 | assumption | reflexivity]|]).
    all: unfold wsm, wbg; cbn [norm growrz prepub hardp kdone negb tab_at_set_pc].
    all: try (split; [try lia | intros Hsm; try lia]).
    all: try (repeat match goal with |- context [match ?x with _ => _ end] => is_var x; destruct x end; cbn [norm growrz prepub hardp kdone negb]; lia).
    all: rewrite ?tab_at_set_pc.
    all: try (first [rewrite Hrk by reflexivity | rewrite Hrk]; cbn [negb]; lia).
    all: try (match goal with H : negb (Nat.eqb (g_cur _) ?tab) = false |- _ => apply negb_false_iff, Nat.eqb_eq in H; subst tab end;
              unfold small, LENc in Hsm; rewrite Hsm; lia).
    all: try (destruct (Nat.ltb _ _); lia).
    all: try (rewrite (proj2 (Nat.ltb_lt _ _) (Hdec _ _ _ _ eq_refl ltac:(assumption))); lia).
    all: try apply live_le2.
    all: try (destruct (growrz _); lia).
    - destruct Hv as [_ [_ [_ Hq]]]. destruct (quiet_w p Hq) as [Q1 [Q2 Q3]]. rewrite Q1, Q2. destruct (hardp p); [lia|].
      destruct (norm p) eqn:E; try lia. exfalso. eapply Q3. reflexivity.
    - destruct Hrk as [Hr _]. destruct p; try contradiction; cbn; lia.
  Qed.


  (* ---------------- SBf never increases, and decreases when the CAS on the flag is won ---------------- *)

  Lemma psum_le_pw f g l : (forall u, In u l -> f u <= g u) -> psum f l <= psum g l.
  Proof. induction l as [|u r IH]; intros H; cbn [psum]; [lia|]. pose proof (H u (or_introl eq_refl)). assert (psum f r <= psum g r) by (apply IH; intros w Hw; apply H; right; exact Hw). lia. Qed.

  Definition GL (s : xstate) : Prop :=
    forall t new, X_own.newtab (g_pc s t) = Some new -> growrz (g_pc s t) = true -> x_len (tab_at s new) = 2 * LENc s.

  Lemma wbg_same s s' (q : pc) : (forall tab, tab < length (g_tabs s) -> x_len (tab_at s' tab) = x_len (tab_at s tab)) ->
    valid s q -> wbg s' q = wbg s q.
  Proof. intros H Hv. unfold wbg. destruct q; try reflexivity. cbn [valid] in Hv. rewrite (H tab Hv). reflexivity. Qed.

  Lemma Phi_le s : Phi s <= Ctot + 2 * length ths.
  Proof.
    unfold Phi, Wsm, Wbg. destruct (small s).
    - pose proof (psum_le minlen Hminlen (fun t => wsm (g_pc s t)) ths 2 (fun u => wsm_le2 _)). lia.
    - pose proof (psum_le minlen Hminlen (fun t => wbg s (g_pc s t)) ths 2 (fun u => wbg_le2 s _)). lia.
  Qed.

  Lemma SB_of_parts s s' : Rr s' < Rr s \/ (Rr s' = Rr s /\ Phi s' <= Phi s) -> SBf s' <= SBf s.
  Proof.
    unfold SBf. intros [H|[H1 H2]]; [|rewrite H1; lia].
    pose proof (Phi_le s'). assert (S (Rr s') <= Rr s) by lia. pose proof (Nat.mul_le_mono_r _ _ BIG H1). unfold BIG in *. lia.
  Qed.

  Lemma SB_of_parts_lt s s' : Rr s' < Rr s \/ (Rr s' = Rr s /\ Phi s' < Phi s) -> SBf s' < SBf s.
  Proof.
    unfold SBf. intros [H|[H1 H2]]; [|rewrite H1; lia].
    pose proof (Phi_le s'). assert (S (Rr s') <= Rr s) by lia. pose proof (Nat.mul_le_mono_r _ _ BIG H1). unfold BIG in *. lia.
  Qed.

  Lemma parts_step_pc s t p s' ls : TI s -> XE s -> GL s -> In t ths -> g_pc s t = p -> step_pc s t p = Some (s', ls) ->
    (Rr s' < Rr s \/ (Rr s' = Rr s /\ Phi s' <= Phi s))
    /\ (forall hn kt, p = PR_CAS hn kt -> g_resizing s = false -> Rr s' < Rr s \/ (Rr s' = Rr s /\ Phi s' < Phi s)).
  Proof.
    intros HT HE HG Ht Hp Hs. pose proof HT as [HI [HW HK]].
    pose proof (xi_valid _ _ _ _ s HI t) as Hv. rewrite Hp in Hv.
    pose proof (others_step eqd hash idx tag nslots seeds grow_needed shrink_policy probe nstripes minlen grow_only s t p s' ls HT Hp Hs) as Ho.
    pose proof (step_todo_f eqd hash idx tag nslots seeds grow_needed shrink_policy probe nstripes minlen grow_only s t p s' ls Hs) as Htd.
    pose proof (step_nstr s t p s' ls Hs Hv) as Hsh.
    assert (Hlen : forall tab, tab < length (g_tabs s) -> x_len (tab_at s' tab) = x_len (tab_at s tab)) by (intros tab H; apply (Hsh tab H)).
    set (p' := g_pc s' t) in *.
    (* the three sums *)
    assert (SR : Rr s' + live p = Rr s + live p').
    { unfold Rr. pose proof (psum_upd minlen Hminlen (fun u => 2 * length (g_todo s u) + live (g_pc s u)) (fun u => 2 * length (g_todo s' u) + live (g_pc s' u)) ths t Hnd Ht) as H.
      cbv beta in H. rewrite Htd, Hp in H. rewrite Htd. fold p' in H.
      assert (Hx : forall u, u <> t -> 2 * length (g_todo s u) + live (g_pc s' u) = 2 * length (g_todo s u) + live (g_pc s u)).
      { intros u Hne. destruct (Ho u Hne) as [E|E]; rewrite E, ?live_wake; reflexivity. }
      specialize (H Hx). lia. }
    assert (SS : Wsm s' + wsm p = Wsm s + wsm p').
    { unfold Wsm. pose proof (psum_upd minlen Hminlen (fun u => wsm (g_pc s u)) (fun u => wsm (g_pc s' u)) ths t Hnd Ht) as H. cbv beta in H. rewrite Hp in H. fold p' in H.
      assert (Hx : forall u, u <> t -> wsm (g_pc s' u) = wsm (g_pc s u)) by (intros u Hne; destruct (Ho u Hne) as [E|E]; rewrite E, ?wsm_wake; reflexivity).
      specialize (H Hx). lia. }
    assert (SBg : Wbg s' + wbg s p = Wbg s + wbg s' p').
    { unfold Wbg. pose proof (psum_upd minlen Hminlen (fun u => wbg s (g_pc s u)) (fun u => wbg s' (g_pc s' u)) ths t Hnd Ht) as H. cbv beta in H. rewrite Hp in H. fold p' in H.
      assert (Hx : forall u, u <> t -> wbg s' (g_pc s' u) = wbg s (g_pc s u)).
      { intros u Hne. destruct (Ho u Hne) as [E|E]; rewrite E, ?wbg_wake; apply wbg_same; try exact Hlen; apply (xi_valid _ _ _ _ s HI u). }
      specialize (H Hx). lia. }
    assert (Hcl : g_cur s < length (g_tabs s)) by apply (xi_cur _ _ _ _ s HI).
    assert (Hsame : g_cur s' = g_cur s -> LENc s' = LENc s /\ small s' = small s).
    { intros E. unfold small, LENc. rewrite E, (Hlen _ Hcl). auto. }
    destruct (own_step s t p s' ls HT HE Hp Hs) as [Hlv Hcase]. fold p' in Hlv, Hcase.
    destruct Hcase as [[hn [kt [E1 [E2 [E3 E4]]]]]|[[kt [new [E1 [E2 E3]]]]|[E1 [E2 [E3 E4]]]]].
    - (* the CAS is won *)
      destruct (Hsame E4) as [L1 L2].
      assert (Hwin : Rr s' < Rr s \/ Rr s' = Rr s /\ Phi s' < Phi s).
      { rewrite E1, E3 in SR, SS, SBg. cbn [live prepub] in SR. unfold wsm, wbg in SS, SBg. cbn [growrz prepub hardp] in SS, SBg.
        destruct (kdone kt); cbn [negb] in *; [left; lia|]. right. split; [lia|]. unfold Phi. rewrite L1, L2. destruct (small s); lia. }
      split; [destruct Hwin as [H|[H1 H2]]; [left; exact H | right; split; [exact H1 | lia]] | intros; exact Hwin].
    - (* the new table is published *)
      split; [|intros hn0 kt0 E; rewrite E in E1; discriminate E1].
      rewrite E1, E2 in SR, SS, SBg. cbn [live prepub] in SR. unfold wsm, wbg in SS, SBg. cbn [growrz prepub hardp] in SS, SBg.
      destruct (kdone kt) eqn:Ek; cbn [negb] in *; [left; lia|]. right. split; [lia|].
      rewrite E1 in Hv. cbn [valid] in Hv.
      assert (G : x_len (tab_at s new) = 2 * LENc s) by (apply (HG t new); rewrite Hp, E1; [reflexivity | cbn [growrz prepub]; rewrite Ek; reflexivity]).
      assert (L' : LENc s' = 2 * LENc s) by (unfold LENc at 1; rewrite E3, (Hlen new Hv); exact G).
      assert (L1 : 0 < LENc s) by (destruct (xi_wf _ _ _ _ s HI (g_cur s) Hcl) as [W _]; exact W).
      unfold Phi, small. rewrite L'. destruct (Nat.ltb (LENc s) Ctot) eqn:B1; destruct (Nat.ltb (2 * LENc s) Ctot) eqn:B2;
        rewrite ?Nat.ltb_lt, ?Nat.ltb_ge in *; try lia.
      pose proof (psum_le_pw (fun u => wbg s' (g_pc s' u)) (fun u => wsm (g_pc s' u)) ths (fun u _ => wbg_le_wsm s' _)) as Hpw.
      fold (Wbg s') in Hpw. fold (Wsm s') in Hpw. lia.
    - (* any other step *)
      split; [|intros hn0 kt0 E F; rewrite (E2 hn0 kt0 E) in F; discriminate F].
      destruct (Hsame E1) as [L1 L2].
      destruct (Nat.eq_dec (live p') (live p)) as [El|El]; [right | left; lia]. split; [lia|].
      unfold Phi. rewrite L1, L2. destruct (small s) eqn:B; [lia|]. specialize (E4 eq_refl). lia.
  Qed.


  (* ---------------- GL: the table a grow builds is twice the current one ---------------- *)

  Lemma growrz_wake (p : pc) : growrz (wake p) = growrz p. Proof. destruct p; reflexivity. Qed.

  Lemma own_newtab s t p s' ls new : step_pc s t p = Some (s', ls) -> rk_ok p -> valid s p ->
    X_own.newtab (g_pc s' t) = Some new -> growrz (g_pc s' t) = true ->
    g_cur s' = g_cur s
    /\ ((X_own.newtab p = Some new /\ growrz p = true) \/ (exists kt tab, p = PR_Stat HGrow kt tab /\ new = length (g_tabs s))).
  Proof.
    intros Hs Hrk Hv.
    destruct p; step_cases Hs; cbn [g_pc set_pc set_tab set_flags push_tab g_cur g_tabs]; (destruct (Nat.eq_dec t t) as [_|Hx]; [|exfalso; apply Hx; reflexivity]).
    all: try match goal with |- context [run_cont ?kt] => destruct kt; cbn [run_cont] end.
    all: cbn [norm X_own.newtab growrz prepub]; intros Hn Hg; try discriminate Hn.
    all: try (cbn [valid] in Hv; match type of Hv with _ /\ _ /\ _ /\ _ => destruct Hv as [_ [_ [_ Hq]]] end; rewrite X_own.norm_newtab in Hn;
              rewrite (proj1 (X_own.quiet_newtab hash idx nslots nstripes _ Hq)) in Hn; discriminate Hn).
    all: try (destruct p; discriminate Hn).
    all: split; [reflexivity|].
    all: cbn [rk_ok] in Hrk; unfold hk2 in Hrk.
    all: try (left; split; assumption).
    all: try (rewrite Hrk in Hg by reflexivity; discriminate Hg).
    all: try (inversion Hn; subst new; right; do 2 eexists; split; reflexivity).
  Qed.

  Lemma x_len_new len seed : x_len (@new_xtable K V nslots nstripes len seed) = len.
  Proof. unfold x_len, new_xtable. cbn [x_chains]. apply repeat_length. Qed.

  Lemma GL_step_pc s t p s' ls : TI s -> XT s -> GL s -> g_pc s t = p -> step_pc s t p = Some (s', ls) -> GL s'.
  Proof.
    intros HT HX HG Hp Hs. pose proof HT as [HI [HW HK]].
    pose proof (xi_valid _ _ _ _ s HI t) as Hv. rewrite Hp in Hv.
    pose proof (HK t) as Hrk. rewrite Hp in Hrk.
    pose proof (others_step eqd hash idx tag nslots seeds grow_needed shrink_policy probe nstripes minlen grow_only s t p s' ls HT Hp Hs) as Ho.
    pose proof (step_nstr s t p s' ls Hs Hv) as Hsh.
    assert (Hcl : g_cur s < length (g_tabs s)) by apply (xi_cur _ _ _ _ s HI).
    assert (Hsame : g_cur s' = g_cur s -> LENc s' = LENc s) by (intros E; unfold LENc; rewrite E; apply (Hsh _ Hcl)).
    intros u new Hn Hg'. destruct (Nat.eq_dec u t) as [->|Hne].
    - destruct (own_newtab s t p s' ls new Hs Hrk Hv Hn Hg') as [Hc [[A B]|[kt [tab [A B]]]]].
      + rewrite (Hsame Hc). destruct (X_own.xt_new s HX t new ltac:(rewrite Hp; exact A)) as [Hl _].
        rewrite (proj2 (Hsh new ltac:(lia))). apply (HG t new); rewrite Hp; assumption.
      + rewrite (Hsame Hc). subst new. rewrite A in Hp, Hs.
        pose proof (X_own.xt_src s HX t tab ltac:(rewrite Hp; reflexivity)) as Et.
        destruct (step_alloc s t _ s' ls Hs) as [Hl|[len' [Etabs [[kt0 [E _]]|[hn0 [kt0 [tab0 [E El]]]]]]]].
        * exfalso. destruct (X_own.xt_new s' (X_own.XT_step_pc eqd hash idx tag nslots seeds grow_needed shrink_policy probe nstripes minlen grow_only Hminlen s t _ s' ls HI HX Hp Hs) t _ Hn) as [Hl' _]. lia.
        * discriminate E.
        * inversion E; subst hn0 kt0 tab0. destruct (push_acc nslots nstripes s' s _ Etabs) as [_ Pn]. rewrite Pn, x_len_new, El, Et. unfold LENc. lia.
    - assert (E0 : X_own.newtab (g_pc s u) = Some new /\ growrz (g_pc s u) = true).
      { destruct (Ho u Hne) as [E|E]; rewrite E in Hn, Hg'; [|rewrite X_own.wake_newtab in Hn; rewrite growrz_wake in Hg']; split; assumption. }
      destruct E0 as [A B].
      assert (Hnr : resizer p = false).
      { destruct (resizer p) eqn:R; [|reflexivity]. exfalso. apply Hne. apply (xi_rzB _ _ _ _ s HI u t (X_own.newtab_resizer _ _ A)). rewrite Hp. exact R. }
      destruct (X_resize.step_misc eqd hash idx tag nslots seeds grow_needed shrink_policy probe nstripes minlen grow_only s t p s' ls Hs Hv) as [[Hc|[kt [nw [E _]]]] _];
        [|rewrite E in Hnr; discriminate Hnr].
      rewrite (Hsame Hc). destruct (X_own.xt_new s HX u new A) as [Hl _]. rewrite (proj2 (Hsh new ltac:(lia))). apply (HG u new A B).
  Qed.


  (* ---------------- the caps ---------------- *)

  Variable LXM : nat.

  Definition pregrow (p : pc) : bool := match p with PR_Table HGrow _ | PR_Stat HGrow _ _ => true | _ => false end.

  (* every won CAS uses up one unit of SBf: table lengths times 2^SBf stay below a constant *)
  Definition LH (s : xstate) : Prop :=
    (forall tab, tab < length (g_tabs s) -> x_len (tab_at s tab) * 2 ^ SBf s <= LXM)
    /\ minlen * 2 ^ SBf s <= LXM
    /\ (forall t, pregrow (g_pc s t) = true -> 2 * LENc s * 2 ^ SBf s <= LXM).

  (* the stripes of a table are those of its length *)
  Definition NSI (s : xstate) : Prop := forall tab, tab < length (g_tabs s) -> nstr (tab_at s tab) = nstripes (x_len (tab_at s tab)).

  Lemma pow_le a b : a <= b -> 2 ^ a <= 2 ^ b.
  Proof. intros H. apply Nat.pow_le_mono_r; lia. Qed.
  Lemma pow_lt a b : a < b -> 2 * 2 ^ a <= 2 ^ b.
  Proof. intros H. change (2 * 2 ^ a) with (2 ^ (S a)). apply pow_le. lia. Qed.
  Lemma mul_pow_le x a b : a <= b -> x * 2 ^ a <= x * 2 ^ b.
  Proof. intros H. apply Nat.mul_le_mono_l. apply pow_le. exact H. Qed.

  Lemma pregrow_wake (p : pc) : pregrow (wake p) = pregrow p. Proof. destruct p; reflexivity. Qed.
  Lemma pregrow_resizer (p : pc) : pregrow p = true -> resizer p = true.
  Proof. destruct p; try discriminate; reflexivity. Qed.

  Lemma own_pregrow s t p s' ls : step_pc s t p = Some (s', ls) -> valid s p -> pregrow (g_pc s' t) = true ->
    g_cur s' = g_cur s /\ (pregrow p = true \/ exists hn kt, p = PR_CAS hn kt /\ g_resizing s = false).
  Proof.
    intros Hs Hv.
    destruct p; step_cases Hs; cbn [g_pc set_pc set_tab set_flags push_tab g_cur g_tabs]; (destruct (Nat.eq_dec t t) as [_|Hx]; [|exfalso; apply Hx; reflexivity]).
    all: try match goal with |- context [run_cont ?kt] => destruct kt; cbn [run_cont] end.
    all: cbn [norm pregrow]; intros Hg; try discriminate Hg.
    all: try (cbn [valid] in Hv; match type of Hv with _ /\ _ /\ _ /\ _ => destruct Hv as [_ [_ [_ [_ [_ Hq]]]]] end; destruct p; try discriminate Hg; discriminate Hq).
    all: split; [reflexivity|].
    all: try (left; reflexivity).
    all: try (right; do 2 eexists; split; reflexivity).
  Qed.

  Lemma LH_step_pc s t p s' ls : TI s -> XT s -> LH s -> g_pc s t = p -> step_pc s t p = Some (s', ls) ->
    SBf s' <= SBf s -> (forall hn kt, p = PR_CAS hn kt -> g_resizing s = false -> SBf s' < SBf s) -> LH s'.
  Proof.
    intros HT HX [H1 [H2 H3]] Hp Hs Hle Hlt. pose proof HT as [HI [HW HK]].
    pose proof (xi_valid _ _ _ _ s HI t) as Hv. rewrite Hp in Hv.
    pose proof (others_step eqd hash idx tag nslots seeds grow_needed shrink_policy probe nstripes minlen grow_only s t p s' ls HT Hp Hs) as Ho.
    pose proof (step_nstr s t p s' ls Hs Hv) as Hsh.
    assert (Hcl : g_cur s < length (g_tabs s)) by apply (xi_cur _ _ _ _ s HI).
    assert (Hsame : g_cur s' = g_cur s -> LENc s' = LENc s) by (intros E; unfold LENc; rewrite E; apply (Hsh _ Hcl)).
    assert (Hold : forall tab, tab < length (g_tabs s) -> x_len (tab_at s' tab) * 2 ^ SBf s' <= LXM).
    { intros tab Ht. rewrite (proj2 (Hsh tab Ht)). pose proof (H1 tab Ht). pose proof (mul_pow_le (x_len (tab_at s tab)) _ _ Hle). lia. }
    split; [|split].
    - intros tab Ht.
      destruct (step_alloc s t _ s' ls Hs) as [Hl|[len' [Etabs [[kt0 [E El]]|[hn0 [kt0 [tab0 [E El]]]]]]]].
      + apply Hold. lia.
      + destruct (push_acc nslots nstripes s' s _ Etabs) as [_ Pn]. rewrite Etabs, app_length in Ht. cbn [length] in Ht.
        destruct (Nat.eq_dec tab (length (g_tabs s))) as [->|Hne]; [|apply Hold; lia].
        rewrite Pn, x_len_new, El. pose proof (mul_pow_le minlen _ _ Hle). lia.
      + destruct (push_acc nslots nstripes s' s _ Etabs) as [_ Pn]. rewrite Etabs, app_length in Ht. cbn [length] in Ht.
        destruct (Nat.eq_dec tab (length (g_tabs s))) as [->|Hne]; [|apply Hold; lia].
        rewrite Pn, x_len_new, El. rewrite E in Hp, Hv. cbn [valid] in Hv. destruct Hv as [Hv1 Hv2].
        destruct hn0.
        * pose proof (X_own.xt_src s HX t tab0 ltac:(rewrite Hp; reflexivity)) as Et. subst tab0.
          pose proof (H3 t ltac:(rewrite Hp; reflexivity)) as H. unfold LENc in H.
          pose proof (mul_pow_le (x_len (tab_at s (g_cur s)) * 2) _ _ Hle). lia.
        * pose proof (H1 tab0 Hv1) as H. pose proof (Nat.div_le_upper_bound (x_len (tab_at s tab0)) 2 (x_len (tab_at s tab0)) ltac:(lia) ltac:(lia)) as Hd.
          pose proof (mul_pow_le (x_len (tab_at s tab0)) _ _ Hle). pose proof (Nat.mul_le_mono_r _ _ (2 ^ SBf s') Hd). lia.
        * pose proof (H1 tab0 Hv1) as H. pose proof (Nat.div_le_upper_bound (x_len (tab_at s tab0)) 2 (x_len (tab_at s tab0)) ltac:(lia) ltac:(lia)) as Hd.
          pose proof (mul_pow_le (x_len (tab_at s tab0)) _ _ Hle). pose proof (Nat.mul_le_mono_r _ _ (2 ^ SBf s') Hd). lia.
    - pose proof (mul_pow_le minlen _ _ Hle). lia.
    - intros u Hg. destruct (Nat.eq_dec u t) as [->|Hne].
      + destruct (own_pregrow s t p s' ls Hs Hv Hg) as [Hc [A|[hn [kt [A B]]]]].
        * rewrite (Hsame Hc). pose proof (H3 t ltac:(rewrite Hp; exact A)). pose proof (mul_pow_le (2 * LENc s) _ _ Hle). lia.
        * rewrite (Hsame Hc). pose proof (pow_lt _ _ (Hlt hn kt A B)) as Hpw. pose proof (H1 _ Hcl) as H. fold (LENc s) in H.
          pose proof (Nat.mul_le_mono_l _ _ (LENc s) Hpw). lia.
      + assert (E0 : pregrow (g_pc s u) = true) by (destruct (Ho u Hne) as [E|E]; rewrite E in Hg; [|rewrite pregrow_wake in Hg]; exact Hg).
        assert (Hnr : resizer p = false).
        { destruct (resizer p) eqn:R; [|reflexivity]. exfalso. apply Hne. apply (xi_rzB _ _ _ _ s HI u t (pregrow_resizer _ E0)). rewrite Hp. exact R. }
        destruct (X_resize.step_misc eqd hash idx tag nslots seeds grow_needed shrink_policy probe nstripes minlen grow_only s t p s' ls Hs Hv) as [[Hc|[kt [nw [E _]]]] _];
          [|rewrite E in Hnr; discriminate Hnr].
        rewrite (Hsame Hc). pose proof (H3 u E0). pose proof (mul_pow_le (2 * LENc s) _ _ Hle). lia.
  Qed.

  Lemma NSI_step_pc s t p s' ls : TI s -> NSI s -> g_pc s t = p -> step_pc s t p = Some (s', ls) -> NSI s'.
  Proof.
    intros HT HN Hp Hs. pose proof HT as [HI [HW HK]].
    pose proof (xi_valid _ _ _ _ s HI t) as Hv. rewrite Hp in Hv.
    pose proof (step_nstr s t p s' ls Hs Hv) as Hsh.
    assert (Hold : forall tab, tab < length (g_tabs s) -> nstr (tab_at s' tab) = nstripes (x_len (tab_at s' tab))).
    { intros tab Ht. destruct (Hsh tab Ht) as [A B]. rewrite A, B. apply HN. exact Ht. }
    intros tab Ht.
    destruct (step_alloc s t _ s' ls Hs) as [Hl|[len' [Etabs _]]]; [apply Hold; lia|].
    destruct (push_acc nslots nstripes s' s _ Etabs) as [_ Pn]. rewrite Etabs, app_length in Ht. cbn [length] in Ht.
    destruct (Nat.eq_dec tab (length (g_tabs s))) as [->|Hne]; [|apply Hold; lia].
    rewrite Pn, x_len_new. unfold nstr, new_xtable. cbn [x_size]. apply repeat_length.
  Qed.


  (* ---------------- the bundle, and steps that only relabel a thread (invocation, start) ---------------- *)

  Definition GIc (s : xstate) : Prop := XT s /\ XE s /\ GL s /\ LH s /\ NSI s.

  Lemma GIc_step_pc s t p s' ls : TI s -> GIc s -> In t ths -> g_pc s t = p -> step_pc s t p = Some (s', ls) ->
    GIc s' /\ SBf s' <= SBf s /\ (forall hn kt, p = PR_CAS hn kt -> g_resizing s = false -> SBf s' < SBf s).
  Proof.
    intros HT [HX [HE [HG [HL HN]]]] Ht Hp Hs. pose proof HT as [HI _].
    destruct (parts_step_pc s t p s' ls HT HE HG Ht Hp Hs) as [P1 P2].
    pose proof (SB_of_parts s s' P1) as Hle.
    assert (Hlt : forall hn kt, p = PR_CAS hn kt -> g_resizing s = false -> SBf s' < SBf s) by (intros hn kt A B; apply SB_of_parts_lt; exact (P2 hn kt A B)).
    split; [|split; assumption].
    split; [exact (X_own.XT_step_pc eqd hash idx tag nslots seeds grow_needed shrink_policy probe nstripes minlen grow_only Hminlen s t p s' ls HI HX Hp Hs)|].
    split; [exact (XE_step_pc eqd hash idx tag nslots seeds grow_needed shrink_policy probe nstripes minlen grow_only Hidx Hminlen ths Hnd Ctot s t p s' ls HT HX HE Ht Hp Hs)|].
    split; [exact (GL_step_pc s t p s' ls HT HX HG Hp Hs)|].
    split; [exact (LH_step_pc s t p s' ls HT HX HL Hp Hs Hle Hlt) | exact (NSI_step_pc s t p s' ls HT HN Hp Hs)].
  Qed.

  Definition boring (r : pc) : Prop :=
    X_own.newtab r = None /\ X_own.srctab r = None /\ prepub r = None /\ hardp r = false /\ X_resize.progress r = None
    /\ (forall tab, padd tab r = 0) /\ dok r /\ (forall cx tab i acc, r <> PW_Sum cx tab i acc) /\ (forall n, X_own.tabs_le n r).

  Lemma boring_idle : boring PIdle. Proof. repeat split; intros; discriminate. Qed.
  Lemma boring_pstart : boring PStart. Proof. repeat split; intros; discriminate. Qed.
  Lemma boring_start (o : @xop K V) : boring (start_pc o).
  Proof. destruct o; cbn [start_pc]; try destruct lie; repeat split; intros; try discriminate; exact I. Qed.
  Lemma live_start (o : @xop K V) : live (start_pc o) = 2.
  Proof. destruct o; cbn [start_pc]; try destruct lie; reflexivity. Qed.

  Lemma relabel s s1 t p0 q :
    g_tabs s1 = g_tabs s -> g_cur s1 = g_cur s ->
    (forall u, u <> t -> g_pc s1 u = g_pc s u /\ g_todo s1 u = g_todo s u) ->
    g_pc s t = p0 -> g_pc s1 t = q -> boring p0 -> boring q ->
    (In t ths -> length (g_todo s1 t) + mayins q <= length (g_todo s t) + mayins p0
                 /\ 2 * length (g_todo s1 t) + live q = 2 * length (g_todo s t) + live p0) ->
    GIc s -> GIc s1 /\ SBf s1 = SBf s.
  Proof.
    intros Etabs Ecur Hoth Hp0 Hq B0 Bq Hnum [HX [HE [HG [HL HN]]]].
    destruct B0 as [A1 [A2 [A3 [A4 [A5 [A6 [A7 [A8 A9]]]]]]]]. destruct Bq as [B1 [B2 [B3 [B4 [B5 [B6 [B7 [B8 B9]]]]]]]].
    assert (Tat : forall tab, tab_at s1 tab = tab_at s tab) by (intros; unfold XMachine.tab_at; rewrite Etabs; reflexivity).
    assert (Hpc : forall u, u <> t -> g_pc s1 u = g_pc s u) by (intros u H; apply (Hoth u H)).
    assert (HLc : LENc s1 = LENc s) by (unfold LENc; rewrite Ecur, Tat; reflexivity).
    assert (Hw0 : wsm p0 = 2 /\ wsm q = 2 /\ forall x, wbg x p0 = 0 /\ wbg x q = 0).
    { unfold wsm, wbg, growrz. rewrite A3, B3, A4, B4. split; [reflexivity|]. split; [reflexivity|]. intros x.
      split; [destruct p0 | destruct q]; try reflexivity; exfalso; [eapply A8 | eapply B8]; reflexivity. }
    destruct Hw0 as [W1 [W2 W3]].
    assert (HSB : SBf s1 = SBf s).
    { unfold SBf, Phi, small, Rr, Wsm, Wbg. rewrite HLc. f_equal; [f_equal|].
      - apply psum_ext. intros u Hu. destruct (Nat.eq_dec u t) as [->|Hne]; [rewrite Hq, Hp0; apply (Hnum Hu)|].
        destruct (Hoth u Hne) as [E1 E2]. rewrite E1, E2. reflexivity.
      - destruct (Nat.ltb (LENc s) Ctot); [f_equal|]; apply psum_ext; intros u Hu.
        + destruct (Nat.eq_dec u t) as [->|Hne]; [rewrite Hq, Hp0; lia | rewrite (Hpc u Hne); reflexivity].
        + destruct (Nat.eq_dec u t) as [->|Hne]; [rewrite Hq, Hp0; destruct (W3 s1), (W3 s); lia|].
          rewrite (Hpc u Hne). unfold wbg. destruct (g_pc s u); try reflexivity. rewrite Tat. reflexivity. }
    split; [|exact HSB]. split; [|split; [|split; [|split]]].
    - constructor.
      + intros u. rewrite Ecur. destruct (Nat.eq_dec u t) as [->|Hne]; [rewrite Hq; apply B9 | rewrite (Hpc u Hne); apply (X_own.xt_le s HX)].
      + intros u new. rewrite Ecur, Etabs. destruct (Nat.eq_dec u t) as [->|Hne]; [rewrite Hq, B1; discriminate | rewrite (Hpc u Hne); apply (X_own.xt_new s HX)].
      + intros u tab. rewrite Ecur. destruct (Nat.eq_dec u t) as [->|Hne]; [rewrite Hq, B2; discriminate | rewrite (Hpc u Hne); apply (X_own.xt_src s HX)].
    - apply (XE_mono nslots nstripes minlen Hminlen ths Ctot s s1 HE).
      + split; [rewrite Etabs; reflexivity | intros tab; rewrite Tat; auto].
      + exact Ecur.
      + unfold X_fair.Npre. apply psum_le_pw. intros u Hu. destruct (Nat.eq_dec u t) as [->|Hne]; [rewrite Hq, Hp0; apply (Hnum Hu)|].
        destruct (Hoth u Hne) as [E1 E2]. rewrite E1, E2. lia.
      + intros tab. unfold X_fair.Padd. apply psum_le_pw. intros u Hu. destruct (Nat.eq_dec u t) as [->|Hne]; [rewrite Hq, Hp0, B6; lia | rewrite (Hpc u Hne); lia].
      + intros u tab E. destruct (Nat.eq_dec u t) as [->|Hne]; [rewrite Hp0, A1 in E; discriminate E | exists u; rewrite (Hpc u Hne); exact E].
      + intros u x E. destruct (Nat.eq_dec u t) as [->|Hne]; [rewrite Hq, B5 in E; discriminate E | exists u; rewrite <- (Hpc u Hne); exact E].
      + intros u kt new E. destruct (Nat.eq_dec u t) as [->|Hne]; [rewrite Hq in E; rewrite E in B1; discriminate B1 | exists u; rewrite <- (Hpc u Hne); exact E].
      + intros u cx tab i acc E. destruct (Nat.eq_dec u t) as [->|Hne]; [exfalso; rewrite Hq in E; exact (B8 _ _ _ _ E) | left; exists u; rewrite <- (Hpc u Hne); exact E].
      + intros u. destruct (Nat.eq_dec u t) as [->|Hne]; [rewrite Hq; exact B7 | rewrite (Hpc u Hne); apply (xe_d _ _ _ _ s HE)].
    - intros u new Hn Hg. rewrite Tat, HLc. destruct (Nat.eq_dec u t) as [->|Hne]; [rewrite Hq, B1 in Hn; discriminate Hn|].
      rewrite (Hpc u Hne) in Hn, Hg. apply (HG u new Hn Hg).
    - destruct HL as [H1 [H2 H3]]. unfold LH. rewrite HSB. split; [|split].
      + intros tab Ht. rewrite Etabs in Ht. rewrite Tat. apply H1. exact Ht.
      + exact H2.
      + intros u Hg. rewrite HLc. destruct (Nat.eq_dec u t) as [->|Hne].
        * exfalso. rewrite Hq in Hg. destruct q; try discriminate Hg; discriminate B3.
        * rewrite (Hpc u Hne) in Hg. apply (H3 u Hg).
    - intros tab Ht. rewrite Etabs in Ht. rewrite Tat. apply HN. exact Ht.
  Qed.


  (* ---------------- every scheduling step ---------------- *)

  Notation OUT := (@OUT K V ths).
  Definition GI (s : xstate) : Prop := GIc s /\ OUT s.

  Lemma GI_xstep s t s' ls : TI s -> GI s -> xstep s t = Some (s', ls) ->
    GIc s' /\ SBf s' <= SBf s /\ (forall hn kt, g_pc s t = PR_CAS hn kt -> g_resizing s = false -> SBf s' < SBf s).
  Proof.
    intros HT [HG HO] E. destruct (in_dec Nat.eq_dec t ths) as [Ht|Ht].
    - destruct (g_pc s t) eqn:Ept.
      all: try (rewrite (xstep_pc eqd hash idx tag nslots seeds grow_needed shrink_policy probe nstripes minlen grow_only s t) in E by (rewrite Ept; discriminate);
                rewrite Ept in E; exact (GIc_step_pc s t _ s' ls HT HG Ht Ept E)).
      (* the invocation *)
      destruct (g_todo s t) as [|o rest] eqn:Et; [unfold XMachine.xstep in E; rewrite Ept, Et in E; discriminate E|].
      rewrite (xstep_idle eqd hash idx tag nslots seeds grow_needed shrink_policy probe nstripes minlen grow_only s t o rest Ept Et) in E.
      assert (Ep1 : g_pc (invoked s t o rest) t = start_pc o) by (cbn [X_term.invoked g_pc]; destruct (Nat.eq_dec t t); [reflexivity | congruence]).
      destruct (relabel s (invoked s t o rest) t PIdle (start_pc o) eq_refl eq_refl) as [HG1 HS1]; try assumption.
      { intros u Hne. cbn [X_term.invoked g_pc g_todo]. destruct (Nat.eq_dec u t); [contradiction | auto]. }
      { apply boring_idle. } { apply boring_start. }
      { intros _. cbn [X_term.invoked g_todo]. destruct (Nat.eq_dec t t) as [_|Hx]; [|exfalso; apply Hx; reflexivity].
        rewrite Et, live_start. cbn [length live mayins]. pose proof (mayins_le1 minlen Hminlen (start_pc o)). lia. }
      pose proof (TI_invoked hash idx nslots nstripes minlen Hminlen s t o rest HT Ept) as HT1.
      destruct (step_pc (invoked s t o rest) t (start_pc o)) as [[s2 ls2]|] eqn:E2; inversion E; subst.
      + destruct (GIc_step_pc _ t _ s' ls2 HT1 HG1 Ht Ep1 E2) as [A [B _]]. split; [exact A|]. split; [lia|]. intros hn kt X; discriminate X.
      + split; [exact HG1|]. split; [lia|]. intros hn kt X; discriminate X.
    - destruct (HO t Ht) as [Hp Htd]. unfold XMachine.xstep in E. destruct Hp as [Ep|Ep]; rewrite Ep in E; [|rewrite Htd in E; discriminate E].
      cbn [XMachine.step_pc] in E. inversion E; subst s' ls.
      destruct (relabel s (set_pc s t PIdle) t PStart PIdle eq_refl eq_refl) as [HG1 HS1]; try assumption.
      { intros u Hne. cbn [set_pc g_pc g_todo]. destruct (Nat.eq_dec u t); [contradiction | auto]. }
      { cbn [set_pc g_pc]. destruct (Nat.eq_dec t t); [reflexivity | congruence]. }
      { apply boring_pstart. } { apply boring_idle. } { intros H; contradiction. }
      split; [exact HG1|]. split; [lia|]. intros hn kt X; rewrite Ep in X; discriminate X.
  Qed.

  (* ---------------- the caps hold ---------------- *)

  Fixpoint maxf (f : nat -> nat) (n : nat) : nat := match n with 0 => f 0 | S m => Nat.max (f (S m)) (maxf f m) end.
  Lemma maxf_le f n : forall k, k <= n -> f k <= maxf f n.
  Proof.
    induction n as [|n IH]; intros k Hk; cbn [maxf].
    - replace k with 0 by lia. lia.
    - destruct (Nat.eq_dec k (S n)) as [->|Hne]; [lia|]. specialize (IH k ltac:(lia)). lia.
  Qed.

  Lemma pow_pos a : 1 <= 2 ^ a.
  Proof. pose proof (pow_le 0 a ltac:(lia)) as H. cbn in H. exact H. Qed.

  Lemma GI_capped s : TI s -> GIc s -> capped nslots nstripes (1 + Ctot) LXM (maxf nstripes LXM) s.
  Proof.
    intros [HI [HW HK]] [HX [HE [HG [[H1 _] HN]]]] tab Htab.
    assert (Hlen : x_len (tab_at s tab) <= LXM).
    { pose proof (H1 tab Htab) as H. pose proof (pow_pos (SBf s)) as Hp. pose proof (Nat.mul_le_mono_l _ _ (x_len (tab_at s tab)) Hp). lia. }
    split; [exact Hlen|]. split; [rewrite (HN tab Htab); apply maxf_le; exact Hlen|].
    intros b. change (nbuckets nslots (chain_of (tab_at s tab) b)) with (nbk nslots nstripes s tab b).
    assert (Hnot : notnew s tab -> nbk nslots nstripes s tab b <= 1 + Ctot) by (intros Hn; pose proof (xe_nb _ _ _ _ s HE tab b Htab Hn); lia).
    destruct (g_resizing s) eqn:Er.
    - destruct (xi_rzC _ _ _ _ s HI Er) as [r Hr].
      assert (Hoth : forall u, u <> r -> X_own.newtab (g_pc s u) = None).
      { intros u Hne. destruct (X_own.newtab (g_pc s u)) eqn:E; [|reflexivity]. exfalso. apply Hne. apply (xi_rzB _ _ _ _ s HI u r (X_own.newtab_resizer _ _ E) Hr). }
      destruct (X_own.newtab (g_pc s r)) as [new|] eqn:En.
      + destruct (Nat.eq_dec tab new) as [->|Hne].
        * assert (HNB : NB2 nslots nstripes s new /\ ecount (tab_at s new) <= Ctot).
          { destruct (g_pc s r) eqn:Ep; try discriminate En; cbn [X_own.newtab] in En; inversion En; subst new0.
            - destruct (xe_pg _ _ _ _ s HE r tab new i ltac:(rewrite Ep; reflexivity)) as [A [_ C]]. split; [exact C | lia].
            - destruct (xe_pg _ _ _ _ s HE r tab new (S i) ltac:(rewrite Ep; reflexivity)) as [A [_ C]]. split; [exact C | lia].
            - destruct (xe_pub _ _ _ _ s HE r kt new Ep) as [A [_ C]]. split; [exact C | lia]. }
          destruct HNB as [C A]. pose proof (C b) as Hb. pose proof (nentc_le_ecount minlen Hminlen (tab_at s new) b). lia.
        * apply Hnot. intros u E. destruct (Nat.eq_dec u r) as [->|Hu]; [rewrite En in E; congruence | rewrite (Hoth u Hu) in E; discriminate E].
      + apply Hnot. intros u E. destruct (Nat.eq_dec u r) as [->|Hu]; [rewrite En in E; discriminate E | rewrite (Hoth u Hu) in E; discriminate E].
    - apply Hnot. intros u E. pose proof (xi_rzA _ _ _ _ s HI u (X_own.newtab_resizer _ _ E)). congruence.
  Qed.


  (* ---------------- fair termination from a state that satisfies the bundle ---------------- *)

  Hypothesis Hprobe : forall tags tg, length (probe tags tg) <= length tags.

  Definition Good (s : xstate) : Prop := TI s /\ GIc s /\ OUT s.

  Lemma Good_xstep s t s' ls : Good s -> xstep s t = Some (s', ls) -> Good s'.
  Proof.
    intros [HT [HG HO]] E.
    split; [apply (TI_xstep eqd hash idx tag nslots seeds grow_needed shrink_policy probe nstripes minlen grow_only Hidx Hstripes Hminlen s t s' ls HT E)|].
    split; [apply (GI_xstep s t s' ls HT (conj HG HO) E)|].
    assert (HF : FInv hash idx nslots nstripes ths (fun _ => True) s) by (split; [exact HT | split; [exact I | exact HO]]).
    destruct (FInv_step eqd hash idx tag nslots seeds grow_needed shrink_policy probe nstripes minlen grow_only ths Hidx Hstripes Hminlen
                (fun _ => True) (fun _ _ _ _ _ _ _ => I) s t s' ls HF E) as [_ [_ HO']]. exact HO'.
  Qed.

  Lemma Good_xrun sched : forall s, Good s -> Good (fst (xrun s sched)).
  Proof.
    induction sched as [|t r IH]; intros s H; [exact H|]. cbn [XMachine.xrun].
    destruct (xstep s t) as [[s1 ls1]|] eqn:E; [|apply IH; exact H].
    specialize (IH s1 (Good_xstep s t s1 ls1 H E)). destruct (xrun s1 r) as [s2 ls2]. exact IH.
  Qed.

  Theorem fair_from s sigma : Good s -> fair ths sigma ->
    exists n, all_done ths (run_to eqd hash idx tag nslots seeds grow_needed shrink_policy probe nstripes minlen grow_only sigma n s).
  Proof.
    intros HG Hf.
    apply (fair_cond eqd hash idx tag nslots seeds grow_needed shrink_policy probe nstripes minlen grow_only ths
             (1 + Ctot) LXM (maxf nstripes LXM) Hprobe Hnd Hidx Hstripes Hminlen SBf Good).
    - intros s0 t s1 ls _ H E. exact (Good_xstep s0 t s1 ls H E).
    - intros s0 [HT [HG0 _]]. exact (GI_capped s0 HT HG0).
    - intros s0 t s1 ls _ [HT [HG0 HO]] E. apply (GI_xstep s0 t s1 ls HT (conj HG0 HO) E).
    - intros s0 t s1 ls hn kt _ [HT [HG0 HO]] E Hp Hr. apply (proj2 (proj2 (GI_xstep s0 t s1 ls HT (conj HG0 HO) E)) hn kt Hp Hr).
    - exact Hf.
    - destruct HG as [HT [HG0 HO]]. split; [exact HT|]. split; [split; [exact HT | split; assumption] | exact HO].
  Qed.


  (* ---------------- the initial state ---------------- *)

  Lemma Good_init len0 todo : 0 < len0 -> (forall u, ~ In u ths -> todo u = []) ->
    psum (fun t => length (todo t)) ths = Ctot ->
    (len0 + minlen) * 2 ^ SBf (xinit nslots seeds nstripes len0 todo) <= LXM ->
    Good (xinit nslots seeds nstripes len0 todo).
  Proof.
    intros Hl Hout HC HL. set (s0 := xinit nslots seeds nstripes len0 todo) in *.
    assert (HT : TI s0) by apply (TI_init hash idx nslots seeds nstripes minlen Hstripes Hminlen len0 todo Hl).
    assert (T0 : forall tab, tab < length (g_tabs s0) -> tab_at s0 tab = new_xtable nslots nstripes len0 (seeds 0)).
    { intros tab H. cbn in H. replace tab with 0 by lia. reflexivity. }
    destruct (@new_table_facts K V nslots nstripes len0 (seeds 0)) as [N1 [N2 [N3 _]]].
    assert (HN : Npre s0 = Ctot).
    { unfold X_fair.Npre. rewrite <- HC. apply psum_ext. intros u _. cbn. lia. }
    assert (HP : forall tab, Padd s0 tab = 0) by (intros tab; unfold X_fair.Padd; apply psum_zero).
    split; [exact HT|]. split; [|intros u Hu; split; [left; reflexivity | apply Hout; exact Hu]].
    split; [apply X_own.XT_init|]. split; [|split; [|split]].
    - constructor.
      + intros t. exact I.
      + intros tab Ht _. rewrite (T0 tab Ht), N3, HN. lia.
      + intros tab Ht _. rewrite (T0 tab Ht), HN, HP. unfold new_xtable. cbn [x_size]. rewrite spos_repeat0. lia.
      + intros t cx tab i acc E. discriminate E.
      + intros tab b Ht _. unfold nbk. rewrite (T0 tab Ht), HN. pose proof (@nb2_new K V nslots nstripes minlen Hminlen len0 (seeds 0) b) as H.
        assert (E0 : nentc (chain_of (new_xtable nslots nstripes len0 (seeds 0) : xtable) b) = 0).
        { pose proof (nentc_le_ecount minlen Hminlen (new_xtable nslots nstripes len0 (seeds 0) : xtable) b). lia. }
        lia.
      + intros t old new i E. discriminate E.
      + intros t kt new E. discriminate E.
    - intros t new E. discriminate E.
    - split; [|split].
      + intros tab Ht. rewrite (T0 tab Ht), N1. pose proof (Nat.mul_le_mono_r len0 (len0 + minlen) (2 ^ SBf s0) ltac:(lia)). lia.
      + pose proof (Nat.mul_le_mono_r minlen (len0 + minlen) (2 ^ SBf s0) ltac:(lia)). lia.
      + intros t E. discriminate E.
    - intros tab Ht. rewrite (T0 tab Ht), N1, N2. reflexivity.
  Qed.

End Full2.

(* ================================================================================================================ *)

Section FinalFair.
  Context {K V : Type}.
  Variable eqd : forall a b : K, {a = b} + {a <> b}.
  Variable hash : K -> N -> N.
  Variable idx : N -> nat -> nat.
  Variable tag : N -> N.
  Variable nslots : nat.
  Variable seeds : nat -> N.
  Variable grow_needed shrink_policy : nat -> Z -> bool.
  Variable probe : list (option N) -> N -> list nat.
  Variable nstripes : nat -> nat.
  Variable minlen : nat.
  Variable grow_only : bool.

  Notation xrun := (@xrun K V eqd hash idx tag nslots seeds grow_needed shrink_policy probe nstripes minlen grow_only).
  Notation run_to := (@run_to K V eqd hash idx tag nslots seeds grow_needed shrink_policy probe nstripes minlen grow_only).

  (* FAIR TERMINATION.  s: any state reached from the initial state by any finite schedule; ths: a duplicate-free list of threads
     containing every thread that has calls to make; sigma: any infinite schedule in which every thread of ths occurs infinitely
     often.  Then some finite prefix of sigma leaves every thread of ths idle with nothing left to do. *)
  Theorem fair_termination :
    xhyps idx nstripes minlen -> ghyp grow_needed -> (forall tags tg, length (probe tags tg) <= length tags) ->
    forall len0 todo sched ths, 0 < len0 -> NoDup ths -> (forall u, ~ In u ths -> todo u = []) ->
    let s := fst (xrun (xinit nslots seeds nstripes len0 todo) sched) in
    forall sigma, fair ths sigma -> exists n, all_done ths (run_to sigma n s).
  Proof.
    intros [H1 [H2 H3]] Hg Hpr len0 todo sched ths Hl Hnd Hout s sigma Hf.
    set (Ctot := psum (fun t => length (todo t)) ths).
    set (LXM := (len0 + minlen) * 2 ^ SBf nslots nstripes ths Ctot (xinit nslots seeds nstripes len0 todo)).
    apply (fair_from eqd hash idx tag nslots seeds grow_needed shrink_policy probe nstripes minlen grow_only H1 H2 H3 Hg ths Hnd Ctot LXM Hpr); [|exact Hf].
    apply (Good_xrun eqd hash idx tag nslots seeds grow_needed shrink_policy probe nstripes minlen grow_only H1 H2 H3 Hg ths Hnd Ctot LXM).
    apply (Good_init hash idx nslots seeds nstripes minlen H2 H3 ths Ctot LXM len0 todo Hl Hout eq_refl (le_n _)).
  Qed.

End FinalFair.

Print Assumptions fair_termination.

(* ---------------- the executable instance (XExec: the numbers of mapof.go) ---------------- *)
From CacheV Require Import TabExec Exec XExec.
From CacheV.gen Require Import Params.
From CacheV.proofs Require Import X_inst X_swar.

Lemma marked_nodup m : forall n i0, NoDup (marked_indices m i0 n).
Proof.
  induction n as [|n IH]; intros i0; cbn [marked_indices]; [constructor|].
  destruct (N.testbit m (N.of_nat (8 * i0 + 7))); cbn [app]; [|apply IH].
  constructor; [|apply IH]. intros H. apply marked_in in H. lia.
Qed.

(* the SWAR search visits every slot of the bucket at most once *)
Lemma probe_x_length tags tg : (length (probe_x tags tg) <= length tags)%nat.
Proof.
  assert (Hn : NoDup (probe_x tags tg)).
  { unfold probe_x. destruct (probe_valid tags tg); [apply marked_nodup | apply NoDup_filter; apply seq_NoDup]. }
  rewrite <- (seq_length (length tags) 0). apply NoDup_incl_length; [exact Hn|].
  intros i Hi. apply in_seq. destruct (probe_x_sound tags tg i Hi) as [H _]. lia.
Qed.

Notation x_run_to o seeds hint :=
  (run_to zeqd (hash_of o) idx_mapof tag_mapof (Z.to_nat entriesPerMapOfBucket) (seeds_of seeds)
          grow_needed_m shrink_policy_m probe_x nstripes_x (minlen_of_hint true hint) false).

(* the extracted MapOf machine: from every reachable state, every fair infinite schedule finishes all calls *)
Theorem x_machine_fair_termination (o : oracle) (seeds : list N) (hint : Z) (todo : nat -> list xop_z) (sched ths : list nat) :
  NoDup ths -> (forall u, ~ In u ths -> todo u = []) ->
  let s := fst (x_run o seeds hint (x_machine_init seeds hint todo) sched) in
  forall sigma, fair ths sigma -> exists n, all_done ths (x_run_to o seeds hint sigma n s).
Proof.
  intros Hnd Hout. unfold x_machine_init.
  apply (fair_termination zeqd (hash_of o) idx_mapof tag_mapof (Z.to_nat entriesPerMapOfBucket) (seeds_of seeds)
           grow_needed_m shrink_policy_m probe_x nstripes_x (minlen_of_hint true hint) false (x_instance_hyps hint) x_instance_ghyp probe_x_length);
    [apply minlen_of_hint_pos | exact Hnd | exact Hout].
Qed.

Print Assumptions x_machine_fair_termination.

(* ---------------- non-vacuity ---------------- *)
(* The reachable state [mex_state] of X_term.v (one slot per bucket, two buckets): thread 1 holds the lock of bucket 1 and has
   passed its checks (PW_ChkTab); thread 0 is the resizer, blocked in PR_CpLock on that bucket (NOT enabled); thread 2 sits in
   the wait set of resizeCond (PT_Waiting, NOT enabled).  The round robin 0,1,2,0,1,2,... is fair; after 90 of its steps
   (no-op steps of blocked threads included) every thread is idle with nothing left to do, after 60 not yet (thread 2).
   And fair_termination applies to this system: EVERY fair schedule finishes it. *)
Definition fex_rr (i : nat) : nat := Nat.modulo i 3.
Definition fex_run_to := @run_to nat nat Nat.eq_dec tex_hash tex_idx (fun h => h) 1%nat (fun _ => 0%N) tex_grow (fun _ _ => false) tex_probe (fun _ => 1%nat) 1%nat false.
Definition fex_enabled := @enabled nat nat Nat.eq_dec tex_hash tex_idx (fun h => h) 1%nat (fun _ => 0%N) tex_grow (fun _ _ => false) tex_probe (fun _ => 1%nat) 1%nat false.

Lemma fex_rr_fair : fair [0; 1; 2]%nat fex_rr.
Proof.
  intros n t Ht. exists (t + n * 3)%nat. split; [lia|]. unfold fex_rr. rewrite Nat.mod_add by lia.
  cbn [In] in Ht. repeat (destruct Ht as [<-|Ht]; [reflexivity|]). destruct Ht.
Qed.

Lemma tex_probe_length tags tg : (length (tex_probe tags tg) <= length tags)%nat.
Proof.
  unfold tex_probe. rewrite <- (seq_length (length tags) 0) at 2. generalize (seq 0 (length tags)). intros l.
  induction l as [|x r IH]; cbn [filter length]; [lia|]. destruct (nth x tags None); cbn [length]; lia.
Qed.

Example fair_nonvacuous :
  (exists hn kt new, g_pc mex_state 0%nat = PR_CpLock hn kt 0%nat new 1%nat) /\ fex_enabled mex_state 0%nat = false
  /\ (exists cx, g_pc mex_state 1%nat = PW_ChkTab cx 0%nat) /\ fex_enabled mex_state 1%nat = true
  /\ (exists hn kt, g_pc mex_state 2%nat = PT_Waiting hn kt) /\ fex_enabled mex_state 2%nat = false
  /\ fair [0; 1; 2]%nat fex_rr
  /\ ~ all_done [0; 1; 2]%nat (fex_run_to fex_rr 60 mex_state)
  /\ all_done [0; 1; 2]%nat (fex_run_to fex_rr 90 mex_state)
  /\ (forall sigma, fair [0; 1; 2]%nat sigma -> exists n, all_done [0; 1; 2]%nat (fex_run_to sigma n mex_state)).
Proof.
  split; [do 3 eexists; vm_compute; reflexivity|]. split; [vm_compute; reflexivity|].
  split; [eexists; vm_compute; reflexivity|]. split; [vm_compute; reflexivity|].
  split; [do 2 eexists; vm_compute; reflexivity|]. split; [vm_compute; reflexivity|].
  split; [exact fex_rr_fair|].
  split; [intros H; destruct (H 2%nat ltac:(cbn [In]; auto)) as [H1 _]; vm_compute in H1; discriminate H1|].
  split; [intros t Ht; cbn [In] in Ht; repeat (destruct Ht as [<-|Ht]; [split; vm_compute; reflexivity|]); destruct Ht|].
  intros sigma Hf. unfold mex_state, tex_run, mex_init.
  apply (fair_termination Nat.eq_dec tex_hash tex_idx (fun h => h) 1%nat (fun _ => 0%N) tex_grow (fun _ _ => false) tex_probe (fun _ => 1%nat) 1%nat false).
  - split; [intros h len Hl; apply Nat.mod_upper_bound; lia | split; [intros; lia | lia]].
  - exact tex_ghyp.
  - exact tex_probe_length.
  - lia.
  - repeat constructor; cbn [In]; lia.
  - intros u Hu. destruct u as [|[|[|u]]]; try reflexivity; exfalso; apply Hu; cbn [In]; auto.
  - exact Hf.
Qed.

(* ---------------- two findings about the model that shaped SBf ---------------- *)
(* (1) A grow can be DECIDED on a stale table and then doubles whatever table is current.  Clear publishes its new table without
   taking the bucket locks, so a writer that stands in sumSize() under the lock of a bucket of table 0 (PW_Sum .. 0 ..) can see
   table 0 replaced: thread 0 (third Store, chain of the only bucket full, counter 2 > length 1) is at PW_Sum when thread 1
   runs a whole Clear (table 1, empty, current).  Thread 0 then finishes the sum of the OLD table, decides to grow, wins the CAS
   and doubles the EMPTY current table (table 2, length 2, totalGrowths 1).  Hence "PW_Sum cx tab => tab is current" and "a grow
   starts only when the current table is over-full" are FALSE of the model (and of mapof.go: Clear does not lock buckets); this
   is why Phi counts a thread at PW_Sum on a short stale table, or at PR_CAS with a retry continuation, as a pending grow, and
   why the cap on the table lengths is LXM = (len0 + minlen) * 2^SBf(initial state) rather than 2 * Ctot. *)
Definition sg_init : @xstate nat nat :=
  xinit 1%nat (fun _ => 0%N) (fun _ => 1%nat) 1%nat
    (fun t => match t with 0 => [tex_st 0 10; tex_st 1 11; tex_st 2 12] | 1 => [XClear] | _ => [] end)%nat.

Example stale_grow_after_clear :
  let s1 := fst (tex_run tex_idx tex_grow sg_init (repeat 0 21 ++ repeat 1 9)%nat) in
  let s2 := fst (tex_run tex_idx tex_grow s1 (repeat 0 2)%nat) in
  let s3 := fst (tex_run tex_idx tex_grow s1 (repeat 0 20)%nat) in
  (exists cx i acc, g_pc s1 0%nat = PW_Sum cx 0%nat i acc) /\ g_pc s1 1%nat = PIdle /\ g_todo s1 1%nat = []
  /\ g_cur s1 = 1%nat /\ g_resizing s1 = false /\ X_term.ecount (tab_at 1%nat (fun _ => 1%nat) s1 1%nat) = 0%nat
  /\ (exists kt, g_pc s2 0%nat = PR_CAS HGrow kt)
  /\ g_pc s3 0%nat = PIdle /\ g_todo s3 0%nat = [] /\ g_growths s3 = 1%Z /\ g_cur s3 = 2%nat
  /\ x_len (tab_at 1%nat (fun _ => 1%nat) s3 2%nat) = 2%nat /\ X_term.ecount (tab_at 1%nat (fun _ => 1%nat) s3 2%nat) = 1%nat.
Proof.
  split; [do 3 eexists; vm_compute; reflexivity|]. repeat (split; [vm_compute; reflexivity|]).
  split; [eexists; vm_compute; reflexivity|]. repeat split; vm_compute; reflexivity.
Qed.

(* (2) ghyp is needed for FAIR termination too: with ths = [0] the schedule 0,0,0,... is fair; with grow_needed := fun _ _ => true
   and idx := fun _ _ => 0 (legal parameters of the model) thread 0 is still inside its second Store after 100, 800 steps
   (cf. X_term.solo_writer_grows_forever). *)
Example fair_needs_ghyp :
  let rt := @run_to nat nat Nat.eq_dec tex_hash (fun _ _ => 0%nat) (fun h => h) 1%nat (fun _ => 0%N) (fun _ _ => true) (fun _ _ => false)
              tex_probe (fun _ => 1%nat) 1%nat false (fun _ => 0%nat) in
  fair [0%nat] (fun _ => 0%nat)
  /\ ~ all_done [0%nat] (rt 100%nat (tex_init [tex_st 0 10; tex_st 1 11]))
  /\ ~ all_done [0%nat] (rt 800%nat (tex_init [tex_st 0 10; tex_st 1 11])).
Proof.
  split; [intros n t Ht; exists n; split; [lia | destruct Ht as [<-|[]]; reflexivity]|].
  split; intros H; destruct (H 0%nat (or_introl eq_refl)) as [H1 _]; vm_compute in H1; discriminate H1.
Qed.
