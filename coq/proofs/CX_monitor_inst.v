(* CX_monitor_inst.v -- the C05 / C06 monitors accept every run of the cache methods over
   XMachine (MapOf) and over XMachineS (Map), for both cache texts: instances of
   CX_monitor.product_monitored.
     [cxlabels] / [cslabels]: the cache-level events of a run of the product machine;
     [cache_monitored_over_xmachine], [cacheof_monitored_over_xmachine],
     [cache_monitored_over_smachine], [cacheof_monitored_over_smachine];
   plus the executable instances and vm_compute'd runs. *)
From CacheV Require Import Base SpecMap Client CacheModel CacheOfModel Ops SpecTTL Lin Conc XMachine.
From CacheV.gen Require Import Params.
From CacheV.proofs Require X_linpoints.
From CacheV.proofs Require Import C01_sim C01_hist C02_good C02_methods C02_methods_of C02_lin C02_lin_gen
  X_basic X_lin X_linpoints X_linearizable XS_resize XS_linpoints XS_linearizable
  CX_trans CX_compose CX_product CX_mapof CX_map CX_monitor.
From CacheV Require Import XMachineS.
From Coq Require Import NArith.
Local Open Scope nat_scope.

(* ---------------- the removers of both texts never make a blind call ---------------- *)

Section Calls.
  Context {K V : Type}.
  Variable eqd : forall a b : K, {a = b} + {a <> b}.
  Variable zero : V.
  Variable CB : cbid.

  Lemma calls_fire_all c (l : list (K * V)) : calls_ok (CacheModel.fire_all c l (Ret (CUnit (K:=K) (V:=V)))).
  Proof. induction l as [|[k v] t IH]; cbn; auto. Qed.
  Lemma calls_fire_all_of c (l : list (K * V)) : calls_ok (CacheOfModel.fire_all c l (Ret (CUnit (K:=K) (V:=V)))).
  Proof. induction l as [|[k v] t IH]; cbn; auto. Qed.

  Lemma calls_delexp ec now (snap : list (K * item V)) : forall ev, calls_ok (CacheModel.delexp_loop zero ec now snap ev).
  Proof.
    induction snap as [|[k i] t IH]; intros ev; cbn [CacheModel.delexp_loop].
    - destruct ec; [apply calls_fire_all | exact I].
    - destruct (expiredWithNow now i); [|apply IH]. cbn [calls_ok]. split; [reflexivity|].
      intros r. destruct r as [|v ok [a|]| |]; try apply IH. destruct (a_ok a); [destruct (a_old a); [destruct ec|]|]; apply IH.
  Qed.
  Lemma calls_delexp_of ec now (snap : list (K * item V)) : forall ev, calls_ok (CacheOfModel.delexp_loop zero ec now snap ev).
  Proof.
    induction snap as [|[k i] t IH]; intros ev; cbn [CacheOfModel.delexp_loop].
    - destruct ec; [apply calls_fire_all_of | exact I].
    - destruct (expiredWithNow now i); [|apply IH]. cbn [calls_ok]. split; [reflexivity|].
      intros r. destruct r as [|v ok [a|]| |]; try apply IH. destruct (a_ok a); [destruct (a_old a); [destruct ec|]|]; apply IH.
  Qed.

  Lemma calls_cache (o : cop K V) : remcb CB o = true -> calls_ok (prog_cache eqd zero o).
  Proof.
    unfold remcb. intros H. destruct o; cbn [is_remover andb] in H; try discriminate H; cbn [prog_cache].
    - unfold CacheModel.GetAndDelete. cbn [calls_ok]. split; [reflexivity|].
      intros r. destruct r as [|[i|] [] a| |]; cbn; auto. intros z c. unfold CacheModel.fire. destruct c; destruct (expiredWithNow z i); cbn; auto.
    - unfold CacheModel.Delete, CacheModel.GetAndDelete. cbn [CacheModel.bind calls_ok]. split; [reflexivity|].
      intros r. destruct r as [|[i|] [] a| |]; cbn; auto. intros z c. unfold CacheModel.fire. destruct c; destruct (expiredWithNow z i); cbn; auto.
    - unfold CacheModel.DeleteExpired. cbn [calls_ok]. intros c z. split; [reflexivity|]. intros r. destruct r; cbn; auto. apply calls_delexp.
  Qed.

  Lemma calls_cacheof (o : cop K V) : remcb CB o = true -> calls_ok (prog_cacheof eqd zero o).
  Proof.
    unfold remcb. intros H. destruct o; cbn [is_remover andb] in H; try discriminate H; cbn [prog_cacheof].
    - unfold CacheOfModel.GetAndDelete. cbn [calls_ok]. split; [reflexivity|].
      intros r. destruct r as [|[i|] [] a| |]; cbn; auto. intros z c. unfold CacheOfModel.fire. destruct c; destruct (expiredWithNow z i); cbn; auto.
    - unfold CacheOfModel.Delete, CacheOfModel.GetAndDelete. cbn [CacheOfModel.bind calls_ok]. split; [reflexivity|].
      intros r. destruct r as [|[i|] [] a| |]; cbn; auto. intros z c. unfold CacheOfModel.fire. destruct c; destruct (expiredWithNow z i); cbn; auto.
    - unfold CacheOfModel.DeleteExpired. cbn [calls_ok]. intros c z. split; [reflexivity|]. intros r. destruct r; cbn; auto. apply calls_delexp_of.
  Qed.
End Calls.

(* ---------------- over XMachine (MapOf) ---------------- *)

Section MonOverXMachine.
  Context {K V : Type}.
  Variable eqd : forall a b : K, {a = b} + {a <> b}.
  Variable hash : K -> N -> N.
  Variable idx : N -> nat -> nat.
  Variable tag : N -> N.
  Variable nslots : nat.
  Variable seeds : nat -> N.
  Variable grow_needed shrink_policy : nat -> Z -> bool.
  Variable probe : list (option N) -> N -> list nat.
  Variable nstripes : nat -> nat.
  Variable minlen : nat.
  Variable grow_only : bool.
  Variable len0 : nat.
  Variable zero : V.
  Variable progs : cop K V -> prog K V (cres K V).
  Variables NOW DFLT : Z.
  Variable CB : cbid.

  Notation item := (item V).
  Notation xstate := (@xstate K item).
  Notation xop := (@xop K item).
  Notation xres := (@xres K item).
  Notation env0 := (Conc.env0 NOW DFLT).
  Notation xp_step := (@xp_step K item eqd hash idx tag nslots seeds grow_needed shrink_policy probe nstripes minlen grow_only).
  Notation xp_init := (@xp_init K V nslots seeds nstripes len0).
  Notation cxinit := (@cxinit K V nslots seeds nstripes len0).

  (* the cache-level events of a run of the cache methods over XMachine *)
  Definition cxlabels (todo : nat -> list (cop K V)) sched : list (@label K V) :=
    plabels progs NOW DFLT CB xstate xop xres xp_step (@g_todo K item) with_todo (translate env0) (back env0) xsup (cxinit todo) sched.

  Hypothesis Hx : xhyps4 idx nstripes minlen nslots probe.
  Hypothesis Hlen : 0 < len0.
  Hypothesis Hinit : forall o : cop K V, conc_ok o -> good eqd zero NOW DFLT CB o None [] 0 (progs o).
  Hypothesis Hcalls : forall o : cop K V, remcb CB o = true -> calls_ok (progs o).

  Theorem xproduct_monitored todo sched t : (forall u, Forall conc_ok (todo u)) ->
    mon_accepts CB t mon_idle (cxlabels todo sched).
  Proof.
    intros Htodo. unfold cxlabels, CX_mapof.cxinit.
    apply (product_monitored eqd zero progs NOW DFLT CB xstate xop xres (X_linpoints.amap K item)
             xp_step (@g_todo K item) with_todo (@xidle K item) xp_init (xspec eqd) (aempty (K:=K) (V:=item)) (okop (K:=K) (V:=item))
             (translate env0) (back env0) xsup); try assumption.
    - intros s td u. reflexivity.
    - intros s td u. split; intros H; exact H.
    - intros s a b. reflexivity.
    - intros td u. reflexivity.
    - intros td u. left. reflexivity.
    - intros a b. reflexivity.
    - intros s u s' h td fut. apply xp_frame.
    - intros s u s' h. apply xp_proto.
    - intros o Ho. apply translate_okop. destruct o; cbn in Ho |- *; try exact I; discriminate Ho.
    - intros td sched0 Htd. rewrite xp_mrun.
      apply (xmachine_linearizable_proof eqd hash idx tag nslots seeds grow_needed shrink_policy probe nstripes minlen grow_only
               Hx len0 td sched0 Hlen Htd).
    - intros hx hm Hh Hl. apply (mapof_lin_transfer eqd env0 hx hm); [|exact Hl].
      eapply hrel_ok_mono; [|exact Hh]. intros o Ho. destruct o; cbn in Ho |- *; try exact I; discriminate Ho.
  Qed.

End MonOverXMachine.

(* ---------------- over XMachineS (Map) ---------------- *)

Section MonOverXMachineS.
  Context {K V : Type}.
  Variable eqd : forall a b : K, {a = b} + {a <> b}.
  Variable hash : K -> N -> N.
  Variable idx : N -> nat -> nat.
  Variable tophash : N -> N.
  Variable nslots : nat.
  Variable seeds : nat -> N.
  Variable grow_needed shrink_policy : nat -> Z -> bool.
  Variable nstripes : nat -> nat.
  Variable minlen : nat.
  Variable grow_only : bool.
  Variable len0 : nat.
  Variable zero : V.
  Variable progs : cop K V -> prog K V (cres K V).
  Variables NOW DFLT : Z.
  Variable CB : cbid.

  Notation item := (item V).
  Notation mstate := (@mstate K item).
  Notation sop := (@sop K item).
  Notation sres := (@sres item).
  Notation env0 := (Conc.env0 NOW DFLT).
  Notation sp_step := (@sp_step K item eqd hash idx tophash nslots seeds grow_needed shrink_policy nstripes minlen grow_only).
  Notation sp_init := (@sp_init K V nslots seeds nstripes len0).
  Notation csinit := (@csinit K V nslots seeds nstripes len0).
  Notation rhyps := (@XS_resize.rhyps K hash idx tophash nslots minlen).

  Definition cslabels (todo : nat -> list (cop K V)) sched : list (@label K V) :=
    plabels progs NOW DFLT CB mstate sop sres sp_step (@h_todo K item) swith_todo (stranslate env0) (sback env0) ssup (csinit todo) sched.

  Hypothesis Hr : rhyps.
  Hypothesis Hlen : 0 < len0.
  Hypothesis Hinit : forall o : cop K V, conc_ok o -> good eqd zero NOW DFLT CB o None [] 0 (progs o).
  Hypothesis Hcalls : forall o : cop K V, remcb CB o = true -> calls_ok (progs o).

  Theorem sproduct_monitored todo sched t : (forall u, Forall conc_ok (todo u)) ->
    mon_accepts CB t mon_idle (cslabels todo sched).
  Proof.
    intros Htodo. unfold cslabels, CX_map.csinit.
    apply (product_monitored eqd zero progs NOW DFLT CB mstate sop sres (X_linpoints.amap K item)
             sp_step (@h_todo K item) swith_todo (@sidle K item) sp_init (sspec eqd) (X_linpoints.aempty (K:=K) (V:=item))
             (sokop (K:=K) (V:=item)) (stranslate env0) (sback env0) ssup); try assumption.
    - intros s td u. reflexivity.
    - intros s td u. split; intros H; exact H.
    - intros s a b. reflexivity.
    - intros td u. reflexivity.
    - intros td u. left. reflexivity.
    - intros a b. reflexivity.
    - intros s u s' h td fut. apply sp_frame.
    - intros s u s' h. apply sp_proto.
    - intros o Ho. apply stranslate_okop. destruct o; cbn in Ho |- *; try exact I; discriminate Ho.
    - intros td sched0 Htd. rewrite sp_mrun.
      apply (smachine_linearizable_proof eqd hash idx tophash nslots seeds grow_needed shrink_policy nstripes minlen grow_only
               Hr len0 td sched0 Hlen Htd).
    - intros hx hm Hh Hl. apply (map_lin_transfer eqd env0 hx hm); [|exact Hl].
      eapply hrel_ok_mono; [|exact Hh]. intros o Ho. destruct o; cbn in Ho |- *; try exact I; discriminate Ho.
  Qed.

End MonOverXMachineS.

(* ---------------- the four statements ---------------- *)

Section FinalMon.
  Context {K V : Type}.
  Variable eqd : forall a b : K, {a = b} + {a <> b}.
  Variable hash : K -> N -> N.
  Variable idx : N -> nat -> nat.
  Variable tag : N -> N.
  Variable nslots : nat.
  Variable seeds : nat -> N.
  Variable grow_needed shrink_policy : nat -> Z -> bool.
  Variable probe : list (option N) -> N -> list nat.
  Variable nstripes : nat -> nat.
  Variable minlen : nat.
  Variable grow_only : bool.
  Variable zero : V.
  Variables NOW DFLT : Z.
  Variable CB : cbid.

  (* C05 / C06 along every run of the cache (xsync_map.go's text) over the concurrent MapOf machine: for every thread, the
     sequence of its invocations, user-function events, removals reported by the map's answers, callback events and responses
     is accepted by the monitor of C02_lin.v *)
  Theorem cache_monitored_over_xmachine :
    xhyps4 idx nstripes minlen nslots probe -> forall len0 (todo : nat -> list (cop K V)) sched t, 0 < len0 ->
    (forall u, Forall conc_ok (todo u)) ->
    mon_accepts CB t mon_idle
      (cxlabels eqd hash idx tag nslots seeds grow_needed shrink_policy probe nstripes minlen grow_only len0
                (prog_cache eqd zero) NOW DFLT CB todo sched).
  Proof.
    intros Hx len0 todo sched t Hlen Htodo.
    apply (xproduct_monitored eqd hash idx tag nslots seeds grow_needed shrink_policy probe nstripes minlen grow_only len0 zero
             (prog_cache eqd zero) NOW DFLT CB Hx Hlen (good_init eqd zero NOW DFLT CB) (calls_cache eqd zero CB) todo sched t Htodo).
  Qed.

  Theorem cacheof_monitored_over_xmachine :
    xhyps4 idx nstripes minlen nslots probe -> forall len0 (todo : nat -> list (cop K V)) sched t, 0 < len0 ->
    (forall u, Forall conc_ok (todo u)) ->
    mon_accepts CB t mon_idle
      (cxlabels eqd hash idx tag nslots seeds grow_needed shrink_policy probe nstripes minlen grow_only len0
                (prog_cacheof eqd zero) NOW DFLT CB todo sched).
  Proof.
    intros Hx len0 todo sched t Hlen Htodo.
    apply (xproduct_monitored eqd hash idx tag nslots seeds grow_needed shrink_policy probe nstripes minlen grow_only len0 zero
             (prog_cacheof eqd zero) NOW DFLT CB Hx Hlen (good_init_of eqd zero NOW DFLT CB) (calls_cacheof eqd zero CB) todo sched t Htodo).
  Qed.

End FinalMon.

Section FinalMonS.
  Context {K V : Type}.
  Variable eqd : forall a b : K, {a = b} + {a <> b}.
  Variable hash : K -> N -> N.
  Variable idx : N -> nat -> nat.
  Variable tophash : N -> N.
  Variable nslots : nat.
  Variable seeds : nat -> N.
  Variable grow_needed shrink_policy : nat -> Z -> bool.
  Variable nstripes : nat -> nat.
  Variable minlen : nat.
  Variable grow_only : bool.
  Variable zero : V.
  Variables NOW DFLT : Z.
  Variable CB : cbid.

  Theorem cache_monitored_over_smachine :
    @XS_resize.rhyps K hash idx tophash nslots minlen -> forall len0 (todo : nat -> list (cop K V)) sched t, 0 < len0 ->
    (forall u, Forall conc_ok (todo u)) ->
    mon_accepts CB t mon_idle
      (cslabels eqd hash idx tophash nslots seeds grow_needed shrink_policy nstripes minlen grow_only len0
                (prog_cache eqd zero) NOW DFLT CB todo sched).
  Proof.
    intros Hr len0 todo sched t Hlen Htodo.
    apply (sproduct_monitored eqd hash idx tophash nslots seeds grow_needed shrink_policy nstripes minlen grow_only len0 zero
             (prog_cache eqd zero) NOW DFLT CB Hr Hlen (good_init eqd zero NOW DFLT CB) (calls_cache eqd zero CB) todo sched t Htodo).
  Qed.

  Theorem cacheof_monitored_over_smachine :
    @XS_resize.rhyps K hash idx tophash nslots minlen -> forall len0 (todo : nat -> list (cop K V)) sched t, 0 < len0 ->
    (forall u, Forall conc_ok (todo u)) ->
    mon_accepts CB t mon_idle
      (cslabels eqd hash idx tophash nslots seeds grow_needed shrink_policy nstripes minlen grow_only len0
                (prog_cacheof eqd zero) NOW DFLT CB todo sched).
  Proof.
    intros Hr len0 todo sched t Hlen Htodo.
    apply (sproduct_monitored eqd hash idx tophash nslots seeds grow_needed shrink_policy nstripes minlen grow_only len0 zero
             (prog_cacheof eqd zero) NOW DFLT CB Hr Hlen (good_init_of eqd zero NOW DFLT CB) (calls_cacheof eqd zero CB) todo sched t Htodo).
  Qed.

End FinalMonS.

Print Assumptions cache_monitored_over_xmachine.
Print Assumptions cacheof_monitored_over_xmachine.
Print Assumptions cache_monitored_over_smachine.
Print Assumptions cacheof_monitored_over_smachine.

(* ---------------- the executable instances, and runs ---------------- *)
From CacheV Require Import TabExec Exec XExec XExecS.
From CacheV.proofs Require Import X_swar XS_cinst XS_rinst.

Theorem cache_monitored_over_xmachine_instance :
  forall (progs_is_of : bool) (o : oracle) (sds : list N) (hint : Z) (zero : Z) (NOW DFLT : Z) (CB : cbid)
         (todo : nat -> list (cop Z Z)) sched t,
    (forall u, Forall conc_ok (todo u)) ->
    mon_accepts CB t mon_idle
      (cxlabels zeqd (hash_of o) idx_mapof tag_mapof (Z.to_nat entriesPerMapOfBucket) (seeds_of sds)
                grow_needed_m shrink_policy_m probe_x nstripes_x (minlen_of_hint true hint) false (minlen_of_hint true hint)
                (if progs_is_of then prog_cacheof zeqd zero else prog_cache zeqd zero) NOW DFLT CB todo sched).
Proof.
  intros b o sds hint zero NOW DFLT CB todo sched t Htodo.
  assert (Hl : 0 < minlen_of_hint true hint) by (destruct (x_instance_hyps4 hint) as [[_ [_ H]] _]; exact H).
  destruct b.
  - apply (cacheof_monitored_over_xmachine zeqd (hash_of o) idx_mapof tag_mapof (Z.to_nat entriesPerMapOfBucket) (seeds_of sds)
             grow_needed_m shrink_policy_m probe_x nstripes_x (minlen_of_hint true hint) false zero NOW DFLT CB
             (x_instance_hyps4 hint) (minlen_of_hint true hint) todo sched t Hl Htodo).
  - apply (cache_monitored_over_xmachine zeqd (hash_of o) idx_mapof tag_mapof (Z.to_nat entriesPerMapOfBucket) (seeds_of sds)
             grow_needed_m shrink_policy_m probe_x nstripes_x (minlen_of_hint true hint) false zero NOW DFLT CB
             (x_instance_hyps4 hint) (minlen_of_hint true hint) todo sched t Hl Htodo).
Qed.

Theorem cache_monitored_over_smachine_instance :
  forall (progs_is_of : bool) (o : oracle) (sds : list N) (hint : Z) (zero : Z) (NOW DFLT : Z) (CB : cbid)
         (todo : nat -> list (cop Z Z)) sched t, oracle64 o ->
    (forall u, Forall conc_ok (todo u)) ->
    mon_accepts CB t mon_idle
      (cslabels zeqd (hash_of o) idx_map tag_map (nslots_of false) (seeds_of sds)
                grow_needed_s shrink_policy_s nstripes_x (minlen_of_hint false hint) false (minlen_of_hint false hint)
                (if progs_is_of then prog_cacheof zeqd zero else prog_cache zeqd zero) NOW DFLT CB todo sched).
Proof.
  intros b o sds hint zero NOW DFLT CB todo sched t Ho Htodo.
  assert (Hl : 0 < minlen_of_hint false hint) by (destruct (s_instance_rhyps o hint Ho) as [_ [_ [_ H]]]; exact H).
  destruct b.
  - apply (cacheof_monitored_over_smachine zeqd (hash_of o) idx_map tag_map (nslots_of false) (seeds_of sds)
             grow_needed_s shrink_policy_s nstripes_x (minlen_of_hint false hint) false zero NOW DFLT CB
             (s_instance_rhyps o hint Ho) (minlen_of_hint false hint) todo sched t Hl Htodo).
  - apply (cache_monitored_over_smachine zeqd (hash_of o) idx_map tag_map (nslots_of false) (seeds_of sds)
             grow_needed_s shrink_policy_s nstripes_x (minlen_of_hint false hint) false zero NOW DFLT CB
             (s_instance_rhyps o hint Ho) (minlen_of_hint false hint) todo sched t Hl Htodo).
Qed.
Print Assumptions cache_monitored_over_xmachine_instance.
Print Assumptions cache_monitored_over_smachine_instance.

(* runs: the clock stands at 100, the callback is number 5.  Thread 0: Set(7, 1, 50ns), GetAndDelete(7);
   thread 1: GetOrCompute(7, fn = 9, forever), Delete(7). *)
Definition mon_ex_xlab progs (todo : nat -> list (cop Z Z)) sched :=
  cxlabels zeqd (hash_of []) idx_mapof tag_mapof (Z.to_nat entriesPerMapOfBucket) (seeds_of [])
           grow_needed_m shrink_policy_m probe_x nstripes_x (minlen_of_hint true 0%Z) false (minlen_of_hint true 0%Z)
           progs 100%Z 0%Z (Some 5) todo sched.
Definition mon_ex_slab progs (todo : nat -> list (cop Z Z)) sched :=
  cslabels zeqd (hash_of []) idx_map tag_map (nslots_of false) (seeds_of [])
           grow_needed_s shrink_policy_s nstripes_x (minlen_of_hint false 0%Z) false (minlen_of_hint false 0%Z)
           progs 100%Z 0%Z (Some 5) todo sched.
Definition mon_ex_todo (t : nat) : list (cop Z Z) :=
  match t with O => [OSet 7%Z 1%Z 50%Z; OGetAndDelete 7%Z] | S O => [OGetOrCompute 7%Z 9%Z (-1)%Z; ODelete 7%Z] | _ => [] end.
Definition mon_sched (l : list nat) : list (nat * list (Z * item Z)) := map (fun t => (t, [])) l.

(* over MapOf: the GetOrCompute overlaps the GetAndDelete and is linearized after it: the GetAndDelete removes (7, 1) -- reported
   when the map answers -- and then fires the callback with (7, 1); the GetOrCompute runs the user function once and stores 9;
   the Delete removes (7, 9) and fires the callback with it *)
Example monitored_run_over_xmachine :
  mon_ex_xlab (prog_cache zeqd 0%Z) mon_ex_todo (mon_sched (repeat 0 18 ++ [1; 1; 1; 1; 1; 1] ++ repeat 0 25 ++ repeat 1 60))
  = [LInv 0 (OSet 7%Z 1%Z 50%Z); LRes 0 CUnit; LInv 0 (OGetAndDelete 7%Z);
     LInv 1 (OGetOrCompute 7%Z 9%Z (-1)%Z); LGone 0 7%Z 1%Z; LEv 0 (EFire 5 7%Z 1%Z); LRes 0 (CVal 1%Z true);
     LEv 1 (EFn 7%Z); LRes 1 (CVal 9%Z false);
     LInv 1 (ODelete 7%Z); LGone 1 7%Z 9%Z; LEv 1 (EFire 5 7%Z 9%Z); LRes 1 CUnit].
Proof. vm_compute. reflexivity. Qed.

(* over Map, the generic text: the GetOrCompute loads 1 (no user-function event); the Delete of thread 1 wins the race for the
   entry, removes (7, 1) and fires the callback; thread 0's GetAndDelete has not got the answer of its map call when the schedule
   ends (its moves were spent while thread 1 stood in the middle of its Compute) *)
Example monitored_run_over_smachine :
  mon_ex_slab (prog_cacheof zeqd 0%Z) mon_ex_todo (mon_sched (repeat 0 22 ++ repeat 1 8 ++ repeat 0 35 ++ repeat 1 80))
  = [LInv 0 (OSet 7%Z 1%Z 50%Z); LRes 0 CUnit; LInv 0 (OGetAndDelete 7%Z);
     LInv 1 (OGetOrCompute 7%Z 9%Z (-1)%Z); LRes 1 (CVal 1%Z true);
     LInv 1 (ODelete 7%Z); LGone 1 7%Z 1%Z; LEv 1 (EFire 5 7%Z 1%Z); LRes 1 CUnit].
Proof. vm_compute. reflexivity. Qed.

(* What is per-thread and what is not.  The monitor orders, WITHIN a thread: map answer (LGone) < callback < response.  The ghost label
   LGone of a product run stands at the ANSWER of the map call, not at the linearization store that physically removed the entry, so
   its position relative to OTHER threads' events means nothing: here thread 0's LoadAndDelete has removed (7, 1) but not returned;
   thread 1's GetOrCompute misses the key (user function, answer (9, false)), its Delete removes (7, 9) and fires the callback -- all
   of that BEFORE the label LGone 0 7 1.  (On the atomic machine of Conc.v the LGone label is the removal itself and would precede
   thread 1's miss.)  With 24 instead of 22 moves the callback for (7, 1) still fires after (7, 9) has come and gone: neither machine
   orders callbacks of different threads like the removals; no monitor statement says so. *)
Example lgone_is_at_the_answer :
  mon_ex_xlab (prog_cache zeqd 0%Z) mon_ex_todo (mon_sched (repeat 0 22 ++ repeat 1 60 ++ repeat 0 30))
  = [LInv 0 (OSet 7%Z 1%Z 50%Z); LRes 0 CUnit; LInv 0 (OGetAndDelete 7%Z);
     LInv 1 (OGetOrCompute 7%Z 9%Z (-1)%Z); LEv 1 (EFn 7%Z); LRes 1 (CVal 9%Z false);
     LInv 1 (ODelete 7%Z); LGone 1 7%Z 9%Z; LEv 1 (EFire 5 7%Z 9%Z); LRes 1 CUnit;
     LGone 0 7%Z 1%Z; LEv 0 (EFire 5 7%Z 1%Z); LRes 0 (CVal 1%Z true)].
Proof. vm_compute. reflexivity. Qed.
