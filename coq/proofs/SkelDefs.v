(* SkelDefs.v -- definitions only (they must build also when a theorem of Skel.v breaks: diagnostics).
   Skel.v -- the cache-layer source, translated on every run into "call budgets"
   (gen/SrcFacts.v, by harness/srcfacts/skeleton.go), against the model programs.

   For every public method of xsyncMap / xsyncMapOf the translator computes, per
   kind of primitive (a call on c.items, a clock read, a load or store of a
   setting, an invocation of the evicted callback or of a user function), the
   maximum number of times a syntactic path of the SOURCE performs it outside a
   closure run by the map, and the maximum number of user-function invocations
   inside one such closure.

   Two directions are proved against whatever the translator produced this time:
   - [bounded]: EVERY path of the model program of every call -- whatever the map,
     the clock and the settings answer -- stays within the budget of the source
     method (so the model never makes a map call the source does not make, and a
     method that is one Compute in the source is at most one Compute in the model);
   - [attained]: every budget entry is attained by a sequential run of the model
     from a concrete state (so the source makes no call, clock read or callback
     the model does not know about), except for the pairs listed in [waived],
     whose syntactic path is infeasible (a constant argument decides the branch).
   No statement here is about schedules; it is the static tie between the text of
   the cache methods and the programs the C01/C02/C05/C06 theorems are about. *)
From CacheV Require Import Base SpecMap Client CacheModel CacheOfModel Ops.
From CacheV.gen Require Import Params SrcFacts.
From Coq Require Import String ZArith List Lia Bool.
Import ListNotations.
Local Open Scope nat_scope.

Scheme Equality for stok.

Definition budget := list (stok * option nat).

(* spend one unit of token t; None = the budget does not allow it *)
Fixpoint take (b : budget) (t : stok) : option budget :=
  match b with
  | [] => None
  | (t', n) :: r =>
      if stok_beq t t' then
        match n with
        | None => Some b
        | Some 0 => None
        | Some (S m) => Some ((t', Some m) :: r)
        end
      else match take r t with Some r' => Some ((t', n) :: r') | None => None end
  end.

Section Skel.
  Context {K V : Type}.

  Definition tk_of (o : cmop K V) : stok :=
    match o with
    | CLoad _ => TLoad
    | CStore _ _ => TStore
    | CCompute _ _ => TCompute
    | CLoadAndDelete _ => TLoadAndDelete
    | CDelete _ => TDelete
    | CClear => TClear
    | CSize => TSize
    | CSnapshot => TSnapshot
    end.

  Definition tk_ev (e : event K V) : stok :=
    match e with
    | EFire _ _ _ => TFire
    | EFn _ => TUserFn
    | EVisit _ _ => TUserFn
    end.

  (* a closure invokes the user function at most cf times, whatever it is given *)
  Definition closure_ok (cf : nat) (o : cmop K V) : Prop :=
    match o with
    | CCompute _ f => forall e x, a_fn (snd (f e x)) <= cf
    | _ => True
    end.

  Fixpoint bounded {R} (cf : nat) (b : budget) (p : prog K V R) : Prop :=
    match p with
    | Ret _ => True
    | MapCall o k =>
        closure_ok cf o /\
        match take b (tk_of o) with Some b' => forall r, bounded cf b' (k r) | None => False end
    | ReadNow k => match take b TNow with Some b' => forall z, bounded cf b' (k z) | None => False end
    | ReadDflt k => match take b TDflt with Some b' => forall z, bounded cf b' (k z) | None => False end
    | WriteDflt _ k => match take b TWDflt with Some b' => bounded cf b' k | None => False end
    | ReadCb k => match take b TCb with Some b' => forall c, bounded cf b' (k c) | None => False end
    | WriteCb _ k => match take b TWCb with Some b' => bounded cf b' k | None => False end
    | Emit e k => match take b (tk_ev e) with Some b' => bounded cf b' k | None => False end
    end.

  (* the name of the Go method a call stands for *)
  Definition opname (o : cop K V) : string :=
    match o with
    | OSet _ _ _ => "Set" | OSetDefault _ _ => "SetDefault" | OSetForever _ _ => "SetForever"
    | OGet _ => "Get" | OGetWithExpiration _ => "GetWithExpiration" | OGetWithTTL _ => "GetWithTTL"
    | OGetOrSet _ _ _ => "GetOrSet" | OGetAndSet _ _ _ => "GetAndSet" | OGetAndRefresh _ _ => "GetAndRefresh"
    | OGetOrCompute _ _ _ => "GetOrCompute" | OCompute _ _ _ => "Compute"
    | OGetAndDelete _ => "GetAndDelete" | ODelete _ => "Delete" | ODeleteExpired => "DeleteExpired"
    | ORange _ _ => "Range" | OItems _ => "Items" | OClear => "Clear" | OCount => "Count"
    | OGetDflt => "DefaultExpiration" | OSetDflt _ => "SetDefaultExpiration"
    | OGetCb => "EvictedCallback" | OSetCb _ => "SetEvictedCallback"
    | OAdvance _ => ""
    end%string.

  Definition is_call (o : cop K V) : Prop := match o with OAdvance _ => False | _ => True end.

End Skel.

Fixpoint lookup_s {A} (n : string) (l : list (string * A)) : option A :=
  match l with
  | [] => None
  | (m, a) :: r => if String.eqb n m then Some a else lookup_s n r
  end.

(* every path of the program of call o stays within the source budget of its method *)
Definition within {K V} (tbl : list (string * (budget * nat))) (progs : cop K V -> prog K V (cres K V)) (o : cop K V) : Prop :=
  match lookup_s (opname o) tbl with
  | Some (b, cf) => bounded cf b (progs o)
  | None => False
  end.

(* ------------------------------------------------------------------ *)
(* direction 2: every budget entry is attained by a sequential run of the model *)

Local Open Scope Z_scope.

Fixpoint trace_seq {R} (p : prog Z Z R) (s : cstate Z Z) : list stok * nat :=
  match p with
  | Ret _ => ([], 0%nat)
  | MapCall o k =>
      let '(m', r) := map_step Z.eq_dec (st_map s) (to_mop (st_env s) o) in
      let '(ts, n) := trace_seq (k r) (with_map s m') in
      (tk_of o :: ts, Nat.max n (length (fn_events o r)))
  | ReadNow k => let '(ts, n) := trace_seq (k (st_now s)) s in (TNow :: ts, n)
  | ReadDflt k => let '(ts, n) := trace_seq (k (st_dflt s)) s in (TDflt :: ts, n)
  | WriteDflt d k =>
      let '(ts, n) := trace_seq k {| st_map := st_map s; st_now := st_now s; st_dflt := d; st_cb := st_cb s |} in
      (TWDflt :: ts, n)
  | ReadCb k => let '(ts, n) := trace_seq (k (st_cb s)) s in (TCb :: ts, n)
  | WriteCb c k =>
      let '(ts, n) := trace_seq k {| st_map := st_map s; st_now := st_now s; st_dflt := st_dflt s; st_cb := c |} in
      (TWCb :: ts, n)
  | Emit e k => let '(ts, n) := trace_seq k s in (tk_ev e :: ts, n)
  end.

Definition count_tok (t : stok) (l : list stok) : nat := length (filter (stok_beq t) l).

Definition it (v e : Z) : item Z := {| iv := v; ie := e |}.

(* key 1 never expires, keys 2 and 3 expire at 1000 and 1500; default TTL 100; callback 7 *)
Definition probe_map : amap Z (item Z) := [(1, it 10 0); (2, it 20 1000); (3, it 30 1500)].
Definition s_live : cstate Z Z := {| st_map := probe_map; st_now := 500; st_dflt := 100; st_cb := Some 7%nat |}.
Definition s_late : cstate Z Z := {| st_map := probe_map; st_now := 2000; st_dflt := 100; st_cb := Some 7%nat |}.

Definition probes : list (cop Z Z * cstate Z Z) :=
  [ (OSet 5 50 DefaultExpiration, s_live); (OSetDefault 5 50, s_live); (OSetForever 5 50, s_live);
    (OGet 2, s_live); (OGet 2, s_late);
    (OGetWithExpiration 2, s_live); (OGetWithExpiration 2, s_late);
    (OGetWithTTL 2, s_live); (OGetWithTTL 2, s_late);
    (OGetOrSet 5 50 7, s_live); (OGetAndSet 5 50 7, s_live); (OGetAndRefresh 2 7, s_live);
    (OGetOrCompute 5 50 7, s_live); (OCompute 2 (fun v _ => (v + 1, false)) 7, s_live);
    (OGetAndDelete 2, s_live); (ODelete 2, s_live); (ODeleteExpired, s_late);
    (ORange (Some (fun _ _ => true)) [], s_live); (OItems [], s_live);
    (OClear, s_live); (OCount, s_live); (OGetDflt, s_live); (OSetDflt 9, s_live); (OGetCb, s_live); (OSetCb None, s_live) ].

(* syntactic paths of the source that no run can take: a constant argument decides the branch
   (SetForever passes NoExpiration to expiration(): neither the default nor the clock is read) *)
Definition waived : list (string * stok) := [("SetForever"%string, TDflt); ("SetForever"%string, TNow)].

Definition is_waived (n : string) (t : stok) : bool :=
  existsb (fun w => String.eqb n (fst w) && stok_beq t (snd w)) waived.

Definition best (progs : cop Z Z -> prog Z Z (cres Z Z)) (n : string) (f : list stok * nat -> nat) : nat :=
  fold_left Nat.max
    (map (fun pr => if String.eqb (opname (fst pr)) n then f (trace_seq (progs (fst pr)) (snd pr)) else 0%nat) probes) 0%nat.

(* the budget entries no probe attains: (method, Some token) or (method, None) for the closure's user-function count *)
Definition unattained (tbl : list (string * (budget * nat))) (progs : cop Z Z -> prog Z Z (cres Z Z))
  : list (string * option stok) :=
  flat_map (fun e =>
    let '(n, (b, cf)) := e in
    flat_map (fun tn =>
      let '(t, lim) := tn in
      let m := best progs n (fun r => count_tok t (fst r)) in
      let ok := match lim with Some k => Nat.eqb m k | None => Nat.leb 2 m end in
      if ok || is_waived n t then [] else [(n, Some t)]) b
    ++ (if Nat.eqb (best progs n snd) cf then [] else [(n, None)])) tbl.


(* diagnostics: the probes whose run exceeds the budget of their method (the boolean shadow of [bounded] along one path) *)
Fixpoint spend (b : budget) (ts : list stok) : option stok :=
  match ts with
  | [] => None
  | t :: r => match take b t with Some b' => spend b' r | None => Some t end
  end.

Definition exceeds (tbl : list (string * (budget * nat))) (progs : cop Z Z -> prog Z Z (cres Z Z))
  : list (string * option stok) :=
  flat_map (fun pr =>
    let n := opname (fst pr) in
    match lookup_s n tbl with
    | None => [(n, None)]
    | Some (b, cf) =>
        let r := trace_seq (progs (fst pr)) (snd pr) in
        match spend b (fst r) with
        | Some t => [(n, Some t)]
        | None => if Nat.leb (snd r) cf then [] else [(n, None)]
        end
    end) probes.

(* ------------------------------------------------------------------ *)
(* projections: the budgets with every primitive outside P left unconstrained, so that each property depends on the
   part of the call structure it is about *)

Definition all_toks : list stok :=
  [TLoad; TStore; TCompute; TLoadAndDelete; TDelete; TClear; TSize; TSnapshot; TNow; TDflt; TWDflt; TCb; TWCb; TFire; TUserFn;
   TLoadOrStore; TLoadAndStore; TLoadOrCompute; TUnknown; TFireLocked].

Definition relax_budget (P : stok -> bool) (b : budget) : budget :=
  filter (fun tn => P (fst tn)) b ++ map (fun t => (t, None)) (filter (fun t => negb (P t)) all_toks).

(* keepcf = false: the closures' user-function bound is left unconstrained too *)
Definition relax (P : stok -> bool) (keepcf : bool) (tbl : list (string * (budget * nat))) : list (string * (budget * nat)) :=
  map (fun e => let '(n, (b, cf)) := e in (n, (relax_budget P b, if keepcf then cf else 1000%nat))) tbl.

Definition unattained_on (P : stok -> bool) (keepcf : bool) (tbl : list (string * (budget * nat)))
           (progs : cop Z Z -> prog Z Z (cres Z Z)) : list (string * option stok) :=
  filter (fun e => match snd e with Some t => P t | None => keepcf end) (unattained tbl progs).

Definition P_map (t : stok) : bool :=
  match t with
  | TLoad | TStore | TCompute | TLoadAndDelete | TDelete | TClear | TSize | TSnapshot | TUserFn
  | TLoadOrStore | TLoadAndStore | TLoadOrCompute | TUnknown => true
  | _ => false
  end.
Definition P_set (t : stok) : bool := match t with TNow | TDflt | TWDflt | TCb | TWCb => true | _ => false end.
Definition P_cb (t : stok) : bool := match t with TFire | TCb | TWCb | TFireLocked => true | _ => false end.
