(* XS_rinst.v -- the executable instance of XMachineS (XExecS) has the
   abstract-map theorem of XS_resize.v (oracle hashes being 64-bit values);
   a non-vacuity example: a state in the middle of a grow, with a writer parked
   past resizeInProgress() on a bucket the copy has not reached. *)
From CacheV Require Import Base SpecMap XMachineS TabExec Exec XExec XExecS.
From CacheV.gen Require Import Params.
From CacheV.proofs Require Import X_inst XS_lock XS_inv XS_own XS_count XS_inst XS_cells XS_vis XS_abs XS_cinst XS_resize.
From Coq Require Import NArith Lia.

Lemma s_instance_rhyps o hint : oracle64 o -> rhyps (hash_of o) idx_map tag_map (nslots_of false) (minlen_of_hint false hint).
Proof.
  intros Ho. destruct (s_instance_hyps_cells o hint Ho) as [[H1 [H2 H3]] [H4 H5]].
  split; [split; assumption|]. split; [exact H5|]. split; assumption.
Qed.

Notation s_srun o seeds hint todo sched :=
  (fst (srun zeqd (hash_of o) idx_map tag_map (nslots_of false) (seeds_of seeds) grow_needed_s shrink_policy_s
             nstripes_x (minlen_of_hint false hint) false (s_machine_init seeds hint todo) sched)).

Notation s_abs := (sabs (hash_of _) idx_map tag_map (nslots_of false) nstripes_x).

(* the abstract map of the extracted Map machine: every reachable state, every step of any thread *)
Theorem s_machine_abs_step (o : oracle) (seeds : list N) (hint : Z) (todo : nat -> list sop_z) (sched : list nat) t s' ls : oracle64 o ->
  let s := s_srun o seeds hint todo sched in
  s_machine_step o seeds hint s t = Some (s', ls) ->
  match h_pc s t with
  | QR_Publish kt new =>
      (clear_kt kt /\ forall k v, ~ sabs (hash_of o) idx_map tag_map (nslots_of false) nstripes_x s' k v)
      \/ (~ clear_kt kt /\ forall k v, sabs (hash_of o) idx_map tag_map (nslots_of false) nstripes_x s' k v
                                      <-> sabs (hash_of o) idx_map tag_map (nslots_of false) nstripes_x s k v)
  | p => forall k v, sabs (hash_of o) idx_map tag_map (nslots_of false) nstripes_x s' k v
                     <-> upd_rel (sabs (hash_of o) idx_map tag_map (nslots_of false) nstripes_x s) (lin_effect p (h_cur s)) k v
  end.
Proof.
  intros Ho. unfold s_machine_init, s_machine_step.
  apply (reachable_abs_step zeqd (hash_of o) idx_map tag_map (nslots_of false) (seeds_of seeds) grow_needed_s shrink_policy_s nstripes_x
           (minlen_of_hint false hint) false (s_instance_rhyps o hint Ho)).
  apply minlen_of_hint_pos.
Qed.

Theorem s_machine_clear_kt (o : oracle) (seeds : list N) (hint : Z) (todo : nat -> list sop_z) (sched : list nat) t : oracle64 o ->
  hint_ok (h_pc (s_srun o seeds hint todo sched) t).
Proof.
  intros Ho. unfold s_machine_init.
  apply (clear_kt_proof zeqd (hash_of o) idx_map tag_map (nslots_of false) (seeds_of seeds) grow_needed_s shrink_policy_s nstripes_x
           (minlen_of_hint false hint) false (s_instance_rhyps o hint Ho)).
  apply minlen_of_hint_pos.
Qed.

(* ---------------- non-vacuity ---------------- *)
(* one slot per bucket, two buckets, grow as soon as a chain is full.  Thread 0 stores key 0 (bucket 0).  Thread 1 (Store 3, bucket 1)
   takes its bucket lock and reads the resizing flag clear: it stands at QW_ChkTab.  Thread 2 (Store 2, bucket 0: full) starts a grow,
   allocates table 1, copies bucket 0 and now spins on bucket 1, whose lock thread 1 holds. *)
Definition gex_st k v : @sop nat nat := SCompute k (fun _ => Some v) false false false.
Definition gex_hash := (fun (k : nat) (_ : N) => N.of_nat k).
Definition gex_idx := (fun (h : N) len => Nat.modulo (N.to_nat h) len).
Definition gex_run (sched : list nat) : @mstate nat nat :=
  fst (@srun nat nat Nat.eq_dec gex_hash gex_idx (fun h => h) 1%nat (fun _ => 0%N)
             (fun _ _ => true) (fun _ _ => false) (fun _ => 1%nat) 1%nat false
             (sinit 1%nat (fun _ => 0%N) (fun _ => 1%nat) 2%nat
                    (fun t => match t with 0 => [gex_st 0 10] | 1 => [gex_st 3 13] | 2 => [gex_st 2 12] | _ => [] end)%nat)
             sched).

Example resize_nonvacuous :
  let s := gex_run (repeat 0 20 ++ repeat 1 5 ++ repeat 2 18)%nat in
  progress (h_pc s 2%nat) = Some (0%nat, 1%nat, 1%nat)           (* source table 0, new table 1, one bucket copied *)
  /\ committed (h_pc s 1%nat) = Some (0%nat, 3%nat)              (* the writer of key 3 is past resizeInProgress() on table 0 *)
  /\ XS_lock.sholds gex_hash gex_idx 1%nat (fun _ => 1%nat) s (h_pc s 1%nat) = Some (0%nat, 1%nat)   (* and holds bucket 1 >= 1 *)
  /\ h_cur s = 0%nat /\ h_resizing s = true.
Proof. repeat split; vm_compute; reflexivity. Qed.
