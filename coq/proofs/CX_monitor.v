(* CX_monitor.v -- the C05 / C06 monitors over the concurrent map machines.

   CX_compose / CX_product transfer the cache-level HISTORY of a run of the product machine
   (cache methods over a concurrent map machine) to a run of Conc.v's atomic-map machine.
   Here the same is done for the cache-level EVENTS of every thread, which is what the
   per-thread monitors of C02_lin.v (mon_step: C05 = the user function runs once per call
   that needs it, C06 = the callback fires once per removed entry, with that entry, after
   the removal) look at.

   Cache-level events of a product run ([plabels], labels of Conc.v):
     LInv t o / LRes t r          the thread invokes / returns from a cache method;
     LEv t e                      an Emit of the method body (a callback, a visit), at the move
                                  that executes it; the user-function events of a map call
                                  ([fn_events]: the closure ran inside the call) at the move at
                                  which the map machine ANSWERS the call;
     LGone t k v                  (ghost) at the same move: the answer of the call says that
                                  the call removed (k, v) ([removed]: LoadAndDelete that loaded,
                                  Compute whose closure deleted a loaded entry).  The physical
                                  removal is the linearization store of the machine's delete,
                                  between the call's invocation and this answer, in the same
                                  thread; the callback event comes after the answer.
   A thread is sequential, so the atomic run that [compose] builds can be chosen such that
   every thread has, up to what the monitor ignores ([tnorm]: LTau, other threads' labels,
   the removals of calls that owe no callback), the same sequence of events as in the
   product run -- only the interleaving ACROSS threads differs (the atomic machine performs
   a map call at its linearization mark, the product run reports it at its answer; in
   between the calling thread does nothing).  The monitors are per-thread, hence
   C02_lin_gen.gen_monitored transfers: [product_monitored]. *)
From CacheV Require Import Base SpecMap Client Ops SpecTTL Lin Conc.
From CacheV.gen Require Import Params.
From CacheV.proofs Require Import C01_sim C01_ops C01_hist C02_good C02_methods C02_lin C02_lin_gen CX_trans CX_compose CX_product.
Local Open Scope nat_scope.

Section MonLabels.
  Context {K V : Type}.
  Variable eqd : forall a b : K, {a = b} + {a <> b}.
  Variable progs : cop K V -> prog K V (cres K V).
  Variables NOW DFLT : Z.
  Variable CB : cbid.

  Notation item := (item V).
  Notation cop := (cop K V).
  Notation cres := (cres K V).
  Notation cmop := (cmop K V).
  Notation imres := (imres K V).
  Notation prog := (prog K V cres).
  Notation cconf := (@cconf K V).
  Notation label := (@label K V).
  Notation vconf := (@vconf K V).
  Notation vst := (@vst K V).
  Notation act := (@act K V).
  Notation out := (@out K V).
  Notation cstep := (cstep eqd progs NOW DFLT CB).
  Notation crun := (crun eqd progs NOW DFLT CB).
  Notation creach := (creach eqd progs NOW DFLT CB).
  Notation vstep := (vstep progs NOW DFLT CB).
  Notation env0 := (Conc.env0 NOW DFLT).
  Notation cmspec := (@cmspec K V eqd env0).
  Notation history := (@history K V).
  Notation mstat := (tstat cmop imres).
  Notation mon_run := (mon_run CB).
  Notation mon_step := (mon_step CB).
  Notation mon_accepts := (mon_accepts CB).

  (* ---------------- what the answer of a map call says it removed ---------------- *)

  Definition removed (mo : cmop) (r : imres) : list (K * V) :=
    match mo, r with
    | CLoadAndDelete k, RVal (Some i) true _ => [(k, iv i)]
    | CCompute k _, RVal (Some i) false (Some _) => [(k, iv i)]
    | _, _ => []
    end.

  (* the calls whose answer does not tell what they removed *)
  Definition blind (mo : cmop) : bool := match mo with CDelete _ | CClear => true | _ => false end.

  Lemma gone_insert k i (P : amap K item) : NoDup (keys P) -> gone eqd P (insert eqd k i P) = [].
  Proof.
    intros Hnd. apply (gone_none eqd). intros k' i' Hin. rewrite lookup_insert.
    destruct (eqd k' k); [eauto|]. exists i'. apply In_lookup; auto.
  Qed.

  Lemma gone_removed (P P' : amap K item) mo r : NoDup (keys P) -> blind mo = false -> mo <> CSnapshot ->
    map_step eqd P (to_mop env0 mo) = (P', r) -> gone eqd P P' = removed mo r.
  Proof.
    intros Hnd Hb Hs E. destruct mo; try discriminate Hb; try (exfalso; apply Hs; reflexivity); cbn [to_mop map_step] in E.
    - destruct (lookup eqd k P); inversion E; subst; cbn [removed]; apply (gone_self eqd); exact Hnd.
    - inversion E; subst. cbn [removed]. apply gone_insert. exact Hnd.
    - destruct (f env0 (lookup eqd k P)) as [[nv del] a]. destruct (lookup eqd k P) as [o|] eqn:El; destruct del; inversion E; subst; cbn [removed].
      + apply (gone_remove eqd k P o Hnd El).
      + apply gone_insert. exact Hnd.
      + apply (gone_self eqd). exact Hnd.
      + apply gone_insert. exact Hnd.
    - destruct (lookup eqd k P) as [o|] eqn:El; inversion E; subst; cbn [removed].
      + apply (gone_remove eqd k P o Hnd El).
      + apply (gone_self eqd). exact Hnd.
    - inversion E; subst. cbn [removed]. apply (gone_self eqd). exact Hnd.
  Qed.

  Lemma map_step_nodup (P P' : amap K item) mo r : NoDup (keys P) -> map_step eqd P (to_mop env0 mo) = (P', r) -> NoDup (keys P').
  Proof.
    intros Hnd E. destruct mo; cbn [to_mop map_step] in E.
    - destruct (lookup eqd k P); inversion E; subst; exact Hnd.
    - inversion E; subst. apply NoDup_insert. exact Hnd.
    - destruct (f env0 (lookup eqd k P)) as [[nv del] a]. destruct (lookup eqd k P); destruct del; inversion E; subst;
        first [apply NoDup_remove; exact Hnd | apply NoDup_insert; exact Hnd | exact Hnd].
    - destruct (lookup eqd k P); inversion E; subst; [apply NoDup_remove|]; exact Hnd.
    - inversion E; subst. apply NoDup_remove. exact Hnd.
    - inversion E; subst. constructor.
    - inversion E; subst. exact Hnd.
    - inversion E; subst. exact Hnd.
  Qed.

  (* ---------------- labelled combined traces ---------------- *)

  Definition lgone (t : nat) (g : list (K * V)) : list label := map (fun kv => LGone t (fst kv) (snd kv)) g.

  (* the events reported when the map answers r to the call mo of thread t *)
  Definition resp_labels (t : nat) (mo : cmop) (r : imres) : list label :=
    map (LEv t) (fn_events mo r) ++ lgone t (removed mo r).

  Definition vlabel (c : vconf) (a : act) : list label :=
    match a with
    | AInv t => match v_thr c t, v_todo c t with VIdle, o :: _ => [LInv t o] | _, _ => [] end
    | ARet t => match v_thr c t with VRun _ (Ret r) => [LRes t r] | _ => [] end
    | AMInv _ => []
    | AMRes t r => match v_thr c t with VWait _ mo _ => resp_labels t mo r | _ => [] end
    | ASnap _ _ => []
    | ATau t => match v_thr c t with VRun _ (Emit e _) => [LEv t e] | _ => [] end
    end.

  Inductive ltrace : vconf -> list out -> list label -> Prop :=
  | lt_nil c : ltrace c [] []
  | lt_step c a c1 os c1' outs labs :
      vstep c a = Some (c1, os) -> veq c1 c1' -> ltrace c1' outs labs -> ltrace c (os ++ outs) (vlabel c a ++ labs).

  Lemma vlabel_veq c c' a : veq c c' -> vlabel c a = vlabel c' a.
  Proof. intros [A B]. destruct a; cbn [vlabel]; rewrite <- ?A, <- ?B; reflexivity. Qed.

  Lemma ltrace_veq c c' outs labs : veq c c' -> ltrace c outs labs -> ltrace c' outs labs.
  Proof.
    intros Hq Hv. destruct Hv as [c | c a c1 os c1' outs labs Ev Hq1 Hv]; [constructor|].
    destruct (vstep_veq progs NOW DFLT CB c c' a c1 os Hq Ev) as [c1'' [Ev' Hq']].
    rewrite (vlabel_veq c c' a Hq).
    eapply lt_step; [exact Ev' | | exact Hv]. eapply veq_trans; [apply veq_sym; exact Hq' | exact Hq1].
  Qed.

  (* ---------------- what a thread's monitor sees of a list of labels ---------------- *)

  Definition remcb (o : cop) : bool := is_remover o && has_cb CB.

  (* cur: the removals of the thread's current call are owed to the callback (true between calls) *)
  Fixpoint tnorm (t : nat) (cur : bool) (ls : list label) : list label :=
    match ls with
    | [] => []
    | LInv t' o :: r => if Nat.eq_dec t' t then LInv t' o :: tnorm t (remcb o) r else tnorm t cur r
    | LRes t' x :: r => if Nat.eq_dec t' t then LRes t' x :: tnorm t true r else tnorm t cur r
    | LEv t' e :: r => if Nat.eq_dec t' t then LEv t' e :: tnorm t cur r else tnorm t cur r
    | LGone t' k v :: r => if Nat.eq_dec t' t then (if cur then LGone t' k v :: tnorm t cur r else tnorm t cur r) else tnorm t cur r
    | LTau _ :: r => tnorm t cur r
    end.

  Definition curm (m : mon) : bool := match m_op m with Some o => remcb o | None => true end.

  Lemma mon_none t (ls : list label) (m' : option (@mon K V)) : mon_run t None ls m' <-> m' = None.
  Proof.
    split.
    - revert m'. induction ls as [|l ls IH]; intros m' H; inversion H; subst; [reflexivity|].
      match goal with H1 : mon_step _ None _ _ |- _ => cbn in H1; subst end. apply IH. assumption.
    - intros ->. induction ls as [|l ls IH]; [constructor | econstructor; [reflexivity | exact IH]].
  Qed.

  Lemma mon_run_cons t (m : option (@mon K V)) (l : label) ls m' : mon_run t m (l :: ls) m' <-> exists m1, mon_step t m l m1 /\ mon_run t m1 ls m'.
  Proof.
    split.
    - intros H. inversion H; subst. eauto.
    - intros [m1 [A B]]. econstructor; eassumption.
  Qed.

  Lemma mon_tnorm t (ls : list label) : forall (m : @mon K V) m', mon_run t (Some m) ls m' <-> mon_run t (Some m) (tnorm t (curm m) ls) m'.
  Proof.
    induction ls as [|l ls IH]; intros m m'; [reflexivity|].
    (* a label the monitor of t reacts to: kept *)
    assert (Hkeep : forall c1, (forall m1, mon_step t (Some m) l m1 -> match m1 with Some x => curm x = c1 | None => True end) ->
              (mon_run t (Some m) (l :: ls) m' <-> mon_run t (Some m) (l :: tnorm t c1 ls) m')).
    { intros c1 Hc. rewrite !mon_run_cons. split; intros [m1 [A B]]; exists m1; (split; [exact A|]); specialize (Hc m1 A);
        (destruct m1 as [x|]; [subst c1; apply IH; exact B | apply mon_none; apply mon_none in B; exact B]). }
    (* a label it ignores: dropped *)
    assert (Hdrop : (forall m1, mon_step t (Some m) l m1 <-> m1 = Some m) ->
              (mon_run t (Some m) (l :: ls) m' <-> mon_run t (Some m) (tnorm t (curm m) ls) m')).
    { intros Hs. rewrite mon_run_cons. split.
      - intros [m1 [A B]]. apply Hs in A. subst m1. apply IH. exact B.
      - intros B. exists (Some m). split; [apply Hs; reflexivity | apply IH; exact B]. }
    destruct l as [t' o|t' r|t' e|t' k v|t']; cbn [tnorm].
    - destruct (Nat.eq_dec t' t) as [->|Hne].
      + apply Hkeep. intros m1 H. cbn in H. destruct (Nat.eq_dec t t); [|congruence]. subst m1. reflexivity.
      + apply Hdrop. intros m1. cbn. destruct (Nat.eq_dec t' t); [contradiction | reflexivity].
    - destruct (Nat.eq_dec t' t) as [->|Hne].
      + apply Hkeep. intros m1 H. cbn in H. destruct (Nat.eq_dec t t); [|congruence].
        destruct (m_op m); [destruct H as [[_ [_ ->]]|[_ ->]]; [reflexivity | exact I] | subst m1; exact I].
      + apply Hdrop. intros m1. cbn. destruct (Nat.eq_dec t' t); [contradiction | reflexivity].
    - destruct (Nat.eq_dec t' t) as [->|Hne].
      + apply Hkeep. intros m1 H. cbn in H. destruct e as [c k v|k|k v].
        * destruct (Nat.eq_dec t t); [|congruence]. destruct H as [[rest [_ [_ ->]]]|[_ ->]]; [reflexivity | exact I].
        * destruct (Nat.eq_dec t t); [|congruence]. subst m1. reflexivity.
        * subst m1. reflexivity.
      + apply Hdrop. intros m1. cbn. destruct e; try (destruct (Nat.eq_dec t' t); [contradiction|]); reflexivity.
    - destruct (Nat.eq_dec t' t) as [->|Hne].
      + destruct (curm m) eqn:Ec.
        * apply (Hkeep true). intros m1 H. cbn in H. destruct (Nat.eq_dec t t); [|congruence]. unfold curm in Ec.
          destruct (m_op m) as [o|] eqn:Eo; subst m1; [unfold curm; cbn; exact Ec | exact I].
        * apply Hdrop. intros m1. cbn. destruct (Nat.eq_dec t t); [|congruence]. unfold curm in Ec.
          destruct (m_op m) as [o|] eqn:Eo; [|discriminate Ec]. unfold remcb in Ec. rewrite Ec.
          destruct m as [mo owe nfn]. cbn in *. subst mo. reflexivity.
      + apply Hdrop. intros m1. cbn. destruct (Nat.eq_dec t' t); [contradiction | reflexivity].
    - apply Hdrop. intros m1. cbn. reflexivity.
  Qed.

  (* two lists of labels that thread t's monitor cannot tell apart *)
  Lemma mon_accepts_tnorm t ls ls' : tnorm t true ls = tnorm t true ls' -> mon_accepts t mon_idle ls -> mon_accepts t mon_idle ls'.
  Proof.
    intros E H m' Hr. apply (H m'). apply (mon_tnorm t ls mon_idle m'). change (curm mon_idle) with true. rewrite E.
    apply (mon_tnorm t ls' mon_idle m'). exact Hr.
  Qed.

  (* ---------------- tnorm and concatenation ---------------- *)

  (* no invocation, no response *)
  Definition plain (ls : list label) : Prop :=
    Forall (fun l => match l with LInv _ _ | LRes _ _ => False | _ => True end) ls.

  Lemma tnorm_plain t cur (a b : list label) : plain a -> tnorm t cur (a ++ b) = tnorm t cur a ++ tnorm t cur b.
  Proof.
    induction a as [|l a IH]; intros Hp; [reflexivity|]. inversion Hp as [|? ? Hl Ha]; subst.
    destruct l as [t' o|t' r|t' e|t' k v|t']; try contradiction; cbn [tnorm app].
    - destruct (Nat.eq_dec t' t); [cbn [app]; f_equal|]; apply IH; exact Ha.
    - destruct (Nat.eq_dec t' t); [destruct cur; [cbn [app]; f_equal|]|]; apply IH; exact Ha.
    - apply IH. exact Ha.
  Qed.

  Lemma tnorm_other t t' cur (a b : list label) : labels_of t' a -> t' <> t -> tnorm t cur (a ++ b) = tnorm t cur b.
  Proof.
    intros Hl Hne. induction a as [|l a IH]; [reflexivity|]. inversion Hl as [|? ? H1 H2]; subst.
    destruct l as [t0 o|t0 r|t0 e|t0 k v|t0]; subst t0; cbn [tnorm app]; try (destruct (Nat.eq_dec t' t); [contradiction|]); apply IH; exact H2.
  Qed.

  Lemma plain_history (ls : list label) : history ls = [] -> plain ls.
  Proof.
    induction ls as [|l ls IH]; intros H; [constructor|]. destruct l; cbn in H; try discriminate H; (constructor; [exact I | apply IH; exact H]).
  Qed.

  Lemma plain_app (a b : list label) : plain a -> plain b -> plain (a ++ b).
  Proof. intros A B. apply Forall_app. split; assumption. Qed.

  Lemma plain_lev t (evs : list (event K V)) : plain (map (LEv t) evs).
  Proof. induction evs; constructor; [exact I | assumption]. Qed.
  Lemma plain_lgone t g : plain (lgone t g).
  Proof. induction g; constructor; [exact I | assumption]. Qed.
  Lemma plain_resp t mo r : plain (resp_labels t mo r).
  Proof. apply plain_app; [apply plain_lev | apply plain_lgone]. Qed.

  Lemma labels_lev t (evs : list (event K V)) : labels_of t (map (LEv t) evs).
  Proof. induction evs; constructor; [reflexivity | assumption]. Qed.
  Lemma labels_lgone t g : labels_of t (lgone t g).
  Proof. induction g; constructor; [reflexivity | assumption]. Qed.
  Lemma labels_resp t mo r : labels_of t (resp_labels t mo r).
  Proof. apply Forall_app. split; [apply labels_lev | apply labels_lgone]. Qed.

  Lemma tnorm_lev t cur (evs : list (event K V)) : tnorm t cur (map (LEv t) evs) = map (LEv t) evs.
  Proof. induction evs as [|e r IH]; [reflexivity|]. cbn [map tnorm]. destruct (Nat.eq_dec t t); [|congruence]. rewrite IH. reflexivity. Qed.
  Lemma tnorm_lgone t cur g : tnorm t cur (lgone t g) = if cur then lgone t g else [].
  Proof.
    induction g as [|kv r IH]; [destruct cur; reflexivity|]. cbn [lgone map tnorm]. destruct (Nat.eq_dec t t); [|congruence].
    fold (lgone t r). rewrite IH. destruct cur; reflexivity.
  Qed.

  (* the labels of an atomic map step, and of the answer to the same call, for the monitor of the calling thread *)
  Lemma tnorm_mapstep t cur (evs : list (event K V)) g :
    tnorm t cur (map (LEv t) evs ++ lgone t g ++ [LTau t]) = map (LEv t) evs ++ (if cur then lgone t g else []).
  Proof.
    rewrite tnorm_plain by apply plain_lev. rewrite tnorm_lev. f_equal.
    rewrite tnorm_plain by apply plain_lgone. rewrite tnorm_lgone. cbn [tnorm]. apply app_nil_r.
  Qed.

  Lemma tnorm_resp t cur mo r : tnorm t cur (resp_labels t mo r) = map (LEv t) (fn_events mo r) ++ (if cur then lgone t (removed mo r) else []).
  Proof. unfold resp_labels. rewrite tnorm_plain by apply plain_lev. rewrite tnorm_lev, tnorm_lgone. reflexivity. Qed.

  (* ---------------- programs whose removers never make a blind call ---------------- *)

  Fixpoint calls_ok {R} (p : Client.prog K V R) : Prop :=
    match p with
    | Ret _ => True
    | MapCall mo k => blind mo = false /\ forall r, calls_ok (k r)
    | ReadNow k | ReadDflt k => forall z, calls_ok (k z)
    | ReadCb k => forall c, calls_ok (k c)
    | WriteDflt _ k | WriteCb _ k | Emit _ k => calls_ok k
    end.

  Hypothesis Hcalls : forall o, remcb o = true -> calls_ok (progs o).

  Definition CKt (v : vst) : Prop :=
    match v with
    | VIdle => True
    | VRun o p => remcb o = true -> calls_ok p
    | VWait o mo k => remcb o = true -> blind mo = false /\ forall r, calls_ok (k r)
    end.
  Definition CK (c : vconf) : Prop := forall t, CKt (v_thr c t).

  Lemma CK_veq c c' : veq c c' -> CK c -> CK c'.
  Proof. intros [A _] H t. rewrite <- A. apply H. Qed.

  Lemma CK_set c t x : CK c -> CKt x -> CK (vset c t x).
  Proof. intros H Hx u. cbn. unfold upd. destruct (Nat.eq_dec u t); [exact Hx | apply H]. Qed.

  Lemma CK_step c a c1 os : CK c -> vstep c a = Some (c1, os) -> CK c1.
  Proof.
    intros HC E. destruct a as [t|t|t|t r|t l|t]; cbn [CX_compose.vstep] in E.
    - destruct (v_thr c t); try discriminate E. destruct (v_todo c t) as [|o rest]; try discriminate E. inversion E; subst.
      intros u. cbn. unfold upd. destruct (Nat.eq_dec u t); [cbn; apply Hcalls | apply HC].
    - destruct (v_thr c t) as [|o p|]; try discriminate E. destruct p; try discriminate E. inversion E; subst. apply CK_set; [exact HC | exact I].
    - pose proof (HC t) as Ht. destruct (v_thr c t) as [|o p|]; try discriminate E. destruct p as [|mo k| | | | | |]; try discriminate E.
      destruct mo; try discriminate E; inversion E; subst; (apply CK_set; [exact HC | exact Ht]).
    - pose proof (HC t) as Ht. destruct (v_thr c t) as [| |o mo k]; try discriminate E. inversion E; subst.
      apply CK_set; [exact HC|]. cbn. intros Hr. apply (proj2 (Ht Hr)).
    - pose proof (HC t) as Ht. destruct (v_thr c t) as [|o p|]; try discriminate E. destruct p as [|mo k| | | | | |]; try discriminate E.
      destruct mo; try discriminate E. inversion E; subst. apply CK_set; [exact HC|]. cbn. intros Hr. apply (proj2 (Ht Hr)).
    - pose proof (HC t) as Ht. destruct (v_thr c t) as [|o p|]; try discriminate E.
      destruct p; try discriminate E; inversion E; subst; (apply CK_set; [exact HC|]); cbn in *; intros Hr; first [apply (Ht Hr) | exact (Ht Hr)].
  Qed.

  (* ---------------- the simulation of CX_compose, with every thread's events ---------------- *)

  Notation REL := (@REL K V).
  Notation TR := (@TR K V).

  Definition curst (v : vst) : bool := match v with VIdle => true | VRun o _ | VWait o _ _ => remcb o end.

  (* what the atomic machine has already emitted for the pending call of a waiting thread *)
  Definition pendlab (st : nat -> mstat) (c : vconf) (t : nat) : list label :=
    match v_thr c t, st t with
    | VWait o mo _, TLinearized _ r => tnorm t (remcb o) (resp_labels t mo r)
    | _, _ => []
    end.

  Lemma pendlab_ext st st' c c' t : v_thr c' t = v_thr c t -> st' t = st t -> pendlab st' c' t = pendlab st c t.
  Proof. intros A B. unfold pendlab. rewrite A, B. reflexivity. Qed.

  Lemma lin_prefix_lab : forall (i : list (iev cmop imres)) st c s e h,
    wf_inst cmop imres st i -> legal cmop imres _ cmspec (c_map s) i -> erase cmop imres i = e :: h -> REL st c s ->
    CK c -> NoDup (keys (c_map s)) ->
    exists st' s' ie i' ls,
      creach s ls s' /\ history ls = [] /\ REL st' c s'
      /\ wf_inst cmop imres st' (ie :: i') /\ legal cmop imres _ cmspec (c_map s') (ie :: i')
      /\ erase cmop imres [ie] = [e] /\ erase cmop imres i' = h
      /\ NoDup (keys (c_map s'))
      /\ forall t, pendlab st c t ++ tnorm t (curst (v_thr c t)) ls = pendlab st' c t.
  Proof.
    induction i as [|x i IH]; intros st c s e h Hw Hl He HR HC Hnd; [discriminate He|].
    destruct x as [t o|u o r|t r].
    - exists st, s, (IInv t o), i, []. cbn in He. inversion He; subst.
      split; [apply creach_refl|]. split; [reflexivity|]. split; [exact HR|]. split; [exact Hw|]. split; [exact Hl|].
      split; [reflexivity|]. split; [reflexivity|]. split; [exact Hnd|]. intros t0. cbn [tnorm]. apply app_nil_r.
    - apply wf_lin_i in Hw. destruct Hw as [Hst Hw]. apply legal_lin_i in Hl. destruct Hl as [m1 [[Hns Hms] Hl]].
      pose proof (r_thr st c s HR u) as Hu. rewrite Hst in Hu.
      destruct (v_thr c u) as [|o' p|o' mo k] eqn:Ev; cbn [CX_compose.TR] in Hu; try contradiction.
      destruct Hu as [Eo Ets]. subst o.
      pose proof (cstep_mapcall eqd progs NOW DFLT CB s u [] o' mo k m1 r Ets Hns Hms) as Hstep.
      set (s1 := {| c_map := m1; c_thr := upd (c_thr s) u (Running o' (k r)); c_todo := c_todo s |}) in *.
      assert (HR1 : REL (upd st u (TLinearized mo r)) c s1).
      { constructor.
        - intros t. apply (r_todo st c s HR).
        - intros t. unfold s1; cbn [c_thr]. unfold upd. destruct (Nat.eq_dec t u) as [->|Hn].
          + rewrite Ev. cbn. auto.
          + apply (r_thr st c s HR). }
      cbn [erase] in He.
      assert (Hnd1 : NoDup (keys (c_map s1))) by (apply (map_step_nodup (c_map s) m1 mo r Hnd Hms)).
      destruct (IH (upd st u (TLinearized mo r)) c s1 e h Hw Hl He HR1 HC Hnd1) as [st' [s' [ie [i' [ls [A [B [C [D [D1 [D2 [D3 [D4 D5]]]]]]]]]]]]].
      match type of Hstep with _ = Some (_, ?l) => set (l1 := l) in * end.
      exists st', s', ie, i', (l1 ++ ls). split; [|split; [|split; [exact C | split; [exact D | split; [exact D1 | split; [exact D2 | split; [exact D3 | split; [exact D4|]]]]]]]].
      + eapply creach_trans; [eapply creach_step; exact Hstep | exact A].
      + rewrite CX_compose.history_app. unfold l1. rewrite history_mapstep, B. reflexivity.
      + intros t. rewrite <- (D5 t). destruct (Nat.eq_dec t u) as [->|Hne].
        * (* the calling thread: what the atomic step emits is what the answer will report *)
          unfold pendlab at 1 2. rewrite Ev, Hst. unfold upd. destruct (Nat.eq_dec u u) as [_|Hc]; [|congruence].
          cbn [app curst]. unfold l1. rewrite tnorm_plain.
          2:{ apply plain_app; [apply plain_lev|]. apply plain_app; [apply (plain_lgone u) | constructor; [exact I | constructor]]. }
          f_equal. fold (lgone u (gone eqd (c_map s) m1)). rewrite tnorm_mapstep, tnorm_resp. f_equal.
          destruct (remcb o') eqn:Er; [|reflexivity]. f_equal.
          pose proof (HC u) as Hcu. rewrite Ev in Hcu. destruct (Hcu Er) as [Hb _].
          apply (gone_removed (c_map s) m1 mo r Hnd Hb Hns Hms).
        * rewrite (pendlab_ext st (upd st u (TLinearized mo r)) c c t eq_refl) by (unfold upd; destruct (Nat.eq_dec t u); [contradiction | reflexivity]).
          f_equal. unfold l1. apply tnorm_other with (t' := u); [|auto].
          apply Forall_app. split; [apply labels_lev|]. apply Forall_app. split; [apply (labels_lgone u) | constructor; [reflexivity | constructor]].
    - exists st, s, (IRes t r), i, []. cbn in He. inversion He; subst.
      split; [apply creach_refl|]. split; [reflexivity|]. split; [exact HR|]. split; [exact Hw|]. split; [exact Hl|].
      split; [reflexivity|]. split; [reflexivity|]. split; [exact Hnd|]. intros t0. cbn [tnorm]. apply app_nil_r.
  Qed.

  (* how a move transforms "the rest of the atomic run looks, to every monitor, like the rest of the combined trace" *)
  Definition xfer (st : nat -> mstat) (c : vconf) (st' : nat -> mstat) (c1 : vconf) (ls1 lab : list label) : Prop :=
    forall t X Y Z,
      pendlab st' c1 t ++ tnorm t (curst (v_thr c1 t)) X = tnorm t (curst (v_thr c1 t)) Y ++ Z ->
      pendlab st c t ++ tnorm t (curst (v_thr c t)) (ls1 ++ X) = tnorm t (curst (v_thr c t)) (lab ++ Y) ++ Z.

  (* a move of thread t alone, mirrored by one step of the atomic machine with labels ls1 *)
  Lemma xfer_client st c t x ls1 lab :
    (match v_thr c t with VWait _ _ _ => False | _ => True end) -> (match x with VWait _ _ _ => False | _ => True end) ->
    labels_of t ls1 -> labels_of t lab ->
    (forall X Y Z, tnorm t (curst x) X = tnorm t (curst x) Y ++ Z -> tnorm t (curst (v_thr c t)) (ls1 ++ X) = tnorm t (curst (v_thr c t)) (lab ++ Y) ++ Z) ->
    xfer st c st (vset c t x) ls1 lab.
  Proof.
    intros Hv Hx Hl1 Hl2 Ht u X Y Z H. cbn [vset v_thr] in H. unfold upd in H. unfold pendlab in *. cbn [vset v_thr] in H. unfold upd in H.
    destruct (Nat.eq_dec u t) as [->|Hne].
    - destruct (v_thr c t); try contradiction; destruct x; try contradiction; cbn [app] in *; apply Ht; exact H.
    - rewrite (tnorm_other u t _ ls1 X Hl1 (not_eq_sym Hne)), (tnorm_other u t _ lab Y Hl2 (not_eq_sym Hne)). exact H.
  Qed.

  Lemma step_sim_lab c a c1 os (i : list (iev cmop imres)) st s h :
    vstep c a = Some (c1, os) ->
    wf_inst cmop imres st i -> legal cmop imres _ cmspec (c_map s) i ->
    erase cmop imres i = mproj os ++ h -> REL st c s -> CK c -> NoDup (keys (c_map s)) ->
    exists st' i' s1 ls1,
      creach s ls1 s1 /\ history ls1 = cproj os /\ REL st' c1 s1
      /\ wf_inst cmop imres st' i' /\ legal cmop imres _ cmspec (c_map s1) i' /\ erase cmop imres i' = h
      /\ NoDup (keys (c_map s1)) /\ xfer st c st' c1 ls1 (vlabel c a).
  Proof.
    intros Ev Hw Hl He HR HC Hnd.
    destruct a as [t|t|t|t r|t l|t]; cbn [CX_compose.vstep] in Ev.
    - (* invoke a cache method *)
      destruct (v_thr c t) eqn:Et; try discriminate Ev.
      destruct (v_todo c t) as [|o rest] eqn:Etd; try discriminate Ev.
      inversion Ev; subst c1 os; clear Ev. cbn [mproj cproj app] in He |- *.
      pose proof (r_thr st c s HR t) as Ht. rewrite Et in Ht. cbn [CX_compose.TR] in Ht.
      destruct (st t) eqn:Est; try contradiction.
      set (s1 := {| c_map := c_map s; c_thr := upd (c_thr s) t (Running o (progs o)); c_todo := upd (c_todo s) t rest |}).
      assert (Hstep : cstep s t [] = Some (s1, [LInv t o])).
      { unfold Conc.cstep. rewrite Ht. rewrite (r_todo st c s HR t), Etd. reflexivity. }
      exists st, i, s1, [LInv t o]. split; [eapply creach_step; exact Hstep|]. split; [reflexivity|].
      split; [|split; [exact Hw | split; [exact Hl | split; [exact He | split; [exact Hnd|]]]]].
      + constructor; cbn.
        * intros t'. unfold upd. destruct (Nat.eq_dec t' t); [reflexivity | apply (r_todo st c s HR)].
        * intros t'. unfold upd. destruct (Nat.eq_dec t' t) as [->|]; [rewrite Est; reflexivity | apply (r_thr st c s HR)].
      + cbn [vlabel]. rewrite Et, Etd.
        intros u X Y Z H. unfold pendlab in *. cbn [v_thr] in H. unfold upd in H.
        destruct (Nat.eq_dec u t) as [->|Hne].
        * rewrite Et. cbn [app curst tnorm] in *. destruct (Nat.eq_dec t t); [|congruence]. cbn [app]; f_equal; exact H.
        * cbn [app tnorm]. destruct (Nat.eq_dec t u); [congruence|]. exact H.
    - (* return *)
      destruct (v_thr c t) as [|o p|] eqn:Et; try discriminate Ev.
      destruct p; try discriminate Ev.
      inversion Ev; subst c1 os; clear Ev. cbn [mproj cproj app] in He |- *.
      pose proof (r_thr st c s HR t) as Ht. rewrite Et in Ht. cbn [CX_compose.TR] in Ht.
      destruct (st t) eqn:Est; try contradiction.
      assert (Hstep : cstep s t [] = Some (set_thr s t Idle, [LRes t r])).
      { unfold Conc.cstep. rewrite Ht. reflexivity. }
      exists st, i, (set_thr s t Idle), [LRes t r]. split; [eapply creach_step; exact Hstep|]. split; [reflexivity|].
      split; [|split; [exact Hw | split; [exact Hl | split; [exact He | split; [exact Hnd|]]]]].
      + constructor; cbn.
        * apply (r_todo st c s HR).
        * intros t'. unfold upd. destruct (Nat.eq_dec t' t) as [->|]; [rewrite Est; reflexivity | apply (r_thr st c s HR)].
      + cbn [vlabel]. rewrite Et. apply xfer_client; [rewrite Et; exact I | exact I | repeat constructor | repeat constructor |].
        intros X Y Z H. rewrite Et. cbn [app curst tnorm] in *. destruct (Nat.eq_dec t t); [|congruence]. cbn [app]; f_equal; exact H.
    - (* map-level invocation *)
      destruct (v_thr c t) as [|o p|] eqn:Et; try discriminate Ev.
      destruct p as [|mo k| | | | | |]; try discriminate Ev.
      assert (Hns : mo <> CSnapshot) by (intros ->; discriminate Ev).
      assert (Ev' : c1 = vset c t (VWait o mo k) /\ os = [OM (HInv t mo)]).
      { destruct mo; try discriminate Ev; inversion Ev; auto. }
      destruct Ev' as [-> ->]. clear Ev. cbn [mproj cproj app] in He |- *.
      destruct (lin_prefix_lab i st c s _ _ Hw Hl He HR HC Hnd) as [st' [s' [ie [i' [ls0 [A [B [C [D [E [F [G [Hnd' P0]]]]]]]]]]]]].
      destruct ie as [t' o'|t' o' r'|t' r']; cbn in F; try discriminate F. inversion F; subst t' o'. clear F.
      apply wf_inv_i in D. destruct D as [Hst D]. apply legal_inv_i in E.
      pose proof (r_thr st' c s' C t) as Ht. rewrite Et, Hst in Ht. cbn [CX_compose.TR] in Ht.
      exists (upd st' t (TInvoked mo)), i', s', ls0. split; [exact A|]. split; [exact B|].
      split; [|split; [exact D | split; [exact E | split; [exact G | split; [exact Hnd'|]]]]].
      + constructor; cbn.
        * apply (r_todo st' c s' C).
        * intros t'. unfold upd. destruct (Nat.eq_dec t' t) as [->|]; [cbn; auto | apply (r_thr st' c s' C)].
      + cbn [vlabel app]. intros u X Y Z H. rewrite tnorm_plain by (apply plain_history; exact B). rewrite app_assoc, (P0 u).
        unfold pendlab in *. cbn [vset v_thr] in H. unfold upd in H.
        destruct (Nat.eq_dec u t) as [->|Hne].
        * rewrite Et. cbn [app curst] in *. exact H.
        * exact H.
    - (* map-level response *)
      destruct (v_thr c t) as [| |o mo k] eqn:Et; try discriminate Ev.
      inversion Ev; subst c1 os; clear Ev. cbn [mproj cproj app] in He |- *.
      destruct (lin_prefix_lab i st c s _ _ Hw Hl He HR HC Hnd) as [st' [s' [ie [i' [ls0 [A [B [C [D [E [F [G [Hnd' P0]]]]]]]]]]]]].
      destruct ie as [t' o'|t' o' r'|t' r']; cbn in F; try discriminate F. inversion F; subst t' r'. clear F.
      apply wf_res_i in D. destruct D as [o1 [Hst D]]. apply legal_res_i in E.
      pose proof (r_thr st' c s' C t) as Ht. rewrite Et, Hst in Ht. cbn [CX_compose.TR] in Ht. destruct Ht as [Eo1 Ht].
      exists (upd st' t TIdle), i', s', ls0. split; [exact A|]. split; [exact B|].
      split; [|split; [exact D | split; [exact E | split; [exact G | split; [exact Hnd'|]]]]].
      + constructor; cbn.
        * apply (r_todo st' c s' C).
        * intros t'. unfold upd. destruct (Nat.eq_dec t' t) as [->|]; [cbn; exact Ht | apply (r_thr st' c s' C)].
      + cbn [vlabel]. rewrite Et. intros u X Y Z H. rewrite tnorm_plain by (apply plain_history; exact B). rewrite app_assoc, (P0 u).
        unfold pendlab in *. cbn [vset v_thr] in H. unfold upd in H.
        destruct (Nat.eq_dec u t) as [->|Hne].
        * rewrite Et, Hst. cbn [app curst] in *. rewrite (tnorm_plain t (remcb o) (resp_labels t mo r) Y (plain_resp t mo r)).
          rewrite <- app_assoc. cbn [app]; f_equal; exact H.
        * rewrite (tnorm_other u t _ (resp_labels t mo r) Y (labels_resp t mo r) (not_eq_sym Hne)). exact H.
    - (* snapshot: one step, any answer *)
      destruct (v_thr c t) as [|o p|] eqn:Et; try discriminate Ev.
      destruct p as [|mo k| | | | | |]; try discriminate Ev.
      destruct mo; try discriminate Ev.
      inversion Ev; subst c1 os; clear Ev. cbn [mproj cproj app] in He |- *.
      pose proof (r_thr st c s HR t) as Ht. rewrite Et in Ht. cbn [CX_compose.TR] in Ht. destruct (st t) eqn:Est; try contradiction.
      assert (Hstep : cstep s t l = Some (set_thr s t (Running o (k (RSnap l))), [LTau t])) by (unfold Conc.cstep; rewrite Ht; reflexivity).
      exists st, i, (set_thr s t (Running o (k (RSnap l)))), [LTau t]. split; [eapply creach_step; exact Hstep|]. split; [reflexivity|].
      split; [|split; [exact Hw | split; [exact Hl | split; [exact He | split; [exact Hnd|]]]]].
      + constructor; cbn; [apply (r_todo st c s HR)|].
        intros t'. unfold upd. destruct (Nat.eq_dec t' t) as [->|]; [rewrite Est; reflexivity | apply (r_thr st c s HR)].
      + cbn [vlabel]. apply xfer_client; [rewrite Et; exact I | exact I | repeat constructor | constructor |].
        intros X Y Z H. rewrite Et. cbn [app curst tnorm] in *. exact H.
    - (* reads of the clock and of the settings, emitted events *)
      destruct (v_thr c t) as [|o p|] eqn:Et; try discriminate Ev.
      pose proof (r_thr st c s HR t) as Ht. rewrite Et in Ht. cbn [CX_compose.TR] in Ht. destruct (st t) eqn:Est; try contradiction.
      assert (Hgen : forall p' lab1, cstep s t [] = Some (set_thr s t (Running o p'), lab1) -> history lab1 = [] -> labels_of t lab1 -> labels_of t (vlabel c (ATau t)) ->
                (forall X Y Z, tnorm t (remcb o) X = tnorm t (remcb o) Y ++ Z -> tnorm t (remcb o) (lab1 ++ X) = tnorm t (remcb o) (vlabel c (ATau t) ++ Y) ++ Z) ->
                c1 = vset c t (VRun o p') -> os = [] ->
                exists st' i' s1 ls1,
                  creach s ls1 s1 /\ history ls1 = cproj os /\ REL st' c1 s1
                  /\ wf_inst cmop imres st' i' /\ legal cmop imres _ cmspec (c_map s1) i' /\ erase cmop imres i' = h
                  /\ NoDup (keys (c_map s1)) /\ xfer st c st' c1 ls1 (vlabel c (ATau t))).
      { intros p' lab1 Hstep Hh Hl1 Hl2 Hx -> ->. cbn [mproj cproj app] in He |- *.
        exists st, i, (set_thr s t (Running o p')), lab1. split; [eapply creach_step; exact Hstep|]. split; [exact Hh|].
        split; [|split; [exact Hw | split; [exact Hl | split; [exact He | split; [exact Hnd|]]]]].
        - constructor; cbn; [apply (r_todo st c s HR)|].
          intros t'. unfold upd. destruct (Nat.eq_dec t' t) as [->|]; [rewrite Est; reflexivity | apply (r_thr st c s HR)].
        - apply xfer_client; [rewrite Et; exact I | exact I | exact Hl1 | exact Hl2 |]. rewrite Et. cbn [curst]. exact Hx. }
      destruct p as [|mo k|k|k|d k|k|cb k|e k]; try discriminate Ev; inversion Ev; subst c1 os; clear Ev.
      + apply (Hgen (k NOW) [LTau t]); try reflexivity; [unfold Conc.cstep; rewrite Ht; reflexivity | repeat constructor | cbn [vlabel]; rewrite Et; constructor |].
        intros X Y Z H. cbn [vlabel]. rewrite Et. cbn [app tnorm]. exact H.
      + apply (Hgen (k DFLT) [LTau t]); try reflexivity; [unfold Conc.cstep; rewrite Ht; reflexivity | repeat constructor | cbn [vlabel]; rewrite Et; constructor |].
        intros X Y Z H. cbn [vlabel]. rewrite Et. cbn [app tnorm]. exact H.
      + apply (Hgen (k CB) [LTau t]); try reflexivity; [unfold Conc.cstep; rewrite Ht; reflexivity | repeat constructor | cbn [vlabel]; rewrite Et; constructor |].
        intros X Y Z H. cbn [vlabel]. rewrite Et. cbn [app tnorm]. exact H.
      + apply (Hgen k [LEv t e]); try reflexivity; [unfold Conc.cstep; rewrite Ht; reflexivity | repeat constructor | cbn [vlabel]; rewrite Et; repeat constructor |].
        intros X Y Z H. cbn [vlabel]. rewrite Et. cbn [app tnorm]. destruct (Nat.eq_dec t t); [|congruence]. cbn [app]; f_equal; exact H.
  Qed.

  Theorem compose_lab_main c outs labs : ltrace c outs labs ->
    forall (i : list (iev cmop imres)) st s,
    wf_inst cmop imres st i -> legal cmop imres _ cmspec (c_map s) i ->
    erase cmop imres i = mproj outs -> REL st c s -> CK c -> NoDup (keys (c_map s)) ->
    exists ls s', creach s ls s' /\ history ls = cproj outs
                  /\ forall t, exists Z, pendlab st c t ++ tnorm t (curst (v_thr c t)) ls = tnorm t (curst (v_thr c t)) labs ++ Z.
  Proof.
    induction 1 as [c | c a c1 os c1' outs labs Ev Hq Hv IH]; intros i st s Hw Hl He HR HC Hnd.
    - exists [], s. split; [apply creach_refl|]. split; [reflexivity|]. intros t. exists (pendlab st c t). cbn [tnorm]. rewrite app_nil_r. reflexivity.
    - rewrite mproj_app in He.
      destruct (step_sim_lab c a c1 os i st s _ Ev Hw Hl He HR HC Hnd) as [st' [i' [s1 [ls1 [A [B [C [D [E [F [Hnd1 Hx]]]]]]]]]]].
      pose proof (CK_step c a c1 os HC Ev) as HC1.
      destruct (IH i' st' s1 D E F (REL_veq st' c1 c1' s1 Hq C) (CK_veq c1 c1' Hq HC1) Hnd1) as [ls [s' [A' [B' P]]]].
      exists (ls1 ++ ls), s'. split; [eapply creach_trans; eassumption|]. split.
      + rewrite CX_compose.history_app, cproj_app, B, B'. reflexivity.
      + intros t. destruct (P t) as [Z HZ]. exists Z. apply Hx.
        destruct Hq as [Hq1 _]. unfold pendlab in *. rewrite (Hq1 t). exact HZ.
  Qed.

  Lemma mon_run_app_intro t (m : option (@mon K V)) a mx b m' : mon_run t m a mx -> mon_run t mx b m' -> mon_run t m (a ++ b) m'.
  Proof. intros H. induction H; intros H2; [exact H2 | cbn [app]; econstructor; [eassumption | apply IHmon_run; exact H2]]. Qed.

  (* a thread's monitor that accepts a list of labels accepts what looks to it like a prefix *)
  Lemma mon_accepts_prefix t ls ls' Z : tnorm t true ls = tnorm t true ls' ++ Z -> mon_accepts t mon_idle ls -> mon_accepts t mon_idle ls'.
  Proof.
    intros E H m' Hr Hn. subst m'. apply (mon_tnorm t ls' mon_idle None) in Hr. change (curm mon_idle) with true in Hr.
    apply (H None); [|reflexivity]. apply (mon_tnorm t ls mon_idle None). change (curm mon_idle) with true. rewrite E.
    eapply mon_run_app_intro; [exact Hr | apply mon_none; reflexivity].
  Qed.

  (* the composition theorem, with every thread's events: a labelled combined trace whose map-level projection
     is linearizable is matched by a run of the atomic machine with the same cache-level history in which every
     thread's monitor sees the same events (plus, possibly, those of a last map call whose answer the trace does
     not contain any more) *)
  Theorem compose_lab (todo : nat -> list cop) (outs : list out) (labs : list label) :
    ltrace (vinit todo) outs labs ->
    linearizable cmop imres _ cmspec [] (mproj outs) ->
    exists sched, history (snd (crun (cinit [] todo) sched)) = cproj outs
                  /\ forall t, exists Z, tnorm t true (snd (crun (cinit [] todo) sched)) = tnorm t true labs ++ Z.
  Proof.
    intros Hv [i [E [W L]]].
    destruct (compose_lab_main _ _ _ Hv i (fun _ => TIdle) (cinit [] todo) W L E) as [ls [s' [[sched A] [B P]]]].
    - constructor; cbn; [reflexivity | intros t; reflexivity].
    - intros t. exact I.
    - constructor.
    - exists sched. rewrite A. split; [exact B | exact P].
  Qed.

  Theorem monitored_compose (todo : nat -> list cop) (outs : list out) (labs : list label) t :
    ltrace (vinit todo) outs labs ->
    linearizable cmop imres _ cmspec [] (mproj outs) ->
    (forall sched, mon_accepts t mon_idle (snd (crun (cinit [] todo) sched))) ->
    mon_accepts t mon_idle labs.
  Proof.
    intros Hv Hm Hall. destruct (compose_lab todo outs labs Hv Hm) as [sched [_ P]]. destruct (P t) as [Z HZ].
    apply (mon_accepts_prefix t _ labs Z HZ). apply Hall.
  Qed.

End MonLabels.

(* ---------------- the product machine: its cache-level events ---------------- *)

Section ProductMon.
  Context {K V : Type}.
  Variable eqd : forall a b : K, {a = b} + {a <> b}.
  Variable zero : V.
  Variable progs : cop K V -> prog K V (cres K V).
  Variables NOW DFLT : Z.
  Variable CB : cbid.

  Notation item := (item V).
  Notation cop := (cop K V).
  Notation cres := (cres K V).
  Notation cmop := (cmop K V).
  Notation imres := (imres K V).
  Notation env0 := (Conc.env0 NOW DFLT).
  Notation cmspec := (@cmspec K V eqd env0).
  Notation label := (@label K V).
  Notation out := (@out K V).
  Notation vstep := (vstep progs NOW DFLT CB).
  Notation ltrace := (ltrace progs NOW DFLT CB).

  Variables XS XO XR XSt : Type.
  Variable step : XS -> nat -> option (XS * list (hev XO XR)).
  Variable todo : XS -> nat -> list XO.
  Variable wtodo : XS -> (nat -> list XO) -> XS.
  Variable idle : XS -> nat -> Prop.
  Variable xinit : (nat -> list XO) -> XS.
  Variable xspec : XSt -> XO -> XR -> XSt -> Prop.
  Variable x0 : XSt.
  Variable xok : XO -> Prop.
  Variable tr : cmop -> XO.
  Variable bk : cmop -> XR -> imres.
  Variable sup : cmop -> bool.

  Notation pconf := (pconf XS).
  Notation pstep := (pstep progs NOW DFLT CB XS XO XR step todo wtodo tr bk sup).
  Notation prun := (prun progs NOW DFLT CB XS XO XR step todo wtodo tr bk sup).
  Notation xmove := (xmove XS XO XR step bk).
  Notation PI := (PI XS XO todo idle tr sup).
  Notation vof := (vof XS).
  Notation pinit := (pinit XS XO xinit).
  Notation mok := (mok sup).

  Hypothesis H_todo_w : forall s td t, todo (wtodo s td) t = td t.
  Hypothesis H_idle_w : forall s td t, idle (wtodo s td) t <-> idle s t.
  Hypothesis H_ww : forall s a b, wtodo (wtodo s a) b = wtodo s b.
  Hypothesis H_init_todo : forall td t, todo (xinit td) t = td t.
  Hypothesis H_init_idle : forall td t, idle (xinit td) t.
  Hypothesis H_init_w : forall a b, wtodo (xinit a) b = xinit b.
  Hypothesis H_frame : forall s t s' h td fut,
    step s t = Some (s', h) -> (forall u, td u = todo s u ++ fut u) ->
    exists td', step (wtodo s td) t = Some (wtodo s' td', h) /\ forall u, td' u = todo s' u ++ fut u.
  Hypothesis H_proto : forall s t s' h, step s t = Some (s', h) ->
    (forall u, u <> t -> todo s' u = todo s u /\ (idle s u -> idle s' u))
    /\ ( (idle s t /\ h = [] /\ idle s' t /\ todo s' t = todo s t)
         \/ (idle s t /\ exists o rest, todo s t = o :: rest /\ todo s' t = rest
                        /\ (h = [HInv t o] \/ exists r, h = [HInv t o; HRes t r] /\ idle s' t))
         \/ (~ idle s t /\ todo s' t = todo s t /\ (h = [] \/ exists r, h = [HRes t r] /\ idle s' t)) ).
  Hypothesis H_ok : forall o, mok o -> xok (tr o).
  Hypothesis H_lin : forall td sched, (forall t, Forall xok (td t)) ->
    linearizable XO XR XSt xspec x0 (snd (mrun XS XO XR step (xinit td) sched)).
  Hypothesis H_transfer : forall hx hm, hrel tr bk mok (fun _ => None) hx hm ->
    linearizable XO XR XSt xspec x0 hx -> linearizable cmop imres _ cmspec [] hm.

  (* the events reported when the map machine's thread t, working on the call mo, emits the history events h *)
  Definition hlab (t : nat) (mo : cmop) (h : list (hev XO XR)) : list label :=
    flat_map (fun e => match e with HRes _ r => resp_labels t mo (bk mo r) | HInv _ _ => [] end) h.

  (* the cache-level events of the move of thread t from configuration p *)
  Definition plab (p : pconf) (t : nat) : list label :=
    match p_thr XS p t with
    | QIdle => match p_todo XS p t with o :: _ => [LInv t o] | [] => [] end
    | QRun _ (Ret r) => [LRes t r]
    | QRun _ (Emit e _) => [LEv t e]
    | QRun _ _ => []
    | QPushed _ mo _ | QWait _ mo _ => match step (p_x XS p) t with Some (_, h) => hlab t mo h | None => [] end
    end.

  Fixpoint plabels (p : pconf) (sched : list (nat * list (K * item))) : list label :=
    match sched with
    | [] => []
    | (t, orc) :: rest =>
        match pstep p t orc with
        | Some (p', _, _) => plab p t ++ plabels p' rest
        | None => plabels p rest
        end
    end.

  Lemma upd_tt {X} (f : nat -> X) t x : upd f t x t = x.
  Proof. unfold upd. destruct (Nat.eq_dec t t); congruence. Qed.

  (* one move of the product machine is zero, one or two moves of the labelled combined trace *)
  Lemma pstep_lab p t orc p1 os h : PI p -> pstep p t orc = Some (p1, os, h) ->
    forall outs' labs', ltrace (vof p1) outs' labs' -> ltrace (vof p) (os ++ outs') (plab p t ++ labs').
  Proof.
    intros HP E outs' labs' Hv. unfold CX_product.pstep in E. pose proof (HP t) as Hpt. unfold plab.
    assert (Hsil : forall x1 q1, p1 = {| p_x := x1; p_thr := upd (p_thr XS p) t q1; p_todo := p_todo XS p |} ->
              vq q1 = vq (p_thr XS p t) -> ltrace (vof p) ([] ++ outs') ([] ++ labs')).
    { intros x1 q1 -> Eq. cbn [app]. eapply ltrace_veq; [|exact Hv].
      split; cbn; [|reflexivity]. intros u. unfold upd. destruct (Nat.eq_dec u t) as [->|]; [exact Eq | reflexivity]. }
    destruct (p_thr XS p t) as [|o pr|o mo k|o mo k] eqn:Et.
    - (* invoke a cache method *)
      destruct (p_todo XS p t) as [|o rest] eqn:Etd; [discriminate E|]. inversion E; subst p1 os h; clear E.
      replace [LInv t o] with (vlabel (vof p) (AInv t)) by (cbn; rewrite Et, Etd; reflexivity).
      eapply (lt_step progs NOW DFLT CB (vof p) (AInv t)); [cbn; rewrite Et, Etd; reflexivity | | exact Hv].
      split; cbn; intros u; unfold upd; destruct (Nat.eq_dec u t); reflexivity.
    - assert (Hcl : forall q a lab, (match q with QIdle | QRun _ _ => True | _ => False end) ->
                vstep (vof p) a = Some (vset (vof p) t (vq q), os) -> vlabel (vof p) a = lab -> p1 = pset XS p t q ->
                ltrace (vof p) (os ++ outs') (lab ++ labs')).
      { intros q a lab Hq Hs <- ->. eapply lt_step; [exact Hs | | exact Hv]. apply (vof_upd XS p (p_x XS p) t q). }
      destruct pr as [r|mo k|k|k|d k|k|cb k|e k]; try discriminate E.
      + inversion E; subst os h. apply (Hcl QIdle (ARet t)); [exact I | cbn; rewrite Et; reflexivity | cbn; rewrite Et; reflexivity | congruence].
      + destruct mo.
        1-7: destruct (sup _) eqn:Hsup; [|discriminate E]; inversion E; subst os h;
             eapply (Hsil _ (QPushed o _ k)); [symmetry; eassumption | reflexivity].
        inversion E; subst os h.
        apply (Hcl (QRun o (k (RSnap orc))) (ASnap t orc)); [exact I | cbn; rewrite Et; reflexivity | reflexivity | congruence].
      + inversion E; subst os h. apply (Hcl (QRun o (k NOW)) (ATau t)); [exact I | cbn; rewrite Et; reflexivity | cbn; rewrite Et; reflexivity | congruence].
      + inversion E; subst os h. apply (Hcl (QRun o (k DFLT)) (ATau t)); [exact I | cbn; rewrite Et; reflexivity | cbn; rewrite Et; reflexivity | congruence].
      + inversion E; subst os h. apply (Hcl (QRun o (k CB)) (ATau t)); [exact I | cbn; rewrite Et; reflexivity | cbn; rewrite Et; reflexivity | congruence].
      + inversion E; subst os h. apply (Hcl (QRun o k) (ATau t)); [exact I | cbn; rewrite Et; reflexivity | cbn; rewrite Et; reflexivity | congruence].
    - (* the call is in the todo list of the map machine *)
      unfold CX_product.xmove in E. destruct (step (p_x XS p) t) as [[x1 h1]|] eqn:Es; [|discriminate E].
      destruct (H_proto _ _ _ _ Es) as [Ho Hc]. rewrite Et in E. destruct Hpt as [Htd [Hid [Hmok Hns]]].
      destruct Hc as [[_ [Eh [Hid1 Htd1]]]|[[_ [xo [rest [Etd [Etd1 Eh]]]]]|[Hni _]]]; [| |contradiction].
      + subst h1. cbn in E. inversion E; subst os h. cbn [hlab flat_map]. eapply (Hsil x1 (QPushed o mo k)); [congruence | reflexivity].
      + destruct Eh as [Eh|[r [Eh Hid1]]]; subst h1; cbn in E; inversion E; subst p1 os h; clear E; cbn [hlab flat_map app].
        * replace labs' with (vlabel (vof p) (AMInv t) ++ labs') by reflexivity.
          eapply (lt_step progs NOW DFLT CB (vof p) (AMInv t) _ [OM (HInv t mo)]);
            [apply (vstep_minv progs NOW DFLT CB (vof p) t o mo k); [cbn; rewrite Et; reflexivity | exact Hns] | | exact Hv].
          apply (vof_upd XS p x1 t (QWait o mo k)).
        * rewrite app_nil_r.
          replace (resp_labels t mo (bk mo r) ++ labs') with (vlabel (vof p) (AMInv t) ++ vlabel (vset (vof p) t (VWait o mo k)) (AMRes t (bk mo r)) ++ labs')
            by (cbn [vlabel vset v_thr app]; rewrite upd_tt; reflexivity).
          eapply (lt_step progs NOW DFLT CB (vof p) (AMInv t) _ [OM (HInv t mo)]);
            [apply (vstep_minv progs NOW DFLT CB (vof p) t o mo k); [cbn; rewrite Et; reflexivity | exact Hns] | apply veq_refl |].
          eapply (lt_step progs NOW DFLT CB _ (AMRes t (bk mo r)) _ [OM (HRes t (bk mo r))]);
            [apply (vstep_mres progs NOW DFLT CB _ t o mo k); cbn; apply upd_tt | | exact Hv].
          split; cbn; [|reflexivity]. intros u. unfold upd. destruct (Nat.eq_dec u t); reflexivity.
    - (* the call has been invoked *)
      unfold CX_product.xmove in E. destruct (step (p_x XS p) t) as [[x1 h1]|] eqn:Es; [|discriminate E].
      destruct (H_proto _ _ _ _ Es) as [Ho Hc]. rewrite Et in E. destruct Hpt as [Htd Hmok].
      assert (Hs0 : h1 = [] -> ltrace (vof p) (os ++ outs') (hlab t mo h1 ++ labs')).
      { intros ->. cbn in E. inversion E; subst os h. cbn [hlab flat_map]. eapply (Hsil x1 (QWait o mo k)); [congruence | reflexivity]. }
      destruct Hc as [[_ [Eh _]]|[[_ [xo [rest [Etd _]]]]|[Hni [Htd1 [Eh|[r [Eh Hid1]]]]]]].
      + apply Hs0. exact Eh.
      + rewrite Htd in Etd. discriminate Etd.
      + apply Hs0. exact Eh.
      + subst h1. cbn in E. inversion E; subst p1 os h; clear E. cbn [hlab flat_map]. rewrite app_nil_r.
        replace (resp_labels t mo (bk mo r)) with (vlabel (vof p) (AMRes t (bk mo r))) by (cbn; rewrite Et; reflexivity).
        eapply (lt_step progs NOW DFLT CB (vof p) (AMRes t (bk mo r)) _ [OM (HRes t (bk mo r))]);
          [apply (vstep_mres progs NOW DFLT CB (vof p) t o mo k); cbn; rewrite Et; reflexivity | | exact Hv].
        apply (vof_upd XS p x1 t (QRun o (k (bk mo r)))).
  Qed.

  Lemma plabels_cons p t orc rest :
    plabels p ((t, orc) :: rest) = match pstep p t orc with Some (p', _, _) => plab p t ++ plabels p' rest | None => plabels p rest end.
  Proof. reflexivity. Qed.

  (* a run of the product machine is a labelled combined trace *)
  Lemma prun_lab sched : forall p, PI p -> ltrace (vof p) (snd (fst (prun p sched))) (plabels p sched).
  Proof.
    induction sched as [|[t orc] rest IH]; intros p HP.
    - cbn. constructor.
    - rewrite (prun_cons progs NOW DFLT CB XS XO XR step todo wtodo tr bk sup), plabels_cons.
      destruct (pstep p t orc) as [[[p1 os] h]|] eqn:E; [|apply IH; exact HP].
      cbn [fst snd]. destruct (pstep_ok progs NOW DFLT CB XS XO XR step todo wtodo idle tr bk sup H_todo_w H_idle_w H_proto p t orc p1 os h HP E) as [HP1 _].
      apply (pstep_lab p t orc p1 os h HP E). apply IH. exact HP1.
  Qed.

  (* ---------------- the monitors accept every run of the product machine ---------------- *)

  Hypothesis Hinit : forall o : cop, conc_ok o -> good eqd zero NOW DFLT CB o None [] 0 (progs o).
  Hypothesis Hcalls : forall o : cop, remcb CB o = true -> calls_ok (progs o).

  Theorem product_monitored (todo0 : nat -> list cop) sched t :
    (forall u, Forall conc_ok (todo0 u)) ->
    mon_accepts CB t mon_idle (plabels (pinit todo0) sched).
  Proof.
    intros Htodo.
    apply (monitored_compose eqd progs NOW DFLT CB Hcalls todo0 (snd (fst (prun (pinit todo0) sched))) (plabels (pinit todo0) sched) t).
    - exact (prun_lab sched (pinit todo0) (PI_init XS XO todo idle xinit tr sup H_init_todo H_init_idle todo0)).
    - apply (product_map_linearizable eqd progs NOW DFLT CB XS XO XR XSt step todo wtodo idle xinit xspec x0 xok tr bk sup
               H_todo_w H_idle_w H_ww H_init_todo H_init_idle H_init_w H_frame H_proto H_ok H_lin H_transfer).
    - intros sched'. apply (gen_monitored eqd zero NOW DFLT CB progs Hinit [] [] todo0 sched' t); [|exact Htodo].
      apply C01_hist.R_init. reflexivity.
  Qed.

End ProductMon.
