(* X_inv.v -- protocol invariants of XMachine over every reachable state:
   table well-formedness, validity of the indices in program counters, the
   bucket-lock discipline (who holds which lock, mutual exclusion), resizeMu,
   the resizing flag, the condition variable. *)
From CacheV Require Import Base SpecMap XMachine.
From CacheV.proofs Require Import X_basic.
From Coq Require Import NArith.
Local Open Scope nat_scope.

Section Inv.
  Context {K V : Type}.
  Variable eqd : forall a b : K, {a = b} + {a <> b}.
  Variable hash : K -> N -> N.
  Variable idx : N -> nat -> nat.
  Variable tag : N -> N.
  Variable nslots : nat.
  Variable seeds : nat -> N.
  Variable grow_needed : nat -> Z -> bool.
  Variable shrink_policy : nat -> Z -> bool.
  Variable probe : list (option N) -> N -> list nat.
  Variable nstripes : nat -> nat.
  Variable minlen : nat.
  Variable grow_only : bool.

  Hypothesis Hidx : forall h len, 0 < len -> idx h len < len.
  Hypothesis Hstripes : forall len, 0 < nstripes len.
  Hypothesis Hminlen : 0 < minlen.

  Notation xtable := (@xtable K V).
  Notation xstate := (@xstate K V).
  Notation pc := (@pc K V).
  Notation tab_at := (@tab_at K V nslots nstripes).
  Notation home := (@home K V hash idx).
  Notation step_pc := (@step_pc K V eqd hash idx tag nslots seeds grow_needed shrink_policy probe nstripes minlen grow_only).
  Notation xstep := (@xstep K V eqd hash idx tag nslots seeds grow_needed shrink_policy probe nstripes minlen grow_only).
  Notation new_xtable := (@new_xtable K V nslots nstripes).

  (* ---------------- goto ---------------- *)

  Definition norm (p : pc) : pc := match p with PRet _ => PIdle | _ => p end.

  Lemma goto_state (s : xstate) t p ls : fst (goto s t p ls) = set_pc s t (norm p).
  Proof. destruct p; reflexivity. Qed.

  (* ---------------- tables are well formed; their shape never changes ---------------- *)

  Definition twf (tb : xtable) : Prop :=
    0 < x_len tb /\ length (x_locks tb) = x_len tb /\ 0 < length (x_size tb).

  Definition tabs_wf (s : xstate) : Prop :=
    forall j, j < length (g_tabs s) -> twf (tab_at s j).

  Lemma twf_new len seed : 0 < len -> twf (new_xtable len seed).
  Proof.
    intros H. unfold twf, new_xtable, x_len. cbn. rewrite !repeat_length. auto.
  Qed.

  (* what a step may do to the tables: allocate, and change cells *)
  Definition shape_eq (a b : xtable) : Prop :=
    x_len b = x_len a /\ x_seed b = x_seed a /\ length (x_locks b) = length (x_locks a)
    /\ length (x_size b) = length (x_size a).

  Definition frame (s s' : xstate) : Prop :=
    length (g_tabs s) <= length (g_tabs s')
    /\ forall j, j < length (g_tabs s) -> shape_eq (tab_at s j) (tab_at s' j).

  Lemma shape_refl a : shape_eq a a.
  Proof. unfold shape_eq. auto. Qed.

  Lemma frame_refl s : frame s s.
  Proof. split; [lia | intros; apply shape_refl]. Qed.

  Lemma frame_trans a b c : frame a b -> frame b c -> frame a c.
  Proof.
    intros [H1 H2] [H3 H4]. split; [lia|]. intros j Hj.
    destruct (H2 j Hj) as [A1 [A2 [A3 A4]]]. destruct (H4 j ltac:(lia)) as [B1 [B2 [B3 B4]]].
    unfold shape_eq. repeat split; congruence.
  Qed.

  Lemma frame_set_pc s t p : frame s (set_pc s t p).
  Proof. split; [cbn; lia | intros; apply shape_refl]. Qed.
  Lemma frame_set_flags s c r m : frame s (set_flags s c r m).
  Proof. split; [cbn; lia | intros; apply shape_refl]. Qed.

  Lemma frame_set_tab s i f : (forall tb, shape_eq tb (f tb)) -> frame s (set_tab s i f).
  Proof.
    intros Hf. split.
    - unfold set_tab. cbn. rewrite upd_nth_length. lia.
    - intros j Hj. destruct (Nat.lt_ge_cases i (length (g_tabs s))) as [Hi|Hi].
      + rewrite (tab_at_set_tab nslots nstripes s i f j Hi). destruct (Nat.eq_dec j i); [subst; apply Hf | apply shape_refl].
      + unfold XMachine.tab_at, set_tab. cbn [g_tabs]. rewrite nth_upd_nth_other by lia. apply shape_refl.
  Qed.

  Lemma frame_push s tb : frame s (push_tab s tb).
  Proof.
    split.
    - unfold push_tab. cbn. rewrite app_length. lia.
    - intros j Hj. rewrite (tab_at_push_old nslots nstripes s tb j Hj). apply shape_refl.
  Qed.

  Lemma shape_set_lock (tb : xtable) b o : shape_eq tb (set_lock tb b o).
  Proof. unfold shape_eq, set_lock, x_len. cbn. rewrite upd_nth_length. auto. Qed.
  Lemma shape_set_chain (tb : xtable) b f : shape_eq tb (set_chain tb b f).
  Proof. unfold shape_eq, set_chain, x_len. cbn. rewrite upd_nth_length. auto. Qed.
  Lemma shape_add_size (tb : xtable) b d : shape_eq tb (add_size tb b d).
  Proof. unfold shape_eq, add_size, x_len. cbn. rewrite upd_nth_length. auto. Qed.

  Lemma tabs_wf_frame s s' : tabs_wf s -> frame s s' ->
    (forall j, length (g_tabs s) <= j < length (g_tabs s') -> twf (tab_at s' j)) -> tabs_wf s'.
  Proof.
    intros Hw [Hl Hf] Hnew j Hj. destruct (Nat.lt_ge_cases j (length (g_tabs s))) as [H|H].
    - destruct (Hf j H) as [A1 [A2 [A3 A4]]]. destruct (Hw j H) as [B1 [B2 B3]].
      unfold twf. rewrite A1, A3, A4. auto.
    - apply Hnew. lia.
  Qed.


  (* ---------------- what a program counter says about locks and indices ---------------- *)

  (* the root-bucket lock the thread holds: (table, bucket) *)
  Definition holds (s : xstate) (p : pc) : option (nat * nat) :=
    match p with
    | PW_ChkRes cx tab | PW_ChkTab cx tab | PW_D1 cx tab _ _ | PW_D2 cx tab _ _ | PW_U1 cx tab _ _ _
    | PW_I1 cx tab _ _ | PW_I2 cx tab _ _ | PW_Sum cx tab _ _ | PW_N1 cx tab _ =>
        Some (tab, home (tab_at s tab) (cx_k cx))
    | PW_Unlock tab b _ => Some (tab, b)
    | PR_CpUnlock _ _ tab _ i => Some (tab, i)
    | PG_Unlock tab i _ => Some (tab, i)
    | _ => None
    end.

  Definition holds_mu (p : pc) : bool :=
    match p with
    | PR_FinStore _ | PR_FinBcast _ | PR_FinUnlock _ | PT_Load _ _ | PT_Wait _ _ | PT_Unlock _ _ => true
    | _ => false
    end.

  (* between winning the CAS on the resizing flag and resetting it *)
  Definition resizer (p : pc) : bool :=
    match p with
    | PR_Table _ _ | PR_ShSum _ _ _ _ | PR_Stat _ _ _ | PR_CpLock _ _ _ _ _ | PR_CpUnlock _ _ _ _ _
    | PR_Publish _ _ | PR_FinLock _ | PR_FinStore _ => true
    | _ => false
    end.

  (* a program counter at which the thread holds nothing and is not the resizer *)
  Definition quiet (p : pc) : Prop :=
    (forall s, holds s p = None) /\ holds_mu p = false /\ resizer p = false.

  Fixpoint valid (s : xstate) (p : pc) : Prop :=
    match p with
    | PL_Meta _ _ tab _ _ | PL_Next _ _ tab _ _ => tab < length (g_tabs s)
    | PL_Ent _ _ tab _ _ todo => tab < length (g_tabs s) /\ todo <> []
    | PW_Lock _ tab | PW_ChkRes _ tab | PW_ChkTab _ tab | PW_D1 _ tab _ _ | PW_D2 _ tab _ _ | PW_U1 _ tab _ _ _
    | PW_I1 _ tab _ _ | PW_I2 _ tab _ _ | PW_Sum _ tab _ _ | PW_N1 _ tab _ => tab < length (g_tabs s)
    | PW_Unlock tab b after | PW_Add tab b _ after =>
        tab < length (g_tabs s) /\ b < x_len (tab_at s tab) /\ valid s after /\ quiet after
    | PR_FastSum known _ _ _ => known < length (g_tabs s)
    | PR_ShSum _ tab _ _ => tab < length (g_tabs s)
    | PR_Stat hn _ tab =>
        tab < length (g_tabs s) /\ match hn with HGrow => True | _ => 2 <= x_len (tab_at s tab) end
    | PR_CpLock _ _ tab new i | PR_CpUnlock _ _ tab new i =>
        tab < length (g_tabs s) /\ new < length (g_tabs s) /\ i < x_len (tab_at s tab) /\ new <> tab
    | PR_Publish _ new => new < length (g_tabs s)
    | PG_Lock tab i | PG_Unlock tab i _ => tab < length (g_tabs s) /\ i < x_len (tab_at s tab)
    | PS_Sum tab _ _ => tab < length (g_tabs s)
    | _ => True
    end.

  Lemma valid_frame s s' p : frame s s' -> valid s p -> valid s' p.
  Proof.
    intros [Hl Hf]. induction p; cbn; intros H; auto; try lia.
    all: try (destruct H as [H1 [H2 [H3 H3']]]; split; [lia|]; split; [destruct (Hf _ H1) as [E _]; rewrite E; exact H2 | auto]).
    all: try (destruct H as [H1 [H2 [H3 H4]]]; split; [lia|]; split; [lia|]; split; [destruct (Hf _ H1) as [E _]; rewrite E; exact H3 | exact H4]).
    all: try (destruct H as [H1 H2]; split; [lia | destruct (Hf _ H1) as [E _]; rewrite E; exact H2]).
    all: try (destruct H as [H1 H2]; split; [lia | exact H2]).
  Qed.

  Lemma holds_frame s s' p : frame s s' -> valid s p -> holds s' p = holds s p.
  Proof.
    intros [Hl Hf] Hv. destruct p; cbn in *; auto;
      destruct (Hf _ Hv) as [E1 [E2 _]]; unfold XMachine.home; rewrite E1, E2; reflexivity.
  Qed.

  (* ---------------- the invariant ---------------- *)

  Record XInv (s : xstate) : Prop := {
    xi_wf : tabs_wf s;
    xi_cur : g_cur s < length (g_tabs s);
    xi_valid : forall t, valid s (g_pc s t);
    (* bucket locks: held exactly by the threads whose program counter says so *)
    xi_lockA : forall t tab b, holds s (g_pc s t) = Some (tab, b) -> lock_of (tab_at s tab) b = Some t;
    xi_lockB : forall tab b t, tab < length (g_tabs s) -> lock_of (tab_at s tab) b = Some t ->
                               holds s (g_pc s t) = Some (tab, b);
    (* resizeMu *)
    xi_muA : forall t, holds_mu (g_pc s t) = true -> g_rmu s = Some t;
    xi_muB : forall t, g_rmu s = Some t -> holds_mu (g_pc s t) = true;
    (* the resizing flag: set exactly while one thread is the resizer *)
    xi_rzA : forall t, resizer (g_pc s t) = true -> g_resizing s = true;
    xi_rzB : forall t t', resizer (g_pc s t) = true -> resizer (g_pc s t') = true -> t = t';
    xi_rzC : g_resizing s = true -> exists t, resizer (g_pc s t) = true;
  }.


  (* ---------------- preservation: the generic moves ---------------- *)

  Lemma set_pc_pc (s : xstate) t p t' : g_pc (set_pc s t p) t' = if Nat.eq_dec t' t then p else g_pc s t'.
  Proof. reflexivity. Qed.

  (* nothing shared changes, or only chain cells / counters: locks, mu, flag, cur, table shapes stay *)
  Definition same_protocol (s S : xstate) : Prop :=
    frame s S /\ length (g_tabs S) = length (g_tabs s) /\ g_cur S = g_cur s /\ g_resizing S = g_resizing s
    /\ g_rmu S = g_rmu s /\ (forall t', g_pc S t' = g_pc s t')
    /\ (forall tab b, lock_of (tab_at S tab) b = lock_of (tab_at s tab) b).

  Lemma same_protocol_refl s : same_protocol s s.
  Proof. unfold same_protocol. split; [apply frame_refl|]. repeat split; auto. Qed.

  Lemma same_protocol_cells s tab f :
    (forall tb, shape_eq tb (f tb)) -> (forall tb b, lock_of (f tb) b = lock_of tb b) ->
    same_protocol s (set_tab s tab f).
  Proof.
    intros Hs Hl. unfold same_protocol. split; [apply frame_set_tab; exact Hs|].
    split; [unfold set_tab; cbn; apply upd_nth_length|]. repeat split; auto.
    intros tab' b. destruct (Nat.lt_ge_cases tab (length (g_tabs s))) as [Hi|Hi].
    - rewrite (tab_at_set_tab nslots nstripes s tab f tab' Hi). destruct (Nat.eq_dec tab' tab); [subst; apply Hl | reflexivity].
    - unfold XMachine.tab_at, set_tab. cbn [g_tabs]. rewrite upd_nth_overflow by lia. reflexivity.
  Qed.

  Lemma move_pure s S t p' :
    XInv s -> same_protocol s S ->
    valid s p' -> holds s p' = holds s (g_pc s t) ->
    holds_mu p' = holds_mu (g_pc s t) -> resizer p' = resizer (g_pc s t) ->
    XInv (set_pc S t p').
  Proof.
    intros HI [Hf [Hlen [Hcur [Hrz [Hmu [Hpc Hlk]]]]]] Hv Hh Hm Hr.
    assert (HfS : frame s (set_pc S t p')) by (eapply frame_trans; [exact Hf | apply frame_set_pc]).
    assert (Hholds : forall q, valid s q -> holds (set_pc S t p') q = holds s q).
    { intros q Hq. apply (holds_frame s (set_pc S t p') q HfS Hq). }
    constructor.
    - eapply tabs_wf_frame; [exact (xi_wf s HI) | exact HfS |]. cbn [set_pc g_tabs]. intros j Hj. lia.
    - cbn [set_pc g_cur g_tabs]. rewrite Hcur, Hlen. exact (xi_cur s HI).
    - intros t'. rewrite set_pc_pc. destruct (Nat.eq_dec t' t).
      + apply (valid_frame s _ p' HfS Hv).
      + rewrite Hpc. apply (valid_frame s _ _ HfS (xi_valid s HI t')).
    - intros t' tab b. rewrite set_pc_pc. rewrite tab_at_set_pc, Hlk. destruct (Nat.eq_dec t' t) as [->|Hne].
      + rewrite (Hholds p' Hv), Hh. apply (xi_lockA s HI).
      + rewrite Hpc, (Hholds _ (xi_valid s HI t')). apply (xi_lockA s HI).
    - intros tab b t' Htab. cbn [set_pc g_tabs] in Htab. rewrite Hlen in Htab. rewrite tab_at_set_pc, Hlk. intros Hl.
      rewrite set_pc_pc. pose proof (xi_lockB s HI tab b t' Htab Hl) as H0. destruct (Nat.eq_dec t' t) as [->|Hne].
      + rewrite (Hholds p' Hv), Hh. exact H0.
      + rewrite Hpc, (Hholds _ (xi_valid s HI t')). exact H0.
    - intros t'. rewrite set_pc_pc. cbn [set_pc g_rmu]. rewrite Hmu. destruct (Nat.eq_dec t' t) as [->|Hne].
      + rewrite Hm. apply (xi_muA s HI).
      + rewrite Hpc. apply (xi_muA s HI).
    - intros t'. cbn [set_pc g_rmu]. rewrite Hmu. intros H0. rewrite set_pc_pc. pose proof (xi_muB s HI t' H0) as H1.
      destruct (Nat.eq_dec t' t) as [->|Hne]; [rewrite Hm; exact H1 | rewrite Hpc; exact H1].
    - intros t'. rewrite set_pc_pc. cbn [set_pc g_resizing]. rewrite Hrz. destruct (Nat.eq_dec t' t) as [->|Hne].
      + rewrite Hr. apply (xi_rzA s HI).
      + rewrite Hpc. apply (xi_rzA s HI).
    - intros t1 t2. rewrite !set_pc_pc.
      destruct (Nat.eq_dec t1 t) as [->|H1], (Nat.eq_dec t2 t) as [->|H2]; rewrite ?Hr, ?Hpc; try (intros; reflexivity);
        apply (xi_rzB s HI).
    - cbn [set_pc g_resizing]. rewrite Hrz. intros H0. destruct (xi_rzC s HI H0) as [t0 Ht0].
      exists t0. rewrite set_pc_pc. destruct (Nat.eq_dec t0 t) as [->|Hne]; [rewrite Hr; exact Ht0 | rewrite Hpc; exact Ht0].
  Qed.


  (* ---------------- preservation: the master lemma ---------------- *)

  (* two program counters that mean the same for the protocol *)
  Definition pc_equiv (p q : pc) : Prop :=
    (forall s, holds s p = holds s q) /\ holds_mu p = holds_mu q /\ resizer p = resizer q
    /\ (forall s, valid s q -> valid s p).

  Lemma pc_equiv_refl p : pc_equiv p p.
  Proof. unfold pc_equiv. auto. Qed.

  Lemma pc_equiv_wake p : pc_equiv (wake p) p.
  Proof. destruct p; try apply pc_equiv_refl. unfold pc_equiv. cbn. auto. Qed.

  Lemma XInv_step (s S : xstate) t p' :
    XInv s ->
    frame s S ->
    (forall j, length (g_tabs s) <= j < length (g_tabs S) ->
       twf (tab_at S j) /\ forall b, lock_of (tab_at S j) b = None) ->
    g_cur S < length (g_tabs S) ->
    (forall t', pc_equiv (g_pc S t') (g_pc s t')) ->
    valid S p' ->
    (* bucket locks: the others keep theirs, t holds exactly what p' says *)
    (forall tab b u, tab < length (g_tabs s) ->
       (lock_of (tab_at S tab) b = Some u <->
        (u <> t /\ lock_of (tab_at s tab) b = Some u) \/ (u = t /\ holds S p' = Some (tab, b)))) ->
    (forall tab b, holds S p' = Some (tab, b) -> tab < length (g_tabs s)) ->
    (* resizeMu *)
    (forall u, g_rmu S = Some u <-> (u <> t /\ g_rmu s = Some u) \/ (u = t /\ holds_mu p' = true)) ->
    (* the flag *)
    (g_resizing S = true <-> resizer p' = true \/ exists t', t' <> t /\ resizer (g_pc s t') = true) ->
    (resizer p' = true -> forall t', t' <> t -> resizer (g_pc s t') = false) ->
    XInv (set_pc S t p').
  Proof.
    intros HI Hf Hnew Hcur Hpc Hv Hlk Hlkt Hmu Hrz Hrzu.
    assert (HfS : frame s (set_pc S t p')) by (eapply frame_trans; [exact Hf | apply frame_set_pc]).
    assert (Hholds : forall t', holds (set_pc S t p') (g_pc S t') = holds s (g_pc s t')).
    { intros t'. destruct (Hpc t') as [E _]. rewrite E. apply (holds_frame s _ _ HfS (xi_valid s HI t')). }
    assert (Hvalid : forall t', valid (set_pc S t p') (g_pc S t')).
    { intros t'. destruct (Hpc t') as [_ [_ [_ E]]]. apply E. apply (valid_frame s _ _ HfS (xi_valid s HI t')). }
    constructor.
    - eapply tabs_wf_frame; [exact (xi_wf s HI) | exact HfS |]. cbn [set_pc g_tabs]. intros j Hj. apply Hnew. exact Hj.
    - exact Hcur.
    - intros t'. rewrite set_pc_pc. destruct (Nat.eq_dec t' t); [apply (valid_frame S _ _ (frame_set_pc S t p') Hv) | apply Hvalid].
    - intros t' tab b. rewrite set_pc_pc, tab_at_set_pc. destruct (Nat.eq_dec t' t) as [->|Hne].
      + intros Hh. rewrite (holds_frame S _ _ (frame_set_pc S t p') Hv) in Hh. apply (Hlk tab b t (Hlkt _ _ Hh)). right. auto.
      + rewrite Hholds. intros Hh.
        assert (Htab : tab < length (g_tabs s)).
        { pose proof (xi_valid s HI t') as Hvt. destruct (g_pc s t'); cbn in Hh, Hvt; try discriminate; inversion Hh; subst; tauto. }
        apply (Hlk tab b t' Htab). left. split; [exact Hne | apply (xi_lockA s HI); exact Hh].
    - intros tab b u Htab. rewrite tab_at_set_pc. cbn [set_pc g_tabs] in Htab. intros Hl. rewrite set_pc_pc.
      destruct (Nat.lt_ge_cases tab (length (g_tabs s))) as [Hold|Hnewt].
      + apply (Hlk tab b u Hold) in Hl. destruct Hl as [[Hne Hl]|[-> Hh]].
        * destruct (Nat.eq_dec u t); [contradiction|]. rewrite Hholds. apply (xi_lockB s HI tab b u Hold Hl).
        * destruct (Nat.eq_dec t t); [|congruence]. rewrite (holds_frame S _ _ (frame_set_pc S t p') Hv). exact Hh.
      + destruct (Hnew tab (conj Hnewt Htab)) as [_ Hfree]. rewrite Hfree in Hl. discriminate.
    - intros t'. rewrite set_pc_pc. cbn [set_pc g_rmu]. destruct (Nat.eq_dec t' t) as [->|Hne]; intros Hm.
      + apply Hmu. right. auto.
      + apply Hmu. left. split; [exact Hne|]. destruct (Hpc t') as [_ [E _]]. rewrite E in Hm. apply (xi_muA s HI). exact Hm.
    - intros u. cbn [set_pc g_rmu]. intros Hm. rewrite set_pc_pc. apply Hmu in Hm. destruct Hm as [[Hne Hm]|[-> Hm]].
      + destruct (Nat.eq_dec u t); [contradiction|]. destruct (Hpc u) as [_ [E _]]. rewrite E. apply (xi_muB s HI). exact Hm.
      + destruct (Nat.eq_dec t t); [exact Hm|congruence].
    - intros t'. rewrite set_pc_pc. cbn [set_pc g_resizing]. destruct (Nat.eq_dec t' t) as [->|Hne]; intros Hr.
      + apply Hrz. left. exact Hr.
      + apply Hrz. right. exists t'. split; [exact Hne|]. destruct (Hpc t') as [_ [_ [E _]]]. rewrite E in Hr. exact Hr.
    - intros t1 t2. rewrite !set_pc_pc.
      destruct (Nat.eq_dec t1 t) as [->|H1], (Nat.eq_dec t2 t) as [->|H2]; intros A B; auto.
      + destruct (Hpc t2) as [_ [_ [E _]]]. rewrite E in B. rewrite (Hrzu A t2 H2) in B. discriminate.
      + destruct (Hpc t1) as [_ [_ [E _]]]. rewrite E in A. rewrite (Hrzu B t1 H1) in A. discriminate.
      + destruct (Hpc t1) as [_ [_ [E1 _]]]. destruct (Hpc t2) as [_ [_ [E2 _]]]. rewrite E1 in A. rewrite E2 in B.
        apply (xi_rzB s HI t1 t2 A B).
    - cbn [set_pc g_resizing]. intros Hr. apply Hrz in Hr. destruct Hr as [Hr|[t' [Hne Hr]]].
      + exists t. rewrite set_pc_pc. destruct (Nat.eq_dec t t); [exact Hr|congruence].
      + exists t'. rewrite set_pc_pc. destruct (Nat.eq_dec t' t); [contradiction|]. destruct (Hpc t') as [_ [_ [E _]]]. rewrite E. exact Hr.
  Qed.


  (* ---------------- the three protocol groups, unchanged or changed by thread t ---------------- *)

  Definition mu_spec (s S : xstate) t p' : Prop :=
    forall u, g_rmu S = Some u <-> (u <> t /\ g_rmu s = Some u) \/ (u = t /\ holds_mu p' = true).

  Definition rz_spec (s S : xstate) t p' : Prop :=
    (g_resizing S = true <-> resizer p' = true \/ exists t', t' <> t /\ resizer (g_pc s t') = true)
    /\ (resizer p' = true -> forall t', t' <> t -> resizer (g_pc s t') = false).

  Definition lk_spec (s S : xstate) t p' : Prop :=
    forall tab b u, tab < length (g_tabs s) ->
      (lock_of (tab_at S tab) b = Some u <->
       (u <> t /\ lock_of (tab_at s tab) b = Some u) \/ (u = t /\ holds S p' = Some (tab, b))).

  Lemma mu_same s S t p' : XInv s -> g_rmu S = g_rmu s -> holds_mu p' = holds_mu (g_pc s t) -> mu_spec s S t p'.
  Proof.
    intros HI E Hm u. rewrite E. split.
    - intros H. destruct (Nat.eq_dec u t) as [->|Hne]; [right | left; auto].
      split; [reflexivity|]. rewrite Hm. apply (xi_muB s HI). exact H.
    - intros [[_ H]|[-> H]]; [exact H|]. rewrite Hm in H. apply (xi_muA s HI). exact H.
  Qed.

  Lemma mu_acquire s S t p' : XInv s -> g_rmu s = None -> g_rmu S = Some t -> holds_mu p' = true -> mu_spec s S t p'.
  Proof.
    intros HI E0 E1 Hm u. rewrite E1, E0. split.
    - intros H. inversion H; subst. right. auto.
    - intros [[_ H]|[-> _]]; [discriminate | reflexivity].
  Qed.

  Lemma mu_release s S t p' : XInv s -> holds_mu (g_pc s t) = true -> g_rmu S = None -> holds_mu p' = false -> mu_spec s S t p'.
  Proof.
    intros HI Ho E1 Hm u. rewrite E1, Hm. pose proof (xi_muA s HI t Ho) as Hs. split.
    - discriminate.
    - intros [[Hne H]|[_ H]]; [rewrite Hs in H; inversion H; congruence | discriminate].
  Qed.

  Lemma rz_same s S t p' : XInv s -> g_resizing S = g_resizing s -> resizer p' = resizer (g_pc s t) -> rz_spec s S t p'.
  Proof.
    intros HI E Hr. split.
    - rewrite E. split.
      + intros H. destruct (xi_rzC s HI H) as [t0 Ht0]. destruct (Nat.eq_dec t0 t) as [->|Hne].
        * left. rewrite Hr. exact Ht0.
        * right. eauto.
      + intros [H|[t' [_ H]]]; [rewrite Hr in H|]; eapply (xi_rzA s HI); eauto.
    - intros H t' Hne. rewrite Hr in H. destruct (resizer (g_pc s t')) eqn:E'; [|reflexivity].
      exfalso. apply Hne. apply (xi_rzB s HI t' t E' H).
  Qed.

  Lemma rz_set s S t p' : XInv s -> g_resizing s = false -> g_resizing S = true -> resizer p' = true -> rz_spec s S t p'.
  Proof.
    intros HI E0 E1 Hr. split.
    - rewrite E1. split; [intros _; left; exact Hr | reflexivity].
    - intros _ t' _. destruct (resizer (g_pc s t')) eqn:E'; [|reflexivity].
      pose proof (xi_rzA s HI t' E') as H. congruence.
  Qed.

  Lemma rz_reset s S t p' : XInv s -> resizer (g_pc s t) = true -> g_resizing S = false -> resizer p' = false -> rz_spec s S t p'.
  Proof.
    intros HI Ho E1 Hr. split.
    - rewrite E1, Hr. split; [discriminate|].
      intros [H|[t' [Hne H]]]; [discriminate|]. exfalso. apply Hne. apply (xi_rzB s HI t' t H Ho).
    - rewrite Hr. discriminate.
  Qed.

  Lemma lk_same s S t p' :
    XInv s -> (forall tab b, lock_of (tab_at S tab) b = lock_of (tab_at s tab) b) ->
    holds S p' = holds s (g_pc s t) -> lk_spec s S t p'.
  Proof.
    intros HI E Hh tab b u Htab. rewrite E, Hh. split.
    - intros H. destruct (Nat.eq_dec u t) as [->|Hne]; [right | left; auto].
      split; [reflexivity|]. apply (xi_lockB s HI tab b t Htab H).
    - intros [[_ H]|[-> H]]; [exact H|]. apply (xi_lockA s HI). exact H.
  Qed.

  Lemma lk_acquire s S t p' tab0 b0 :
    XInv s -> tab0 < length (g_tabs s) ->
    lock_of (tab_at s tab0) b0 = None -> holds s (g_pc s t) = None -> holds S p' = Some (tab0, b0) ->
    (forall tab b, lock_of (tab_at S tab) b =
                   if Nat.eq_dec tab tab0 then (if Nat.eq_dec b b0 then Some t else lock_of (tab_at s tab) b)
                   else lock_of (tab_at s tab) b) ->
    lk_spec s S t p'.
  Proof.
    intros HI Ht0 Hfree Hold Hnew E tab b u Htab. rewrite E, Hnew.
    destruct (Nat.eq_dec tab tab0) as [->|Hn1]; [destruct (Nat.eq_dec b b0) as [->|Hn2]|].
    - split.
      + intros H. inversion H; subst. right. auto.
      + intros [[_ H]|[-> _]]; [congruence | reflexivity].
    - split.
      + intros H. destruct (Nat.eq_dec u t) as [->|Hne]; [|left; auto].
        pose proof (xi_lockB s HI tab0 b t Htab H). congruence.
      + intros [[_ H]|[_ H]]; [exact H | inversion H; congruence].
    - split.
      + intros H. destruct (Nat.eq_dec u t) as [->|Hne]; [|left; auto].
        pose proof (xi_lockB s HI tab b t Htab H). congruence.
      + intros [[_ H]|[_ H]]; [exact H | inversion H; congruence].
  Qed.

  Lemma lk_release s S t p' tab0 b0 :
    XInv s -> holds s (g_pc s t) = Some (tab0, b0) -> holds S p' = None ->
    (forall tab b, lock_of (tab_at S tab) b =
                   if Nat.eq_dec tab tab0 then (if Nat.eq_dec b b0 then None else lock_of (tab_at s tab) b)
                   else lock_of (tab_at s tab) b) ->
    lk_spec s S t p'.
  Proof.
    intros HI Hold Hnew E tab b u Htab. rewrite E, Hnew.
    assert (Hone : forall tab b, lock_of (tab_at s tab) b = Some t -> tab < length (g_tabs s) -> tab = tab0 /\ b = b0).
    { intros tab' b' H Ht. pose proof (xi_lockB s HI tab' b' t Ht H) as H'. rewrite Hold in H'. inversion H'; auto. }
    destruct (Nat.eq_dec tab tab0) as [->|Hn1]; [destruct (Nat.eq_dec b b0) as [->|Hn2]|].
    - split; [discriminate|]. intros [[Hne H]|[_ H]]; [|discriminate].
      pose proof (xi_lockA s HI t tab0 b0 Hold) as H'. congruence.
    - split.
      + intros H. destruct (Nat.eq_dec u t) as [->|Hne]; [|left; auto]. destruct (Hone _ _ H Htab); congruence.
      + intros [[_ H]|[_ H]]; [exact H | discriminate].
    - split.
      + intros H. destruct (Nat.eq_dec u t) as [->|Hne]; [|left; auto]. destruct (Hone _ _ H Htab); congruence.
      + intros [[_ H]|[_ H]]; [exact H | discriminate].
  Qed.

  (* XInv_step with its three protocol groups packaged *)
  Lemma XInv_step' (s S : xstate) t p' :
    XInv s -> frame s S ->
    (forall j, length (g_tabs s) <= j < length (g_tabs S) ->
       twf (tab_at S j) /\ forall b, lock_of (tab_at S j) b = None) ->
    g_cur S < length (g_tabs S) ->
    (forall t', pc_equiv (g_pc S t') (g_pc s t')) ->
    valid S p' ->
    lk_spec s S t p' -> (forall tab b, holds S p' = Some (tab, b) -> tab < length (g_tabs s)) ->
    mu_spec s S t p' -> rz_spec s S t p' ->
    XInv (set_pc S t p').
  Proof.
    intros HI Hf Hn Hc Hp Hv Hl Hlt Hm [Hr1 Hr2]. eapply XInv_step; eauto.
  Qed.

  Lemma locks_after_set_lock s tab0 b0 o : XInv s -> tab0 < length (g_tabs s) -> b0 < x_len (tab_at s tab0) ->
    forall tab b, lock_of (tab_at (set_tab s tab0 (fun tb => set_lock tb b0 o)) tab) b =
                  if Nat.eq_dec tab tab0 then (if Nat.eq_dec b b0 then o else lock_of (tab_at s tab) b)
                  else lock_of (tab_at s tab) b.
  Proof.
    intros HI Ht Hb tab b. rewrite (tab_at_set_tab nslots nstripes s tab0 _ tab Ht).
    destruct (Nat.eq_dec tab tab0) as [->|]; [|reflexivity].
    rewrite lock_of_set_lock; [reflexivity|]. destruct (xi_wf s HI tab0 Ht) as [_ [E _]]. rewrite E. exact Hb.
  Qed.

  (* a step that takes a bucket lock (and may change cells, counters or private tables besides) *)
  Lemma acquire_gen s S t tab b p' :
    XInv s -> tab < length (g_tabs s) -> lock_of (tab_at s tab) b = None ->
    frame s S -> length (g_tabs S) = length (g_tabs s) -> g_cur S = g_cur s -> g_rmu S = g_rmu s ->
    g_resizing S = g_resizing s -> (forall t', g_pc S t' = g_pc s t') ->
    (forall tab' b', lock_of (tab_at S tab') b' =
                     if Nat.eq_dec tab' tab then (if Nat.eq_dec b' b then Some t else lock_of (tab_at s tab') b')
                     else lock_of (tab_at s tab') b') ->
    holds s (g_pc s t) = None -> holds s p' = Some (tab, b) ->
    holds_mu p' = holds_mu (g_pc s t) -> resizer p' = resizer (g_pc s t) -> valid s p' ->
    XInv (set_pc S t p').
  Proof.
    intros HI Ht Hfree Hf Hlen Hcur Hmu Hrz Hpc Hlk Hold Hnew Hm Hr Hv.
    eapply XInv_step'; [exact HI | exact Hf | .. ].
    - rewrite Hlen. intros j Hj. lia.
    - rewrite Hcur, Hlen. exact (xi_cur s HI).
    - intros t'. rewrite Hpc. apply pc_equiv_refl.
    - apply (valid_frame s S p' Hf Hv).
    - eapply lk_acquire with (tab0 := tab) (b0 := b); eauto. rewrite (holds_frame s S p' Hf Hv). exact Hnew.
    - intros tab' b' H. rewrite (holds_frame s S p' Hf Hv), Hnew in H. inversion H; subst. exact Ht.
    - apply mu_same; auto.
    - apply rz_same; auto.
  Qed.

  Lemma release_gen s S t tab b p' :
    XInv s -> holds s (g_pc s t) = Some (tab, b) ->
    frame s S -> length (g_tabs S) = length (g_tabs s) -> g_cur S = g_cur s -> g_rmu S = g_rmu s ->
    g_resizing S = g_resizing s -> (forall t', g_pc S t' = g_pc s t') ->
    (forall tab' b', lock_of (tab_at S tab') b' =
                     if Nat.eq_dec tab' tab then (if Nat.eq_dec b' b then None else lock_of (tab_at s tab') b')
                     else lock_of (tab_at s tab') b') ->
    holds s p' = None ->
    holds_mu p' = holds_mu (g_pc s t) -> resizer p' = resizer (g_pc s t) -> valid s p' ->
    XInv (set_pc S t p').
  Proof.
    intros HI Hold Hf Hlen Hcur Hmu Hrz Hpc Hlk Hnew Hm Hr Hv.
    eapply XInv_step'; [exact HI | exact Hf | .. ].
    - rewrite Hlen. intros j Hj. lia.
    - rewrite Hcur, Hlen. exact (xi_cur s HI).
    - intros t'. rewrite Hpc. apply pc_equiv_refl.
    - apply (valid_frame s S p' Hf Hv).
    - eapply lk_release with (tab0 := tab) (b0 := b); eauto. rewrite (holds_frame s S p' Hf Hv). exact Hnew.
    - intros tab' b' H. rewrite (holds_frame s S p' Hf Hv), Hnew in H. discriminate.
    - apply mu_same; auto.
    - apply rz_same; auto.
  Qed.

  (* a step that changes resizeMu, the flag or m.table but no bucket lock and no table *)
  Lemma flags_gen s t c r m p' :
    XInv s -> c < length (g_tabs s) ->
    holds s p' = holds s (g_pc s t) -> valid s p' ->
    mu_spec s (set_flags s c r m) t p' -> rz_spec s (set_flags s c r m) t p' ->
    XInv (set_pc (set_flags s c r m) t p').
  Proof.
    intros HI Hc Hh Hv Hm Hr.
    eapply XInv_step'; [exact HI | apply frame_set_flags | .. ].
    - cbn. intros j Hj. lia.
    - exact Hc.
    - intros t'. apply pc_equiv_refl.
    - apply (valid_frame s _ p' (frame_set_flags s c r m) Hv).
    - apply lk_same; [exact HI | reflexivity |].
      rewrite (holds_frame s _ p' (frame_set_flags s c r m) Hv). exact Hh.
    - intros tab b H. rewrite (holds_frame s _ p' (frame_set_flags s c r m) Hv), Hh in H.
      pose proof (xi_valid s HI t) as Hvt. destruct (g_pc s t); cbn in H, Hvt; try discriminate; inversion H; subst; tauto.
    - exact Hm.
    - exact Hr.
  Qed.

  Lemma lock_of_new len seed b : lock_of (new_xtable len seed) b = None.
  Proof.
    unfold lock_of, new_xtable. cbn. destruct (Nat.lt_ge_cases b len) as [H|H].
    - apply nth_repeat.
    - apply nth_overflow. rewrite repeat_length. exact H.
  Qed.

  (* a step that allocates a table (private until published) *)
  Lemma push_gen s S t len seed p' :
    XInv s -> 0 < len ->
    g_tabs S = g_tabs s ++ [new_xtable len seed] -> g_cur S = g_cur s -> g_rmu S = g_rmu s ->
    g_resizing S = g_resizing s -> (forall t', g_pc S t' = g_pc s t') ->
    (forall s0, holds s0 p' = None) -> holds s (g_pc s t) = None ->
    holds_mu p' = holds_mu (g_pc s t) -> resizer p' = resizer (g_pc s t) -> valid S p' ->
    XInv (set_pc S t p').
  Proof.
    intros HI Hlen Htabs Hcur Hmu Hrz Hpc Hh Hho Hm Hr Hv.
    assert (Hold : forall j, j < length (g_tabs s) -> tab_at S j = tab_at s j).
    { intros j Hj. unfold XMachine.tab_at. rewrite Htabs. apply app_nth1. exact Hj. }
    assert (Hf : frame s S).
    { split; [rewrite Htabs, app_length; cbn; lia|]. intros j Hj. rewrite (Hold j Hj). apply shape_refl. }
    eapply XInv_step'; [exact HI | exact Hf | .. ].
    - rewrite Htabs, app_length. cbn. intros j Hj. assert (j = length (g_tabs s)) by lia. subst j.
      unfold XMachine.tab_at. rewrite Htabs, app_nth2 by lia. rewrite Nat.sub_diag. cbn [nth].
      split; [apply twf_new; exact Hlen | apply lock_of_new].
    - rewrite Hcur, Htabs, app_length. pose proof (xi_cur s HI). lia.
    - intros t'. rewrite Hpc. apply pc_equiv_refl.
    - exact Hv.
    - intros tab b u Htab. rewrite (Hold tab Htab), Hh. split.
      + intros H. destruct (Nat.eq_dec u t) as [->|Hne]; [|left; auto].
        pose proof (xi_lockB s HI tab b t Htab H). congruence.
      + intros [[_ H]|[_ H]]; [exact H | discriminate].
    - intros tab b H. rewrite Hh in H. discriminate.
    - apply mu_same; auto.
    - apply rz_same; auto.
  Qed.

  Lemma frame_set_tab' s i f : shape_eq (tab_at s i) (f (tab_at s i)) -> frame s (set_tab s i f).
  Proof.
    intros Hf. split.
    - unfold set_tab. cbn. rewrite upd_nth_length. lia.
    - intros j Hj. destruct (Nat.lt_ge_cases i (length (g_tabs s))) as [Hi|Hi].
      + rewrite (tab_at_set_tab nslots nstripes s i f j Hi). destruct (Nat.eq_dec j i); [subst; apply Hf | apply shape_refl].
      + unfold XMachine.tab_at, set_tab. cbn [g_tabs]. rewrite upd_nth_overflow by lia. apply shape_refl.
  Qed.

  Lemma shape_trans a b c : shape_eq a b -> shape_eq b c -> shape_eq a c.
  Proof. unfold shape_eq. intros [A1 [A2 [A3 A4]]] [B1 [B2 [B3 B4]]]. repeat split; congruence. Qed.

  Lemma copy_chain_shape (src : list (@slot K V)) : forall dst acc,
    let r := fold_left (fun (a : xtable * Z) sl =>
               match s_ent sl with
               | Some (k, v) =>
                   let h := hash k (x_seed (fst a)) in
                   (set_chain (fst a) (idx h (x_len (fst a))) (fun c => place_slot nslots c (tag h) (k, v)), (snd a + 1)%Z)
               | None => a
               end) src (dst, acc) in
    shape_eq dst (fst r) /\ forall b, lock_of (fst r) b = lock_of dst b.
  Proof.
    induction src as [|sl r IH]; intros dst acc; cbn [fold_left].
    - split; [apply shape_refl | reflexivity].
    - destruct (s_ent sl) as [[k v]|]; [|apply IH].
      cbn [fst snd]. specialize (IH (set_chain dst (idx (hash k (x_seed dst)) (x_len dst)) (fun c => place_slot nslots c (tag (hash k (x_seed dst))) (k, v))) (acc + 1)%Z).
      cbv zeta in IH. destruct IH as [I1 I2]. split.
      + eapply shape_trans; [apply shape_set_chain | exact I1].
      + intros b. rewrite I2. reflexivity.
  Qed.

  (* ---------------- every step preserves the invariant ---------------- *)

  Lemma some_fst {A B} (g : A * B) a b : Some g = Some (a, b) -> a = fst g.
  Proof. intros H. inversion H. reflexivity. Qed.

  Ltac fin Hs :=
    cbv zeta in Hs; apply some_fst in Hs; subst; rewrite ?goto_state; cbn [fst].

  Ltac pure_move HI Hp :=
    eapply move_pure; [exact HI | first [apply same_protocol_refl | apply same_protocol_cells; intros;
                                          first [apply shape_set_chain | apply shape_add_size | reflexivity]] | .. ];
    rewrite ?Hp; cbn [norm valid holds holds_mu resizer]; auto;
    try solve [repeat split; auto; unfold quiet; cbn; repeat split; intros; reflexivity].

  Lemma xi_valid_at s t p : XInv s -> g_pc s t = p -> valid s p.
  Proof. intros HI <-. apply (xi_valid s HI). Qed.

  Lemma home_lt s tab k : XInv s -> tab < length (g_tabs s) -> home (tab_at s tab) k < x_len (tab_at s tab).
  Proof. intros HI Ht. unfold XMachine.home. apply Hidx. apply (xi_wf s HI tab Ht). Qed.

  Theorem step_pc_inv s t p s' ls : XInv s -> g_pc s t = p -> step_pc s t p = Some (s', ls) -> XInv s'.
  Proof.
    intros HI Hp Hs. pose proof (xi_valid_at s t p HI Hp) as Hv. revert Hs Hv. revert s' ls.
    destruct p; intros s' ls Hs Hv; cbn [XMachine.step_pc] in Hs; try discriminate.
    - (* PStart *) fin Hs. eapply move_pure; [exact HI | apply same_protocol_refl | .. ]; rewrite ?Hp; cbn; auto.
    - (* PL_Table *) fin Hs. pure_move HI Hp. exact (xi_cur s HI).
    - (* PL_Meta *) cbv zeta in Hs. destruct (probe _ _); fin Hs; pure_move HI Hp. split; [exact Hv | discriminate].
    - (* PL_Ent *)
      destruct todo as [|i rest]; [discriminate|]. cbv zeta in Hs.
      destruct Hv as [Hv _].
      destruct (s_ent _) as [[k' v]|]; [destruct (eqd k k')|]; fin Hs.
      + destruct lc; pure_move HI Hp.
      + destruct rest; pure_move HI Hp. split; [exact Hv | discriminate].
      + destruct rest; pure_move HI Hp. split; [exact Hv | discriminate].
    - (* PL_Next *)
      cbv zeta in Hs. destruct (Nat.ltb _ _); fin Hs; [pure_move HI Hp | destruct lc; pure_move HI Hp].
    - (* PW_Table *) fin Hs. pure_move HI Hp. exact (xi_cur s HI).
    - (* PW_Lock *)
      cbv zeta in Hs. destruct (lock_of _ _) eqn:El; [discriminate|]. fin Hs. cbn [norm].
      assert (Hb := home_lt s tab (cx_k cx) HI Hv).
      apply (acquire_gen s _ t tab (home (tab_at s tab) (cx_k cx)) _ HI Hv El).
      + apply frame_set_tab; intros; apply shape_set_lock.
      + unfold set_tab; cbn [g_tabs]; apply upd_nth_length.
      + reflexivity.
      + reflexivity.
      + reflexivity.
      + reflexivity.
      + apply locks_after_set_lock; auto.
      + rewrite Hp; reflexivity.
      + reflexivity.
      + rewrite Hp; reflexivity.
      + rewrite Hp; reflexivity.
      + exact Hv.
    - (* PW_ChkRes *)
      cbv zeta in Hs. assert (Hb := home_lt s tab (cx_k cx) HI Hv).
      destruct (g_resizing s); fin Hs; pure_move HI Hp.
    - (* PW_ChkTab *)
      cbv zeta in Hs. assert (Hb := home_lt s tab (cx_k cx) HI Hv).
      destruct (negb _); [fin Hs; pure_move HI Hp|].
      destruct (find_chain _ _ _ _ _ _ _ _) as [[pos old]|].
      + destruct (cx_lie cx); [fin Hs; pure_move HI Hp|].
        destruct (cx_f cx (Some old)); fin Hs; pure_move HI Hp.
      + destruct (first_free _ _).
        * destruct (cx_f cx None); fin Hs; pure_move HI Hp.
        * fin Hs; pure_move HI Hp.
    - (* PW_D1 *) fin Hs. pure_move HI Hp.
    - (* PW_D2 *)
      cbv zeta in Hs. assert (Hb := home_lt s tab (cx_k cx) HI Hv). fin Hs.
      destruct (meta_default _); [destruct (grow_only || _)|]; pure_move HI Hp.
    - (* PW_U1 *) assert (Hb := home_lt s tab (cx_k cx) HI Hv). fin Hs. pure_move HI Hp.
    - (* PW_I1 *) fin Hs. pure_move HI Hp.
    - (* PW_I2 *) assert (Hb := home_lt s tab (cx_k cx) HI Hv). fin Hs. pure_move HI Hp.
    - (* PW_Sum *)
      cbv zeta in Hs. assert (Hb := home_lt s tab (cx_k cx) HI Hv).
      destruct (Nat.ltb _ _); [fin Hs; pure_move HI Hp|].
      destruct (grow_needed _ _); [fin Hs; pure_move HI Hp|].
      destruct (cx_f cx None); fin Hs; pure_move HI Hp.
    - (* PW_N1 *) assert (Hb := home_lt s tab (cx_k cx) HI Hv). fin Hs. pure_move HI Hp.
    - (* PW_Unlock *)
      fin Hs. cbn [valid] in Hv. destruct Hv as [Ht [Hb [Hva [Hq1 [Hq2 Hq3]]]]].
      assert (Hn : (forall s0, holds s0 (norm p) = None) /\ holds_mu (norm p) = false /\ resizer (norm p) = false /\ valid s (norm p)).
      { destruct p; cbn [norm]; auto. }
      destruct Hn as [Hn1 [Hn2 [Hn3 Hn4]]].
      apply (release_gen s _ t tab b (norm p) HI); try reflexivity.
      + rewrite Hp. reflexivity.
      + apply frame_set_tab; intros; apply shape_set_lock.
      + unfold set_tab; cbn [g_tabs]; apply upd_nth_length.
      + apply locks_after_set_lock; auto.
      + apply Hn1.
      + rewrite Hp. exact Hn2.
      + rewrite Hp. exact Hn3.
      + exact Hn4.
    - (* PW_Add *)
      cbv zeta in Hs. fin Hs. cbn [valid] in Hv. destruct Hv as [Ht [Hb [Hva [Hq1 [Hq2 Hq3]]]]].
      assert (Hn : (forall s0, holds s0 (norm p) = None) /\ holds_mu (norm p) = false /\ resizer (norm p) = false /\ valid s (norm p)).
      { destruct p; cbn [norm]; auto. }
      destruct Hn as [Hn1 [Hn2 [Hn3 Hn4]]].
      eapply move_pure; [exact HI | apply same_protocol_cells; intros; first [apply shape_add_size | reflexivity] | .. ];
        rewrite ?Hp; cbn [holds holds_mu resizer]; auto.
    - (* PR_FastSum *)
      cbv zeta in Hs. destruct (Nat.ltb _ _); [fin Hs; pure_move HI Hp|].
      destruct (shrink_policy _ _); fin Hs; [pure_move HI Hp | destruct kt; pure_move HI Hp].
    - (* PR_CAS *)
      destruct (g_resizing s) eqn:Erz; fin Hs; cbn [norm].
      + pure_move HI Hp.
      + apply flags_gen; [exact HI | exact (xi_cur s HI) | rewrite Hp; reflexivity | exact I | |].
        * apply mu_same; [exact HI | reflexivity | rewrite Hp; reflexivity].
        * apply rz_set; [exact HI | exact Erz | reflexivity | reflexivity].
    - (* PR_Table *)
      cbv zeta in Hs. destruct hn; [| destruct (Nat.ltb minlen _) |]; fin Hs; cbn [norm].
      + pure_move HI Hp. split; [exact (xi_cur s HI) | exact I].
      + pure_move HI Hp. exact (xi_cur s HI).
      + pure_move HI Hp.
      + eapply push_gen with (len := minlen) (seed := seeds (length (g_tabs s))); try reflexivity;
          [exact HI | exact Hminlen | rewrite Hp; reflexivity | rewrite Hp; reflexivity | rewrite Hp; reflexivity |].
        cbn. unfold push_tab. cbn [g_tabs]. rewrite app_length. cbn. lia.
    - (* PR_ShSum *)
      cbv zeta in Hs. destruct (Nat.ltb _ _); [fin Hs; pure_move HI Hp|].
      destruct (Nat.ltb minlen _ && _) eqn:Esh; fin Hs; [|pure_move HI Hp].
      apply andb_true_iff in Esh. destruct Esh as [Esh _]. apply Nat.ltb_lt in Esh.
      pure_move HI Hp. split; [exact Hv | lia].
    - (* PR_Stat *)
      cbv zeta in Hs. cbn [valid] in Hv. destruct Hv as [Ht Hlen2].
      pose proof (xi_wf s HI tab Ht) as [Hpos _].
      set (tb := tab_at s tab) in *.
      assert (Hlen' : 0 < match hn with HGrow => x_len tb * 2 | _ => x_len tb / 2 end).
      { destruct hn; try lia; apply Nat.div_str_pos; lia. }
      destruct (Nat.ltb 0 (x_len tb)) eqn:E0; fin Hs; cbn [norm].
      + eapply push_gen with (len := match hn with HGrow => x_len tb * 2 | _ => x_len tb / 2 end)
                             (seed := seeds (length (g_tabs s))); try reflexivity;
          [exact HI | exact Hlen' | rewrite Hp; reflexivity | rewrite Hp; reflexivity | rewrite Hp; reflexivity |].
        cbn [valid g_tabs push_tab]. rewrite app_length. cbn [length].
        split; [lia|]. split; [lia|]. split; [|lia].
        unfold XMachine.tab_at. cbn [g_tabs push_tab]. rewrite app_nth1 by exact Ht. exact Hpos.
      + apply Nat.ltb_ge in E0. lia.
    - (* PR_CpLock *)
      cbv zeta in Hs. cbn [valid] in Hv. destruct Hv as [Ht [Hn [Hi Hne]]].
      destruct (lock_of _ _) eqn:El; [discriminate|].
      destruct (copy_chain _ _ _ _ _ _) as [nt copied] eqn:Ecp. fin Hs. cbn [norm].
      set (s1 := set_tab s tab (fun tb => set_lock tb i (Some t))) in *.
      assert (Hl1 : length (g_tabs s1) = length (g_tabs s)) by (unfold s1, set_tab; cbn [g_tabs]; apply upd_nth_length).
      pose proof (copy_chain_shape (chain_of (tab_at s tab) i) (tab_at s1 new) 0%Z) as Hcs.
      cbv zeta in Hcs. unfold XMachine.copy_chain in Ecp. rewrite Ecp in Hcs. cbn [fst] in Hcs. destruct Hcs as [Hsh Hlk].
      assert (Hnew1 : tab_at s1 new = tab_at s new).
      { unfold s1. rewrite (tab_at_set_tab nslots nstripes s tab _ new Ht). destruct (Nat.eq_dec new tab); [contradiction|reflexivity]. }
      apply (acquire_gen s _ t tab i _ HI Ht El).
      + eapply frame_trans; [apply frame_set_tab; intros; apply shape_set_lock|].
        apply frame_set_tab'. eapply shape_trans; [exact Hsh | apply shape_add_size].
      + unfold set_tab at 1. cbn [g_tabs]. rewrite upd_nth_length. exact Hl1.
      + reflexivity.
      + reflexivity.
      + reflexivity.
      + reflexivity.
      + intros tab' b'. rewrite (tab_at_set_tab nslots nstripes s1 new _ tab') by (rewrite Hl1; exact Hn).
        destruct (Nat.eq_dec tab' new) as [->|Hnn].
        * rewrite lock_of_add_size, Hlk, Hnew1. destruct (Nat.eq_dec new tab); [contradiction|reflexivity].
        * unfold s1. apply locks_after_set_lock; auto.
      + rewrite Hp. reflexivity.
      + reflexivity.
      + rewrite Hp. reflexivity.
      + rewrite Hp. reflexivity.
      + cbn. auto.
    - (* PR_CpUnlock *)
      cbv zeta in Hs. fin Hs. cbn [valid] in Hv. destruct Hv as [Ht [Hn [Hi Hne]]].
      assert (Hnx : forall q, q = (if Nat.ltb (S i) (x_len (tab_at s tab)) then PR_CpLock hn kt tab new (S i) else PR_Publish kt new) ->
                 (forall s0, holds s0 (norm q) = None) /\ holds_mu (norm q) = false /\ resizer (norm q) = true /\ valid s (norm q)).
      { intros q ->. destruct (Nat.ltb (S i) (x_len (tab_at s tab))) eqn:E; cbn; repeat split; auto. apply Nat.ltb_lt in E. exact E. }
      destruct (Hnx _ eq_refl) as [Hn1 [Hn2 [Hn3 Hn4]]].
      apply (release_gen s _ t tab i _ HI); try reflexivity.
      + rewrite Hp. reflexivity.
      + apply frame_set_tab; intros; apply shape_set_lock.
      + unfold set_tab; cbn [g_tabs]; apply upd_nth_length.
      + apply locks_after_set_lock; auto.
      + apply Hn1.
      + rewrite Hp. exact Hn2.
      + rewrite Hp. exact Hn3.
      + exact Hn4.
    - (* PR_Publish *)
      fin Hs. cbn [norm]. apply flags_gen; [exact HI | exact Hv | rewrite Hp; reflexivity | exact I | |].
      + apply mu_same; [exact HI | reflexivity | rewrite Hp; reflexivity].
      + apply rz_same; [exact HI | reflexivity | rewrite Hp; reflexivity].
    - (* PR_FinLock *)
      destruct (g_rmu s) eqn:Emu; [discriminate|]. fin Hs. cbn [norm].
      apply flags_gen; [exact HI | exact (xi_cur s HI) | rewrite Hp; reflexivity | exact I | |].
      + apply mu_acquire; [exact HI | exact Emu | reflexivity | reflexivity].
      + apply rz_same; [exact HI | reflexivity | rewrite Hp; reflexivity].
    - (* PR_FinStore *)
      fin Hs. cbn [norm]. apply flags_gen; [exact HI | exact (xi_cur s HI) | rewrite Hp; reflexivity | exact I | |].
      + apply mu_same; [exact HI | reflexivity | rewrite Hp; reflexivity].
      + apply rz_reset; [exact HI | rewrite Hp; reflexivity | reflexivity | reflexivity].
    - (* PR_FinBcast: every waiter becomes a thread about to re-lock resizeMu *)
      fin Hs. cbn [norm].
      match goal with |- XInv (set_pc ?S0 t ?P) => set (S := S0); set (P' := P) end.
      assert (Hfr : frame s S) by (split; [cbn; lia | intros; apply shape_refl]).
      eapply XInv_step'; [exact HI | exact Hfr | .. ].
      + cbn. intros j Hj. lia.
      + exact (xi_cur s HI).
      + intros t'. unfold S. cbn [g_pc]. apply pc_equiv_wake.
      + exact I.
      + apply lk_same; [exact HI | reflexivity | rewrite Hp; reflexivity].
      + intros tab b H. discriminate.
      + apply mu_same; [exact HI | reflexivity | rewrite Hp; reflexivity].
      + apply rz_same; [exact HI | reflexivity | rewrite Hp; reflexivity].
    - (* PR_FinUnlock *)
      fin Hs. assert (Hq : (forall s0, holds s0 (norm (run_cont kt)) = None) /\ holds_mu (norm (run_cont kt)) = false
                           /\ resizer (norm (run_cont kt)) = false /\ valid s (norm (run_cont kt))) by (destruct kt; cbn; auto).
      destruct Hq as [Hq1 [Hq2 [Hq3 Hq4]]].
      apply flags_gen; [exact HI | exact (xi_cur s HI) | rewrite Hp; apply Hq1 | exact Hq4 | |].
      + apply mu_release; [exact HI | rewrite Hp; reflexivity | reflexivity | exact Hq2].
      + apply rz_same; [exact HI | reflexivity | rewrite Hp; exact Hq3].
    - (* PT_Lock *)
      destruct (g_rmu s) eqn:Emu; [discriminate|]. fin Hs. cbn [norm].
      apply flags_gen; [exact HI | exact (xi_cur s HI) | rewrite Hp; reflexivity | exact I | |].
      + apply mu_acquire; [exact HI | exact Emu | reflexivity | reflexivity].
      + apply rz_same; [exact HI | reflexivity | rewrite Hp; reflexivity].
    - (* PT_Load *) destruct (g_resizing s); fin Hs; pure_move HI Hp.
    - (* PT_Wait *)
      fin Hs. cbn [norm]. apply flags_gen; [exact HI | exact (xi_cur s HI) | rewrite Hp; reflexivity | exact I | |].
      + apply mu_release; [exact HI | rewrite Hp; reflexivity | reflexivity | reflexivity].
      + apply rz_same; [exact HI | reflexivity | rewrite Hp; reflexivity].
    - (* PT_Relock *)
      destruct (g_rmu s) eqn:Emu; [discriminate|]. fin Hs. cbn [norm].
      apply flags_gen; [exact HI | exact (xi_cur s HI) | rewrite Hp; reflexivity | exact I | |].
      + apply mu_acquire; [exact HI | exact Emu | reflexivity | reflexivity].
      + apply rz_same; [exact HI | reflexivity | rewrite Hp; reflexivity].
    - (* PT_Unlock *)
      fin Hs.
      match goal with |- XInv (set_pc _ t (norm ?Q)) => set (q := Q) end.
      assert (Hq : (forall s0, holds s0 (norm q) = None) /\ holds_mu (norm q) = false
                   /\ resizer (norm q) = false /\ valid s (norm q)).
      { unfold q. destruct hn as [[]|]; destruct kt; cbn; auto. }
      destruct Hq as [Hq1 [Hq2 [Hq3 Hq4]]].
      apply flags_gen; [exact HI | exact (xi_cur s HI) | rewrite Hp; apply Hq1 | exact Hq4 | |].
      + apply mu_release; [exact HI | rewrite Hp; reflexivity | reflexivity | exact Hq2].
      + apply rz_same; [exact HI | reflexivity | rewrite Hp; exact Hq3].
    - (* PG_Table *)
      cbv zeta in Hs. destruct (Nat.ltb 0 _) eqn:E; fin Hs; pure_move HI Hp.
      split; [exact (xi_cur s HI) | apply Nat.ltb_lt in E; exact E].
    - (* PG_Lock *)
      cbv zeta in Hs. cbn [valid] in Hv. destruct Hv as [Ht Hi].
      destruct (lock_of _ _) eqn:El; [discriminate|]. fin Hs. cbn [norm].
      apply (acquire_gen s _ t tab i _ HI Ht El).
      + apply frame_set_tab; intros; apply shape_set_lock.
      + unfold set_tab; cbn [g_tabs]; apply upd_nth_length.
      + reflexivity.
      + reflexivity.
      + reflexivity.
      + reflexivity.
      + apply locks_after_set_lock; auto.
      + rewrite Hp; reflexivity.
      + reflexivity.
      + rewrite Hp; reflexivity.
      + rewrite Hp; reflexivity.
      + cbn. auto.
    - (* PG_Unlock *)
      cbv zeta in Hs. fin Hs. cbn [valid] in Hv. destruct Hv as [Ht Hi].
      assert (Hnx : forall q, q = (if Nat.ltb (S i) (x_len (tab_at s tab)) then PG_Lock tab (S i) else PRet XRUnit) ->
                 (forall s0, holds s0 (norm q) = None) /\ holds_mu (norm q) = false /\ resizer (norm q) = false /\ valid s (norm q)).
      { intros q ->. destruct (Nat.ltb (S i) (x_len (tab_at s tab))) eqn:E; cbn; repeat split; auto. apply Nat.ltb_lt in E. exact E. }
      destruct (Hnx _ eq_refl) as [Hn1 [Hn2 [Hn3 Hn4]]].
      apply (release_gen s _ t tab i _ HI); try reflexivity.
      + rewrite Hp. reflexivity.
      + apply frame_set_tab; intros; apply shape_set_lock.
      + unfold set_tab; cbn [g_tabs]; apply upd_nth_length.
      + apply locks_after_set_lock; auto.
      + apply Hn1.
      + rewrite Hp. exact Hn2.
      + rewrite Hp. exact Hn3.
      + exact Hn4.
    - (* PS_Table *) fin Hs. pure_move HI Hp. exact (xi_cur s HI).
    - (* PS_Sum *) cbv zeta in Hs. destruct (Nat.ltb _ _); fin Hs; pure_move HI Hp.
    - (* PC_Table *) fin Hs. pure_move HI Hp.
  Qed.


  Lemma start_pc_quiet o : (forall s0, holds s0 (start_pc o) = None) /\ holds_mu (start_pc o) = false
                           /\ resizer (start_pc o) = false /\ forall s0, valid s0 (start_pc o).
  Proof. destruct o; cbn; auto. destruct lie; cbn; auto. Qed.

  Theorem xstep_inv s t s' ls : XInv s -> xstep s t = Some (s', ls) -> XInv s'.
  Proof.
    intros HI Hs. unfold XMachine.xstep in Hs.
    destruct (g_pc s t) eqn:Hp; try (eapply step_pc_inv; [exact HI | exact Hp | exact Hs]).
    (* PIdle: invocation, then the first primitive *)
    destruct (g_todo s t) as [|o rest]; [discriminate|].
    set (S0 := {| g_tabs := g_tabs s; g_cur := g_cur s; g_resizing := g_resizing s; g_rmu := g_rmu s;
                  g_growths := g_growths s; g_shrinks := g_shrinks s; g_pc := g_pc s;
                  g_todo := fun t' => if Nat.eq_dec t' t then rest else g_todo s t' |}).
    destruct (start_pc_quiet o) as [Q1 [Q2 [Q3 Q4]]].
    assert (HI1 : XInv (set_pc S0 t (start_pc o))).
    { eapply move_pure; [exact HI | | apply Q4 | rewrite Hp; apply Q1 | rewrite Hp; exact Q2 | rewrite Hp; exact Q3].
      unfold same_protocol. split; [split; [cbn; lia | intros; apply shape_refl]|]. repeat split; auto. }
    change (match step_pc (set_pc S0 t (start_pc o)) t (start_pc o) with
            | Some (s2, ls0) => Some (s2, XMachine.XInv t o :: ls0)
            | None => Some (set_pc S0 t (start_pc o), [XMachine.XInv t o])
            end = Some (s', ls)) in Hs.
    destruct (step_pc (set_pc S0 t (start_pc o)) t (start_pc o)) as [[s2 ls0]|] eqn:E.
    - inversion Hs; subst. eapply step_pc_inv; [exact HI1 | | exact E].
      rewrite set_pc_pc. destruct (Nat.eq_dec t t); congruence.
    - inversion Hs; subst. exact HI1.
  Qed.

  Lemma xinit_inv len0 todo : 0 < len0 -> XInv (xinit nslots seeds nstripes len0 todo).
  Proof.
    intros Hl. unfold xinit. constructor; cbn [g_tabs g_cur g_pc g_rmu g_resizing length].
    - intros j Hj. cbn [g_tabs length] in Hj. assert (j = 0) by lia. subst. cbn. apply twf_new. exact Hl.
    - lia.
    - intros t. exact I.
    - intros t tab b H. discriminate.
    - intros tab b t Htab H. cbn [g_tabs length] in Htab. assert (tab = 0) by lia. subst.
      change (lock_of (new_xtable len0 (seeds 0)) b = Some t) in H. rewrite lock_of_new in H. discriminate.
    - intros t H. discriminate.
    - intros t H. discriminate.
    - intros t H. discriminate.
    - intros t t' H. discriminate.
    - intros H. discriminate.
  Qed.

  (* every state any schedule can reach *)
  Theorem xrun_inv sched : forall s, XInv s ->
    XInv (fst (@xrun K V eqd hash idx tag nslots seeds grow_needed shrink_policy probe nstripes minlen grow_only s sched)).
  Proof.
    induction sched as [|t rest IH]; intros s HI; cbn [XMachine.xrun]; [exact HI|].
    destruct (xstep s t) as [[s' ls]|] eqn:E.
    - specialize (IH s' (xstep_inv s t s' ls HI E)).
      destruct (XMachine.xrun _ _ _ _ _ _ _ _ _ _ _ _ s' rest) as [s'' ls']. exact IH.
    - apply IH. exact HI.
  Qed.

End Inv.
